import AsynqModel.Proofs.P13Obs
import AsynqModel.Proofs.P1Block
/-!
  P13, part 2: the relation between the observer state `W s = obs s.trace` and the machine state, as far as it holds
  in EVERY intermediate state of a step (`Base`, `LF`), and its preservation by the primitive operations of the
  machine (`emit`, `updTask`, `alloc`, `complete`, changes of the batch table).

  * `Base c s`: the observer's `isDone` is the machine's `computed`; a future the observer knows as a batch item is
    that item in the machine; the configuration is the observer's; no root task is expected; every item of every batch
    record is an allocated future of kind `item b.kind b.seq`.
  * `LF c m s`: no clause of `checkC05` has been violated so far, `Base`, every batch whose flush body the observer has
    seen is flushed in the machine, no flush body is in progress, and the observer's open scheduler flush is `m`
    (`LI = LF none` at step boundaries).
-/
namespace AsynqModel.Core.P13
open AsynqModel.Core AsynqModel.Core.Spec AsynqModel.Core.P1

abbrev W (s : State) : Watch := obs s.trace

/-- the fields `LF` looks at -/
def lview (w : Watch) : List (Nat × NewKind) × List (Nat × Outcome) × List (Nat × Nat) ×
    Option (Nat × Nat × List Nat × Bool × Bool) × Option (Nat × Nat × List Nat) × Bool :=
  (w.kinds, w.outs, w.flushedB, w.inFlush, w.curBody, w.expectRoot)

/-- the fields the relation to the control stack looks at -/
def sview (w : Watch) : List (Nat × Nat) × Option Nat := (w.syncStack, w.topRoot)

theorem lview_of_view {a b : Watch} (h : view a = view b) : lview a = lview b := by
  have e : ∀ w, lview w = (fun v : View => (v.kinds, v.outs, v.flushedB, v.inFlush, v.curBody, v.expectRoot)) (view w) :=
    fun _ => rfl
  rw [e, e, h]

theorem sview_of_view {a b : Watch} (h : view a = view b) : sview a = sview b := by
  have e : ∀ w, sview w = (fun v : View => (v.syncStack, v.topRoot)) (view w) := fun _ => rfl
  rw [e, e, h]

structure Base (c : Ctx) (s : State) : Prop where
  outs : ∀ f, (W s).isDone f = s.computed f
  kinds : ∀ f k q idx p m, (W s).kinds.lookup f = some (.item k q idx p m) →
    f < s.futs.length ∧ (s.fut f).kind = .item k q p m
  cfg : s.cfg = c.cfg
  xr : (W s).expectRoot = false
  items : ∀ b ∈ s.batches, ∀ i ∈ b.items, i < s.futs.length ∧ ∃ p m, (s.fut i).kind = .item b.kind b.seq p m

structure LF (c : Ctx) (m : Option (Nat × Nat × List Nat × Bool × Bool)) (s : State) : Prop where
  acc : Acc checkC05 c s.trace
  base : Base c s
  fb : ∀ k q, (k, q) ∈ (W s).flushedB → ∃ b, s.batch? k q = some b ∧ b.flushed = true
  cb : (W s).curBody = none
  inf : (W s).inFlush = m

abbrev LI (c : Ctx) (s : State) : Prop := LF c none s

/-! ### transport along changes the relation does not see -/

theorem Base.transport' {c : Ctx} {s s' : State} (h : Base c s) (h1 : (W s').kinds = (W s).kinds)
    (h2 : (W s').outs = (W s).outs) (h6 : (W s').expectRoot = (W s).expectRoot)
    (hlen : s'.futs.length = s.futs.length) (hcomp : ∀ f, s'.computed f = s.computed f)
    (hkind : ∀ f, (s'.fut f).kind = (s.fut f).kind) (hb : s'.batches = s.batches) (hc : s'.cfg = s.cfg) :
    Base c s' := by
  refine ⟨?_, ?_, hc.trans h.cfg, h6.trans h.xr, ?_⟩
  · intro f
    simp only [Watch.isDone, h2, hcomp]
    exact h.outs f
  · intro f k q idx p m hl
    rw [h1] at hl
    rw [hlen, hkind]
    exact h.kinds f k q idx p m hl
  · intro b hbm i hi
    rw [hb] at hbm
    rw [hlen, hkind]
    exact h.items b hbm i hi

theorem Base.transport {c : Ctx} {s s' : State} (h : Base c s) (hv : lview (W s') = lview (W s))
    (hlen : s'.futs.length = s.futs.length) (hcomp : ∀ f, s'.computed f = s.computed f)
    (hkind : ∀ f, (s'.fut f).kind = (s.fut f).kind) (hb : s'.batches = s.batches) (hc : s'.cfg = s.cfg) :
    Base c s' := by
  simp only [lview, Prod.mk.injEq] at hv
  obtain ⟨h1, h2, _, _, _, h6⟩ := hv
  exact h.transport' h1 h2 h6 hlen hcomp hkind hb hc

theorem LF.transport {c : Ctx} {m} {s s' : State} (h : LF c m s) (hacc : Acc checkC05 c s'.trace)
    (hv : lview (W s') = lview (W s))
    (hlen : s'.futs.length = s.futs.length) (hcomp : ∀ f, s'.computed f = s.computed f)
    (hkind : ∀ f, (s'.fut f).kind = (s.fut f).kind) (hb : s'.batches = s.batches) (hc : s'.cfg = s.cfg) :
    LF c m s' := by
  have hb0 := h.base.transport hv hlen hcomp hkind hb hc
  simp only [lview, Prod.mk.injEq] at hv
  obtain ⟨_, _, h3, h4, h5, _⟩ := hv
  refine ⟨hacc, hb0, ?_, h5.trans h.cb, h4.trans h.inf⟩
  intro k q hm
  rw [h3] at hm
  rw [batch?_of_batches hb]
  exact h.fb k q hm

/-- only fields the relation does not look at differ -/
theorem LF.congr {c : Ctx} {m} {s s' : State} (h : LF c m s) (ht : s'.trace = s.trace) (hf : s'.futs = s.futs)
    (hb : s'.batches = s.batches) (hc : s'.cfg = s.cfg) : LF c m s' := by
  have hfut : ∀ f, s'.fut f = s.fut f := fun f => by simp [State.fut, hf]
  refine h.transport (by rw [ht]; exact h.acc) (by simp only [W, ht]) (by rw [hf]) ?_ ?_ hb hc
  · intro f; simp [State.computed, State.out, hfut]
  · intro f; rw [hfut]

/-! ### one event -/

theorem LF.emit_plain {c : Ctx} {m} {s : State} (h : LF c m s) (e : Event) (he : plain e = true) :
    LF c m (s.emit e) :=
  h.transport ⟨h.acc, check_plain c _ e he⟩ (lview_of_view (view_plain _ e he)) rfl (fun _ => rfl) (fun _ => rfl) rfl rfl

theorem sview_emit_plain (s : State) (e : Event) (he : plain e = true) : sview (W (s.emit e)) = sview (W s) :=
  sview_of_view (view_plain _ e he)

/-- an event without a clause that changes at most the sync stack -/
theorem LF.emit_sync {c : Ctx} {m} {s : State} (h : LF c m s) (e : Event)
    (he : match e with | .syncE .. => True | .syncX .. => True | _ => False) : LF c m (s.emit e) := by
  refine h.transport ⟨h.acc, ?_⟩ ?_ rfl (fun _ => rfl) (fun _ => rfl) rfl rfl
  · cases e <;> first | rfl | cases he
  · cases e <;> first | rfl | cases he

theorem LF.emit_ret {c : Ctx} {s : State} (h : LI c s) (o : Outcome) : LI c (s.emit (.ret o)) := by
  refine h.transport ⟨h.acc, ?_⟩ (lview_of_view (view_ret _ o)) rfl (fun _ => rfl) (fun _ => rfl) rfl rfl
  show (if (W s).inFlush.isSome then some "flush-events-not-paired" else none) = none
  rw [h.inf]
  rfl

/-! ### allocation -/

theorem fut_alloc_self (s : State) (x : Fut) (nk : NewKind) : (s.alloc x nk).1.fut s.futs.length = x := by
  simp [State.alloc, State.fut, State.emit]

theorem computed_alloc_lt (s : State) (x : Fut) (nk : NewKind) (f : Nat) (h : f < s.futs.length) :
    (s.alloc x nk).1.computed f = s.computed f := by
  simp only [State.computed, State.out, fut_alloc_lt s x nk f h]

theorem computed_ge (s : State) (f : Nat) (h : s.futs.length ≤ f) : s.computed f = false := by
  simp [State.computed, out_none_of_ge s f h]

/-- does the observer learn the outcome of a future of this kind at creation -/
def bornDone : NewKind → Bool
  | .const _ => true
  | .errfut _ => true
  | _ => false

theorem lookup_cons_ne {β : Type} (l : List (Nat × β)) (f g : Nat) (v : β) (h : f ≠ g) :
    List.lookup f ((g, v) :: l) = List.lookup f l := by
  have : (f == g) = false := by simpa using h
  simp [List.lookup, this]

theorem lookup_cons_self {β : Type} (l : List (Nat × β)) (f : Nat) (v : β) :
    List.lookup f ((f, v) :: l) = some v := by
  simp [List.lookup]

theorem view_alloc {c : Ctx} {s : State} (hb : Base c s) (x : Fut) (nk : NewKind) :
    view (W (s.alloc x nk).1) =
      { view (W s) with kinds := (s.futs.length, nk) :: (W s).kinds,
                        outs := match nk with
                          | .const v => (s.futs.length, .ok (.a v)) :: (W s).outs
                          | .errfut e => (s.futs.length, .err (.u e)) :: (W s).outs
                          | _ => (W s).outs } :=
  view_new (W s) s.futs.length nk hb.xr

theorem isDone_alloc {c : Ctx} {s : State} (hb : Base c s) (x : Fut) (nk : NewKind) (f : Nat) :
    (W (s.alloc x nk).1).isDone f = if f = s.futs.length then bornDone nk else (W s).isDone f := by
  have ho := congrArg View.outs (view_alloc hb x nk)
  simp only [Watch.isDone]
  change (W (s.alloc x nk).1).outs = _ at ho
  rw [ho]
  have hn : (W s).isDone s.futs.length = false := by rw [hb.outs]; exact computed_ge s _ (Nat.le_refl _)
  simp only [Watch.isDone] at hn
  by_cases hf : f = s.futs.length
  · subst hf
    cases nk <;> simp [bornDone, hn]
  · cases nk <;> simp [hf, lookup_cons_ne _ _ _ _ hf]

theorem Base.alloc {c : Ctx} {s : State} (h : Base c s) (x : Fut) (nk : NewKind)
    (hx : x.out.isSome = bornDone nk) (hk : ∀ k q idx p m, nk = .item k q idx p m → x.kind = .item k q p m) :
    Base c (s.alloc x nk).1 := by
  have hv := view_alloc h x nk
  refine ⟨?_, ?_, h.cfg, ?_, ?_⟩
  · intro f
    rw [isDone_alloc h]
    by_cases hf : f = s.futs.length
    · subst hf
      simp only [if_true, State.computed, State.out, fut_alloc_self, hx]
    · simp only [hf, if_false]
      by_cases hlt : f < s.futs.length
      · rw [computed_alloc_lt s x nk f hlt, h.outs]
      · rw [h.outs, computed_ge s f (by omega), computed_ge _ f (by simp; omega)]
  · intro f k q idx p m hl
    have hkk : (W (s.alloc x nk).1).kinds = (s.futs.length, nk) :: (W s).kinds := congrArg View.kinds hv
    rw [hkk] at hl
    by_cases hf : f = s.futs.length
    · subst hf
      rw [lookup_cons_self] at hl
      injection hl with hl
      refine ⟨by simp, ?_⟩
      rw [fut_alloc_self]
      exact hk k q idx p m hl
    · rw [lookup_cons_ne _ _ _ _ hf] at hl
      obtain ⟨h1, h2⟩ := h.kinds f k q idx p m hl
      refine ⟨by simp; omega, ?_⟩
      rw [fut_alloc_lt s x nk f h1]
      exact h2
  · have : (W (s.alloc x nk).1).expectRoot = (W s).expectRoot := congrArg View.expectRoot hv
    rw [this]; exact h.xr
  · intro b hb i hi
    obtain ⟨h1, h2⟩ := h.items b hb i hi
    refine ⟨by simp; omega, ?_⟩
    rw [fut_alloc_lt s x nk i h1]
    exact h2

theorem LF.alloc {c : Ctx} {m} {s : State} (h : LF c m s) (x : Fut) (nk : NewKind)
    (hx : x.out.isSome = bornDone nk) (hk : ∀ k q idx p m, nk = .item k q idx p m → x.kind = .item k q p m) :
    LF c m (s.alloc x nk).1 := by
  have hv := view_alloc h.base x nk
  refine ⟨⟨h.acc, rfl⟩, h.base.alloc x nk hx hk, ?_, ?_, ?_⟩
  · intro k q hm
    have : (W (s.alloc x nk).1).flushedB = (W s).flushedB := congrArg View.flushedB hv
    rw [this] at hm
    exact h.fb k q hm
  · have : (W (s.alloc x nk).1).curBody = (W s).curBody := congrArg View.curBody hv
    rw [this]; exact h.cb
  · have : (W (s.alloc x nk).1).inFlush = (W s).inFlush := congrArg View.inFlush hv
    rw [this]; exact h.inf

theorem sview_alloc {c : Ctx} {s : State} (hb : Base c s) (x : Fut) (nk : NewKind) :
    sview (W (s.alloc x nk).1) = sview (W s) := by
  have hv := view_alloc hb x nk
  have h1 : (W (s.alloc x nk).1).syncStack = (W s).syncStack := congrArg View.syncStack hv
  have h2 : (W (s.alloc x nk).1).topRoot = (W s).topRoot := congrArg View.topRoot hv
  simp only [sview, h1, h2]

/-! ### completion -/

theorem isDone_complete (s : State) (f : Nat) (o : Outcome) (g : Nat) :
    (W (s.complete f o)).isDone g = if g = f then true else (W s).isDone g := by
  show (List.lookup g ((f, o) :: (W s).outs)).isSome = _
  by_cases hg : g = f
  · subst hg; simp
  · simp [hg, lookup_cons_ne _ _ _ _ hg, Watch.isDone]

theorem computed_complete (s : State) (f : Nat) (o : Outcome) (hl : f < s.futs.length) (g : Nat) :
    (s.complete f o).computed g = if g = f then true else s.computed g := by
  by_cases hg : g = f
  · subst hg; simp [State.computed, out_complete_self s g o hl]
  · simp [hg, State.computed, out_complete_ne s f g o hg]

theorem Base.complete {c : Ctx} {s : State} (h : Base c s) (f : Nat) (o : Outcome) (hl : f < s.futs.length) :
    Base c (s.complete f o) := by
  refine ⟨?_, ?_, h.cfg, h.xr, ?_⟩
  · intro g
    rw [isDone_complete, computed_complete s f o hl, h.outs]
  · intro g k q idx p m hlk
    have := h.kinds g k q idx p m hlk
    simpa using this
  · intro b hb i hi
    have := h.items b hb i hi
    simpa using this

/-- the `done` event of a future that is not a batch item -/
theorem check_done_other {c : Ctx} {s : State} (h : Base c s) (f : Nat) (o : Outcome) (hc : s.computed f = false)
    (hk : ∀ k q p m, (s.fut f).kind ≠ .item k q p m) : checkC05 c (W s) (.done f o) = none := by
  have hd : (W s).isDone f = false := by rw [h.outs]; exact hc
  simp only [checkC05, hd, Bool.false_eq_true, if_false]
  cases hlk : (W s).kinds.lookup f with
  | none => rfl
  | some nk =>
    cases nk with
    | item k q idx p m => exact absurd (h.kinds f k q idx p m hlk).2 (hk k q p m)
    | _ => rfl

theorem lview_complete (s : State) (f : Nat) (o : Outcome) :
    (W (s.complete f o)).kinds = (W s).kinds ∧ (W (s.complete f o)).flushedB = (W s).flushedB ∧
    (W (s.complete f o)).inFlush = (W s).inFlush ∧ (W (s.complete f o)).curBody = (W s).curBody ∧
    (W (s.complete f o)).expectRoot = (W s).expectRoot ∧ sview (W (s.complete f o)) = sview (W s) :=
  ⟨rfl, rfl, rfl, rfl, rfl, rfl⟩

theorem LF.complete {c : Ctx} {m} {s : State} (h : LF c m s) (f : Nat) (o : Outcome) (hc : s.computed f = false)
    (hl : f < s.futs.length) (hk : ∀ k q p m, (s.fut f).kind ≠ .item k q p m) : LF c m (s.complete f o) :=
  ⟨⟨h.acc, check_done_other h.base f o hc hk⟩, h.base.complete f o hl, h.fb, h.cb, h.inf⟩

/-! ### the batch table -/

/-- a change of the batch table that keeps every record's key and flushed flag and adds only well-kinded items -/
theorem LF.batches {c : Ctx} {m} {s s' : State} (h : LF c m s) (ht : s'.trace = s.trace) (hf : s'.futs = s.futs)
    (hc : s'.cfg = s.cfg)
    (hitems : ∀ b ∈ s'.batches, ∀ i ∈ b.items, i < s.futs.length ∧ ∃ p m, (s.fut i).kind = .item b.kind b.seq p m)
    (hfl : ∀ k q b, s.batch? k q = some b → b.flushed = true → ∃ b', s'.batch? k q = some b' ∧ b'.flushed = true) :
    LF c m s' := by
  have hfut : ∀ f, s'.fut f = s.fut f := fun f => by simp [State.fut, hf]
  have hw : W s' = W s := by simp only [W, ht]
  refine ⟨by rw [ht]; exact h.acc, ⟨?_, ?_, hc.trans h.base.cfg, by rw [hw]; exact h.base.xr, ?_⟩, ?_,
    by rw [hw]; exact h.cb, by rw [hw]; exact h.inf⟩
  · intro f
    rw [hw, h.base.outs]
    simp [State.computed, State.out, hfut]
  · intro f k q idx p m hl
    rw [hw] at hl
    rw [hf, hfut]
    exact h.base.kinds f k q idx p m hl
  · intro b hb i hi
    rw [hf, hfut]
    exact hitems b hb i hi
  · intro k q hm
    rw [hw] at hm
    obtain ⟨b, hb1, hb2⟩ := h.fb k q hm
    exact hfl k q b hb1 hb2

end AsynqModel.Core.P13
