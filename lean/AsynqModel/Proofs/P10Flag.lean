import AsynqModel.Proofs.P10Inv
import AsynqModel.Proofs.P3Main
/-
  P10, part 9: the invariant `CInv` about tasks that have scheduled their dependencies (`depsSched = true`) and wait
  for their second visit.  It is about states in which the MAX_TASK_STACK_SIZE guard has never fired (the guard
  empties the scheduler stack but leaves the flags set).

  * `disc`: stack/frame discipline - wait and generator frames alternate, a running generator's task is the entry
    on top of the part of the stack its `_execute` frame sees, the bases of nested `_execute` frames are nested;
  * `pos`: a flagged uncomputed task is on the stack, and everything above its topmost entry precedes it (`lt`);
  * `enter` / `nested`: the root of every `wait_for` frame nested above that entry precedes it.
-/
namespace AsynqModel.Core.P10
open AsynqModel.Core

def onGen (rest : List Ctl) : Prop := rest = [] ∨ ∃ t o rest', rest = Ctl.gen t o :: rest'
def onLoop (rest : List Ctl) : Prop := ∃ r b rest', rest = Ctl.waitLoop r b :: rest'

def disc : List Ctl → List Nat → Prop
  | [], st => st = []
  | .waitEnter _ :: rest, st => onGen rest ∧ disc rest st
  | .waitLoop _ b :: rest, st => b ≤ st.length ∧ onGen rest ∧ disc rest (st.drop (st.length - b))
  | .gen t _ :: rest, st => st.head? = some t ∧ onLoop rest ∧ disc rest st

/-- between its two visits: dependencies scheduled, not computed -/
def Flagged (s : State) (x : Nat) : Prop := (s.task x).depsSched = true ∧ s.computed x = false

structure CInv (s : State) : Prop where
  disc : disc s.ctl s.stack
  kind : ∀ x, (s.task x).depsSched = true → (s.fut x).kind = .task
  pos : ∀ x, Flagged s x → ∃ pre post, s.stack = pre ++ x :: post ∧ ∀ e, e ∈ pre → lt s e x
  enter : ∀ r rest, s.ctl = .waitEnter r :: rest → ∀ x, Flagged s x → lt s r x
  nested : ∀ r b, Ctl.waitLoop r b ∈ s.ctl → ∀ x, Flagged s x → x ∉ s.stack.take (s.stack.length - b) → lt s r x

theorem disc_bases : ∀ (c : List Ctl) (st : List Nat), disc c st → ∀ r b, Ctl.waitLoop r b ∈ c → b ≤ st.length
  | [], _, _, _, _, h => by cases h
  | .waitEnter _ :: rest, st, hd, r, b, h => by
    rcases List.mem_cons.1 h with h | h
    · cases h
    · exact disc_bases rest st hd.2 r b h
  | .waitLoop r0 b0 :: rest, st, hd, r, b, h => by
    rcases List.mem_cons.1 h with h | h
    · injection h with h1 h2; rw [h2]; exact hd.1
    · have := disc_bases rest _ hd.2.2 r b h
      simp at this
      omega
  | .gen _ _ :: rest, st, hd, r, b, h => by
    rcases List.mem_cons.1 h with h | h
    · cases h
    · exact disc_bases rest st hd.2.2 r b h

theorem drop_append_add {α : Type} (l1 l2 : List α) (k : Nat) : (l1 ++ l2).drop (l1.length + k) = l2.drop k := by
  rw [List.drop_append]
  simp

theorem take_append_add {α : Type} (l1 l2 : List α) (k : Nat) :
    (l1 ++ l2).take (l1.length + k) = l1 ++ l2.take k := by
  rw [List.take_append]
  simp [List.take_of_length_le]

theorem cinv_init (cfg : Cfg) (tops : List (Conv × Body)) (choices : List (Nat × Nat)) :
    CInv (initState cfg tops choices) := by
  have ht : ∀ t, (initState cfg tops choices).task t = {} := fun t => task_default _ t (Nat.zero_le _)
  refine ⟨rfl, ?_, ?_, ?_, ?_⟩
  · intro x h; rw [ht] at h; cases h
  · intro x h; have h1 := h.1; rw [ht] at h1; cases h1
  · intro r rest h; simp [initState] at h
  · intro r b h; simp [initState] at h

theorem flagged_back {s r : State} (b : Base s r) {x : Nat} (hs : (r.task x).depsSched = true → (s.task x).depsSched = true)
    (h : Flagged r x) : Flagged s x := by
  refine ⟨hs h.1, ?_⟩
  cases hc : s.computed x with
  | false => rfl
  | true => have := b.comp x hc; rw [h.2] at this; cases this

theorem kind_back {s r : State} (b : Base s r) (h : CInv s) {x : Nat}
    (hs : (r.task x).depsSched = true → (s.task x).depsSched = true) (hx : (r.task x).depsSched = true) :
    (r.fut x).kind = .task := by
  have hk := h.kind x (hs hx)
  have hl : x < s.futs.length := P2.lt_of_kind s x (by rw [hk]; intro h; cases h)
  rw [b.kind x hl]; exact hk

/-- a flagged task is on the stack; if the stack's head is `t`, then `t` precedes-or-equals it -/
theorem CInv.head_le {s : State} (h : CInv s) {t : Nat} (ht : s.stack.head? = some t) {x : Nat} (hx : Flagged s x) :
    le s t x := by
  obtain ⟨pre, post, hst, hpre⟩ := h.pos x hx
  rw [hst] at ht
  cases pre with
  | nil => simp at ht; exact Or.inl ht.symm
  | cons a pre => simp at ht; subst ht; exact (hpre a List.mem_cons_self).le

/-- the common case: the task stack does not change, no flag is set -/
theorem cinv_keep {s r : State} (h : CInv s) (b : Base s r) (sched : SchedAnti s r) (st : r.stack = s.stack)
    (hd : disc r.ctl r.stack)
    (hen : ∀ r0 rest, r.ctl = .waitEnter r0 :: rest → ∀ x, Flagged s x → lt s r0 x)
    (hsub : ∀ r0 b0, Ctl.waitLoop r0 b0 ∈ r.ctl → Ctl.waitLoop r0 b0 ∈ s.ctl) : CInv r := by
  refine ⟨hd, fun x hx => kind_back b h (sched x) hx, ?_, ?_, ?_⟩
  · intro x hx
    obtain ⟨pre, post, hst, hpre⟩ := h.pos x (flagged_back b (sched x) hx)
    exact ⟨pre, post, by rw [st, hst], fun e he => b.grow.lt (hpre e he)⟩
  · intro r0 rest hc x hx
    exact b.grow.lt (hen r0 rest hc x (flagged_back b (sched x) hx))
  · intro r0 b0 hm x hx hnot
    rw [st] at hnot
    exact b.grow.lt (h.nested r0 b0 (hsub r0 b0 hm) x (flagged_back b (sched x) hx) hnot)

theorem not_waitEnter_of_onGen {rest : List Ctl} (h : onGen rest) (r0 : Nat) (rest' : List Ctl) :
    rest ≠ .waitEnter r0 :: rest' := by
  rcases h with rfl | ⟨t, o, r', rfl⟩ <;> intro h <;> cases h

theorem not_waitEnter_of_onLoop {rest : List Ctl} (h : onLoop rest) (r0 : Nat) (rest' : List Ctl) :
    rest ≠ .waitEnter r0 :: rest' := by
  obtain ⟨r, b, r', rfl⟩ := h
  intro h; cases h

theorem cinv_step {s r : State} (sh : Sh s r) (h : CInv s) (hi : HInv s) (ht : TopsWS s)
    (hraise : s.raising = none) (hg : r.guardFired = false) : CInv r := by
  have b := sh.base ht
  have hir := b.hinv hi
  cases sh with
  | same hp c =>
    refine cinv_keep h b hp.sched hp.stack (by rw [c, hp.stack]; exact h.disc) ?_ (fun r0 b0 hm => by rw [c] at hm; exact hm)
    intro r0 rest hc; rw [c] at hc; exact h.enter r0 rest hc
  | top f hc hp c _ =>
    have hp := hp ht
    have hnil : s.stack = [] := by have := h.disc; rw [hc] at this; exact this
    refine cinv_keep h b hp.sched hp.stack ?_ ?_ ?_
    · rw [c, hp.stack, hnil]; exact ⟨.inl rfl, rfl⟩
    · intro r0 rest _ x hx
      obtain ⟨pre, post, hst, _⟩ := h.pos x hx
      rw [hnil] at hst; simp at hst
    · intro r0 b0 hm; rw [c] at hm; simp at hm
  | popRaise hr _ _ => rw [hraise] at hr; cases hr
  | popEnter root rest hc hp c =>
    have hd := h.disc
    rw [hc] at hd
    refine cinv_keep h b hp.sched hp.stack (by rw [c, hp.stack]; exact hd.2) ?_ ?_
    · intro r0 rest' hc'; rw [c] at hc'; exact absurd hc' (not_waitEnter_of_onGen hd.1 _ _)
    · intro r0 b0 hm; rw [c] at hm; rw [hc]; exact List.mem_cons_of_mem _ hm
  | enterLoop root rest hc _ hp sched c st =>
    have hd := h.disc
    rw [hc] at hd
    have hroot : ∀ x, Flagged s x → lt s root x := h.enter root rest hc
    refine ⟨?_, fun x hx => kind_back b h (sched x) hx, ?_, ?_, ?_⟩
    · rw [c, st]
      refine ⟨by simp, hd.1, ?_⟩
      have : (root :: s.stack).length - s.stack.length = 1 := by simp
      rw [this]; exact hd.2
    · intro x hx
      have hxs := flagged_back b (sched x) hx
      obtain ⟨pre, post, hst, hpre⟩ := h.pos x hxs
      refine ⟨root :: pre, post, by rw [st, hst]; rfl, ?_⟩
      intro e he
      rcases List.mem_cons.1 he with rfl | he
      · exact b.grow.lt (hroot x hxs)
      · exact b.grow.lt (hpre e he)
    · intro r0 rest' hc'; rw [c] at hc'; cases hc'
    · intro r0 b0 hm x hx hnot
      have hxs := flagged_back b (sched x) hx
      rw [c] at hm; rw [st] at hnot
      rcases List.mem_cons.1 hm with hm | hm
      · have hx0 : r0 = root := by injection hm
        rw [hx0]; exact b.grow.lt (hroot x hxs)
      · refine b.grow.lt (h.nested r0 b0 (by rw [hc]; exact List.mem_cons_of_mem _ hm) x hxs ?_)
        intro hin
        apply hnot
        rcases Nat.lt_or_ge s.stack.length b0 with hb | hb
        · have : s.stack.length - b0 = 0 := by omega
          rw [this] at hin; simp at hin
        · have : (root :: s.stack).length - b0 = (s.stack.length - b0) + 1 := by simp; omega
          rw [this, List.take_succ_cons]
          exact List.mem_cons_of_mem _ hin
  | guard root base rest hc e => subst e; simp [P3.guardReset, State.raiseOutOfWait] at hg
  | popStack root base rest top st hc _ hlen hst hp sched c st' hpop =>
    have hd := h.disc
    rw [hc] at hd
    have hlen' : base < st.length + 1 := by rw [hst] at hlen; simpa using hlen
    have hnot_top : ∀ x, Flagged r x → x ≠ top := by
      intro x hx hxt
      subst hxt
      rcases hpop with hp1 | hp2 | hp3
      · rw [hx.2] at hp1; cases hp1
      · rw [hx.1] at hp2; cases hp2
      · exact hp3 (h.kind x (sched x hx.1))
    refine ⟨?_, fun x hx => kind_back b h (sched x) hx, ?_, ?_, ?_⟩
    · rw [c, hc, st']
      refine ⟨by omega, hd.2.1, ?_⟩
      have h2 := hd.2.2
      rw [hst] at h2
      have : (top :: st).length - base = (st.length - base) + 1 := by simp; omega
      rw [this, List.drop_succ_cons] at h2
      exact h2
    · intro x hx
      have hxs := flagged_back b (sched x) hx
      obtain ⟨pre, post, hst2, hpre⟩ := h.pos x hxs
      rw [hst] at hst2
      cases pre with
      | nil =>
        simp at hst2
        exact absurd hst2.1.symm (hnot_top x hx)
      | cons a pre =>
        simp at hst2
        exact ⟨pre, post, by rw [st', hst2.2], fun e he => b.grow.lt (hpre e (List.mem_cons_of_mem _ he))⟩
    · intro r0 rest' hc'; rw [c, hc] at hc'; cases hc'
    · intro r0 b0 hm x hx hnot
      have hxs := flagged_back b (sched x) hx
      rw [c] at hm; rw [st'] at hnot
      refine b.grow.lt (h.nested r0 b0 hm x hxs ?_)
      rw [hst]
      intro hin
      rcases Nat.lt_or_ge st.length b0 with hb | hb
      · have : (top :: st).length - b0 = 0 := by simp; omega
        rw [this] at hin; simp at hin
      · have : (top :: st).length - b0 = (st.length - b0) + 1 := by simp; omega
        rw [this, List.take_succ_cons] at hin
        rcases List.mem_cons.1 hin with hin | hin
        · exact hnot_top x hx hin
        · exact hnot hin
  | pushDeps root base rest top st ds hc _ hlen hst hp hk hflag sched hds c st' =>
    have hd := h.disc
    rw [hc] at hd
    have hdl : ∀ d, d ∈ ds → lt s d top := fun d hd' => hi.named_lt (hi.deps top d (hds d hd'))
    have htl : top < s.futs.length := P2.lt_of_kind s top (by rw [hk]; intro h; cases h)
    have hbases : ∀ r0 b0, Ctl.waitLoop r0 b0 ∈ s.ctl → b0 < s.stack.length := by
      intro r0 b0 hm
      rw [hc] at hm
      rcases List.mem_cons.1 hm with hm | hm
      · injection hm with _ h2; rw [h2]; exact hlen
      · have := disc_bases rest _ hd.2.2 r0 b0 hm
        simp at this
        omega
    have hfl : ∀ x, Flagged r x → x ≠ top → Flagged s x := fun x hx hne => flagged_back b (sched x hne) hx
    refine ⟨?_, ?_, ?_, ?_, ?_⟩
    · rw [c, hc, st']
      refine ⟨by simp; omega, hd.2.1, ?_⟩
      have : (ds ++ s.stack).length - base = ds.length + (s.stack.length - base) := by simp; omega
      rw [this, drop_append_add]
      exact hd.2.2
    · intro x hx
      by_cases hxt : x = top
      · rw [hxt, b.kind top htl]; exact hk
      · exact kind_back b h (sched x hxt) hx
    · intro x hx
      by_cases hxt : x = top
      · exact ⟨ds, st, by rw [st', hst, hxt], fun e he => by rw [hxt]; exact b.grow.lt (hdl e he)⟩
      · have hxs := hfl x hx hxt
        obtain ⟨pre, post, hst2, hpre⟩ := h.pos x hxs
        rw [hst] at hst2
        cases pre with
        | nil => simp at hst2; exact absurd hst2.1.symm hxt
        | cons a pre =>
          simp at hst2
          refine ⟨ds ++ a :: pre, post, by rw [st', hst, hst2.1, hst2.2]; simp, ?_⟩
          intro e he
          rcases List.mem_append.1 he with he | he
          · have h1 : lt s top x := by rw [hst2.1]; exact hpre a List.mem_cons_self
            exact b.grow.lt (lt_trans (hdl e he) h1)
          · exact b.grow.lt (hpre e he)
    · intro r0 rest' hc'; rw [c, hc] at hc'; cases hc'
    · intro r0 b0 hm x hx hnot
      rw [c] at hm; rw [st'] at hnot
      have hb0 := hbases r0 b0 hm
      have hk' : (ds ++ s.stack).length - b0 = ds.length + (s.stack.length - b0) := by simp; omega
      rw [hk', take_append_add] at hnot
      by_cases hxt : x = top
      · exfalso
        apply hnot
        rw [hxt]
        refine List.mem_append_right _ ?_
        have : s.stack.length - b0 = (s.stack.length - b0 - 1) + 1 := by omega
        rw [this, hst, List.take_succ_cons]
        exact List.mem_cons_self
      · refine b.grow.lt (h.nested r0 b0 hm x (hfl x hx hxt) ?_)
        intro hin
        exact hnot (List.mem_append_right _ hin)
  | enterGen root base rest top st old hc _ hlen hst hp c =>
    refine cinv_keep h b hp.sched hp.stack ?_ ?_ ?_
    · rw [c, hp.stack]
      refine ⟨by rw [hst]; rfl, ⟨root, base, rest, hc⟩, h.disc⟩
    · intro r0 rest' hc'; rw [c] at hc'; cases hc'
    · intro r0 b0 hm; rw [c] at hm
      rcases List.mem_cons.1 hm with hm | hm
      · cases hm
      · exact hm
  | reentrant _ _ _ _ _ _ _ _ _ _ e =>
    subst e
    refine cinv_keep h b (fun _ h => h) rfl h.disc (fun r0 rest hc => h.enter r0 rest hc) (fun _ _ hm => hm)
  | popLoop root base rest hc _ hlen hp c =>
    have hd := h.disc
    rw [hc] at hd
    refine cinv_keep h b hp.sched hp.stack ?_ ?_ ?_
    · rw [c, hp.stack]
      have h2 := hd.2.2
      have : s.stack.length - base = 0 := by omega
      rw [this] at h2; exact h2
    · intro r0 rest' hc'; rw [c] at hc'; exact absurd hc' (not_waitEnter_of_onGen hd.2.1 _ _)
    · intro r0 b0 hm; rw [c] at hm; rw [hc]; exact List.mem_cons_of_mem _ hm
  | flush root base rest hc _ hlen hp c =>
    have hd := h.disc
    rw [hc] at hd
    refine cinv_keep h b hp.sched hp.stack ?_ ?_ ?_
    · rw [c, hp.stack]
      have h2 := hd.2.2
      have : s.stack.length - base = 0 := by omega
      rw [this] at h2; exact ⟨hd.2.1, h2⟩
    · intro r0 rest' hc' x hx
      rw [c] at hc'
      have hr0 : r0 = root := by injection hc' with h1 _; injection h1 with h1; exact h1.symm
      rw [hr0]
      refine h.nested root base (by rw [hc]; exact List.mem_cons_self) x hx ?_
      have : s.stack.length - base = 0 := by omega
      rw [this]; simp
    · intro r0 b0 hm; rw [c] at hm; rw [hc]
      rcases List.mem_cons.1 hm with hm | hm
      · cases hm
      · exact List.mem_cons_of_mem _ hm
  | genLeave t old rest hc hp c =>
    have hd := h.disc
    rw [hc] at hd
    refine cinv_keep h b hp.sched hp.stack (by rw [c, hp.stack]; exact hd.2.2) ?_ ?_
    · intro r0 rest' hc'; rw [c] at hc'; exact absurd hc' (not_waitEnter_of_onLoop hd.2.1 _ _)
    · intro r0 b0 hm; rw [c] at hm; rw [hc]; exact List.mem_cons_of_mem _ hm
  | genCall t old rest f hc hp c n =>
    have hd := h.disc
    rw [hc] at hd
    have hft : lt r f t := hir.named_lt (n hi)
    -- `lt s f t` is not available (f may be new); work in `r` directly
    refine ⟨?_, fun x hx => kind_back b h (hp.sched x) hx, ?_, ?_, ?_⟩
    · rw [c, hp.stack, hc]; exact ⟨.inr ⟨t, old, rest, rfl⟩, hd⟩
    · intro x hx
      obtain ⟨pre, post, hst, hpre⟩ := h.pos x (flagged_back b (hp.sched x) hx)
      exact ⟨pre, post, by rw [hp.stack, hst], fun e he => b.grow.lt (hpre e he)⟩
    · intro r0 rest' hc' x hx
      rw [c] at hc'
      have hr0 : r0 = f := by injection hc' with h1 _; injection h1 with h1; exact h1.symm
      rw [hr0]
      exact lt_le_trans hft (b.grow.le (h.head_le hd.1 (flagged_back b (hp.sched x) hx)))
    · intro r0 b0 hm x hx hnot
      rw [c] at hm; rw [hp.stack] at hnot
      rcases List.mem_cons.1 hm with hm | hm
      · cases hm
      · exact b.grow.lt (h.nested r0 b0 hm x (flagged_back b (hp.sched x) hx) hnot)

/-- `CInv` holds in every reachable state of a well-scoped program in which the guard has never fired -/
theorem ws_cinv {s : State} (h : WSReach s) (hg : s.guardFired = false) : CInv s := by
  induction h with
  | init cfg tops choices h => exact cinv_init cfg tops choices
  | @step s hs ih =>
    have hg0 := P3.guard_mono s hg
    have hi := ws_hinv hs
    have hcore := (P3.reach_core s hs.reach hg0).1
    exact cinv_step (ws_step_sh hs) (ih hg0) hi.1 hi.2 hcore.raising hg

end AsynqModel.Core.P10
