import AsynqModel.Proofs.CtxExit2
/-! `enter c` of the model is accepted by the observer and keeps the relation (helper lemmas for Theorems/C06c.lean) -/
namespace AsynqModel.Contexts

theorem afterResume_none (cfg : Cfg) (run : Bool) (r : St × List Call × Option Exc) (c : Nat) (h : r.2.2 = none) :
    afterResume cfg run r c = (r.1, r.2.1, .none) := by
  rcases r with ⟨a, b, e⟩; simp at h; subst h; rfl

theorem afterResume_some (cfg : Cfg) (run : Bool) (r : St × List Call × Option Exc) (c : Nat) (e : Exc) (h : r.2.2 = some e) :
    afterResume cfg run r c =
      if cfg.cleanEnter then (delAttr { r.1 with reg := if run then r.1.reg.erase c else r.1.reg } c, r.2.1, .exc e)
      else (r.1, r.2.1, .exc e) := by
  rcases r with ⟨a, b, e'⟩; simp at h; subst h; rfl

theorem enterOp_eq (cfg : Cfg) (defs : List Kind) (s : St) (c : Nat) :
    enterOp cfg defs s c =
      if !isAsyncCtx (kindOf defs c) then (enterS1 s c, [], .none)
      else afterResume cfg (s.phase == .running) (resumeCtx defs (enterS1 s c) c) c := rfl

theorem CoreA_open (defs : List Kind) (nvars : Nat) (s : St) (w : W) (h : Rel defs nvars s w) (c : Nat)
    (hlt : c < defs.length) (hcl : isOpen w c = false) : CoreA defs nvars (enterS1 s c) (openCtx w c) := by
  have hnot : ∀ o, (c, o) ∉ w.opened := fun o hm => by
    have := (isOpen_iff w c).mpr ⟨o, hm⟩; rw [hcl] at this; exact absurd this (by simp)
  have hnr : c ∉ s.reg := by rw [h.core.reg, mem_ownedIds]; exact hnot true
  have hnr' : s.reg.contains c = false := by simpa using hnr
  have hcl' : c < s.cs.length := by rw [h.core.cslen]; exact hlt
  have hold : ∀ d, (getC (enterS1 s c).cs d).old = (getC s.cs d).old := by
    intro d
    by_cases hd : d = c
    · subst hd; show (getC (upd s.cs d _) d).old = _; rw [getC_upd_same _ _ _ hcl']
    · show (getC (upd s.cs c _) d).old = _; rw [getC_upd_ne _ _ _ _ hd]
  refine { reg := ?_, attr := ?_, lt := ?_, nodup := ?_, cslen := by simp [enterS1, upd_length, h.core.cslen],
           vlen := h.core.vlen, stkNodup := h.core.stkNodup, stkOv := h.core.stkOv,
           chain := fun hv x hx => Chain_congr defs s.cs _ x _ _ (fun d _ => hold d) (h.core.chain hv x hx) }
  · rw [ownedIds_openCtx, ← h.core.reg, ← h.phase]
    simp only [enterS1, hnr', Bool.not_false, Bool.and_true]
    cases (s.phase == Phase.running) <;> simp
  · intro d o hm
    rcases (openCtx_mem w c d o).mp hm with hm | ⟨rfl, rfl⟩
    · have hd : d ≠ c := fun e => hnot o (e ▸ hm)
      show (getC (upd s.cs c _) d).attr = _
      rw [getC_upd_ne _ _ _ _ hd]; exact h.core.attr d o hm
    · show (getC (upd s.cs d _) d).attr = _
      rw [getC_upd_same _ _ _ hcl', h.phase]
  · intro d o hm
    rcases (openCtx_mem w c d o).mp hm with hm | ⟨rfl, rfl⟩
    · exact h.core.lt d o hm
    · exact hlt
  · show ((w.opened ++ [(c, w.phase == .running)]).map (·.1)).Nodup
    rw [List.map_append, List.nodup_append]
    refine ⟨h.core.nodup, by simp, ?_⟩
    intro a ha b hb
    simp at hb; subst hb
    obtain ⟨p, hp, rfl⟩ := List.mem_map.mp ha
    intro e
    exact hnot p.2 (by rw [← e]; exact hp)

/-- assembling the relation after an enter -/
theorem Rel_enter (defs : List Kind) (nvars : Nat) (s : St) (w : W) (h : Rel defs nvars s w) (c : Nat)
    (hcl : isOpen w c = false) (s' : St) (w' : W) (hcore : CoreA defs nvars s' w') (hop : w'.opened = (openCtx w c).opened)
    (hstk : ∀ d ∈ w'.stk, d ∈ w.stk ∨ d = c)
    (hph : s'.phase = s.phase) (hact : s'.active = s.active) (hst : s'.status = s.status)
    (hwp : w'.phase = w.phase) (hwa : w'.act = w.act) (hws : w'.status = w.status) (hlive : w'.stopped = false) :
    Rel defs nvars s' w' := by
  have hnot : ∀ o, (c, o) ∉ w.opened := fun o hm => by
    have := (isOpen_iff w c).mpr ⟨o, hm⟩; rw [hcl] at this; exact absurd this (by simp)
  exact
  { core := hcore, phase := by rw [hph, hwp]; exact h.phase, active := by rw [hact, hwa]; exact h.active,
    status := by rw [hst, hws]; exact h.status, runAct := by rw [hwp, hwa]; exact h.runAct,
    susAct := by rw [hwp, hwa]; exact h.susAct, statNone := by rw [hwp, hws]; exact h.statNone,
    stkOpen := fun d hd => by
      rcases hstk d hd with h1 | rfl
      · obtain ⟨o, ho⟩ := (isOpen_iff w d).mp (h.stkOpen d h1)
        exact (isOpen_iff w' d).mpr ⟨o, by rw [hop]; exact (openCtx_mem w c d o).mpr (Or.inl ho)⟩
      · exact (isOpen_iff w' d).mpr ⟨_, by rw [hop]; exact (openCtx_mem w d d _).mpr (Or.inr ⟨rfl, rfl⟩)⟩,
    stkAct := fun ha d hd => by
      have hwa' : w.act = false := by rw [← hwa]; exact ha
      have hrun : (w.phase == Phase.running) = false := by
        cases hp : w.phase <;> simp
        exact absurd (h.runAct hp) (by rw [hwa']; simp)
      cases ho : ownedOpen w' d with
      | false => rfl
      | true =>
        have hm := (ownedOpen_iff w' d).mp ho
        rw [hop] at hm
        rcases (openCtx_mem w c d true).mp hm with hm1 | ⟨_, h2⟩
        · rcases hstk d hd with h1 | h1
          · have := h.stkAct hwa' d h1
            rw [(ownedOpen_iff w d).mpr hm1] at this; exact absurd this (by simp)
          · rw [h1] at hm1; exact absurd hm1 (hnot true)
        · rw [hrun] at h2; exact absurd h2 (by simp),
    live := hlive }

end AsynqModel.Contexts
