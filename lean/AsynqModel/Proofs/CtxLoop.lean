import AsynqModel.Proofs.CtxEvent
/-! the loops of `_pause_contexts` / `_resume_contexts` against the observer (helper lemmas for Theorems/C06c.lean) -/
namespace AsynqModel.Contexts

theorem pauseLoop_cons (defs : List Kind) (c : Nat) (rest : List Nat) (s : St) (calls : List Call) (err : Option Exc) :
    pauseLoop defs (c :: rest) s calls err =
      pauseLoop defs rest (pauseCtx defs s c).1 (calls ++ (pauseCtx defs s c).2.1)
        (keepLast (pauseCtx defs s c).2.2 err) := rfl

theorem resumeLoop_cons (defs : List Kind) (c : Nat) (rest : List Nat) (s : St) (calls : List Call) (err : Option Exc) :
    resumeLoop defs (c :: rest) s calls err =
      resumeLoop defs rest (resumeCtx defs s c).1 (calls ++ (resumeCtx defs s c).2.1)
        (keepFirst err (resumeCtx defs s c).2.2) := rfl

theorem pauseLoop_sim (defs : List Kind) (nvars : Nat) : ∀ (l : List Nat) (s : St) (w : W) (calls0 : List Call)
    (err0 : Option Exc), CoreA defs nvars s w →
    ∃ cs errs, walk defs false l cs = some errs ∧
      (pauseLoop defs l s calls0 err0).2.1 = calls0 ++ cs ∧
      (pauseLoop defs l s calls0 err0).2.2 = keepLast (lastSome errs) err0 ∧
      CoreA defs nvars (pauseLoop defs l s calls0 err0).1 (l.foldl (popOv defs) w) ∧
      (pauseLoop defs l s calls0 err0).1.reg = s.reg ∧ (pauseLoop defs l s calls0 err0).1.active = s.active ∧
      (pauseLoop defs l s calls0 err0).1.phase = s.phase ∧ (pauseLoop defs l s calls0 err0).1.status = s.status := by
  intro l
  induction l with
  | nil =>
    intro s w calls0 err0 h
    exact ⟨[], [], rfl, by simp [pauseLoop], by simp [pauseLoop, lastSome, keepLast], by simpa [pauseLoop] using h, rfl, rfl, rfl, rfl⟩
  | cons c rest ih =>
    intro s w calls0 err0 h
    obtain ⟨hcore, hev, hreg, hact, hph, hst⟩ := pause_event defs nvars s w c h
    obtain ⟨cs, errs, hwalk, hcalls, herr, hcore', hreg', hact', hph', hst'⟩ :=
      ih (pauseCtx defs s c).1 (popOv defs w c) (calls0 ++ (pauseCtx defs s c).2.1)
        (keepLast (pauseCtx defs s c).2.2 err0) hcore
    refine ⟨(pauseCtx defs s c).2.1 ++ cs, (pauseCtx defs s c).2.2 :: errs, walk_cons defs false c _ _ rest cs errs hev hwalk, ?_, ?_, ?_, ?_, ?_, ?_, ?_⟩
    · rw [pauseLoop_cons, hcalls, List.append_assoc]
    · rw [pauseLoop_cons, herr]
      simp only [lastSome, keepLast]
      cases lastSome errs <;> rfl
    · rw [pauseLoop_cons]; simpa [List.foldl_cons] using hcore'
    · rw [pauseLoop_cons, hreg', hreg]
    · rw [pauseLoop_cons, hact', hact]
    · rw [pauseLoop_cons, hph', hph]
    · rw [pauseLoop_cons, hst', hst]

theorem pushOv_stk_sub (defs : List Kind) (w : W) (c d : Nat) (h : d ∈ (pushOv defs w c).stk) : d = c ∨ d ∈ w.stk := by
  unfold pushOv at h
  split at h
  · simpa using h
  · exact Or.inr h

theorem resumeLoop_sim (defs : List Kind) (nvars : Nat) : ∀ (l : List Nat) (s : St) (w : W) (calls0 : List Call)
    (err0 : Option Exc), CoreA defs nvars s w → l.Nodup → (∀ c ∈ l, c < defs.length ∧ c ∉ w.stk) →
    ∃ cs errs, walk defs true l cs = some errs ∧
      (resumeLoop defs l s calls0 err0).2.1 = calls0 ++ cs ∧
      (resumeLoop defs l s calls0 err0).2.2 = keepFirst err0 (firstSome errs) ∧
      CoreA defs nvars (resumeLoop defs l s calls0 err0).1 (l.foldl (pushOv defs) w) ∧
      (resumeLoop defs l s calls0 err0).1.reg = s.reg ∧ (resumeLoop defs l s calls0 err0).1.active = s.active ∧
      (resumeLoop defs l s calls0 err0).1.phase = s.phase ∧ (resumeLoop defs l s calls0 err0).1.status = s.status := by
  intro l
  induction l with
  | nil =>
    intro s w calls0 err0 h _ _
    refine ⟨[], [], rfl, by simp [resumeLoop], ?_, by simpa [resumeLoop] using h, rfl, rfl, rfl, rfl⟩
    cases err0 <;> simp [resumeLoop, firstSome, keepFirst]
  | cons c rest ih =>
    intro s w calls0 err0 h hnd hl
    have hc := hl c (by simp)
    obtain ⟨hcore, hev, hreg, hact, hph, hst⟩ := resume_event defs nvars s w c h hc.1 hc.2
    have hnd' := List.nodup_cons.mp hnd
    have hl' : ∀ d ∈ rest, d < defs.length ∧ d ∉ (pushOv defs w c).stk := by
      intro d hd
      refine ⟨(hl d (by simp [hd])).1, fun hm => ?_⟩
      rcases pushOv_stk_sub defs w c d hm with rfl | hm'
      · exact hnd'.1 hd
      · exact (hl d (by simp [hd])).2 hm'
    obtain ⟨cs, errs, hwalk, hcalls, herr, hcore', hreg', hact', hph', hst'⟩ :=
      ih (resumeCtx defs s c).1 (pushOv defs w c) (calls0 ++ (resumeCtx defs s c).2.1)
        (keepFirst err0 (resumeCtx defs s c).2.2) hcore hnd'.2 hl'
    refine ⟨(resumeCtx defs s c).2.1 ++ cs, (resumeCtx defs s c).2.2 :: errs, walk_cons defs true c _ _ rest cs errs hev hwalk, ?_, ?_, ?_, ?_, ?_, ?_, ?_⟩
    · rw [resumeLoop_cons, hcalls, List.append_assoc]
    · rw [resumeLoop_cons, herr]
      cases err0 with
      | some y => rfl
      | none => cases h2 : (resumeCtx defs s c).2.2 <;> simp [firstSome, keepFirst]
    · rw [resumeLoop_cons]; simpa [List.foldl_cons] using hcore'
    · rw [resumeLoop_cons, hreg', hreg]
    · rw [resumeLoop_cons, hact', hact]
    · rw [resumeLoop_cons, hph', hph]
    · rw [resumeLoop_cons, hst', hst]

/-! what the folds do to the observer's other fields -/

theorem popOv_fields (defs : List Kind) (w : W) (c : Nat) :
    (popOv defs w c).opened = w.opened ∧ (popOv defs w c).phase = w.phase ∧ (popOv defs w c).act = w.act ∧
    (popOv defs w c).status = w.status ∧ (popOv defs w c).stopped = w.stopped := by
  unfold popOv; split
  · split <;> exact ⟨rfl, rfl, rfl, rfl, rfl⟩
  · exact ⟨rfl, rfl, rfl, rfl, rfl⟩

theorem pushOv_fields (defs : List Kind) (w : W) (c : Nat) :
    (pushOv defs w c).opened = w.opened ∧ (pushOv defs w c).phase = w.phase ∧ (pushOv defs w c).act = w.act ∧
    (pushOv defs w c).status = w.status ∧ (pushOv defs w c).stopped = w.stopped ∧ (pushOv defs w c).valsOff = w.valsOff := by
  unfold pushOv; split <;> exact ⟨rfl, rfl, rfl, rfl, rfl, rfl⟩

theorem foldl_popOv_fields (defs : List Kind) (l : List Nat) (w : W) :
    (l.foldl (popOv defs) w).opened = w.opened ∧ (l.foldl (popOv defs) w).phase = w.phase ∧
    (l.foldl (popOv defs) w).act = w.act ∧ (l.foldl (popOv defs) w).status = w.status ∧
    (l.foldl (popOv defs) w).stopped = w.stopped := by
  induction l generalizing w with
  | nil => exact ⟨rfl, rfl, rfl, rfl, rfl⟩
  | cons c r ih =>
    obtain ⟨a1, a2, a3, a4, a5⟩ := ih (popOv defs w c)
    obtain ⟨b1, b2, b3, b4, b5⟩ := popOv_fields defs w c
    exact ⟨a1.trans b1, a2.trans b2, a3.trans b3, a4.trans b4, a5.trans b5⟩

theorem foldl_pushOv_fields (defs : List Kind) (l : List Nat) (w : W) :
    (l.foldl (pushOv defs) w).opened = w.opened ∧ (l.foldl (pushOv defs) w).phase = w.phase ∧
    (l.foldl (pushOv defs) w).act = w.act ∧ (l.foldl (pushOv defs) w).status = w.status ∧
    (l.foldl (pushOv defs) w).stopped = w.stopped ∧ (l.foldl (pushOv defs) w).valsOff = w.valsOff := by
  induction l generalizing w with
  | nil => exact ⟨rfl, rfl, rfl, rfl, rfl, rfl⟩
  | cons c r ih =>
    obtain ⟨a1, a2, a3, a4, a5, a6⟩ := ih (pushOv defs w c)
    obtain ⟨b1, b2, b3, b4, b5, b6⟩ := pushOv_fields defs w c
    exact ⟨a1.trans b1, a2.trans b2, a3.trans b3, a4.trans b4, a5.trans b5, a6.trans b6⟩

/-- what is still active after the pauses: it was active before and it is not one of the paused overrides -/
theorem popOv_stk_sub (defs : List Kind) (w : W) (c d : Nat) (h : d ∈ (popOv defs w c).stk) :
    d ∈ w.stk ∧ ((varOf defs c).isSome → d ≠ c) := by
  unfold popOv at h
  split at h
  · rename_i x hx
    have : d ∈ w.stk.filter (· != c) := by split at h <;> exact h
    have := List.mem_filter.mp this
    exact ⟨this.1, fun _ => by simpa using this.2⟩
  · rename_i hx
    exact ⟨h, fun hs => by simp [hx] at hs⟩

theorem foldl_popOv_stk_sub (defs : List Kind) (l : List Nat) (w : W) (d : Nat) (h : d ∈ (l.foldl (popOv defs) w).stk) :
    d ∈ w.stk ∧ ∀ c ∈ l, (varOf defs c).isSome → d ≠ c := by
  induction l generalizing w with
  | nil => exact ⟨h, fun c hc => by simp at hc⟩
  | cons c r ih =>
    obtain ⟨h1, h2⟩ := ih (popOv defs w c) h
    obtain ⟨h3, h4⟩ := popOv_stk_sub defs w c d h1
    refine ⟨h3, fun c' hc' => ?_⟩
    rcases List.mem_cons.mp hc' with rfl | hc'
    · exact h4
    · exact h2 c' hc'

theorem foldl_pushOv_stk_sub (defs : List Kind) (l : List Nat) (w : W) (d : Nat) (h : d ∈ (l.foldl (pushOv defs) w).stk) :
    d ∈ w.stk ∨ d ∈ l := by
  induction l generalizing w with
  | nil => exact Or.inl h
  | cons c r ih =>
    rcases ih (pushOv defs w c) h with h1 | h1
    · rcases pushOv_stk_sub defs w c d h1 with rfl | h2
      · exact Or.inr (by simp)
      · exact Or.inl h2
    · exact Or.inr (by simp [h1])

end AsynqModel.Contexts
