import AsynqModel.Proofs.P25Clean
/-
  P25 (termination without the NonAsync / guard hypotheses), part 6: what the three steps of a scheduler pass that
  stay inside `_execute` (pop, second visit, first visit - all without a NonAsync failure) do to the last four
  components `(SF, Clean', -, PhiQ)` of the measure.  The only hypothesis beyond the description of the step is the
  batch invariant `P6.InvB` (for `pop`) and "awaited futures have a smaller rank" (for `first`).
-/
namespace AsynqModel.Core.P25
open AsynqModel.Core AsynqModel.Core.P6 AsynqModel.Core.P6T AsynqModel.Core.P20

section
variable {R : Nat → Nat} {s r : State} {root base top : Nat} {rest : List Ctl} {st : List Nat}

theorem clean'_fin (hctl : s.ctl = .waitLoop root base :: rest) (hctl' : r.ctl = s.ctl)
    (h : CleanL r root base ∧ PosL R r base) : Clean' R r := by
  intro root' base' rest' hc'
  rw [hctl', hctl] at hc'
  injection hc' with h1 _
  injection h1 with h1 h2
  subst h1; subst h2
  exact h

/-- an entry of the region other than the popped top is still in the region -/
theorem region_pop (hctl : s.ctl = .waitLoop root base :: rest) (hctl' : r.ctl = s.ctl)
    (hstk : s.stack = top :: st) (hst : r.stack = st) {x : Nat} (hne : x ≠ top) (h : x ∈ region s) : x ∈ region r := by
  obtain ⟨above, below, hs, hb⟩ := (mem_region_loop hctl x).1 h
  rw [hstk] at hs
  cases above with
  | nil =>
    simp at hs
    exact absurd hs.1.symm hne
  | cons a above' =>
    simp at hs
    exact (mem_region_loop (hctl'.trans hctl) x).2 ⟨above', below, by rw [hst, hs.2], hb⟩

/-- the top of the stack (computed, or an item) is popped -/
theorem pass_pop (hB : InvB s) (hctl : s.ctl = .waitLoop root base :: rest) (hctl' : r.ctl = s.ctl)
    (hstk : s.stack = top :: st)
    (hcase : s.computed top = true ∨ (s.computed top = false ∧ ∃ k q p m, (view s top).kind = .item k q p m ∧
          ∀ b, s.batch? k q = some b → b.flushed = false → (k, q) ∈ r.sbatches))
    (hv : ∀ f, view r f = view s f) (fr : Fr s r) (hst : r.stack = st)
    (hsb : ∀ c ∈ s.sbatches, c ∈ r.sbatches) :
    SF r ≤ SF s ∧ (Clean' R s → Clean' R r) ∧ PhiQ R r < PhiQ R s := by
  have hnft : ¬ Flagged s top := by
    intro hf
    rcases hcase with hc | ⟨_, k, q, p, m, hk, _⟩
    · rw [uncomputed_of_out_none hf.2.2] at hc; cases hc
    · have h1 := hf.1
      rw [hk] at h1; cases h1
  have hcomp : ∀ f, r.computed f = s.computed f := fun f => computed_of_view (hv f)
  have hset : ∀ f, SS s f → SS r f := fun f => ss_views hv fr.batches hsb
  refine ⟨?_, ?_, ?_⟩
  · refine SF_le fr.len ?_
    intro x hx hnr
    have hxs := flagged_of_view (hv x) hx
    refine ⟨hxs, fun hm => hnr (region_pop hctl hctl' hstk hst ?_ hm)⟩
    intro e; rw [e] at hxs; exact hnft hxs
  · intro hc
    obtain ⟨hL, hP⟩ := hc root base rest hctl
    refine clean'_fin hctl hctl' ⟨cleanL_pop hL hstk hst (fun f hf => by rw [hcomp]; exact hf)
      (fun x hx => ⟨flagged_of_view (hv x) hx, by rw [hv x]⟩) hset ?_, posL_pop hP hstk hst ?_⟩
    · rcases hcase with hct | ⟨hcf, k, q, p, m, hk, hsbi⟩
      · exact .computed (by rw [hcomp]; exact hct)
      · obtain ⟨b, hb1, hb2, hb3⟩ := hB.item top k q p m hk (out_none_of_uncomputed hcf)
        refine .item (k := k) (q := q) (p := p) (m := m) (by rw [hv]; exact hk) (by rw [hcomp]; exact hcf)
          ⟨b, ?_, hb2, hb3⟩ (hsbi b hb1 hb2)
        unfold State.batch?
        rw [fr.batches]
        exact hb1
    · intro x hx
      have hxs := flagged_of_view (hv x) hx
      exact ⟨hxs, fun e => by rw [e] at hxs; exact hnft hxs⟩
  · have hB' : Bof r = Bof s := Bof_of_views fr.len hv
    refine PhiQ_pop hstk hst (fun x _ A A' h1 h2 => ?_)
    exact ewS_pop_entry hB' (fun y _ => hv y) ⟨by rw [hv], Or.inl (by rw [hv])⟩ x A A' h1 h2

/-- second visit of a blocked task (its contexts are paused without failure) -/
theorem pass_second (hctl : s.ctl = .waitLoop root base :: rest) (hctl' : r.ctl = s.ctl)
    (hstk : s.stack = top :: st) (hlen : s.stack.length > base)
    (hk : (view s top).kind = .task) (hc : s.computed top = false)
    (hbl : ∃ d ∈ (view s top).deps, s.computed d = false) (hfl : (view s top).flag = true)
    (hvt : view r top = flagView false (view s top)) (hvo : ∀ f, f ≠ top → view r f = view s f) (fr : Fr s r)
    (hst : r.stack = st) (hsb : r.sbatches = s.sbatches) :
    SF r ≤ SF s ∧ (Clean' R s → Clean' R r) ∧ PhiQ R r < PhiQ R s := by
  have hview : ∀ f, SEq3 (view s f) (view r f) := by
    intro f
    by_cases e : f = top
    · subst e; rw [hvt]; exact ⟨rfl, rfl, rfl⟩
    · rw [hvo f e]; exact ⟨rfl, rfl, rfl⟩
  have hcomp : ∀ f, r.computed f = s.computed f := fun f => (hview f).computed
  have hset : ∀ f, SS s f → SS r f := by
    intro f
    exact SS.mono (fun _ => False) (fun g hg => by rw [hcomp]; exact hg) fr.batches
      (fun c hcm => by rw [hsb]; exact hcm) (fun _ hf => hf.elim) (fun g _ => hview g)
  have hflg : ∀ x, Flagged r x → Flagged s x ∧ x ≠ top := by
    intro x hx
    by_cases e : x = top
    · subst e
      have := hx.2.1
      rw [hvt] at this
      cases this
    · exact ⟨flagged_of_view (hvo x e) hx, e⟩
  refine ⟨?_, ?_, ?_⟩
  · refine SF_le fr.len ?_
    intro x hx hnr
    obtain ⟨hxs, hne⟩ := hflg x hx
    exact ⟨hxs, fun hm => hnr (region_pop hctl hctl' hstk hst hne hm)⟩
  · intro hcl
    obtain ⟨hL, hP⟩ := hcl root base rest hctl
    refine clean'_fin hctl hctl' ⟨cleanL_pop hL hstk hst (fun f hf => by rw [hcomp]; exact hf) ?_ hset ?_,
      posL_pop hP hstk hst hflg⟩
    · intro x hx
      obtain ⟨hxs, hne⟩ := hflg x hx
      exact ⟨hxs, by rw [hvo x hne]⟩
    · have hbst : base ≤ st.length := by rw [hstk] at hlen; simp at hlen; omega
      refine .task ((hview top).1.trans hk) (by rw [hcomp]; exact hc) ?_ ?_
      · intro d hd
        rw [(hview top).2.2] at hd
        cases hcd : s.computed d
        · rcases hL.dfs [] top st (by rw [hstk]; rfl) hbst ⟨hk, hfl, out_none_of_uncomputed hc⟩ d hd hcd with h1 | h1
          · exact hset d h1
          · cases h1
        · exact .computed (by rw [hcomp]; exact hcd)
      · obtain ⟨d, hd, hcd⟩ := hbl
        exact ⟨d, by rw [(hview top).2.2]; exact hd, by rw [hcomp]; exact hcd⟩
  · have hB' : Bof r = Bof s := by
      refine Bof_of_dep fr.len (fun f => ?_)
      unfold depTerm
      rw [(hview f).1, (hview f).2.2]
    refine PhiQ_pop hstk hst (fun x _ A A' h1 h2 => ?_)
    exact ewS_pop_entry hB' hvo ⟨(hview top).1, Or.inl (hview top).2.1⟩ x A A' h1 h2

/-- first visit of a blocked task (its contexts are resumed without failure) -/
theorem pass_first (hctl : s.ctl = .waitLoop root base :: rest) (hctl' : r.ctl = s.ctl)
    (hstk : s.stack = top :: st) (hlen : s.stack.length > base)
    (hk : (view s top).kind = .task) (hc : s.computed top = false) (hfl : (view s top).flag = false)
    (hvt : view r top = flagView true (view s top)) (hvo : ∀ f, f ≠ top → view r f = view s f) (fr : Fr s r)
    (hst : r.stack = ((view s top).deps.filter fun d => !s.computed d).reverse ++ s.stack)
    (hsb : r.sbatches = s.sbatches) (hrk : ∀ d ∈ (view s top).deps, R d < R top) :
    (SF r < SF s ∨ (SF r ≤ SF s ∧ (Clean' R s → Clean' R r))) ∧ PhiQ R r < PhiQ R s := by
  have hview : ∀ f, SEq3 (view s f) (view r f) := by
    intro f
    by_cases e : f = top
    · subst e; rw [hvt]; exact ⟨rfl, rfl, rfl⟩
    · rw [hvo f e]; exact ⟨rfl, rfl, rfl⟩
  have hset : ∀ f, SS s f → SS r f := by
    intro f
    exact SS.mono (fun _ => False) (fun g hg => by rw [(hview g).computed]; exact hg) fr.batches
      (fun c hcm => by rw [hsb]; exact hcm) (fun _ hf => hf.elim) (fun g _ => hview g)
  have hctlr : r.ctl = .waitLoop root base :: rest := hctl'.trans hctl
  have hbst : base ≤ st.length := by rw [hstk] at hlen; simp at hlen; omega
  -- the region only grows
  have hreg : ∀ x, x ∈ region s → x ∈ region r := by
    intro x hm
    obtain ⟨above, below, hs, hb⟩ := (mem_region_loop hctl x).1 hm
    exact (mem_region_loop hctlr x).2 ⟨_ ++ above, below, by rw [hst, hs, List.append_assoc], hb⟩
  have htopr : top ∈ region r :=
    (mem_region_loop hctlr top).2 ⟨_, st, by rw [hst, hstk], hbst⟩
  have hdsr : ∀ d, d ∈ (view s top).deps → s.computed d = false → d ∈ region r := by
    intro d hd hcd
    have hm : d ∈ ((view s top).deps.filter fun d => !s.computed d).reverse :=
      List.mem_reverse.2 (List.mem_filter.2 ⟨hd, by simp [hcd]⟩)
    obtain ⟨a, b, hab⟩ := List.append_of_mem hm
    refine (mem_region_loop hctlr d).2 ⟨a, b ++ s.stack, by rw [hst, hab]; simp, ?_⟩
    simp only [List.length_append]
    omega
  have hsfle : ∀ x, Flagged r x → x ∉ region r → Flagged s x ∧ x ∉ region s := by
    intro x hx hnr
    by_cases e : x = top
    · subst e; exact absurd htopr hnr
    · exact ⟨flagged_of_view (hvo x e) hx, fun hm => hnr (hreg x hm)⟩
  have hB' : Bof r = Bof s := by
    refine Bof_of_dep fr.len (fun f => ?_)
    unfold depTerm
    rw [(hview f).1, (hview f).2.2]
  refine ⟨?_, PhiQ_first hB' hstk (lt_of_view_task s top hk) hk hc hfl hvt hvo hst hrk⟩
  by_cases hex : ∃ d ∈ (view s top).deps, Flagged s d ∧ d ∉ region s
  · obtain ⟨d, hd, hfd, hnd⟩ := hex
    exact Or.inl (SF_lt fr.len hsfle hfd hnd (hdsr d hd (uncomputed_of_out_none hfd.2.2)))
  · refine Or.inr ⟨SF_le fr.len hsfle, ?_⟩
    intro hcl
    obtain ⟨hL, hP⟩ := hcl root base rest hctl
    -- no pushed dependency is flagged
    have hnf : ∀ d ∈ (view s top).deps, ¬ Flagged s d := by
      intro d hd hfd
      have hin : d ∈ region s := by
        apply Classical.byContradiction
        intro hn
        exact hex ⟨d, hd, hfd, hn⟩
      obtain ⟨above, below, hs, hb, hna⟩ := mem_region_first hctl hin
      have hpos := hP above d below hs hb hfd hna
      have hlt := hrk d hd
      rw [hstk] at hs
      cases above with
      | nil =>
        simp at hs
        rw [hs.1] at hlt
        exact Nat.lt_irrefl _ hlt
      | cons a above' =>
        simp at hs
        have := hpos a List.mem_cons_self
        rw [← hs.1] at this
        omega
    exact clean'_fin hctl hctl' ⟨cleanL_first' hL hstk hst hvt hvo hset hrk hnf,
      posL_first hP hstk hst hvo hrk hnf⟩

end

end AsynqModel.Core.P25
