import AsynqModel.Lib.Asyncio
import AsynqModel.Proofs.Asyncio
/-! C15: WHICH tasks an asyncio run can start.  Every event logged by `await fn.asyncio(args)` carries the label of the root or
    of a task of `Prog.live` - the tasks of the yielded structures, through continuations and handlers; the callee of a plain
    synchronous call and everything inside its body are not among them (the call is refused before the callee is entered):
    structural induction over the program. -/
namespace AsynqModel.Asyncio
open AsynqModel.Core (Val)

/-- the event belongs to a task of `L` -/
def inL (L : List Nat) (e : Ev) : Bool := L.contains e.label

theorem inL_of {L : List Nat} {e : Ev} (h : e.label ∈ L) : inL L e = true := by
  simp [inL, h]

theorem callPre_live (L : List Nat) (c : Call) (s : St) (h : c.label ∈ L) : Ext (inL L) [] s (callPre c s) := by
  have hlog : (callPre c s).log =
      (if c.afn then [Ev.start c.label true, Ev.afn c.label] else [Ev.start c.label true]) ++ s.log := by
    unfold callPre
    cases c.afn <;> cases (c.kind == Kind.proxy) <;> simp [enterMode, exitMode, St.emit]
  refine ⟨_, hlog, ?_, by simp⟩
  cases c.afn <;> simp [inL, Ev.label, h]

mutual
theorem bodyA_live (L : List Nat) : ∀ (p : Prog) (gen : Bool) (t : Nat) (env : List Val) (caught : Option Err) (i : Nat) (s : St),
    s.mode = true → t ∈ L → (∀ x ∈ p.live, x ∈ L) → Ext (inL L) [] s (bodyA gen t env caught i p s).2
  | .ret _, _, _, _, _, _, s, _, ht, _ => by simp only [bodyA]; exact Ext.emit s (inL_of ht)
  | .res _, _, _, _, _, _, s, _, ht, _ => by simp only [bodyA]; exact Ext.emit s (inL_of ht)
  | .raise _, _, _, _, _, _, s, _, ht, _ => by simp only [bodyA]; exact Ext.emit s (inL_of ht)
  | .raiseB _, _, _, _, _, _, s, _, ht, _ => by simp only [bodyA]; exact Ext.emit s (inL_of ht)
  | .reraise, _, _, _, _, _, s, _, ht, _ => by simp only [bodyA]; exact Ext.emit s (inL_of ht)
  | .yld hb y k h, gen, t, env, caught, i, s, hm, ht, hL => by
    have hLy : ∀ x ∈ y.live, x ∈ L := fun x hx => hL x (by simp [Prog.live, hx])
    have hLk : ∀ x ∈ k.live, x ∈ L := fun x hx => hL x (by simp [Prog.live, hx])
    have hLh : ∀ x ∈ h.live, x ∈ L := fun x hx => hL x (by simp [Prog.live, hx])
    unfold bodyA
    cases gen
    · simp only [Bool.not_false, if_true]; exact Ext.emit s (inL_of ht)
    · have hx := resolveA_live L y s hm hLy
      have h2 := resolveA_mode y s
      rcases hR : resolveA y s with ⟨r, s1⟩
      rw [hR] at hx h2
      simp only at hx h2
      have hm1 : s1.mode = true := by rw [h2, hm]
      cases r with
      | ok v =>
        simp only [Bool.not_true, Bool.false_eq_true, if_false]
        exact ((hx.trans (Ext.emit (e := Ev.run t (i + 1) (s1.dc (Ys.labelsA y)) s1.mode (.ok v)) s1 (inL_of ht))).trans
          (bodyA_live L k true t (env ++ [v]) caught (i + 1) _ (by simp [hm1]) ht hLk)).weaken (by simp)
      | err e =>
        simp only [Bool.not_true, Bool.false_eq_true, if_false]
        split
        · exact (hx.trans (Ext.emit (e := Ev.fin t (.err e)) s1 (inL_of ht))).weaken (by simp)
        · exact ((hx.trans (Ext.emit (e := Ev.run t (i + 1) (s1.dc (Ys.labelsA y)) s1.mode (.err e)) s1 (inL_of ht))).trans
            (bodyA_live L h true t env (some e) (i + 1) _ (by simp [hm1]) ht hLh)).weaken (by simp)
      | esc v => simpa using hx
  | .sync c child k h, gen, t, env, caught, i, s, hm, ht, hL => by
    have hLh : ∀ x ∈ h.live, x ∈ L := fun x hx => hL x (by simp [Prog.live, hx])
    have hr : refusal c = .syncRefused := rfl
    unfold bodyA
    simp only [hm, if_true, hr, Err.isBase, Bool.false_eq_true, if_false]
    exact ((Ext.emit (e := Ev.syncX t (.err .syncRefused)) s (inL_of ht)).trans
      (bodyA_live L h gen t env (some .syncRefused) i _ (by simp [hm]) ht hLh)).weaken (by simp)
theorem resolveA_live (L : List Nat) : ∀ (y : Ys) (s : St), s.mode = true → (∀ x ∈ y.live, x ∈ L) →
    Ext (inL L) [] s (resolveA y s).2
  | .none, s, _, _ => by simp only [resolveA]; exact Ext.refl _ s
  | .junk, s, _, _ => by simp only [resolveA]; exact Ext.refl _ s
  | .const _, s, _, _ => by simp only [resolveA]; exact Ext.refl _ s
  | .ofut b _, s, _, _ => by cases b <;> (simp only [resolveA]; exact Ext.refl _ s)
  | .pconst _, s, hm, _ => by
    simp only [resolveA, hm, if_true]
    exact (Ext.refl (inL L) s).logs rfl rfl
  | .task c p, s, hm, hL => by
    have hc : c.label ∈ L := hL _ (by simp [Ys.live])
    have hLp : ∀ x ∈ p.live, x ∈ L := fun x hx => hL x (by simp [Ys.live, hx])
    unfold resolveA
    simp only [hm, if_true]
    rw [callA_eq]
    have hx := bodyA_live L p c.kind.isGen c.label [] none 0 (callPre c s) (by simp) hc hLp
    exact (((callPre_live L c s hc).trans hx).logs rfl rfl).weaken (by simp)
  | .tup l, s, hm, hL => by simp only [resolveA]; exact gatherA_live L l s hm (by simpa [Ys.live] using hL)
  | .lst l, s, hm, hL => by simp only [resolveA]; exact gatherA_live L l s hm (by simpa [Ys.live] using hL)
  | .dict _ l, s, hm, hL => by simp only [resolveA]; exact gatherA_live L l s hm (by simpa [Ys.live] using hL)
  | .sub y, s, hm, hL => by simp only [resolveA]; exact resolveA_live L y s hm (by simpa [Ys.live] using hL)
  | .pval _, s, hm, _ => by simp only [resolveA, hm, if_true]; exact Ext.refl _ s
  | .gco y, s, hm, hL => by simp only [resolveA]; exact resolveA_live L y s hm (by simpa [Ys.live] using hL)
theorem gatherA_live (L : List Nat) : ∀ (l : YsL) (s : St), s.mode = true → (∀ x ∈ l.live, x ∈ L) →
    Ext (inL L) [] s (gatherA l s).2
  | .nil, s, _, _ => by simp only [gatherA]; exact Ext.refl _ s
  | .cons y l, s, hm, hL => by
    have hx := resolveA_live L y s hm (fun x hx => hL x (by simp [YsL.live, hx]))
    have hx' := gatherA_live L l { (resolveA y s).2 with mode := s.mode } hm (fun x hx => hL x (by simp [YsL.live, hx]))
    simp only [gatherA]
    exact ((hx.logs rfl rfl).trans (hx'.logs rfl rfl)).weaken (by simp)
end

end AsynqModel.Asyncio
