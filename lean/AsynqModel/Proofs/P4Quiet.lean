import AsynqModel.Proofs.P4Inv
/-!
  P4: the scheduler-only operations (`Still`: nothing completes) and the completing ones (`Quiet`) are completion moves
  that keep the control stack, `raising`, `stuck`, ... and emit only harmless events.
-/
namespace AsynqModel.Core.P4
open AsynqModel.Core

/-- events a scheduler-only operation may emit: no `ret/top/run/yield/new`; `done f o` only with `o` the denotation -/
def okEv (s : State) : Event → Prop
  | .ret _ => False
  | .top _ _ => False
  | .run _ _ _ _ => False
  | .yield _ _ _ => False
  | .new _ _ => False
  | .done f o => f < s.futs.length ∧ (s.fut f).den = o
  | _ => True

theorem okEv_comp {s s' : State} (c : Comp s s') {e : Event} (h : okEv s' e) : okEv s e := by
  cases e <;> simp only [okEv] at h ⊢
  case done f o => rw [← c.len, ← (c.fut f).den]; exact h

structure Quiet (s s' : State) : Prop where
  comp : Comp s s'
  ctl : s'.ctl = s.ctl
  raising : s'.raising = s.raising
  stuck : s'.stuck = s.stuck
  guard : s'.guardFired = s.guardFired
  kinds : s'.ctxs.map (·.kind) = s.ctxs.map (·.kind)
  tops : s'.tops = s.tops
  topIdx : s'.topIdx = s.topIdx
  curTop : s'.curTop = s.curTop
  trace : ∃ evs, s'.trace = evs ++ s.trace ∧ ∀ e ∈ evs, okEv s e
  tasks : ∀ f, (s.fut f).kind = .task → (s'.fut f).out = (s.fut f).out

theorem Quiet.refl (s : State) : Quiet s s :=
  ⟨Comp.refl s, rfl, rfl, rfl, rfl, rfl, rfl, rfl, rfl, ⟨[], rfl, nofun⟩, fun _ _ => rfl⟩

theorem Quiet.trans {s t u : State} (a : Quiet s t) (b : Quiet t u) : Quiet s u := by
  refine ⟨a.comp.trans b.comp, b.ctl.trans a.ctl, b.raising.trans a.raising, b.stuck.trans a.stuck,
    b.guard.trans a.guard, b.kinds.trans a.kinds, b.tops.trans a.tops, b.topIdx.trans a.topIdx,
    b.curTop.trans a.curTop, ?_,
    fun f hk => (b.tasks f ((a.comp.fut f).kind ▸ hk)).trans (a.tasks f hk)⟩
  obtain ⟨e1, h1, k1⟩ := a.trace
  obtain ⟨e2, h2, k2⟩ := b.trace
  refine ⟨e2 ++ e1, by rw [h2, h1, List.append_assoc], ?_⟩
  intro e he
  rcases List.mem_append.1 he with he | he
  · exact okEv_comp a.comp (k2 e he)
  · exact k1 e he

theorem Quiet.nna {s s' : State} (q : Quiet s s') (h : Inv.noNonAsync s = true) : Inv.noNonAsync s' = true := by
  have : ∀ l : List CtxSt, (l.all fun c => c.kind != .nonasync) = ((l.map (·.kind)).all fun k => k != .nonasync) := by
    intro l; simp [List.all_map, Function.comp_def]
  unfold Inv.noNonAsync at h ⊢
  rw [this] at h ⊢
  rw [q.kinds]; exact h

/-- nothing completes -/
def Still (s s' : State) : Prop := Quiet s s' ∧ ∀ f, (s'.fut f).out = (s.fut f).out

theorem Still.refl (s : State) : Still s s := ⟨Quiet.refl s, fun _ => rfl⟩
theorem Still.trans {s t u : State} (a : Still s t) (b : Still t u) : Still s u :=
  ⟨a.1.trans b.1, fun f => (b.2 f).trans (a.2 f)⟩

/-- nothing completes and the task states keep their cores exactly -/
theorem Still.core {s s' : State} (a : Still s s') (f : Nat) : coreA (s'.fut f).ts = coreA (s.fut f).ts := by
  rcases (a.1.comp.fut f).alt with ⟨_, h⟩ | ⟨h1, h2, _⟩
  · exact h
  · have := a.2 f; rw [h1, h2] at this; cases this

theorem Still.of {s s' : State} (hcfg : s'.cfg = s.cfg) (hf : s'.futs = s.futs) (hb : s'.batches = s.batches)
    (hctl : s'.ctl = s.ctl) (hr : s'.raising = s.raising) (hst : s'.stuck = s.stuck)
    (hg : s'.guardFired = s.guardFired) (hk : s'.ctxs.map (·.kind) = s.ctxs.map (·.kind))
    (htops : s'.tops = s.tops) (hti : s'.topIdx = s.topIdx) (hcur : s'.curTop = s.curTop)
    (htr : ∃ evs, s'.trace = evs ++ s.trace ∧ ∀ e ∈ evs, okEv s e) : Still s s' :=
  ⟨⟨Comp.ofEq hcfg hf hb, hctl, hr, hst, hg, hk, htops, hti, hcur, htr, fun f _ => by simp [State.fut, hf]⟩,
    fun f => by simp [State.fut, hf]⟩

theorem still_emit (s : State) (e : Event) (h : okEv s e) : Still s (s.emit e) :=
  Still.of rfl rfl rfl rfl rfl rfl rfl rfl rfl rfl rfl ⟨[e], rfl, by simpa using h⟩

theorem still_updTask (s : State) (t : Nat) (g : TaskSt → TaskSt) (hg : ∀ ts, coreA (g ts) = coreA ts) :
    Still s (s.updTask t g) := by
  have hout : ∀ f, ((s.updTask t g).fut f).out = (s.fut f).out := by
    intro f
    rw [fut_updTask]; split
    · rename_i h; obtain ⟨rfl, _⟩ := h; rfl
    · rfl
  refine ⟨⟨⟨rfl, by simp, fun f => ?_, fun b hb i hi => ⟨b, hb, rfl, hi⟩⟩, rfl, rfl, rfl, rfl, rfl, rfl, rfl, rfl,
    ⟨[], rfl, nofun⟩, fun f _ => hout f⟩, hout⟩
  rw [fut_updTask]; split
  · rename_i h; obtain ⟨rfl, _⟩ := h
    exact CompF.ofCore rfl rfl rfl (hg _)
  · exact CompF.refl _

theorem kinds_set (l : List CtxSt) (c : Nat) (x y : CtxSt) (h : l[c]? = some x) (hk : y.kind = x.kind) :
    (l.set c y).map (·.kind) = l.map (·.kind) := by
  apply List.ext_getElem?
  intro i
  simp only [List.getElem?_map, List.getElem?_set]
  by_cases hi : c = i
  · subst hi
    obtain ⟨hlt, hx⟩ := List.getElem?_eq_some_iff.1 h
    simp [hlt, hk, hx]
  · simp [hi]

theorem still_ctxSetResumed (s : State) (c : Nat) (r : Bool) : Still s (s.ctxSetResumed c r) := by
  unfold State.ctxSetResumed
  split
  · rename_i x hx
    exact Still.of rfl rfl rfl rfl rfl rfl rfl (kinds_set _ _ _ _ hx rfl) rfl rfl rfl ⟨[], rfl, nofun⟩
  · exact Still.refl s

theorem still_svSet (s : State) (var val : Nat) : Still s (s.svSet var val) := by
  unfold State.svSet
  split <;> exact Still.of rfl rfl rfl rfl rfl rfl rfl rfl rfl rfl rfl ⟨[], rfl, nofun⟩

theorem still_svTouch (s : State) (var : Nat) : Still s (s.svTouch var) := by
  unfold State.svTouch
  split
  · exact Still.refl s
  · exact Still.of rfl rfl rfl rfl rfl rfl rfl rfl rfl rfl rfl ⟨[], rfl, nofun⟩

theorem still_ctxResumeOne (s : State) (c : Nat) : Still s (s.ctxResumeOne c) := by
  unfold State.ctxResumeOne
  have h1 : Still s ((s.emit (.ctx true c)).ctxSetResumed c true) :=
    (still_emit s (.ctx true c) trivial).trans (still_ctxSetResumed _ _ _)
  refine h1.trans ?_
  generalize (s.emit (.ctx true c)).ctxSetResumed c true = s1
  simp only
  split
  · rename_i x hx
    split
    · rename_i var val _
      refine (still_svSet s1 var val).trans ?_
      refine Still.of rfl rfl rfl rfl rfl rfl rfl ?_ rfl rfl rfl ⟨[], rfl, nofun⟩
      have : (s1.svSet var val).ctxs = s1.ctxs := by unfold State.svSet; split <;> rfl
      simp only [this]
      exact kinds_set _ _ _ _ hx rfl
    · exact Still.refl _
  · exact Still.refl _

theorem still_ctxPauseOne (s : State) (c : Nat) : Still s (s.ctxPauseOne c) := by
  unfold State.ctxPauseOne
  have h1 : Still s ((s.emit (.ctx false c)).ctxSetResumed c false) :=
    (still_emit s (.ctx false c) trivial).trans (still_ctxSetResumed _ _ _)
  refine h1.trans ?_
  generalize (s.emit (.ctx false c)).ctxSetResumed c false = s1
  simp only
  split
  · split
    · exact still_svSet _ _ _
    · exact Still.refl _
  · exact Still.refl _

theorem coreA_ctxs (ts : TaskSt) (l : List Nat) : coreA { ts with ctxs := l } = coreA ts := rfl
theorem coreA_ctxActive (ts : TaskSt) (b : Bool) : coreA { ts with ctxActive := b } = coreA ts := rfl
theorem coreA_depsSched (ts : TaskSt) (b : Bool) : coreA { ts with depsSched := b } = coreA ts := rfl

theorem still_exit_tail (s : State) (c : Nat) (b : Bool) :
    Still s ((if b = true then s else s.ctxPauseOne c).emit (.ctxX c)) := by
  refine Still.trans ?_ (still_emit _ (.ctxX c) trivial)
  split
  · exact Still.refl _
  · exact still_ctxPauseOne _ _

theorem still_ctxExit (s : State) (c : Nat) : Still s (s.ctxExit c) := by
  unfold State.ctxExit
  cases s.ctxs[c]? with
  | none => simp only []; exact still_exit_tail _ _ _
  | some x =>
    simp only []
    cases x.owner with
    | none => simp only []; exact still_exit_tail _ _ _
    | some o =>
      simp only []
      exact (still_updTask s o _ (fun ts => coreA_ctxs ts _)).trans (still_exit_tail _ _ _)

theorem still_foldl {α : Type} (step : State → α → State) (h : ∀ s a, Still s (step s a)) (l : List α) (s : State) :
    Still s (l.foldl step s) := by
  induction l generalizing s with
  | nil => exact Still.refl s
  | cons a l ih => exact (h s a).trans (ih _)

theorem still_exitFold (s : State) (cs : List (Nat × Body)) : Still s (cs.foldl (fun s p => s.ctxExit p.1) s) :=
  still_foldl _ (fun s p => still_ctxExit s p.1) cs s

theorem ctxIsNonAsync_false (s : State) (h : Inv.noNonAsync s = true) (c : Nat) : s.ctxIsNonAsync c = false := by
  unfold State.ctxIsNonAsync
  split
  · rename_i x hx
    unfold Inv.noNonAsync at h
    have := List.all_eq_true.1 h x (List.mem_of_getElem? hx)
    simpa using this
  · rfl

theorem still_resumeContexts (s : State) (t : Nat) (h : Inv.noNonAsync s = true) : Still s (s.resumeContexts t) := by
  unfold State.resumeContexts
  simp only
  split
  · exact Still.refl s
  · have h1 : Still s (s.updTask t fun ts => { ts with ctxActive := true }) :=
      still_updTask _ _ _ (fun ts => coreA_ctxActive ts _)
    have h2 := h1.trans (still_foldl (fun s c => if s.ctxIsNonAsync c then s else s.ctxResumeOne c)
      (fun s c => by split; exact Still.refl s; exact still_ctxResumeOne s c) (s.task t).ctxs _)
    have h3 := ctxIsNonAsync_false _ (h2.1.nna h)
    simp only [h3, List.any_eq_true, Bool.false_eq_true, and_false, exists_false, if_false]
    exact h2

theorem still_pauseContexts (s : State) (t : Nat) (h : Inv.noNonAsync s = true) : Still s (s.pauseContexts t) := by
  unfold State.pauseContexts
  simp only
  split
  · exact Still.refl s
  · have h1 : Still s (s.updTask t fun ts => { ts with ctxActive := false }) :=
      still_updTask _ _ _ (fun ts => coreA_ctxActive ts _)
    have h2 := h1.trans (still_foldl (fun s c => if s.ctxIsNonAsync c then s else s.ctxPauseOne c)
      (fun s c => by split; exact Still.refl s; exact still_ctxPauseOne s c) (s.task t).ctxs.reverse _)
    have h3 := ctxIsNonAsync_false _ (h2.1.nna h)
    simp only [h3, List.any_eq_true, Bool.false_eq_true, and_false, exists_false, if_false]
    exact h2

end AsynqModel.Core.P4
