import AsynqModel.Proofs.Batching3
/-! helper lemmas for C11, part 10 (second audit): facts about the logs and the item lists that the tightened observer
    asks for - the frame of the item lists of all batches (`BLaw`), no completion by the library inside a scripted flush
    body, the cause of a FutureIsAlreadyComputed out of `DebugBatch._flush` -/
namespace AsynqModel.Batching
set_option linter.unusedSimpArgs false
set_option linter.unusedVariables false

theorem mem_of_announceCount {evs : List Ev} {b : Nat} (h : announceCount evs b = 1) :
    ∃ pend act, Ev.announce b pend act ∈ evs := by
  have hpos : 0 < announceCount evs b := by omega
  obtain ⟨ev, hev, hp⟩ := List.countP_pos_iff.mp hpos
  cases ev with
  | announce c pend act =>
    have : c = b := by simpa using hp
    subst this
    exact ⟨pend, act, hev⟩
  | _ => simp at hp

theorem mem_of_itemCount {evs : List Ev} {i : Nat} (h : itemCount evs i = 1) :
    ∃ o bb, Ev.item i o bb ∈ evs := by
  have hpos : 0 < itemCount evs i := by omega
  obtain ⟨ev, hev, hp⟩ := List.countP_pos_iff.mp hpos
  cases ev with
  | item j o bb =>
    have : j = i := by simpa using hp
    subst this
    exact ⟨o, bb, hev⟩
  | _ => simp at hp

/-! ### the item lists of all batches: what they were, plus the items constructed during the piece of the operation -/

def BLaw (s t : St) (evs : List Ev) : Prop := ∀ c, t.bitems c = s.bitems c ++ createdOn evs c

theorem createdOn_append (e1 e2 : List Ev) (c : Nat) : createdOn (e1 ++ e2) c = createdOn e1 c ++ createdOn e2 c := by
  simp [createdOn, List.filterMap_append]

theorem createdOn_nil (c : Nat) : createdOn [] c = [] := rfl

theorem createdOn_cons_other (ev : Ev) (e : List Ev) (c : Nat) (h : ev.isCreated = false) :
    createdOn (ev :: e) c = createdOn e c := by
  cases ev <;> simp_all [createdOn, Ev.isCreated, List.filterMap]

theorem createdOn_noCreated (e : List Ev) (c : Nat) (h : ∀ ev ∈ e, ev.isCreated = false) : createdOn e c = [] := by
  induction e with
  | nil => rfl
  | cons ev e ih =>
    rw [createdOn_cons_other ev e c (h ev (by simp))]
    exact ih (fun x hx => h x (by simp [hx]))

theorem BLaw.refl (s : St) : BLaw s s [] := by intro c; simp [createdOn_nil]

theorem BLaw.silent {s t : St} (h : ∀ c, t.bitems c = s.bitems c) : BLaw s t [] := by
  intro c; simp [createdOn_nil, h c]

theorem BLaw.append {s t u : St} {e1 e2 : List Ev} (l1 : BLaw s t e1) (l2 : BLaw t u e2) : BLaw s u (e1 ++ e2) := by
  intro c; rw [l2 c, l1 c, createdOn_append, List.append_assoc]

theorem BLaw.cons_other {s t : St} {e : List Ev} (ev : Ev) (hev : ev.isCreated = false) (l : BLaw s t e) :
    BLaw s t (ev :: e) := by
  intro c; rw [createdOn_cons_other ev e c hev]; exact l c

theorem BLaw.snoc_other {s t : St} {e : List Ev} (ev : Ev) (hev : ev.isCreated = false) (l : BLaw s t e) :
    BLaw s t (e ++ [ev]) := by
  intro c
  rw [createdOn_append, createdOn_cons_other ev [] c hev, createdOn_nil, List.append_nil]; exact l c

theorem blaw_newItemOn {s : St} {b p : Nat} {sp src : Option Nat} {lk : Option Link} {r : St × List Ev}
    (h : newItemOn s b p sp src lk = some r) : BLaw s r.1 r.2 := by
  unfold newItemOn at h
  cases e : s.batches[b]? with
  | none => simp [e] at h
  | some B =>
    simp only [e] at h
    split at h
    · cases h
    · cases h
      have hb : b < s.batches.length := (List.getElem?_eq_some_iff.mp e).1
      intro c
      simp only [pushItem_bitems, createdOn, List.filterMap]
      by_cases hc : c = b
      · subst hc; simp [hb]
      · have : ¬ b = c := fun x => hc x.symm
        simp [hc, this]

theorem blaw_spawnPart (s1 : St) (it : Item) : BLaw s1 (spawnPart s1 it).1 (spawnPart s1 it).2 := by
  unfold spawnPart
  cases it.spawn with
  | none => exact BLaw.refl s1
  | some p =>
    simp only
    cases h : newItemOn s1 s1.active p none (some it.batch) with
    | none => exact BLaw.cons_other _ rfl (BLaw.refl s1)
    | some r => exact blaw_newItemOn h

theorem blaw_setItemOut (s : St) (i : Nat) (o : Outc) : BLaw s (s.setItemOut i o) [] := BLaw.silent (fun _ => rfl)

theorem blaw_completeItem (fuel : Nat) : ∀ (s : St) (i : Nat) (o : Outc) (bb : Bool),
    BLaw s (completeItem fuel s i o bb).1 (completeItem fuel s i o bb).2 := by
  induction fuel with
  | zero =>
    intro s i o bb
    unfold completeItem
    cases e : s.items[i]? with
    | none => exact BLaw.cons_other _ rfl (blaw_setItemOut s i o)
    | some it =>
      exact BLaw.cons_other _ rfl ((blaw_setItemOut s i o).append (blaw_spawnPart _ it))
  | succ fuel ih =>
    intro s i o bb
    unfold completeItem
    cases e : s.items[i]? with
    | none => exact BLaw.cons_other _ rfl (blaw_setItemOut s i o)
    | some it =>
      simp only
      have hsp : BLaw s (spawnPart (s.setItemOut i o) it).1 (spawnPart (s.setItemOut i o) it).2 := by
        simpa using (blaw_setItemOut s i o).append (blaw_spawnPart _ it)
      cases hl : it.link with
      | none => exact BLaw.cons_other _ rfl hsp
      | some l =>
        simp only
        split
        · exact BLaw.cons_other _ rfl (hsp.append (ih _ _ _ _))
        · exact BLaw.cons_other _ rfl hsp

theorem blaw_leftovers (io : Outc) (L : List Nat) : ∀ s, BLaw s (leftovers io L s).1 (leftovers io L s).2 := by
  induction L with
  | nil => intro s; exact BLaw.refl s
  | cons i is ih =>
    intro s
    unfold leftovers
    split
    · exact ih s
    · exact (blaw_completeItem _ s i io false).append (ih _)

theorem blaw_setAllLoop (L : List Nat) : ∀ s, BLaw s (setAllLoop L s).1 (setAllLoop L s).2 := by
  induction L with
  | nil => intro s; exact BLaw.refl s
  | cons i is ih =>
    intro s
    unfold setAllLoop
    split
    · exact ih s
    · exact (blaw_completeItem _ s i _ true).append (ih _)

theorem blaw_debugFlush (L : List Nat) : ∀ s, BLaw s (debugFlush L s).1 (debugFlush L s).2.1 := by
  induction L with
  | nil => intro s; exact BLaw.refl s
  | cons i is ih =>
    intro s
    unfold debugFlush
    split
    · exact BLaw.refl s
    · exact (blaw_completeItem _ s i _ false).append (ih _)

theorem blaw_act1 (b : Nat) (x : Act) (s : St) : BLaw s (act1 b x s).1 (act1 b x s).2.1 := by
  cases x with
  | setValue k v =>
    simp only [act1]
    cases hk : (s.bitems b)[k]? with
    | none => exact BLaw.refl s
    | some i =>
      by_cases hc : (s.iout i).isSome
      · simp only [hc, if_true]; exact BLaw.refl s
      · simp only [hc]; exact blaw_completeItem _ s i _ true
  | setError k e =>
    simp only [act1]
    cases hk : (s.bitems b)[k]? with
    | none => exact BLaw.refl s
    | some i =>
      by_cases hc : (s.iout i).isSome
      · simp only [hc, if_true]; exact BLaw.refl s
      · simp only [hc]; exact blaw_completeItem _ s i _ true
  | setAll =>
    simp only [act1]
    exact blaw_setAllLoop _ s
  | newItem p =>
    simp only [act1]
    cases h : newItemOn s s.active p none (some b) with
    | none => exact BLaw.refl s
    | some r => exact blaw_newItemOn h
  | raise e => exact BLaw.refl s

theorem blaw_runScript (b : Nat) (sc : Script) : ∀ s, BLaw s (runScript b sc s).1 (runScript b sc s).2.1 := by
  induction sc with
  | nil => intro s; exact BLaw.refl s
  | cons x rest ih =>
    intro s
    unfold runScript
    have h1 := blaw_act1 b x s
    rcases hx : act1 b x s with ⟨s1, e1, r1⟩
    rw [hx] at h1
    cases r1 with
    | some z => exact h1
    | none => exact h1.append (ih s1)

theorem switch_bitems (s : St) (b c : Nat) : (switch s b).bitems c = s.bitems c := by
  unfold switch; split <;> simp

theorem setBatchOut_bitems' (s : St) (b : Nat) (o : Outc) (c : Nat) : (s.setBatchOut b o).bitems c = s.bitems c := by
  simp only [St.bitems, St.setBatchOut, List.getElem?_modify]
  cases s.batches[c]? <;> simp
  split <;> rfl

theorem incRuns_bitems' (s : St) (b c : Nat) : (s.incRuns b).bitems c = s.bitems c := by
  simp only [St.bitems, St.incRuns, List.getElem?_modify]
  cases s.batches[c]? <;> simp
  split <;> rfl

theorem blaw_completeBatch (s : St) (b : Nat) (o : Outc) : BLaw s (completeBatch s b o).1 (completeBatch s b o).2 := by
  unfold completeBatch
  have h0 : BLaw s (switch (s.setBatchOut b o) b) [] :=
    BLaw.silent (fun c => by rw [switch_bitems, setBatchOut_bitems'])
  have := BLaw.snoc_other (Ev.announce b
      ((leftovers (leftoverOutc o) ((switch (s.setBatchOut b o) b).bitems b) (switch (s.setBatchOut b o) b)).1.pendingOf b)
      (leftovers (leftoverOutc o) ((switch (s.setBatchOut b o) b).bitems b) (switch (s.setBatchOut b o) b)).1.active) rfl
    (h0.append (blaw_leftovers (leftoverOutc o) ((switch (s.setBatchOut b o) b).bitems b) (switch (s.setBatchOut b o) b)))
  simpa using this

theorem blaw_compute (scripts : List Script) (s : St) (b : Nat) :
    BLaw s (compute scripts s b).1 (compute scripts s b).2 := by
  unfold compute
  cases hk : s.kind with
  | user =>
    simp only
    have h0 : BLaw s ((switch s b).incRuns b) [] :=
      BLaw.silent (fun c => by rw [incRuns_bitems', switch_bitems])
    have h1 := blaw_runScript b (scripts.getD b []) ((switch s b).incRuns b)
    have h2 : BLaw s (runScript b (scripts.getD b []) ((switch s b).incRuns b)).1
        (Ev.body b (switch s b).active :: ((runScript b (scripts.getD b []) ((switch s b).incRuns b)).2.1 ++
          [Ev.bodyEnd b (runScript b (scripts.getD b []) ((switch s b).incRuns b)).2.2
            ((runScript b (scripts.getD b []) ((switch s b).incRuns b)).1.bout b)])) := by
      have := h0.append h1
      simp only [List.nil_append] at this
      exact BLaw.cons_other _ rfl (BLaw.snoc_other _ rfl this)
    split
    · exact h2
    · have := h2.append (blaw_completeBatch (runScript b (scripts.getD b []) ((switch s b).incRuns b)).1 b
        (bodyOutc (runScript b (scripts.getD b []) ((switch s b).incRuns b)).2.2))
      simpa using this
  | debug =>
    simp only
    have h0 : BLaw s (switch s b) [] := BLaw.silent (fun c => switch_bitems s b c)
    have h1 := blaw_debugFlush ((switch s b).bitems b) (switch s b)
    have h2 := h0.append h1
    simp only [List.nil_append] at h2
    split
    · exact h2
    · exact h2.append (blaw_completeBatch _ b _)

/-! ### a scripted flush body logs no completion by the library -/

theorem noLib_append {e1 e2 : List Ev} (h1 : NoLib e1) (h2 : NoLib e2) : NoLib (e1 ++ e2) := by
  intro j o' hmem
  rcases List.mem_append.mp hmem with h | h
  · exact h1 j o' h
  · exact h2 j o' h

theorem noLib_nil : NoLib [] := by intro j o' h; cases h

theorem setAllLoop_noLib (L : List Nat) : ∀ s, NoLib (setAllLoop L s).2 := by
  induction L with
  | nil => intro s; exact noLib_nil
  | cons i is ih =>
    intro s
    unfold setAllLoop
    split
    · exact ih s
    · exact noLib_append (completeItem_noLib _ _ _ _) (ih _)

theorem act1_noLib (b : Nat) (x : Act) (s : St) : NoLib (act1 b x s).2.1 := by
  cases x with
  | setValue k v =>
    simp only [act1]
    cases hk : (s.bitems b)[k]? with
    | none => exact noLib_nil
    | some i =>
      by_cases hc : (s.iout i).isSome
      · simp only [hc, if_true]; exact noLib_nil
      · simp only [hc]; exact completeItem_noLib _ _ _ _
  | setError k e =>
    simp only [act1]
    cases hk : (s.bitems b)[k]? with
    | none => exact noLib_nil
    | some i =>
      by_cases hc : (s.iout i).isSome
      · simp only [hc, if_true]; exact noLib_nil
      · simp only [hc]; exact completeItem_noLib _ _ _ _
  | setAll =>
    simp only [act1]
    exact setAllLoop_noLib _ s
  | newItem p =>
    simp only [act1]
    cases h : newItemOn s s.active p none (some b) with
    | none => exact noLib_nil
    | some r =>
      intro j o' hmem
      simp only [newItemOn_evs h] at hmem
      simp at hmem
  | raise e => exact noLib_nil

theorem runScript_noLib (b : Nat) (sc : Script) : ∀ s, NoLib (runScript b sc s).2.1 := by
  induction sc with
  | nil => intro s; exact noLib_nil
  | cons x rest ih =>
    intro s
    unfold runScript
    have h1 := act1_noLib b x s
    rcases hx : act1 b x s with ⟨s1, e1, r1⟩
    rw [hx] at h1
    cases r1 with
    | some z => exact h1
    | none => exact noLib_append h1 (ih s1)

/-- no completion by the library before the end of a body whose own log has none -/
theorem libBeforeEnd_of_noLib (e1 : List Ev) (h : NoLib e1) (hp : ∀ ev ∈ e1, ev.isPlain = true) (b : Nat) (r : Option Err)
    (d : Option Outc) (rest : List Ev) : libBeforeEnd (e1 ++ Ev.bodyEnd b r d :: rest) = false := by
  induction e1 with
  | nil => simp [libBeforeEnd, Ev.isBodyEnd]
  | cons ev e ih =>
    have hrest := ih (fun j o' hm => h j o' (by simp [hm])) (fun x hx => hp x (by simp [hx]))
    have hpl := hp ev (by simp)
    cases ev with
    | item j o' bb =>
      cases bb with
      | false => exact absurd (by simp) (h j o')
      | true => simpa [libBeforeEnd, Ev.isBodyEnd, Ev.isLib] using hrest
    | created _ _ _ => simpa [libBeforeEnd, Ev.isBodyEnd, Ev.isLib] using hrest
    | body _ _ => simp [Ev.isPlain] at hpl
    | bodyEnd _ _ _ => simp [Ev.isPlain] at hpl
    | createFail _ => simp [Ev.isPlain] at hpl
    | announce _ _ _ => simp [Ev.isPlain] at hpl

/-! ### why `DebugBatch._flush` raises FutureIsAlreadyComputed -/

/-- a completion by the library logged by `completeItem _ _ i _ _` is the completion of `i` itself -/
theorem completeItem_lib_idx (fuel : Nat) (s : St) (i : Nat) (o : Outc) (bb : Bool) :
    ∀ j o', Ev.item j o' false ∈ (completeItem fuel s i o bb).2 → j = i := by
  intro j o' hmem
  cases fuel with
  | zero =>
    unfold completeItem at hmem
    cases e : s.items[i]? with
    | none =>
      simp only [e, List.mem_singleton] at hmem
      cases hmem; rfl
    | some it =>
      simp only [e, List.mem_cons] at hmem
      rcases hmem with hmem | hmem
      · cases hmem; rfl
      · exact absurd hmem (spawnPart_noitem _ _ _ _ _)
  | succ fuel =>
    unfold completeItem at hmem
    cases e : s.items[i]? with
    | none =>
      simp only [e, List.mem_singleton] at hmem
      cases hmem; rfl
    | some it =>
      simp only [e] at hmem
      cases hl : it.link with
      | none =>
        simp only [hl, List.mem_cons] at hmem
        rcases hmem with hmem | hmem
        · cases hmem; rfl
        · exact absurd hmem (spawnPart_noitem _ _ _ _ _)
      | some l =>
        simp only [hl] at hmem
        split at hmem
        · simp only [List.mem_cons, List.mem_append] at hmem
          rcases hmem with hmem | hmem | hmem
          · cases hmem; rfl
          · exact absurd hmem (spawnPart_noitem _ _ _ _ _)
          · exact absurd hmem (completeItem_noLib _ _ _ _ _ _)
        · simp only [List.mem_cons] at hmem
          rcases hmem with hmem | hmem
          · cases hmem; rfl
          · exact absurd hmem (spawnPart_noitem _ _ _ _ _)

theorem any_isSet_of_mem {evs : List Ev} {j : Nat} {o : Outc} (h : Ev.item j o true ∈ evs) : evs.any Ev.isSet = true := by
  rw [List.any_eq_true]; exact ⟨_, h, rfl⟩

theorem debugFlush_cause {s0 b0 a} (L : List Nat) :
    ∀ s, Mid s0 b0 a s → s.kind = .debug → (∀ i ∈ L, i ∈ s.bitems b0) → (debugFlush L s).2.2 = some .already →
      (∃ i ∈ L, (s.iout i).isSome) ∨ (debugFlush L s).2.1.any Ev.isSet = true ∨ hasDup L = true := by
  induction L with
  | nil => intro s _ _ _ h; simp [debugFlush] at h
  | cons i is ih =>
    intro s h hk hL hr
    have hi := hL i (by simp)
    unfold debugFlush at hr ⊢
    by_cases hc : (s.iout i).isSome
    · exact Or.inl ⟨i, by simp, hc⟩
    · simp only [hc] at hr ⊢
      have hn : s.iout i = none := by simpa using hc
      have ⟨n1, io1, ev1, na1, l1⟩ := completeItem_spec h s.items.length i (.val (s.payload i)) false hi hn
        (fun _ => Or.inr (Or.inr ⟨hk, rfl⟩))
      have key := ih (completeItem s.items.length s i (.val (s.payload i)) false).1 n1.mid
        (by rw [← n1.ext.1.1]; exact hk) (fun j hj => by rw [n1.bi]; exact hL j (by simp [hj])) hr
      rcases key with ⟨j, hj, hs⟩ | hany | hd
      · by_cases hcj : (s.iout j).isSome
        · exact Or.inl ⟨j, by simp [hj], hcj⟩
        · have hnj : s.iout j = none := by simpa using hcj
          have hcount := (l1 j).1
          rw [if_pos ⟨hnj, hs⟩] at hcount
          obtain ⟨o', bb, hmem⟩ := mem_of_itemCount hcount
          cases bb with
          | false =>
            have := completeItem_lib_idx _ _ _ _ _ j o' hmem
            subst this
            right; right
            simp [hasDup, hj]
          | true =>
            right; left
            simp [List.any_append, any_isSet_of_mem hmem]
      · right; left
        simp [List.any_append, hany]
      · right; right
        simp [hasDup, hd]

theorem alreadyCause_append (pre : St) (b : Nat) (e0 rest : List Ev) (h : alreadyCause pre b e0 = true) :
    alreadyCause pre b (e0 ++ rest) = true := by
  unfold alreadyCause at h ⊢
  simp only [List.any_append]
  cases h1 : (pre.bitems b).any (fun i => (pre.iout i).isSome) <;> cases h2 : e0.any Ev.isSet <;>
    cases h3 : hasDup (pre.bitems b) <;> simp_all

end AsynqModel.Batching
