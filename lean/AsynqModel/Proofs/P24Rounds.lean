import AsynqModel.Theorems.C04b
/-!
  P24, part 1 (audit item 11): the reference count `Seq.roundsTop` on the two program families the statement of C04
  names - "a chain of n dependent requests: n flushes; a balanced tree of any size: one flush" - for ALL sizes.

  * `chainGen kind m` / `depChain kind n` mirror `harness/coregen.py: dependent_chain(n, kind)`
    (`depChain kind n = dependent_chain(n, kind)`; `dependent_chain(0) = dependent_chain(1)`),
  * `balTree kind f d` mirrors `balanced_tree(depth = d, fanout = f, kind)`,
  * `C04b_chain n` is the chain of `Theorems/C04b.lean`.
-/
namespace AsynqModel.Core.P24
open AsynqModel.Core

/-! ### the families -/

/-- the leaf of both families: one request, awaited -/
def leafReq (kind payload : Nat) : Body := .item kind payload .ok (.yld (.f (.own 0)) (.ret 1) .reraise)

/-- `chainGen kind m = dependent_chain(m + 1, kind)`: `m + 1` sequentially dependent requests -/
def chainGen (kind : Nat) : Nat → Body
  | 0 => leafReq kind 1
  | m + 1 => .item kind ((m + 2) % 10) .ok (.yld (.f (.own 0))
      (.spawn (chainGen kind m) [] (.yld (.f (.own 1)) (.ret 2) .reraise)) .reraise)

/-- `dependent_chain(n, kind)` of harness/coregen.py -/
def depChain (kind n : Nat) : Body := chainGen kind (n - 1)

/-- `n` times `spawn child []` in front of `k` -/
def wrapN (child : Body) : Nat → Body → Body
  | 0, k => k
  | n + 1, k => .spawn child [] (wrapN child n k)

/-- the structure `[own 0, ..., own (f-1)]` an inner node of the tree yields -/
def ownList (f : Nat) : Y := .lst ((List.range f).map fun i => YS.f (Ref.own i))

/-- `balanced_tree(depth, fanout, kind)` of harness/coregen.py: every leaf task awaits one item, an inner task
    creates `fanout` children and yields all of them in one list -/
def balTree (kind f : Nat) : Nat → Body
  | 0 => leafReq kind 0
  | d + 1 => wrapN (balTree kind f d) f (.yld (ownList f) (.ret 2) .reraise)

/-! ### `roundsBody` on the pieces -/

theorem rounds_ret (cfg : Cfg) (tag r : Nat) (own : List FutR) (outs : List Outcome) (env : List Val) (c : Option Err)
    (pv : Y) : (roundsBody cfg (.ret tag) r own outs env c pv).round = r := by
  simp [roundsBody]

theorem rounds_reraise (cfg : Cfg) (r : Nat) (own : List FutR) (outs : List Outcome) (env : List Val) (c : Option Err)
    (pv : Y) : (roundsBody cfg .reraise r own outs env c pv).round = r := by
  simp [roundsBody]

/-- a `yield` whose two continuations end at once: the task finishes at the round at which everything awaited is
    complete -/
theorem rounds_yld_end (cfg : Cfg) (y : Y) (tag r : Nat) (own : List FutR) (outs : List Outcome) (env : List Val)
    (c : Option Err) (pv : Y) :
    (roundsBody cfg (.yld y (.ret tag) .reraise) r own outs env c pv).round =
      (awaitLeaves r own (y.leaves.filterMap fun | .own i => some i | .inh _ => none) r).2 := by
  rw [roundsBody]
  split
  · rw [rounds_ret]; rfl
  · rw [rounds_reraise]; rfl

theorem rounds_leaf (cfg : Cfg) (kind payload : Nat) :
    (roundsBody cfg (leafReq kind payload) 0 [] [] [] none .none).round = 1 := by
  unfold leafReq
  rw [roundsBody, rounds_yld_end]
  simp [YS.leaves, awaitLeaves]

/-! ### chains -/

/-- the step of a chain: a request, awaited, then a child that needs `d` more rounds, awaited -/
theorem rounds_chain_step (cfg : Cfg) (kind payload tag : Nat) (child : Body) :
    (roundsBody cfg (.item kind payload .ok (.yld (.f (.own 0))
      (.spawn child [] (.yld (.f (.own 1)) (.ret tag) .reraise)) .reraise)) 0 [] [] [] none .none).round =
    (roundsBody cfg child 0 [] [] [] none .none).round + 1 := by
  rw [roundsBody, roundsBody]
  simp only [YS.leaves, List.filterMap_cons, List.filterMap_nil, List.nil_append, awaitLeaves, List.getElem?_cons_zero,
    unwrap, resolveO, itemOutcome]
  rw [roundsBody, rounds_yld_end]
  simp [YS.leaves, awaitLeaves]
  omega

theorem roundsTop_C04b_chain (cfg : Cfg) : ∀ n, roundsTop cfg (C04b_chain n) = n
  | 0 => by simp [roundsTop, C04b_chain, roundsBody]
  | n + 1 => by
    have ih := roundsTop_C04b_chain cfg n
    unfold roundsTop at ih ⊢
    rw [C04b_chain, rounds_chain_step, ih]

theorem roundsTop_chainGen (cfg : Cfg) (kind : Nat) : ∀ m, roundsTop cfg (chainGen kind m) = m + 1
  | 0 => rounds_leaf cfg kind 1
  | m + 1 => by
    have ih := roundsTop_chainGen cfg kind m
    unfold roundsTop at ih ⊢
    rw [chainGen, rounds_chain_step, ih]

/-! ### trees -/

theorem rounds_wrapN (cfg : Cfg) (child k : Body) : ∀ (n r : Nat) (own : List FutR) (outs : List Outcome) (env : List Val)
    (c : Option Err) (pv : Y),
    roundsBody cfg (wrapN child n k) r own outs env c pv =
      roundsBody cfg k r (own ++ List.replicate n (.unstarted (roundsBody cfg child 0 [] [] [] none .none).round))
        (outs ++ List.replicate n (evalBody cfg child [] [] [] none .none).outcome) env c pv
  | 0, r, own, outs, env, c, pv => by simp [wrapN]
  | n + 1, r, own, outs, env, c, pv => by
    rw [wrapN, roundsBody]
    rw [rounds_wrapN cfg child k n]
    simp [List.replicate_succ, List.append_assoc]

theorem leaves_ownList (f : Nat) :
    ((ownList f).leaves.filterMap fun | .own i => some i | .inh _ => none) = List.range f := by
  have h : ∀ l : List Nat, (YS.leavesList (l.map fun i => YS.f (Ref.own i))).filterMap
      (fun | Ref.own i => some i | Ref.inh _ => none) = l := by
    intro l
    induction l with
    | nil => rfl
    | cons a l ih => simp [YS.leavesList, YS.leaves, ih]
  exact h _

/-- every future of the table is a child needing `d` rounds that has not started, or one that started now -/
def AllD (r d : Nat) (own : List FutR) : Prop :=
  ∀ x ∈ own, (match x with | .unstarted d' => d' = d | .ready q => q = r + d)

theorem allD_set {r d : Nat} {own : List FutR} (h : AllD r d own) (i : Nat) : AllD r d (own.set i (.ready (r + d))) := by
  intro x hx
  rcases List.mem_or_eq_of_mem_set hx with h1 | h1
  · exact h x h1
  · subst h1; rfl

theorem await_allD (r d : Nat) : ∀ (is : List Nat) (own : List FutR) (acc : Nat), AllD r d own →
    (∀ i ∈ is, i < own.length) →
    (awaitLeaves r own is acc).2 = if is = [] then acc else max acc (r + d)
  | [], own, acc, _, _ => by simp [awaitLeaves]
  | i :: is, own, acc, h, hl => by
    have hi : i < own.length := hl i (by simp)
    have hx : own[i]? = some own[i] := List.getElem?_eq_getElem hi
    have hm : own[i] ∈ own := List.getElem_mem hi
    have h0 := h _ hm
    rw [awaitLeaves, hx]
    simp only [List.cons_ne_nil, if_false]
    cases hv : own[i] with
    | ready q =>
      rw [hv] at h0
      simp only at h0 ⊢
      rw [await_allD r d is own _ h (fun j hj => hl j (by simp [hj])), h0]
      split <;> omega
    | unstarted d' =>
      rw [hv] at h0
      simp only at h0 ⊢
      subst h0
      rw [await_allD r d' is _ _ (allD_set h i) (fun j hj => by rw [List.length_set]; exact hl j (by simp [hj]))]
      split <;> omega

theorem roundsTop_balTree (cfg : Cfg) (kind f : Nat) (hf : 0 < f) : ∀ d, roundsTop cfg (balTree kind f d) = 1
  | 0 => rounds_leaf cfg kind 0
  | d + 1 => by
    have ih := roundsTop_balTree cfg kind f hf d
    unfold roundsTop at ih ⊢
    rw [balTree, rounds_wrapN, rounds_yld_end, leaves_ownList, ih]
    rw [await_allD 0 1 (List.range f)]
    · have : List.range f ≠ [] := by
        intro h
        have := congrArg List.length h
        simp at this
        omega
      simp [this]
    · intro x hx
      simp only [List.nil_append, List.mem_replicate] at hx
      rw [hx.2]
    · intro i hi
      simpa using hi

/-! ### the families satisfy the hypotheses of `C04_flush_count` -/

theorem hasSync_wrapN (child k : Body) : ∀ n, Spec.bodyHasSync (wrapN child n k) =
    ((decide (0 < n) && Spec.bodyHasSync child) || Spec.bodyHasSync k)
  | 0 => by simp [wrapN]
  | n + 1 => by
    rw [wrapN, Spec.bodyHasSync, hasSync_wrapN child k n]
    cases Spec.bodyHasSync child <;> simp

theorem hasNonAsync_wrapN (child k : Body) : ∀ n, Spec.bodyHasNonAsync (wrapN child n k) =
    ((decide (0 < n) && Spec.bodyHasNonAsync child) || Spec.bodyHasNonAsync k)
  | 0 => by simp [wrapN]
  | n + 1 => by
    rw [wrapN, Spec.bodyHasNonAsync, hasNonAsync_wrapN child k n]
    cases Spec.bodyHasNonAsync child <;> simp

theorem shares_wrapN (child k : Body) : ∀ n, Spec.bodyShares (wrapN child n k) =
    ((decide (0 < n) && Spec.bodyShares child) || Spec.bodyShares k)
  | 0 => by simp [wrapN]
  | n + 1 => by
    rw [wrapN, Spec.bodyShares, shares_wrapN child k n]
    cases Spec.bodyShares child <;> simp

theorem kinds_wrapN (child k : Body) (x : Nat) : ∀ n, x ∈ Spec.bodyKinds (wrapN child n k) →
    x ∈ Spec.bodyKinds child ∨ x ∈ Spec.bodyKinds k
  | 0, h => Or.inr h
  | n + 1, h => by
    rw [wrapN, Spec.bodyKinds, List.mem_append] at h
    rcases h with h | h
    · exact Or.inl h
    · exact kinds_wrapN child k x n h

theorem ws_wrapN (child k : Body) (κ : Nat → Bool) (hc : P6.wsBody child = true) : ∀ n m,
    P6.ws 0 m (wrapN child n k) κ = P6.ws 0 (m + n) k κ
  | 0, m => rfl
  | n + 1, m => by
    rw [wrapN, P6.ws, ws_wrapN child k κ hc n (m + 1)]
    have : P6.ws ([] : List Ref).length 0 child (fun _ => true) = true := hc
    rw [this]
    simp [Nat.add_assoc, Nat.add_comm 1 n]

theorem leaves_ownList_ok (f : Nat) : (ownList f).leaves.all (P6.refOKn f 0) = true := by
  have h : ∀ l : List Nat, (∀ i ∈ l, i < f) →
      (YS.leavesList (l.map fun i => YS.f (Ref.own i))).all (P6.refOKn f 0) = true := by
    intro l
    induction l with
    | nil => intro _; rfl
    | cons a l ih =>
      intro hl
      simp only [List.map_cons, YS.leavesList, YS.leaves, List.singleton_append, List.all_cons, Bool.and_eq_true]
      refine ⟨?_, ih (fun i hi => hl i (by simp [hi]))⟩
      show decide (a < f) = true
      exact decide_eq_true (hl a (by simp))
  exact h _ (fun i hi => by simpa using hi)

/-- the static hypotheses of `C04_flush_count` for one body -/
def BodyOK (k0 : Nat) (b : Body) : Prop :=
  Spec.bodyHasSync b = false ∧ Spec.bodyHasNonAsync b = false ∧ P6.wsBody b = true ∧ P19.SB k0 b

theorem bodyOK_leaf (kind payload : Nat) : BodyOK kind (leafReq kind payload) := by
  refine ⟨rfl, rfl, rfl, rfl, ?_⟩
  intro k hk
  simpa [leafReq, Spec.bodyKinds] using hk

theorem bodyOK_chainGen (kind : Nat) : ∀ m, BodyOK kind (chainGen kind m)
  | 0 => bodyOK_leaf kind 1
  | m + 1 => by
    obtain ⟨h1, h2, h3, h4, h5⟩ := bodyOK_chainGen kind m
    refine ⟨?_, ?_, ?_, ?_, ?_⟩
    · simp [chainGen, Spec.bodyHasSync, h1]
    · simp [chainGen, Spec.bodyHasNonAsync, h2]
    · have : P6.ws 0 0 (chainGen kind m) (fun _ => true) = true := h3
      simp [chainGen, P6.wsBody, P6.ws, this, YS.leaves, P6.refOKn]
    · simp [chainGen, Spec.bodyShares, h4]
    · intro k hk
      simp only [chainGen, Spec.bodyKinds, List.mem_cons, List.mem_append, List.not_mem_nil, or_false] at hk
      rcases hk with hk | hk
      · exact hk
      · exact h5 k hk

theorem bodyOK_C04b_chain : ∀ n, BodyOK 0 (C04b_chain n)
  | 0 => ⟨rfl, rfl, rfl, rfl, by intro k hk; simp [C04b_chain, Spec.bodyKinds] at hk⟩
  | n + 1 => by
    obtain ⟨h1, h2, h3, h4, h5⟩ := bodyOK_C04b_chain n
    refine ⟨?_, ?_, ?_, ?_, ?_⟩
    · simp [C04b_chain, Spec.bodyHasSync, h1]
    · simp [C04b_chain, Spec.bodyHasNonAsync, h2]
    · have : P6.ws 0 0 (C04b_chain n) (fun _ => true) = true := h3
      simp [C04b_chain, P6.wsBody, P6.ws, this, YS.leaves, P6.refOKn]
    · simp [C04b_chain, Spec.bodyShares, h4]
    · intro k hk
      simp only [C04b_chain, Spec.bodyKinds, List.mem_cons, List.mem_append, List.not_mem_nil, or_false] at hk
      rcases hk with hk | hk
      · exact hk
      · exact h5 k hk

theorem bodyOK_balTree (kind f : Nat) : ∀ d, BodyOK kind (balTree kind f d)
  | 0 => bodyOK_leaf kind 0
  | d + 1 => by
    obtain ⟨h1, h2, h3, h4, h5⟩ := bodyOK_balTree kind f d
    refine ⟨?_, ?_, ?_, ?_, ?_⟩
    · rw [balTree, hasSync_wrapN, h1]; simp [Spec.bodyHasSync]
    · rw [balTree, hasNonAsync_wrapN, h2]; simp [Spec.bodyHasNonAsync]
    · rw [balTree, P6.wsBody, ws_wrapN _ _ _ h3, P6.ws]
      simp only [Nat.zero_add, P6.ws, Bool.and_true]
      exact leaves_ownList_ok f
    · rw [balTree, shares_wrapN, h4]; simp [Spec.bodyShares]
    · intro k hk
      rw [balTree] at hk
      rcases kinds_wrapN _ _ k f hk with hk | hk
      · exact h5 k hk
      · simp [Spec.bodyKinds] at hk

theorem progOK_single {k0 : Nat} {conv : Conv} {b : Body} (h : BodyOK k0 b) : P19.ProgOK k0 [(conv, b)] := by
  intro p hp
  simp only [List.mem_singleton] at hp
  subst hp
  exact h

end AsynqModel.Core.P24
