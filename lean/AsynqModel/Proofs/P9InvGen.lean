import AsynqModel.Proofs.P9InvSched
/-
  P9 (property C20), part 10: what one instruction of a running task does to the heap (`Res`), branch by branch.
-/
namespace AsynqModel.Core.P9
open AsynqModel.Core

/-- an arbitrary update of the state of task `t` that leaves `ctxActive` alone -/
theorem k_updTaskD {A} (s : State) (t : Nat) (g : TaskSt → TaskSt)
    (h3 : ∀ ts, (g ts).ctxActive = ts.ctxActive := by intros; rfl) : Keep A (· = t) s (s.updTask t g) := by
  have hf : ∀ f, (s.updTask t g).fut f =
      if t = f ∧ t < s.futs.length then { s.fut t with ts := g (s.fut t).ts } else s.fut f := fun f => fut_setFut _ _ _ _
  refine ⟨fun f hk => ?_, fun f hft => Or.inl ?_, fun u _ => ?_, curOK_of_batches rfl,
    fun d hd => by unfold State.computed at hd ⊢; rw [out_updTask]; exact hd⟩
  · rw [hf]; split
    · rename_i h; rw [← h.1] at hk; exact hk
    · exact hk
  · have : ¬ (t = f ∧ t < s.futs.length) := fun h => hft h.1.symm
    simp only [State.out, State.task, hf, this, if_false]
    exact ⟨trivial, trivial, trivial⟩
  · simp only [State.task, hf]
    split
    · rename_i h; rw [← h.1]; exact h3 _
    · rfl

theorem task_updTask_self (s : State) (t : Nat) (g : TaskSt → TaskSt) (hl : t < s.futs.length) :
    (s.updTask t g).task t = g (s.task t) := by
  unfold State.updTask State.task
  rw [fut_setFut_self _ _ _ hl]

theorem computed_updTask (s : State) (t d : Nat) (g : TaskSt → TaskSt) : (s.updTask t g).computed d = s.computed d := by
  unfold State.computed; rw [out_updTask]

theorem kind_updTask (s : State) (t f : Nat) (g : TaskSt → TaskSt) : ((s.updTask t g).fut f).kind = (s.fut f).kind := by
  unfold State.updTask
  rw [fut_setFut]
  split
  · rename_i h; rw [← h.1]
  · rfl

theorem k_leaveGen {A D} (s : State) (t : Nat) (old : Option Nat) : Keep A D s (s.leaveGen t old) := by
  unfold State.leaveGen
  exact (k_updTask s t (fun ts => { ts with depsSched := false })).trans (Keep.of_futs rfl rfl)

theorem k_finishTask {A D} (s : State) (t : Nat) (old : Option Nat) (o : Outcome) : Keep A D s (s.finishTask t old o) := by
  unfold State.finishTask
  split
  · exact k_fail _ _
  · exact (((k_exitAll s t).trans (k_updTask _ _ _)).trans (k_complete _ _ _)).trans (k_leaveGen _ _ _)

/-- the summary of one instruction of task `t` -/
def Res (s : State) (t : Nat) (s' : State) : Prop :=
  Keep none1 (· = t) s s' ∧ DepOK s' t ∧ (FrOK s' t ∨ s'.ctl = s.ctl.tail)

theorem res_of_keep0 {s s' : State} {t : Nat} (hk : Keep0 s s') (hfr : FrOK s t) (hdep : DepOK s t) : Res s t s' :=
  ⟨hk.lift, depOK_keep hk t (fun h => h) hdep, Or.inl (frOK_keep hk t (fun h => h) (fun h => h) hfr)⟩

/-- an update of task `t` itself followed by one event -/
theorem res_updTask (s : State) (t : Nat) (g : TaskSt → TaskSt) (e : Event) (hfr : FrOK s t)
    (hg : ∀ ts, (g ts).ctxActive = ts.ctxActive)
    (hlast : (g (s.task t)).lastY = .none)
    (hdeps : (g (s.task t)).deps = [] ∨ (g (s.task t)).deps = (s.task t).deps) :
    Res s t ((s.updTask t g).emit e) := by
  have hl := lt_of_task s t hfr.1
  have hk : Keep none1 (· = t) s ((s.updTask t g).emit e) := (k_updTaskD s t g hg).trans (k_emit _ _)
  have hts : (((s.updTask t g).emit e).task t) = g (s.task t) := task_updTask_self s t g hl
  have hcomp : ∀ d, ((s.updTask t g).emit e).computed d = s.computed d := fun d => computed_updTask s t d g
  have hsub : ∀ d ∈ (g (s.task t)).deps, s.computed d = true := by
    rcases hdeps with h | h
    · rw [h]; simp
    · rw [h]; exact hfr.2.1
  refine ⟨hk, ⟨(g (s.task t)).deps, by rw [hts, hlast]; simp, fun d hd => by rw [hcomp]; exact hsub d hd⟩, Or.inl ?_⟩
  refine ⟨?_, ?_, ?_, ?_⟩
  · exact hk.kind t hfr.1
  · rw [hts]; intro d hd; rw [hcomp]; exact hsub d hd
  · rw [hts, hg]; exact hfr.2.2.1
  · rw [hts, hcomp]
    intro hc
    rcases hdeps with h | h
    · exact h
    · rw [h]; exact hfr.2.2.2 hc

theorem res_gStart (s : State) (t : Nat) (hfr : FrOK s t) : Res s t (gStart s t) :=
  res_updTask s t _ _ hfr (fun _ => rfl) rfl (Or.inl rfl)

theorem res_gResume (s : State) (t : Nat) (hfr : FrOK s t) (kd : Bool) (i : Nat) (dc : Bool) (r : Except Err Val)
    (k h : Body) : Res s t (gResume s t kd i dc r k h) := by
  unfold gResume
  cases r with
  | ok v => exact res_updTask s t _ _ hfr (fun _ => rfl) rfl (by cases kd <;> simp [rOk])
  | error e => exact res_updTask s t _ _ hfr (fun _ => rfl) rfl (by cases kd <;> simp [rErr])

theorem res_gYield (s : State) (t : Nat) (old : Option Nat) (hfr : FrOK s t) (i : Nat) (d0 : List Nat) (ry : RY)
    (g : TaskSt → TaskSt) (hd0 : d0 = [] ∨ d0 = (s.task t).deps)
    (hg : ∀ ts, (g ts).ctxActive = ts.ctxActive)
    (hlast : (g (s.task t)).lastY = ry) (hdeps : (g (s.task t)).deps = d0 ++ extractFutures ry) :
    Res s t (gYield s t old i (d0 ++ extractFutures ry) ry g) := by
  have hl := lt_of_task s t hfr.1
  have hk1 : Keep none1 (· = t) s ((s.emit (.yield t i ry)).updTask t g) := (k_emit _ _).trans (k_updTaskD _ t g hg)
  have hts : (((s.emit (.yield t i ry)).updTask t g).task t) = g (s.task t) :=
    task_updTask_self (s.emit (.yield t i ry)) t g hl
  have hcomp : ∀ d, ((s.emit (.yield t i ry)).updTask t g).computed d = s.computed d :=
    fun d => computed_updTask (s.emit (.yield t i ry)) t d g
  have hsub : ∀ d ∈ d0, s.computed d = true := by
    rcases hd0 with h | h
    · rw [h]; simp
    · rw [h]; exact hfr.2.1
  have hdep1 : DepOK ((s.emit (.yield t i ry)).updTask t g) t :=
    ⟨d0, by rw [hts, hlast, hdeps], fun d hd => by rw [hcomp]; exact hsub d hd⟩
  unfold gYield
  simp only
  by_cases he : (d0 ++ extractFutures ry).isEmpty = true
  · simp only [he, if_true]
    refine ⟨hk1, hdep1, Or.inl ⟨hk1.kind t hfr.1, ?_, ?_, ?_⟩⟩
    · rw [hts, hdeps]
      have : d0 ++ extractFutures ry = [] := by simpa using he
      rw [this]; simp
    · rw [hts, hg]; exact hfr.2.2.1
    · intro _
      rw [hts, hdeps]
      simpa using he
  · simp only [he]
    have hk2 : Keep0 ((s.emit (.yield t i ry)).updTask t g) (((s.emit (.yield t i ry)).updTask t g).leaveGen t old) :=
      k_leaveGen _ _ _
    exact ⟨hk1.trans hk2.lift, depOK_keep hk2 t (fun h => h) hdep1, Or.inr rfl⟩


/-! ### the other branches only use heap helpers -/

theorem k_gSpawn (s : State) (t : Nat) (child : Body) (inh : List Nat) (k : Body) : Keep0 s (gSpawn s t child inh k) := by
  unfold gSpawn
  exact (k_newTask s child inh).trans (k_updTask _ _ _)

theorem k_gAlloc (s : State) (t : Nat) (x : Fut) (nk : NewKind) (k : Body) (h1 : x.ts.deps = []) (h2 : x.ts.lastY = .none)
    (h3 : x.ts.ctxActive = false) : Keep0 s (gAlloc s t x nk k) := by
  unfold gAlloc
  exact (k_alloc s x nk h1 h2 h3).trans (k_updTask _ _ _)

theorem k_ensureBatch (s : State) (kind : Nat) : Keep0 s (ensureBatch s kind) := by
  unfold ensureBatch
  cases hb : s.curBatch? kind with
  | some b => exact Keep.refl _ _ _
  | none =>
    refine ⟨(Keep.refl none1 none1 s).kind, (Keep.refl none1 none1 s).chg, (Keep.refl none1 none1 s).act, ?_,
      (Keep.refl none1 none1 s).mon⟩
    intro hc k' b' hb'
    rw [curBatch_append] at hb'
    split at hb'
    · cases hb'; rfl
    · exact hc k' b' hb'

theorem k_updBatch_items (s : State) (k q : Nat) (g : Batch → Batch) (hg : ∀ b, (g b).kind = b.kind)
    (hf : ∀ b, (g b).flushed = b.flushed) : Keep0 s (s.updBatch k q g) :=
  ⟨(Keep.refl none1 none1 s).kind, (Keep.refl none1 none1 s).chg, (Keep.refl none1 none1 s).act,
    curOK_updBatch s k q g hg hf, (Keep.refl none1 none1 s).mon⟩

theorem k_gItem (s : State) (t : Nat) (kind payload : Nat) (mode : ItemMode) (k : Body) :
    Keep0 s (gItem s t kind payload mode k) := by
  unfold gItem
  simp only
  refine (k_ensureBatch s kind).trans ?_
  generalize ensureBatch s kind = s1
  cases s1.curBatch? kind with
  | none => exact k_fail _ _
  | some b =>
    simp only
    refine Keep.trans ?_ (k_updTask _ _ _)
    refine Keep.trans ?_ (k_updBatch_items _ _ _ _ (fun _ => rfl) (fun _ => rfl))
    exact k_alloc s1 _ _ rfl rfl rfl

theorem k_gSync (s : State) (t : Nat) (child : Body) (inh : List Nat) (k h : Body) :
    Keep0 s (gSync s t child inh k h) := by
  unfold gSync
  simp only
  have hc : ∀ (x : State) (c : List Ctl), Keep0 x { x with ctl := c } := fun _ _ => Keep.of_futs rfl rfl
  refine Keep.trans ?_ (hc _ _)
  refine Keep.trans ?_ (k_emit _ _)
  refine Keep.trans ?_ (k_updTask _ _ _)
  exact k_newTask s child inh

theorem k_gSyncfut (s : State) (t f : Nat) (k h : Body) : Keep0 s (gSyncfut s t f k h) := by
  unfold gSyncfut
  simp only
  have h0 : Keep0 s ((s.updTask t fun ts => { ts with body := .syncret f k h }).emit (.syncE t f)) :=
    (k_updTask _ _ _).trans (k_emit _ _)
  refine h0.trans ?_
  generalize ((s.updTask t fun ts => { ts with body := .syncret f k h }).emit (.syncE t f)) = s1
  split
  · exact Keep.refl _ _ _
  · split
    · exact Keep.of_futs rfl rfl
    · split
      · split
        · exact Keep.refl _ _ _
        · exact k_flushBatch _ _ _
      · exact Keep.refl _ _ _
    · exact k_complete _ _ _
    · exact Keep.refl _ _ _

theorem k_gSyncret (s : State) (t f : Nat) (k h : Body) (o : Option Outcome) : Keep0 s (gSyncret s t f k h o) := by
  unfold gSyncret
  have h0 : Keep0 s { s with raising := none } := Keep.of_futs rfl rfl
  cases o with
  | none => exact k_fail _ _
  | some o =>
    cases o with
    | ok v => exact (h0.trans (k_updTask _ _ _)).trans (k_emit _ _)
    | err e => exact (h0.trans (k_updTask _ _ _)).trans (k_emit _ _)

theorem k_gWith (s : State) (t : Nat) (c : CtxKind) (b k : Body) : Keep0 s (gWith s t c b k) := by
  unfold gWith
  simp only
  refine Keep.trans ?_ (k_updTask _ _ _)
  have h1 : Keep0 s (P3.wc1 s c) := by
    unfold P3.wc1; split
    · exact k_svTouch _ _
    · exact Keep.refl _ _ _
  have h3 : ∀ x : State, Keep0 x (P3.wc3 x s.ctxs.length t c) := fun x =>
    (k_emit x (.ctxN s.ctxs.length t c)).trans (Keep.of_futs rfl rfl)
  have h4 : ∀ x : State, Keep0 x (P3.wc4 x s.ctxs.length) := fun x => by
    unfold P3.wc4; split
    · exact k_updTask _ _ _
    · exact Keep.refl _ _ _
  have h5 : ∀ x : State, Keep0 x (P3.wc5 x c s.ctxs.length) := fun x => by
    unfold P3.wc5; split
    · exact Keep.refl _ _ _
    · exact k_ctxResumeOne _ _
  exact ((h1.trans (h3 _)).trans (h4 _)).trans (h5 _)

theorem k_gEndwith (s : State) (t : Nat) (old : Option Nat) (conts : List (Nat × Body)) :
    Keep0 s (gEndwith s t old conts) := by
  unfold gEndwith
  cases conts with
  | nil => exact k_finishTask _ _ _ _
  | cons p rest =>
    obtain ⟨cid, k⟩ := p
    exact (k_ctxExit s cid).trans (k_updTask _ _ _)

theorem k_gRead (s : State) (t var : Nat) (k : Body) : Keep0 s (gRead s t var k) := by
  unfold gRead
  simp only
  exact ((k_svTouch s var).trans (k_emit _ _)).trans (k_updTask _ _ _)

theorem k_gActive (s : State) (t : Nat) (k : Body) : Keep0 s (gActive s t k) := by
  unfold gActive
  exact (k_emit _ _).trans (k_updTask _ _ _)

/-! ### all branches -/

theorem res_genStep (s : State) (t : Nat) (old : Option Nat) (hfr : FrOK s t) (hdep : DepOK s t) :
    Res s t (s.genStep t old) := by
  cases hp : (s.task t).pending with
  | true =>
    cases hs : (s.task t).started with
    | false => rw [genStep_start s t old hp hs]; exact res_gStart s t hfr
    | true =>
      cases hb : (s.task t).body with
      | yld y k h => rw [genStep_resume_yld s t old y k h hp hs hb]; exact res_gResume s t hfr _ _ _ _ _ _
      | reyld k h => rw [genStep_resume_reyld s t old k h hp hs hb]; exact res_gResume s t hfr _ _ _ _ _ _
      | _ =>
        rw [genStep_resume_bad s t old hp hs (by rw [hb]; intros; simp) (by rw [hb]; intros; simp)]
        exact res_of_keep0 (k_fail _ _) hfr hdep
  | false =>
    cases hb : (s.task t).body with
    | ret tag => rw [genStep_ret s t old tag hp hb]; exact res_of_keep0 (k_finishTask _ _ _ _) hfr hdep
    | res tag => rw [genStep_res s t old tag hp hb]; exact res_of_keep0 (k_finishTask _ _ _ _) hfr hdep
    | raise e => rw [genStep_raise s t old e hp hb]; exact res_of_keep0 (k_finishTask _ _ _ _) hfr hdep
    | reraise => rw [genStep_reraise s t old hp hb]; exact res_of_keep0 (k_finishTask _ _ _ _) hfr hdep
    | spawn child pass k => rw [genStep_spawn s t old child pass k hp hb]; exact res_of_keep0 (k_gSpawn _ _ _ _ _) hfr hdep
    | item kind payload mode k =>
      rw [genStep_item s t old kind payload mode k hp hb]; exact res_of_keep0 (k_gItem _ _ _ _ _ _) hfr hdep
    | const v k => rw [genStep_const s t old v k hp hb]; exact res_of_keep0 (k_gAlloc _ _ _ _ _ rfl rfl rfl) hfr hdep
    | errfut e k => rw [genStep_errfut s t old e k hp hb]; exact res_of_keep0 (k_gAlloc _ _ _ _ _ rfl rfl rfl) hfr hdep
    | «lazy» o k => rw [genStep_lazy s t old o k hp hb]; exact res_of_keep0 (k_gAlloc _ _ _ _ _ rfl rfl rfl) hfr hdep
    | yld y k h =>
      rw [genStep_yld s t old y k h hp hb]
      exact res_gYield s t old hfr _ _ _ _ (by cases s.cfg.keepDeps <;> simp) (fun _ => rfl) rfl rfl
    | reyld k h =>
      rw [genStep_reyld s t old k h hp hb]
      exact res_gYield s t old hfr _ _ _ _ (by cases s.cfg.keepDeps <;> simp) (fun _ => rfl) rfl rfl
    | sync child pass k h =>
      rw [genStep_sync s t old child pass k h hp hb]; exact res_of_keep0 (k_gSync _ _ _ _ _ _) hfr hdep
    | syncfut r k h => rw [genStep_syncfut s t old r k h hp hb]; exact res_of_keep0 (k_gSyncfut _ _ _ _ _) hfr hdep
    | syncret f k h => rw [genStep_syncret s t old f k h hp hb]; exact res_of_keep0 (k_gSyncret _ _ _ _ _ _) hfr hdep
    | withCtx c b k => rw [genStep_withCtx s t old c b k hp hb]; exact res_of_keep0 (k_gWith _ _ _ _ _) hfr hdep
    | endwith => rw [genStep_endwith s t old hp hb]; exact res_of_keep0 (k_gEndwith _ _ _ _) hfr hdep
    | read var k => rw [genStep_read s t old var k hp hb]; exact res_of_keep0 (k_gRead _ _ _ _) hfr hdep
    | active k => rw [genStep_active s t old k hp hb]; exact res_of_keep0 (k_gActive _ _ _) hfr hdep

end AsynqModel.Core.P9
