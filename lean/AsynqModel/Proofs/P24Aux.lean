import AsynqModel.Proofs.P24Rounds
import AsynqModel.Proofs.P24Reg
import AsynqModel.Proofs.P24Origin
import AsynqModel.Proofs.P16Main
import AsynqModel.Theorems.SpecC06
/-!
  P24, part 7: helpers of `Theorems/AuditFixes.lean` - the flush count of a single computation, membership in
  `P2.gens`, an executable test for "task `t` awaited nothing", and the facts about the state in which a task is
  failed inside a NonAsyncContext (`SuspendedInNonAsync`).
-/
namespace AsynqModel.Core.P24
open AsynqModel.Core AsynqModel.Core.P19

theorem flush_count_single (k0 : Nat) (cfg : Cfg) (conv : Conv) (body : Body) (hb : BodyOK k0 body)
    (choices : List (Nat × Nat)) (s : State) (h : ReachFrom cfg [(conv, body)] choices s) (hs : s.stuck = none)
    (hg : s.guardFired = false) (l1 l2 : List Event) (o : Outcome) (htr : s.trace = l1 ++ .ret o :: l2) :
    fcount l2 = roundsTop cfg body := by
  obtain ⟨conv', body', h1, h2⟩ := C04_flush_count k0 cfg _ choices (progOK_single hb) s h hs hg l1 l2 o htr
  have : body' = body := by
    cases hi : topOf l2 with
    | zero => rw [hi] at h1; simp at h1; exact h1.2.symm
    | succ i => rw [hi] at h1; simp at h1
  rw [h2, this]

theorem gen_mem_gens {t : Nat} {old : Option Nat} : ∀ {ctl : List Ctl}, Ctl.gen t old ∈ ctl → t ∈ P2.gens ctl
  | [], h => by cases h
  | c :: rest, h => by
    rcases List.mem_cons.1 h with h | h
    · subst h; simp [P2.gens]
    · have ih := gen_mem_gens h
      cases c <;> simp [P2.gens, ih]

/-- no event of `tr` is a `yield` / `syncE` / `syncX` of task `t` -/
def awaitsNothing (t : Nat) (tr : List Event) : Bool :=
  tr.all fun e => match e with
    | .yield u _ _ => u != t
    | .syncE u _ => u != t
    | .syncX u _ _ => u != t
    | _ => true

theorem not_awaitedBy_of {t : Nat} {tr : List Event} (h : awaitsNothing t tr = true) (f : Nat) :
    ¬ P11.AwaitedBy tr t f := by
  unfold awaitsNothing at h
  rw [List.all_eq_true] at h
  rintro (⟨i, y, hm, _⟩ | hm | ⟨o, hm⟩)
  · have := h _ hm; simp at this
  · have := h _ hm; simp at this
  · have := h _ hm; simp at this

theorem dependsOn_self_of {t : Nat} {tr : List Event} (h : awaitsNothing t tr = true) {g : Nat}
    (hd : P11.DependsOn tr t g) : g = t := by
  cases hd with
  | refl => rfl
  | step ha _ => exact absurd ha (not_awaitedBy_of h _)

def isRetB : Body → Bool
  | .ret _ => true
  | _ => false

/-- what is known about the state `s0` in which a task is failed inside a NonAsyncContext, for well-scoped programs
    while the guard has not fired: the task has started, is suspended at a yield (`pending`), is not the running
    generator, and the NonAsyncContext `c` registered with it is the context of one of its own open with-blocks -/
structure SuspendedInNonAsync (s0 : State) (t : Nat) : Prop where
  top : ∃ root base rest stk, s0.ctl = .waitLoop root base :: rest ∧ s0.stack = t :: stk
  task : (s0.fut t).kind = .task
  uncomputed : s0.out t = none
  started : (s0.task t).started = true
  pending : (s0.task t).pending = true
  blocked : ∃ d ∈ (s0.task t).deps, s0.computed d = false
  ctx : ∃ c x, c ∈ (s0.task t).ctxs ∧ s0.ctxs[c]? = some x ∧ x.kind = .nonasync ∧ x.owner = some t ∧
    c ∈ (s0.task t).conts.map (·.1)
  fails : (step s0).out t = some (.err .nonasync)
  fresh : Event.done t (.err .nonasync) ∉ s0.trace

theorem suspended_facts {s0 : State} {t : Nat} (hws : P10.WSReach s0) (hg : s0.guardFired = false)
    (h0 : s0.out t = none) (h1 : (step s0).out t = some (.err .nonasync)) (hs : SuspNA s0 t) :
    SuspendedInNonAsync s0 t := by
  obtain ⟨htop, hk, ⟨d, hd, hdc⟩, ⟨c, hc, hna⟩⟩ := hs
  have hr := hws.reach
  have pin := P2.pinv_reach hr
  have hnc : s0.computed t = false := by simp [State.computed, h0]
  have hng : t ∉ P2.gens s0.ctl := fun hm => by
    have := pin.gnb t hm d hd
    rw [hdc] at this; cases this
  refine ⟨htop, hk, h0, ?_, (P16.J_reach' hws hg).pend t hk hnc hng, ⟨d, hd, hdc⟩, ?_, h1, ?_⟩
  · cases hst : (s0.task t).started with
    | true => rfl
    | false =>
      have := ((P16.U_reach (cx := Spec.mkCtx {} []) hws hg).ns t hst).2
      rw [this] at hd; cases hd
  · obtain ⟨x, hx, ho, _⟩ := (P5.I_reach hr).j.reg t c hc
    refine ⟨c, x, hc, hx, ?_, ho, (P16.B_reach hr hg).k1w t c hc⟩
    unfold State.ctxIsNonAsync at hna
    rw [hx] at hna
    simpa using hna
  · intro hm
    have := pin.doneC t _ hm
    rw [h0] at this; cases this

end AsynqModel.Core.P24
