import AsynqModel.Proofs.P26Obs
import AsynqModel.Proofs.P1Step
/-!
  P26, part 8: the clause `strictC06` (tree-shaped programs: the contexts of every task that - as far as the observer
  can see - waits for the running task, or for the caller of a synchronous call in progress, are RESUMED) holds at
  every `.run` and every `.flushB` event of the runs of tree-shaped programs, and `checkC06strict` accepts every
  trace (`acc_strict`).
-/
namespace AsynqModel.Core.P26
open AsynqModel.Core AsynqModel.Core.Spec P5 P7 P12 P16 P17
open AsynqModel.Core.P13 (obs W)
open AsynqModel.Core.P10 (Named)

variable {s : State} {L : List (Nat × Nat)}

/-- a label is a stack entry -/
theorem Spine.label_entry (sp : Spine s L) {q : Nat} (hq : q ∈ L.map Prod.snd) : q ∈ s.stack := by
  rw [← sp.stk]
  obtain ⟨x, hx, rfl⟩ := List.mem_map.1 hq
  obtain ⟨a, pa⟩ := x
  rcases laba_entry L sp.lab a pa hx with ⟨_, h2⟩ | ⟨_, pp, hpp⟩
  · exact List.mem_map.2 ⟨(a, pa), hx, h2.symm⟩
  · exact List.mem_map.2 ⟨(pa, pp), hpp, rfl⟩

/-- an uncomputed task with active contexts is on the task stack -/
theorem Spine.active_entry (sp : Spine s L) {o : Nat} (hk : (s.fut o).kind = .task)
    (ha : (s.task o).ctxActive = true) (hc : s.computed o = false) : o ∈ s.stack := by
  rcases sp.only hk ha hc with h | h
  · cases hst : s.stack with
    | nil => rw [hst] at h; cases h
    | cons a st =>
      rw [hst] at h
      simp only [List.head?_cons, Option.some.injEq] at h
      rw [h]; exact List.mem_cons_self
  · exact sp.label_entry h

/-- **tree shape**: a task with a path of names to a stack entry whose contexts are active has active contexts -/
theorem Spine.tree_active (sp : Spine s L) (ti : TI s) {o cl : Nat} (hst : cl ∈ s.stack)
    (ha : (s.task cl).ctxActive = true) (hn : NStar s o cl) : (s.task o).ctxActive = true := by
  rcases sp.tree_named ti hn hst with rfl | hl
  · exact ha
  · rcases sp.label_active hl with h | h
    · exact h
    · have : s.stack = [o] := by rw [← sp.stk, h]; rfl
      rw [this] at hst
      simp only [List.mem_singleton] at hst
      rw [← hst]; exact ha

/-- the observer's edges are names when its open synchronous calls are those of the control stack -/
theorem obs_edge (h : P10.WSReach s) (hss : (W s).syncStack = P13.calls s.ctl) (t x : Nat)
    (he : (∃ i y, (W s).lastYield.lookup t = some (i, y) ∧ x ∈ y.leaves) ∨ (t, x) ∈ (W s).syncStack) :
    Named s t x := by
  rcases he with ⟨i, y, hl, hx⟩ | he
  · exact ly_named (YN_reach h) hl hx
  · rw [hss] at he
    exact EN_reach h t x (edgeIn_of_calls _ _ _ he)

/-- the heart of both clauses: the owner of an open AsyncContext that has a path of names to a task whose generator
    frame is on the Python stack has active contexts, so the context is resumed -/
theorem strict_core (h : TReach s) (hg : s.guardFired = false) {cx : Ctx}
    (hss : (W s).syncStack = P13.calls s.ctl) {c : Nat} {x : CtxW} (hx : (W s).ctx? c = some x)
    (ho : x.isOpen = true) (hk : x.kind ≠ .nonasync) {cl : Nat} (hcl : cl ∈ P2.gens s.ctl)
    (hcond : x.owner = cl ∨ ∃ k, (W s).awaitsStar k x.owner cl = true) : x.resumed = true := by
  have hws := h.ws
  have bd : P16.Bd cx s := bd_of hws hg (U_reach hws hg)
  obtain ⟨L, sp⟩ := spine_reach hws hg
  obtain ⟨_, _, hf⟩ := bd.open_flag hx ho
  rw [hf hk]
  have pi := P2.pinv_reach hws.reach
  have hcla : (s.task cl).ctxActive = true := pi.rca cl hcl
  rcases hcond with e | ⟨k, hk'⟩
  · rw [e]; exact hcla
  · have hclk := pi.genKind cl hcl
    have hclc : s.computed cl = false := by simp [State.computed, pi.live cl hcl]
    have hn : NStar s x.owner cl := obs_nstar (obs_edge hws hss) k _ _ hk'
    exact sp.tree_active h.ti (sp.active_entry hclk hcla hclc) hcla hn

/-! ### `.run` -/

theorem strict_run_ok (h : TReach s) (hg : s.guardFired = false) (cx : Ctx) {u : Nat} {old : Option Nat}
    {rest : List Ctl} (hctl : s.ctl = .gen u old :: rest) (hp : (s.task u).pending = true) (i : Nat) (dc : Bool)
    (r : Recv) : strictC06 cx (W s) (.run u i dc r) = none := by
  have hws := h.ws
  have bd : P16.Bd cx s := bd_of hws hg (U_reach hws hg)
  have sr := (P13.inv13_of_reach hws.reach { (default : Ctx) with cfg := s.cfg } rfl).sr
  have hss : (W s).syncStack = P13.calls s.ctl := by
    refine sr.ss_gen hctl ?_
    rintro ⟨f, k, h', _, hpf⟩
    rw [hp] at hpf; cases hpf
  have hug : u ∈ P2.gens s.ctl := by rw [hctl]; simp [P2.gens]
  unfold strictC06
  cases cx.treeShaped with
  | false => rfl
  | true =>
    simp only [Bool.not_true, Bool.false_eq_true, if_false]
    rw [List.findSome?_eq_none_iff]
    intro p hp'
    have hx := entry_lookup bd hp'
    obtain ⟨c, x⟩ := p
    simp only
    have key : x.isOpen = true → (x.kind == CtxKind.nonasync) = false →
        ((W s).awaitsStar (W s).fuel x.owner u ||
          ((W s).syncStack.map (·.1)).contains x.owner ||
          ((W s).syncStack.map (·.1)).any (fun cl => (W s).awaitsStar (W s).fuel x.owner cl)) = true →
        x.resumed = true := by
      intro ho hk hc
      have hk : x.kind ≠ .nonasync := by simpa using hk
      simp only [Bool.or_eq_true] at hc
      rcases hc with (hc | hc) | hc
      · exact strict_core h hg (cx := cx) hss hx ho hk hug (.inr ⟨_, hc⟩)
      · have hm : x.owner ∈ (W s).syncStack.map (·.1) := by simpa using hc
        obtain ⟨q, hq, e⟩ := List.mem_map.1 hm
        rw [hss] at hq
        have := P13.calls_mem_gens s.ctl q.1 q.2 hq
        exact strict_core h hg (cx := cx) hss hx ho hk (e ▸ this) (.inl rfl)
      · rw [List.any_eq_true] at hc
        obtain ⟨cl, hcl, hc⟩ := hc
        obtain ⟨q, hq, e⟩ := List.mem_map.1 hcl
        rw [hss] at hq
        have := P13.calls_mem_gens s.ctl q.1 q.2 hq
        exact strict_core h hg (cx := cx) hss hx ho hk (e ▸ this) (.inr ⟨_, hc⟩)
    generalize ((W s).awaitsStar (W s).fuel x.owner u ||
      ((W s).syncStack.map (·.1)).contains x.owner ||
      ((W s).syncStack.map (·.1)).any (fun cl => (W s).awaitsStar (W s).fuel x.owner cl)) = b1 at key ⊢
    generalize (x.owner == u) = b0
    generalize (x.kind == CtxKind.nonasync) = bk at key ⊢
    cases hO : x.isOpen <;> cases bk <;> cases b0 <;> cases b1 <;> cases hR : x.resumed <;> simp_all

/-! ### `.flushB` -/

theorem strict_flush_ok (h : TReach s) (hg : s.guardFired = false) (cx : Ctx)
    (hng : ∀ t old rest, s.ctl ≠ .gen t old :: rest) (k q : Nat) (its : List Nat) (pr : Nat × Nat)
    (pd : List PendingB) : strictC06 cx (W s) (.flushB k q its pr pd) = none := by
  have hws := h.ws
  have bd : P16.Bd cx s := bd_of hws hg (U_reach hws hg)
  have sr := (P13.inv13_of_reach hws.reach { (default : Ctx) with cfg := s.cfg } rfl).sr
  have hss : (W s).syncStack = P13.calls s.ctl := sr.ss_nogen hng
  unfold strictC06
  cases cx.treeShaped with
  | false => rfl
  | true =>
    simp only [Bool.not_true, Bool.false_eq_true, if_false]
    rw [List.findSome?_eq_none_iff]
    intro p hp'
    have hx := entry_lookup bd hp'
    obtain ⟨c, x⟩ := p
    simp only
    have key : x.isOpen = true → (x.kind == CtxKind.nonasync) = false →
        (((W s).syncStack.map (·.1)).any (fun cl => (W s).awaitsStar (W s).fuel x.owner cl)) = true →
        x.resumed = true := by
      intro ho hk hc
      have hk : x.kind ≠ .nonasync := by simpa using hk
      rw [List.any_eq_true] at hc
      obtain ⟨cl, hcl, hc⟩ := hc
      obtain ⟨q', hq, e⟩ := List.mem_map.1 hcl
      rw [hss] at hq
      have := P13.calls_mem_gens s.ctl q'.1 q'.2 hq
      exact strict_core h hg (cx := cx) hss hx ho hk (e ▸ this) (.inr ⟨_, hc⟩)
    generalize (((W s).syncStack.map (·.1)).any (fun cl => (W s).awaitsStar (W s).fuel x.owner cl)) = b1 at key ⊢
    generalize (x.kind == CtxKind.nonasync) = bk at key ⊢
    cases hO : x.isOpen <;> cases bk <;> cases b1 <;> cases hR : x.resumed <;> simp_all

/-! ### every trace is accepted -/

/-- events `strictC06` has no clause for -/
def trivEv : Event → Bool
  | .run .. => false
  | .flushB .. => false
  | _ => true

theorem strict_triv (cx : Ctx) (w : Watch) (e : Event) (h : trivEv e = true) : strictC06 cx w e = none := by
  cases e <;> simp [trivEv] at h <;> rfl

theorem acc_append {chk : Ctx → Watch → Event → Option String} {cx : Ctx} :
    ∀ (evs tr : List Event), P13.Acc chk cx tr → (∀ e ∈ evs, ∀ w, chk cx w e = none) → P13.Acc chk cx (evs ++ tr)
  | [], _, h, _ => h
  | e :: evs, tr, h, ht =>
    ⟨acc_append evs tr h (fun e' he' => ht e' (List.mem_cons_of_mem _ he')), ht e List.mem_cons_self _⟩

theorem triv_of_isDone {e : Event} (h : P1.isDone e = true) : trivEv e = true := by
  cases e <;> simp [P1.isDone] at h <;> rfl

theorem acc_strict_step {s : State} (h : TReach s) (hg : (step s).guardFired = false) (cx : Ctx)
    (ih : P13.Acc strictC06 cx s.trace) : P13.Acc strictC06 cx (step s).trace := by
  have hg0 := P3.guard_mono s hg
  rcases P1.step_cases s with hm | ⟨root, base, fc, he⟩
  · -- no scheduler bracket among the new events
    obtain ⟨es, hes, hbe, _⟩ := hm.tr
    have nobe : ∀ e ∈ es, P1.isBE e = false := fun e he => by
      rcases hbe e he with h' | h'
      · cases h'
      · exact h'
    cases stepKind_of_ws h.ws with
    | quiet q c =>
      obtain ⟨n, e1, e2⟩ := q.trace
      have : n = es := List.append_cancel_right (e1.symm.trans hes)
      subst this
      rw [e1]
      refine acc_append _ _ ih (fun e he w => strict_triv cx w e ?_)
      have h1 := (e2 e he).1
      have h2 := nobe e he
      cases e <;> simp_all [trivEv, P2.isRunYield, P1.isBE]
    | push q t' r b rest h1 h2 ha hca hk hn ho hd' =>
      obtain ⟨n, e1, e2⟩ := q.trace
      have : n = es := List.append_cancel_right (e1.symm.trans hes)
      subst this
      rw [e1]
      refine acc_append _ _ ih (fun e he w => strict_triv cx w e ?_)
      have h1 := (e2 e he).1
      have h2 := nobe e he
      cases e <;> simp_all [trivEv, P2.isRunYield, P1.isBE]
    | run0 t' old' rest g h1 hp hs hg' c hc ha =>
      rw [c.trace]
      exact ⟨ih, strict_run_ok h hg0 cx h1 hp _ _ _⟩
    | run t' old' rest g o' h1 hp hs ho hg' c hc ha =>
      rw [c.trace]
      exact ⟨ih, strict_run_ok h hg0 cx h1 hp _ _ _⟩
    | yield t' old' rest g ry deps h1 hp hg' hsub c hc =>
      rw [c.trace]
      exact ⟨ih, rfl⟩
  · -- a scheduler flush
    obtain ⟨⟨rest, hctl⟩, _, _, _, _⟩ := fc
    rw [he]
    by_cases hfl : s.flushable = []
    · rw [P1.schedulerFlush_empty s root hfl]; exact ih
    · rcases P1.schedulerFlush_cases s root hfl with ⟨m, hm, _⟩ | ⟨c, b, _, _, hb, hw⟩
      · rw [hm]; exact ih
      · rw [hw]
        unfold P1.flushWith
        obtain ⟨mid, ht, hd⟩ := P1.flushBatch_trace
          (({ s with sbatches := s.flushable.erase c, ctl := .waitEnter root :: s.ctl.tail, choices := s.choices.tail } : State).emit
            (.flushB c.1 c.2 b.items (s.batchPrio b) (s.pendingOf (s.flushable.erase c)))) c.1 c.2 b hb
        show P13.Acc strictC06 cx (.flushE c.1 c.2 :: (State.flushBatch _ c.1 c.2).trace)
        rw [ht]
        have hfb : P13.Acc strictC06 cx
            (.flushB c.1 c.2 b.items (s.batchPrio b) (s.pendingOf (s.flushable.erase c)) :: s.trace) :=
          ⟨ih, strict_flush_ok h hg0 cx (fun t old rest' hc' => by rw [hctl] at hc'; cases hc') _ _ _ _ _⟩
        refine ⟨⟨?_, rfl⟩, rfl⟩
        have key := acc_append (chk := strictC06) (cx := cx) (mid ++ [Event.flushI c.1 c.2 b.items]) _ hfb
          (fun e he w => strict_triv cx w e (by
            rcases List.mem_append.1 he with he | he
            · exact triv_of_isDone (hd e he)
            · simp only [List.mem_singleton] at he
              subst he; rfl))
        rw [List.append_assoc] at key
        exact key

/-- `strictC06` raises nothing on the trace of a run of tree-shaped programs (any observer context) -/
theorem acc_strict {s : State} (h : TReach s) (hg : s.guardFired = false) (cx : Ctx) :
    P13.Acc strictC06 cx s.trace := by
  induction h with
  | init cfg tops choices _ _ => trivial
  | @step s hs ih => exact acc_strict_step hs hg cx (ih (P3.guard_mono s hg))

/-- on traces of programs that are not tree-shaped the clause is void -/
theorem strict_void (cx : Ctx) (ht : cx.treeShaped = false) (w : Watch) (e : Event) : strictC06 cx w e = none := by
  cases e <;> simp [strictC06, ht]

theorem acc_and {chk1 chk2 : Ctx → Watch → Event → Option String} {cx : Ctx} :
    ∀ tr : List Event, P13.Acc chk1 cx tr → P13.Acc chk2 cx tr →
      P13.Acc (fun c w e => match chk1 c w e with | some m => some m | none => chk2 c w e) cx tr
  | [], _, _ => trivial
  | e :: tr, h1, h2 => ⟨acc_and tr h1.1 h2.1, by simp only [h1.2]; exact h2.2⟩

end AsynqModel.Core.P26
