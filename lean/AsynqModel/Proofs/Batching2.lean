import AsynqModel.Proofs.Batching
/-! helper lemmas for C11, part 2: the invariant that holds while one batch `b0` is being finished -/
namespace AsynqModel.Batching
set_option linter.unusedSimpArgs false

theorem Ext.refl (s : St) : Ext s s := by
  refine ⟨⟨rfl, rfl⟩, Nat.le_refl _, Nat.le_refl _, ?_, ?_⟩ <;> intros <;> simp

theorem Ext.trans {s t u : St} (h1 : Ext s t) (h2 : Ext t u) : Ext s u := by
  obtain ⟨k1, b1, i1, B1, I1⟩ := h1
  obtain ⟨k2, b2, i2, B2, I2⟩ := h2
  refine ⟨⟨k1.1.trans k2.1, k1.2.trans k2.2⟩, Nat.le_trans b1 b2, Nat.le_trans i1 i2, ?_, ?_⟩
  · intro b hb
    have ⟨x1, y1⟩ := B1 b hb
    have ⟨x2, y2⟩ := B2 b (by omega)
    refine ⟨fun h => ?_, by omega⟩
    have e1 := x1 h
    rw [x2 (by rw [e1]; exact h), e1]
  · intro i hi
    have ⟨a1, p1, s1, o1, l1⟩ := I1 i hi
    have ⟨a2, p2, s2, o2, l2⟩ := I2 i (by omega)
    refine ⟨a2.trans a1, p2.trans p1, s2.trans s1, fun h => ?_, l2.trans l1⟩
    have e1 := o1 h
    rw [o2 (by rw [e1]; exact h), e1]

/-- what holds of the state `s` while batch `b0` (pending in the snapshot `s0` taken before the operation) is
    being flushed / cancelled; `a` is the batch that holds the active slot meanwhile -/
structure Mid (s0 : St) (b0 a : Nat) (s : St) : Prop where
  ext : Ext s0 s
  act : s.active = a
  ane : a ≠ b0
  alt : a < s.batches.length
  apend : s.bout a = none
  blt : b0 < s0.batches.length
  itm : ∀ i, i < s.items.length → s.ibatch i < s.batches.length ∧
        ((s.bout (s.ibatch i) = none ∨ s.ibatch i = b0) → i ∈ s.bitems (s.ibatch i)) ∧
        (s.ibatch i ≠ b0 → (s.bout (s.ibatch i)).isSome → (s.iout i).isSome)
  mem : ∀ b, b < s.batches.length → ∀ i, i ∈ s.bitems b → i < s.items.length ∧ s.ibatch i = b
  runs : ∀ b, b < s.batches.length → b ≠ b0 → s.runs b ≤ 1 ∧ (s.bout b = none → s.runs b = 0)
  runs0 : s.runs b0 ≤ 1
  pre0 : s0.bout b0 = none
  bi0 : s.bitems b0 = s0.bitems b0
  nb : s.batches.length = (switch s0 b0).batches.length
  aeq : a = (switch s0 b0).active
  oth : ∀ b, b ≠ b0 → s0.bout b = none → s.bout b = none

/-- a step inside the operation: the invariant is kept, nothing observable is revoked, and the batch being
    finished keeps its item list, outcome and run counter -/
structure Next (s0 : St) (b0 a : Nat) (s s' : St) : Prop where
  mid : Mid s0 b0 a s'
  ext : Ext s s'
  bi : s'.bitems b0 = s.bitems b0
  bo : s'.bout b0 = s.bout b0
  ru : s'.runs b0 = s.runs b0

theorem Next.refl {s0 b0 a s} (h : Mid s0 b0 a s) : Next s0 b0 a s s :=
  ⟨h, Ext.refl s, rfl, rfl, rfl⟩

theorem Next.trans {s0 b0 a s t u} (h1 : Next s0 b0 a s t) (h2 : Next s0 b0 a t u) : Next s0 b0 a s u :=
  ⟨h2.mid, h1.ext.trans h2.ext, h2.bi.trans h1.bi, h2.bo.trans h1.bo, h2.ru.trans h1.ru⟩

theorem ext_setItemOut (s : St) (i : Nat) (o : Outc) (hn : s.iout i = none) : Ext s (s.setItemOut i o) := by
  refine ⟨⟨rfl, rfl⟩, by simp, by simp, ?_, ?_⟩
  · intro b _; simp
  · intro j _
    simp only [setItemOut_ibatch, setItemOut_payload, setItemOut_ispawn, setItemOut_ilink, setItemOut_iout, true_and,
      and_true]
    intro h
    have : ¬ j = i := by intro e; subst e; simp [hn] at h
    simp [this]

theorem ext_pushItem (s : St) (b p : Nat) (sp : Option Nat) (lk : Option Link := none) :
    Ext s (s.pushItem b p sp lk) := by
  refine ⟨⟨rfl, rfl⟩, by simp, by simp, ?_, ?_⟩
  · intro c _; simp
  · intro j hj
    have : ¬ j = s.items.length := by omega
    simp [pushItem_ibatch, pushItem_payload, pushItem_ispawn, pushItem_ilink, this]

theorem next_setItemOut {s0 b0 a s} (h : Mid s0 b0 a s) (i : Nat) (o : Outc)
    (hn : s.iout i = none) : Next s0 b0 a s (s.setItemOut i o) := by
  have he := ext_setItemOut s i o hn
  refine ⟨⟨h.ext.trans he, h.act, h.ane, h.alt, h.apend, h.blt, ?_, ?_, ?_, h.runs0, h.pre0, h.bi0, h.nb, h.aeq,
    h.oth⟩, he, rfl, rfl, rfl⟩
  · intro j hj
    simp only [setItemOut_len] at hj
    have ⟨x, y, z⟩ := h.itm j hj
    simp only [setItemOut_ibatch, setItemOut_bout, setItemOut_bitems, setItemOut_iout, setItemOut_batches]
    refine ⟨x, y, fun h1 h2 => ?_⟩
    by_cases e : j = i
    · subst e; simp [hj]
    · simp [e]; exact z h1 h2
  · intro b hb' j hj
    simpa using h.mem b hb' j hj
  · intro b hb' hne
    simpa using h.runs b hb' hne

theorem next_pushItem {s0 b0 a s} (h : Mid s0 b0 a s) (p : Nat) (sp : Option Nat) :
    Next s0 b0 a s (s.pushItem a p sp) := by
  have he := ext_pushItem s a p sp
  have hane := h.ane
  have halt := h.alt
  have hb0 : b0 < s.batches.length := Nat.lt_of_lt_of_le h.blt h.ext.2.1
  refine ⟨⟨h.ext.trans he, h.act, h.ane, by simpa using h.alt, by simpa using h.apend, h.blt, ?_, ?_, ?_,
    by simpa using h.runs0, h.pre0, by simp [pushItem_bitems, Ne.symm hane, h.bi0], by simpa using h.nb, h.aeq,
    by simpa using h.oth⟩, he, ?_, by simp, by simp⟩
  · intro j hj
    simp only [pushItem_ilen] at hj
    simp only [pushItem_ibatch, pushItem_blen, pushItem_bout, pushItem_bitems, pushItem_iout]
    by_cases e : j = s.items.length
    · subst e
      simp [halt, h.apend, hane]
    · have hj' : j < s.items.length := by omega
      have ⟨x, y, z⟩ := h.itm j hj'
      simp only [e, if_false]
      refine ⟨x, fun hh => ?_, z⟩
      have := y hh
      split
      · exact List.mem_append_left _ this
      · exact this
  · intro b hb' j hj
    simp only [pushItem_blen] at hb'
    simp only [pushItem_bitems] at hj
    simp only [pushItem_ilen, pushItem_ibatch]
    split at hj
    · rename_i hc
      rcases List.mem_append.mp hj with hj | hj
      · have ⟨x, y⟩ := h.mem b hb' j hj
        have : ¬ j = s.items.length := by omega
        simp [this, y]; omega
      · simp at hj; subst hj; simp [hc.1]
    · have ⟨x, y⟩ := h.mem b hb' j hj
      have : ¬ j = s.items.length := by omega
      simp [this, y]; omega
  · intro b hb' hne
    simpa using h.runs b (by simpa using hb') hne
  · simp [pushItem_bitems, Ne.symm hane]


/-! ### events -/

/-- what is known of a logged event while `b0` is being finished (everything here is stable under `Ext`) -/
def EvOK (s0 : St) (b0 a : Nat) (s : St) : Ev → Prop
  | .body b act => b = b0 ∧ act = a
  | .bodyEnd _ _ _ => True
  | .item i o bb => s.iout i = some o ∧ s0.iout i = none ∧ i < s.items.length ∧ s.ibatch i = b0 ∧
      (bb = false → (∃ e, o = .err e ∧ s.bout b0 = some (.err e)) ∨
                    (o = .err .notSet ∧ s.kind = .user ∧ ∃ v, s.bout b0 = some (.val v)) ∨
                    (s.kind = .debug ∧ o = .val (s.payload i)))
  | .created i b src => b = a ∧ src = some b0 ∧ s0.items.length ≤ i ∧ i < s.items.length ∧ s.ibatch i = a
  | .createFail _ => False
  | .announce b pend act => b = b0 ∧ pend = [] ∧ act = a ∧ (s.bout b0).isSome

theorem evok_mono {s0 b0 a s s'} (hE : Ext s s') (hb : b0 < s.batches.length) (ev : Ev)
    (h : EvOK s0 b0 a s ev) : EvOK s0 b0 a s' ev := by
  obtain ⟨hk, hbl, hil, hB, hI⟩ := hE
  have hbo : ∀ x, s.bout b0 = some x → s'.bout b0 = some x := by
    intro x hx
    have := (hB b0 hb).1 (by simp [hx])
    rw [this, hx]
  cases ev with
  | body b act => exact h
  | bodyEnd _ _ _ => exact h
  | createFail _ => exact h
  | created i b src =>
    obtain ⟨h1, h2, h3, h4, h5⟩ := h
    exact ⟨h1, h2, h3, by omega, by rw [(hI i h4).1]; exact h5⟩
  | announce b pend act =>
    obtain ⟨h1, h2, h3, h4⟩ := h
    refine ⟨h1, h2, h3, ?_⟩
    cases hx : s.bout b0 with
    | none => simp [hx] at h4
    | some x => simp [hbo x hx]
  | item i o bb =>
    obtain ⟨h1, h2, h3, h4, h5⟩ := h
    have ⟨i1, i2, _, i4, _⟩ := hI i h3
    refine ⟨by rw [i4 (by simp [h1])]; exact h1, h2, by omega, by rw [i1]; exact h4, fun hbb => ?_⟩
    rcases h5 hbb with ⟨e, he, hx⟩ | ⟨ho, hku, v, hx⟩ | ⟨hkd, ho⟩
    · exact Or.inl ⟨e, he, hbo _ hx⟩
    · exact Or.inr (Or.inl ⟨ho, by rw [← hk.1]; exact hku, v, hbo _ hx⟩)
    · exact Or.inr (Or.inr ⟨by rw [← hk.1]; exact hkd, by rw [i2]; exact ho⟩)

theorem pre_iout_none {s0 s : St} (hE : Ext s0 s) (i : Nat) (hn : s.iout i = none) : s0.iout i = none := by
  by_cases hi : i < s0.items.length
  · cases hx : s0.iout i with
    | none => rfl
    | some x =>
      have := (hE.2.2.2.2 i hi).2.2.2.1 (by simp [hx])
      rw [hn, hx] at this; cases this
  · simp [St.iout, List.getElem?_eq_none_iff.mpr (Nat.le_of_not_lt hi)]

theorem Mid.b0lt {s0 b0 a s} (h : Mid s0 b0 a s) : b0 < s.batches.length :=
  Nat.lt_of_lt_of_le h.blt h.ext.2.1

theorem newItemOn_mid {s0 b0 a s} (h : Mid s0 b0 a s) (p : Nat) (sp src : Option Nat) :
    newItemOn s s.active p sp src = some (s.pushItem a p sp, [.created s.items.length a src]) := by
  have halt := h.alt
  have hap := h.apend
  rw [h.act]
  unfold newItemOn
  have e : s.batches[a]? = some s.batches[a] := List.getElem?_eq_getElem halt
  simp only [St.bout, e, Option.bind_some] at hap
  simp [e, hap]

/-- the shape of the outcome an item may be given by `_computed` / `DebugBatch._flush` -/
def Rule (s : St) (b0 i : Nat) (o : Outc) : Prop :=
  (∃ e, o = .err e ∧ s.bout b0 = some (.err e)) ∨
  (o = .err .notSet ∧ s.kind = .user ∧ ∃ v, s.bout b0 = some (.val v)) ∨
  (s.kind = .debug ∧ o = .val (s.payload i))

theorem linkFires_spec {s : St} {b j : Nat} (h : s.linkFires b j = true) :
    j < s.items.length ∧ s.ibatch j = b ∧ s.iout j = none := by
  unfold St.linkFires at h
  cases e : s.items[j]? with
  | none => simp [e] at h
  | some t =>
    simp only [e, Bool.and_eq_true, beq_iff_eq, Option.isNone_iff_eq_none] at h
    have ⟨hl, _⟩ := List.getElem?_eq_some_iff.mp e
    exact ⟨hl, by simp [St.ibatch, e, h.1], by simp [St.iout, e, h.2]⟩


/-! ### the log tells every completion and every creation exactly once -/

theorem isPlain_not_announce {ev : Ev} (h : ev.isPlain = true) : ev.isAnnounce = false := by
  cases ev <;> simp_all [Ev.isPlain, Ev.isAnnounce]

theorem itemCount_append (e1 e2 : List Ev) (i : Nat) : itemCount (e1 ++ e2) i = itemCount e1 i + itemCount e2 i := by
  simp [itemCount, List.countP_append]
theorem createdCount_append (e1 e2 : List Ev) (i : Nat) :
    createdCount (e1 ++ e2) i = createdCount e1 i + createdCount e2 i := by
  simp [createdCount, List.countP_append]
theorem announceCount_append (e1 e2 : List Ev) (i : Nat) :
    announceCount (e1 ++ e2) i = announceCount e1 i + announceCount e2 i := by
  simp [announceCount, List.countP_append]
theorem itemCount_cons (ev : Ev) (e : List Ev) (i : Nat) : itemCount (ev :: e) i = itemCount [ev] i + itemCount e i :=
  itemCount_append [ev] e i
theorem createdCount_cons (ev : Ev) (e : List Ev) (i : Nat) :
    createdCount (ev :: e) i = createdCount [ev] i + createdCount e i := createdCount_append [ev] e i
theorem announceCount_cons (ev : Ev) (e : List Ev) (i : Nat) :
    announceCount (ev :: e) i = announceCount [ev] i + announceCount e i := announceCount_append [ev] e i

theorem announceCount_plain (e : List Ev) (h : ∀ ev ∈ e, ev.isPlain = true) (b : Nat) : announceCount e b = 0 := by
  induction e with
  | nil => rfl
  | cons ev e ih =>
    rw [announceCount_cons, ih (fun x hx => h x (by simp [hx]))]
    have := h ev (by simp)
    cases ev <;> simp_all [Ev.isPlain, announceCount]

/-- the log `evs` of a piece of an operation that leads from `s` to `t` tells every completion of an item and every
    creation of an item exactly once, and nothing else -/
def Law (s t : St) (evs : List Ev) : Prop :=
  ∀ i, itemCount evs i = (if s.iout i = none ∧ (t.iout i).isSome then 1 else 0) ∧
       createdCount evs i = (if s.items.length ≤ i ∧ i < t.items.length then 1 else 0)

theorem iout_isSome_lt {s : St} {i : Nat} (h : (s.iout i).isSome) : i < s.items.length := by
  apply Classical.byContradiction
  intro hlt
  have : s.items[i]? = none := List.getElem?_eq_none_iff.mpr (Nat.le_of_not_lt hlt)
  simp [St.iout, this] at h

theorem ext_iout_mono {s t : St} (hE : Ext s t) (i : Nat) (h : (s.iout i).isSome) : (t.iout i).isSome := by
  rw [(hE.2.2.2.2 i (iout_isSome_lt h)).2.2.2.1 h]; exact h

theorem Law.silent {s t : St} (h1 : ∀ i, t.iout i = s.iout i) (h2 : t.items.length = s.items.length) : Law s t [] := by
  intro i
  refine ⟨?_, ?_⟩
  · rw [h1 i]; cases s.iout i <;> simp [itemCount]
  · rw [h2]
    have : ¬ (s.items.length ≤ i ∧ i < s.items.length) := by omega
    simp [createdCount, this]

theorem Law.nil (s : St) : Law s s [] := Law.silent (fun _ => rfl) rfl

theorem Law.append {s t u : St} {e1 e2 : List Ev} (l1 : Law s t e1) (l2 : Law t u e2) (x1 : Ext s t) (x2 : Ext t u) :
    Law s u (e1 ++ e2) := by
  intro i
  obtain ⟨a1, c1⟩ := l1 i
  obtain ⟨a2, c2⟩ := l2 i
  have m1 := ext_iout_mono x1 i
  have m2 := ext_iout_mono x2 i
  have n1 := x1.2.2.1
  have n2 := x2.2.2.1
  refine ⟨?_, ?_⟩
  · rw [itemCount_append, a1, a2]
    cases hs : s.iout i <;> cases ht : t.iout i <;> cases hu : u.iout i <;> simp_all
  · rw [createdCount_append, c1, c2]
    by_cases p1 : s.items.length ≤ i ∧ i < t.items.length
    · have p2 : ¬ (t.items.length ≤ i ∧ i < u.items.length) := by omega
      have p3 : s.items.length ≤ i ∧ i < u.items.length := by omega
      simp [p1, p2, p3]
    · by_cases p2 : t.items.length ≤ i ∧ i < u.items.length
      · have p3 : s.items.length ≤ i ∧ i < u.items.length := by omega
        simp [p1, p2, p3]
      · have p3 : ¬ (s.items.length ≤ i ∧ i < u.items.length) := by omega
        simp [p1, p2, p3]

/-- an event that is neither a completion nor a creation does not count -/
theorem Law.cons_other {s t : St} {e : List Ev} (ev : Ev) (hev : ev.isPlain = false) (l : Law s t e) :
    Law s t (ev :: e) := by
  intro i
  obtain ⟨a, c⟩ := l i
  rw [itemCount_cons, createdCount_cons, a, c]
  cases ev <;> simp_all [Ev.isPlain, itemCount, createdCount]

theorem Law.snoc_other {s t : St} {e : List Ev} (ev : Ev) (hev : ev.isPlain = false) (l : Law s t e) :
    Law s t (e ++ [ev]) := by
  intro i
  obtain ⟨a, c⟩ := l i
  rw [itemCount_append, createdCount_append, a, c]
  cases ev <;> simp_all [Ev.isPlain, itemCount, createdCount]

theorem law_setItemOut (s : St) (i : Nat) (o : Outc) (bb : Bool) (hlt : i < s.items.length) (hn : s.iout i = none) :
    Law s (s.setItemOut i o) [.item i o bb] := by
  intro j
  refine ⟨?_, ?_⟩
  · simp only [setItemOut_iout, hlt, and_true]
    by_cases e : j = i
    · subst e; simp [itemCount, hn]
    · have e' : ¬ i = j := fun x => e x.symm
      cases hj : s.iout j <;> simp [itemCount, e, e']
  · have : ¬ (s.items.length ≤ j ∧ j < s.items.length) := by omega
    simp [createdCount, this]

theorem law_pushItem (s : St) (b p : Nat) (sp src : Option Nat) (lk : Option Link) :
    Law s (s.pushItem b p sp lk) [.created s.items.length b src] := by
  intro j
  refine ⟨?_, ?_⟩
  · simp only [pushItem_iout]
    cases s.iout j <;> simp [itemCount]
  · simp only [pushItem_ilen]
    by_cases e : j = s.items.length
    · subst e; simp [createdCount]
    · have e' : ¬ s.items.length = j := fun x => e x.symm
      have : ¬ (s.items.length ≤ j ∧ j < s.items.length + 1) := by omega
      simp [createdCount, e', this]

/-- what a (possibly nested) completion of an item of `b0` yields: state, log -/
def CI (s0 : St) (b0 a : Nat) (s : St) (i : Nat) (o : Outc) (r : St × List Ev) : Prop :=
  Next s0 b0 a s r.1 ∧ r.1.iout i = some o ∧ (∀ ev ∈ r.2, EvOK s0 b0 a r.1 ev) ∧ (∀ ev ∈ r.2, ev.isPlain = true) ∧
  Law s r.1 r.2

/-- the `spawn` callback of an item of `b0` -/
theorem spawnPart_spec {s0 b0 a s1} (h : Mid s0 b0 a s1) (it : Item) (hb : it.batch = b0) :
    Next s0 b0 a s1 (spawnPart s1 it).1 ∧ (∀ ev ∈ (spawnPart s1 it).2, EvOK s0 b0 a (spawnPart s1 it).1 ev) ∧
    (∀ ev ∈ (spawnPart s1 it).2, ev.isPlain = true) ∧ Law s1 (spawnPart s1 it).1 (spawnPart s1 it).2 := by
  unfold spawnPart
  cases hsp : it.spawn with
  | none => exact ⟨Next.refl h, by simp, by simp, Law.nil s1⟩
  | some p =>
    have hnew := newItemOn_mid h p none (some b0)
    simp only [hb, hnew]
    have n2 := next_pushItem h p none
    refine ⟨n2, ?_, ?_, law_pushItem s1 a p none (some b0) none⟩
    · intro ev hev
      simp at hev; subst hev
      exact ⟨rfl, rfl, h.ext.2.2.1, by simp, by simp [pushItem_ibatch]⟩
    · intro ev hev
      simp at hev; subst hev; rfl

/-- storing the outcome, logging, and the `spawn` callback -/
theorem ci_base {s0 b0 a s} (h : Mid s0 b0 a s) (i : Nat) (o : Outc) (bb : Bool)
    (hlt : i < s.items.length) (hib : s.ibatch i = b0) (hn : s.iout i = none) (hr : bb = false → Rule s b0 i o)
    (it : Item) (hit : it.batch = b0) :
    CI s0 b0 a s i o ((spawnPart (s.setItemOut i o) it).1, .item i o bb :: (spawnPart (s.setItemOut i o) it).2) := by
  have n1 := next_setItemOut h i o hn
  have io1 : (s.setItemOut i o).iout i = some o := by simp [setItemOut_iout, hlt]
  have ev1 : EvOK s0 b0 a (s.setItemOut i o) (.item i o bb) := by
    refine ⟨io1, pre_iout_none h.ext i hn, by simpa using hlt, by simpa using hib, fun hbb => ?_⟩
    rcases hr hbb with ⟨e, he, hx⟩ | ⟨ho, hku, v, hx⟩ | ⟨hkd, ho⟩
    · exact Or.inl ⟨e, he, by simpa using hx⟩
    · exact Or.inr (Or.inl ⟨ho, by simpa using hku, v, by simpa using hx⟩)
    · exact Or.inr (Or.inr ⟨by simpa using hkd, by simpa using ho⟩)
  have ⟨n2, ev2, na2, l2⟩ := spawnPart_spec n1.mid it hit
  refine ⟨n1.trans n2, ?_, ?_, ?_, (law_setItemOut s i o bb hlt hn).append l2 n1.ext n2.ext⟩
  · rw [(n2.ext.2.2.2.2 i (by simpa using hlt)).2.2.2.1 (by simp [io1])]; exact io1
  · intro ev hev
    simp only [List.mem_cons] at hev
    rcases hev with hev | hev
    · subst hev; exact evok_mono n2.ext n1.mid.b0lt _ ev1
    · exact ev2 ev hev
  · intro ev hev
    simp only [List.mem_cons] at hev
    rcases hev with hev | hev
    · subst hev; rfl
    · exact na2 ev hev

/-- a nested completion (the `link` callback) after the base part -/
theorem ci_nest {s0 b0 a s i o s2 e2 j o' r3} (c2 : CI s0 b0 a s i o (s2, e2)) (hlt : i < s.items.length)
    (c3 : CI s0 b0 a s2 j o' r3) (ev0 : Ev) (he0 : e2 = ev0 :: e2.tail) :
    CI s0 b0 a s i o (r3.1, ev0 :: (e2.tail ++ r3.2)) := by
  obtain ⟨n2, io2, ev2, na2, l2⟩ := c2
  obtain ⟨n3, _, ev3, na3, l3⟩ := c3
  have hlt2 : i < s2.items.length := Nat.lt_of_lt_of_le hlt n2.ext.2.2.1
  have hmem : ∀ ev, ev ∈ ev0 :: (e2.tail ++ r3.2) → ev ∈ e2 ∨ ev ∈ r3.2 := by
    intro ev hev
    rw [he0]
    simp only [List.mem_cons, List.mem_append] at hev ⊢
    rcases hev with hev | hev | hev
    · exact Or.inl (Or.inl hev)
    · exact Or.inl (Or.inr hev)
    · exact Or.inr hev
  have hl : Law s r3.1 (ev0 :: (e2.tail ++ r3.2)) := by
    have := l2.append l3 n2.ext n3.ext
    rw [he0] at this
    exact this
  refine ⟨n2.trans n3, ?_, ?_, ?_, hl⟩
  · have := (n3.ext.2.2.2.2 i hlt2).2.2.2.1 (by simp [io2] : (St.iout s2 i).isSome)
    rw [this]; exact io2
  · intro ev hev
    rcases hmem ev hev with hev | hev
    · exact evok_mono n3.ext n2.mid.b0lt ev (ev2 ev hev)
    · exact ev3 ev hev
  · intro ev hev
    rcases hmem ev hev with hev | hev
    · exact na2 ev hev
    · exact na3 ev hev

theorem completeItem_core {s0 b0 a} (fuel : Nat) :
    ∀ (s : St) (i : Nat) (o : Outc) (bb : Bool), Mid s0 b0 a s → i < s.items.length → s.ibatch i = b0 →
      s.iout i = none → (bb = false → Rule s b0 i o) → CI s0 b0 a s i o (completeItem fuel s i o bb) := by
  induction fuel with
  | zero =>
    intro s i o bb h hlt hib hn hr
    have e : s.items[i]? = some s.items[i] := List.getElem?_eq_getElem hlt
    have hbatch : s.items[i].batch = b0 := by simpa [St.ibatch, e] using hib
    unfold completeItem
    simp only [e]
    exact ci_base h i o bb hlt hib hn hr _ hbatch
  | succ fuel ih =>
    intro s i o bb h hlt hib hn hr
    have e : s.items[i]? = some s.items[i] := List.getElem?_eq_getElem hlt
    have hbatch : s.items[i].batch = b0 := by simpa [St.ibatch, e] using hib
    have cb := ci_base h i o bb hlt hib hn hr s.items[i] hbatch
    unfold completeItem
    simp only [e]
    cases hl : s.items[i].link with
    | none => exact cb
    | some l =>
      simp only
      by_cases hf : (spawnPart (s.setItemOut i o) s.items[i]).1.linkFires s.items[i].batch l.target = true
      · simp only [hf, if_true]
        rw [hbatch] at hf
        have ⟨jl, jb, jn⟩ := linkFires_spec hf
        have c3 := ih _ l.target l.outc true cb.1.mid jl jb jn (fun hf => by cases hf)
        exact ci_nest cb hlt c3 (.item i o bb) rfl
      · simp only [hf]
        exact cb

theorem completeItem_spec {s0 b0 a s} (h : Mid s0 b0 a s) (fuel i : Nat) (o : Outc) (bb : Bool)
    (hi : i ∈ s.bitems b0) (hn : s.iout i = none) (hr : bb = false → Rule s b0 i o) :
    Next s0 b0 a s (completeItem fuel s i o bb).1 ∧ (completeItem fuel s i o bb).1.iout i = some o ∧
    (∀ ev ∈ (completeItem fuel s i o bb).2, EvOK s0 b0 a (completeItem fuel s i o bb).1 ev) ∧
    (∀ ev ∈ (completeItem fuel s i o bb).2, ev.isPlain = true) ∧
    Law s (completeItem fuel s i o bb).1 (completeItem fuel s i o bb).2 := by
  have ⟨hlt, hib⟩ := h.mem b0 h.b0lt i hi
  exact completeItem_core fuel s i o bb h hlt hib hn hr

end AsynqModel.Batching
