import AsynqModel.Proofs.P16U
import AsynqModel.Proofs.P2Helpers
import AsynqModel.Proofs.P5NonAsync
/-!
  P16, part 10: the clause of `checkC06` for `.done t (.err .nonasync)` events (`DoneOK`), its stability under the
  context events that precede such an event inside a step, and the relation `U` (together with `DoneOK`: `UD`) under
  the context operations of the machine.
-/
namespace AsynqModel.Core.P16
open AsynqModel.Core AsynqModel.Core.Spec AsynqModel.Core.P13 AsynqModel.Core.P5

variable {cx : Ctx}

/-- the observer would accept the failure of task `t` with the AssertionError of a NonAsyncContext -/
def DoneOK (cx : Ctx) (w : Watch) (t : Nat) : Prop := chkB cx w (.done t (.err .nonasync)) = none

theorem chkB_done_ne (w : Watch) (f : Nat) (o : Outcome) (h : o ≠ .err .nonasync) : chkB cx w (.done f o) = none := by
  cases o with
  | ok v => rfl
  | err e => cases e <;> first | rfl | exact absurd rfl h

theorem chkB_done_of (w : Watch) (t : Nat) (o : Outcome) (h : DoneOK cx w t) : chkB cx w (.done t o) = none := by
  by_cases ho : o = .err .nonasync
  · subst ho; exact h
  · exact chkB_done_ne w t o ho

/-- the two ingredients of the clause -/
def insideNA (w : Watch) (t : Nat) : Bool :=
  w.ctxs.any fun (p : Nat × CtxW) => (p.2.isOpen || p.2.closedSusp) && p.2.owner == t && p.2.kind == .nonasync

def blockedW (w : Watch) (t : Nat) : Bool :=
  match w.lastYield.lookup t with
  | some (_, y) => y.leaves.any fun f => !w.isDone f
  | none => false

theorem ite_none_iff {b : Bool} {m : String} : (if b = true then (none : Option String) else some m) = none ↔ b = true := by
  cases b <;> simp

theorem doneOK_iff (w : Watch) (t : Nat) :
    DoneOK cx w t ↔ ((w.lastYield.lookup t).isNone || (insideNA w t && blockedW w t)) = true :=
  ite_none_iff

theorem doneOK_of_none (w : Watch) (t : Nat) (h : w.lastYield.lookup t = none) : DoneOK cx w t := by
  rw [doneOK_iff, h]; rfl

theorem blockedW_congr {w w' : Watch} (h1 : w'.lastYield = w.lastYield) (h2 : w'.outs = w.outs) (t : Nat) :
    blockedW w' t = blockedW w t := by
  unfold blockedW Watch.isDone
  rw [h1, h2]

theorem doneOK_ctx (w : Watch) (t : Nat) (b : Bool) (c : Nat) (h : DoneOK cx w t) :
    DoneOK cx (watchEvent w (.ctx b c)) t := by
  rw [doneOK_iff] at h ⊢
  have e := lastYield_ctxEv w (.ctx b c) rfl
  rw [e.1, blockedW_congr e.1 e.2.1]
  have : insideNA (watchEvent w (.ctx b c)) t = insideNA w t := by
    unfold insideNA
    rw [ctxs_ctx, updKey]
    rw [List.any_map]
    congr 1
    funext p
    simp only [Function.comp]
    split <;> rfl
  rw [this]; exact h

theorem doneOK_ctxX (w : Watch) (t : Nat) (c : Nat) (h : DoneOK cx w t) : DoneOK cx (watchEvent w (.ctxX c)) t := by
  rw [doneOK_iff] at h ⊢
  have e := lastYield_ctxEv w (.ctxX c) rfl
  rw [e.1, blockedW_congr e.1 e.2.1]
  cases hl : w.lastYield.lookup t with
  | none => rfl
  | some p =>
    rw [hl] at h
    simp only [Option.isNone_some, Bool.false_or, Bool.and_eq_true] at h ⊢
    refine ⟨?_, h.2⟩
    have hin := h.1
    unfold insideNA at hin ⊢
    rw [List.any_eq_true] at hin ⊢
    obtain ⟨q, hq, hp⟩ := hin
    rw [ctxs_ctxX]
    refine ⟨_, List.mem_map_of_mem hq, ?_⟩
    simp only [Bool.and_eq_true, Bool.or_eq_true, beq_iff_eq] at hp ⊢
    split
    · refine ⟨⟨.inr ?_, hp.1.2⟩, hp.2⟩
      show (w.lastYield.lookup q.2.owner).isSome = true
      rw [hp.1.2, hl]; rfl
    · exact hp

/-- `U` together with the (guarded) acceptance of a failure of task `t` -/
structure UD (cx : Ctx) (G : Prop) (t : Nat) (s : State) : Prop where
  u : U cx s none
  d : G → DoneOK cx (W s) t

variable {G : Prop} {t : Nat}

theorem UD.of_eq {s r : State} (h : UD cx G t s) (hf : r.futs = s.futs) (ht : r.trace = s.trace) : UD cx G t r :=
  ⟨h.u.of_eq hf ht, fun g => by
    have : W r = W s := by show obs r.trace = obs s.trace; rw [ht]
    rw [this]; exact h.d g⟩

theorem UD.updTask {s : State} (h : UD cx G t s) (u : Nat) (g : TaskSt → TaskSt) (h1 : ∀ x, (g x).pending = x.pending)
    (h2 : ∀ x, (g x).started = x.started) (h3 : ∀ x, (g x).lastY = x.lastY) (h4 : ∀ x, (g x).deps = x.deps) :
    UD cx G t (s.updTask u g) :=
  ⟨h.u.updTask u g h1 h2 h3 h4, h.d⟩

theorem UD.ctxEv {s : State} (h : UD cx G t s) (b : Bool) (c : Nat) : UD cx G t (s.emit (.ctx b c)) :=
  ⟨h.u.emit _ rfl, fun g => doneOK_ctx _ t b c (h.d g)⟩

theorem UD.ctxXEv {s : State} (h : UD cx G t s) (c : Nat) : UD cx G t (s.emit (.ctxX c)) :=
  ⟨h.u.emit _ rfl, fun g => doneOK_ctxX _ t c (h.d g)⟩

theorem UD.ite {s1 s2 : State} {p : Prop} [Decidable p] (h1 : UD cx G t s1) (h2 : UD cx G t s2) :
    UD cx G t (if p then s1 else s2) := by
  split <;> assumption

theorem UD.ctxResumeOne {s : State} (h : UD cx G t s) (c : Nat) : UD cx G t (s.ctxResumeOne c) :=
  (h.ctxEv true c).of_eq (P2.sameC_ctxResumeOne s c).futs (P2.sameC_ctxResumeOne s c).trace

theorem UD.ctxPauseOne {s : State} (h : UD cx G t s) (c : Nat) : UD cx G t (s.ctxPauseOne c) :=
  (h.ctxEv false c).of_eq (P2.sameC_ctxPauseOne s c).futs (P2.sameC_ctxPauseOne s c).trace

theorem UD.ctxExit {s : State} (h : UD cx G t s) (c : Nat) : UD cx G t (s.ctxExit c) := by
  rcases P2.ctxExit_cases s c with e | ⟨o, e⟩
  · rw [e]
    exact UD.ctxXEv (UD.ite h (h.ctxPauseOne c)) c
  · rw [e]
    have h1 : UD cx G t (s.updTask o fun ts => { ts with ctxs := ts.ctxs.erase c }) :=
      h.updTask o _ (fun _ => rfl) (fun _ => rfl) (fun _ => rfl) (fun _ => rfl)
    exact UD.ctxXEv (UD.ite h1 (h1.ctxPauseOne c)) c

theorem UD.foldl {α : Type} (g : State → α → State) (hg : ∀ s a, UD cx G t s → UD cx G t (g s a)) (l : List α)
    {s : State} (h : UD cx G t s) : UD cx G t (l.foldl g s) := by
  induction l generalizing s with
  | nil => exact h
  | cons a l ih => exact ih (hg s a h)

theorem UD.exitAll {s : State} (h : UD cx G t s) (u : Nat) : UD cx G t (s.exitAll u) := by
  unfold State.exitAll
  refine UD.updTask ?_ u _ (fun _ => rfl) (fun _ => rfl) (fun _ => rfl) (fun _ => rfl)
  exact UD.foldl (fun (s : State) (p : Nat × Body) => s.ctxExit p.1) (fun s p hs => hs.ctxExit p.1) _ h

/-- all with-blocks of `t` are left, `t` is completed -/
theorem UD.exitComplete {s : State} (h : UD cx G t s) (hG : G) (o : Outcome) :
    U cx (((s.exitAll t).updTask t fun ts => { ts with pending := false }).complete t o) none := by
  have h1 := h.exitAll t
  have h2 : U cx ((s.exitAll t).updTask t fun ts => { ts with pending := false }) (some t) :=
    h1.u.unpend t _ (fun _ => rfl) (fun _ => rfl) (fun _ => rfl) (fun _ => rfl)
  exact h2.complete t o (.inr rfl) (chkB_done_of _ t o (h1.d hG))

theorem UD.failSuspended {s : State} (h : UD cx G t s) (hG : G) (e : Err) : U cx (s.failSuspended t e) none := by
  unfold State.failSuspended
  split
  · exact h.u
  · exact h.exitComplete hG _

theorem UD.flip {s : State} (h : UD cx G t s) (b : Bool) (c : Nat) : UD cx G t (P5.flipOne b s c) := by
  unfold P5.flipOne
  split
  · exact h
  · split
    · exact h.ctxResumeOne c
    · exact h.ctxPauseOne c

theorem any_nonasync_fold (b : Bool) (l : List Nat) (s : State) (u : Nat) (v : Bool) (cs : List Nat) :
    cs.any (l.foldl (flipOne b) (s.updTask u fun ts => { ts with ctxActive := v })).ctxIsNonAsync =
      cs.any s.ctxIsNonAsync := by
  congr 1
  funext c
  rw [isNonAsync_foldFlip]; rfl

/-- `_resume_contexts` -/
theorem U.resumeContexts {s : State} (h : U cx s none) (t : Nat)
    (hF : (s.task t).ctxActive = false → (s.task t).ctxs.any s.ctxIsNonAsync = true → DoneOK cx (W s) t) :
    U cx (s.resumeContexts t) none := by
  rw [resumeContexts_eq]
  split
  · exact h
  · next hact =>
    have hact' : (s.task t).ctxActive = false := by simpa using hact
    simp only
    have h0 : UD cx ((s.task t).ctxs.any s.ctxIsNonAsync = true) t s := ⟨h, hF hact'⟩
    have h1 := UD.foldl (flipOne true) (fun s c hs => hs.flip true c) (s.task t).ctxs
      (h0.updTask t (fun ts => { ts with ctxActive := true }) (fun _ => rfl) (fun _ => rfl) (fun _ => rfl) (fun _ => rfl))
    rw [any_nonasync_fold]
    split
    · next hany => exact h1.failSuspended hany _
    · exact h1.u

/-- `_pause_contexts` -/
theorem U.pauseContexts {s : State} (h : U cx s none) (t : Nat)
    (hF : (s.task t).ctxs.any s.ctxIsNonAsync = true → DoneOK cx (W s) t) : U cx (s.pauseContexts t) none := by
  rw [pauseContexts_eq]
  split
  · exact h
  · simp only
    have h0 : UD cx ((s.task t).ctxs.any s.ctxIsNonAsync = true) t s := ⟨h, hF⟩
    have h1 := UD.foldl (flipOne false) (fun s c hs => hs.flip false c) (s.task t).ctxs.reverse
      (h0.updTask t (fun ts => { ts with ctxActive := false }) (fun _ => rfl) (fun _ => rfl) (fun _ => rfl) (fun _ => rfl))
    rw [any_nonasync_fold]
    split
    · next hany => exact h1.failSuspended hany _
    · exact h1.u

end AsynqModel.Core.P16
