import AsynqModel.Proofs.P10Step
/-
  P10, part 8: reachable states of well-scoped programs (`WSReach`), the heap invariant on them, and the
  control-stack invariant `BInv`:
  * `chain`: along the Python call stack every `wait_for` root precedes (`lt`) every frame further out, and the task
    of a generator frame precedes-or-equals (`le`) the roots further out and precedes the generator tasks further out;
  * `frames`: every scheduler-stack entry above the base of an `_execute(root)` frame precedes-or-equals `root`.
  Neither needs `guardFired = false`.  Consequence: `handleTask` never meets a task whose generator is executing.
-/
namespace AsynqModel.Core.P10
open AsynqModel.Core

/-- states reachable when every top-level computation is well-scoped -/
inductive WSReach : State → Prop
  | init (cfg : Cfg) (tops : List (Conv × Body)) (choices : List (Nat × Nat))
      (h : ∀ p, p ∈ tops → WellScoped p.2 0 0 = true) : WSReach (initState cfg tops choices)
  | step {s : State} : WSReach s → WSReach (step s)

theorem WSReach.reach {s : State} (h : WSReach s) : Reach s := by
  induction h with
  | init cfg tops choices _ => exact Reach.init cfg tops choices
  | step _ ih => exact Reach.step ih

/-! ### what every step does to the heap -/

structure Base (s r : State) : Prop where
  hinv : HInv s → HInv r
  grow : Grow s r
  named : ∀ x y, Named s x y → Named r x y
  comp : ∀ f, s.computed f = true → r.computed f = true
  kind : ∀ f, f < s.futs.length → (r.fut f).kind = (s.fut f).kind
  len : s.futs.length ≤ r.futs.length
  tops : TopsWS s → TopsWS r
  susp : SuspAll s → SuspAll r
  cdone : ConstDone s → ConstDone r

theorem HP0.base {s r : State} (h : HP0 s r) : Base s r :=
  ⟨h.hinv, h.grow, h.named, h.comp, h.kind, h.len, fun ht p hp => ht p (h.tops p hp), h.susp, h.cdone⟩

theorem base_of_futs {s r : State} (hf : r.futs = s.futs) (ht : r.tops = s.tops) : Base s r where
  hinv := fun hi => hinv_keep hi (by rw [hf]) fun f => by rw [task_of_futs hf]; exact TsKeep.refl _
  grow := grow_of_own fun f => by rw [task_of_futs hf]
  named := fun x y hn => by unfold Named at hn ⊢; rw [task_of_futs hf]; exact hn
  comp := fun f hc => by rw [computed_of_futs hf]; exact hc
  kind := fun f _ => by rw [fut_of_futs hf]
  len := by rw [hf]; exact Nat.le_refl _
  tops := fun h p hp => h p (by rw [ht] at hp; exact hp)
  susp := fun hs t => by rw [task_of_futs hf]; exact hs t
  cdone := fun hc f hl hk => by
    rw [hf] at hl; rw [fut_of_futs hf] at hk; rw [computed_of_futs hf]
    exact hc f hl hk

theorem Sh.base {s r : State} (h : Sh s r) (ht : TopsWS s) : Base s r := by
  cases h with
  | same h _ => exact h.toHP0.base
  | top f _ h _ _ => exact (h ht).toHP0.base
  | popRaise _ h _ => exact h.toHP0.base
  | popEnter _ _ _ h _ => exact h.toHP0.base
  | enterLoop _ _ _ _ h _ _ _ => exact h.base
  | guard _ _ _ _ e => subst e; exact base_of_futs rfl rfl
  | popStack _ _ _ _ _ _ _ _ _ h _ _ _ _ => exact h.base
  | pushDeps _ _ _ _ _ _ _ _ _ _ h _ _ _ _ _ _ => exact h.base
  | enterGen _ _ _ _ _ _ _ _ _ _ h _ => exact h.toHP0.base
  | reentrant _ _ _ _ _ _ _ _ _ _ e => subst e; exact base_of_futs rfl rfl
  | popLoop _ _ _ _ _ _ h _ => exact h.toHP0.base
  | flush _ _ _ _ _ _ h _ => exact h.toHP0.base
  | genLeave _ _ _ _ h _ => exact h.toHP0.base
  | genCall _ _ _ _ _ h _ _ => exact h.toHP0.base

theorem topsWS_init (cfg : Cfg) (tops : List (Conv × Body)) (choices : List (Nat × Nat))
    (h : ∀ p, p ∈ tops → WellScoped p.2 0 0 = true) : TopsWS (initState cfg tops choices) := h

theorem suspAll_init (cfg : Cfg) (tops : List (Conv × Body)) (choices : List (Nat × Nat)) :
    SuspAll (initState cfg tops choices) := by
  intro t _ hs
  rw [task_default _ t (Nat.zero_le _)] at hs
  cases hs

def node : Ctl → Nat
  | .waitEnter r => r
  | .waitLoop r _ => r
  | .gen t _ => t

/-- every id on the scheduler stack and on the control stack names an existing future -/
structure DInv (s : State) : Prop where
  stack : ∀ e, e ∈ s.stack → e < s.futs.length
  ctl : ∀ c, c ∈ s.ctl → node c < s.futs.length

theorem dinv_step {s r : State} (sh : Sh s r) (h : DInv s) (hi : HInv s) (ht : TopsWS s) : DInv r := by
  have b := sh.base ht
  have hir := b.hinv hi
  have hl := b.len
  have stk : r.stack = s.stack → ∀ e, e ∈ r.stack → e < r.futs.length := fun e0 e he => by
    rw [e0] at he; exact Nat.lt_of_lt_of_le (h.stack e he) hl
  have sub : (∀ c, c ∈ r.ctl → c ∈ s.ctl) → ∀ c, c ∈ r.ctl → node c < r.futs.length := fun hs c hc =>
    Nat.lt_of_lt_of_le (h.ctl c (hs c hc)) hl
  cases sh with
  | same hp c => exact ⟨stk hp.stack, sub (by rw [c]; exact fun _ h => h)⟩
  | top f hc hp c hf =>
    refine ⟨stk (hp ht).stack, ?_⟩
    intro c0 hc0; rw [c] at hc0; simp at hc0; subst hc0; exact hf
  | popRaise _ hp c => exact ⟨stk hp.stack, sub (by rw [c]; exact fun _ h => List.mem_of_mem_tail h)⟩
  | popEnter root rest hc hp c =>
    exact ⟨stk hp.stack, sub (by rw [c, hc]; exact fun _ h => List.mem_cons_of_mem _ h)⟩
  | enterLoop root rest hc _ hp _ c st =>
    have hroot : root < s.futs.length := h.ctl (.waitEnter root) (by rw [hc]; exact List.mem_cons_self)
    refine ⟨?_, ?_⟩
    · intro e he; rw [st] at he
      rcases List.mem_cons.1 he with rfl | he
      · omega
      · exact Nat.lt_of_lt_of_le (h.stack e he) hl
    · intro c0 hc0; rw [c] at hc0
      rcases List.mem_cons.1 hc0 with rfl | hc0
      · simp only [node]; omega
      · exact Nat.lt_of_lt_of_le (h.ctl c0 (by rw [hc]; exact List.mem_cons_of_mem _ hc0)) hl
  | guard root base rest hc e =>
    subst e
    refine ⟨fun e he => by simp [P3.guardReset, State.raiseOutOfWait] at he, ?_⟩
    intro c0 hc0
    exact h.ctl c0 (List.mem_of_mem_tail hc0)
  | popStack root base rest top st hc _ hlen hst hp _ c st' _ =>
    refine ⟨?_, sub (by rw [c]; exact fun _ h => h)⟩
    intro e he; rw [st'] at he
    exact Nat.lt_of_lt_of_le (h.stack e (by rw [hst]; exact List.mem_cons_of_mem _ he)) hl
  | pushDeps root base rest top st ds hc _ hlen hst hp _ _ _ hds c st' =>
    refine ⟨?_, sub (by rw [c]; exact fun _ h => h)⟩
    intro e he; rw [st'] at he
    rcases List.mem_append.1 he with he | he
    · exact Nat.lt_of_lt_of_le (hi.named_bound (hi.deps top e (hds e he))) hl
    · exact Nat.lt_of_lt_of_le (h.stack e he) hl
  | enterGen root base rest top st old hc _ hlen hst hp c =>
    refine ⟨stk hp.stack, ?_⟩
    intro c0 hc0; rw [c] at hc0
    rcases List.mem_cons.1 hc0 with rfl | hc0
    · simp only [node]
      exact Nat.lt_of_lt_of_le (h.stack top (by rw [hst]; exact List.mem_cons_self)) hl
    · exact Nat.lt_of_lt_of_le (h.ctl c0 hc0) hl
  | reentrant _ _ _ _ _ _ _ _ _ _ e => subst e; exact ⟨h.stack, h.ctl⟩
  | popLoop root base rest hc _ _ hp c =>
    exact ⟨stk hp.stack, sub (by rw [c, hc]; exact fun _ h => List.mem_cons_of_mem _ h)⟩
  | flush root base rest hc _ _ hp c =>
    refine ⟨stk hp.stack, ?_⟩
    intro c0 hc0; rw [c] at hc0
    rcases List.mem_cons.1 hc0 with rfl | hc0
    · exact Nat.lt_of_lt_of_le (h.ctl (.waitLoop root base) (by rw [hc]; exact List.mem_cons_self)) hl
    · exact Nat.lt_of_lt_of_le (h.ctl c0 (by rw [hc]; exact List.mem_cons_of_mem _ hc0)) hl
  | genLeave t old rest hc hp c =>
    exact ⟨stk hp.stack, sub (by rw [c, hc]; exact fun _ h => List.mem_cons_of_mem _ h)⟩
  | genCall t old rest f hc hp c n =>
    refine ⟨stk hp.stack, ?_⟩
    intro c0 hc0; rw [c] at hc0
    rcases List.mem_cons.1 hc0 with rfl | hc0
    · simp only [node]; exact hir.named_bound (n hi)
    · exact Nat.lt_of_lt_of_le (h.ctl c0 hc0) hl

/-- the basic invariants of every reachable state of a well-scoped program -/
structure WInv (s : State) : Prop where
  hinv : HInv s
  tops : TopsWS s
  susp : SuspAll s
  cdone : ConstDone s
  dinv : DInv s

theorem winv_init (cfg : Cfg) (tops : List (Conv × Body)) (choices : List (Nat × Nat))
    (h : ∀ p, p ∈ tops → WellScoped p.2 0 0 = true) : WInv (initState cfg tops choices) :=
  ⟨hinv_init cfg tops choices, topsWS_init cfg tops choices h, suspAll_init cfg tops choices,
   fun f hf => by simp [initState] at hf, ⟨fun e he => by simp [initState] at he, fun c hc => by simp [initState] at hc⟩⟩

theorem ws_winv {s : State} (h : WSReach s) : WInv s := by
  induction h with
  | init cfg tops choices h => exact winv_init cfg tops choices h
  | @step s hs ih =>
    have sh := step_sh s hs.reach ih.susp ih.cdone ih.dinv.stack
    have b := sh.base ih.tops
    exact ⟨b.hinv ih.hinv, b.tops ih.tops, b.susp ih.susp, b.cdone ih.cdone, dinv_step sh ih.dinv ih.hinv ih.tops⟩

/-- invariant 1 (heap part) on every reachable state of a well-scoped program -/
theorem ws_hinv {s : State} (h : WSReach s) : HInv s ∧ TopsWS s := ⟨(ws_winv h).hinv, (ws_winv h).tops⟩

/-- the shape of the step out of a reachable state of a well-scoped program -/
theorem ws_step_sh {s : State} (h : WSReach s) : Sh s (step s) :=
  step_sh s h.reach (ws_winv h).susp (ws_winv h).cdone (ws_winv h).dinv.stack

/-! ### the control-stack invariant -/

/-- frame `a` is nested inside frame `b` (nearer the head of `ctl`) -/
def nest (s : State) : Ctl → Ctl → Prop
  | .gen t _, .gen u _ => lt s t u
  | .gen t _, .waitEnter r => le s t r
  | .gen t _, .waitLoop r _ => le s t r
  | .waitEnter r, d => lt s r (node d)
  | .waitLoop r _, d => lt s r (node d)

theorem nest_le {s : State} {a b : Ctl} (h : nest s a b) : le s (node a) (node b) := by
  cases a <;> cases b <;> simp only [nest, node] at h ⊢ <;> first | exact h | exact h.le

theorem nest_of_lt {s : State} {a b : Ctl} (h : lt s (node a) (node b)) : nest s a b := by
  cases a <;> cases b <;> simp only [nest, node] at h ⊢ <;> first | exact h | exact h.le

theorem nest_trans {s : State} {a b c : Ctl} (h1 : nest s a b) (h2 : nest s b c) : nest s a c := by
  apply nest_of_lt
  cases a <;> cases b <;> cases c <;> simp only [nest, node] at h1 h2 ⊢
  all_goals first
    | exact lt_trans h1 h2
    | exact lt_le_trans h1 h2
    | exact le_lt_trans h1 h2

theorem nest_mono {s r : State} (g : Grow s r) {a b : Ctl} (h : nest s a b) : nest r a b := by
  cases a <;> cases b <;> simp only [nest] at h ⊢ <;> first | exact g.lt h | exact g.le h

structure BInv (s : State) : Prop where
  chain : s.ctl.Pairwise (nest s)
  frames : ∀ r b, Ctl.waitLoop r b ∈ s.ctl → ∀ e, e ∈ s.stack.take (s.stack.length - b) → le s e r

theorem chain_push {s : State} {x c : Ctl} {rest : List Ctl} (h : (c :: rest).Pairwise (nest s)) (hx : nest s x c) :
    (x :: c :: rest).Pairwise (nest s) := by
  refine List.Pairwise.cons ?_ h
  intro y hy
  rcases List.mem_cons.1 hy with rfl | hy
  · exact hx
  · exact nest_trans hx ((List.pairwise_cons.1 h).1 y hy)

/-- the head frame changes its phase (`waitEnter root` ↔ `waitLoop root _`) -/
theorem chain_rehead {s : State} {c c' : Ctl} {rest : List Ctl} (h : (c :: rest).Pairwise (nest s))
    (hc : ∀ d, nest s c d → nest s c' d) : (c' :: rest).Pairwise (nest s) := by
  have := List.pairwise_cons.1 h
  exact List.Pairwise.cons (fun y hy => hc y (this.1 y hy)) this.2

theorem binv_mono {s r : State} (h : BInv s) (g : Grow s r) (c : r.ctl = s.ctl) (st : r.stack = s.stack) : BInv r := by
  refine ⟨?_, ?_⟩
  · rw [c]; exact h.chain.imp (nest_mono g)
  · intro x b hm e he
    rw [c] at hm; rw [st] at he
    exact g.le (h.frames x b hm e he)

/-- frames are popped from the control stack -/
theorem binv_sub {s r : State} (h : BInv s) (g : Grow s r) (c : r.ctl.Sublist s.ctl) (st : r.stack = s.stack) :
    BInv r := by
  refine ⟨?_, ?_⟩
  · exact (h.chain.sublist c).imp (nest_mono g)
  · intro x b hm e he
    rw [st] at he
    exact g.le (h.frames x b (c.subset hm) e he)

theorem mem_take_cons {α : Type} {a e : α} {l : List α} {k : Nat} (h : e ∈ (a :: l).take k) :
    e = a ∨ e ∈ l.take (k - 1) := by
  cases k with
  | zero => simp at h
  | succ k => simpa using h

theorem mem_take_append {α : Type} {e : α} {l1 l2 : List α} {k : Nat} (h : e ∈ (l1 ++ l2).take k) :
    e ∈ l1 ∨ e ∈ l2.take (k - l1.length) := by
  rw [List.take_append] at h
  rcases List.mem_append.1 h with h | h
  · exact .inl (List.mem_of_mem_take h)
  · exact .inr h

theorem binv_init (cfg : Cfg) (tops : List (Conv × Body)) (choices : List (Nat × Nat)) :
    BInv (initState cfg tops choices) :=
  ⟨List.Pairwise.nil, fun _ _ h => by simp [initState] at h⟩

/-- the task on top of the stack inside `_execute(root)` precedes-or-equals `root` -/
theorem BInv.top_le {s : State} (h : BInv s) {root base : Nat} {rest : List Ctl} {top : Nat} {st : List Nat}
    (hc : s.ctl = .waitLoop root base :: rest) (hlen : base < s.stack.length) (hst : s.stack = top :: st) :
    le s top root := by
  refine h.frames root base (by rw [hc]; exact List.mem_cons_self) top ?_
  rw [hst]
  have : (top :: st).length - base = ((top :: st).length - base - 1) + 1 := by
    rw [hst] at hlen; omega
  rw [this]; simp

/-- item 2: the task `_handle_async_task` is given is never one whose generator is executing -/
theorem BInv.not_inGens {s : State} (h : BInv s) (hi : HInv s) {root base : Nat} {rest : List Ctl} {top : Nat}
    {st : List Nat} (hc : s.ctl = .waitLoop root base :: rest) (hlen : base < s.stack.length)
    (hst : s.stack = top :: st) : inGens s.ctl top = false := by
  cases hin : inGens s.ctl top with
  | false => rfl
  | true =>
    exfalso
    unfold inGens at hin
    rw [List.any_eq_true] at hin
    obtain ⟨c, hcm, hcg⟩ := hin
    cases c with
    | waitEnter r => simp at hcg
    | waitLoop r b => simp at hcg
    | gen u o =>
      simp only [beq_iff_eq] at hcg
      subst hcg
      rw [hc] at hcm
      rcases List.mem_cons.1 hcm with hcm | hcm
      · cases hcm
      · have hch := h.chain
        rw [hc] at hch
        have h1 : nest s (.waitLoop root base) (.gen u o) := (List.pairwise_cons.1 hch).1 _ hcm
        simp only [nest, node] at h1
        exact hi.irrefl u (le_lt_trans (h.top_le hc hlen hst) h1)

theorem binv_step {s r : State} (sh : Sh s r) (h : BInv s) (hi : HInv s) (ht : TopsWS s) : BInv r := by
  have b := sh.base ht
  have hir := b.hinv hi
  cases sh with
  | same hp c => exact binv_mono h b.grow c hp.stack
  | top f hc hp c _ =>
    refine ⟨by rw [c]; exact List.pairwise_singleton _ _, ?_⟩
    intro x bb hm; rw [c] at hm; simp at hm
  | popRaise _ hp c => exact binv_sub h b.grow (by rw [c]; exact List.tail_sublist _) hp.stack
  | popEnter root rest hc hp c =>
    exact binv_sub h b.grow (by rw [c, hc]; exact List.sublist_cons_self _ _) hp.stack
  | enterLoop root rest hc _ hp _ c st =>
    have hch : (Ctl.waitEnter root :: rest).Pairwise (nest r) := by
      rw [← hc]; exact h.chain.imp (nest_mono b.grow)
    refine ⟨?_, ?_⟩
    · rw [c]; exact chain_rehead hch (fun d hd => hd)
    · intro x bb hm e he
      rw [c] at hm; rw [st] at he
      rcases List.mem_cons.1 hm with hm | hm
      · obtain ⟨hx, hb⟩ : x = root ∧ bb = s.stack.length := by
          injection hm with h1 h2; exact ⟨h1, h2⟩
        have : (root :: s.stack).length - bb = 1 := by rw [hb]; simp
        rw [this] at he
        simp at he
        rw [he, hx]; exact le_refl _ _
      · rcases mem_take_cons he with he0 | he
        · have := (List.pairwise_cons.1 hch).1 _ hm
          simp only [nest, node] at this
          rw [he0]; exact this.le
        · have he' : e ∈ s.stack.take (s.stack.length - bb) := by
            have : (root :: s.stack).length - bb - 1 = s.stack.length - bb := by simp; omega
            rw [this] at he; exact he
          exact b.grow.le (h.frames x bb (by rw [hc]; exact List.mem_cons_of_mem _ hm) e he')
  | guard root base rest hc e =>
    subst e
    refine ⟨?_, ?_⟩
    · show (s.ctl.tail).Pairwise (nest _)
      exact (h.chain.sublist (List.tail_sublist _)).imp (nest_mono b.grow)
    · intro x bb _ e he
      simp [P3.guardReset, State.raiseOutOfWait] at he
  | popStack root base rest top st hc _ hlen hst hp _ c st' _ =>
    refine ⟨by rw [c]; exact h.chain.imp (nest_mono b.grow), ?_⟩
    intro x bb hm e he
    rw [c] at hm; rw [st'] at he
    refine b.grow.le (h.frames x bb hm e ?_)
    rw [hst]
    rcases Nat.lt_or_ge st.length bb with hb | hb
    · have : st.length - bb = 0 := by omega
      rw [this] at he; simp at he
    · have : (top :: st).length - bb = (st.length - bb) + 1 := by simp; omega
      rw [this, List.take_succ_cons]
      exact List.mem_cons_of_mem _ he
  | pushDeps root base rest top st ds hc _ hlen hst hp _ _ _ hds c st' =>
    have htop : le s top root := h.top_le hc hlen hst
    refine ⟨by rw [c]; exact h.chain.imp (nest_mono b.grow), ?_⟩
    intro x bb hm e he
    rw [c] at hm; rw [st'] at he
    have hroot : le s root x := by
      rw [hc] at hm
      rcases List.mem_cons.1 hm with hm | hm
      · have hx : x = root := by injection hm
        rw [hx]; exact le_refl _ _
      · have hch := h.chain
        rw [hc] at hch
        have := (List.pairwise_cons.1 hch).1 _ hm
        simp only [nest, node] at this
        exact this.le
    rcases mem_take_append he with he | he
    · have : lt s e top := hi.named_lt (hi.deps top e (hds e he))
      exact b.grow.le (lt_le_trans this (le_trans htop hroot)).le
    · have he' : e ∈ s.stack.take (s.stack.length - bb) := by
        have : (ds ++ s.stack).length - bb - ds.length = s.stack.length - bb := by simp; omega
        rw [this] at he; exact he
      exact b.grow.le (h.frames x bb hm e he')
  | enterGen root base rest top st old hc _ hlen hst hp c =>
    have htop : le s top root := h.top_le hc hlen hst
    refine ⟨?_, ?_⟩
    · rw [c, hc]
      refine chain_push ?_ ?_
      · rw [← hc]; exact h.chain.imp (nest_mono b.grow)
      · simp only [nest]; exact b.grow.le htop
    · intro x bb hm e he
      rw [c] at hm; rw [hp.stack] at he
      rcases List.mem_cons.1 hm with hm | hm
      · cases hm
      · exact b.grow.le (h.frames x bb hm e he)
  | reentrant _ _ _ _ _ _ _ _ _ _ e => subst e; exact binv_mono h b.grow rfl rfl
  | popLoop root base rest hc _ _ hp c =>
    exact binv_sub h b.grow (by rw [c, hc]; exact List.sublist_cons_self _ _) hp.stack
  | flush root base rest hc _ _ hp c =>
    have hch : (Ctl.waitLoop root base :: rest).Pairwise (nest r) := by
      rw [← hc]; exact h.chain.imp (nest_mono b.grow)
    refine ⟨?_, ?_⟩
    · rw [c]; exact chain_rehead hch (fun d hd => hd)
    · intro x bb hm e he
      rw [c] at hm; rw [hp.stack] at he
      rcases List.mem_cons.1 hm with hm | hm
      · cases hm
      · exact b.grow.le (h.frames x bb (by rw [hc]; exact List.mem_cons_of_mem _ hm) e he)
  | genLeave t old rest hc hp c =>
    exact binv_sub h b.grow (by rw [c, hc]; exact List.sublist_cons_self _ _) hp.stack
  | genCall t old rest f hc hp c n =>
    refine ⟨?_, ?_⟩
    · rw [c, hc]
      refine chain_push ?_ ?_
      · rw [← hc]; exact h.chain.imp (nest_mono b.grow)
      · simp only [nest, node]; exact hir.named_lt (n hi)
    · intro x bb hm e he
      rw [c] at hm; rw [hp.stack] at he
      rcases List.mem_cons.1 hm with hm | hm
      · cases hm
      · exact b.grow.le (h.frames x bb hm e he)

theorem ws_binv {s : State} (h : WSReach s) : BInv s := by
  induction h with
  | init cfg tops choices h => exact binv_init cfg tops choices
  | @step s hs ih =>
    have hi := ws_hinv hs
    exact binv_step (ws_step_sh hs) ih hi.1 hi.2

end AsynqModel.Core.P10
