import AsynqModel.Core.Base
namespace AsynqModel.Core.P4
open AsynqModel.Core

/-! ### leaves / mapLeaves -/
mutual
theorem leaves_mapLeaves {α β} (g : α → β) : (y : YS α) → (y.mapLeaves g).leaves = y.leaves.map g
  | .none => by simp [YS.mapLeaves, YS.leaves]
  | .junk => by simp [YS.mapLeaves, YS.leaves]
  | .f r => by simp [YS.mapLeaves, YS.leaves]
  | .tup l => by simp [YS.mapLeaves, YS.leaves, leaves_mapLeavesList g l]
  | .lst l => by simp [YS.mapLeaves, YS.leaves, leaves_mapLeavesList g l]
  | .dict _ l => by simp [YS.mapLeaves, YS.leaves, leaves_mapLeavesList g l]
theorem leaves_mapLeavesList {α β} (g : α → β) :
    (l : List (YS α)) → YS.leavesList (YS.mapLeavesList g l) = (YS.leavesList l).map g
  | [] => by simp [YS.mapLeavesList, YS.leavesList]
  | y :: ys => by
    simp [YS.mapLeavesList, YS.leavesList, leaves_mapLeaves g y, leaves_mapLeavesList g ys]
end

mutual
theorem mapLeaves_congr {α β} (g g' : α → β) :
    (y : YS α) → (h : ∀ r ∈ y.leaves, g r = g' r) → y.mapLeaves g = y.mapLeaves g'
  | .none, _ => by simp [YS.mapLeaves]
  | .junk, _ => by simp [YS.mapLeaves]
  | .f r, h => by simp [YS.mapLeaves]; exact h r (by simp [YS.leaves])
  | .tup l, h => by simp [YS.mapLeaves]; exact mapLeavesList_congr g g' l (by simpa [YS.leaves] using h)
  | .lst l, h => by simp [YS.mapLeaves]; exact mapLeavesList_congr g g' l (by simpa [YS.leaves] using h)
  | .dict _ l, h => by simp [YS.mapLeaves]; exact mapLeavesList_congr g g' l (by simpa [YS.leaves] using h)
theorem mapLeavesList_congr {α β} (g g' : α → β) :
    (l : List (YS α)) → (h : ∀ r ∈ YS.leavesList l, g r = g' r) → YS.mapLeavesList g l = YS.mapLeavesList g' l
  | [], _ => by simp [YS.mapLeavesList]
  | y :: ys, h => by
    simp only [YS.leavesList, List.mem_append] at h
    simp only [YS.mapLeavesList]
    rw [mapLeaves_congr g g' y (fun r hr => h r (Or.inl hr)),
        mapLeavesList_congr g g' ys (fun r hr => h r (Or.inr hr))]
end

/-! ### unwrap -/
mutual
theorem unwrap_congr {α} (l1 l2 : α → Option Outcome) :
    (y : YS α) → (h : ∀ r ∈ y.leaves, l1 r = l2 r) → unwrap l1 y = unwrap l2 y
  | .none, _ => by simp [unwrap]
  | .junk, _ => by simp [unwrap]
  | .f r, h => by simp [unwrap, h r (by simp [YS.leaves])]
  | .tup l, h => by simp [unwrap, unwrapList_congr l1 l2 l (by simpa [YS.leaves] using h)]
  | .lst l, h => by simp [unwrap, unwrapList_congr l1 l2 l (by simpa [YS.leaves] using h)]
  | .dict _ l, h => by simp [unwrap, unwrapList_congr l1 l2 l (by simpa [YS.leaves] using h)]
theorem unwrapList_congr {α} (l1 l2 : α → Option Outcome) :
    (l : List (YS α)) → (h : ∀ r ∈ YS.leavesList l, l1 r = l2 r) → unwrapList l1 l = unwrapList l2 l
  | [], _ => by simp [unwrapList]
  | y :: ys, h => by
    simp only [YS.leavesList, List.mem_append] at h
    simp only [unwrapList]
    rw [unwrap_congr l1 l2 y (fun r hr => h r (Or.inl hr)),
        unwrapList_congr l1 l2 ys (fun r hr => h r (Or.inr hr))]
end

mutual
theorem unwrap_mapLeaves {α β} (g : α → β) (look : β → Option Outcome) :
    (y : YS α) → unwrap look (y.mapLeaves g) = unwrap (fun r => look (g r)) y
  | .none => by simp [unwrap, YS.mapLeaves]
  | .junk => by simp [unwrap, YS.mapLeaves]
  | .f r => by simp [unwrap, YS.mapLeaves]
  | .tup l => by simp [unwrap, YS.mapLeaves, unwrapList_mapLeavesList g look l]
  | .lst l => by simp [unwrap, YS.mapLeaves, unwrapList_mapLeavesList g look l]
  | .dict _ l => by simp [unwrap, YS.mapLeaves, unwrapList_mapLeavesList g look l]
theorem unwrapList_mapLeavesList {α β} (g : α → β) (look : β → Option Outcome) :
    (l : List (YS α)) → unwrapList look (YS.mapLeavesList g l) = unwrapList (fun r => look (g r)) l
  | [] => by simp [unwrapList, YS.mapLeavesList]
  | y :: ys => by
    simp [unwrapList, YS.mapLeavesList, unwrap_mapLeaves g look y, unwrapList_mapLeavesList g look ys]
end

/-! ### extractFutures -/
mutual
theorem mem_extractFutures : (y : RY) → (f : Nat) → (f ∈ extractFutures y ↔ f ∈ y.leaves)
  | .none, f => by simp [extractFutures, YS.leaves]
  | .junk, f => by simp [extractFutures, YS.leaves]
  | .f r, f => by simp [extractFutures, YS.leaves]
  | .tup l, f => by simp [extractFutures, YS.leaves, mem_extractRev l f]
  | .lst l, f => by simp [extractFutures, YS.leaves, mem_extractRev l f]
  | .dict _ l, f => by simp [extractFutures, YS.leaves, mem_extractFwd l f]
theorem mem_extractRev : (l : List RY) → (f : Nat) → (f ∈ extractRev l ↔ f ∈ YS.leavesList l)
  | [], f => by simp [extractRev, YS.leavesList]
  | y :: ys, f => by
    simp [extractRev, YS.leavesList, mem_extractFutures y f, mem_extractRev ys f, Or.comm]
theorem mem_extractFwd : (l : List RY) → (f : Nat) → (f ∈ extractFwd l ↔ f ∈ YS.leavesList l)
  | [], f => by simp [extractFwd, YS.leavesList]
  | y :: ys, f => by
    simp [extractFwd, YS.leavesList, mem_extractFutures y f, mem_extractFwd ys f]
end

theorem extractFutures_nil_leaves (y : RY) (h : extractFutures y = []) : y.leaves = [] := by
  apply List.eq_nil_iff_forall_not_mem.mpr
  intro f hf
  have := (mem_extractFutures y f).mpr hf
  simp [h] at this

/-! ### first failing leaf -/
mutual
/-- the error `unwrap` raises, computed by scanning the structure in written order: the first junk object gives
    TypeError, the first leaf whose lookup is an error (or missing) gives that error -/
def firstErr {α} (look : α → Option Outcome) : YS α → Option Err
  | .none => none | .junk => some .typeerr
  | .f r => match look r with | some (.ok _) => none | some (.err e) => some e | none => some .other
  | .tup l => firstErrList look l | .lst l => firstErrList look l | .dict _ l => firstErrList look l
def firstErrList {α} (look : α → Option Outcome) : List (YS α) → Option Err
  | [] => none
  | y :: ys => match firstErr look y with | some e => some e | none => firstErrList look ys
end

mutual
theorem unwrap_error_iff {α} (look : α → Option Outcome) :
    (y : YS α) → (e : Err) → (unwrap look y = .error e ↔ firstErr look y = some e)
  | .none, e => by simp [unwrap, firstErr]
  | .junk, e => by simp [unwrap, firstErr, eq_comm]
  | .f r, e => by
    simp only [unwrap, firstErr]
    split <;> simp_all
  | .tup l, e => by
    have := unwrapList_error_iff look l e
    simp only [unwrap, firstErr]; split <;> simp_all
  | .lst l, e => by
    have := unwrapList_error_iff look l e
    simp only [unwrap, firstErr]; split <;> simp_all
  | .dict _ l, e => by
    have := unwrapList_error_iff look l e
    simp only [unwrap, firstErr]; split <;> simp_all
theorem unwrapList_error_iff {α} (look : α → Option Outcome) :
    (l : List (YS α)) → (e : Err) → (unwrapList look l = .error e ↔ firstErrList look l = some e)
  | [], e => by simp [unwrapList, firstErrList]
  | y :: ys, e => by
    have h1 := fun e' => unwrap_error_iff look y e'
    have h2 := unwrapList_error_iff look ys e
    simp only [unwrapList, firstErrList]
    cases hu : unwrap look y with
    | error e' =>
      have := (h1 e').mp hu
      simp [this]
    | ok v =>
      cases hf : firstErr look y with
      | some e' => have := (h1 e').mpr hf; simp [hu] at this
      | none =>
        simp only
        cases hl : unwrapList look ys with
        | error e'' => simp [← h2, hl]
        | ok vs => simp [← h2, hl]
end

/-! no error found by the scan: every leaf looks up to a value -/
mutual
theorem firstErr_none_all {α} (look : α → Option Outcome) :
    (y : YS α) → firstErr look y = none → ∀ r ∈ y.leaves, ∃ w, look r = some (.ok w)
  | .none, _ => by simp [YS.leaves]
  | .junk, _ => by simp [YS.leaves]
  | .f r, h => by
    simp only [firstErr] at h
    simp only [YS.leaves, List.mem_singleton, forall_eq]
    split at h <;> simp_all
  | .tup l, h => by simpa [YS.leaves] using firstErrList_none_all look l (by simpa [firstErr] using h)
  | .lst l, h => by simpa [YS.leaves] using firstErrList_none_all look l (by simpa [firstErr] using h)
  | .dict _ l, h => by simpa [YS.leaves] using firstErrList_none_all look l (by simpa [firstErr] using h)
theorem firstErrList_none_all {α} (look : α → Option Outcome) :
    (l : List (YS α)) → firstErrList look l = none → ∀ r ∈ YS.leavesList l, ∃ w, look r = some (.ok w)
  | [], _ => by simp [YS.leavesList]
  | y :: ys, h => by
    simp only [firstErrList] at h
    cases hf : firstErr look y with
    | some e' => simp [hf] at h
    | none =>
      simp only [hf] at h
      intro r hr
      simp only [YS.leavesList, List.mem_append] at hr
      cases hr with
      | inl hr => exact firstErr_none_all look y hf r hr
      | inr hr => exact firstErrList_none_all look ys h r hr
end

mutual
theorem firstErr_leaf {α} (look : α → Option Outcome) (e : Err) (hj : e ≠ .typeerr) :
    (y : YS α) → firstErr look y = some e →
      ∃ pre r post, y.leaves = pre ++ r :: post ∧ (look r = some (.err e) ∨ (look r = none ∧ e = .other)) ∧
        ∀ q ∈ pre, ∃ v, look q = some (.ok v)
  | .none, h => by simp [firstErr] at h
  | .junk, h => by simp [firstErr] at h; exact absurd h.symm hj
  | .f r, h => by
    refine ⟨[], r, [], by simp [YS.leaves], ?_, by simp⟩
    simp only [firstErr] at h
    split at h <;> simp_all
  | .tup l, h => by simpa [YS.leaves] using firstErrList_leaf look e hj l (by simpa [firstErr] using h)
  | .lst l, h => by simpa [YS.leaves] using firstErrList_leaf look e hj l (by simpa [firstErr] using h)
  | .dict _ l, h => by simpa [YS.leaves] using firstErrList_leaf look e hj l (by simpa [firstErr] using h)
theorem firstErrList_leaf {α} (look : α → Option Outcome) (e : Err) (hj : e ≠ .typeerr) :
    (l : List (YS α)) → firstErrList look l = some e →
      ∃ pre r post, YS.leavesList l = pre ++ r :: post ∧
        (look r = some (.err e) ∨ (look r = none ∧ e = .other)) ∧ ∀ q ∈ pre, ∃ v, look q = some (.ok v)
  | [], h => by simp [firstErrList] at h
  | y :: ys, h => by
    simp only [firstErrList] at h
    cases hf : firstErr look y with
    | some e' =>
      simp only [hf, Option.some.injEq] at h
      subst h
      obtain ⟨pre, r, post, h1, h2, h3⟩ := firstErr_leaf look e' hj y hf
      exact ⟨pre, r, post ++ YS.leavesList ys, by simp [YS.leavesList, h1], h2, h3⟩
    | none =>
      simp only [hf] at h
      obtain ⟨pre, r, post, h1, h2, h3⟩ := firstErrList_leaf look e hj ys h
      refine ⟨y.leaves ++ pre, r, post, by simp [YS.leavesList, h1], h2, ?_⟩
      intro q hq
      simp only [List.mem_append] at hq
      cases hq with
      | inl hq => exact firstErr_none_all look y hf q hq
      | inr hq => exact h3 q hq
end

/-- The statement holds as given: `e ≠ typeerr` rules out junk being the first failing object (a junk object, or a
    leaf with `look r = some (.err .typeerr)`, earlier in the scan would make the raised error `typeerr`). -/
theorem unwrap_error_leaf {α} (look : α → Option Outcome) (y : YS α) (e : Err) (hj : e ≠ .typeerr)
    (h : unwrap look y = .error e) :
    ∃ pre r post, y.leaves = pre ++ r :: post ∧ (look r = some (.err e) ∨ (look r = none ∧ e = .other)) ∧
      ∀ q ∈ pre, ∃ v, look q = some (.ok v) :=
  firstErr_leaf look e hj y ((unwrap_error_iff look y e).mp h)

theorem unwrap_ok_firstErr {α} (look : α → Option Outcome) (y : YS α) (v : Val) (h : unwrap look y = .ok v) :
    firstErr look y = none := by
  cases hf : firstErr look y with
  | none => rfl
  | some e => have := (unwrap_error_iff look y e).mpr hf; simp [h] at this

theorem unwrap_ok_all {α} (look : α → Option Outcome) (y : YS α) (v : Val) (h : unwrap look y = .ok v) :
    ∀ r ∈ y.leaves, ∃ w, look r = some (.ok w) :=
  firstErr_none_all look y (unwrap_ok_firstErr look y v h)

end AsynqModel.Core.P4
