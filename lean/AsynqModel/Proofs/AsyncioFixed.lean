import AsynqModel.Lib.Asyncio
import AsynqModel.Proofs.Asyncio
/-! C15: `asynq.result(v)` is `return v` to both evaluators (after the repair of `convert_asynq_to_async`, which handles
    AsyncTaskResult like StopIteration): replacing every `result(v)` of a program by `return v` changes nothing. -/
namespace AsynqModel.Asyncio
open AsynqModel.Core (Val)

mutual
/-- the program with every `result(v)` replaced by `return v` -/
def Prog.unres : Prog → Prog
  | .ret t => .ret t
  | .res t => .ret t
  | .raise e => .raise e
  | .raiseB e => .raiseB e
  | .reraise => .reraise
  | .yld hb y k h => .yld hb (Ys.unres y) (Prog.unres k) (Prog.unres h)
  | .sync c child k h => .sync c (Prog.unres child) (Prog.unres k) (Prog.unres h)
def Ys.unres : Ys → Ys
  | .none => .none
  | .junk => .junk
  | .const v => .const v
  | .pconst v => .pconst v
  | .task c p => .task c (Prog.unres p)
  | .tup l => .tup (YsL.unres l)
  | .lst l => .lst (YsL.unres l)
  | .dict ks l => .dict ks (YsL.unres l)
  | .sub y => .sub (Ys.unres y)
  | .pval y => .pval (Ys.unres y)
  | .ofut b n => .ofut b n
  | .gco y => .gco (Ys.unres y)
def YsL.unres : YsL → YsL
  | .nil => .nil
  | .cons y l => .cons (Ys.unres y) (YsL.unres l)
end

mutual
theorem Ys.unres_labelsR : ∀ y : Ys, Ys.labelsR (Ys.unres y) = Ys.labelsR y
  | .none => rfl
  | .junk => rfl
  | .const _ => rfl
  | .pconst _ => rfl
  | .task _ _ => rfl
  | .tup l => by simp [Ys.unres, Ys.labelsR, YsL.unres_labelsR l]
  | .lst l => by simp [Ys.unres, Ys.labelsR, YsL.unres_labelsR l]
  | .dict _ l => by simp [Ys.unres, Ys.labelsR, YsL.unres_labelsR l]
  | .sub _ => rfl
  | .pval y => by simp [Ys.unres, Ys.labelsR, Ys.unres_labelsR y]
  | .ofut _ _ => rfl
  | .gco y => by simp [Ys.unres, Ys.labelsR, Ys.unres_labelsR y]
theorem YsL.unres_labelsR : ∀ l : YsL, YsL.labelsR (YsL.unres l) = YsL.labelsR l
  | .nil => rfl
  | .cons y l => by simp [YsL.unres, YsL.labelsR, Ys.unres_labelsR y, YsL.unres_labelsR l]
end

mutual
theorem Ys.unres_labelsA : ∀ y : Ys, Ys.labelsA (Ys.unres y) = Ys.labelsA y
  | .none => rfl
  | .junk => rfl
  | .const _ => rfl
  | .pconst _ => rfl
  | .task _ _ => rfl
  | .tup l => by simp [Ys.unres, Ys.labelsA, YsL.unres_labelsA l]
  | .lst l => by simp [Ys.unres, Ys.labelsA, YsL.unres_labelsA l]
  | .dict _ l => by simp [Ys.unres, Ys.labelsA, YsL.unres_labelsA l]
  | .sub y => by simp [Ys.unres, Ys.labelsA, Ys.unres_labelsA y]
  | .pval _ => rfl
  | .ofut _ _ => rfl
  | .gco y => by simp [Ys.unres, Ys.labelsA, Ys.unres_labelsA y]
theorem YsL.unres_labelsA : ∀ l : YsL, YsL.labelsA (YsL.unres l) = YsL.labelsA l
  | .nil => rfl
  | .cons y l => by simp [YsL.unres, YsL.labelsA, Ys.unres_labelsA y, YsL.unres_labelsA l]
end

mutual
theorem bodyR_unres : ∀ (p : Prog) (gen : Bool) (t : Nat) (env : List Val) (caught : Option Err) (i : Nat) (s : St),
    bodyR gen t env caught i (Prog.unres p) s = bodyR gen t env caught i p s
  | .ret _, _, _, _, _, _, _ => rfl
  | .res _, _, _, _, _, _, _ => by simp [Prog.unres, bodyR]
  | .raise _, _, _, _, _, _, _ => rfl
  | .raiseB _, _, _, _, _, _, _ => rfl
  | .reraise, _, _, _, _, _, _ => rfl
  | .yld hb y k h, gen, t, env, caught, i, s => by
    simp only [Prog.unres, bodyR, ysR_unres y, Ys.unres_labelsR]
    cases gen
    · rfl
    · simp only [Bool.not_true, Bool.false_eq_true, if_false]
      rcases ysR y s with ⟨r, s1⟩
      cases r <;> simp [bodyR_unres k, bodyR_unres h]
  | .sync c child k h, gen, t, env, caught, i, s => by
    simp only [Prog.unres, bodyR, bodyR_unres child]
    split <;> (rename_i r s1 _; cases r <;> simp [bodyR_unres k, bodyR_unres h])
theorem ysR_unres : ∀ (y : Ys) (s : St), ysR (Ys.unres y) s = ysR y s
  | .none, _ => rfl
  | .junk, _ => rfl
  | .const _, _ => rfl
  | .pconst _, _ => rfl
  | .task c p, s => by simp [Ys.unres, ysR, bodyR_unres p]
  | .tup l, s => by simp [Ys.unres, ysR, yslR_unres l]
  | .lst l, s => by simp [Ys.unres, ysR, yslR_unres l]
  | .dict _ l, s => by simp [Ys.unres, ysR, yslR_unres l]
  | .sub _, _ => rfl
  | .pval y, s => by simp [Ys.unres, ysR, ysR_unres y]
  | .ofut _ _, _ => rfl
  | .gco y, s => by simp [Ys.unres, ysR, ysR_unres y]
theorem yslR_unres : ∀ (l : YsL) (s : St), yslR (YsL.unres l) s = yslR l s
  | .nil, _ => rfl
  | .cons y l, s => by simp [YsL.unres, yslR, ysR_unres y, yslR_unres l]
end

mutual
theorem bodyA_unres : ∀ (p : Prog) (gen : Bool) (t : Nat) (env : List Val) (caught : Option Err) (i : Nat) (s : St),
    bodyA gen t env caught i (Prog.unres p) s = bodyA gen t env caught i p s
  | .ret _, _, _, _, _, _, _ => rfl
  | .res _, _, _, _, _, _, _ => by simp [Prog.unres, bodyA]
  | .raise _, _, _, _, _, _, _ => rfl
  | .raiseB _, _, _, _, _, _, _ => rfl
  | .reraise, _, _, _, _, _, _ => rfl
  | .yld hb y k h, gen, t, env, caught, i, s => by
    simp only [Prog.unres, bodyA, resolveA_unres y, Ys.unres_labelsA]
    cases gen
    · rfl
    · simp only [Bool.not_true, Bool.false_eq_true, if_false]
      rcases resolveA y s with ⟨r, s1⟩
      cases r <;> simp [bodyA_unres k, bodyA_unres h]
  | .sync c child k h, gen, t, env, caught, i, s => by
    simp only [Prog.unres, bodyA, bodyR_unres child]
    split <;> (rename_i r s1 _; cases r <;> simp [bodyA_unres k, bodyA_unres h])
theorem resolveA_unres : ∀ (y : Ys) (s : St), resolveA (Ys.unres y) s = resolveA y s
  | .none, _ => rfl
  | .junk, _ => rfl
  | .const _, _ => rfl
  | .pconst _, _ => rfl
  | .task c p, s => by simp [Ys.unres, resolveA, bodyA_unres p]
  | .tup l, s => by simp [Ys.unres, resolveA, gatherA_unres l]
  | .lst l, s => by simp [Ys.unres, resolveA, gatherA_unres l]
  | .dict _ l, s => by simp [Ys.unres, resolveA, gatherA_unres l]
  | .sub y, s => by simp [Ys.unres, resolveA, resolveA_unres y]
  | .pval y, s => by simp [Ys.unres, resolveA, resolveA_unres y]
  | .ofut _ _, _ => rfl
  | .gco y, s => by simp [Ys.unres, resolveA, resolveA_unres y]
theorem gatherA_unres : ∀ (l : YsL) (s : St), gatherA (YsL.unres l) s = gatherA l s
  | .nil, _ => rfl
  | .cons y l, s => by simp [YsL.unres, gatherA, resolveA_unres y, gatherA_unres l]
end

theorem topA_unres (c : Call) (p : Prog) (s : St) : topA c (Prog.unres p) s = topA c p s := by
  simp [topA, bodyA_unres]

theorem topCall_unres (c : Call) (p : Prog) (s : St) : topCall c (Prog.unres p) s = topCall c p s := by
  simp [topCall, bodyR_unres]

theorem topValue_unres (c : Call) (p : Prog) (s : St) : topValue c (Prog.unres p) s = topValue c p s := by
  simp [topValue, bodyR_unres]

end AsynqModel.Asyncio
