import AsynqModel.Lib.Asyncio
import AsynqModel.Proofs.Asyncio
import AsynqModel.Proofs.AsyncioSpec
/-! C15 after the repair of `convert_asynq_to_async` (AsyncTaskResult handled like StopIteration): `result(v)` and
    `return v` are the same thing to both evaluators, so every `_partial` statement extends to ALL programs. -/
namespace AsynqModel.Asyncio
open AsynqModel.Core (Val)

mutual
/-- the program with every `result(v)` replaced by `return v` -/
def Prog.unres : Prog → Prog
  | .ret t => .ret t
  | .res t => .ret t
  | .raise e => .raise e
  | .raiseB e => .raiseB e
  | .reraise => .reraise
  | .yld hb y k h => .yld hb (Ys.unres y) (Prog.unres k) (Prog.unres h)
  | .sync c child k h => .sync c (Prog.unres child) (Prog.unres k) (Prog.unres h)
def Ys.unres : Ys → Ys
  | .none => .none
  | .junk => .junk
  | .const v => .const v
  | .pconst v => .pconst v
  | .task c p => .task c (Prog.unres p)
  | .tup l => .tup (YsL.unres l)
  | .lst l => .lst (YsL.unres l)
  | .dict ks l => .dict ks (YsL.unres l)
def YsL.unres : YsL → YsL
  | .nil => .nil
  | .cons y l => .cons (Ys.unres y) (YsL.unres l)
end

mutual
theorem Prog.unres_noRes : ∀ p : Prog, (Prog.unres p).noRes = true
  | .ret _ => rfl
  | .res _ => rfl
  | .raise _ => rfl
  | .raiseB _ => rfl
  | .reraise => rfl
  | .yld _ y k h => by simp [Prog.unres, Prog.noRes, Ys.unres_noRes y, Prog.unres_noRes k, Prog.unres_noRes h]
  | .sync _ child k h => by simp [Prog.unres, Prog.noRes, Prog.unres_noRes child, Prog.unres_noRes k, Prog.unres_noRes h]
theorem Ys.unres_noRes : ∀ y : Ys, (Ys.unres y).noRes = true
  | .none => rfl
  | .junk => rfl
  | .const _ => rfl
  | .pconst _ => rfl
  | .task _ p => by simp [Ys.unres, Ys.noRes, Prog.unres_noRes p]
  | .tup l => by simp [Ys.unres, Ys.noRes, YsL.unres_noRes l]
  | .lst l => by simp [Ys.unres, Ys.noRes, YsL.unres_noRes l]
  | .dict _ l => by simp [Ys.unres, Ys.noRes, YsL.unres_noRes l]
theorem YsL.unres_noRes : ∀ l : YsL, (YsL.unres l).noRes = true
  | .nil => rfl
  | .cons y l => by simp [YsL.unres, YsL.noRes, Ys.unres_noRes y, YsL.unres_noRes l]
end

mutual
theorem Prog.unres_noSync : ∀ p : Prog, (Prog.unres p).noSync = p.noSync
  | .ret _ => rfl
  | .res _ => rfl
  | .raise _ => rfl
  | .raiseB _ => rfl
  | .reraise => rfl
  | .yld _ y k h => by simp [Prog.unres, Prog.noSync, Ys.unres_noSync y, Prog.unres_noSync k, Prog.unres_noSync h]
  | .sync _ _ _ _ => rfl
theorem Ys.unres_noSync : ∀ y : Ys, (Ys.unres y).noSync = y.noSync
  | .none => rfl
  | .junk => rfl
  | .const _ => rfl
  | .pconst _ => rfl
  | .task _ p => by simp [Ys.unres, Ys.noSync, Prog.unres_noSync p]
  | .tup l => by simp [Ys.unres, Ys.noSync, YsL.unres_noSync l]
  | .lst l => by simp [Ys.unres, Ys.noSync, YsL.unres_noSync l]
  | .dict _ l => by simp [Ys.unres, Ys.noSync, YsL.unres_noSync l]
theorem YsL.unres_noSync : ∀ l : YsL, (YsL.unres l).noSync = l.noSync
  | .nil => rfl
  | .cons y l => by simp [YsL.unres, YsL.noSync, Ys.unres_noSync y, YsL.unres_noSync l]
end

mutual
theorem Prog.unres_excOnly : ∀ p : Prog, (Prog.unres p).excOnly = p.excOnly
  | .ret _ => rfl
  | .res _ => rfl
  | .raise _ => rfl
  | .raiseB _ => rfl
  | .reraise => rfl
  | .yld _ y k h => by simp [Prog.unres, Prog.excOnly, Ys.unres_excOnly y, Prog.unres_excOnly k, Prog.unres_excOnly h]
  | .sync _ child k h => by simp [Prog.unres, Prog.excOnly, Prog.unres_excOnly child, Prog.unres_excOnly k, Prog.unres_excOnly h]
theorem Ys.unres_excOnly : ∀ y : Ys, (Ys.unres y).excOnly = y.excOnly
  | .none => rfl
  | .junk => rfl
  | .const _ => rfl
  | .pconst _ => rfl
  | .task _ p => by simp [Ys.unres, Ys.excOnly, Prog.unres_excOnly p]
  | .tup l => by simp [Ys.unres, Ys.excOnly, YsL.unres_excOnly l]
  | .lst l => by simp [Ys.unres, Ys.excOnly, YsL.unres_excOnly l]
  | .dict _ l => by simp [Ys.unres, Ys.excOnly, YsL.unres_excOnly l]
theorem YsL.unres_excOnly : ∀ l : YsL, (YsL.unres l).excOnly = l.excOnly
  | .nil => rfl
  | .cons y l => by simp [YsL.unres, YsL.excOnly, Ys.unres_excOnly y, YsL.unres_excOnly l]
end

mutual
theorem Prog.unres_noRaiseB : ∀ p : Prog, (Prog.unres p).noRaiseB = p.noRaiseB
  | .ret _ => rfl
  | .res _ => rfl
  | .raise _ => rfl
  | .raiseB _ => rfl
  | .reraise => rfl
  | .yld _ y k h => by simp [Prog.unres, Prog.noRaiseB, Ys.unres_noRaiseB y, Prog.unres_noRaiseB k, Prog.unres_noRaiseB h]
  | .sync _ child k h => by simp [Prog.unres, Prog.noRaiseB, Prog.unres_noRaiseB child, Prog.unres_noRaiseB k, Prog.unres_noRaiseB h]
theorem Ys.unres_noRaiseB : ∀ y : Ys, (Ys.unres y).noRaiseB = y.noRaiseB
  | .none => rfl
  | .junk => rfl
  | .const _ => rfl
  | .pconst _ => rfl
  | .task _ p => by simp [Ys.unres, Ys.noRaiseB, Prog.unres_noRaiseB p]
  | .tup l => by simp [Ys.unres, Ys.noRaiseB, YsL.unres_noRaiseB l]
  | .lst l => by simp [Ys.unres, Ys.noRaiseB, YsL.unres_noRaiseB l]
  | .dict _ l => by simp [Ys.unres, Ys.noRaiseB, YsL.unres_noRaiseB l]
theorem YsL.unres_noRaiseB : ∀ l : YsL, (YsL.unres l).noRaiseB = l.noRaiseB
  | .nil => rfl
  | .cons y l => by simp [YsL.unres, YsL.noRaiseB, Ys.unres_noRaiseB y, YsL.unres_noRaiseB l]
end

theorem Prog.unres_safe (p : Prog) : (Prog.unres p).safe = p.safe := by
  simp [Prog.safe, Prog.unres_excOnly, Prog.unres_noRaiseB]

mutual
theorem Ys.unres_labels : ∀ y : Ys, Ys.labels (Ys.unres y) = Ys.labels y
  | .none => rfl
  | .junk => rfl
  | .const _ => rfl
  | .pconst _ => rfl
  | .task _ _ => rfl
  | .tup l => by simp [Ys.unres, Ys.labels, YsL.unres_labels l]
  | .lst l => by simp [Ys.unres, Ys.labels, YsL.unres_labels l]
  | .dict _ l => by simp [Ys.unres, Ys.labels, YsL.unres_labels l]
theorem YsL.unres_labels : ∀ l : YsL, YsL.labels (YsL.unres l) = YsL.labels l
  | .nil => rfl
  | .cons y l => by simp [YsL.unres, YsL.labels, Ys.unres_labels y, YsL.unres_labels l]
end

theorem dc_unres (s : St) (y : Ys) : s.dc (Ys.unres y) = s.dc y := by
  simp [St.dc, Ys.unres_labels]

mutual
theorem bodyR_unres : ∀ (p : Prog) (gen : Bool) (t : Nat) (env : List Val) (caught : Option Err) (i : Nat) (s : St),
    bodyR gen t env caught i (Prog.unres p) s = bodyR gen t env caught i p s
  | .ret _, _, _, _, _, _, _ => rfl
  | .res _, _, _, _, _, _, _ => by simp [Prog.unres, bodyR]
  | .raise _, _, _, _, _, _, _ => rfl
  | .raiseB _, _, _, _, _, _, _ => rfl
  | .reraise, _, _, _, _, _, _ => rfl
  | .yld hb y k h, gen, t, env, caught, i, s => by
    simp only [Prog.unres, bodyR, ysR_unres y, dc_unres]
    cases gen
    · rfl
    · simp only [Bool.not_true, Bool.false_eq_true, if_false]
      rcases ysR y s with ⟨r, s1⟩
      cases r <;> simp [bodyR_unres k, bodyR_unres h]
  | .sync c child k h, gen, t, env, caught, i, s => by
    simp only [Prog.unres, bodyR, bodyR_unres child]
    split <;> (rename_i r s1 _; cases r <;> simp [bodyR_unres k, bodyR_unres h])
theorem ysR_unres : ∀ (y : Ys) (s : St), ysR (Ys.unres y) s = ysR y s
  | .none, _ => rfl
  | .junk, _ => rfl
  | .const _, _ => rfl
  | .pconst _, _ => rfl
  | .task c p, s => by simp [Ys.unres, ysR, bodyR_unres p]
  | .tup l, s => by simp [Ys.unres, ysR, yslR_unres l]
  | .lst l, s => by simp [Ys.unres, ysR, yslR_unres l]
  | .dict _ l, s => by simp [Ys.unres, ysR, yslR_unres l]
theorem yslR_unres : ∀ (l : YsL) (s : St), yslR (YsL.unres l) s = yslR l s
  | .nil, _ => rfl
  | .cons y l, s => by simp [YsL.unres, yslR, ysR_unres y, yslR_unres l]
end

mutual
theorem bodyA_unres : ∀ (p : Prog) (gen : Bool) (t : Nat) (env : List Val) (caught : Option Err) (i : Nat) (s : St),
    bodyA gen t env caught i (Prog.unres p) s = bodyA gen t env caught i p s
  | .ret _, _, _, _, _, _, _ => rfl
  | .res _, _, _, _, _, _, _ => by simp [Prog.unres, bodyA]
  | .raise _, _, _, _, _, _, _ => rfl
  | .raiseB _, _, _, _, _, _, _ => rfl
  | .reraise, _, _, _, _, _, _ => rfl
  | .yld hb y k h, gen, t, env, caught, i, s => by
    simp only [Prog.unres, bodyA, resolveA_unres y, dc_unres]
    cases gen
    · rfl
    · simp only [Bool.not_true, Bool.false_eq_true, if_false]
      rcases resolveA y s with ⟨r, s1⟩
      cases r <;> simp [bodyA_unres k, bodyA_unres h]
  | .sync c child k h, gen, t, env, caught, i, s => by
    simp only [Prog.unres, bodyA, bodyR_unres child]
    split <;> (rename_i r s1 _; cases r <;> simp [bodyA_unres k, bodyA_unres h])
theorem resolveA_unres : ∀ (y : Ys) (s : St), resolveA (Ys.unres y) s = resolveA y s
  | .none, _ => rfl
  | .junk, _ => rfl
  | .const _, _ => rfl
  | .pconst _, _ => rfl
  | .task c p, s => by simp [Ys.unres, resolveA, bodyA_unres p]
  | .tup l, s => by simp [Ys.unres, resolveA, gatherA_unres l]
  | .lst l, s => by simp [Ys.unres, resolveA, gatherA_unres l]
  | .dict _ l, s => by simp [Ys.unres, resolveA, gatherA_unres l]
theorem gatherA_unres : ∀ (l : YsL) (s : St), gatherA (YsL.unres l) s = gatherA l s
  | .nil, _ => rfl
  | .cons y l, s => by simp [YsL.unres, gatherA, resolveA_unres y, gatherA_unres l]
end

theorem topA_unres (c : Call) (p : Prog) (s : St) : topA c (Prog.unres p) s = topA c p s := by
  simp [topA, bodyA_unres]

theorem topCall_unres (c : Call) (p : Prog) (s : St) : topCall c (Prog.unres p) s = topCall c p s := by
  simp [topCall, bodyR_unres]

theorem topValue_unres (c : Call) (p : Prog) (s : St) : topValue c (Prog.unres p) s = topValue c p s := by
  simp [topValue, bodyR_unres]

theorem observe_unres (c : Call) (p : Prog) : observe c (Prog.unres p) = observe c p := by
  simp [observe, observe1, allConvs, topA_unres, topCall_unres, topValue_unres]

/-! ### the statements for programs without `result()` (proved before the repair, still valid) -/

/-- **equivalence** (programs without `result()` and without plain synchronous calls):
    awaiting `fn.asyncio(args)` - started in any context state `s` - gives exactly the value / exception of `fn(args)`,
    which is also what `fn.asynq(args).value()` gives -/
theorem equiv_noRes (c : Call) (p : Prog) (s s' : St) (hr : p.noRes = true) (hs : p.noSync = true)
    (hx : p.safe = true) (hm' : s'.mode = false) :
    (topA c p s).1 = (topCall c p s').1 ∧ (topValue c p s').1 = (topCall c p s').1 := by
  refine ⟨?_, by rw [topValue_eq_topCall c p s' hm']⟩
  rw [topA_eq]
  simp only [topCall, hm', Bool.false_eq_true, if_false]
  exact bodyA_eq_bodyR p _ _ _ _ _ _ _ (by simp) (by simp [hm']) hr hs (Safe.ofBool hx)

/-- **equivalence, semantic form**: a program may contain plain synchronous calls; if the asyncio run attempts none of
    them (none is logged), it still gives exactly the outcome of `fn(args)` -/
theorem equiv_run_noRes (c : Call) (p : Prog) (s' : St) (hr : p.noRes = true) (hx : p.safe = true)
    (hm' : s'.mode = false)
    (hn : (topA c p {}).2.log.any isSyncX = false) : (topA c p {}).1 = (topCall c p s').1 :=
  topA_sem c p hr hx s' hm' hn

/-- **inside, the flag is on; siblings complete first; sync calls refused** (no `result()`): every event logged by an
    asyncio run satisfies `evOkA` - each body saw `is_asyncio_mode() = True` at its start and at every resumption, every
    resumption (value or exception) happened when all tasks yielded together had finished, every synchronous call
    attempted was refused -/
theorem asyncio_run_good_noRes (c : Call) (p : Prog) (hr : p.noRes = true) :
    (topA c p {}).2.log.all evOkA = true := (topA_good c p hr).2

/-- **C15 as a whole** (no `result()`): the observations of the model under all five ways of running a program -
    `fn(args)`, `fn.asynq(args).value()`, `await fn.asyncio(args)`, `asyncio.run(fn.asyncio(args))`, as a task beside a
    watcher - are accepted by the observer `spec`, the same Boolean function the check evaluates on the observations of
    the real implementation -/
theorem spec_holds_noRes (c : Call) (p : Prog) (hr : p.noRes = true) (hx : p.safe = true) :
    spec (observe c p) = true := by
  obtain ⟨hRm, hRl⟩ := topCall_good c p
  obtain ⟨hAm, hAl⟩ := topA_good c p hr
  have hsem := topA_sem c p hr hx {} rfl
  have e1 : specObs (topCall c p {}).1 (observe1 .call c p) = .ok () :=
    specObs_ok_R _ _ rfl rfl hRm (canary_off _ hRm) (by simpa [observe1] using hRl) rfl
  have hv := topValue_eq_topCall c p {} rfl
  have e2 : specObs (topCall c p {}).1 (observe1 .value c p) = .ok () :=
    specObs_ok_R _ _ rfl rfl
      (by rw [show (observe1 .value c p).after = (topValue c p {}).2.mode from rfl, hv]; exact hRm)
      (by rw [show (observe1 .value c p).canary = canary (topValue c p {}).2 from rfl, hv]; exact canary_off _ hRm)
      (by rw [show (observe1 .value c p).log = (topValue c p {}).2.log.reverse from rfl, hv]; simpa using hRl)
      (by rw [show (observe1 .value c p).out = (topValue c p {}).1 from rfl, hv])
  have e3 : specObs (topCall c p {}).1 (observe1 .aio c p) = .ok () :=
    specObs_ok_A _ _ rfl rfl hAm (canary_off _ hAm) (by simpa [observe1] using hAl)
      (by intro h; exact hsem (by simpa [observe1] using h))
  have e4 : specObs (topCall c p {}).1 (observe1 .aiorun c p) = .ok () :=
    specObs_ok_A _ _ rfl rfl rfl (canary_off _ rfl) (by simpa [observe1] using hAl)
      (by intro h; exact hsem (by simpa [observe1] using h))
  have e5 : specObs (topCall c p {}).1 (observe1 .aiotask c p) = .ok () :=
    specObs_ok_A _ _ rfl rfl rfl (canary_off _ rfl) (by simpa [observe1] using hAl)
      (by intro h; exact hsem (by simpa [observe1] using h))
  exact spec_intro (observe1 .call c p) (observe1 .value c p) (observe1 .aio c p) (observe1 .aiorun c p)
    (observe1 .aiotask c p) rfl rfl rfl rfl rfl e1 e2 e3 e4 e5

end AsynqModel.Asyncio
