import AsynqModel.Core.Spec
import AsynqModel.Core.Reach
/-!
  P13 (the executable observers of `Core/Spec.lean` accept every trace of the machine), part 1: the observer as a
  function of the machine's trace.

  The machine stores its trace newest first; `Spec.specRun` reads oldest first.  `obs tr` is the observer state after
  reading the whole of `tr` (newest first), `Acc chk c tr` says that no event of `tr` violated a clause of `chk`;
  `specRun_none_iff : specRun chk c {} 0 tr.reverse = none ↔ Acc chk c tr`.  Since `State.emit` prepends one event,
  `obs (s.emit e).trace = watchEvent (obs s.trace) e`: the observer state is a function of the machine state.

  `view` projects the observer state to the eight fields `checkC05` and the relation to the machine need.
-/
namespace AsynqModel.Core.P13
open AsynqModel.Core AsynqModel.Core.Spec

/-- the observer state after the whole trace (newest first) -/
def obs : List Event → Watch
  | [] => {}
  | e :: tr => watchEvent (obs tr) e

/-- no event of the trace (newest first) violates a clause of `chk` -/
def Acc (chk : Ctx → Watch → Event → Option String) (c : Ctx) : List Event → Prop
  | [] => True
  | e :: tr => Acc chk c tr ∧ chk c (obs tr) e = none

@[simp] theorem obs_nil : obs [] = {} := rfl
@[simp] theorem obs_cons (e : Event) (tr : List Event) : obs (e :: tr) = watchEvent (obs tr) e := rfl
theorem acc_cons {chk c} (e : Event) (tr : List Event) :
    Acc chk c (e :: tr) ↔ Acc chk c tr ∧ chk c (obs tr) e = none := Iff.rfl

theorem specRun_snoc (chk : Ctx → Watch → Event → Option String) (c : Ctx) :
    ∀ (l : List Event) (w : Watch) (i : Nat) (e : Event),
      specRun chk c w i (l ++ [e]) = none ↔
        specRun chk c w i l = none ∧ chk c (l.foldl watchEvent w) e = none
  | [], w, i, e => by
    simp only [List.nil_append, specRun, List.foldl_nil, true_and]
    cases chk c w e <;> simp
  | a :: l, w, i, e => by
    simp only [List.cons_append, specRun, List.foldl_cons]
    cases chk c w a with
    | some m => simp
    | none => exact specRun_snoc chk c l (watchEvent w a) (i + 1) e

theorem obs_eq (tr : List Event) : obs tr = tr.reverse.foldl watchEvent {} := by
  induction tr with
  | nil => rfl
  | cons e tr ih => simp [List.foldl_append, ih]

/-- the observer run over the chronological trace raises nothing iff every event passes its check -/
theorem specRun_none_iff (chk : Ctx → Watch → Event → Option String) (c : Ctx) (tr : List Event) :
    specRun chk c {} 0 tr.reverse = none ↔ Acc chk c tr := by
  induction tr with
  | nil => simp [specRun, Acc]
  | cons e tr ih =>
    rw [List.reverse_cons, specRun_snoc, ih, acc_cons, obs_eq]

/-- a check that does not look at the observer state -/
theorem acc_of_forall (chk : Ctx → Watch → Event → Option String) (c : Ctx) (tr : List Event)
    (h : ∀ e ∈ tr, ∀ w, chk c w e = none) : Acc chk c tr := by
  induction tr with
  | nil => trivial
  | cons e tr ih =>
    exact ⟨ih fun e' he' => h e' (List.mem_cons_of_mem _ he'), h e List.mem_cons_self _⟩

theorem acc_mem {chk c} : ∀ (tr : List Event), Acc chk c tr → ∀ e ∈ tr, ∃ w, chk c w e = none
  | [], _, _, he => by cases he
  | a :: tr, h, e, he => by
    rcases List.mem_cons.1 he with rfl | he
    · exact ⟨_, h.2⟩
    · exact acc_mem tr h.1 e he

/-! ### the part of the observer state C05 looks at -/

structure View where
  kinds : List (Nat × NewKind)
  outs : List (Nat × Outcome)
  flushedB : List (Nat × Nat)
  inFlush : Option (Nat × Nat × List Nat × Bool × Bool)
  curBody : Option (Nat × Nat × List Nat)
  syncStack : List (Nat × Nat)
  topRoot : Option Nat
  expectRoot : Bool

def view (w : Watch) : View :=
  ⟨w.kinds, w.outs, w.flushedB, w.inFlush, w.curBody, w.syncStack, w.topRoot, w.expectRoot⟩

/-- events that change none of the eight fields and that `checkC05` never objects to -/
def plain : Event → Bool
  | .run .. => true
  | .yield .. => true
  | .ctx .. => true
  | .ctxN .. => true
  | .ctxX .. => true
  | .read .. => true
  | .active .. => true
  | .sched .. => true
  | .svals .. => true
  | _ => false

theorem view_plain (w : Watch) (e : Event) (h : plain e = true) : view (watchEvent w e) = view w := by
  cases e <;> simp [plain] at h <;> simp [watchEvent, view, Watch.mention]
  case ctx r c => cases r <;> simp

theorem check_plain (c : Ctx) (w : Watch) (e : Event) (h : plain e = true) : checkC05 c w e = none := by
  cases e <;> simp [plain] at h <;> rfl

theorem view_ret (w : Watch) (o : Outcome) : view (watchEvent w (.ret o)) = view w := rfl

theorem view_done (w : Watch) (f : Nat) (o : Outcome) :
    view (watchEvent w (.done f o)) = { view w with outs := (f, o) :: w.outs } := rfl

theorem view_syncE (w : Watch) (t f : Nat) :
    view (watchEvent w (.syncE t f)) = { view w with syncStack := (t, f) :: w.syncStack } := rfl

theorem view_syncX (w : Watch) (t f : Nat) (o : Outcome) :
    view (watchEvent w (.syncX t f o)) = { view w with syncStack := w.syncStack.erase (t, f) } := rfl

theorem view_flushB (w : Watch) (k q : Nat) (items : List Nat) (p : Nat × Nat) (pd : List PendingB) :
    view (watchEvent w (.flushB k q items p pd)) = { view w with inFlush := some (k, q, items, false, false) } := rfl

theorem view_flushE (w : Watch) (k q : Nat) :
    view (watchEvent w (.flushE k q)) = { view w with inFlush := none } := rfl

theorem view_flushI (w : Watch) (k q : Nat) (items : List Nat) :
    view (watchEvent w (.flushI k q items)) =
      { view w with flushedB := (k, q) :: w.flushedB, curBody := some (k, q, items),
                    inFlush := w.inFlush.map fun (k', q', its, ran, bd) => (k', q', its, ran || (k', q') == (k, q), bd) } := rfl

theorem view_bdone (w : Watch) (k q : Nat) (ok : Bool) :
    view (watchEvent w (.bdone k q ok)) =
      { view w with curBody := none,
                    inFlush := w.inFlush.map fun (k', q', its, ran, bd) => (k', q', its, ran, bd || (k', q') == (k, q)) } := rfl

theorem view_top (w : Watch) (i : Nat) (cv : Conv) :
    view (watchEvent w (.top i cv)) = { view w with topRoot := none, expectRoot := true } := rfl

/-- a new future, seen while no root task is expected -/
theorem view_new (w : Watch) (f : Nat) (k : NewKind) (h : w.expectRoot = false) :
    view (watchEvent w (.new f k)) =
      { view w with kinds := (f, k) :: w.kinds,
                    outs := match k with
                      | .const v => (f, .ok (.a v)) :: w.outs
                      | .errfut e => (f, .err (.u e)) :: w.outs
                      | _ => w.outs } := by
  cases k <;> simp [watchEvent, view, h]

/-- the root task of a top-level computation -/
theorem view_new_root (w : Watch) (f : Nat) (cr : Option Nat) (h : w.expectRoot = true) :
    view (watchEvent w (.new f (.task cr))) =
      { view w with kinds := (f, .task cr) :: w.kinds, topRoot := some f, expectRoot := false } := by
  simp [watchEvent, view, h]

/-- events `checkC05` has no clause for -/
theorem check_other (c : Ctx) (w : Watch) (e : Event)
    (h : match e with | .new .. => True | .top .. => True | .syncE .. => True | .syncX .. => True | _ => False) :
    checkC05 c w e = none := by
  cases e <;> first | rfl | cases h

end AsynqModel.Core.P13
