import AsynqModel.Proofs.P6TLive
/-
  P6T (termination, property C03), part 12: `runFuel` bookkeeping and the final statements.
-/
namespace AsynqModel.Core.P6T
open AsynqModel.Core AsynqModel.Core.P6

theorem step_of_done (s : State) (h : s.isDone = true) : step s = s := by
  unfold State.isDone at h
  unfold step
  cases hs : s.stuck with
  | some m => simp
  | none =>
    simp [hs] at h
    obtain ⟨⟨h1, h2⟩, h3⟩ := h
    simp [h1, h2, h3]

/-- one more unit of fuel = one more step, unless the run is finished -/
theorem runFuel_succ' : ∀ (n : Nat) (s : State),
    runFuel (n + 1) s = if (runFuel n s).isDone then runFuel n s else step (runFuel n s)
  | 0, s => by
    show runFuel 1 s = if s.isDone then s else step s
    rw [runFuel]; rfl
  | n + 1, s => by
    cases hd : s.isDone with
    | true =>
      rw [runFuel_of_done _ s hd, runFuel_of_done _ s hd, hd]; rfl
    | false =>
      rw [runFuel_succ_of_not_done (n + 1) s hd, runFuel_succ_of_not_done n s hd]
      exact runFuel_succ' n (step s)

theorem runFuel_done_stable (s : State) (n : Nat) (h : (runFuel n s).isDone = true) :
    ∀ k, runFuel (n + k) s = runFuel n s := by
  intro k
  induction k with
  | zero => rfl
  | succ k ih =>
    show runFuel (n + k + 1) s = _
    rw [runFuel_succ', ih, h]; rfl

/-- the guard has not fired at the end of a finished run: it never fires -/
theorem guard_never (s : State) (n : Nat) (hd : (runFuel n s).isDone = true)
    (hg : (runFuel n s).guardFired = false) : ∀ k, (runFuel k s).guardFired = false := by
  have back : ∀ k, (runFuel (k + 1) s).guardFired = false → (runFuel k s).guardFired = false := by
    intro k h
    rw [runFuel_succ'] at h
    split at h
    · exact h
    · exact P3.guard_mono _ h
  have down : ∀ j k, (runFuel (k + j) s).guardFired = false → (runFuel k s).guardFired = false := by
    intro j
    induction j with
    | zero => intro k h; exact h
    | succ j ih => intro k h; exact ih k (back (k + j) h)
  intro k
  by_cases hk : k ≤ n
  · obtain ⟨j, rfl⟩ := Nat.exists_eq_add_of_le hk
    exact down j k hg
  · obtain ⟨j, rfl⟩ := Nat.exists_eq_add_of_le (Nat.le_of_not_le hk)
    rw [runFuel_done_stable s n hd j]; exact hg

end AsynqModel.Core.P6T
