import AsynqModel.Proofs.P5Ops
/-!
  P5: the invariant `G` about running tasks (gen frames of the control stack) and the active task.
-/
namespace AsynqModel.Core.P5
open AsynqModel.Core

/-- weak form of `Inv.activeChain` that also survives the MAX_TASK_STACK_SIZE guard (which resets `active_task` to
    `None`): the active task and every saved active task is `none` or one of the tasks running further out -/
def WC : Option Nat → List (Nat × Option Nat) → Prop
  | a, [] => a = none
  | a, (t, old) :: rest => (∀ x, a = some x → x ∈ ((t, old) :: rest).map (·.1)) ∧ WC old rest

theorem WC.mem {a : Option Nat} {g : List (Nat × Option Nat)} (h : WC a g) (x : Nat) (hx : a = some x) :
    x ∈ g.map (·.1) := by
  cases g with
  | nil => rw [h] at hx; cases hx
  | cons p rest => obtain ⟨t, old⟩ := p; exact h.1 x hx

theorem WC.none {a : Option Nat} {g : List (Nat × Option Nat)} (h : WC a g) : WC none g := by
  cases g with
  | nil => rfl
  | cons p rest => obtain ⟨t, old⟩ := p; exact ⟨fun x hx => (by cases hx), h.2⟩

structure G (s : State) : Prop where
  gens : ∀ t old, (t, old) ∈ Inv.gensOf s.ctl →
    t < s.futs.length ∧ (s.task t).ctxActive = true ∧ (s.task t).deps.all s.computed = true
  nodup : ((Inv.gensOf s.ctl).map (·.1)).Nodup
  chain : WC s.active (Inv.gensOf s.ctl)

theorem gensOf_cons_gen (t : Nat) (old : Option Nat) (rest : List Ctl) :
    Inv.gensOf (.gen t old :: rest) = (t, old) :: Inv.gensOf rest := by
  simp [Inv.gensOf]
theorem gensOf_cons_waitEnter (r : Nat) (rest : List Ctl) : Inv.gensOf (.waitEnter r :: rest) = Inv.gensOf rest := by
  simp [Inv.gensOf]
theorem gensOf_cons_waitLoop (r b : Nat) (rest : List Ctl) : Inv.gensOf (.waitLoop r b :: rest) = Inv.gensOf rest := by
  simp [Inv.gensOf]
theorem gensOf_nil : Inv.gensOf [] = [] := rfl

theorem G.active_mem {s : State} (g : G s) (a : Nat) (h : s.active = some a) :
    a < s.futs.length ∧ (s.task a).ctxActive = true := by
  have := g.chain.mem a h
  obtain ⟨p, hp, rfl⟩ := List.mem_map.1 this
  obtain ⟨t, old⟩ := p
  exact ⟨(g.gens t old hp).1, (g.gens t old hp).2.1⟩

theorem all_computed_mono {s s' : State} (l l' : List Nat) (hc : ∀ f, s.computed f = true → s'.computed f = true)
    (hl : l' = l ∨ l' = []) (h : l.all s.computed = true) : l'.all s'.computed = true := by
  rcases hl with rfl | rfl
  · rw [List.all_eq_true] at h ⊢
    exact fun x hx => hc x (h x hx)
  · rfl

/-- the gen frames stay; the task `t` excepted by `MonoX` is re-established by hand -/
theorem G_stay {s s' : State} (t : Nat) (g : G s) (m : MonoX t s s')
    (hg : Inv.gensOf s'.ctl = Inv.gensOf s.ctl) (ha : s'.active = s.active ∨ s'.active = none)
    (ht : ∀ old, (t, old) ∈ Inv.gensOf s.ctl →
      (s'.task t).ctxActive = true ∧ (s'.task t).deps.all s'.computed = true) : G s' := by
  refine ⟨?_, by rw [hg]; exact g.nodup, ?_⟩
  · intro u old hu
    rw [hg] at hu
    obtain ⟨h1, h2, h3⟩ := g.gens u old hu
    by_cases hut : u = t
    · subst hut; exact ⟨Nat.lt_of_lt_of_le h1 m.len, ht old hu⟩
    · exact ⟨Nat.lt_of_lt_of_le h1 m.len, by rw [m.tact u hut]; exact h2,
        all_computed_mono _ _ m.comp (m.tdeps u hut) h3⟩
  · rw [hg]
    rcases ha with ha | ha
    · rw [ha]; exact g.chain
    · rw [ha]; exact g.chain.none

theorem G_stay' {s s' : State} (g : G s) (m : Mono s s')
    (hg : Inv.gensOf s'.ctl = Inv.gensOf s.ctl) (ha : s'.active = s.active ∨ s'.active = none) : G s' := by
  refine G_stay 0 g (m.monoX 0) hg ha ?_
  intro old h
  obtain ⟨_, h2, h3⟩ := g.gens 0 old h
  exact ⟨by rw [m.tact]; exact h2, all_computed_mono _ _ m.comp (m.tdeps 0) h3⟩

/-- the innermost gen frame is popped (`_continue_with_task` returns) -/
theorem G_pop {s s' : State} (t : Nat) (old : Option Nat) (rest : List Ctl) (g : G s) (m : MonoX t s s')
    (hc : s.ctl = .gen t old :: rest) (hc' : s'.ctl = rest) (ha : s'.active = old) : G s' := by
  have hgs : Inv.gensOf s.ctl = (t, old) :: Inv.gensOf rest := by rw [hc, gensOf_cons_gen]
  have hnd := g.nodup
  rw [hgs, List.map_cons, List.nodup_cons] at hnd
  refine ⟨?_, by rw [hc']; exact hnd.2, ?_⟩
  · intro u o hu
    rw [hc'] at hu
    have hut : u ≠ t := fun h => hnd.1 (h ▸ List.mem_map_of_mem (f := (·.1)) hu)
    obtain ⟨h1, h2, h3⟩ := g.gens u o (by rw [hgs]; exact List.mem_cons_of_mem _ hu)
    exact ⟨Nat.lt_of_lt_of_le h1 m.len, by rw [m.tact u hut]; exact h2,
      all_computed_mono _ _ m.comp (m.tdeps u hut) h3⟩
  · rw [hc', ha]
    have := g.chain
    rw [hgs] at this
    exact this.2

/-- a gen frame is pushed (`_continue_with_task` is entered) -/
theorem G_push {s s' : State} (t : Nat) (g : G s) (m : MonoX t s s')
    (hc' : s'.ctl = .gen t s.active :: s.ctl) (ha : s'.active = some t)
    (hnew : t ∉ (Inv.gensOf s.ctl).map (·.1))
    (ht : t < s'.futs.length ∧ (s'.task t).ctxActive = true ∧ (s'.task t).deps.all s'.computed = true) : G s' := by
  have hgs : Inv.gensOf s'.ctl = (t, s.active) :: Inv.gensOf s.ctl := by rw [hc', gensOf_cons_gen]
  refine ⟨?_, ?_, ?_⟩
  · intro u o hu
    rw [hgs] at hu
    rcases List.mem_cons.1 hu with h | hu
    · cases h; exact ht
    · have hut : u ≠ t := fun h => hnew (h ▸ List.mem_map_of_mem (f := (·.1)) hu)
      obtain ⟨h1, h2, h3⟩ := g.gens u o hu
      exact ⟨Nat.lt_of_lt_of_le h1 m.len, by rw [m.tact u hut]; exact h2,
        all_computed_mono _ _ m.comp (m.tdeps u hut) h3⟩
  · rw [hgs, List.map_cons, List.nodup_cons]; exact ⟨hnew, g.nodup⟩
  · rw [hgs, ha]
    exact ⟨fun x hx => (by cases hx; simp), g.chain⟩

/-! ### `depsSched` implies `ctxActive` -/

/-- a task whose dependencies are scheduled (first visit of `_handle_async_task` done, second not yet) has its
    contexts active -/
def D (s : State) : Prop := ∀ t, (s.task t).depsSched = true → (s.task t).ctxActive = true

theorem D_mono {s s' : State} (d : D s) (m : Mono s s') : D s' := by
  intro t ht
  rw [m.tact]; exact d t (m.tsched t ht)

theorem D_monoX {s s' : State} (t : Nat) (d : D s) (m : MonoX t s s')
    (ht : (s'.task t).depsSched = true → (s'.task t).ctxActive = true) : D s' := by
  intro u hu
  by_cases h : u = t
  · subst h; exact ht hu
  · rw [m.tact u h]; exact d u (m.tsched u h hu)

theorem MonoX.trans {t : Nat} {s s' s'' : State} (h : MonoX t s s') (h' : MonoX t s' s'') : MonoX t s s'' := by
  refine ⟨h'.cfg.trans h.cfg, Nat.le_trans h.len h'.len, ?_, fun f hf => h'.comp f (h.comp f hf), ?_, ?_,
    fun u hu hs => h.tsched u hu (h'.tsched u hu hs)⟩
  · intro u hu
    rcases h'.tdeps u hu with h1 | h1
    · rw [h1]; exact h.tdeps u hu
    · exact .inr h1
  · intro f hf; rw [h'.kind f (Nat.lt_of_lt_of_le hf h.len), h.kind f hf]
  · intro u hu; rw [h'.tact u hu, h.tact u hu]

end AsynqModel.Core.P5
