import AsynqModel.Proofs.P27OrdB
import AsynqModel.Proofs.P15OrdC
/-!
  P27, C03 (start-order clause) part 4: what a step does to the task stack (`P15.StackRel`) and the preservation of the
  stack invariant `P15.OrdInv` - without the hypothesis that no NonAsyncContext exists.
-/
namespace AsynqModel.Core.P27
open AsynqModel.Core AsynqModel.Core.Spec AsynqModel.Core.P2 AsynqModel.Core.P14 AsynqModel.Core.P15

/-- the stack after the first visit of a blocked task whose paused contexts contain no NonAsyncContext -/
theorem handleTask_first_stack'' (s : State) (t : Nat) (ht : t < s.futs.length)
    (hz : (s.task t).ctxActive = false → P2.NAfree s t)
    (hbl : ((s.task t).deps.any fun d => !s.computed d) = true) (hfl : (s.task t).depsSched = false) :
    (s.handleTask t).stack = (((s.task t).deps.filter fun d => !s.computed d).reverse) ++ s.stack := by
  rw [P6T.handleTask_first_stack s t hbl hfl]
  congr 2
  apply List.filter_congr
  intro d _
  have hts : (s.updTask t fun ts => { ts with depsSched := true }).task t = { s.task t with depsSched := true } :=
    P5.task_updTask_self _ _ _ ht
  rw [(eqv_resumeContexts' (s.updTask t fun ts => { ts with depsSched := true }) t (by
    rw [hts]
    intro hact c hc
    rw [hts] at hc
    exact hz hact c hc)).computed d]
  rw [P5.computed_updTask s t d _]

theorem stackRel' {s : State} (h : P10.WSReach s) (hs : s.stuck = none) (hg : (step s).guardFired = false) :
    StackRel s := by
  have hg0 := P3.guard_mono s hg
  have pin := pinv_reach h.reach
  have q := Q_reach' h hg0
  have w := stepW_reach h.reach
  cases P10.ws_step_sh h with
  | same hp c => exact .same hp.stack
  | top f hc hp c hf => exact .same (hp (P10.ws_hinv h).2).stack
  | popRaise hr hp c => exact .same hp.stack
  | popEnter root rest hc hp c => exact .same hp.stack
  | enterLoop root rest hc hr hp sched c st => exact .root root rest hc st
  | guard root base rest hc e =>
    rw [e] at hg
    simp [P3.guardReset, State.raiseOutOfWait] at hg
  | popStack root base rest top st hc hr hlen hst hp sched c st' hpop =>
    refine .pop root base rest top st hc hst st' ?_
    intro hk
    cases hcs : s.computed top with
    | true =>
      exact w.st top (q.q2 top hk (by unfold State.computed at hcs; intro ho; rw [ho] at hcs; cases hcs))
    | false =>
      have e := step_exec_task hs hr hc hlen hst hg hg0 hk hcs
      cases hb : ((s.task top).deps.any fun d => !s.computed d) with
      | false =>
        rw [e, handle_stack_nb s top hb, hst] at st'
        exact absurd st'.symm (length_ne_cons top st)
      | true =>
        rw [List.any_eq_true] at hb
        obtain ⟨d, hd, _⟩ := hb
        cases hq : (s.task top).started with
        | true => exact w.st top hq
        | false => rw [q.q1 top hq] at hd; cases hd
  | pushDeps root base rest top st ds hc hr hlen hst hp hk hflag sched hds c st' =>
    have hnc : s.computed top = false := by
      cases hcs : s.computed top with
      | false => rfl
      | true =>
        exfalso
        have e1 := P6T.step_waitLoop_iter s hs hr hc hlen
        by_cases hmax : s.stack.length > s.cfg.maxStack
        · rw [e1, P3.executeIter_guard s hmax] at hg
          simp [P3.guardReset, State.raiseOutOfWait] at hg
        · rw [e1, executeIter_computed s hst hmax hcs] at st'
          have := congrArg List.length st'
          simp [State.popStack, hst] at this
          omega
    have e := step_exec_task hs hr hc hlen hst hg hg0 hk hnc
    cases hb : ((s.task top).deps.any fun d => !s.computed d) with
    | false =>
      refine .same ?_
      rw [e]; exact handle_stack_nb s top hb
    | true =>
      refine .push root base rest top st hc hst hk hnc ?_
      rw [e]
      exact handleTask_first_stack'' s top (P5.lt_of_kind_task s top hk)
        (pin.z top (by unfold State.computed at hnc; cases ho : s.out top with
          | none => rfl
          | some x => rw [ho] at hnc; cases hnc)) hb hflag
  | enterGen root base rest top st old hc hr hlen hst hp c => exact .same hp.stack
  | reentrant root base rest top st hc hr hlen hst hin e => exact .same (by rw [e]; rfl)
  | popLoop root base rest hc hr hlen hp c => exact .same hp.stack
  | flush root base rest hc hr hlen hp c => exact .same hp.stack
  | genLeave t old rest hc hp c => exact .same hp.stack
  | genCall t old rest f hc hp c n => exact .same hp.stack

theorem ord_step' {s : State} (h : P10.WSReach s) (hg : (step s).guardFired = false)
    (oi : OrdInv s) : OrdInv (step s) := by
  by_cases hs : s.stuck = none
  case neg => rw [P3.step_of_stuck s hs]; exact oi
  have hg0 := P3.guard_mono s hg
  have hr := h.reach
  have qs := Q_reach' h hg0
  have w := stepW_reach hr
  have sr := stackRel' h hs hg
  intro u l hm p' t hp' ht hts hse
  have hts0 := w.unst hts
  have hse0 : ¬ elsewhere (wOf s.trace) t := fun he => hse (w.el t he)
  -- an old obligation
  have old : (u, l) ∈ (wOf s.trace).orderObl →
      ∀ a ∈ l.takeWhile (· != t), ((step s).task a).started = true ∨ a ∈ (step s).stack.take p' := by
    intro hm0
    cases sr with
    | same e =>
      exact ord_pos oi w.st w.el hm0 ht hts hse (p := p') (by rw [← e]; exact hp')
        (fun a ha _ => Or.inl (by rw [e]; exact ha))
    | root root rest hc e =>
      rw [e] at hp'
      cases p' with
      | zero =>
        simp only [List.getElem?_cons_zero, Option.some.injEq] at hp'
        subst hp'
        exact (root_no_obl' h hg0 hc hts0 hm0 ht hse0).elim
      | succ p =>
        simp only [List.getElem?_cons_succ] at hp'
        refine ord_pos oi w.st w.el hm0 ht hts hse (p := p) hp' (fun a ha _ => Or.inl ?_)
        rw [e, List.take_succ_cons]
        exact List.mem_cons_of_mem _ ha
    | pop root base rest top stk hc hst e hstart =>
      refine ord_pos oi w.st w.el hm0 ht hts hse (p := p' + 1) (by rw [hst]; simpa using (e ▸ hp')) ?_
      intro a ha hal
      rw [hst, List.take_succ_cons] at ha
      rcases List.mem_cons.1 ha with ha | ha
      · right; rw [ha]; exact hstart (ha ▸ qs.q4 u l hm0 a hal)
      · left; rw [e]; exact ha
    | push root base rest top stk hc hst hk hnc e =>
      rcases Nat.lt_or_ge p' ((s.task top).deps.filter fun d => !s.computed d).reverse.length with hlt | hge
      · -- a position among the pushed dependencies
        have htD : t ∈ ((s.task top).deps.filter fun d => !s.computed d).reverse := by
          rw [e, List.getElem?_append_left hlt] at hp'
          exact List.mem_of_getElem? hp'
        have htd : t ∈ (s.task top).deps := (List.mem_filter.1 (List.mem_reverse.1 htD)).1
        have hu : u = top :=
          single_unique hse0 (obl_mentions s.trace u l hm0 t ht) (qs.q5 top t htd)
        subst hu
        have hou : s.out u = none := computed_false (by rw [hnc]; simp)
        have hcur : Cur s u l := by
          rcases qs.q8 u l hm0 with c1 | c1 | c1
          · exact absurd hou c1
          · have := c1 t ht; rw [hts0] at this; cases this
          · exact c1
        obtain ⟨c1, c2, c3, ⟨P, c4⟩, c5⟩ := hcur
        obtain ⟨pre, hpre⟩ := qs.q7 u c1 c2 c3
        have hunc : ∀ x, x ∈ l → (s.task x).started = false → (!s.computed x) = true := by
          intro x hx hxs
          have hkx := qs.q4 u l hm0 x hx
          cases hcx : s.computed x with
          | false => rfl
          | true =>
            have := qs.q2 x hkx (by unfold State.computed at hcx; intro ho; rw [ho] at hcx; cases hcx)
            rw [hxs] at this; cases this
        intro a ha
        cases has : (s.task a).started with
        | true => exact Or.inl (w.st a has)
        | false =>
          right
          rw [e, hpre]
          rw [e, hpre] at hp'
          exact order_push (unc := fun d => !s.computed d) c4 c5 ht ha (hunc t ht hts0)
            (hunc a ((List.takeWhile_sublist _).subset ha) has) hp'
      · -- a position of the old stack
        have hp0 : s.stack[p' - ((s.task top).deps.filter fun d => !s.computed d).reverse.length]? = some t := by
          rw [e, List.getElem?_append_right hge] at hp'; exact hp'
        refine ord_pos oi w.st w.el hm0 ht hts hse hp0 (fun a ha _ => Or.inl ?_)
        rw [e, List.take_append]
        exact List.mem_append_right _ ha
  rcases w.obl with e | ⟨t0, old', rest, ry, hc0, hp0, e, hfm⟩
  · rw [e] at hm; exact old hm
  · rw [e] at hm
    rcases List.mem_cons.1 hm with hm | hm
    · -- the obligation created by this very yield: `t` would be awaited from two places
      injection hm with h1 h2
      subst h1; subst h2
      have hstk : (step s).stack = s.stack := by
        cases sr with
        | same e' => exact e'
        | root root rest' hc _ => rw [hc0] at hc; cases hc
        | pop root base rest' top stk hc _ _ _ => rw [hc0] at hc; cases hc
        | push root base rest' top stk hc _ _ _ _ => rw [hc0] at hc; cases hc
      rw [hstk] at hp'
      obtain ⟨pa, hne, hmen⟩ := stack_mention' h hg0 hp' hts0 hc0 hp0
      exact absurd (elsewhere_of_two (w.men _ hmen) (hfm t ht) hne) hse
    · exact old hm

theorem ordInv_reach' {s : State} (h : P10.WSReach s) (hg : s.guardFired = false) : OrdInv s := by
  induction h with
  | init cfg tops choices _ => exact ordInv_init cfg tops choices
  | @step s hs ih => exact ord_step' hs hg (ih (P3.guard_mono s hg))


end AsynqModel.Core.P27
