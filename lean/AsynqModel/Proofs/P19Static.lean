import AsynqModel.Proofs.P6Static
/-
  P19, part 5: the static side conditions of the flush-count clause as an invariant of the run: no future is handed
  to a child (`Spec.bodyShares = false`: every task has `inh = []`), a single batch kind `k0` (every item and every
  batch has kind `k0`), and: a batch that is not flushed is the current batch of the kind (`BOK`).
-/
namespace AsynqModel.Core.P19
open AsynqModel.Core AsynqModel.Core.P6

/-- the program fragment hands no future to a child and creates items of kind `k0` only -/
def SB (k0 : Nat) (b : Body) : Prop := Spec.bodyShares b = false ∧ ∀ k ∈ Spec.bodyKinds b, k = k0

theorem SB_spawn {k0 : Nat} {c k : Body} {p : List Ref} (h : SB k0 (.spawn c p k)) : p = [] ∧ SB k0 c ∧ SB k0 k := by
  obtain ⟨h1, h2⟩ := h
  simp only [Spec.bodyShares, Bool.or_eq_false_iff, Bool.not_eq_false'] at h1
  simp only [Spec.bodyKinds, List.mem_append] at h2
  exact ⟨by simpa using h1.1.1, ⟨h1.1.2, fun k hk => h2 k (Or.inl hk)⟩, ⟨h1.2, fun k hk => h2 k (Or.inr hk)⟩⟩
theorem SB_item {k0 a b : Nat} {m : ItemMode} {k : Body} (h : SB k0 (.item a b m k)) : a = k0 ∧ SB k0 k := by
  obtain ⟨h1, h2⟩ := h
  simp only [Spec.bodyShares] at h1
  simp only [Spec.bodyKinds, List.mem_cons] at h2
  exact ⟨h2 a (Or.inl rfl), h1, fun k hk => h2 k (Or.inr hk)⟩
theorem SB_const {k0 a : Nat} {k : Body} (h : SB k0 (.const a k)) : SB k0 k := h
theorem SB_errfut {k0 a : Nat} {k : Body} (h : SB k0 (.errfut a k)) : SB k0 k := h
theorem SB_lazy {k0 : Nat} {a : LazyOut} {k : Body} (h : SB k0 (.lazy a k)) : SB k0 k := h
theorem SB_read {k0 a : Nat} {k : Body} (h : SB k0 (.read a k)) : SB k0 k := h
theorem SB_active {k0 : Nat} {k : Body} (h : SB k0 (.active k)) : SB k0 k := h
theorem SB_yld {k0 : Nat} {y : Y} {k h : Body} (hb : SB k0 (.yld y k h)) : SB k0 k ∧ SB k0 h := by
  obtain ⟨h1, h2⟩ := hb
  simp only [Spec.bodyShares, Bool.or_eq_false_iff] at h1
  simp only [Spec.bodyKinds, List.mem_append] at h2
  exact ⟨⟨h1.1, fun k hk => h2 k (Or.inl hk)⟩, ⟨h1.2, fun k hk => h2 k (Or.inr hk)⟩⟩
theorem SB_reyld {k0 : Nat} {k h : Body} (hb : SB k0 (.reyld k h)) : SB k0 k ∧ SB k0 h := by
  obtain ⟨h1, h2⟩ := hb
  simp only [Spec.bodyShares, Bool.or_eq_false_iff] at h1
  simp only [Spec.bodyKinds, List.mem_append] at h2
  exact ⟨⟨h1.1, fun k hk => h2 k (Or.inl hk)⟩, ⟨h1.2, fun k hk => h2 k (Or.inr hk)⟩⟩
theorem SB_withCtx {k0 : Nat} {c : CtxKind} {b k : Body} (h : SB k0 (.withCtx c b k)) : SB k0 b ∧ SB k0 k := by
  obtain ⟨h1, h2⟩ := h
  simp only [Spec.bodyShares, Bool.or_eq_false_iff] at h1
  simp only [Spec.bodyKinds, List.mem_append] at h2
  exact ⟨⟨h1.1, fun k hk => h2 k (Or.inl hk)⟩, ⟨h1.2, fun k hk => h2 k (Or.inr hk)⟩⟩

theorem SB_ret0 (k0 : Nat) : SB k0 (.ret 0) := ⟨rfl, by simp [Spec.bodyKinds]⟩

def SBV (k0 : Nat) (v : FV) : Prop := SB k0 v.body ∧ ∀ p ∈ v.conts, SB k0 p.2

theorem SBV_dview (k0 : Nat) : SBV k0 dview := ⟨SB_ret0 k0, by intro p hp; cases hp⟩

/-! ### the batch table -/

def BOK (k0 : Nat) (l : List Batch) : Prop :=
  (∀ b ∈ l, b.kind = k0) ∧ ∀ b ∈ l, b.flushed = false → ∃ cur, curBatchL l k0 = some cur ∧ b.seq = cur.seq

theorem BOK.nil (k0 : Nat) : BOK k0 [] := ⟨by simp, by simp⟩

theorem BOK.map {k0 : Nat} {l : List Batch} (h : BOK k0 l) (G : Batch → Batch)
    (hG : ∀ b, (G b).kind = b.kind ∧ (G b).seq = b.seq ∧ ((G b).flushed = false → b.flushed = false)) :
    BOK k0 (l.map G) := by
  refine ⟨?_, ?_⟩
  · intro b hb
    obtain ⟨b0, hb0, rfl⟩ := List.mem_map.1 hb
    rw [(hG b0).1]; exact h.1 b0 hb0
  · intro b hb hfl
    obtain ⟨b0, hb0, rfl⟩ := List.mem_map.1 hb
    obtain ⟨cur, hc, hs⟩ := h.2 b0 hb0 ((hG b0).2.2 hfl)
    refine ⟨G cur, ?_, ?_⟩
    · rw [curBatchL_map l G (fun b => (hG b).1), hc]; rfl
    · rw [(hG b0).2.1, (hG cur).2.1]; exact hs

theorem BOK.item {k0 : Nat} {old new : List Batch} {seq f : Nat} (h : BOK k0 old)
    (hb : ItemBatches old new k0 seq f) : BOK k0 new := by
  obtain ⟨l1, cur, hl1, hcur, hseq, hnew⟩ := hb
  have h1 : BOK k0 l1 := by
    rcases hl1 with rfl | ⟨hnone, rfl⟩
    · exact h
    · have hold : old = [] := by
        cases old with
        | nil => rfl
        | cons b l => exact absurd (h.1 b List.mem_cons_self) (curBatchL_none hnone b List.mem_cons_self)
      subst hold
      refine ⟨by simp, ?_⟩
      intro b hb _
      simp at hb
      subst hb
      exact ⟨_, by simp [curBatchL], rfl⟩
  rw [hnew]
  refine h1.map _ (fun b => ?_)
  split <;> exact ⟨rfl, rfl, id⟩

theorem BOK.flush {k0 : Nat} {old new : List Batch} {k q : Nat} (h : BOK k0 old)
    (hb : FlushBatches old new k q) : BOK k0 new := by
  obtain ⟨l1, g, hl1, hg, hnew⟩ := hb
  let F : Batch → Batch := fun b' => if b'.kind == k && b'.seq == q then g b' else b'
  have hF : ∀ b, (F b).kind = b.kind ∧ (F b).seq = b.seq ∧ ((F b).flushed = false → b.flushed = false) := by
    intro b
    show (if b.kind == k && b.seq == q then g b else b).kind = _ ∧ (if b.kind == k && b.seq == q then g b else b).seq = _ ∧
      ((if b.kind == k && b.seq == q then g b else b).flushed = false → _)
    split
    · refine ⟨(hg b).1, (hg b).2.1, fun hh => ?_⟩
      rw [(hg b).2.2] at hh; cases hh
    · exact ⟨rfl, rfl, id⟩
  have hnew' : new = l1.map F := hnew
  rcases hl1 with ⟨⟨c, hc, hcq⟩, rfl⟩ | ⟨_, rfl⟩
  · obtain ⟨hcm, hck⟩ := curBatchL_mem hc
    have hk : k = k0 := hck.symm.trans (h.1 c hcm)
    subst hk
    rw [hnew']
    refine ⟨?_, ?_⟩
    · intro b hb
      obtain ⟨b0, hb0, rfl⟩ := List.mem_map.1 hb
      rw [(hF b0).1]
      rcases List.mem_append.1 hb0 with h0 | h0
      · exact h.1 b0 h0
      · simp at h0; rw [h0]
    · intro b hb hfl
      obtain ⟨b0, hb0, rfl⟩ := List.mem_map.1 hb
      have hcurn : curBatchL ((old ++ [({ kind := k, seq := q + 1 } : Batch)]).map F) k =
          some ({ kind := k, seq := q + 1 } : Batch) := by
        rw [curBatchL_map _ F (fun b => (hF b).1), curBatchL_append]
        simp only [beq_self_eq_true, if_true, Option.map_some]
        show some (if (k == k && q + 1 == q) then _ else _) = _
        have : (q + 1 == q) = false := by simp
        simp [this]
      refine ⟨_, hcurn, ?_⟩
      rw [(hF b0).2.1]
      rcases List.mem_append.1 hb0 with h0 | h0
      · exfalso
        have hfl0 := (hF b0).2.2 hfl
        obtain ⟨cur, hcur, hs⟩ := h.2 b0 h0 hfl0
        rw [hc] at hcur; cases hcur
        have hkey : (b0.kind == k && b0.seq == q) = true := by
          simp [h.1 b0 h0, hs, hcq]
        have : F b0 = g b0 := by
          show (if b0.kind == k && b0.seq == q then g b0 else b0) = _
          rw [if_pos hkey]
        rw [this, (hg b0).2.2] at hfl
        cases hfl
      · simp at h0; rw [h0]
  · rw [hnew']
    exact h.map F hF

/-! ### the invariant -/

structure SInv (k0 : Nat) (s : State) : Prop where
  tops : ∀ p ∈ s.tops, SB k0 p.2
  fut : ∀ f, SBV k0 (view s f)
  inh : ∀ f, (view s f).inh = []
  item : ∀ f k q p m, (view s f).kind = .item k q p m → k = k0
  bat : BOK k0 s.batches

theorem sinv_init (k0 : Nat) (cfg : Cfg) (tops : List (Conv × Body)) (choices : List (Nat × Nat))
    (h : ∀ p ∈ tops, SB k0 p.2) : SInv k0 (initState cfg tops choices) := by
  have hv : ∀ f, view (initState cfg tops choices) f = dview := fun f => view_ge _ _ (Nat.zero_le _)
  refine ⟨h, fun f => by rw [hv]; exact SBV_dview k0, fun f => by rw [hv]; rfl, ?_, BOK.nil k0⟩
  intro f k q p m hk; rw [hv] at hk; cases hk

theorem SBV_bodyStep {k0 : Nat} {v v' : FV} (h : SBV k0 v) (hbs : BodyStep v v') : SBV k0 v' := by
  cases hbs with
  | same hb hc => exact ⟨hb ▸ h.1, hc ▸ h.2⟩
  | yld y k hh hb hb' hc =>
    have := SB_yld (hb ▸ h.1)
    refine ⟨?_, hc ▸ h.2⟩
    rcases hb' with e | e <;> rw [e]
    · exact this.1
    · exact this.2
  | reyld k hh hb hb' hc =>
    have := SB_reyld (hb ▸ h.1)
    refine ⟨?_, hc ▸ h.2⟩
    rcases hb' with e | e <;> rw [e]
    · exact this.1
    · exact this.2
  | withCtx c b k cid hb hb' hc =>
    have := SB_withCtx (hb ▸ h.1)
    refine ⟨hb' ▸ this.1, ?_⟩
    rw [hc]
    intro p hp
    rcases List.mem_cons.1 hp with e | e
    · rw [e]; exact this.2
    · exact h.2 p e
  | endwith cid k rest hb hc0 hb' hc =>
    refine ⟨?_, ?_⟩
    · rw [hb']; exact h.2 (cid, k) (by rw [hc0]; exact List.mem_cons_self)
    · rw [hc]; intro p hp; exact h.2 p (by rw [hc0]; exact List.mem_cons_of_mem _ hp)
  | read var k hb hb' hc => exact ⟨hb' ▸ SB_read (hb ▸ h.1), hc ▸ h.2⟩
  | active k hb hb' hc => exact ⟨hb' ▸ SB_active (hb ▸ h.1), hc ▸ h.2⟩

theorem SBV_own {k0 : Nat} {v : FV} {f : Nat} {k : Body} (h : SBV k0 v) (hk : SB k0 k) : SBV k0 (ownView v f k) :=
  ⟨hk, h.2⟩

theorem sinv_step {k0 : Nat} {s r : State} (hS : SInv k0 s) (d : Desc s r) : SInv k0 r := by
  have same : ∀ {r' : State}, Same s r' → SInv k0 r' := fun e =>
    ⟨by rw [e.tops]; exact hS.tops, fun f => by rw [e.view f]; exact hS.fut f, fun f => by rw [e.view f]; exact hS.inh f,
     fun f k q p m hk => by rw [e.view f] at hk; exact hS.item f k q p m hk, by rw [e.batches]; exact hS.bat⟩
  have upd1 : ∀ {t : Nat} {v' : FV}, Upd1S s r t v' → SBV k0 v' → v'.inh = [] →
      (∀ k q p m, v'.kind = .item k q p m → k = k0) → SInv k0 r := by
    intro t v' U h1 h2 h3
    refine ⟨by rw [U.tops]; exact hS.tops, fun f => ?_, fun f => ?_, fun f k q p m hk => ?_, by rw [U.batches]; exact hS.bat⟩
    · rcases U.view_cases f with ⟨rfl, e⟩ | ⟨_, e⟩ <;> rw [e]
      · exact h1
      · exact hS.fut f
    · rcases U.view_cases f with ⟨rfl, e⟩ | ⟨_, e⟩ <;> rw [e]
      · exact h2
      · exact hS.inh f
    · rcases U.view_cases f with ⟨rfl, e⟩ | ⟨_, e⟩ <;> rw [e] at hk
      · exact h3 k q p m hk
      · exact hS.item f k q p m hk
  have upd2 : ∀ {t : Nat} {v' nv : FV}, Upd2 s r t v' nv → BOK k0 r.batches → SBV k0 v' → v'.inh = [] →
      (∀ k q p m, v'.kind = .item k q p m → k = k0) → SBV k0 nv → nv.inh = [] →
      (∀ k q p m, nv.kind = .item k q p m → k = k0) → SInv k0 r := by
    intro t v' nv U hb h1 h2 h3 g1 g2 g3
    refine ⟨by rw [U.tops]; exact hS.tops, fun f => ?_, fun f => ?_, fun f k q p m hk => ?_, hb⟩
    · rcases U.view_cases f with ⟨rfl, e⟩ | ⟨rfl, e⟩ | ⟨_, _, e⟩ <;> rw [e]
      · exact h1
      · exact g1
      · exact hS.fut f
    · rcases U.view_cases f with ⟨rfl, e⟩ | ⟨rfl, e⟩ | ⟨_, _, e⟩ <;> rw [e]
      · exact h2
      · exact g2
      · exact hS.inh f
    · rcases U.view_cases f with ⟨rfl, e⟩ | ⟨rfl, e⟩ | ⟨_, _, e⟩ <;> rw [e] at hk
      · exact h3 k q p m hk
      · exact g3 k q p m hk
      · exact hS.item f k q p m hk
  cases d with
  | quiet e _ _ => exact same e
  | top conv body rest htops _ U htops' _ =>
    have hb : SB k0 body := hS.tops (conv, body) (by rw [htops]; exact List.mem_cons_self)
    refine ⟨?_, fun f => ?_, fun f => ?_, fun f k q p m hk => ?_, by rw [U.batches]; exact hS.bat⟩
    · intro p hp
      rw [htops'] at hp
      exact hS.tops p (by rw [htops]; exact List.mem_cons_of_mem _ hp)
    · by_cases hf : f = s.futs.length
      · subst hf; rw [U.viewN]; exact ⟨hb, by intro p hp; cases hp⟩
      · rw [U.viewO f hf]; exact hS.fut f
    · by_cases hf : f = s.futs.length
      · subst hf; rw [U.viewN]; rfl
      · rw [U.viewO f hf]; exact hS.inh f
    · by_cases hf : f = s.futs.length
      · subst hf; rw [U.viewN] at hk; cases hk
      · rw [U.viewO f hf] at hk; exact hS.item f k q p m hk
  | ret _ _ _ e _ _ => exact same e
  | enterLoop _ _ _ _ e _ _ => exact same e
  | pop _ _ _ _ _ e _ _ => exact same e
  | popLazy _ top st _ lo _ _ U _ _ => exact upd1 U (hS.fut top) (hS.inh top) (hS.item top)
  | second _ top st _ _ _ _ _ U _ _ => exact upd1 U (hS.fut top) (hS.inh top) (hS.item top)
  | first _ top st _ _ _ _ _ U _ _ => exact upd1 U (hS.fut top) (hS.inh top) (hS.item top)
  | enterGen _ _ _ _ _ _ _ e _ _ _ => exact same e
  | gen t old rest hctl0 d =>
    cases d with
    | loc v' hu _ hkind _ _ _ hinh _ _ _ _ _ hbs =>
      exact upd1 hu.toS (SBV_bodyStep (hS.fut t) hbs) (hinh ▸ hS.inh t) (fun k q p m hk => hS.item t k q p m (hkind ▸ hk))
    | spawn child k pass hb hp hu _ hbat _ _ =>
      obtain ⟨hpass, hc, hk⟩ := SB_spawn (hb ▸ (hS.fut t).1)
      refine upd2 hu (by rw [hbat]; exact hS.bat) (SBV_own (hS.fut t) hk) (hS.inh t) (hS.item t)
        ⟨hc, by intro p hp; cases hp⟩ ?_ (by intro _ _ _ _ hh; cases hh)
      rw [hpass]; rfl
    | item kind payload mode k seq hb _ hu _ hbat _ =>
      obtain ⟨hkd, hk⟩ := SB_item (hb ▸ (hS.fut t).1)
      subst hkd
      refine upd2 hu (hS.bat.item hbat) (SBV_own (hS.fut t) hk) (hS.inh t) (hS.item t) (SBV_dview _) rfl ?_
      intro a b c e hh
      have hh' : FKind.item kind seq payload mode = .item a b c e := hh
      injection hh' with e1
      exact e1.symm
    | other k kd out hb _ hu _ hbat _ hkd =>
      have hk : SB k0 k := by
        rcases hb with ⟨a, hb⟩ | ⟨a, hb⟩ | ⟨a, hb⟩
        · exact SB_const (hb ▸ (hS.fut t).1)
        · exact SB_errfut (hb ▸ (hS.fut t).1)
        · exact SB_lazy (hb ▸ (hS.fut t).1)
      refine upd2 hu (by rw [hbat]; exact hS.bat) (SBV_own (hS.fut t) hk) (hS.inh t) (hS.item t) (SBV_dview _) rfl ?_
      intro a b c e hh
      have hh' : kd = .item a b c e := hh
      rcases hkd with ⟨h1, _⟩ | ⟨h1, _⟩ | ⟨⟨o, h1⟩, _⟩ <;> rw [h1] at hh' <;> cases hh'
    | yield ry npy nd leave _ _ _ _ hu _ => exact upd1 hu.toS (hS.fut t) (hS.inh t) (hS.item t)
    | finish o _ hu _ =>
      exact upd1 hu.toS ⟨(hS.fut t).1, by intro p hp; cases hp⟩ (hS.inh t) (hS.item t)
  | flush _ _ _ _ _ _ F _ =>
    have hb : BOK k0 r.batches := by
      rcases F.batches with hb | ⟨k, q, b, _, _, hfb⟩
      · rw [hb]; exact hS.bat
      · exact hS.bat.flush hfb
    refine ⟨by rw [F.tops]; exact hS.tops, fun f => ?_, fun f => ?_, fun f k q p m hk => ?_, hb⟩
    · rcases F.view f with e | ⟨_, o, e⟩ <;> rw [e]
      · exact hS.fut f
      · exact hS.fut f
    · rcases F.view f with e | ⟨_, o, e⟩ <;> rw [e]
      · exact hS.inh f
      · exact hS.inh f
    · rcases F.view f with e | ⟨_, o, e⟩ <;> rw [e] at hk
      · exact hS.item f k q p m hk
      · exact hS.item f k q p m hk

end AsynqModel.Core.P19
