import AsynqModel.Proofs.P22Gen
/-!
# P22, part 7: the instructions of a task body that allocate nothing, call nothing and keep the open with-blocks:
# the first `send`, the resumption after a yield, `read`, `active`, the return of a synchronous call
-/
namespace AsynqModel.Core.P22
open AsynqModel.Core AsynqModel.Core.P22.SeqSV

/-- `rest` before = `mid ++ rest` after, from the same equation on the current body, when the open with-blocks and the
    `own` list stay -/
theorem split_same {cfg : Cfg} {tops : List (Conv × Body)} {s r : State} {g g' : Ghost} {t : Nat}
    (hS : Sim cfg tops s g) (hB : Bnd s) (L : Lm s r t) (hlen : r.futs.length = s.futs.length) (hgt : g' t ≠ none)
    (hkt : (s.fut t).kind = .task) (hown : (r.task t).own = (s.task t).own) (hinh : (r.task t).inh = (s.task t).inh)
    (hconts : (r.task t).conts = (s.task t).conts)
    (hcs : s.computed t = false) (hcr : r.computed t = false) (E : SvEnv) (mid : List Act)
    (hhead : headD cfg (envOf s E (cids (s.task t))) (fun f => (s.fut f).den) ((s.task t).pending && (s.task t).started)
        (s.task t).body [] (locOf s g (s.task t)) =
      (mid ++ (headD cfg (envOf s E (cids (s.task t))) (fun f => (s.fut f).den)
        ((r.task t).pending && (r.task t).started) (r.task t).body []
        ⟨(r.task t).env, Inv.dens s (s.task t).own, (s.task t).own.map (kidOf s g'), (r.task t).caught,
          (r.task t).prevYRef⟩).1,
       (headD cfg (envOf s E (cids (s.task t))) (fun f => (s.fut f).den)
        ((r.task t).pending && (r.task t).started) (r.task t).body []
        ⟨(r.task t).env, Inv.dens s (s.task t).own, (s.task t).own.map (kidOf s g'), (r.task t).caught,
          (r.task t).prevYRef⟩).2)) :
    rest cfg s g t E = mid ++ rest cfg r g' t E := by
  have hcid : cids (r.task t) = cids (s.task t) := by unfold cids; rw [hconts]
  have hE : envOf r E (cids (r.task t)) = envOf s E (cids (s.task t)) := by
    rw [hcid]; exact envOf_lm L E (hB.conts t)
  rw [rest_before hS hkt hcs, rest_after hS hB L hlen hgt hkt hown hinh hcr, hE, hhead, hconts]
  simp only [List.append_assoc]
  congr 2
  exact (runFrames_congr cfg E [] _ _ (fun c hc => ovOf_of_kindOf (L.kinds c (hB.conts t c hc)))).symm

theorem task_updTask_self' (s : State) (t : Nat) (f : TaskSt → TaskSt) (h : t < s.futs.length) :
    (s.updTask t f).task t = f (s.task t) := by
  unfold State.task; rw [P4.fut_updTask_self s t f h]

theorem mreads_cons_none {t : Nat} {e : Event} {tr : List Event} (h : rdEv t e = none) :
    mreads t (e :: tr) = mreads t tr := by
  rw [mreads_cons, h]; simp

/-- the common part: a move of `t` that emits no read, calls nothing, keeps `own`, `conts`, `deps`-called -/
theorem sim_plain {cfg : Cfg} {tops : List (Conv × Body)} {s r : State} {g : Ghost} {t : Nat} {old : Option Nat}
    {rest' : List Ctl} (C : GC cfg tops s g t old rest') (hst : (s.genStep t old).stuck = none)
    (L : Lm s r t) (hlen : r.futs.length = s.futs.length)
    (hown : (r.task t).own = (s.task t).own) (hinh : (r.task t).inh = (s.task t).inh)
    (hconts : (r.task t).conts = (s.task t).conts)
    (hstd : (r.task t).started = true) (hcr : r.computed t = false)
    (mid : SvEnv → List Act)
    (hrd : ∀ ip, g t = some ip → mreads t r.trace = mreads t s.trace ++ (reads (mid ip.E)).map rdVal)
    (hmidc : ∀ E i c ci E', Act.call i c ci E' ∉ mid E)
    (hbody : nsBC (r.task t).body (r.task t).conts)
    (hsync : ∀ f k h, (r.task t).body = .syncret f k h → (s.task t).body = .syncret f k h)
    (hdeps : ∀ d, d ∈ (r.task t).deps → d ∈ (s.task t).deps ∨ d ∈ (s.task t).prevY.leaves)
    (hprev : (r.task t).prevY = (s.task t).prevY)
    (hhead : ∀ E, headD cfg (envOf s E (cids (s.task t))) (fun f => (s.fut f).den)
        ((s.task t).pending && (s.task t).started) (s.task t).body [] (locOf s g (s.task t)) =
      (mid E ++ (headD cfg (envOf s E (cids (s.task t))) (fun f => (s.fut f).den)
        ((r.task t).pending && (r.task t).started) (r.task t).body []
        ⟨(r.task t).env, Inv.dens s (s.task t).own, (s.task t).own.map (kidOf s g), (r.task t).caught,
          (r.task t).prevYRef⟩).1,
       (headD cfg (envOf s E (cids (s.task t))) (fun f => (s.fut f).den)
        ((r.task t).pending && (r.task t).started) (r.task t).body []
        ⟨(r.task t).env, Inv.dens s (s.task t).own, (s.task t).own.map (kidOf s g), (r.task t).caught,
          (r.task t).prevYRef⟩).2)) :
    Sim cfg tops r g := by
  obtain ⟨ip, hip⟩ := C.info
  have hkd : ∀ d, (r.fut d).kind = .task → d < s.futs.length → (s.fut d).kind = .task := by
    intro d hk hd; rw [← (L.fut d hd).1]; exact hk
  refine sim_upd C.sim C.bnd (mkUpd_same (mid := mid ip.E) C hst hip L hlen hown hstd (fun _ _ h => h) ?_ ?_ ?_
    (fun i c ci E' h => absurd h (hmidc ip.E i c ci E')) ?_ ?_ hbody ?_ ?_ ?_)
  · intro u iu h1 h2; rw [h1] at h2; cases h2
  · exact split_same C.sim C.bnd L hlen C.called C.kt hown hinh hconts C.nct hcr ip.E (mid ip.E) (hhead ip.E)
  · exact hrd ip hip
  · intro i u _ h1 h2; exact absurd h1 h2
  · rw [hinh]; exact C.sim.inh t C.kt
  · intro f k h hb _
    have hb' := hsync f k h hb
    obtain ⟨h1, h2⟩ := C.sim.sync t f k h C.kt hb' C.nct
    refine ⟨by rw [hown]; exact h1, fun hk => h2 (hkd f hk (C.bnd.own t f h1))⟩
  · intro d hd hk
    rcases hdeps d hd with hd' | hd'
    · exact C.sim.depsCalled t d C.kt hd' (hkd d hk (C.bnd.deps t d hd'))
    · exact C.sim.prevCalled t d C.kt hd' (hkd d hk (C.bnd.prevY t d hd'))
  · intro d hd hk
    rw [hprev] at hd
    exact C.sim.prevCalled t d C.kt hd (hkd d hk (C.bnd.prevY t d hd))

variable {cfg : Cfg} {tops : List (Conv × Body)} {s : State} {g : Ghost} {t : Nat} {old : Option Nat} {rest' : List Ctl}

theorem task_emit (x : State) (e : Event) (u : Nat) : (x.emit e).task u = x.task u := rfl
theorem computed_emit (x : State) (e : Event) (u : Nat) : (x.emit e).computed u = x.computed u := rfl

/-- the first `send(None)` -/
theorem sim_start (C : GC cfg tops s g t old rest') (hst : (s.genStep t old).stuck = none)
    (hp : (s.task t).pending = true) (hs : (s.task t).started = false) : Sim cfg tops (s.genStep t old) g := by
  have e : s.genStep t old = (s.updTask t fun ts =>
      { ts with pending := false, started := true, lastY := .none, deps := [] }).emit (.run t 0 true .start) := by
    unfold State.genStep
    simp only [hp, hs, Bool.not_false, if_true]
  have hst' := hst
  rw [e] at hst' ⊢
  have ht : ((s.updTask t fun ts =>
      { ts with pending := false, started := true, lastY := .none, deps := [] }).emit (.run t 0 true .start)).task t =
      { s.task t with pending := false, started := true, lastY := .none, deps := [] } :=
    (task_emit _ _ _).trans (task_updTask_self' s t _ C.lt)
  refine sim_plain C hst ((lm_updTask s t _).trans (lm_emit _ t _ rfl)) (by simp) ?_ ?_ ?_ ?_ ?_ (fun _ => []) ?_
    (by simp) ?_ ?_ ?_ ?_ ?_
  · rw [ht]
  · rw [ht]
  · rw [ht]
  · rw [ht]
  · rw [computed_emit, P2.computed_updTask]; exact C.nct
  · intro _ _; exact (mreads_cons_none (tr := s.trace) rfl).trans (by simp)
  · rw [ht]; exact C.sim.nsB t C.kt
  · intro f k h hb; rw [ht] at hb; exact hb
  · intro d hd; rw [ht] at hd; cases hd
  · rw [ht]
  · intro E
    rw [ht]
    simp only [hp, hs, Bool.and_false, Bool.and_true, List.nil_append]
    rfl

theorem dens_nil (x : State) : Inv.dens x [] = [] := rfl

/-- resuming a task suspended at `yld` / `reyld` with the unwrapped value (or exception) -/
theorem sim_resume (C : GC cfg tops s g t old rest') (hst : (s.genStep t old).stuck = none)
    (hp : (s.task t).pending = true) (hs : (s.task t).started = true) (k h : Body)
    (hb : (∃ y, (s.task t).body = .yld y k h) ∨ (s.task t).body = .reyld k h)
    (i : Nat) (e : Event) (he : rdEv t e = none ∧ lmEv t e = true) (d : TaskSt → List Nat)
    (hd : ∀ x, x ∈ d (s.task t) → x ∈ (s.task t).deps) :
    Sim cfg tops (match unwrap s.out (s.task t).lastY with
      | .ok v => (s.updTask t fun ts =>
          ({ ts with pending := false, lastY := .none, deps := d ts, resumes := i,
                     env := ts.env ++ [v], body := k } : TaskSt)).emit e
      | .error x => (s.updTask t fun ts =>
          ({ ts with pending := false, lastY := .none, deps := d ts, resumes := i,
                     caught := some x, body := h } : TaskSt)).emit e) g := by
  have hu := P4.resume_unwrap C.good C.hctl hp hs
  have hi0 : (s.task t).inh = [] := C.sim.inh t C.kt
  have hu' : unwrap s.out (s.task t).lastY = unwrap (resolveO (Inv.dens s (s.task t).own) []) (s.task t).prevYRef := by
    have := hu
    simp only [← task_eq] at this
    rw [this, hi0]; rfl
  have hnb := C.sim.nsB t C.kt
  have hkh : ns k = true ∧ ns h = true := by
    rcases hb with ⟨y, hb⟩ | hb
    · have := nsBC_body hnb (by rw [hb]; intro _ _ _; nofun)
      rw [hb] at this; simpa [ns] using this
    · have := nsBC_body hnb (by rw [hb]; intro _ _ _; nofun)
      rw [hb] at this; simpa [ns] using this
  have hsy : (∀ f k' c, k ≠ .syncret f k' c) ∧ (∀ f k' c, h ≠ .syncret f k' c) := by
    rcases hb with ⟨y, hb⟩ | hb
    · have hws := C.ws (by rw [hb]; intro _ _ _; nofun)
      rw [hb] at hws
      simp only [P4.ws, Bool.and_eq_true] at hws
      exact ⟨P4.ws_not_syncret hws.1.2, P4.ws_not_syncret hws.2⟩
    · have hws := C.ws (by rw [hb]; intro _ _ _; nofun)
      rw [hb] at hws
      simp only [P4.ws, Bool.and_eq_true] at hws
      exact ⟨P4.ws_not_syncret hws.1, P4.ws_not_syncret hws.2⟩
  -- the head of the suspended task
  have hhd : ∀ E, headD cfg (envOf s E (cids (s.task t))) (fun f => (s.fut f).den)
        ((s.task t).pending && (s.task t).started) (s.task t).body [] (locOf s g (s.task t)) =
      match unwrap s.out (s.task t).lastY with
      | .ok v => runBody cfg k (envOf s E (cids (s.task t))) [] { locOf s g (s.task t) with env := (s.task t).env ++ [v] }
      | .error x => runBody cfg h (envOf s E (cids (s.task t))) [] { locOf s g (s.task t) with caught := some x } := by
    intro E
    rw [hu']
    simp only [hp, hs, Bool.and_true]
    rcases hb with ⟨y, hb⟩ | hb
    · rw [hb]; unfold headD; simp only [if_true]; rfl
    · rw [hb]; unfold headD; simp only [if_true]; rfl
  cases hr : unwrap s.out (s.task t).lastY with
  | ok v =>
    simp only []
    have ht : ((s.updTask t fun ts =>
        ({ ts with pending := false, lastY := .none, deps := d ts, resumes := i,
                   env := ts.env ++ [v], body := k } : TaskSt)).emit e).task t =
        { s.task t with pending := false, lastY := .none, deps := d (s.task t), resumes := i,
                        env := (s.task t).env ++ [v], body := k } :=
      (task_emit _ _ _).trans (task_updTask_self' s t _ C.lt)
    refine sim_plain C hst ((lm_updTask s t _).trans (lm_emit _ t _ he.2)) (by simp) ?_ ?_ ?_ ?_ ?_ (fun _ => []) ?_
      (by simp) ?_ ?_ ?_ ?_ ?_
    · rw [ht]
    · rw [ht]
    · rw [ht]
    · rw [ht]; exact hs
    · rw [computed_emit, P2.computed_updTask]; exact C.nct
    · intro _ _; exact (mreads_cons_none (tr := s.trace) he.1).trans (by simp)
    · rw [ht]; exact nsBC_plain hkh.1 hsy.1 hnb.2
    · intro f k' h' hb'; rw [ht] at hb'; exact absurd hb' (hsy.1 f k' h')
    · intro x hx; rw [ht] at hx; exact Or.inl (hd x hx)
    · rw [ht]
    · intro E
      rw [hhd E, hr, ht]
      simp only [hs, Bool.false_and, List.nil_append]
      unfold headD
      simp only [Bool.false_eq_true, if_false]
      split
      · exact absurd rfl (hsy.1 _ _ _)
      · rfl
  | error x =>
    simp only []
    have ht : ((s.updTask t fun ts =>
        ({ ts with pending := false, lastY := .none, deps := d ts, resumes := i,
                   caught := some x, body := h } : TaskSt)).emit e).task t =
        { s.task t with pending := false, lastY := .none, deps := d (s.task t), resumes := i,
                        caught := some x, body := h } :=
      (task_emit _ _ _).trans (task_updTask_self' s t _ C.lt)
    refine sim_plain C hst ((lm_updTask s t _).trans (lm_emit _ t _ he.2)) (by simp) ?_ ?_ ?_ ?_ ?_ (fun _ => []) ?_
      (by simp) ?_ ?_ ?_ ?_ ?_
    · rw [ht]
    · rw [ht]
    · rw [ht]
    · rw [ht]; exact hs
    · rw [computed_emit, P2.computed_updTask]; exact C.nct
    · intro _ _; exact (mreads_cons_none (tr := s.trace) he.1).trans (by simp)
    · rw [ht]; exact nsBC_plain hkh.2 hsy.2 hnb.2
    · intro f k' h' hb'; rw [ht] at hb'; exact absurd hb' (hsy.2 f k' h')
    · intro x' hx; rw [ht] at hx; exact Or.inl (hd x' hx)
    · rw [ht]
    · intro E
      rw [hhd E, hr, ht]
      simp only [hs, Bool.false_and, List.nil_append]
      unfold headD
      simp only [Bool.false_eq_true, if_false]
      split
      · exact absurd rfl (hsy.2 _ _ _)
      · rfl

end AsynqModel.Core.P22
