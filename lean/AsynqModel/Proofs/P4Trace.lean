import AsynqModel.Proofs.P4Reach
/-!
  P4, second layer: invariants that tie the trace to the heap (`TI`): every `done f o` event carries the denotation
  of `f`, every `run .. (out o)` event delivers the sequential unwrapping of the structure of the matching `yield`
  event, and every `ret` event closes the top-level computation announced by the last `top` event with `evalTop`.
  `Irr s s'` ("irrelevant move") is the frame relation for this layer.
-/
namespace AsynqModel.Core.P4
open AsynqModel.Core

/-- the last `top` event of a trace (newest first) -/
def lastTop : List Event → Option (Nat × Conv)
  | [] => none
  | .top i c :: _ => some (i, c)
  | _ :: rest => lastTop rest

/-- the results of the top-level computations recorded in a trace (newest first): index, convention, outcome -/
def results : List Event → List (Nat × Conv × Outcome)
  | [] => []
  | .ret o :: rest =>
    (match lastTop rest with
     | some (i, c) => [(i, c, o)]
     | none => []) ++ results rest
  | _ :: rest => results rest

def _root_.AsynqModel.Core.Outcome.toExcept : Outcome → Except Err Val
  | .ok v => .ok v
  | .err e => .error e

/-- the denotations as a lookup function for `unwrap` -/
def denLook (s : State) (g : Nat) : Option Outcome := some (s.fut g).den

def irrEv (s : State) : Event → Prop
  | .ret _ => False
  | .top _ _ => False
  | .yield _ _ _ => False
  | .run _ _ _ (.out _) => False
  | .done f o => f < s.futs.length ∧ (s.fut f).den = o
  | _ => True

theorem irrEv_of_okEv {s : State} {e : Event} (h : okEv s e) : irrEv s e := by
  cases e <;> simp_all [okEv, irrEv]

theorem lastTop_append_irr (s : State) (evs tr : List Event) (h : ∀ e ∈ evs, irrEv s e) :
    lastTop (evs ++ tr) = lastTop tr := by
  induction evs with
  | nil => rfl
  | cons e evs ih =>
    have he := h e (List.mem_cons_self ..)
    have := ih (fun e' he' => h e' (List.mem_cons_of_mem _ he'))
    cases e <;> simp_all [lastTop, irrEv]

theorem results_append_irr (s : State) (evs tr : List Event) (h : ∀ e ∈ evs, irrEv s e) :
    results (evs ++ tr) = results tr := by
  induction evs with
  | nil => rfl
  | cons e evs ih =>
    have he := h e (List.mem_cons_self ..)
    have := ih (fun e' he' => h e' (List.mem_cons_of_mem _ he'))
    cases e <;> simp_all [results, irrEv]

structure Irr (s s' : State) : Prop where
  cfg : s'.cfg = s.cfg
  len : s.futs.length ≤ s'.futs.length
  den : ∀ f, f < s.futs.length → (s'.fut f).den = (s.fut f).den
  kind : ∀ f, f < s.futs.length → (s'.fut f).kind = (s.fut f).kind
  outMono : ∀ f o, (s.fut f).out = some o → (s'.fut f).out = some o
  susp : ∀ t, (s'.fut t).kind = .task → (s'.fut t).out = none → (s'.fut t).ts.pending = true →
    (s'.fut t).ts.started = true →
    (s.fut t).kind = .task ∧ (s.fut t).out = none ∧ (s.fut t).ts.pending = true ∧ (s.fut t).ts.started = true ∧
    (s'.fut t).ts.resumes = (s.fut t).ts.resumes ∧ (s'.fut t).ts.lastY = (s.fut t).ts.lastY
  trace : ∃ evs, s'.trace = evs ++ s.trace ∧ ∀ e ∈ evs, irrEv s' e
  tops : s'.tops = s.tops
  topIdx : s'.topIdx = s.topIdx
  curTop : s'.curTop = s.curTop

theorem irrEv_mono {s s' : State} (a : Irr s s') {e : Event} (h : irrEv s e) : irrEv s' e := by
  cases e with
  | done f o =>
    simp only [irrEv] at h ⊢
    exact ⟨Nat.lt_of_lt_of_le h.1 a.len, by rw [a.den f h.1]; exact h.2⟩
  | run t i dc r => cases r <;> simp_all [irrEv]
  | _ => simp_all [irrEv]

theorem Irr.refl (s : State) : Irr s s :=
  ⟨rfl, Nat.le_refl _, fun _ _ => rfl, fun _ _ => rfl, fun _ _ h => h,
   fun _ h1 h2 h3 h4 => ⟨h1, h2, h3, h4, rfl, rfl⟩, ⟨[], rfl, nofun⟩, rfl, rfl, rfl⟩

theorem Irr.trans {s t u : State} (a : Irr s t) (b : Irr t u) : Irr s u := by
  refine ⟨b.cfg.trans a.cfg, Nat.le_trans a.len b.len,
    fun f hf => (b.den f (Nat.lt_of_lt_of_le hf a.len)).trans (a.den f hf),
    fun f hf => (b.kind f (Nat.lt_of_lt_of_le hf a.len)).trans (a.kind f hf),
    fun f o h => b.outMono f o (a.outMono f o h), ?_, ?_, b.tops.trans a.tops, b.topIdx.trans a.topIdx,
    b.curTop.trans a.curTop⟩
  · intro x h1 h2 h3 h4
    obtain ⟨b1, b2, b3, b4, b5, b6⟩ := b.susp x h1 h2 h3 h4
    obtain ⟨a1, a2, a3, a4, a5, a6⟩ := a.susp x b1 b2 b3 b4
    exact ⟨a1, a2, a3, a4, b5.trans a5, b6.trans a6⟩
  · obtain ⟨e1, h1, k1⟩ := a.trace
    obtain ⟨e2, h2, k2⟩ := b.trace
    refine ⟨e2 ++ e1, by rw [h2, h1, List.append_assoc], ?_⟩
    intro e he
    rcases List.mem_append.1 he with he | he
    · exact k2 e he
    · exact irrEv_mono b (k1 e he)

end AsynqModel.Core.P4
