import AsynqModel.Proofs.P22GenD
/-!
# P22, part 11: `sync` - a task is created and called at once (`child.asynq(...).value()`)
-/
namespace AsynqModel.Core.P22
open AsynqModel.Core AsynqModel.Core.P22.SeqSV

variable {cfg : Cfg} {tops : List (Conv × Body)} {s : State} {g : Ghost} {t : Nat} {old : Option Nat} {rest' : List Ctl}

/-- the ghost after the synchronous call of the new future `f` -/
def syncG (g : Ghost) (f : Nat) (i : Info) : Ghost := fun u => if u = f then some i else g u

theorem dens_length (x : State) (l : List Nat) : (Inv.dens x l).length = l.length := by simp [Inv.dens]

theorem sim_sync (C : GC cfg tops s g t old rest') (hst : (s.genStep t old).stuck = none)
    (hp : (s.task t).pending = false) (child : Body) (pass : List Ref) (k h : Body)
    (hb : (s.task t).body = .sync child pass k h) : ∃ g', Sim cfg tops (s.genStep t old) g' ∧ GExt g g' := by
  obtain ⟨ip, hip⟩ := C.info
  have hstd := C.started_of_running hp
  have hnb := C.sim.nsB t C.kt
  have hns : pass = [] ∧ ns child = true ∧ ns k = true ∧ ns h = true := by
    have := nsBC_body hnb (by rw [hb]; intro _ _ _; nofun)
    rw [hb] at this
    simp only [ns, Bool.and_eq_true, List.isEmpty_iff] at this
    exact ⟨this.1.1.1, this.1.1.2, this.1.2, this.2⟩
  obtain ⟨hpass, hnc, hnk, hnh⟩ := hns
  subst hpass
  have hcsy : ∀ f k' c, child ≠ .syncret f k' c := by
    have hws := C.ws (by rw [hb]; intro _ _ _; nofun)
    rw [hb] at hws
    simp only [P4.ws, Bool.and_eq_true] at hws
    exact P4.ws_not_syncret hws.1.1.2
  -- the step
  obtain ⟨r0, hr0⟩ : ∃ r0 : State, r0 = ((s.alloc (spawnFut s child) (.task s.active)).1.updTask t fun ts =>
      { ts with own := ts.own ++ [s.futs.length], body := .syncret s.futs.length k h }).emit (.syncE t s.futs.length) :=
    ⟨_, rfl⟩
  obtain ⟨r, hr⟩ : ∃ r : State, r = { r0 with ctl := .waitEnter s.futs.length :: r0.ctl } := ⟨_, rfl⟩
  have e : s.genStep t old = r := by
    rw [hr, hr0]
    unfold State.genStep
    simp only [hp, hb, Bool.false_eq_true, if_false, List.map_nil]
    rfl
  rw [e]
  have hne : s.futs.length ≠ t := Nat.ne_of_gt C.lt
  have hfut : ∀ u, r.fut u = r0.fut u := by rw [hr]; intro u; rfl
  have htask : ∀ u, r.task u = r0.task u := by rw [hr]; intro u; rfl
  have hfx : r.fut s.futs.length = spawnFut s child := by
    rw [hfut, hr0, P4.fut_emit, P4.fut_updTask_ne _ t _ _ hne, P4.fut_alloc_self]
  have ht0 : r.task t = { s.task t with own := (s.task t).own ++ [s.futs.length], body := .syncret s.futs.length k h } := by
    rw [htask, hr0, task_emit]
    rw [task_updTask_self' _ t _ (by simp; exact Nat.lt_succ_of_lt C.lt), task_alloc_lt _ _ _ _ C.lt]
  have L : Lm s r t := by
    rw [hr]
    refine Lm.trans ?_ (Lm.of_eq (s := r0) t rfl rfl rfl rfl rfl rfl rfl)
    rw [hr0]
    exact ((lm_alloc s t _ _ (by rw [C.active]; intro h'; cases h')).trans (lm_updTask _ t _)).trans (lm_emit _ t _ rfl)
  have hcr : r.computed t = false := by
    have : r.computed t = r0.computed t := by rw [hr]; rfl
    rw [this, hr0, computed_emit, P2.computed_updTask, computed_alloc_lt _ _ _ _ C.lt]; exact C.nct
  have hlen : r.futs.length = s.futs.length + 1 := by
    have : r.futs = r0.futs := by rw [hr]
    rw [this, hr0]; simp
  have htr : r.trace = .syncE t s.futs.length :: .new s.futs.length (.task s.active) :: s.trace := by
    have : r.trace = r0.trace := by rw [hr]
    rw [this, hr0]; rfl
  have hgl : g s.futs.length = none := g_none_of_ge C.sim (Nat.le_refl _)
  have hcid : cids (r.task t) = cids (s.task t) := by rw [ht0]; rfl
  have hE : envOf r ip.E (cids (r.task t)) = envOf s ip.E (cids (s.task t)) := by
    rw [hcid]; exact envOf_lm L ip.E (C.bnd.conts t)
  obtain ⟨inf, hinf⟩ : ∃ inf : Info,
      inf = ⟨ip.k, ip.ρ ++ [(s.task t).own.length], child, [], envOf s ip.E (cids (s.task t))⟩ := ⟨_, rfl⟩
  have hg'old : ∀ u, u < s.futs.length → syncG g s.futs.length inf u = g u := by
    intro u hu; unfold syncG; rw [if_neg (by omega)]
  have hkd : ∀ d, (r.fut d).kind = .task → d < s.futs.length → (s.fut d).kind = .task := by
    intro d hk hd; rw [← (L.fut d hd).1]; exact hk
  have hmono : ∀ d, g d ≠ none → syncG g s.futs.length inf d ≠ none := by
    intro d hd
    unfold syncG
    split
    · intro h'; cases h'
    · exact hd
  have hext : GExt g (syncG g s.futs.length inf) := by
    intro u iu hg
    unfold syncG
    rw [if_neg (by intro e'; rw [e', hgl] at hg; cases hg)]; exact hg
  have hmc : ∀ i c ci E', Act.call i c ci E' ∈ [Act.call (s.task t).own.length child [] (envOf s ip.E (cids (s.task t)))] →
      ∃ v iv, (r.task t).own[i]? = some v ∧ syncG g s.futs.length inf v = some iv ∧ iv.b = c ∧ iv.inh = ci ∧ iv.E = E' := by
    intro i c ci E' hm
    simp only [List.mem_singleton] at hm
    injection hm with e1 e2 e3 e4
    subst e1 e2 e3 e4
    refine ⟨s.futs.length, inf, by rw [ht0]; simp, by unfold syncG; simp, ?_, ?_, ?_⟩ <;> rw [hinf]
  refine ⟨syncG g s.futs.length inf, sim_upd C.sim C.bnd (mkUpd_alloc
    (mid := [.call (s.task t).own.length child [] (envOf s ip.E (cids (s.task t)))]) C hst hip L hlen ?_ ?_ ?_ hcr
    ?_ ?_ ?_ ?_ hmc ?_ ?_ ?_ ?_ ?_ ?_), hext⟩
  · right; exact ⟨child, by rw [hfx]; exact spawnFut_new s hnc hcsy⟩
  · rw [ht0]
  · rw [ht0]; exact hstd
  · intro u iu hg
    unfold syncG
    rw [if_neg (by intro e'; rw [e', hgl] at hg; cases hg)]; exact hg
  · intro u iu hg hg'
    unfold syncG at hg'
    split at hg'
    · next hu =>
      have hi : iu = inf := (Option.some.inj hg').symm
      subst hu
      refine ⟨rfl, by rw [hfx]; rfl, ?_, by rw [hi, hinf], by rw [hi, hinf], ?_, ?_, ?_, ?_⟩
      · show (r.fut s.futs.length).ts.started = false; rw [hfx]; rfl
      · show iu.b = (r.fut s.futs.length).ts.body; rw [hfx, hi, hinf]; rfl
      · show iu.inh = Inv.dens _ (r.fut s.futs.length).ts.inh; rw [hfx, hi, hinf]; rfl
      · rw [hi, hinf]; exact hE.symm
      · rw [hi, hinf]; simp
    · rw [hg] at hg'; cases hg'
  · -- split
    rw [rest_before C.sim C.kt C.nct,
      rest_after_alloc C.sim C.bnd L (hmono t C.called) C.kt (by rw [ht0]) (by rw [ht0]) hcr, hE]
    have hconts : (r.task t).conts = (s.task t).conts := by rw [ht0]
    rw [hconts, runFrames_congr cfg ip.E [] _ _ (fun c hc => ovOf_of_kindOf (L.kinds c (C.bnd.conts t c hc)))]
    have hkids : (s.task t).own.map (kidOf s (syncG g s.futs.length inf)) = (s.task t).own.map (kidOf s g) := by
      apply List.map_congr_left
      intro f hf
      unfold kidOf
      rw [hg'old f (C.bnd.own t f hf)]
    have hkn : kidOf r (syncG g s.futs.length inf) s.futs.length = none := by
      unfold kidOf syncG; simp
    have hh : headD cfg (envOf s ip.E (cids (s.task t))) (fun f => (s.fut f).den)
          ((s.task t).pending && (s.task t).started) (s.task t).body [] (locOf s g (s.task t)) =
        (.call (s.task t).own.length child [] (envOf s ip.E (cids (s.task t))) ::
          (headD cfg (envOf s ip.E (cids (s.task t))) (fun f => (r.fut f).den)
            ((r.task t).pending && (r.task t).started) (r.task t).body []
            ⟨(r.task t).env, Inv.dens s (s.task t).own ++ [(r.fut s.futs.length).den],
              (s.task t).own.map (kidOf s g) ++ [none], (r.task t).caught, (r.task t).prevYRef⟩).1,
         (headD cfg (envOf s ip.E (cids (s.task t))) (fun f => (r.fut f).den)
            ((r.task t).pending && (r.task t).started) (r.task t).body []
            ⟨(r.task t).env, Inv.dens s (s.task t).own ++ [(r.fut s.futs.length).den],
              (s.task t).own.map (kidOf s g) ++ [none], (r.task t).caught, (r.task t).prevYRef⟩).2) := by
      rw [ht0, hfx]
      simp only [hp, hb, Bool.false_and]
      rw [headD_plain _ _ _ _ _ _ (by intro _ _ _; nofun)]
      unfold headD
      simp only [Bool.false_eq_true, if_false, runBody, List.map_nil, hfx, spawnFut, C.cfgEq, dens_nil]
      unfold locOf
      simp only [dens_length]
      generalize (evalBody cfg child [] [] [] none .none).outcome = o
      cases o <;> rfl
    rw [hh, hkids, hkn]
    rfl
  · rw [htr, mreads_cons_none rfl, mreads_cons_none rfl]
    simp
  · intro _
    right
    exact ⟨by rw [ht0]; exact hp, k, h, by rw [ht0]⟩
  · rw [ht0]; exact C.sim.inh t C.kt
  · rw [ht0]; exact ⟨⟨hnk, hnh⟩, hnb.2⟩
  · intro f k' h' hb'
    rw [ht0] at hb'
    injection hb' with e1 _ _
    subst e1
    refine ⟨?_, fun _ => ?_⟩
    · rw [ht0]; simp
    · unfold syncG; simp
  · intro d hd hk
    rw [ht0] at hd
    exact hmono d (C.sim.depsCalled t d C.kt hd (hkd d hk (C.bnd.deps t d hd)))
  · intro d hd hk
    rw [ht0] at hd
    exact hmono d (C.sim.prevCalled t d C.kt hd (hkd d hk (C.bnd.prevY t d hd)))

end AsynqModel.Core.P22
