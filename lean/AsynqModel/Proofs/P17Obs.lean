import AsynqModel.Proofs.P13Obs
import AsynqModel.Proofs.P7Lifo
/-!
  P17 (the executable observer `Spec.checkC07` accepts every trace of the machine), part 1: the observer alone.

  * `checkRead` / `checkRest`: the clause "scoped-read-differs-from-sequential" and all the other clauses of
    `Spec.checkC07`; `acc_split`: the observer accepts a trace iff both parts do;
  * `acc_iff_suffix`: acceptance as a statement about every event of the trace and the observer state below it;
  * `ctxStack_of_lifo`: on a well-bracketed trace (`P7.lifo`) the observer's stack of resumed contexts is the stack
    `P7.lifo` computes;
  * `lifo_mem_word`: a context on that stack was resumed last.
  Nothing here mentions the machine.
-/
namespace AsynqModel.Core.P17
open AsynqModel.Core AsynqModel.Core.Spec AsynqModel.Core.P13

/-- the clause of `checkC07` about `.read` events -/
def checkRead (c : Ctx) (w : Watch) : Event → Option String
  | .read t var v => checkC07 c w (.read t var v)
  | _ => none

/-- `checkC07` without the clause about `.read` events -/
def checkRest (c : Ctx) (w : Watch) : Event → Option String
  | .read _ _ _ => none
  | e => checkC07 c w e

theorem checkC07_none_iff (c : Ctx) (w : Watch) (e : Event) :
    checkC07 c w e = none ↔ checkRead c w e = none ∧ checkRest c w e = none := by
  cases e <;> simp [checkRead, checkRest]

theorem ite_msg (b : Bool) (x m : String) (h : (if b = true then some x else none) = some m) : m = x := by
  cases b <;> simp at h
  exact h.symm

/-- the only message of the `.read` clause -/
theorem checkRead_msg (c : Ctx) (w : Watch) (e : Event) (m : String) (h : checkRead c w e = some m) :
    m = "scoped-read-differs-from-sequential" := by
  cases e <;> simp only [checkRead] at h <;> try cases h
  rename_i t var v
  simp only [checkC07] at h
  generalize Watch.chain w w.fuel t = o at h
  cases o with
  | none => cases h
  | some ch => exact ite_msg _ _ _ h

/-- the restricted observer differs from the real one only on that clause -/
theorem checkRest_eq (c : Ctx) (w : Watch) (e : Event) :
    checkRest c w e = checkC07 c w e ∨
      (checkRest c w e = none ∧ checkC07 c w e = some "scoped-read-differs-from-sequential") := by
  cases e <;> try exact Or.inl rfl
  rename_i t var v
  cases h : checkC07 c w (.read t var v) with
  | none => exact Or.inl (by simp [checkRest])
  | some m =>
    right
    have : checkRead c w (.read t var v) = some m := h
    rw [checkRead_msg c w _ m this]
    exact ⟨rfl, rfl⟩

theorem acc_split (c : Ctx) (tr : List Event) :
    P13.Acc checkC07 c tr ↔ P13.Acc checkRead c tr ∧ P13.Acc checkRest c tr := by
  induction tr with
  | nil => simp [P13.Acc]
  | cons e tr ih =>
    rw [acc_cons, acc_cons, acc_cons, ih, checkC07_none_iff]
    constructor
    · rintro ⟨⟨a, b⟩, x, y⟩; exact ⟨⟨a, x⟩, b, y⟩
    · rintro ⟨⟨a, x⟩, b, y⟩; exact ⟨⟨a, b⟩, x, y⟩

/-- acceptance, event by event -/
theorem acc_iff_suffix (chk : Ctx → Watch → Event → Option String) (c : Ctx) (tr : List Event) :
    P13.Acc chk c tr ↔ ∀ post e pre, tr = post ++ e :: pre → chk c (obs pre) e = none := by
  induction tr with
  | nil =>
    simp only [P13.Acc, true_iff]
    intro post e pre h
    cases post <;> cases h
  | cons a tr ih =>
    rw [acc_cons, ih]
    constructor
    · rintro ⟨h1, h2⟩ post e pre h
      cases post with
      | nil =>
        simp only [List.nil_append, List.cons.injEq] at h
        obtain ⟨rfl, rfl⟩ := h
        exact h2
      | cons b post =>
        simp only [List.cons_append, List.cons.injEq] at h
        exact h1 post e pre h.2
    · intro h
      exact ⟨fun post e pre h' => h (a :: post) e pre (by rw [h']; rfl), h [] a tr rfl⟩

/-! ### the observer's stack of resumed contexts -/

theorem ctxStack_other (w : Watch) (e : Event) (h : P7.isCtx e = false) : (watchEvent w e).ctxStack = w.ctxStack := by
  cases e <;> simp [P7.isCtx] at h <;> simp [watchEvent, Watch.mention]
  case new f k =>
    cases k <;> simp <;> split <;> rfl

theorem ctxStack_resume (w : Watch) (c : Nat) : (watchEvent w (.ctx true c)).ctxStack = c :: w.ctxStack := by
  simp [watchEvent]

theorem ctxStack_pause (w : Watch) (c : Nat) : (watchEvent w (.ctx false c)).ctxStack = w.ctxStack.erase c := by
  simp [watchEvent]

theorem ctxStack_of_lifo : ∀ (tr : List Event) (R : List Nat), P7.lifo tr = some R → (obs tr).ctxStack = R
  | [], R, h => by simp [P7.lifo] at h; subst h; rfl
  | e :: tr, R, h => by
    cases hl : P7.lifo tr with
    | none => simp [P7.lifo, hl] at h
    | some R1 =>
      have ih := ctxStack_of_lifo tr R1 hl
      rw [obs_cons]
      by_cases hc : P7.isCtx e = true
      · cases e <;> simp [P7.isCtx] at hc
        rename_i b c
        cases b with
        | true =>
          obtain ⟨R', h1, _, h3⟩ := P7.lifo_resume_fresh h
          rw [hl] at h1; cases h1
          rw [ctxStack_resume, ih, h3]
        | false =>
          have h1 := P7.lifo_pause_top h
          rw [hl] at h1; cases h1
          rw [ctxStack_pause, ih]
          simp
      · have hc' : P7.isCtx e = false := by simpa using hc
        rw [P7.lifo_cons_other e tr hc', hl] at h
        cases h
        rw [ctxStack_other _ _ hc', ih]

/-- the stack of resumed contexts has no duplicates -/
theorem lifo_nodup : ∀ (tr : List Event) (R : List Nat), P7.lifo tr = some R → R.Nodup
  | [], R, h => by simp [P7.lifo] at h; subst h; exact List.nodup_nil
  | e :: tr, R, h => by
    cases hl : P7.lifo tr with
    | none => simp [P7.lifo, hl] at h
    | some R1 =>
      have ih := lifo_nodup tr R1 hl
      by_cases hx : P7.isCtx e = true
      · cases e <;> simp [P7.isCtx] at hx
        rename_i b c'
        cases b with
        | true =>
          obtain ⟨R', h1, h2, h3⟩ := P7.lifo_resume_fresh h
          rw [hl] at h1; cases h1
          subst h3
          exact List.nodup_cons.2 ⟨h2, ih⟩
        | false =>
          have h1 := P7.lifo_pause_top h
          rw [hl] at h1; cases h1
          exact (List.nodup_cons.1 ih).2
      · have hx' : P7.isCtx e = false := by simpa using hx
        rw [P7.lifo_cons_other e tr hx', hl] at h
        cases h
        exact ih

/-- a context on the stack of resumed contexts was resumed last -/
theorem lifo_mem_word : ∀ (tr : List Event) (R : List Nat) (c : Nat), P7.lifo tr = some R → c ∈ R →
    (P5.word tr c).head? = some true
  | [], R, c, h, hc => by simp [P7.lifo] at h; subst h; cases hc
  | e :: tr, R, c, h, hc => by
    cases hl : P7.lifo tr with
    | none => simp [P7.lifo, hl] at h
    | some R1 =>
      by_cases hx : P7.isCtx e = true
      · cases e <;> simp [P7.isCtx] at hx
        rename_i b c'
        cases b with
        | true =>
          obtain ⟨R', h1, _, h3⟩ := P7.lifo_resume_fresh h
          rw [hl] at h1; cases h1
          subst h3
          by_cases hcc : c' = c
          · subst hcc; simp [P5.word]
          · have : c ∈ R1 := by
              rcases List.mem_cons.1 hc with h' | h'
              · exact absurd h'.symm hcc
              · exact h'
            have ih := lifo_mem_word tr R1 c hl this
            simpa [P5.word, hcc] using ih
        | false =>
          have h1 := P7.lifo_pause_top h
          rw [hl] at h1; cases h1
          have ih := lifo_mem_word tr (c' :: R) c hl (List.mem_cons_of_mem _ hc)
          by_cases hcc : c' = c
          · subst hcc
            exact absurd hc (List.nodup_cons.1 (lifo_nodup tr _ hl)).1
          · simpa [P5.word, hcc] using ih
      · have hx' : P7.isCtx e = false := by simpa using hx
        rw [P7.lifo_cons_other e tr hx', hl] at h
        cases h
        have ih := lifo_mem_word tr R c hl hc
        have : P5.word (e :: tr) c = P5.word tr c := by
          cases e <;> simp [P7.isCtx] at hx' <;> simp [P5.word]
        rw [this]; exact ih

end AsynqModel.Core.P17
