import AsynqModel.Proofs.P15Rel
import AsynqModel.Proofs.P14Exact
/-!
  P15, part 3: the simulation relation `R` is preserved by every helper of the machine and by `step`.

  Side conditions (all are invariants of reachable states, supplied in P15Main.lean):
  * completions: the future exists (batch items have kind `item`, running generators kind `task`); that it is not yet
    computed is checked by the machine itself at every call of `complete`;
  * the start of a task needs: not started, not computed, resume counter 0, awaited, and (if `o`) the start-order clause;
  * a resume needs: uncomputed, everything yielded computed;
  * a yield needs: the running task has started;
  * the `.ret` event needs (if `r`): every started task is computed.
-/
namespace AsynqModel.Core.P15
open AsynqModel.Core AsynqModel.Core.Spec AsynqModel.Core.P2 AsynqModel.Core.P14

variable {o r : Bool}

/-- any change of the fields other than `futs` and `trace` -/
theorem R_mk (s : State) (cfg batches stack sbatches active ctl ctxs sv tops topIdx curTop raising choices stuck guardFired)
    (h : R o r s) :
    R o r { cfg := cfg, futs := s.futs, batches := batches, stack := stack, sbatches := sbatches, active := active,
            ctl := ctl, ctxs := ctxs, sv := sv, trace := s.trace, tops := tops, topIdx := topIdx, curTop := curTop,
            raising := raising, choices := choices, stuck := stuck, guardFired := guardFired } :=
  R_of_eq (s := s) rfl rfl h

theorem R_ite {s1 s2 : State} {p : Prop} [Decidable p] (h1 : R o r s1) (h2 : R o r s2) : R o r (if p then s1 else s2) := by
  split <;> assumption

macro "keep4" : tactic =>
  `(tactic| (refine R_updTask _ _ (fun _ => rfl) (fun _ => rfl) (fun _ => rfl) (fun _ => rfl) (fun _ h => h) ?_))

theorem R.np {s : State} (h : R o r s) {t : Nat} (hp : (s.task t).pending = false) : (s.task t).started = true := by
  cases hs : (s.task t).started with
  | true => rfl
  | false => have := (h.ns t hs).1; rw [hp] at this; cases this

theorem R.st_of_ctx {s : State} (h : R o r s) {t : Nat} (hc : (s.task t).ctxs ≠ []) : (s.task t).started = true := by
  cases hs : (s.task t).started with
  | true => rfl
  | false => exact absurd (h.ns t hs).2 hc

/-! ### contexts -/

theorem R_svTouch {s : State} (var : Nat) (h : R o r s) : R o r (s.svTouch var) :=
  R_of_eq (sameC_svTouch s var).futs (sameC_svTouch s var).trace h

theorem R_ctxResumeOne {s : State} (cid : Nat) (h : R o r s) : R o r (s.ctxResumeOne cid) :=
  R_of_eq (sameC_ctxResumeOne s cid).futs (sameC_ctxResumeOne s cid).trace (R_emit _ rfl h)

theorem R_ctxPauseOne {s : State} (cid : Nat) (h : R o r s) : R o r (s.ctxPauseOne cid) :=
  R_of_eq (sameC_ctxPauseOne s cid).futs (sameC_ctxPauseOne s cid).trace (R_emit _ rfl h)

theorem R_ctxExit {s : State} (cid : Nat) (h : R o r s) : R o r (s.ctxExit cid) := by
  rcases ctxExit_cases s cid with e | ⟨ow, e⟩
  · rw [e]
    exact R_emit _ rfl (R_ite h (R_ctxPauseOne _ h))
  · rw [e]
    have h1 : R o r (s.updTask ow fun ts => { ts with ctxs := ts.ctxs.erase cid }) :=
      R_updTask _ _ (fun _ => rfl) (fun _ => rfl) (fun _ => rfl) (fun _ => rfl) (fun ts hh => by simp [hh]) h
    exact R_emit _ rfl (R_ite h1 (R_ctxPauseOne _ h1))

theorem R_foldl {α : Type} (g : State → α → State) (hg : ∀ s a, R o r s → R o r (g s a)) (l : List α) {s : State}
    (h : R o r s) : R o r (l.foldl g s) := by
  induction l generalizing s with
  | nil => exact h
  | cons a l ih => exact ih (hg s a h)

theorem R_exitAll {s : State} (t : Nat) (h : R o r s) : R o r (s.exitAll t) := by
  unfold State.exitAll
  keep4
  exact R_foldl (fun (s : State) (p : Nat × Body) => s.ctxExit p.1) (fun s p hs => R_ctxExit p.1 hs) _ h

/-- the completion of task `t` after its with-blocks have been left -/
theorem started_exitAll (s : State) (t : Nat) : ((s.exitAll t).task t).started = (s.task t).started := by
  have q := quiet_exitAll s t
  exact (q.fut t).started

theorem R_exitComplete {s : State} (t : Nat) (x : Outcome) (hk : (s.fut t).kind = .task) (hn : s.computed t = false)
    (hst : (s.task t).started = true)
    (h : R o r s) : R o r (((s.exitAll t).updTask t fun ts => { ts with pending := false }).complete t x) := by
  refine R_complete _ _ (lt_exit hk) ?_ (R_updTask_np _ _ (fun _ => rfl) (fun _ => rfl) (fun _ => rfl) ?_ (R_exitAll t h))
  · rw [out_updTask, out_exitAll]
    exact computed_false (by rw [hn]; simp)
  · rw [started_exitAll]; exact hst

theorem R_failSuspended {s : State} (t : Nat) (e : Err) (hk : (s.fut t).kind = .task)
    (hst : (s.task t).started = true) (h : R o r s) :
    R o r (s.failSuspended t e) := by
  unfold State.failSuspended
  split
  · exact h
  · rename_i hc
    exact R_exitComplete t _ hk (by simpa using hc) hst h

theorem task_of_fut {a b : State} {t : Nat} (h : a.fut t = b.fut t) : a.task t = b.task t := by
  unfold State.task; rw [h]

theorem ne_nil_of_any {l : List Nat} {p : Nat → Bool} (h : l.any p = true) : l ≠ [] := by
  intro hl; subst hl; simp at h

theorem R_resumeContexts {s : State} (t : Nat) (hk : (s.fut t).kind = .task) (h : R o r s) :
    R o r (s.resumeContexts t) := by
  unfold State.resumeContexts
  simp only []
  split
  · exact h
  · have h1 : R o r ((s.task t).ctxs.foldl (fun s c => if s.ctxIsNonAsync c then s else s.ctxResumeOne c)
        (s.updTask t fun ts => { ts with ctxActive := true })) :=
      R_foldl _ (fun s a hs => R_ite hs (R_ctxResumeOne a hs)) _ (by keep4; exact h)
    split
    · rename_i hany
      have hst := h.st_of_ctx (ne_nil_of_any hany)
      have hf := foldl_ctx_facts s t true State.ctxResumeOne (s.task t).ctxs fut_ctxResumeOne t
      refine R_failSuspended _ _ ?_ ?_ h1
      · rw [hf, kind_updTask]; exact hk
      · rw [task_of_fut hf, task_updTask_self _ _ _ (lt_of_task' hk)]; exact hst
    · exact h1

theorem R_pauseContexts {s : State} (t : Nat) (hk : (s.fut t).kind = .task) (h : R o r s) :
    R o r (s.pauseContexts t) := by
  unfold State.pauseContexts
  simp only []
  split
  · exact h
  · have h1 : R o r ((s.task t).ctxs.reverse.foldl (fun s c => if s.ctxIsNonAsync c then s else s.ctxPauseOne c)
        (s.updTask t fun ts => { ts with ctxActive := false })) :=
      R_foldl _ (fun s a hs => R_ite hs (R_ctxPauseOne a hs)) _ (by keep4; exact h)
    split
    · rename_i hany
      have hst := h.st_of_ctx (ne_nil_of_any hany)
      have hf := foldl_ctx_facts s t false State.ctxPauseOne (s.task t).ctxs.reverse fut_ctxPauseOne t
      refine R_failSuspended _ _ ?_ ?_ h1
      · rw [hf, kind_updTask]; exact hk
      · rw [task_of_fut hf, task_updTask_self _ _ _ (lt_of_task' hk)]; exact hst
    · exact h1

/-! ### batches -/

theorem R_switchActive {s : State} (kind seq : Nat) (h : R o r s) : R o r (s.switchActive kind seq) := by
  unfold State.switchActive
  split
  · split
    · exact R_of_eq (s := s) rfl rfl h
    · exact h
  · exact h

theorem R_updBatch {s : State} (kind seq : Nat) (g : Batch → Batch) (h : R o r s) : R o r (s.updBatch kind seq g) :=
  R_of_eq (s := s) rfl rfl h

theorem R_flushItems (kind : Nat) (l : List Nat) {s : State} (h : R o r s) : R o r (s.flushItems kind l) := by
  induction l generalizing s with
  | nil => exact h
  | cons i l ih =>
    unfold State.flushItems
    simp only []
    apply ih
    split
    · exact h
    · rename_i hc
      split
      · rename_i hk
        exact R_complete _ _ (lt_of_kind s i (by rw [hk]; intro h; cases h)) (computed_false hc) h
      · rename_i hk
        exact R_complete _ _ (lt_of_kind s i (by rw [hk]; intro h; cases h)) (computed_false hc) h
      · exact h

theorem R_finishItems (e : Err) (l : List Nat) {s : State} (hl : ∀ i ∈ l, isItemKind (s.fut i).kind = true)
    (h : R o r s) : R o r (s.finishItems e l) := by
  induction l generalizing s with
  | nil => exact h
  | cons i l ih =>
    unfold State.finishItems
    have hi := kind_of_isItem (hl i (by simp))
    have q : Quiet s (if s.computed i then s else s.complete i (.err e)) := by
      split
      · exact Quiet.refl _
      · rename_i hc
        exact quiet_complete _ _ _ hi.1 (computed_false hc) (Or.inr hi.2) (Or.inl hi.2)
    refine ih (fun j hj => q.kind_item (hl j (by simp [hj]))) ?_
    split
    · exact h
    · rename_i hc
      exact R_complete _ _ (lt_of_kind s i hi.1) (computed_false hc) h

theorem R_flushBatch {s : State} (kind seq : Nat) (hi : ItemsOk s) (h : R o r s) : R o r (s.flushBatch kind seq) := by
  unfold State.flushBatch
  split
  · exact R_fail _ h
  · rename_i bt hb
    have hb' : bt ∈ s.batches := List.mem_of_find?_eq_some hb
    simp only []
    have q1 : Quiet s (((s.switchActive kind seq).emit (.flushI kind seq bt.items)).flushItems kind bt.items) :=
      ((quiet_switchActive s kind seq).trans (quiet_emit _ _ rfl)).trans (quiet_flushItems _ _ _)
    refine R_updBatch _ _ _ (R_emit _ rfl (R_finishItems _ _ ?_ ?_))
    · intro i hib; exact q1.kind_item (hi bt hb' i hib)
    · exact R_flushItems _ _ (R_emit _ rfl (R_switchActive _ _ h))

theorem R_schedulerFlush {s : State} (root : Nat) (hi : ItemsOk s) (h : R o r s) : R o r (s.schedulerFlush root) := by
  unfold State.schedulerFlush
  simp only []
  have h0 : R o r { s with sbatches := s.flushable, ctl := .waitEnter root :: s.ctl.tail } := R_of_eq (s := s) rfl rfl h
  split
  · exact h0
  · split
    · exact R_fail _ h0
    · split
      · exact R_fail _ h0
      · split
        · exact R_fail _ h0
        · refine R_emit _ rfl (R_flushBatch _ _ ?_ (R_emit _ rfl (R_of_eq (s := s) rfl rfl h)))
          exact fun bt hb i hib => hi bt hb i hib

/-! ### the scheduler loop -/

theorem R_popStack {s : State} (h : R o r s) : R o r s.popStack := R_of_eq (s := s) rfl rfl h

theorem R_handleTask {s : State} (t : Nat) (hk : (s.fut t).kind = .task) (h : R o r s) : R o r (s.handleTask t) := by
  unfold State.handleTask
  simp only []
  split
  · split
    · exact R_popStack (R_pauseContexts _ (by rw [kind_updTask]; exact hk) (by keep4; exact h))
    · apply R_mk
      exact R_resumeContexts _ (by rw [kind_updTask]; exact hk) (by keep4; exact h)
  · split
    · exact R_fail _ h
    · apply R_mk
      exact R_resumeContexts _ hk h

theorem R_executeIter {s : State} (h : R o r s) : R o r s.executeIter := by
  unfold State.executeIter
  split
  · exact R_fail _ h
  · split
    · exact R_of_eq (s := s) rfl rfl h
    · split
      · exact R_popStack h
      · rename_i hc
        split
        · rename_i hk; exact R_handleTask _ hk h
        · refine R_popStack ?_
          split
          · split
            · exact h
            · exact R_of_eq (s := s) rfl rfl h
          · exact h
        · rename_i lo hk
          exact R_popStack (R_complete _ _ (lt_of_kind s _ (by rw [hk]; intro h; cases h)) (computed_false hc) h)
        · exact R_fail _ h

/-! ### one instruction of a task body -/

theorem R_leaveGen {s : State} (t : Nat) (old : Option Nat) (h : R o r s) : R o r (s.leaveGen t old) := by
  unfold State.leaveGen
  apply R_mk
  keep4; exact h

theorem R_finishTask {s : State} (t : Nat) (old : Option Nat) (x : Outcome) (hk : (s.fut t).kind = .task)
    (hst : (s.task t).started = true) (h : R o r s) : R o r (s.finishTask t old x) := by
  unfold State.finishTask
  split
  · exact R_fail _ h
  · rename_i hc
    exact R_leaveGen _ _ (R_exitComplete t x hk (by simpa using hc) hst h)

theorem R_newTask {s : State} (child : Body) (inh : List Nat) (h : R o r s) : R o r (s.newTask child inh).1 := by
  unfold State.newTask
  exact R_alloc _ _ rfl rfl rfl rfl h

theorem R_regCtx {s1 : State} (cid : Nat) (ha : ∀ a, s1.active = some a → (s1.task a).started = true)
    (h : R o r s1) :
    R o r (match s1.active with
      | some a => s1.updTask a fun ts => { ts with ctxs := ts.ctxs ++ [cid] }
      | none => s1) := by
  split
  · rename_i a hact
    exact R_updTask_reg _ _ (fun _ => rfl) (fun _ => rfl) (fun _ => rfl) (fun _ => rfl) (ha a hact) h
  · exact h

theorem R_svTouchMatch {s : State} (cx : CtxKind) (h : R o r s) :
    R o r (match cx with | .override var _ => s.svTouch var | _ => s) := by
  split
  · exact R_svTouch _ h
  · exact h

theorem R_withCtxTail {s0 : State} (cid t : Nat) (cx : CtxKind)
    (ha : ∀ a, s0.active = some a → (s0.task a).started = true) (h : R o r s0) :
    R o r (
      let s := s0.emit (.ctxN cid t cx)
      let s := { s with ctxs := s.ctxs ++ [({ kind := cx, owner := s.active } : CtxSt)] }
      let s := match s.active with
        | some a => s.updTask a fun ts => { ts with ctxs := ts.ctxs ++ [cid] }
        | none => s
      if cx == .nonasync then s else s.ctxResumeOne cid) := by
  have h1 : R o r (s0.emit (.ctxN cid t cx)) := R_emit _ rfl h
  have h2 : R o r { (s0.emit (.ctxN cid t cx)) with
      ctxs := (s0.emit (.ctxN cid t cx)).ctxs ++ [({ kind := cx, owner := (s0.emit (.ctxN cid t cx)).active } : CtxSt)] } :=
    R_of_eq (s := s0.emit (.ctxN cid t cx)) rfl rfl h1
  have h3 := R_regCtx cid (s1 := { (s0.emit (.ctxN cid t cx)) with
      ctxs := (s0.emit (.ctxN cid t cx)).ctxs ++ [({ kind := cx, owner := (s0.emit (.ctxN cid t cx)).active } : CtxSt)] })
    ha h2
  exact R_ite h3 (R_ctxResumeOne _ h3)

/-- what `genStep` needs to know about the running task `t` -/
structure GenOK (o : Bool) (s : State) (t : Nat) : Prop where
  kind : (s.fut t).kind = .task
  live : s.out t = none
  act : (s.task t).pending = false → ∀ a, s.active = some a → (s.task a).pending = false
  res0 : (s.task t).started = false → (s.task t).resumes = 0
  rdy : (s.task t).pending = true → (s.task t).started = true →
    ∀ f ∈ (s.task t).lastY.leaves, s.computed f = true
  aw : (s.task t).pending = true → (s.task t).started = false → t ∈ (wOf s.trace).awaited
  ord : o = true → (s.task t).pending = true → (s.task t).started = false →
    elsewhere (wOf s.trace) t ∨ orderBad (wOf s.trace) t = false

theorem R_genStep {s : State} (t : Nat) (old : Option Nat) (hi : ItemsOk s) (g : GenOK o s t) (h : R o r s) :
    R o r (s.genStep t old) := by
  have hk := g.kind
  have hlt : t < s.futs.length := lt_of_task' hk
  unfold State.genStep
  simp only []
  split
  · rename_i hp
    split
    · rename_i hs
      have hs' : (s.task t).started = false := by simpa using hs
      have hc := chk_start_ok t h hs' g.live (g.aw hp hs') (fun ho => g.ord ho hp hs')
      exact R_run _ _ _ _ _ hlt rfl rfl (g.res0 hs') hc h
    · rename_i hs
      have hs' : (s.task t).started = true := by simpa using hs
      have hl := g.rdy hp hs'
      split
      · exact R_run _ _ _ _ _ hlt rfl hs' rfl
          (chk_resume_ok t _ h hp hs' g.live hl) h
      · exact R_run _ _ _ _ _ hlt rfl hs' rfl
          (chk_resume_ok t _ h hp hs' g.live hl) h
      · exact R_run _ _ _ _ _ hlt rfl hs' rfl
          (chk_resume_ok t _ h hp hs' g.live hl) h
      · exact R_run _ _ _ _ _ hlt rfl hs' rfl
          (chk_resume_ok t _ h hp hs' g.live hl) h
      · exact R_fail _ h
  · rename_i hp
    have hp' : (s.task t).pending = false := by simpa using hp
    have hst : (s.task t).started = true := h.np hp'
    split
    · exact R_finishTask _ _ _ hk hst h
    · exact R_finishTask _ _ _ hk hst h
    · exact R_finishTask _ _ _ hk hst h
    · exact R_finishTask _ _ _ hk hst h
    · -- spawn
      keep4; exact R_newTask _ _ h
    · -- item
      rename_i kind payload mode k heq
      have h0 : R o r (match s.curBatch? kind with
          | some _ => s
          | none => { s with batches := s.batches ++ [({ kind := kind, seq := 0 } : Batch)] }) := by
        split
        · exact h
        · exact R_of_eq (s := s) rfl rfl h
      split
      · exact R_fail _ h0
      · keep4
        refine R_updBatch _ _ _ ?_
        exact R_alloc _ _ rfl rfl rfl rfl h0
    · -- const
      keep4; exact R_alloc _ _ rfl rfl rfl rfl h
    · -- errfut
      keep4; exact R_alloc _ _ rfl rfl rfl rfl h
    · -- lazy
      keep4; exact R_alloc _ _ rfl rfl rfl rfl h
    · -- yld
      refine R_ite ?_ (R_leaveGen _ _ ?_)
      · exact R_yield t _ _ hst (by intro; rfl) (by intro; rfl) (by intro; rfl) h
      · exact R_yield t _ _ hst (by intro; rfl) (by intro; rfl) (by intro; rfl) h
    · -- reyld
      refine R_ite ?_ (R_leaveGen _ _ ?_)
      · exact R_yield t _ _ hst (by intro; rfl) (by intro; rfl) (by intro; rfl) h
      · exact R_yield t _ _ hst (by intro; rfl) (by intro; rfl) (by intro; rfl) h
    · -- sync
      apply R_mk
      refine R_emit _ rfl ?_
      keep4; exact R_newTask _ _ h
    · -- syncfut
      rename_i rf k hh heq
      have h1 : R o r ((s.updTask t fun ts => { ts with body := .syncret ((s.task t).resolve rf) k hh }).emit
          (.syncE t ((s.task t).resolve rf))) :=
        R_emit _ rfl (by keep4; exact h)
      have hi1 : ItemsOk ((s.updTask t fun ts => { ts with body := .syncret ((s.task t).resolve rf) k hh }).emit
          (.syncE t ((s.task t).resolve rf))) := by
        intro bt hb i hib
        rw [emit_fut, kind_updTask]; exact hi bt hb i hib
      split
      · exact h1
      · rename_i hc
        split
        · apply R_mk; exact h1
        · split
          · split
            · exact h1
            · exact R_flushBatch _ _ hi1 h1
          · exact h1
        · rename_i lo hko
          exact R_complete _ _ (lt_of_kind _ _ (by rw [hko]; intro h; cases h)) (computed_false hc) h1
        · exact h1
    · -- syncret
      split
      · exact R_fail _ h
      · refine R_emit _ rfl ?_
        keep4
        exact R_of_eq (s := s) rfl rfl h
      · refine R_emit _ rfl ?_
        keep4
        exact R_of_eq (s := s) rfl rfl h
    · -- withCtx
      rename_i cx bd k heq
      keep4
      refine R_withCtxTail _ _ _ ?_ (R_svTouchMatch cx h)
      intro a hact
      cases cx with
      | override var val =>
        have hact' : s.active = some a := by rw [← (sameC_svTouch s var).active]; exact hact
        have := h.np (g.act hp' a hact')
        rw [← task_of_fut ((sameC_svTouch s var).fut a)] at this
        exact this
      | plain => exact h.np (g.act hp' a hact)
      | nonasync => exact h.np (g.act hp' a hact)
    · -- endwith
      split
      · exact R_finishTask _ _ _ hk hst h
      · keep4; exact R_ctxExit _ h
    · -- read
      keep4
      exact R_emit _ rfl (R_svTouch _ h)
    · -- active
      keep4; exact R_emit _ rfl h

/-! ### the transition function -/

theorem R_finishTop {s : State} (f : Nat) (h : R o r s)
    (hall : r = true → ∀ t, (s.task t).started = true → s.out t ≠ none) : R o r (s.finishTop f) := by
  unfold State.finishTop
  simp only []
  refine R_emit _ rfl ?_
  refine R_emit _ rfl ?_
  have h0 : R o r { s with raising := none, curTop := none } := R_of_eq (s := s) rfl rfl h
  exact R_ret _ (chk_ret_ok _ h0 hall) h0

theorem R_step {s : State} (h : R o r s) (hi : ItemsOk s)
    (hgen : ∀ t old rest, s.stuck = none → s.ctl = .gen t old :: rest → GenOK o s t)
    (hret : ∀ f, s.stuck = none → s.ctl = [] → s.curTop = some f → r = true →
      ∀ t, (s.task t).started = true → s.out t ≠ none) : R o r (step s) := by
  unfold step
  split
  · exact h
  · rename_i hst
    have hst' : s.stuck = none := by simpa using hst
    split
    · rename_i hctl
      split
      · rename_i f hcur
        exact R_finishTop f h (hret f hst' hctl hcur)
      · split
        · exact h
        · simp only []
          apply R_mk
          refine R_newTask _ _ ?_
          refine R_emit _ rfl ?_
          exact R_of_eq (s := s) rfl rfl h
    · split
      · exact R_of_eq (s := s) rfl rfl h
      · split
        · exact R_of_eq (s := s) rfl rfl h
        · exact R_of_eq (s := s) rfl rfl h
    · split
      · exact R_of_eq (s := s) rfl rfl h
      · split
        · exact R_executeIter h
        · split
          · exact R_of_eq (s := s) rfl rfl h
          · exact R_schedulerFlush _ hi h
    · rename_i t old rest hctl
      exact R_ite (R_fail _ h) (R_genStep t old hi (hgen t old rest hst' hctl) h)

end AsynqModel.Core.P15
