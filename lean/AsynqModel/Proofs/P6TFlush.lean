import AsynqModel.Proofs.P6TTerm
/-
  P6T (termination, property C03), part 10: a scheduler flush changes only futures that are items of a batch, and
  the items of the batches afterwards were items of batches before; `ITEMS`: no task is ever an item of a batch.
-/
namespace AsynqModel.Core.P6T
open AsynqModel.Core AsynqModel.Core.P6

theorem view_complete_ne (s : State) (i : Nat) (o : Outcome) (f : Nat) (h : f ≠ i) :
    view (s.complete i o) f = view s f := by
  rw [view_complete, if_neg (fun hh => h hh.1)]

theorem flushItems_only (kind : Nat) (l : List Nat) (s : State) (f : Nat) (h : f ∉ l) :
    view (s.flushItems kind l) f = view s f := by
  induction l generalizing s with
  | nil => rfl
  | cons i is ih =>
    unfold State.flushItems
    have hfi : f ≠ i := fun e => h (e ▸ List.mem_cons_self)
    have hfis : f ∉ is := fun e => h (List.mem_cons_of_mem _ e)
    rw [ih _ hfis]
    split
    · rfl
    · split
      · exact view_complete_ne _ _ _ _ hfi
      · exact view_complete_ne _ _ _ _ hfi
      · rfl

theorem finishItems_only (e : Err) (l : List Nat) (s : State) (f : Nat) (h : f ∉ l) :
    view (s.finishItems e l) f = view s f := by
  induction l generalizing s with
  | nil => rfl
  | cons i is ih =>
    unfold State.finishItems
    have hfi : f ≠ i := fun e => h (e ▸ List.mem_cons_self)
    have hfis : f ∉ is := fun e => h (List.mem_cons_of_mem _ e)
    rw [ih _ hfis]
    split
    · rfl
    · exact view_complete_ne _ _ _ _ hfi

@[simp] theorem batches_flushItems (kind : Nat) (l : List Nat) (s : State) :
    (s.flushItems kind l).batches = s.batches := (flushItems_compl kind l s).2.1
@[simp] theorem batches_finishItems (e : Err) (l : List Nat) (s : State) :
    (s.finishItems e l).batches = s.batches := (finishItems_compl e l s).2.1

/-- `flushBatch` changes only items of the flushed batch; it adds no item to any batch -/
theorem flushBatch_only (s : State) (k q : Nat) (b : Batch) (hb : s.batch? k q = some b) :
    (∀ f, f ∉ b.items → view (s.flushBatch k q) f = view s f) ∧
    (∀ b' ∈ (s.flushBatch k q).batches, ∀ i ∈ b'.items, ∃ b0 ∈ s.batches, i ∈ b0.items) := by
  unfold State.flushBatch
  rw [hb]
  dsimp only
  have hsw : ∀ f, view (s.switchActive k q) f = view s f := by
    intro f; unfold State.switchActive; split
    · split <;> rfl
    · rfl
  refine ⟨?_, ?_⟩
  · intro f hf
    show view (State.finishItems _ _ b.items) f = _
    rw [finishItems_only _ _ _ _ hf]
    show view (State.flushItems _ _ b.items) f = _
    rw [flushItems_only _ _ _ _ hf]
    exact hsw f
  · intro b' hb' i hi
    have hb'' : b' ∈ (s.switchActive k q).batches.map (fun b0 : Batch =>
        if b0.kind == k && b0.seq == q then
          { b0 with flushed := true, items := if s.cfg.keepDeps then b0.items else [] } else b0) := by
      have : (s.switchActive k q).cfg = s.cfg := by
        unfold State.switchActive; split
        · split <;> rfl
        · rfl
      simpa [State.updBatch, (finishItems_compl _ _ _).1.cfg, (flushItems_compl _ _ _).1.cfg, this] using hb'
    obtain ⟨b0, hb0, rfl⟩ := List.mem_map.1 hb''
    have hi0 : i ∈ b0.items := by
      split at hi
      · dsimp only at hi
        split at hi
        · exact hi
        · cases hi
      · exact hi
    have hb0' : b0 ∈ s.batches ∨ b0 = ({ kind := k, seq := q + 1 } : Batch) := by
      unfold State.switchActive at hb0
      split at hb0
      · split at hb0
        · rcases List.mem_append.1 hb0 with h | h
          · exact Or.inl h
          · simp at h; exact Or.inr h
        · exact Or.inl hb0
      · exact Or.inl hb0
    rcases hb0' with h | h
    · exact ⟨b0, h, hi0⟩
    · rw [h] at hi0; cases hi0

/-- the same for the scheduler flush -/
theorem schedulerFlush_only (s : State) (root : Nat) :
    (∀ f, (∀ b ∈ s.batches, f ∉ b.items) → view (s.schedulerFlush root) f = view s f) ∧
    (∀ b' ∈ (s.schedulerFlush root).batches, ∀ i ∈ b'.items, ∃ b0 ∈ s.batches, i ∈ b0.items) := by
  by_cases hfl : s.flushable = []
  · rw [P1.schedulerFlush_empty s root hfl]
    exact ⟨fun f _ => rfl, fun b' hb' i hi => ⟨b', hb', hi⟩⟩
  · rcases P1.schedulerFlush_cases s root hfl with ⟨m, hm, _⟩ | ⟨c, b, _, _, hbc, hfw⟩
    · rw [hm]
      exact ⟨fun f _ => rfl, fun b' hb' i hi => ⟨b', hb', hi⟩⟩
    · rw [hfw]
      unfold P1.flushWith
      obtain ⟨h1, h2⟩ := flushBatch_only (State.emit { s with sbatches := s.flushable.erase c, ctl := .waitEnter root :: s.ctl.tail, choices := s.choices.tail } (.flushB c.1 c.2 b.items (s.batchPrio b) (s.pendingOf (s.flushable.erase c)))) c.1 c.2 b hbc
      refine ⟨fun f hf => ?_, fun b' hb' i hi => h2 b' hb' i hi⟩
      exact h1 f (hf b (List.mem_of_find?_eq_some hbc))

/-- no task is an item of a batch -/
def ITEMS (s : State) : Prop := ∀ b ∈ s.batches, ∀ i ∈ b.items, (view s i).kind ≠ .task ∧ i < s.futs.length

theorem upd1_kind {s r : State} {t : Nat} {v' : FV} (U : Upd1S s r t v') (hk : v'.kind = (view s t).kind)
    (f : Nat) : (view r f).kind = (view s f).kind := by
  rcases U.view_cases f with ⟨rfl, e⟩ | ⟨_, e⟩
  · rw [e, hk]
  · rw [e]

theorem upd2_kind {s r : State} {t : Nat} {v' nv : FV} (U : Upd2 s r t v' nv) (hk : v'.kind = (view s t).kind)
    (f : Nat) (hf : f < s.futs.length) : (view r f).kind = (view s f).kind := by
  rcases U.view_cases f with ⟨rfl, e⟩ | ⟨rfl, _⟩ | ⟨_, _, e⟩
  · rw [e, hk]
  · exact absurd hf (Nat.lt_irrefl _)
  · rw [e]

/-- the kind of an existing future never changes; the heap only grows -/
theorem desc_kind_stable {s r : State} (d : Desc s r) :
    s.futs.length ≤ r.futs.length ∧ ∀ f, f < s.futs.length → (view r f).kind = (view s f).kind := by
  cases d with
  | quiet e _ _ => exact ⟨Nat.le_of_eq e.len.symm, fun f _ => by rw [e.view]⟩
  | top conv body rest _ _ U _ _ =>
    exact ⟨by rw [U.len]; omega, fun f hf => by rw [U.viewO f (Nat.ne_of_lt hf)]⟩
  | ret _ _ _ e _ _ => exact ⟨Nat.le_of_eq e.len.symm, fun f _ => by rw [e.view]⟩
  | enterLoop _ _ _ _ e _ _ => exact ⟨Nat.le_of_eq e.len.symm, fun f _ => by rw [e.view]⟩
  | pop _ _ _ _ _ e _ _ => exact ⟨Nat.le_of_eq e.len.symm, fun f _ => by rw [e.view]⟩
  | popLazy _ top st _ lo _ _ U _ _ => exact ⟨Nat.le_of_eq U.len.symm, fun f _ => upd1_kind U rfl f⟩
  | second _ top st _ _ _ _ _ U _ _ => exact ⟨Nat.le_of_eq U.len.symm, fun f _ => upd1_kind U rfl f⟩
  | first _ top st _ _ _ _ _ U _ _ => exact ⟨Nat.le_of_eq U.len.symm, fun f _ => upd1_kind U rfl f⟩
  | enterGen _ _ _ _ _ _ _ e _ _ _ => exact ⟨Nat.le_of_eq e.len.symm, fun f _ => by rw [e.view]⟩
  | gen t old rest _ d =>
    cases d with
    | loc v' hu _ hkind _ _ _ _ _ _ _ _ _ _ =>
      exact ⟨Nat.le_of_eq hu.len.symm, fun f _ => upd1_kind hu.toS hkind f⟩
    | spawn child k pass _ _ hu _ _ _ _ => exact ⟨by rw [hu.len]; omega, fun f hf => upd2_kind hu rfl f hf⟩
    | item kind payload mode k seq _ _ hu _ _ _ => exact ⟨by rw [hu.len]; omega, fun f hf => upd2_kind hu rfl f hf⟩
    | other k kd out _ _ hu _ _ _ _ => exact ⟨by rw [hu.len]; omega, fun f hf => upd2_kind hu rfl f hf⟩
    | yield ry npy nd leave _ _ _ _ hu _ => exact ⟨Nat.le_of_eq hu.len.symm, fun f _ => upd1_kind hu.toS rfl f⟩
    | finish o _ hu _ => exact ⟨Nat.le_of_eq hu.len.symm, fun f _ => upd1_kind hu.toS rfl f⟩
  | flush _ _ _ _ _ _ F _ =>
    refine ⟨Nat.le_of_eq F.len.symm, fun f _ => ?_⟩
    rcases F.view f with e | ⟨_, o, e⟩ <;> rw [e] <;> rfl

theorem items_init (cfg : Cfg) (tops : List (Conv × Body)) (choices : List (Nat × Nat)) :
    ITEMS (initState cfg tops choices) := by
  intro b hb; cases hb

/-- `ITEMS` is preserved by every step -/
theorem items_step {s : State} (hI : ITEMS s) (hs : s.stuck = none) (hr : s.raising = none)
    (d : Desc s (step s)) : ITEMS (step s) := by
  obtain ⟨hlen, hkind⟩ := desc_kind_stable d
  have same : (step s).batches = s.batches → ITEMS (step s) := by
    intro hb b' hb' i hi
    rw [hb] at hb'
    obtain ⟨h1, h2⟩ := hI b' hb' i hi
    exact ⟨by rw [hkind i h2]; exact h1, Nat.lt_of_lt_of_le h2 hlen⟩
  cases d with
  | quiet e _ _ => exact same e.batches
  | top conv body rest _ _ U _ _ => exact same U.batches
  | ret _ _ _ e _ _ => exact same e.batches
  | enterLoop _ _ _ _ e _ _ => exact same e.batches
  | pop _ _ _ _ _ e _ _ => exact same e.batches
  | popLazy _ top st _ lo _ _ U _ _ => exact same U.batches
  | second _ top st _ _ _ _ _ U _ _ => exact same U.batches
  | first _ top st _ _ _ _ _ U _ _ => exact same U.batches
  | enterGen _ _ _ _ _ _ _ e _ _ _ => exact same e.batches
  | gen t old rest _ d =>
    cases d with
    | loc v' hu _ _ _ _ _ _ _ _ _ _ _ _ => exact same hu.batches
    | spawn child k pass _ _ hu _ hbat _ _ => exact same hbat
    | item kind payload mode k seq _ _ hu _ hbat _ =>
      obtain ⟨l1, cur, hl1, _, _, hnew⟩ := hbat
      intro b' hb' i hi
      have hnew' : (step s).batches = l1.map (addItemIf kind seq s.futs.length) := hnew
      rw [hnew'] at hb'
      obtain ⟨b0, hb0, rfl⟩ := List.mem_map.1 hb'
      have hi' : i ∈ b0.items ∨ i = s.futs.length := by
        unfold addItemIf at hi
        split at hi
        · rcases List.mem_append.1 hi with h | h
          · exact Or.inl h
          · simp at h; exact Or.inr h
        · exact Or.inl hi
      rcases hi' with h | h
      · have hb0' : b0 ∈ s.batches := by
          rcases hl1 with rfl | ⟨_, rfl⟩
          · exact hb0
          · rcases List.mem_append.1 hb0 with h' | h'
            · exact h'
            · simp at h'; rw [h'] at h; cases h
        obtain ⟨h1, h2⟩ := hI b0 hb0' i h
        exact ⟨by rw [hkind i h2]; exact h1, Nat.lt_of_lt_of_le h2 hlen⟩
      · subst h
        refine ⟨by rw [hu.viewN]; simp [plainView], by rw [hu.len]; omega⟩
    | other k kd out _ _ hu _ hbat _ _ => exact same hbat
    | yield ry npy nd leave _ _ _ _ hu _ => exact same hu.batches
    | finish o _ hu _ => exact same hu.batches
  | flush root base rest hctl0 hlen' hroot F _ =>
    have e := step_waitLoop_flush s hs hr hctl0 hlen' hroot
    intro b' hb' i hi
    rw [e] at hb'
    obtain ⟨b0, hb0, hi0⟩ := (schedulerFlush_only s root).2 b' hb' i hi
    obtain ⟨h1, h2⟩ := hI b0 hb0 i hi0
    exact ⟨by rw [hkind i h2]; exact h1, Nat.lt_of_lt_of_le h2 hlen⟩

end AsynqModel.Core.P6T
