import AsynqModel.Proofs.P9Inv
/-
  P9 (property C20), part 9: `J` is preserved by the scheduler-side steps (`executeIter`, `handleTask`).
-/
namespace AsynqModel.Core.P9
open AsynqModel.Core

theorem lt_of_task (s : State) (t : Nat) (h : (s.fut t).kind = .task) : t < s.futs.length := by
  by_cases hl : t < s.futs.length
  · exact hl
  · rw [fut_oob s t hl] at h; cases h

theorem resumeContexts_active (s : State) (t : Nat) (hl : t < s.futs.length) :
    ((s.resumeContexts t).task t).ctxActive = true := by
  unfold State.resumeContexts
  dsimp only
  split
  · assumption
  · have h0 : ((s.updTask t fun ts => { ts with ctxActive := true }).task t).ctxActive = true := by
      unfold State.updTask State.task
      rw [fut_setFut_self _ _ _ hl]
    have h : Keep0 (s.updTask t fun ts => { ts with ctxActive := true })
        ((s.task t).ctxs.foldl (fun s c => if s.ctxIsNonAsync c then s else s.ctxResumeOne c)
          (s.updTask t fun ts => { ts with ctxActive := true })) :=
      k_foldl _ (fun s c => by
        split
        · exact Keep.refl _ _ _
        · exact k_ctxResumeOne _ _) _ _
    split
    · rw [(h.trans (k_failSuspended _ _ _)).act t (fun h => h)]; exact h0
    · rw [h.act t (fun h => h)]; exact h0

/-- `handleTask t` for the task on top of the stack of the innermost `_execute` -/
theorem J_handleTask (s : State) (hj : J s) (root base : Nat) (rest : List Ctl)
    (hctl : s.ctl = .waitLoop root base :: rest) (hlen : base < s.stack.length)
    (t : Nat) (htop : s.stack.head? = some t) (hmax : s.stack.length ≤ s.cfg.maxStack)
    (hkind : (s.fut t).kind = .task) (hcomp : s.computed t = false)
    (hcore : P3.Core (s.handleTask t)) : J (s.handleTask t) := by
  rw [handleTask_eq] at hcore ⊢
  unfold handleCore at hcore ⊢
  have hht := hj.ht t
  have hstk : StackOK s.cfg.maxStack (.waitLoop root base :: rest) s.stack := by rw [← hctl]; exact hj.stk
  cases hb : ((s.task t).deps.any fun d => !s.computed d) with
  | true =>
    have hnf : inFrame s.ctl t = false := hht.notFrame hb
    have hfr' : ∀ u, inFrame s.ctl u = true → (inFrame s.ctl u = true ∧ ¬ (u = t) ∧ ¬ none1 u) ∨ False := by
      intro u hu
      refine Or.inl ⟨hu, ?_, fun h => h⟩
      intro e; subst e; rw [hnf] at hu; cases hu
    simp only [hb, if_true] at hcore ⊢
    cases hd : (s.task t).depsSched with
    | true =>
      simp only [hd, if_true] at hcore ⊢
      have hk : Keep (· = t) none1 s (((s.updTask t fun ts => { ts with depsSched := false }).pauseContexts t).popStack) :=
        ((k_updTask _ _ _).trans (k_pauseContexts _ _)).trans (k_popStack _)
      have hq : P3.Quiet P3.N s ((s.updTask t fun ts => { ts with depsSched := false }).pauseContexts t) :=
        (P3.q_updTask _ _ _).trans (P3.q_pauseContexts _ _)
      refine J_build hj hk hcore (by rw [State.popStack]; exact congrArg Cfg.maxStack hq.cfg) ?_ ?_ (fun _ h => h.elim)
      · show StackOK _ (State.popStack _).ctl (State.popStack _).stack
        simp only [State.popStack, hq.ctl, hq.stack, hctl]
        exact stackOK_wl hstk hlen []
      · intro u hu
        have : inFrame s.ctl u = true := by
          simpa [State.popStack, hq.ctl] using hu
        rcases hfr' u this with h | h
        · exact Or.inl h
        · exact h.elim
    | false =>
      simp only [hd, Bool.false_eq_true, if_false] at hcore ⊢
      have hk : Keep (· = t) none1 s ((s.updTask t fun ts => { ts with depsSched := true }).resumeContexts t) :=
        (k_updTask _ _ _).trans (k_resumeContexts _ _)
      have hq : P3.Quiet P3.N s ((s.updTask t fun ts => { ts with depsSched := true }).resumeContexts t) :=
        (P3.q_updTask _ _ _).trans (P3.q_resumeContexts _ _)
      generalize ((s.updTask t fun ts => { ts with depsSched := true }).resumeContexts t) = s1 at hk hq hcore ⊢
      have hk' : Keep (· = t) none1 s { s1 with stack := ((s.task t).deps.filter fun d => !s1.computed d).reverse ++ s1.stack } :=
        hk.trans (Keep.of_futs rfl rfl)
      refine J_build hj hk' hcore (congrArg Cfg.maxStack hq.cfg) ?_ ?_ (fun _ h => h.elim)
      · simp only [hq.ctl, hq.stack, hctl]
        cases hst : s.stack with
        | nil => rw [hst] at hlen; simp at hlen
        | cons x st' =>
          have := stackOK_wl hstk hlen (((s.task t).deps.filter fun d => !s1.computed d).reverse ++ [x])
          rw [hst] at this
          simpa using this
      · intro u hu
        have : inFrame s.ctl u = true := by simpa [hq.ctl] using hu
        rcases hfr' u this with h | h
        · exact Or.inl h
        · exact h.elim
  | false =>
    simp only [hb, Bool.false_eq_true, if_false] at hcore ⊢
    cases hf : inFrame s.ctl t with
    | true =>
      simp only [hf, if_true] at hcore ⊢
      exact J_same hj rfl rfl rfl rfl rfl hcore
    | false =>
      simp only [hf, Bool.false_eq_true, if_false] at hcore ⊢
      have hk : Keep (· = t) none1 s (s.resumeContexts t) := k_resumeContexts _ _
      have hq : P3.Quiet P3.N s (s.resumeContexts t) := P3.q_resumeContexts _ _
      have hact := resumeContexts_active s t (lt_of_task s t hkind)
      generalize (s.resumeContexts t) = s1 at hk hq hcore hact ⊢
      have hk' : Keep (· = t) none1 s { s1 with ctl := .gen t s1.active :: s1.ctl, active := some t } :=
        hk.trans (Keep.of_futs rfl rfl)
      refine J_build hj hk' hcore (congrArg Cfg.maxStack hq.cfg) ?_ ?_ (fun _ h => h.elim)
      · simp only [hq.ctl, hq.stack, hctl, StackOK]
        rw [hctl] at hf
        exact ⟨htop, hmax, hf, ⟨root, base, rest, rfl, hlen⟩, hstk⟩
      · intro u hu
        by_cases hut : u = t
        · subst hut
          right
          have hnb : ∀ d ∈ (s.task u).deps, s.computed d = true := by
            intro d hd
            rw [List.any_eq_false] at hb
            simpa using hb d hd
          have hchg := hk.chg u (fun h => h)
          refine ⟨hk.kind u hkind, ?_, hact, ?_⟩
          · show ∀ d ∈ (State.task s1 u).deps, State.computed s1 d = true
            rcases hchg with ⟨_, a2, _⟩ | ⟨_, b2, _⟩
            · rw [a2]; exact fun d hd => hk.mon d (hnb d hd)
            · rw [b2]; simp
          · show State.computed s1 u = true → (State.task s1 u).deps = []
            rcases hchg with ⟨a1, _, _⟩ | ⟨_, b2, _⟩
            · intro hc
              exfalso
              unfold State.computed at hc hcomp
              rw [a1] at hc
              rw [hc] at hcomp; cases hcomp
            · intro _; exact b2
        · left
          refine ⟨?_, hut, fun h => h⟩
          have : inFrame (.gen t s1.active :: s1.ctl) u = true := hu
          rw [hq.ctl] at this
          simp only [inFrame_gen, Bool.or_eq_true, beq_iff_eq] at this
          rcases this with h | h
          · exact absurd h.symm hut
          · exact h


theorem J_executeIter (s : State) (hj : J s) (root base : Nat) (rest : List Ctl)
    (hctl : s.ctl = .waitLoop root base :: rest) (hlen : base < s.stack.length)
    (hg : s.executeIter.guardFired = false) (hcore : P3.Core s.executeIter) : J s.executeIter := by
  have hstk : StackOK s.cfg.maxStack (.waitLoop root base :: rest) s.stack := by rw [← hctl]; exact hj.stk
  have hfr0 : ∀ u, inFrame s.ctl u = true → (inFrame s.ctl u = true ∧ ¬ none1 u ∧ ¬ none1 u) ∨ FrOK s.executeIter u :=
    fun u hu => Or.inl ⟨hu, fun h => h, fun h => h⟩
  cases hst : s.stack with
  | nil => rw [hst] at hlen; simp at hlen
  | cons top st' =>
    rw [executeIter_cons s top st' hst] at hg hcore ⊢
    unfold iterCore at hg hcore ⊢
    by_cases hov : s.stack.length > s.cfg.maxStack
    · simp only [hov, decide_true, if_true] at hg
      cases hg
    · simp only [hov, decide_false, Bool.false_eq_true, if_false] at hg hcore ⊢
      have hpop : ∀ s1 : State, Keep0 s s1 → P3.Quiet P3.N s s1 → P3.Core s1.popStack → J s1.popStack := by
        intro s1 hk hq hc
        refine J_build hj (hk.trans (k_popStack _)) hc (congrArg Cfg.maxStack hq.cfg) ?_ ?_ (fun _ h => h.elim)
        · show StackOK _ s1.ctl s1.stack.tail
          rw [hq.ctl, hq.stack, hctl]
          exact stackOK_wl hstk hlen []
        · intro u hu
          have : inFrame s.ctl u = true := by
            have : inFrame s1.ctl u = true := hu
            rw [hq.ctl] at this; exact this
          exact Or.inl ⟨this, fun h => h, fun h => h⟩
      cases hc : s.computed top with
      | true =>
        simp only [hc, if_true] at hcore ⊢
        exact hpop s (Keep.refl _ _ _) (P3.Quiet.refl _ _) hcore
      | false =>
        simp only [hc, Bool.false_eq_true, if_false] at hcore ⊢
        cases hk : (s.fut top).kind with
        | task =>
          simp only [hk] at hcore ⊢
          exact J_handleTask s hj root base rest hctl hlen top (by simp [hst]) (by omega) hk hc hcore
        | item kind seq pl md =>
          simp only [hk] at hcore ⊢
          have hq : P3.Quiet P3.N s (schedItem s kind seq ((s.batch? kind seq).map (·.flushed))) := by
            unfold schedItem
            cases (s.batch? kind seq).map (·.flushed) with
            | none => exact P3.Quiet.refl _ _
            | some f =>
              simp only
              split
              · exact P3.Quiet.refl _ _
              · exact P3.Quiet.of_eq rfl rfl rfl rfl rfl rfl rfl
          have hkk : Keep0 s (schedItem s kind seq ((s.batch? kind seq).map (·.flushed))) := by
            unfold schedItem
            cases (s.batch? kind seq).map (·.flushed) with
            | none => exact Keep.refl _ _ _
            | some f =>
              simp only
              split
              · exact Keep.refl _ _ _
              · exact Keep.of_futs rfl rfl
          exact hpop _ hkk hq hcore
        | «lazy» o =>
          simp only [hk] at hcore ⊢
          exact hpop _ (k_complete _ _ _) (P3.q_complete _ _ _) hcore
        | const =>
          simp only [hk] at hcore ⊢
          exact J_same hj rfl rfl rfl rfl rfl hcore
        | errfut =>
          simp only [hk] at hcore ⊢
          exact J_same hj rfl rfl rfl rfl rfl hcore

end AsynqModel.Core.P9
