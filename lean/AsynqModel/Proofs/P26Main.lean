import AsynqModel.Proofs.P26Spine
import AsynqModel.Proofs.P17Aw
import AsynqModel.Proofs.P16Main
import AsynqModel.Theorems.AuditFixes
/-!
  P26, part 6: the machine-level statements.

  * `TReach s`        : `s` is a state of a run of well-scoped, tree-shaped top-level computations;
  * `Spine s`         : everything known about the labelled stack of a reachable state (guard not fired);
  * `Spine.active`    : the top entry (when its generator runs) and every label have active contexts;
  * `Spine.only`      : an uncomputed task with active contexts is the top entry or a label;
  * `Spine.tree`      : in a tree-shaped run every task that waits (`P12.awaitsStar`) for a stack entry - and every
                        task with a path of names to it - is that entry or a label.
-/
namespace AsynqModel.Core.P26
open AsynqModel.Core P5 P7 P12 P16 P17
open AsynqModel.Core.P10 (Named)

/-! ### runs of tree-shaped programs -/

inductive TReach : State → Prop
  | init (cfg : Cfg) (tops : List (Conv × Body)) (choices : List (Nat × Nat))
      (hws : ∀ p, p ∈ tops → P10.WellScoped p.2 0 0 = true)
      (htree : ∀ p, p ∈ tops → Spec.bodyShares p.2 = false) : TReach (initState cfg tops choices)
  | step {s : State} : TReach s → TReach (step s)

theorem TReach.ws {s : State} (h : TReach s) : P10.WSReach s := by
  induction h with
  | init cfg tops choices hws _ => exact .init cfg tops choices hws
  | step _ ih => exact .step ih

theorem TReach.ti {s : State} (h : TReach s) : TI s := by
  induction h with
  | init cfg tops choices hws htree => exact TI_init cfg tops choices hws htree
  | @step s hs ih =>
    refine TI_step s ih ?_
    intro t old rest hctl
    exact lt_of_kind_task s t ((P2.pinv_reach hs.ws.reach).genKind t (by rw [hctl]; simp [P2.gens]))

theorem treach_of_reachFrom {cfg : Cfg} {tops : List (Conv × Body)} {choices : List (Nat × Nat)} {s : State}
    (h : P13.ReachFrom (initState cfg tops choices) s) (hws : ∀ p, p ∈ tops → P10.WellScoped p.2 0 0 = true)
    (htree : ∀ p, p ∈ tops → Spec.bodyShares p.2 = false) : TReach s := by
  induction h with
  | init => exact .init cfg tops choices hws htree
  | step _ ih => exact .step ih

theorem treach_runFuel (cfg : Cfg) (tops : List (Conv × Body)) (choices : List (Nat × Nat)) (n : Nat)
    (hws : ∀ p, p ∈ tops → P10.WellScoped p.2 0 0 = true) (htree : ∀ p, p ∈ tops → Spec.bodyShares p.2 = false) :
    TReach (runFuel n (initState cfg tops choices)) :=
  treach_of_reachFrom (P13.reachFrom_runFuel _ n) hws htree

/-! ### the spine of a reachable state -/

structure Spine (s : State) (L : List (Nat × Nat)) : Prop where
  stk : L.map Prod.fst = s.stack
  lab : LabA s L
  heads : Heads s L
  bot : ∀ x, L.getLast? = some x → s.curTop = some x.1
  hinv : P10.HInv s
  en : EN s

theorem spine_reach {s : State} (h : P10.WSReach s) (hg : s.guardFired = false) : ∃ L, Spine s L := by
  obtain ⟨L, hL, hlab, hh, hbot⟩ := LabIA_reach' h hg
  have sr := (P13.inv13_of_reach h.reach { (default : Spec.Ctx) with cfg := s.cfg } rfl).sr
  exact ⟨L, hL, hlab, hh, fun x hx => curTop_of_bottom s.ctl x.1 sr.bur (hbot x hx), (P10.ws_hinv h).1, EN_reach h⟩

variable {s : State} {L : List (Nat × Nat)}

/-- every label has active contexts, unless the stack has a single entry (which is then its own label) -/
theorem Spine.label_active (sp : Spine s L) {q : Nat} (hq : q ∈ L.map Prod.snd) :
    (s.task q).ctxActive = true ∨ L = [(q, q)] := by
  rcases label_link L sp.lab q hq with ⟨a, h⟩ | h
  · exact .inl h.2
  · exact .inr h

/-- while the generator of `u` runs (`u` is then the top entry): `u` and every label have active contexts -/
theorem Spine.active (sp : Spine s L) (hr : Reach s) {u : Nat} {old : Option Nat} {rest : List Ctl}
    (hctl : s.ctl = .gen u old :: rest) (hhead : s.stack.head? = some u) {t : Nat}
    (ht : t = u ∨ t ∈ L.map Prod.snd) : (s.task t).ctxActive = true := by
  have hu : (s.task u).ctxActive = true := (P2.pinv_reach hr).rca u (by rw [hctl]; simp [P2.gens])
  rcases ht with rfl | ht
  · exact hu
  · rcases sp.label_active ht with h | h
    · exact h
    · have : s.stack = [t] := by rw [← sp.stk, h]; rfl
      rw [this] at hhead
      simp only [List.head?_cons, Option.some.injEq] at hhead
      rw [hhead]; exact hu

/-- an uncomputed task with active contexts is the top entry or a label -/
theorem Spine.only (sp : Spine s L) {o : Nat} (hk : (s.fut o).kind = .task) (ha : (s.task o).ctxActive = true)
    (hc : s.computed o = false) : s.stack.head? = some o ∨ o ∈ L.map Prod.snd := sp.heads o hk ha hc

/-- every label waits for the top entry (no tree shape needed) -/
theorem Spine.label_awaits (sp : Spine s L) {top : Nat} (hhead : s.stack.head? = some top) {q : Nat}
    (hq : q ∈ L.map Prod.snd) : awaitsStar s q top := by
  cases hL : L with
  | nil => rw [hL] at hq; cases hq
  | cons x L' =>
    obtain ⟨a, pa⟩ := x
    have hst := sp.stk
    rw [hL] at hst
    have : a = top := by
      rw [← hst] at hhead
      simpa using hhead
    subst this
    exact Lab.star_top (LabA.toLab _ (hL ▸ sp.lab)) rfl (hL ▸ hq)

/-- **tree shape**: a task with a path of names to a stack entry is that entry or a label -/
theorem Spine.tree_named (sp : Spine s L) (ti : TI s) {t a : Nat} (h : NStar s t a) (ha : a ∈ s.stack) :
    t = a ∨ t ∈ L.map Prod.snd := by
  refine nstar_spine (fun p q a => ti.named_unique) (fun p a hl => named_of_link sp.hinv sp.en hl) sp.lab ?_ h ?_
  · intro x hx p
    exact ti.root_unnamed (sp.bot x hx) p
  · rw [← sp.stk] at ha
    obtain ⟨x, hx, rfl⟩ := List.mem_map.1 ha
    exact ⟨x.2, hx⟩

/-- ... in particular every task that waits for it -/
theorem Spine.tree (sp : Spine s L) (ti : TI s) {t a : Nat} (h : awaitsStar s t a) (ha : a ∈ s.stack) :
    t = a ∨ t ∈ L.map Prod.snd :=
  sp.tree_named ti (nstar_of_awaitsStar sp.hinv sp.en h) ha

/-! ### contexts -/

/-- an open with-block of `t` whose context is not a NonAsyncContext: registered with `t`, owned by `t`, and resumed
    iff the contexts of `t` are active -/
theorem open_flag (hr : Reach s) (hg : s.guardFired = false) {t c : Nat}
    (hc : c ∈ (s.task t).conts.map (·.1)) :
    c ∈ (s.task t).ctxs ∧ ∃ x, s.ctxs[c]? = some x ∧ x.owner = some t ∧
      (x.kind ≠ .nonasync → x.resumed = (s.task t).ctxActive) := by
  obtain ⟨hreg, _⟩ := C06_block_registered s hr hg t c hc
  obtain ⟨x, hx, ho, hk⟩ := (C06_flags_strong s hr).1 t c hreg
  refine ⟨hreg, x, hx, ho, fun hne => ?_⟩
  rcases hk with hk | hk
  · exact absurd hk hne
  · exact hk

/-- a task with an open with-block is an uncomputed task -/
theorem open_live (hr : Reach s) (hg : s.guardFired = false) {t c : Nat} (hc : c ∈ (s.task t).conts.map (·.1)) :
    (s.fut t).kind = .task ∧ s.computed t = false := by
  refine (C06_registered_iff_open s hr hg t c).2 ?_
  intro h0; rw [h0] at hc; cases hc

end AsynqModel.Core.P26
