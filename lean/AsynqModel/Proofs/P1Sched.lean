import AsynqModel.Proofs.P1Flush
/-!
  The scheduler flush (`schedulerFlush`) in closed form.
-/
namespace AsynqModel.Core.P1
open AsynqModel.Core

theorem filter_idem {α} (p : α → Bool) (l : List α) : (l.filter p).filter p = l.filter p := by
  simp [List.filter_filter]

/-- the state `schedulerFlush` works in: unflushable batches dropped from `_batches`, control back at the loop head -/
def pruned (s : State) (root : Nat) : State :=
  { s with sbatches := s.flushable, ctl := .waitEnter root :: s.ctl.tail }

theorem flushable_pruned (s : State) (root : Nat) : (pruned s root).flushable = s.flushable :=
  filter_idem _ _

theorem admissible_pruned (s : State) (root : Nat) (c : Nat × Nat) : (pruned s root).admissible c = s.admissible c := by
  unfold State.admissible
  rw [flushable_pruned]
  rfl

theorem defaultChoice_pruned (s : State) (root : Nat) : (pruned s root).defaultChoice = s.defaultChoice := by
  unfold State.defaultChoice
  rw [flushable_pruned]
  have : (pruned s root).admissible = s.admissible := funext (admissible_pruned s root)
  rw [this]

def pick (s : State) : Option (Nat × Nat) :=
  match s.choices with
  | c :: _ => some c
  | [] => s.defaultChoice

def flushWith (s : State) (root : Nat) (c : Nat × Nat) (b : Batch) : State :=
  ((({ s with sbatches := s.flushable.erase c, ctl := .waitEnter root :: s.ctl.tail, choices := s.choices.tail } : State).emit
     (.flushB c.1 c.2 b.items (s.batchPrio b) (s.pendingOf (s.flushable.erase c)))).flushBatch c.1 c.2).emit (.flushE c.1 c.2)

theorem schedulerFlush_cases (s : State) (root : Nat) (hfl : s.flushable ≠ []) :
    (∃ m, s.schedulerFlush root = (pruned s root).fail m ∧ ∀ c, pick s = some c → s.admissible c = false) ∨
    ∃ c b, pick s = some c ∧ s.admissible c = true ∧ s.batch? c.1 c.2 = some b ∧
      s.schedulerFlush root = flushWith s root c b := by
  have hemp : s.flushable.isEmpty = false := by cases h : s.flushable <;> simp_all
  unfold State.schedulerFlush
  simp only [hemp, Bool.false_eq_true, if_false]
  have hp : ({ s with sbatches := s.flushable, ctl := .waitEnter root :: s.ctl.tail } : State) = pruned s root := rfl
  simp only [hp, defaultChoice_pruned, admissible_pruned]
  have hb : ∀ k q, (pruned s root).batch? k q = s.batch? k q := fun _ _ => rfl
  simp only [hb]
  cases hch : s.choices with
  | nil =>
    simp only []
    have hpick : pick s = s.defaultChoice := by simp [pick, hch]
    cases hd : s.defaultChoice with
    | none => exact Or.inl ⟨_, rfl, by simp [hpick, hd]⟩
    | some c =>
      simp only []
      cases ha : s.admissible c with
      | false =>
        refine Or.inl ⟨_, rfl, ?_⟩
        intro c' hc'
        rw [hpick, hd] at hc'
        cases hc'
        exact ha
      | true =>
        simp only [Bool.not_true, Bool.false_eq_true, if_false]
        cases hbq : s.batch? c.1 c.2 with
        | none =>
          exfalso
          simp [State.admissible, hbq] at ha
        | some b =>
          refine Or.inr ⟨c, b, ?_, ha, hbq, ?_⟩
          · simp [pick, hch, hd]
          · simp only [flushWith, hch, List.tail]
            rfl
  | cons c cs =>
    simp only []
    have hpick : pick s = some c := by simp [pick, hch]
    cases ha : s.admissible c with
    | false =>
      refine Or.inl ⟨_, rfl, ?_⟩
      intro c' hc'
      rw [hpick] at hc'
      cases hc'
      exact ha
    | true =>
      simp only [Bool.not_true, Bool.false_eq_true, if_false]
      cases hbq : s.batch? c.1 c.2 with
      | none =>
        exfalso
        simp [State.admissible, hbq] at ha
      | some b =>
        refine Or.inr ⟨c, b, ?_, ha, hbq, ?_⟩
        · simp [pick, hch]
        · simp only [flushWith, hch, List.tail]
          rfl

end AsynqModel.Core.P1
