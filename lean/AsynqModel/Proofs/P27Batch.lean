import AsynqModel.Proofs.P27Step
/-
  P6 (property C04), part 6: the batch bookkeeping invariant `InvB`:
  every uncomputed batch item belongs to an unflushed batch that is found under its (kind, seq) key, and the
  current batch of a kind has the largest sequence number of its kind and is not flushed.
-/
namespace AsynqModel.Core.P27
open AsynqModel.Core.P6
open AsynqModel.Core

/-! ### list facts about `curBatchL` and `find?` -/

def keyP (k q : Nat) (b : Batch) : Bool := b.kind == k && b.seq == q

theorem batch?_eq (s : State) (k q : Nat) : s.batch? k q = s.batches.find? (keyP k q) := rfl

theorem curBatchL_append (l : List Batch) (x : Batch) (k : Nat) :
    curBatchL (l ++ [x]) k = if x.kind == k then some x else curBatchL l k := by
  unfold curBatchL
  rw [List.filter_append]
  by_cases h : x.kind == k
  · simp [h]
  · simp [h]

theorem curBatchL_mem {l : List Batch} {k : Nat} {b : Batch} (h : curBatchL l k = some b) : b ∈ l ∧ b.kind = k := by
  unfold curBatchL at h
  have := List.mem_of_getLast? h
  rw [List.mem_filter] at this
  exact ⟨this.1, by simpa using this.2⟩

theorem curBatchL_none {l : List Batch} {k : Nat} (h : curBatchL l k = none) : ∀ b ∈ l, b.kind ≠ k := by
  unfold curBatchL at h
  rw [List.getLast?_eq_none_iff] at h
  intro b hb hk
  have : b ∈ l.filter (fun b => b.kind == k) := List.mem_filter.2 ⟨hb, by simp [hk]⟩
  rw [h] at this
  cases this

theorem curBatchL_map (l : List Batch) (g : Batch → Batch) (hg : ∀ b, (g b).kind = b.kind) (k : Nat) :
    curBatchL (l.map g) k = (curBatchL l k).map g := by
  unfold curBatchL
  rw [List.filter_map]
  have : ((fun b => b.kind == k) ∘ g) = (fun b => b.kind == k) := by
    funext b; simp [hg b]
  rw [this, List.getLast?_map]

theorem find?_map_key (l : List Batch) (g : Batch → Batch) (p : Batch → Bool) (hg : ∀ b, p (g b) = p b) :
    (l.map g).find? p = (l.find? p).map g := by
  induction l with
  | nil => rfl
  | cons a l ih =>
    simp only [List.map_cons, List.find?_cons, hg a]
    split
    · rfl
    · exact ih

theorem find?_map_fix (l : List Batch) (g : Batch → Batch) (p : Batch → Bool) (hg : ∀ b, p (g b) = p b)
    (hfix : ∀ b, p b = true → g b = b) : (l.map g).find? p = l.find? p := by
  rw [find?_map_key l g p hg]
  cases h : l.find? p with
  | none => rfl
  | some b => simp [hfix b (List.find?_some h)]

theorem find?_append_some {l : List Batch} {p : Batch → Bool} {b : Batch} (h : l.find? p = some b) (l2 : List Batch) :
    (l ++ l2).find? p = some b := by
  rw [List.find?_append, h]; rfl

/-- the current batch of every kind has the largest sequence number of the kind; batches carrying that number are
    not flushed -/
def CurOK (l : List Batch) : Prop :=
  ∀ k cur, curBatchL l k = some cur → ∀ b ∈ l, b.kind = k → b.seq ≤ cur.seq ∧ (b.seq = cur.seq → b.flushed = false)

theorem CurOK.append_first {l : List Batch} (h : CurOK l) (k : Nat) (hk : curBatchL l k = none) :
    CurOK (l ++ [({ kind := k, seq := 0 } : Batch)]) := by
  intro k' cur hcur b hb hbk
  rw [curBatchL_append] at hcur
  rcases List.mem_append.1 hb with hb | hb
  · by_cases hkk : k = k'
    · subst hkk
      exact absurd hbk (curBatchL_none hk b hb)
    · have : ((({ kind := k, seq := 0 } : Batch).kind == k') = false) := by simpa using hkk
      rw [this] at hcur
      exact h k' cur hcur b hb hbk
  · simp at hb
    subst hb
    simp at hbk
    subst hbk
    simp at hcur
    subst hcur
    exact ⟨Nat.le_refl _, fun _ => rfl⟩

theorem CurOK.append_next {l : List Batch} (h : CurOK l) (k q : Nat) (c : Batch) (hc : curBatchL l k = some c)
    (hq : c.seq = q) : CurOK (l ++ [({ kind := k, seq := q + 1 } : Batch)]) := by
  intro k' cur hcur b hb hbk
  rw [curBatchL_append] at hcur
  by_cases hkk : k = k'
  · subst hkk
    simp at hcur
    subst hcur
    rcases List.mem_append.1 hb with hb | hb
    · have := (h k c hc b hb hbk).1
      exact ⟨by simp; omega, fun e => by simp at e; omega⟩
    · simp at hb; subst hb
      exact ⟨Nat.le_refl _, fun _ => rfl⟩
  · have hf : ((({ kind := k, seq := q + 1 } : Batch).kind == k') = false) := by simpa using hkk
    rw [hf] at hcur
    rcases List.mem_append.1 hb with hb | hb
    · exact h k' cur hcur b hb hbk
    · simp at hb; subst hb
      exact absurd hbk hkk

/-- updating batches in place, keeping their keys and (for the batches that may be current) their flushed bit -/
theorem CurOK.map {l : List Batch} (h : CurOK l) (g : Batch → Batch)
    (hg : ∀ b, (g b).kind = b.kind ∧ (g b).seq = b.seq)
    (hfl : ∀ k cur b, curBatchL l k = some cur → b ∈ l → b.kind = k → b.seq = cur.seq → (g b).flushed = b.flushed) :
    CurOK (l.map g) := by
  intro k cur hcur b hb hbk
  rw [curBatchL_map l g (fun b => (hg b).1)] at hcur
  cases hc : curBatchL l k with
  | none => rw [hc] at hcur; cases hcur
  | some c =>
    rw [hc] at hcur
    simp at hcur
    subst hcur
    obtain ⟨b0, hb0, rfl⟩ := List.mem_map.1 hb
    rw [(hg b0).1] at hbk
    rw [(hg b0).2, (hg c).2]
    have := h k c hc b0 hb0 hbk
    refine ⟨this.1, fun e => ?_⟩
    rw [hfl k c b0 hc hb0 hbk e]
    exact this.2 e

/-! ### the invariant -/

structure InvB (s : State) : Prop where
  item : ∀ f k q p m, (view s f).kind = .item k q p m → (view s f).out = none →
    ∃ b, s.batch? k q = some b ∧ b.flushed = false ∧ f ∈ b.items
  cur : CurOK s.batches

theorem invB_init (cfg : Cfg) (tops : List (Conv × Body)) (choices : List (Nat × Nat)) :
    InvB (initState cfg tops choices) := by
  refine ⟨?_, ?_⟩
  · intro f k q p m hk _
    have : view (initState cfg tops choices) f = dview := view_ge _ _ (Nat.zero_le _)
    rw [this] at hk; cases hk
  · intro k cur hcur
    simp [initState, curBatchL] at hcur

/-- the batches are untouched and every uncomputed item of `r` was the same uncomputed item in `s` -/
theorem InvB.of_same_batches {s r : State} (h : InvB s) (hb : r.batches = s.batches)
    (hv : ∀ f k q p m, (view r f).kind = .item k q p m → (view r f).out = none →
      (view s f).kind = .item k q p m ∧ (view s f).out = none) : InvB r := by
  refine ⟨?_, by rw [hb]; exact h.cur⟩
  intro f k q p m hk ho
  obtain ⟨h1, h2⟩ := hv f k q p m hk ho
  rw [batch?_eq, hb]
  exact h.item f k q p m h1 h2

theorem Upd1S.view_cases {s r : State} {t : Nat} {v' : FV} (U : Upd1S s r t v') (f : Nat) :
    (f = t ∧ view r f = v') ∨ (f ≠ t ∧ view r f = view s f) := by
  by_cases h : f = t
  · subst h; exact Or.inl ⟨rfl, U.viewT⟩
  · exact Or.inr ⟨h, U.viewO f h⟩

theorem Upd2.view_cases {s r : State} {t : Nat} {v' nv : FV} (U : Upd2 s r t v' nv) (f : Nat) :
    (f = t ∧ view r f = v') ∨ (f = s.futs.length ∧ view r f = nv) ∨
      (f ≠ t ∧ f ≠ s.futs.length ∧ view r f = view s f) := by
  by_cases h : f = t
  · subst h; exact Or.inl ⟨rfl, U.viewT⟩
  · by_cases h2 : f = s.futs.length
    · subst h2; exact Or.inr (Or.inl ⟨rfl, U.viewN⟩)
    · exact Or.inr (Or.inr ⟨h, h2, U.viewO f h h2⟩)

theorem InvB.of_upd1 {s r : State} {t : Nat} {v' : FV} (h : InvB s) (U : Upd1S s r t v')
    (hk : v'.kind = (view s t).kind) (ho : v'.out = (view s t).out ∨ v'.out ≠ none) : InvB r := by
  refine h.of_same_batches U.batches ?_
  intro f k q p m hkf hof
  rcases U.view_cases f with ⟨rfl, e⟩ | ⟨_, e⟩
  · rw [e] at hkf hof
    rcases ho with ho | ho
    · exact ⟨hk ▸ hkf, ho ▸ hof⟩
    · exact absurd hof ho
  · rw [e] at hkf hof; exact ⟨hkf, hof⟩

theorem InvB.of_upd2 {s r : State} {t : Nat} {v' nv : FV} (h : InvB s) (U : Upd2 s r t v' nv)
    (hb : r.batches = s.batches) (hk : v'.kind = (view s t).kind) (ho : v'.out = (view s t).out)
    (hn : ∀ k q p m, nv.kind ≠ .item k q p m) : InvB r := by
  refine h.of_same_batches hb ?_
  intro f k q p m hkf hof
  rcases U.view_cases f with ⟨rfl, e⟩ | ⟨rfl, e⟩ | ⟨_, _, e⟩
  · rw [e] at hkf hof; exact ⟨hk ▸ hkf, ho ▸ hof⟩
  · rw [e] at hkf; exact absurd hkf (hn k q p m)
  · rw [e] at hkf hof; exact ⟨hkf, hof⟩

def addItemIf (kind seq f : Nat) (b : Batch) : Batch :=
  if b.kind == kind && b.seq == seq then { b with items := b.items ++ [f] } else b

theorem addItemIf_spec (kind seq f : Nat) (b : Batch) :
    (addItemIf kind seq f b).kind = b.kind ∧ (addItemIf kind seq f b).seq = b.seq ∧
    (addItemIf kind seq f b).flushed = b.flushed ∧ ∀ i ∈ b.items, i ∈ (addItemIf kind seq f b).items := by
  unfold addItemIf
  split
  · exact ⟨rfl, rfl, rfl, fun i hi => List.mem_append_left _ hi⟩
  · exact ⟨rfl, rfl, rfl, fun i hi => hi⟩

theorem addItemIf_mem (kind seq f : Nat) (b : Batch) (h1 : b.kind = kind) (h2 : b.seq = seq) :
    f ∈ (addItemIf kind seq f b).items := by
  unfold addItemIf
  rw [if_pos (by simp [h1, h2])]
  simp

/-- the `item` instruction -/
theorem InvB.of_item {s r : State} {t : Nat} {v' : FV} {kind seq payload : Nat} {mode : ItemMode} (h : InvB s)
    (U : Upd2 s r t v' (plainView (.item kind seq payload mode) none))
    (hb : ItemBatches s.batches r.batches kind seq s.futs.length)
    (hk : v'.kind = (view s t).kind) (ho : v'.out = (view s t).out) : InvB r := by
  obtain ⟨l1, cur, hl1, hcur, hseq, hnew⟩ := hb
  have hl1ok : CurOK l1 := by
    rcases hl1 with rfl | ⟨hnone, rfl⟩
    · exact h.cur
    · exact h.cur.append_first kind hnone
  -- lookups in the old list survive in `l1`
  have hfind : ∀ k q b, s.batches.find? (keyP k q) = some b → l1.find? (keyP k q) = some b := by
    intro k q b hb
    rcases hl1 with rfl | ⟨_, rfl⟩
    · exact hb
    · exact find?_append_some hb _
  let g : Batch → Batch := addItemIf kind seq s.futs.length
  have hg : ∀ b, (g b).kind = b.kind ∧ (g b).seq = b.seq ∧ (g b).flushed = b.flushed ∧ ∀ i ∈ b.items, i ∈ (g b).items :=
    fun b => addItemIf_spec kind seq s.futs.length b
  have hkey : ∀ k q b, keyP k q (g b) = keyP k q b := by
    intro k q b; unfold keyP; rw [(hg b).1, (hg b).2.1]
  have hnew' : r.batches = l1.map g := hnew
  refine ⟨?_, ?_⟩
  · intro f k q p m hkf hof
    rw [batch?_eq, hnew', find?_map_key l1 g _ (hkey k q)]
    rcases U.view_cases f with ⟨rfl, e⟩ | ⟨rfl, e⟩ | ⟨_, _, e⟩
    · rw [e] at hkf hof
      obtain ⟨b, hb1, hb2, hb3⟩ := h.item f k q p m (hk ▸ hkf) (ho ▸ hof)
      rw [hfind k q b hb1]
      exact ⟨g b, rfl, by rw [(hg b).2.2.1]; exact hb2, (hg b).2.2.2 f hb3⟩
    · rw [e] at hkf
      have hkf' : FKind.item kind seq payload mode = FKind.item k q p m := hkf
      injection hkf' with e1 e2 e3 e4
      subst e1 e2
      -- the current batch carries the key, so the lookup succeeds with an unflushed batch
      obtain ⟨hcm, hck⟩ := curBatchL_mem hcur
      have hex : (l1.find? (keyP kind seq)).isSome = true := by
        rw [List.find?_isSome]
        exact ⟨cur, hcm, by simp [keyP, hck, hseq]⟩
      cases hf : l1.find? (keyP kind seq) with
      | none => rw [hf] at hex; cases hex
      | some b0 =>
        have hp := List.find?_some hf
        have hm := List.mem_of_find?_eq_some hf
        simp [keyP] at hp
        refine ⟨g b0, rfl, ?_, ?_⟩
        · rw [(hg b0).2.2.1]
          exact (hl1ok kind cur hcur b0 hm hp.1).2 (by rw [hp.2, hseq])
        · exact addItemIf_mem kind seq s.futs.length b0 hp.1 hp.2
    · rw [e] at hkf hof
      obtain ⟨b, hb1, hb2, hb3⟩ := h.item f k q p m hkf hof
      rw [hfind k q b hb1]
      exact ⟨g b, rfl, by rw [(hg b).2.2.1]; exact hb2, (hg b).2.2.2 f hb3⟩
  · rw [hnew']
    exact hl1ok.map g (fun b => ⟨(hg b).1, (hg b).2.1⟩) (fun _ _ b _ _ _ _ => (hg b).2.2.1)

theorem keyP_iff {k q : Nat} {b : Batch} : keyP k q b = true ↔ b.kind = k ∧ b.seq = q := by simp [keyP]

/-- the scheduler flush -/
theorem InvB.of_flush {s r : State} (h : InvB s) (F : FlushDesc s r) : InvB r := by
  have hview : ∀ f k q p m, (view r f).kind = .item k q p m → (view r f).out = none →
      (view s f).kind = .item k q p m ∧ (view s f).out = none := by
    intro f k q p m hk ho
    rcases F.view f with e | ⟨_, o, e⟩
    · rw [e] at hk ho; exact ⟨hk, ho⟩
    · rw [e] at ho; cases ho
  rcases F.batches with hb | ⟨k, q, b, hb, hcomp, l1, g, hl1, hg, hnew⟩
  · exact h.of_same_batches hb hview
  · let g' : Batch → Batch := fun b' => if b'.kind == k && b'.seq == q then g b' else b'
    have hg' : ∀ b0, (g' b0).kind = b0.kind ∧ (g' b0).seq = b0.seq := by
      intro b0
      show (if b0.kind == k && b0.seq == q then g b0 else b0).kind = _ ∧
        (if b0.kind == k && b0.seq == q then g b0 else b0).seq = _
      split
      · exact ⟨(hg b0).1, (hg b0).2.1⟩
      · exact ⟨rfl, rfl⟩
    have hfix : ∀ b0, keyP k q b0 = false → g' b0 = b0 := by
      intro b0 hb0
      show (if b0.kind == k && b0.seq == q then g b0 else b0) = b0
      rw [if_neg (by simpa [keyP] using hb0)]
    have hnew' : r.batches = l1.map g' := hnew
    have hfind : ∀ k' q' b', s.batches.find? (keyP k' q') = some b' → l1.find? (keyP k' q') = some b' := by
      intro k' q' b' hb'
      rcases hl1 with ⟨_, rfl⟩ | ⟨_, rfl⟩
      · exact find?_append_some hb' _
      · exact hb'
    refine ⟨?_, ?_⟩
    · intro f k' q' p m hk ho
      obtain ⟨hk0, ho0⟩ := hview f k' q' p m hk ho
      obtain ⟨b1, hb1, hb2, hb3⟩ := h.item f k' q' p m hk0 ho0
      by_cases hkey : k' = k ∧ q' = q
      · obtain ⟨rfl, rfl⟩ := hkey
        rw [hb] at hb1
        cases hb1
        have hlt : f < s.futs.length := lt_of_kind_ne_const s f (by rw [hk0]; simp)
        have := hcomp f hb3 hlt
        rw [computed_eq_view, ho] at this
        cases this
      · rw [batch?_eq, hnew']
        rw [find?_map_fix l1 g' (keyP k' q')]
        · exact ⟨b1, hfind k' q' b1 hb1, hb2, hb3⟩
        · intro b0; unfold keyP; rw [(hg' b0).1, (hg' b0).2]
        · intro b0 hb0
          apply hfix
          cases hkq : keyP k q b0
          · rfl
          · have h1 := keyP_iff.1 hb0
            have h2 := keyP_iff.1 hkq
            exact absurd ⟨h1.1.symm.trans h2.1, h1.2.symm.trans h2.2⟩ hkey
    · rw [hnew']
      rcases hl1 with ⟨⟨c, hc, hcq⟩, rfl⟩ | ⟨hno, rfl⟩
      · refine (h.cur.append_next k q c hc hcq).map g' hg' ?_
        intro k0 cur b0 hcur hb0 hbk hbs
        cases hkq : keyP k q b0
        · rw [hfix b0 hkq]
        · have h2 := keyP_iff.1 hkq
          rw [curBatchL_append] at hcur
          have : k0 = k := hbk.symm.trans h2.1
          subst this
          simp at hcur
          subst hcur
          simp at hbs
          omega
      · refine h.cur.map g' hg' ?_
        intro k0 cur b0 hcur hb0 hbk hbs
        cases hkq : keyP k q b0
        · rw [hfix b0 hkq]
        · have h2 := keyP_iff.1 hkq
          have : k0 = k := hbk.symm.trans h2.1
          subst this
          exact absurd (hbs.symm.trans h2.2) (hno cur hcur)

/-- `InvB` is preserved by every step (the running task must be a task) -/
theorem invB_step {s r : State} (h : InvB s) (d : Desc s r) : InvB r := by
  have same : ∀ {r' : State}, Same s r' → InvB r' := fun e =>
    h.of_same_batches e.batches (fun f k q p m hk ho => by rw [e.view f] at hk ho; exact ⟨hk, ho⟩)
  cases d with
  | quiet e _ _ => exact same e
  | top conv body rest _ _ U _ _ =>
    refine h.of_same_batches U.batches ?_
    intro f k q p m hk ho
    by_cases hf : f = s.futs.length
    · subst hf; rw [U.viewN] at hk; cases hk
    · rw [U.viewO f hf] at hk ho; exact ⟨hk, ho⟩
  | ret _ _ _ e _ _ => exact same e
  | enterLoop _ _ _ _ e _ _ => exact same e
  | pop _ _ _ _ _ e _ _ => exact same e
  | popLazy _ top st _ lo _ _ U _ _ => exact h.of_upd1 U rfl (Or.inr (by simp [doneView]))
  | second _ top st _ _ _ _ _ _ U _ _ => exact h.of_upd1 U rfl (Or.inl rfl)
  | naFail _ top st _ _ _ _ _ _ U _ _ => exact h.of_upd1 U rfl (Or.inr (by simp [finishView]))
  | first _ top st _ _ _ _ _ U _ _ => exact h.of_upd1 U rfl (Or.inl rfl)
  | enterGen _ _ _ _ _ _ _ e _ _ _ => exact same e
  | gen t old rest _ d =>
    cases d with
    | loc v' hu _ hkind hout _ _ _ _ _ _ _ _ _ => exact h.of_upd1 hu.toS hkind (Or.inl hout)
    | spawn child k pass _ _ hu _ hbat _ _ => exact h.of_upd2 hu hbat rfl rfl (by intro _ _ _ _ hh; cases hh)
    | item kind payload mode k seq _ _ hu _ hbat _ => exact h.of_item hu hbat rfl rfl
    | other k kd out _ _ hu _ hbat _ hkd =>
      refine h.of_upd2 hu hbat rfl rfl ?_
      intro a b c e hh
      have hh' : kd = .item a b c e := hh
      rcases hkd with ⟨h1, _⟩ | ⟨h1, _⟩ | ⟨⟨o, h1⟩, _⟩ <;> rw [h1] at hh' <;> cases hh'
    | yield ry npy nd leave _ _ _ _ hu _ => exact h.of_upd1 hu.toS rfl (Or.inl rfl)
    | finish o _ hu _ => exact h.of_upd1 hu.toS rfl (Or.inr (by simp [finishView]))
  | flush _ _ _ _ _ _ F _ => exact h.of_flush F

end AsynqModel.Core.P27
