import AsynqModel.Proofs.P1Inv
/-!
  `_select_batch_to_flush` always finds a batch: a non-empty list has an element of maximal priority, so with a silent
  oracle the scheduler flush never gets stuck.
-/
namespace AsynqModel.Core.P1
open AsynqModel.Core

theorem prioLt_irrefl (a : Nat × Nat) : prioLt a a = false := by
  simp [prioLt]

theorem prioLt_trans {a b c : Nat × Nat} (h1 : prioLt a b = true) (h2 : prioLt b c = true) : prioLt a c = true := by
  simp only [prioLt, Bool.or_eq_true, decide_eq_true_eq, Bool.and_eq_true, beq_iff_eq] at *
  omega

theorem exists_max {α : Type} (p : α → Nat × Nat) (l : List α) (h : l ≠ []) :
    ∃ m ∈ l, ∀ x ∈ l, prioLt (p m) (p x) = false := by
  induction l with
  | nil => exact absurd rfl h
  | cons a l ih =>
    by_cases hl : l = []
    · subst hl
      refine ⟨a, by simp, ?_⟩
      intro x hx
      simp only [List.mem_singleton] at hx
      subst hx
      exact prioLt_irrefl _
    · obtain ⟨m, hm, hmax⟩ := ih hl
      cases hma : prioLt (p m) (p a) with
      | false =>
        refine ⟨m, List.mem_cons_of_mem _ hm, ?_⟩
        intro x hx
        rcases List.mem_cons.1 hx with rfl | hx
        · exact hma
        · exact hmax x hx
      | true =>
        refine ⟨a, List.mem_cons_self, ?_⟩
        intro x hx
        rcases List.mem_cons.1 hx with rfl | hx
        · exact prioLt_irrefl _
        · cases hax : prioLt (p a) (p x) with
          | false => rfl
          | true =>
            have := prioLt_trans hma hax
            rw [hmax x hx] at this
            cases this

/-- the converse of `admissible_spec` -/
theorem admissible_of (s : State) (c : Nat × Nat) (b : Batch) (hc : c ∈ s.flushable) (hb : s.batch? c.1 c.2 = some b)
    (hmax : ∀ k q b', (k, q) ∈ s.flushable → s.batch? k q = some b' →
      prioLt (s.batchPrio b) (s.batchPrio b') = false) : s.admissible c = true := by
  simp only [State.admissible, Bool.and_eq_true, List.contains_iff_mem, hb, List.all_eq_true]
  refine ⟨hc, ?_⟩
  rintro ⟨k, q⟩ hkq
  cases hb' : s.batch? k q with
  | none => simp
  | some b' => simp [hmax k q b' hkq hb']

/-- with a non-empty set of flushable batches, the default choice exists and is admissible -/
theorem defaultChoice_some (s : State) (h : s.flushable ≠ []) :
    ∃ c, s.defaultChoice = some c ∧ s.admissible c = true := by
  let p : Nat × Nat → Nat × Nat := fun c =>
    match s.batch? c.1 c.2 with
    | some b => s.batchPrio b
    | none => (0, 0)
  obtain ⟨m, hm, hmax⟩ := exists_max p s.flushable h
  obtain ⟨_, b, hb, _, _⟩ := (mem_flushable s m.1 m.2).1 hm
  have hadm : s.admissible m = true := by
    refine admissible_of s m b hm hb ?_
    intro k q b' hkq hb'
    have := hmax (k, q) hkq
    simpa [p, hb, hb'] using this
  unfold State.defaultChoice
  cases hf : s.flushable.find? s.admissible with
  | none =>
    have := List.find?_eq_none.1 hf m hm
    rw [hadm] at this
    exact absurd rfl this
  | some c => exact ⟨c, rfl, List.find?_some hf⟩

end AsynqModel.Core.P1
