import AsynqModel.Core.Spec
/-!
# P22, part 1: `SeqSV` - a sequential reference semantics of scoped values

The frozen reference evaluator `Seq.evalBody` ignores `.read`: it has no environment of scoped values.  This file adds
the missing reference WITHOUT touching it: a plain sequential, depth-first evaluator of task programs that threads an
environment of scoped values and produces the LOG of reads.

"Sequential" means nested function calls:
* a task body is run like a function body; `withCtx (.override var val) b k` runs `b` in the environment extended by
  `var ↦ val` and `k` in the environment it had before the block (`endwith` = end of the block);
* `spawn child` only creates the callee (a coroutine object that has not started): nothing of it runs;
* the callee RUNS TO COMPLETION AT THE POINT OF ITS FIRST AWAIT: the first `yld` of its creator that contains it as a
  leaf, the `sync` call that creates it, or the first `syncfut` on it.  It runs inside the dynamic extent of the
  awaiting code: it inherits the environment of its awaiter AT THAT POINT (not the one at the `spawn`);
* a task that is never awaited never runs (it contributes no reads) - asynq does not start it either (C03).

Values and control flow do not depend on scoped values (`.read` only observes), so the outcomes of futures are those
of the frozen evaluator: `SeqSV.runBody` makes literally the same decisions as `Seq.evalBody`
(`SeqSV.runBody_erase`), it only adds the environment and the log.

Two levels:
* `runBody` evaluates ONE task body and returns its ACTIONS in program order: `read var val` and
  `call i child inh E` ("the i-th future I created is the task `child`; it runs now, with inherited outcomes `inh`,
  in environment `E`");
* `logFuel` / `log` expand the calls depth-first in place: the sequential log of `(creation path, var, value)`.
  The creation path of a task is the list of own-indices from the root: the root of the k-th top-level computation
  has path `[]`, the i-th future created by the task with path `π` has path `π ++ [i]`.
* `CalledAt` / `taskAt` / `readsAt`: the task the sequential evaluation calls at a given creation path and its own
  reads (`log_filter`: they are the entries of the log with that path, in order).
-/
namespace AsynqModel.Core.P22
open AsynqModel.Core

/-- environment of scoped values: the overrides in force, innermost first -/
abbrev SvEnv := List (Nat × Nat)

namespace SeqSV

/-- the value of `var`: the innermost override, default 0 -/
def get (E : SvEnv) (var : Nat) : Nat := (E.lookup var).getD 0

/-- entering a with-block -/
def push (E : SvEnv) : CtxKind → SvEnv
  | .override var val => (var, val) :: E
  | _ => E

abbrev Path := List Nat

/-- what one task body does, as far as scoped values are concerned -/
inductive Act where
  | read (var val : Nat)
  | call (i : Nat) (child : Body) (inh : List Outcome) (E : SvEnv)
  deriving Repr, Inhabited

/-- local state of a task body: as in `Seq.evalBody`, plus `kids`: the own futures that are tasks which have not
    run yet (with their bodies and inherited outcomes) -/
structure Loc where
  env : List Val := []
  own : List Outcome := []
  kids : List (Option (Body × List Outcome)) := []
  caught : Option Err := none
  prev : Y := .none
  deriving Inhabited

inductive Res where
  | done (o : Outcome)
  | fall (l : Loc)
  deriving Inhabited

def ownIdx (y : Y) : List Nat := y.leaves.filterMap fun | .own i => some i | .inh _ => none

/-- first await of the own futures with the given indices, in written order: tasks that have not run yet run now,
    in environment `E` -/
def await (E : SvEnv) : List (Option (Body × List Outcome)) → List Nat → List Act × List (Option (Body × List Outcome))
  | kids, [] => ([], kids)
  | kids, i :: is =>
    match kids[i]? with
    | some (some (b, inh)) =>
      let r := await E (kids.set i none) is
      (.call i b inh E :: r.1, r.2)
    | _ => await E kids is

def refIdx : Ref → List Nat
  | .own i => [i]
  | .inh _ => []

/-- sequential evaluation of one task body in scoped-value environment `E`: the decisions of `Seq.evalBody`, the
    actions in program order -/
def runBody (cfg : Cfg) : Body → SvEnv → List Outcome → Loc → List Act × Res
  | .ret tag, _, _, l => ([], .done (.ok (.node tag l.env)))
  | .res tag, _, _, l => ([], .done (.ok (.node tag l.env)))
  | .raise e, _, _, _ => ([], .done (.err (.u e)))
  | .reraise, _, _, l => ([], .done (.err (l.caught.getD (.u 0))))
  | .spawn child pass k, E, inh, l =>
    let ci := pass.map fun r => (resolveO l.own inh r).getD (.err .other)
    let o := (evalBody cfg child [] [] ci none .none).outcome
    runBody cfg k E inh { l with own := l.own ++ [o], kids := l.kids ++ [some (child, ci)] }
  | .item kind payload mode k, E, inh, l =>
    runBody cfg k E inh { l with own := l.own ++ [itemOutcome cfg kind payload mode], kids := l.kids ++ [none] }
  | .const v k, E, inh, l => runBody cfg k E inh { l with own := l.own ++ [.ok (.a v)], kids := l.kids ++ [none] }
  | .errfut e k, E, inh, l => runBody cfg k E inh { l with own := l.own ++ [.err (.u e)], kids := l.kids ++ [none] }
  | .lazy o k, E, inh, l => runBody cfg k E inh { l with own := l.own ++ [lazyOutcome o], kids := l.kids ++ [none] }
  | .yld y k h, E, inh, l =>
    let aw := await E l.kids (ownIdx y)
    let r := match unwrap (resolveO l.own inh) y with
      | .ok v => runBody cfg k E inh { l with env := l.env ++ [v], kids := aw.2, prev := y }
      | .error e => runBody cfg h E inh { l with caught := some e, kids := aw.2, prev := y }
    (aw.1 ++ r.1, r.2)
  | .reyld k h, E, inh, l =>
    -- the very object yielded last: everything in it was awaited by that yield (`await_again`: nothing is left to run)
    match unwrap (resolveO l.own inh) l.prev with
    | .ok v => runBody cfg k E inh { l with env := l.env ++ [v] }
    | .error e => runBody cfg h E inh { l with caught := some e }
  | .sync child pass k h, E, inh, l =>
    let ci := pass.map fun r => (resolveO l.own inh r).getD (.err .other)
    let o := (evalBody cfg child [] [] ci none .none).outcome
    let r := match o with
      | .ok v => runBody cfg k E inh { l with env := l.env ++ [v], own := l.own ++ [o], kids := l.kids ++ [none] }
      | .err e => runBody cfg h E inh { l with caught := some e, own := l.own ++ [o], kids := l.kids ++ [none] }
    (.call l.own.length child ci E :: r.1, r.2)
  | .syncfut rf k h, E, inh, l =>
    let aw := await E l.kids (refIdx rf)
    let r := match (resolveO l.own inh rf).getD (.err .other) with
      | .ok v => runBody cfg k E inh { l with env := l.env ++ [v], kids := aw.2 }
      | .err e => runBody cfg h E inh { l with caught := some e, kids := aw.2 }
    (aw.1 ++ r.1, r.2)
  | .syncret _ _ _, _, _, _ => ([], .done (.err .other))     -- not a source construct
  | .withCtx c b k, E, inh, l =>
    let r := runBody cfg b (push E c) inh l
    match r.2 with
    | .done o => (r.1, .done o)
    | .fall l' =>
      let r' := runBody cfg k E inh l'     -- the block is left: the environment is what it was before
      (r.1 ++ r'.1, r'.2)
  | .endwith, _, _, l => ([], .fall l)
  | .read var k, E, inh, l =>
    let r := runBody cfg k E inh l
    (.read var (get E var) :: r.1, r.2)
  | .active k, E, inh, l => runBody cfg k E inh l

/-- the actions of a whole task -/
def acts (cfg : Cfg) (b : Body) (inh : List Outcome) (E : SvEnv) : List Act := (runBody cfg b E inh {}).1

/-- the own reads among a list of actions -/
def reads : List Act → List (Nat × Nat)
  | [] => []
  | .read var val :: l => (var, val) :: reads l
  | .call _ _ _ _ :: l => reads l

/-- depth-first expansion of the calls: the sequential log.  The fuel bounds the call depth (a callee is a proper
    subterm of its caller's body, so `Body.depth` suffices: `log`). -/
def logFuel (cfg : Cfg) : Nat → Path → Body → List Outcome → SvEnv → List (Path × Nat × Nat)
  | 0, _, _, _, _ => []
  | n + 1, π, b, inh, E =>
    (acts cfg b inh E).flatMap fun
      | .read var val => [(π, var, val)]
      | .call i c ci E' => logFuel cfg n (π ++ [i]) c ci E'

/-- nesting depth of task bodies -/
def depth : Body → Nat
  | .spawn c _ k => max (depth c + 1) (depth k)
  | .sync c _ k h => max (depth c + 1) (max (depth k) (depth h))
  | .item _ _ _ k => depth k
  | .const _ k => depth k
  | .errfut _ k => depth k
  | .lazy _ k => depth k
  | .yld _ k h => max (depth k) (depth h)
  | .reyld k h => max (depth k) (depth h)
  | .syncfut _ k h => max (depth k) (depth h)
  | .syncret _ k h => max (depth k) (depth h)
  | .withCtx _ b k => max (depth b) (depth k)
  | .read _ k => depth k
  | .active k => depth k
  | _ => 0

/-- **the sequential log of reads** of a top-level computation: `(creation path, var, value)` in sequential order;
    all scoped values have their default at top level -/
def log (cfg : Cfg) (top : Body) : List (Path × Nat × Nat) := logFuel cfg (depth top + 1) [] top [] []

/-- the sequential evaluation of `(b, inh, E)` calls, at relative creation path `π`, the task `(b', inh', E')` -/
inductive CalledAt (cfg : Cfg) : Body → List Outcome → SvEnv → Path → Body → List Outcome → SvEnv → Prop
  | here (b : Body) (inh : List Outcome) (E : SvEnv) : CalledAt cfg b inh E [] b inh E
  | step {b : Body} {inh : List Outcome} {E : SvEnv} {π : Path} {b1 : Body} {inh1 : List Outcome} {E1 : SvEnv}
      {i : Nat} {b2 : Body} {inh2 : List Outcome} {E2 : SvEnv} :
      CalledAt cfg b inh E π b1 inh1 E1 → Act.call i b2 inh2 E2 ∈ acts cfg b1 inh1 E1 →
      CalledAt cfg b inh E (π ++ [i]) b2 inh2 E2

/-- the call with index `i` among a list of actions -/
def findCall (i : Nat) : List Act → Option (Body × List Outcome × SvEnv)
  | [] => none
  | .read _ _ :: l => findCall i l
  | .call j c ci E :: l => if j = i then some (c, ci, E) else findCall i l

/-- executable form of `CalledAt` -/
def taskAt (cfg : Cfg) : Body → List Outcome → SvEnv → Path → Option (Body × List Outcome × SvEnv)
  | b, inh, E, [] => some (b, inh, E)
  | b, inh, E, i :: π =>
    match findCall i (acts cfg b inh E) with
    | some (c, ci, E') => taskAt cfg c ci E' π
    | none => none

/-- **the reads of the task with creation path `π`** in the sequential evaluation of `top` (none if the sequential
    evaluation never runs such a task) -/
def readsAt (cfg : Cfg) (top : Body) (π : Path) : List (Nat × Nat) :=
  match taskAt cfg top [] [] π with
  | some (b, inh, E) => reads (acts cfg b inh E)
  | none => []

end SeqSV

end AsynqModel.Core.P22
