import AsynqModel.Proofs.P20Inv
import AsynqModel.Proofs.P6TTerm
/-
  P20 (termination with synchronous re-entry), part 3: the first component `M1` of the termination measure - the
  remaining program weight - for programs WITH synchronous calls.  The size `bsz` of a program counts a `sync` node 3
  and a `syncfut` node 2, so that the run-time instruction `syncret` they turn into is strictly smaller (and the
  child task of a `sync` is paid for).  Every instruction of a task body and every start of a top-level computation
  decreases `M1`; no scheduler-side step increases it.
-/
namespace AsynqModel.Core.P20
open AsynqModel.Core AsynqModel.Core.P6 AsynqModel.Core.P6T

def bsz : Body → Nat
  | .ret _ => 1
  | .res _ => 1
  | .raise _ => 1
  | .reraise => 1
  | .endwith => 1
  | .spawn c _ k => 2 + bsz c + bsz k
  | .item _ _ _ k => 1 + bsz k
  | .const _ k => 1 + bsz k
  | .errfut _ k => 1 + bsz k
  | .lazy _ k => 1 + bsz k
  | .yld _ k h => 1 + bsz k + bsz h
  | .reyld k h => 1 + bsz k + bsz h
  | .sync c _ k h => 3 + bsz c + bsz k + bsz h
  | .syncfut _ k h => 2 + bsz k + bsz h
  | .syncret _ k h => 1 + bsz k + bsz h
  | .withCtx _ b k => 1 + bsz b + bsz k
  | .read _ k => 1 + bsz k
  | .active k => 1 + bsz k

theorem bsz_pos (b : Body) : 0 < bsz b := by
  cases b <;> simp [bsz] <;> omega

def wsum (v : FV) : Nat := bsz v.body + (v.conts.map fun p => bsz p.2).sum

def tw (v : FV) : Nat := 2 * wsum v + (if v.started = false then 2 else if v.pending = true then 0 else 1)

def tval (s : State) (f : Nat) : Nat :=
  if (view s f).kind = .task ∧ (view s f).out = none then tw (view s f) else 0

def topsW (l : List (Conv × Body)) : Nat := (l.map fun p => 2 * bsz p.2 + 3).sum

def M1 (s : State) : Nat := topsW s.tops + rsum (tval s) s.futs.length

theorem tval_task {s : State} {f : Nat} (hk : (view s f).kind = .task) (ho : (view s f).out = none) :
    tval s f = tw (view s f) := by
  unfold tval; rw [if_pos ⟨hk, ho⟩]

theorem tval_computed {s : State} {f : Nat} (ho : (view s f).out ≠ none) : tval s f = 0 := by
  unfold tval; rw [if_neg (fun h => ho h.2)]

theorem tval_nontask {s : State} {f : Nat} (hk : (view s f).kind ≠ .task) : tval s f = 0 := by
  unfold tval; rw [if_neg (fun h => hk h.1)]

theorem tval_of_view {s r : State} {f : Nat} (e : view r f = view s f) : tval r f = tval s f := by
  unfold tval; rw [e]

theorem tval_le_tw (s : State) (f : Nat) : tval s f ≤ tw (view s f) := by
  unfold tval; split
  · exact Nat.le_refl _
  · exact Nat.zero_le _

theorem wsum_pos (v : FV) : 0 < wsum v := by
  unfold wsum
  have := bsz_pos v.body
  omega

theorem tw_pos (v : FV) : 0 < tw v := by
  unfold tw
  have := wsum_pos v
  omega

/-! ### comparing sums -/

theorem rsum_lt_of_le {a b : Nat → Nat} : ∀ n, (∀ f, f < n → a f ≤ b f) → (∃ t, t < n ∧ a t < b t) →
    rsum a n < rsum b n
  | 0, _, ⟨t, ht, _⟩ => by omega
  | n + 1, h, ⟨t, ht, hlt⟩ => by
    rw [rsum_succ, rsum_succ]
    have hn := h n (Nat.lt_succ_self n)
    have hle := rsum_le n (fun f hf => h f (Nat.lt_succ_of_lt hf))
    by_cases e : t = n
    · subst e; omega
    · have := rsum_lt_of_le n (fun f hf => h f (Nat.lt_succ_of_lt hf)) ⟨t, by omega, hlt⟩
      omega

theorem M1_same {s r : State} (e : Same s r) : M1 r = M1 s := by
  unfold M1
  rw [e.tops, e.len]
  congr 1
  exact rsum_congr _ (fun f _ => tval_of_view (e.view f))

theorem M1_le_of {s r : State} (hl : r.futs.length = s.futs.length) (ht : r.tops = s.tops)
    (h : ∀ f, tval r f ≤ tval s f) : M1 r ≤ M1 s := by
  unfold M1
  rw [ht, hl]
  exact Nat.add_le_add_left (rsum_le _ (fun f _ => h f)) _

theorem M1_lt_of {s r : State} {t : Nat} (hl : r.futs.length = s.futs.length) (ht : r.tops = s.tops)
    (h : ∀ f, f ≠ t → tval r f ≤ tval s f) (hlt : tval r t < tval s t) (htl : t < s.futs.length) : M1 r < M1 s := by
  unfold M1
  rw [ht, hl]
  apply Nat.add_lt_add_left
  apply rsum_lt_of_le
  · intro f _
    by_cases e : f = t
    · subst e; exact Nat.le_of_lt hlt
    · exact h f e
  · exact ⟨t, htl, hlt⟩

theorem M1_upd1_lt {s r : State} {t : Nat} {v' : FV} (U : Upd1S s r t v') (ht : t < s.futs.length)
    (h : tval r t < tval s t) : M1 r < M1 s :=
  M1_lt_of U.len U.tops (fun f hf => Nat.le_of_eq (tval_of_view (U.viewO f hf))) h ht

theorem M1_upd2_lt {s r : State} {t : Nat} {v' nv : FV} (U : Upd2 s r t v' nv) (ht : t < s.futs.length)
    (h : tval r t + tval r s.futs.length < tval s t) : M1 r < M1 s := by
  unfold M1
  rw [U.tops, U.len, rsum_succ]
  have := rsum_point (a := tval r) (b := tval s) s.futs.length
    (fun f hf hne => tval_of_view (U.viewO f hne (Nat.ne_of_lt hf))) ht
  omega

theorem M1_flushDesc_le {s r : State} (F : FlushDesc s r) : M1 r ≤ M1 s := by
  refine M1_le_of F.len F.tops ?_
  intro f
  rcases F.view f with e | ⟨_, o, e⟩
  · exact Nat.le_of_eq (tval_of_view e)
  · rw [tval_computed (s := r) (by rw [e]; simp [doneView])]
    exact Nat.zero_le _

/-! ### instructions -/

theorem tw_bstep {v v' : FV} (hpend : v'.pending = false)
    (hstart : v'.started = true ∨ (v.pending = false ∧ v'.started = v.started)) (hw : wsum v' < wsum v) :
    tw v' < tw v := by
  unfold tw
  rw [hpend]
  rcases hstart with h1 | ⟨h1, h2⟩
  · rw [h1]
    simp only [Bool.true_eq_false, if_false, Bool.false_eq_true]
    split <;> (try split) <;> omega
  · rw [h2, h1]
    simp only [Bool.false_eq_true, if_false]
    split <;> omega

theorem wsum_bstep {v v' : FV} (hbs : BStep v v') : wsum v' < wsum v := by
  unfold wsum
  cases hbs with
  | yld y k h hb hb' hc => rw [hc, hb]; rcases hb' with e | e <;> rw [e] <;> simp [bsz] <;> omega
  | reyld k h hb hb' hc => rw [hc, hb]; rcases hb' with e | e <;> rw [e] <;> simp [bsz] <;> omega
  | syncret f k h hb hb' hc => rw [hc, hb]; rcases hb' with e | e <;> rw [e] <;> simp [bsz] <;> omega
  | withCtx c b k cid hb hb' hc => rw [hc, hb, hb']; simp [bsz]; omega
  | endwith cid k rest hb hc0 hb' hc => rw [hc, hb, hb', hc0]; simp [bsz]
  | read var k hb hb' hc => rw [hc, hb, hb']; simp [bsz]
  | active k hb hb' hc => rw [hc, hb, hb']; simp [bsz]

/-- every instruction of a task body decreases `M1` -/
theorem M1_gd {s r : State} {t : Nat} (hO : InvO s) (hgk : (view s t).kind = .task) (hgo : (view s t).out = none)
    (d : GD s r t) : M1 r < M1 s := by
  have ht : t < s.futs.length := lt_of_view_task s t hgk
  have hvs : tval s t = tw (view s t) := tval_task hgk hgo
  cases d with
  | start hp hs hu =>
    refine M1_upd1_lt hu.toS ht ?_
    have : tval r t = tw (startView (view s t)) := by
      have := tval_task (s := r) (f := t) (by rw [hu.viewT]; exact hgk) (by rw [hu.viewT]; exact hgo)
      rw [this, hu.viewT]
    rw [this, hvs]
    unfold tw wsum startView
    simp only [hs]
    simp
  | loc v' hu hkind hout hpend hstart hnf hbs hsame hdeps =>
    refine M1_upd1_lt hu.toS ht ?_
    have : tval r t = tw v' := by
      have := tval_task (s := r) (f := t) (by rw [hu.viewT, hkind]; exact hgk) (by rw [hu.viewT, hout]; exact hgo)
      rw [this, hu.viewT]
    rw [this, hvs]
    exact tw_bstep hpend hstart (wsum_bstep hbs)
  | spawn child k pass hb hp hu hbat hnc hnk =>
    have hst := hO.sOfR t hp
    refine M1_upd2_lt hu ht ?_
    have h1 : tval r t = tw (ownView (view s t) s.futs.length k) := by
      have := tval_task (s := r) (f := t) (by rw [hu.viewT]; exact hgk) (by rw [hu.viewT]; exact hgo)
      rw [this, hu.viewT]
    have h2 : tval r s.futs.length = tw (taskView child (pass.map (s.task t).resolve)) := by
      have := tval_task (s := r) (f := s.futs.length) (by rw [hu.viewN]; rfl) (by rw [hu.viewN]; rfl)
      rw [this, hu.viewN]
    rw [h1, h2, hvs]
    unfold tw wsum ownView taskView
    simp only [hst, hp, hb, bsz]
    simp
    omega
  | item kind payload mode k seq hb hp hu hbat hnk =>
    have hst := hO.sOfR t hp
    refine M1_upd2_lt hu ht ?_
    have h1 : tval r t = tw (ownView (view s t) s.futs.length k) := by
      have := tval_task (s := r) (f := t) (by rw [hu.viewT]; exact hgk) (by rw [hu.viewT]; exact hgo)
      rw [this, hu.viewT]
    have h2 : tval r s.futs.length = 0 := tval_nontask (by rw [hu.viewN]; simp [plainView])
    rw [h1, h2, hvs]
    unfold tw wsum ownView
    simp only [hst, hp, hb, bsz]
    simp
  | other k kd out hb hp hu hbat hnk hkd =>
    have hst := hO.sOfR t hp
    refine M1_upd2_lt hu ht ?_
    have h1 : tval r t = tw (ownView (view s t) s.futs.length k) := by
      have := tval_task (s := r) (f := t) (by rw [hu.viewT]; exact hgk) (by rw [hu.viewT]; exact hgo)
      rw [this, hu.viewT]
    have h2 : tval r s.futs.length = 0 := by
      apply tval_nontask
      rw [hu.viewN]
      rcases hkd with ⟨e, _⟩ | ⟨e, _⟩ | ⟨⟨o, e⟩, _⟩ <;> rw [e] <;> simp [plainView]
    rw [h1, h2, hvs]
    have hbk : bsz (view s t).body = 1 + bsz k := by
      rcases hb with ⟨a, e⟩ | ⟨a, e⟩ | ⟨a, e⟩ <;> rw [e] <;> simp [bsz]
    unfold tw wsum ownView
    simp only [hst, hp, hbk]
    simp
  | yield npy nd leave hp hu =>
    have hst := hO.sOfR t hp
    refine M1_upd1_lt hu.toS ht ?_
    have h1 : tval r t = tw (yieldView (view s t) nd npy leave) := by
      have := tval_task (s := r) (f := t) (by rw [hu.viewT]; exact hgk) (by rw [hu.viewT]; exact hgo)
      rw [this, hu.viewT]
    rw [h1, hvs]
    unfold tw wsum yieldView
    simp only [hst, hp]
    simp
  | finish o hp hu =>
    refine M1_upd1_lt hu.toS ht ?_
    have h1 : tval r t = 0 := tval_computed (by rw [hu.viewT]; simp [finishView])
    rw [h1, hvs]
    exact tw_pos _
  | sync child k h pass hb hp hu hbat hnc hnk hnh =>
    have hst := hO.sOfR t hp
    refine M1_upd2_lt hu ht ?_
    have h1 : tval r t = tw (ownView (view s t) s.futs.length (.syncret s.futs.length k h)) := by
      have := tval_task (s := r) (f := t) (by rw [hu.viewT]; exact hgk) (by rw [hu.viewT]; exact hgo)
      rw [this, hu.viewT]
    have h2 : tval r s.futs.length = tw (taskView child (pass.map (s.task t).resolve)) := by
      have := tval_task (s := r) (f := s.futs.length) (by rw [hu.viewN]; rfl) (by rw [hu.viewN]; rfl)
      rw [this, hu.viewN]
    rw [h1, h2, hvs]
    unfold tw wsum ownView taskView
    simp only [hst, hp, hb, bsz]
    simp
    omega
  | syncfut rf k h s1 hb hp hu F hnk hnh hT =>
    have hst := hO.sOfR t hp
    have h1 : M1 s1 < M1 s := by
      refine M1_upd1_lt hu.toS ht ?_
      have h1 : tval s1 t = tw (bodyView (.syncret ((s.task t).resolve rf) k h) (view s t)) := by
        have := tval_task (s := s1) (f := t) (by rw [hu.viewT]; exact hgk) (by rw [hu.viewT]; exact hgo)
        rw [this, hu.viewT]
      rw [h1, hvs]
      unfold tw wsum bodyView
      simp only [hst, hp, hb, bsz]
      simp
    exact Nat.lt_of_le_of_lt (M1_flushDesc_le F) h1

/-! ### scheduler-side steps -/

/-- the start of a top-level computation decreases `M1` -/
theorem M1_top {s r : State} {conv : Conv} {body : Body} {rest : List (Conv × Body)}
    (htops : s.tops = (conv, body) :: rest) (U : UpdN s r (taskView body [])) (htops' : r.tops = rest) :
    M1 r < M1 s := by
  unfold M1
  rw [htops', htops, U.len, rsum_succ]
  have h1 : rsum (tval r) s.futs.length = rsum (tval s) s.futs.length :=
    rsum_congr _ (fun f hf => tval_of_view (U.viewO f (Nat.ne_of_lt hf)))
  have h2 : tval r s.futs.length = 2 * bsz body + 2 := by
    have := tval_task (s := r) (f := s.futs.length) (by rw [U.viewN]; rfl) (by rw [U.viewN]; rfl)
    rw [this, U.viewN]
    simp [tw, wsum, taskView]
  rw [h1, h2]
  simp [topsW]
  omega

/-- no scheduler-side step increases `M1` -/
theorem M1_desc_le {s r : State} (d : Desc s r) (hng : ∀ t old rest, s.ctl ≠ .gen t old :: rest) : M1 r ≤ M1 s := by
  cases d with
  | quiet e _ _ => exact Nat.le_of_eq (M1_same e)
  | top conv body rest htops hctl0 U htops' hctl => exact Nat.le_of_lt (M1_top htops U htops')
  | ret _ _ _ e _ _ => exact Nat.le_of_eq (M1_same e)
  | enterLoop _ _ _ _ e _ _ => exact Nat.le_of_eq (M1_same e)
  | pop _ _ _ _ _ e _ _ => exact Nat.le_of_eq (M1_same e)
  | popLazy _ top st _ lo hk _ U _ _ =>
    refine M1_le_of U.len U.tops ?_
    intro f
    rcases U.view_cases f with ⟨rfl, e⟩ | ⟨_, e⟩
    · rw [tval_nontask (s := r) (by rw [e]; show (view s f).kind ≠ _; rw [hk]; simp)]
      exact Nat.zero_le _
    · exact Nat.le_of_eq (tval_of_view e)
  | second _ top st _ _ _ _ _ U _ _ =>
    refine M1_le_of U.len U.tops ?_
    intro f
    rcases U.view_cases f with ⟨rfl, e⟩ | ⟨_, e⟩
    · apply Nat.le_of_eq; unfold tval; rw [e]; rfl
    · exact Nat.le_of_eq (tval_of_view e)
  | first _ top st _ _ _ _ _ U _ _ =>
    refine M1_le_of U.len U.tops ?_
    intro f
    rcases U.view_cases f with ⟨rfl, e⟩ | ⟨_, e⟩
    · apply Nat.le_of_eq; unfold tval; rw [e]; rfl
    · exact Nat.le_of_eq (tval_of_view e)
  | enterGen _ _ _ _ _ _ _ e _ _ _ => exact Nat.le_of_eq (M1_same e)
  | gen t old rest hctl0 _ => exact absurd hctl0 (hng t old rest)
  | flush _ _ _ _ _ _ F _ => exact M1_flushDesc_le F

end AsynqModel.Core.P20
