import AsynqModel.Proofs.P22GenA
/-!
# P22, part 8: `active`, `read`, the return of a synchronous call, `reyld`
-/
namespace AsynqModel.Core.P22
open AsynqModel.Core AsynqModel.Core.P22.SeqSV

variable {cfg : Cfg} {tops : List (Conv × Body)} {s : State} {g : Ghost} {t : Nat} {old : Option Nat} {rest' : List Ctl}

theorem pend_false {ts : TaskSt} (hp : ts.pending = false) : (ts.pending && ts.started) = false := by rw [hp]; rfl

/-- `get_active_task()` is observed -/
theorem sim_active (C : GC cfg tops s g t old rest') (hst : (s.genStep t old).stuck = none)
    (hp : (s.task t).pending = false) (k : Body) (hb : (s.task t).body = .active k) :
    Sim cfg tops (s.genStep t old) g := by
  have e : s.genStep t old = (s.emit (.active t s.active)).updTask t fun ts => { ts with body := k } := by
    unfold State.genStep
    simp only [hp, hb, Bool.false_eq_true, if_false]
  rw [e]
  have ht : ((s.emit (.active t s.active)).updTask t fun ts => { ts with body := k }).task t =
      { s.task t with body := k } := task_updTask_self' (s.emit _) t _ C.lt
  have hnb := C.sim.nsB t C.kt
  have hk : ns k = true := by
    have := nsBC_body hnb (by rw [hb]; intro _ _ _; nofun)
    rw [hb] at this; simpa [ns] using this
  have hsy : ∀ f k' c, k ≠ .syncret f k' c := by
    have hws := C.ws (by rw [hb]; intro _ _ _; nofun)
    rw [hb] at hws
    exact P4.ws_not_syncret hws
  refine sim_plain C hst ((lm_emit s t _ rfl).trans (lm_updTask _ t _)) (by simp) ?_ ?_ ?_ ?_ ?_ (fun _ => []) ?_
    (by simp) ?_ ?_ ?_ ?_ ?_
  · rw [ht]
  · rw [ht]
  · rw [ht]
  · rw [ht]; exact C.started_of_running hp
  · rw [P2.computed_updTask, computed_emit]; exact C.nct
  · intro _ _; exact (mreads_cons_none (tr := s.trace) rfl).trans (by simp)
  · rw [ht]; exact nsBC_plain hk hsy hnb.2
  · intro f k' h' hb'; rw [ht] at hb'; exact absurd hb' (hsy f k' h')
  · intro d hd; rw [ht] at hd; exact Or.inl hd
  · rw [ht]
  · intro E
    rw [ht]
    simp only [pend_false hp, hb, List.nil_append]
    unfold headD
    simp only [Bool.false_eq_true, if_false]
    rfl

theorem svTouch_trace (x : State) (var : Nat) : (x.svTouch var).trace = x.trace := by
  unfold State.svTouch; split <;> rfl
theorem svTouch_futs (x : State) (var : Nat) : (x.svTouch var).futs = x.futs := by
  unfold State.svTouch; split <;> rfl

/-- a scoped value is read: the machine reads the value the sequential evaluator reads, provided the scoped value
    agrees with the environment of the running task (`henv`, proved separately) -/
theorem sim_read (C : GC cfg tops s g t old rest') (hst : (s.genStep t old).stuck = none)
    (hp : (s.task t).pending = false) (var : Nat) (k : Body) (hb : (s.task t).body = .read var k)
    (henv : ∀ ip, g t = some ip → s.svGet var = get (envOf s ip.E (cids (s.task t))) var) :
    Sim cfg tops (s.genStep t old) g := by
  have e : s.genStep t old = ((s.svTouch var).emit (.read t var (.a ((s.svTouch var).svGet var)))).updTask t
      fun ts => { ts with body := k } := by
    unfold State.genStep
    simp only [hp, hb, Bool.false_eq_true, if_false]
  rw [e]
  have hlt : t < ((s.svTouch var).emit (.read t var (.a ((s.svTouch var).svGet var)))).futs.length := by
    show t < (s.svTouch var).futs.length
    rw [svTouch_futs]; exact C.lt
  have htk : ((s.svTouch var).emit (.read t var (.a ((s.svTouch var).svGet var)))).task t = s.task t := by
    show (s.svTouch var).task t = s.task t
    unfold State.task State.fut; rw [svTouch_futs]
  have ht : (((s.svTouch var).emit (.read t var (.a ((s.svTouch var).svGet var)))).updTask t
      fun ts => { ts with body := k }).task t = { s.task t with body := k } := by
    rw [task_updTask_self' _ t _ hlt, htk]
  have hnb := C.sim.nsB t C.kt
  have hk : ns k = true := by
    have := nsBC_body hnb (by rw [hb]; intro _ _ _; nofun)
    rw [hb] at this; simpa [ns] using this
  have hsy : ∀ f k' c, k ≠ .syncret f k' c := by
    have hws := C.ws (by rw [hb]; intro _ _ _; nofun)
    rw [hb] at hws
    exact P4.ws_not_syncret hws
  have L : Lm s (((s.svTouch var).emit (.read t var (.a ((s.svTouch var).svGet var)))).updTask t
      fun ts => { ts with body := k }) t :=
    ((Lm.of_sm (sm_svTouch s var) t).trans (lm_emit _ t _ (by simp [lmEv]))).trans (lm_updTask _ t _)
  refine sim_plain C hst L (by simp) ?_ ?_ ?_ ?_ ?_
    (fun E => [.read var (get (envOf s E (cids (s.task t))) var)]) ?_ (by simp) ?_ ?_ ?_ ?_ ?_
  · rw [ht]
  · rw [ht]
  · rw [ht]
  · rw [ht]; exact C.started_of_running hp
  · rw [P2.computed_updTask, computed_emit]
    show (s.svTouch var).computed t = false
    unfold State.computed State.out State.fut; rw [svTouch_futs]; exact C.nct
  · intro ip hip
    show mreads t (_ :: (s.svTouch var).trace) = _
    rw [mreads_cons, svTouch_trace, P7.svGet_svTouch, henv ip hip]
    simp [rdEv, reads, rdVal]
  · rw [ht]; exact nsBC_plain hk hsy hnb.2
  · intro f k' h' hb'; rw [ht] at hb'; exact absurd hb' (hsy f k' h')
  · intro d hd; rw [ht] at hd; exact Or.inl hd
  · rw [ht]
  · intro E
    rw [ht]
    simp only [pend_false hp, hb]
    unfold headD
    simp only [Bool.false_eq_true, if_false, runBody, List.singleton_append]
    rfl

/-- `value()` of a synchronous call returns -/
theorem sim_syncret (C : GC cfg tops s g t old rest') (hst : (s.genStep t old).stuck = none)
    (hp : (s.task t).pending = false) (f : Nat) (k h : Body) (hb : (s.task t).body = .syncret f k h) :
    Sim cfg tops (s.genStep t old) g := by
  have hr := C.good.ci.raising
  have hnb := C.sim.nsB t C.kt
  have hkh : ns k = true ∧ ns h = true := by
    have := hnb.1; rw [hb] at this; exact this
  have hsy : (∀ f' k' c, k ≠ .syncret f' k' c) ∧ (∀ f' k' c, h ≠ .syncret f' k' c) := by
    have := C.good.fi.wsc t C.out
    unfold P4.wsTask at this
    have hb' : (s.fut t).ts.body = .syncret f k h := hb
    rw [hb'] at this
    simp only [Bool.and_eq_true] at this
    exact ⟨P4.ws_not_syncret this.1, P4.ws_not_syncret this.2⟩
  cases hof : s.out f with
  | none =>
    exfalso
    unfold State.genStep at hst
    simp only [hp, hb, hr, hof, Bool.false_eq_true, if_false] at hst
    simp at hst
  | some o =>
    have hden : (s.fut f).den = o := (C.good.fi.agree f o hof).symm
    cases o with
    | ok v =>
      have e : s.genStep t old = ({ s with raising := none }.updTask t fun ts =>
          { ts with env := ts.env ++ [v], body := k }).emit (.syncX t f (.ok v)) := by
        unfold State.genStep
        simp only [hp, hb, hr, hof, Bool.false_eq_true, if_false]
      rw [e]
      have ht : (({ s with raising := none }.updTask t fun ts =>
          { ts with env := ts.env ++ [v], body := k }).emit (.syncX t f (.ok v))).task t =
          { s.task t with env := (s.task t).env ++ [v], body := k } :=
        (task_emit _ _ _).trans (task_updTask_self' { s with raising := none } t _ C.lt)
      have L : Lm s (({ s with raising := none }.updTask t fun ts =>
          { ts with env := ts.env ++ [v], body := k }).emit (.syncX t f (.ok v))) t :=
        ((Lm.of_eq (s := s) (r := { s with raising := none }) t rfl rfl rfl rfl rfl rfl rfl).trans (lm_updTask _ t _)).trans
          (lm_emit _ t _ rfl)
      refine sim_plain C hst L (by simp) ?_ ?_ ?_ ?_ ?_ (fun _ => []) ?_ (by simp) ?_ ?_ ?_ ?_ ?_
      · rw [ht]
      · rw [ht]
      · rw [ht]
      · rw [ht]; exact C.started_of_running hp
      · rw [computed_emit, P2.computed_updTask]; exact C.nct
      · intro _ _; exact (mreads_cons_none (tr := s.trace) rfl).trans (by simp)
      · rw [ht]; exact nsBC_plain hkh.1 hsy.1 hnb.2
      · intro f' k' h' hb'; rw [ht] at hb'; exact absurd hb' (hsy.1 f' k' h')
      · intro d hd; rw [ht] at hd; exact Or.inl hd
      · rw [ht]
      · intro E
        rw [ht]
        simp only [pend_false hp, hb, List.nil_append]
        unfold headD
        have hs1 := hsy.1
        simp only [Bool.false_eq_true, if_false, hden]
        rfl
    | err x =>
      have e : s.genStep t old = ({ s with raising := none }.updTask t fun ts =>
          { ts with caught := some x, body := h }).emit (.syncX t f (.err x)) := by
        unfold State.genStep
        simp only [hp, hb, hr, hof, Bool.false_eq_true, if_false]
      rw [e]
      have ht : (({ s with raising := none }.updTask t fun ts =>
          { ts with caught := some x, body := h }).emit (.syncX t f (.err x))).task t =
          { s.task t with caught := some x, body := h } :=
        (task_emit _ _ _).trans (task_updTask_self' { s with raising := none } t _ C.lt)
      have L : Lm s (({ s with raising := none }.updTask t fun ts =>
          { ts with caught := some x, body := h }).emit (.syncX t f (.err x))) t :=
        ((Lm.of_eq (s := s) (r := { s with raising := none }) t rfl rfl rfl rfl rfl rfl rfl).trans (lm_updTask _ t _)).trans
          (lm_emit _ t _ rfl)
      refine sim_plain C hst L (by simp) ?_ ?_ ?_ ?_ ?_ (fun _ => []) ?_ (by simp) ?_ ?_ ?_ ?_ ?_
      · rw [ht]
      · rw [ht]
      · rw [ht]
      · rw [ht]; exact C.started_of_running hp
      · rw [computed_emit, P2.computed_updTask]; exact C.nct
      · intro _ _; exact (mreads_cons_none (tr := s.trace) rfl).trans (by simp)
      · rw [ht]; exact nsBC_plain hkh.2 hsy.2 hnb.2
      · intro f' k' h' hb'; rw [ht] at hb'; exact absurd hb' (hsy.2 f' k' h')
      · intro d hd; rw [ht] at hd; exact Or.inl hd
      · rw [ht]
      · intro E
        rw [ht]
        simp only [pend_false hp, hb, List.nil_append]
        unfold headD
        have hs2 := hsy.2
        simp only [Bool.false_eq_true, if_false, hden]
        rfl

theorem task_leaveGen (x : State) (t : Nat) (old : Option Nat) (u : Nat) :
    P4.coreA ((x.leaveGen t old).task u) = P4.coreA (x.task u) := by
  unfold State.task
  exact (P4.core_leaveGen x t old u).2.2

theorem lm_leaveGen (x : State) (t : Nat) (old : Option Nat) : Lm x (x.leaveGen t old) t := by
  unfold State.leaveGen
  exact (lm_updTask x t _).trans
    (Lm.of_eq (s := x.updTask t fun ts => { ts with depsSched := false }) t rfl rfl rfl rfl rfl rfl rfl)

theorem ite_or {α : Type} (c : Prop) [Decidable c] (a : α) (f : α → α) :
    (if c then a else f a) = a ∨ (if c then a else f a) = f a := by
  split
  · exact Or.inl rfl
  · exact Or.inr rfl

/-- the very object yielded last is yielded once more -/
theorem sim_reyld (C : GC cfg tops s g t old rest') (hst : (s.genStep t old).stuck = none)
    (hp : (s.task t).pending = false) (k h : Body) (hb : (s.task t).body = .reyld k h) :
    Sim cfg tops (s.genStep t old) g := by
  have hstd := C.started_of_running hp
  obtain ⟨r1, hr1, hg1⟩ : ∃ r1, (r1 = ((s.emit (.yield t (s.task t).resumes (s.task t).prevY)).updTask t fun ts =>
      { ts with pending := true, lastY := (s.task t).prevY,
                deps := (if s.cfg.keepDeps then (s.task t).deps else []) ++ extractFutures (s.task t).prevY })) ∧
      (s.genStep t old = r1 ∨ s.genStep t old = r1.leaveGen t old) := by
    refine ⟨_, rfl, ?_⟩
    have e : s.genStep t old =
        if ((if s.cfg.keepDeps then (s.task t).deps else []) ++ extractFutures (s.task t).prevY).isEmpty then
          ((s.emit (.yield t (s.task t).resumes (s.task t).prevY)).updTask t fun ts =>
            { ts with pending := true, lastY := (s.task t).prevY,
                      deps := (if s.cfg.keepDeps then (s.task t).deps else []) ++ extractFutures (s.task t).prevY })
        else
          ((s.emit (.yield t (s.task t).resumes (s.task t).prevY)).updTask t fun ts =>
            { ts with pending := true, lastY := (s.task t).prevY,
                      deps := (if s.cfg.keepDeps then (s.task t).deps else []) ++ extractFutures (s.task t).prevY }).leaveGen
            t old := by
      unfold State.genStep
      simp only [hp, hb, Bool.false_eq_true, if_false]
    rw [e]
    exact ite_or (((if s.cfg.keepDeps then (s.task t).deps else []) ++ extractFutures (s.task t).prevY).isEmpty = true)
      _ (fun x : State => x.leaveGen t old)
  have ht1 : r1.task t =
      ({ s.task t with
          pending := true, lastY := (s.task t).prevY,
          deps := (if s.cfg.keepDeps then (s.task t).deps else []) ++ extractFutures (s.task t).prevY } : TaskSt) := by
    rw [hr1]; exact task_updTask_self' (s.emit _) t _ C.lt
  have L1 : Lm s r1 t := by rw [hr1]; exact (lm_emit s t _ rfl).trans (lm_updTask _ t _)
  have hlen1 : r1.futs.length = s.futs.length := by rw [hr1]; simp
  have htr1 : r1.trace = .yield t (s.task t).resumes (s.task t).prevY :: s.trace := by rw [hr1]; rfl
  have hc1 : r1.computed t = false := by rw [hr1, P2.computed_updTask, computed_emit]; exact C.nct
  -- the two outcomes differ only in scheduler fields
  have key : ∀ r, Lm s r t → r.futs.length = s.futs.length → P4.coreA (r.task t) = P4.coreA (r1.task t) →
      r.trace = r1.trace → r.computed t = false → Sim cfg tops r g := by
    intro r L hlen hcore htr hcr
    obtain ⟨h1, h2, h3, h4, h5, h6, h7, h8, h9, h10, h11, h12, _⟩ := P4.coreA_fields hcore
    have hnb := C.sim.nsB t C.kt
    refine sim_plain C hst L hlen ?_ ?_ ?_ ?_ hcr (fun _ => []) ?_ (by simp) ?_ ?_ ?_ ?_ ?_
    · rw [h4, ht1]
    · rw [h5, ht1]
    · rw [h2, ht1]
    · rw [h8, ht1]; exact hstd
    · intro _ _; rw [htr, htr1]; exact (mreads_cons_none (tr := s.trace) rfl).trans (by simp)
    · rw [h1, h2, ht1]; exact hnb
    · intro f k' h' hb'; rw [h1, ht1] at hb'; exact hb'
    · intro d hd
      rw [h12, ht1] at hd
      simp only [List.mem_append] at hd
      rcases hd with hd | hd
      · left
        split at hd
        · exact hd
        · cases hd
      · right; exact (P4.mem_extractFutures _ d).1 hd
    · rw [h10, ht1]
    · intro E
      rw [h7, h8, h1, h3, h6, h11, ht1]
      simp only [hp, hb, hstd, Bool.and_true, Bool.false_and, List.nil_append]
      unfold headD
      simp only [Bool.false_eq_true, if_false, if_true, runBody]
      rfl
  rcases hg1 with e | e
  · rw [e]; exact key r1 L1 hlen1 rfl rfl hc1
  · rw [e]
    refine key _ (L1.trans (lm_leaveGen r1 t old)) ?_ (task_leaveGen r1 t old t) rfl ?_
    · unfold State.leaveGen; simp [hlen1]
    · rw [computed_of_out (P4.core_leaveGen r1 t old t).2.1]; exact hc1

end AsynqModel.Core.P22
