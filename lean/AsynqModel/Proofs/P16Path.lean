import AsynqModel.Proofs.P16UStep
import AsynqModel.Proofs.P16J
import AsynqModel.Proofs.P13Main
import AsynqModel.Proofs.P14Main
import AsynqModel.Theorems.Acyclic
/-!
  P16, part 12: from the machine's await relation to the observer's.

  `P12.awaitsStar s o u` (the machine: `o` waits for `u` through suspended tasks and synchronous calls) implies, for
  `o ≠ u` and `u` uncomputed, `(W s).awaitsStar (W s).fuel o u = true`: the bounded search of the observer over what it
  has seen (`lastYield`, `syncStack`) finds the same path.  The fuel suffices because the rank of `P10` decreases
  along the path.
-/
namespace AsynqModel.Core.P16
open AsynqModel.Core AsynqModel.Core.Spec AsynqModel.Core.P13 AsynqModel.Core.P5 AsynqModel.Core.P12

theorem obs_eq_wOf (tr : List Event) : obs tr = P14.wOf tr := by
  induction tr with
  | nil => rfl
  | cons e tr ih => rw [obs_cons, P14.wOf_cons, ih]

/-- a `wait_for(x)` frame directly on the generator frame of `t` is an open synchronous call of the observer -/
theorem edgeIn_calls : ∀ (ctl : List Ctl) (t x : Nat), edgeIn ctl t x → (t, x) ∈ calls ctl := by
  intro ctl t x ⟨pre, w, old, post, e, hw⟩
  subst e
  induction pre with
  | nil =>
    rcases hw with rfl | ⟨b, rfl⟩ <;> simp [calls, callHead]
  | cons c pre ih =>
    cases c with
    | gen u o => simpa [calls] using ih
    | waitEnter r => simp only [List.cons_append, calls, List.mem_append]; exact .inr ih
    | waitLoop r b => simp only [List.cons_append, calls, List.mem_append]; exact .inr ih

/-- the facts about a state the translation needs -/
structure PathFacts (cx : Ctx) (s : State) : Prop where
  u : U cx s none
  pi : P2.PInv s
  ly : ∀ t, (s.task t).pending = true → (s.task t).started = true → s.out t = none →
    (W s).lastYield.lookup t = some ((s.task t).resumes, (s.task t).lastY)
  done : ∀ f, (W s).isDone f = s.computed f
  sync : ∀ t x, edgeIn s.ctl t x → (t, x) ∈ (W s).syncStack
  hinv : P10.HInv s
  chain : s.ctl.Pairwise (P10.nest s)

variable {cx : Ctx}

/-- what the observer sees of one edge of the machine's await graph -/
theorem PathFacts.edge {s : State} (pf : PathFacts cx s) {t x : Nat} (h : awaits s t x) (hx : s.computed x = false) :
    ((∃ i y, (W s).lastYield.lookup t = some (i, y) ∧ x ∈ y.leaves) ∨ (t, x) ∈ (W s).syncStack) ∧
    (s.fut t).kind = .task ∧ s.computed t = false ∧ P10.lt s x t := by
  rcases h with ⟨hc, hp, hm⟩ | hs
  · have hdep : x ∈ (s.task t).lastY.leaves := by
      rcases hm with h1 | h1
      · exact h1
      · rcases pf.u.old t x h1 with h2 | h2
        · exact h2
        · rw [hx] at h2; cases h2
    have hst : (s.task t).started = true := by
      cases hs : (s.task t).started with
      | true => rfl
      | false =>
        have := (pf.u.ns t hs).1
        rw [this] at hdep; cases hdep
    have ho : s.out t = none := by
      cases ho : s.out t with
      | none => rfl
      | some o => simp [State.computed, ho] at hc
    refine ⟨.inl ⟨_, _, pf.ly t hp hst ho, hdep⟩, pf.pi.startedTask t hst, hc, ?_⟩
    exact pf.hinv.named_lt (pf.hinv.lastY t x hdep)
  · have hg : t ∈ P2.gens s.ctl := edgeIn_gens hs.2.2
    refine ⟨.inr (pf.sync t x hs.2.2), pf.pi.genKind t hg, ?_, edgeIn_lt pf.chain hs.2.2⟩
    simp [State.computed, pf.pi.live t hg]

theorem awaitsDirect_of {w : Watch} {t x : Nat}
    (h : (∃ i y, w.lastYield.lookup t = some (i, y) ∧ x ∈ y.leaves) ∨ (t, x) ∈ w.syncStack) :
    w.awaitsDirect t x = true := by
  unfold Watch.awaitsDirect
  rcases h with ⟨i, y, hl, hm⟩ | h
  · rw [hl]; simp [hm]
  · simp [h]

theorem mem_next_of {w : Watch} {t x : Nat}
    (h : (∃ i y, w.lastYield.lookup t = some (i, y) ∧ x ∈ y.leaves) ∨ (t, x) ∈ w.syncStack) :
    x ∈ (match w.lastYield.lookup t with
      | some (_, y) => y.leaves
      | none => []) ++ (w.syncStack.filterMap fun p => if p.1 == t then some p.2 else none) := by
  rcases h with ⟨i, y, hl, hm⟩ | h
  · rw [hl]; exact List.mem_append_left _ hm
  · refine List.mem_append_right _ (List.mem_filterMap.2 ⟨(t, x), h, ?_⟩)
    simp

/-- the bounded search of the observer finds every path of the machine -/
theorem PathFacts.search {s : State} (pf : PathFacts cx s) (p : Nat → List Nat) (hp : P10.PathOK s p) {u : Nat}
    (hu : s.computed u = false) : ∀ (k t : Nat), P10.rankOf s p t < k → awaitsStar s t u → t ≠ u →
    (W s).awaitsStar k t u = true := by
  intro k
  induction k with
  | zero => intro t h; cases h
  | succ k ih =>
    intro t hr hst hne
    cases hst with
    | refl => exact absurd rfl hne
    | @head _ x _ ha hrest =>
      by_cases hxu : x = u
      · subst hxu
        obtain ⟨he, _, _, _⟩ := pf.edge ha hu
        unfold Watch.awaitsStar
        rw [awaitsDirect_of he]; rfl
      · -- `x` awaits something, so it is an uncomputed task
        have hxc : s.computed x = false ∧ (s.fut x).kind = .task := by
          cases hrest with
          | refl => exact absurd rfl hxu
          | @head _ x' _ ha' _ =>
            rcases ha' with ⟨hc, hpd, hm⟩ | hs
            · refine ⟨hc, ?_⟩
              have hst : (s.task x).started = true := by
                cases hs : (s.task x).started with
                | true => rfl
                | false =>
                  obtain ⟨e1, e2⟩ := pf.u.ns x hs
                  rw [e1, e2] at hm
                  rcases hm with hm | hm <;> cases hm
              exact pf.pi.startedTask x hst
            · have hg : x ∈ P2.gens s.ctl := edgeIn_gens hs.2.2
              exact ⟨by simp [State.computed, pf.pi.live x hg], pf.pi.genKind x hg⟩
        obtain ⟨he, _, _, hlt⟩ := pf.edge ha hxc.1
        have hxl : x < s.futs.length := lt_of_kind_task s x hxc.2
        have hrx : P10.rankOf s p x < k := by
          have := P10.rankOf_lt hp hlt hxl
          omega
        have hrec := ih x hrx hrest hxu
        unfold Watch.awaitsStar
        rw [Bool.or_eq_true]
        right
        rw [List.any_eq_true]
        refine ⟨x, mem_next_of he, ?_⟩
        rw [pf.u.kt x hxc.2, pf.done x, hxc.1, hrec]; rfl

theorem rankOf_le (s : State) (p : Nat → List Nat) (x : Nat) : P10.rankOf s p x ≤ s.futs.length := by
  unfold P10.rankOf
  have := List.countP_le_length (p := fun z => P10.plt (p z) (p x)) (l := List.range s.futs.length)
  simpa using this

/-- `o` waits for `u` in the machine, `o ≠ u`, `u` uncomputed: the observer agrees -/
theorem PathFacts.obs_awaits {s : State} (pf : PathFacts cx s) {o u : Nat} (hst : awaitsStar s o u) (hne : o ≠ u)
    (hu : s.computed u = false) : (W s).awaitsStar (W s).fuel o u = true := by
  obtain ⟨p, hp⟩ := pf.hinv.path
  refine pf.search p hp hu _ o ?_ hst hne
  unfold Watch.fuel
  have h1 := rankOf_le s p o
  have h2 := pf.u.kl
  omega

end AsynqModel.Core.P16
