import AsynqModel.Proofs.P22Frame
/-!
# P22, part 4: `Lm s r t` - a move of the machine in which only task `t` (and new futures) changes

The moves of one instruction of the body of task `t`: everything `Sm` allows, plus arbitrary changes of the task state
of `t`, completion of `t`, allocation of futures, `.read t` events and `.new` events that are not roots.
Also: the trace projections `mreads` / `roots` under such moves, and `rest_congr` (what `rest` depends on).
-/
namespace AsynqModel.Core.P22
open AsynqModel.Core AsynqModel.Core.P22.SeqSV

/-- events an instruction of task `t` may emit -/
def lmEv (t : Nat) : Event → Bool
  | .read u _ _ => u == t
  | .new _ (.task none) => false
  | _ => true

theorem lmEv_of_quiet {t : Nat} {e : Event} (h : quietEv e = true) : lmEv t e = true := by
  cases e <;> simp_all [quietEv, lmEv]

structure Lm (s r : State) (t : Nat) : Prop where
  cfg : r.cfg = s.cfg
  tops : r.tops = s.tops
  topIdx : r.topIdx = s.topIdx
  curTop : r.curTop = s.curTop ∨ r.curTop = none
  len : s.futs.length ≤ r.futs.length
  fut : ∀ u, u < s.futs.length → (r.fut u).kind = (s.fut u).kind ∧ (r.fut u).den = (s.fut u).den
  task : ∀ u, u ≠ t → (s.fut u).kind = .task →
    (r.fut u).out = (s.fut u).out ∧ P4.coreA (r.fut u).ts = P4.coreA (s.fut u).ts
  ctxLen : s.ctxs.length ≤ r.ctxs.length
  kinds : ∀ c, c < s.ctxs.length → P7.kindOf r c = P7.kindOf s c
  trace : ∃ evs, r.trace = evs ++ s.trace ∧ ∀ e ∈ evs, lmEv t e = true

theorem lt_of_task (s : State) (u : Nat) (h : (s.fut u).kind = .task) : u < s.futs.length :=
  P4.lt_of_kind s u (by rw [h]; intro h'; cases h')

namespace Lm

theorem refl (s : State) (t : Nat) : Lm s s t :=
  ⟨rfl, rfl, rfl, .inl rfl, Nat.le_refl _, fun _ _ => ⟨rfl, rfl⟩, fun _ _ _ => ⟨rfl, rfl⟩, Nat.le_refl _, fun _ _ => rfl,
    ⟨[], rfl, by simp⟩⟩

theorem trans {a b c : State} {t : Nat} (h1 : Lm a b t) (h2 : Lm b c t) : Lm a c t := by
  refine ⟨h2.cfg.trans h1.cfg, h2.tops.trans h1.tops, h2.topIdx.trans h1.topIdx, Sm.curTop_trans h1.curTop h2.curTop,
    Nat.le_trans h1.len h2.len, ?_, ?_, Nat.le_trans h1.ctxLen h2.ctxLen, ?_, ?_⟩
  · intro u hu
    have hu' := Nat.lt_of_lt_of_le hu h1.len
    exact ⟨(h2.fut u hu').1.trans (h1.fut u hu).1, (h2.fut u hu').2.trans (h1.fut u hu).2⟩
  · intro u hne hk
    have hk' : (b.fut u).kind = .task := by rw [(h1.fut u (lt_of_task a u hk)).1]; exact hk
    exact ⟨(h2.task u hne hk').1.trans (h1.task u hne hk).1, (h2.task u hne hk').2.trans (h1.task u hne hk).2⟩
  · intro c' hc
    rw [h2.kinds c' (Nat.lt_of_lt_of_le hc h1.ctxLen), h1.kinds c' hc]
  · obtain ⟨e1, he1, hq1⟩ := h1.trace
    obtain ⟨e2, he2, hq2⟩ := h2.trace
    refine ⟨e2 ++ e1, by rw [he2, he1, List.append_assoc], ?_⟩
    intro e he
    rcases List.mem_append.1 he with h | h
    · exact hq2 e h
    · exact hq1 e h

theorem of_sm {s r : State} (h : Sm s r) (t : Nat) : Lm s r t := by
  obtain ⟨evs, he, hq⟩ := h.trace
  exact ⟨h.cfg, h.tops, h.topIdx, h.curTop, Nat.le_of_eq h.len.symm, fun u _ => h.fut u, fun u _ hk => h.task u hk,
    h.ctxLen, h.kinds, ⟨evs, he, fun e hm => lmEv_of_quiet (hq e hm)⟩⟩

theorem of_eq {s r : State} (t : Nat) (h1 : r.futs = s.futs) (h2 : r.ctxs = s.ctxs) (h3 : r.trace = s.trace)
    (h4 : r.cfg = s.cfg) (h5 : r.tops = s.tops) (h6 : r.topIdx = s.topIdx) (h7 : r.curTop = s.curTop) : Lm s r t :=
  of_sm (Sm.of_eq h1 h2 h3 h4 h5 h6 h7) t

end Lm

/-- kinds never change (beyond the heap both futures are the default one, unless `r` allocated there) -/
theorem Lm.fut' {s r : State} {t : Nat} (h : Lm s r t) (hlen : r.futs.length = s.futs.length) (f : Nat) :
    (r.fut f).kind = (s.fut f).kind := by
  rcases Nat.lt_or_ge f s.futs.length with hf | hf
  · exact (h.fut f hf).1
  · rw [P4.fut_default s f hf, P4.fut_default r f (by rw [hlen]; exact hf)]

theorem lm_emit (s : State) (t : Nat) (e : Event) (h : lmEv t e = true) : Lm s (s.emit e) t :=
  ⟨rfl, rfl, rfl, .inl rfl, Nat.le_refl _, fun _ _ => ⟨rfl, rfl⟩, fun _ _ _ => ⟨rfl, rfl⟩, Nat.le_refl _, fun _ _ => rfl,
    ⟨[e], rfl, by simpa using h⟩⟩

theorem lm_updTask (s : State) (t : Nat) (g : TaskSt → TaskSt) : Lm s (s.updTask t g) t := by
  refine ⟨rfl, rfl, rfl, .inl rfl, by simp, fun u _ => ⟨P4.kind_updTask s t g u, P4.den_updTask s t g u⟩, ?_, Nat.le_refl _,
    fun _ _ => rfl, ⟨[], rfl, by simp⟩⟩
  intro u hne _
  rw [P4.fut_updTask_ne s t g u hne]
  exact ⟨rfl, rfl⟩

theorem lm_complete (s : State) (t : Nat) (o : Outcome) : Lm s (s.complete t o) t := by
  refine ⟨rfl, rfl, rfl, .inl rfl, by simp, fun u _ => ?_, ?_, Nat.le_refl _, fun _ _ => rfl,
    ⟨[.done t o], rfl, by simp [lmEv]⟩⟩
  · rw [P4.fut_complete]
    split
    · next h => obtain ⟨rfl, _⟩ := h; exact ⟨rfl, rfl⟩
    · exact ⟨rfl, rfl⟩
  · intro u hne _
    rw [P4.fut_complete]
    split
    · next h => exact absurd h.1 hne
    · exact ⟨rfl, rfl⟩

theorem lm_alloc (s : State) (t : Nat) (x : Fut) (nk : NewKind) (h : nk ≠ .task none) : Lm s (s.alloc x nk).1 t := by
  refine ⟨rfl, rfl, rfl, .inl rfl, by simp, fun u hu => by rw [P4.fut_alloc_lt s x nk u hu]; exact ⟨rfl, rfl⟩, ?_,
    Nat.le_refl _, fun _ _ => rfl, ⟨[.new s.futs.length nk], rfl, ?_⟩⟩
  · intro u _ hk
    rw [P4.fut_alloc_lt s x nk u (lt_of_task s u hk)]
    exact ⟨rfl, rfl⟩
  · intro e he
    simp only [List.mem_singleton] at he
    subst he
    cases nk with
    | task c => cases c with
      | none => exact absurd rfl h
      | some a => rfl
    | _ => rfl

/-! ### trace projections -/

theorem mreads_append (u : Nat) (evs tr : List Event) : mreads u (evs ++ tr) = mreads u tr ++ mreads u evs := by
  simp [mreads, List.reverse_append, List.filterMap_append]

theorem mreads_cons (u : Nat) (e : Event) (tr : List Event) : mreads u (e :: tr) = mreads u tr ++ (rdEv u e).toList := by
  have := mreads_append u [e] tr
  simp only [List.singleton_append] at this
  rw [this]
  congr 1

theorem roots_append (evs tr : List Event) : roots (evs ++ tr) = roots tr ++ roots evs := by
  simp [roots, List.reverse_append, List.filterMap_append]

theorem mreads_nil_of {u : Nat} {evs : List Event} (h : ∀ e ∈ evs, rdEv u e = none) : mreads u evs = [] := by
  unfold mreads
  rw [List.filterMap_eq_nil_iff]
  intro e he
  exact h e (List.mem_reverse.1 he)

theorem roots_nil_of {evs : List Event} (h : ∀ e ∈ evs, rootEv e = none) : roots evs = [] := by
  unfold roots
  rw [List.filterMap_eq_nil_iff]
  intro e he
  exact h e (List.mem_reverse.1 he)

theorem rdEv_of_lmEv {t u : Nat} {e : Event} (h : lmEv t e = true) (hne : u ≠ t) : rdEv u e = none := by
  cases e with
  | read u' var v =>
    simp only [lmEv, beq_iff_eq] at h
    simp only [rdEv]
    rw [if_neg]
    intro h'; exact hne (h'.symm.trans h)
  | _ => rfl

theorem rootEv_of_lmEv {t : Nat} {e : Event} (h : lmEv t e = true) : rootEv e = none := by
  cases e with
  | new f k => cases k with
    | task c => cases c with
      | none => simp [lmEv] at h
      | some a => rfl
    | _ => rfl
  | _ => rfl

theorem Lm.mreads {s r : State} {t : Nat} (h : Lm s r t) {u : Nat} (hne : u ≠ t) :
    mreads u r.trace = mreads u s.trace := by
  obtain ⟨evs, he, hq⟩ := h.trace
  rw [he, mreads_append, mreads_nil_of (fun e hm => rdEv_of_lmEv (hq e hm) hne), List.append_nil]

theorem Lm.roots {s r : State} {t : Nat} (h : Lm s r t) : roots r.trace = roots s.trace := by
  obtain ⟨evs, he, hq⟩ := h.trace
  rw [he, roots_append, roots_nil_of (fun e hm => rootEv_of_lmEv (hq e hm)), List.append_nil]

theorem Lm.readLt {s r : State} {t : Nat} (h : Lm s r t) (ht : t < s.futs.length)
    (hs : ∀ u var v, Event.read u var v ∈ s.trace → u < s.futs.length) :
    ∀ u var v, Event.read u var v ∈ r.trace → u < r.futs.length := by
  obtain ⟨evs, he, hq⟩ := h.trace
  intro u var v hm
  rw [he] at hm
  rcases List.mem_append.1 hm with hm | hm
  · have := hq _ hm
    simp only [lmEv, beq_iff_eq] at this
    subst this
    exact Nat.lt_of_lt_of_le ht h.len
  · exact Nat.lt_of_lt_of_le (hs u var v hm) h.len

/-! ### what `rest` depends on -/

theorem ovs_congr {s r : State} {cs : List Nat} (h : ∀ c ∈ cs, ovOf r c = ovOf s c) : ovs r cs = ovs s cs := by
  unfold ovs
  induction cs with
  | nil => rfl
  | cons c cs ih =>
    rw [List.filterMap_cons, List.filterMap_cons, h c List.mem_cons_self,
      ih (fun c' hc' => h c' (List.mem_cons_of_mem _ hc'))]

theorem envOf_congr {s r : State} {cs : List Nat} (E : SvEnv) (h : ∀ c ∈ cs, ovOf r c = ovOf s c) :
    envOf r E cs = envOf s E cs := by
  unfold envOf; rw [ovs_congr h]

theorem ovOf_of_kindOf {s r : State} {c : Nat} (h : P7.kindOf r c = P7.kindOf s c) : ovOf r c = ovOf s c := by
  unfold ovOf; rw [h]

theorem runFrames_congr (cfg : Cfg) {s r : State} (E : SvEnv) (inh : List Outcome) :
    ∀ (fr : List (Nat × Body)) (res : Res), (∀ c ∈ fr.map (·.1), ovOf r c = ovOf s c) →
      runFrames cfg r E inh fr res = runFrames cfg s E inh fr res
  | _, .done _, _ => by simp [runFrames]
  | [], .fall _, _ => by simp [runFrames]
  | (c, k) :: fr, .fall l, h => by
    have h' : ∀ c' ∈ fr.map (·.1), ovOf r c' = ovOf s c' := fun c' hc' => h c' (by simp only [List.map_cons]; exact List.mem_cons_of_mem _ hc')
    simp only [runFrames]
    rw [envOf_congr E h', runFrames_congr cfg E inh fr _ h']

theorem dens_congr {s r : State} {l : List Nat} (h : ∀ f ∈ l, (r.fut f).den = (s.fut f).den) :
    Inv.dens r l = Inv.dens s l := by
  unfold Inv.dens
  exact List.map_congr_left h

/-- `rest` only looks at: whether the task is computed, the core of its task state, the denotations of the futures it
    names, which of its own futures are tasks that have not been called (and their bodies), the kinds of the contexts
    of its open with-blocks -/
theorem rest_congr (cfg : Cfg) {s r : State} {g g' : Ghost} {u : Nat} (E : SvEnv)
    (hc : r.computed u = s.computed u) (hcore : P4.coreA (r.task u) = P4.coreA (s.task u))
    (hown : ∀ f ∈ (s.task u).own, (r.fut f).den = (s.fut f).den)
    (hinh : ∀ f ∈ (s.task u).inh, (r.fut f).den = (s.fut f).den)
    (hsync : ∀ f k h, (s.task u).body = .syncret f k h → (r.fut f).den = (s.fut f).den)
    (hkid : ∀ f ∈ (s.task u).own, kidOf r g' f = kidOf s g f)
    (hov : ∀ c ∈ cids (s.task u), ovOf r c = ovOf s c) :
    rest cfg r g' u E = rest cfg s g u E := by
  obtain ⟨h1, h2, h3, h4, h5, h6, h7, h8, _, _, h11, _, _⟩ := P4.coreA_fields hcore
  have hl : locOf r g' (r.task u) = locOf s g (s.task u) := by
    unfold locOf
    rw [h3, h4, h6, h11, dens_congr hown, List.map_congr_left hkid]
  have hi : Inv.dens r (r.task u).inh = Inv.dens s (s.task u).inh := by rw [h5, dens_congr hinh]
  have hcs : cids (r.task u) = cids (s.task u) := by unfold cids; rw [h2]
  have hE : envOf r E (cids (r.task u)) = envOf s E (cids (s.task u)) := by rw [hcs]; exact envOf_congr E hov
  have hh : headRun cfg r g' (r.task u) E = headRun cfg s g (s.task u) E := by
    unfold headRun
    simp only [hl, hi, hE, h1, h7, h8]
    unfold headD
    split
    · rfl
    · split
      · next f k h hb => simp only; rw [hsync f k h hb]
      · rfl
  unfold rest
  rw [hc, hh, hi, h2]
  split
  · rfl
  · show _ ++ _ = _ ++ _
    rw [runFrames_congr cfg E _ _ _ hov]

end AsynqModel.Core.P22
