import AsynqModel.Lib.Generator
import AsynqModel.Proofs.Generator
/-! C17: every operation of the model is accepted by the observer `watchStep` -/
namespace AsynqModel.Generator

theorem rel_next (total : Nat) (w : Watch) (s : St) (h : Rel total w s) :
    ∃ w', watchStep total w (observe s .next).2 = .ok w' ∧ Rel total w' (observe s .next).1 := by
  obtain ⟨rest, pulled, stopped, lt, futs⟩ := s
  obtain ⟨wr, wf, wk⟩ := w
  obtain ⟨h1, h2, h3, h4, h5, h6⟩ := h
  simp only at h1 h2 h3 h4 h5 h6
  subst h1 h2 h3
  have hbe : ∀ r f, Watch.blocked ⟨r, f, futs.map Fut.known⟩ = blockedBy lt futs :=
    fun _ _ => watch_blocked_eq lt futs h6
  cases hb : blockedBy lt futs with
  | true =>
    have hs : St.blocked ⟨wr, pulled, wf, lt, futs⟩ = true := hb
    have ho : observe ⟨wr, pulled, wf, lt, futs⟩ .next =
        (⟨wr, pulled, wf, lt, futs⟩, ⟨.next, .raised .runtimeError, pulled, wf, 0⟩) := by
      simp [observe, step, next_blocked _ hs]
    rw [ho]
    refine ⟨⟨wr, wf, futs.map Fut.known⟩, ?_, ⟨rfl, rfl, rfl, h4, h5, h6⟩⟩
    simp [watchStep, hbe, hb, Res.hasMarker, h4]
  | false =>
    have hnp := noPending_of_unblocked lt futs h6 hb
    cases wr with
    | nil =>
      have ho : observe ⟨[], pulled, wf, lt, futs⟩ .next =
          (⟨[], pulled, true, lt, futs⟩, ⟨.next, .raised .stopIteration, pulled, true, 0⟩) := by
        cases wf <;> simp [observe, step, next, send, blocked_eq, hb, getOneValue]
      rw [ho]
      simp only [List.length_nil, Nat.add_zero] at h4
      refine ⟨⟨[], true, futs.map Fut.known⟩, ?_, ⟨rfl, rfl, rfl, by simpa using h4, by simp, h6⟩⟩
      simp [watchStep, hbe, hb, Res.hasMarker, h4]
    | cons x r =>
      have hst : wf = false := by cases wf <;> simp_all
      subst hst
      simp only [List.length_cons] at h4
      cases x with
      | value v =>
        have ho : observe ⟨.value v :: r, pulled, false, lt, futs⟩ .next =
            (⟨r, pulled + 1, false, lt, futs ++ [Fut.const v]⟩, ⟨.next, .fut (some v), pulled + 1, false, 0⟩) := by
          simp [observe, step, next, send, blocked_eq, hb, getOneValue]
        rw [ho]
        refine ⟨⟨r, false, (futs ++ [Fut.const v]).map Fut.known⟩, ?_, ⟨rfl, rfl, rfl, ?_, by simp, ?_⟩⟩
        · have : pulled + 1 + r.length = total := by omega
          simp [watchStep, hbe, hb, Res.hasMarker, Fut.known, this]
        · show pulled + 1 + r.length = total
          omega
        · intro k hk
          simp only [List.getElem?_append] at hk
          split at hk
          · exact h6 k hk
          · cases hkk : k - futs.length <;> simp [hkk] at hk
      | await =>
        have ho : observe ⟨.await :: r, pulled, false, lt, futs⟩ .next =
            (⟨r, pulled + 1, false, some (.handle futs.length), futs ++ [Fut.pending]⟩,
              ⟨.next, .fut none, pulled + 1, false, 0⟩) := by
          simp [observe, step, next, send, blocked_eq, hb, getOneValue]
        rw [ho]
        refine ⟨⟨r, false, (futs ++ [Fut.pending]).map Fut.known⟩, ?_, ⟨rfl, rfl, rfl, ?_, by simp, ?_⟩⟩
        · have : pulled + 1 + r.length = total := by omega
          simp [watchStep, hbe, hb, Res.hasMarker, Fut.known, this]
        · show pulled + 1 + r.length = total
          omega
        · intro k hk
          simp only [List.getElem?_append] at hk
          split at hk
          · exact absurd hk (hnp k)
          · rename_i hlt
            show some (LastRef.handle futs.length) = some (LastRef.handle k)
            have : k - futs.length = 0 := by
              cases hkk : k - futs.length with
              | zero => rfl
              | succ j => simp [hkk] at hk
            have : futs.length = k := by omega
            rw [this]

theorem known_getElem? (futs : List Fut) (k : Nat) : (futs.map Fut.known)[k]? = (futs[k]?).map Fut.known := by
  simp

theorem rel_compute (total : Nat) (w : Watch) (s : St) (k : Nat) (h : Rel total w s) :
    ∃ w', watchStep total w (observe s (.compute k)).2 = .ok w' ∧ Rel total w' (observe s (.compute k)).1 := by
  obtain ⟨rest, pulled, stopped, lt, futs⟩ := s
  obtain ⟨wr, wf, wk⟩ := w
  obtain ⟨h1, h2, h3, h4, h5, h6⟩ := h
  simp only at h1 h2 h3 h4 h5 h6
  subst h1 h2 h3
  cases hk : futs[k]? with
  | none =>
    have ho : observe ⟨wr, pulled, wf, lt, futs⟩ (.compute k) =
        (⟨wr, pulled, wf, lt, futs⟩, ⟨.compute k, .raised .other, pulled, wf, 0⟩) := by
      simp [observe, step, compute, hk]
    rw [ho]
    refine ⟨⟨wr, wf, futs.map Fut.known⟩, ?_, ⟨rfl, rfl, rfl, h4, h5, h6⟩⟩
    simp [watchStep, Res.hasMarker, hk]
  | some f =>
    cases f with
    | const v =>
      have ho : observe ⟨wr, pulled, wf, lt, futs⟩ (.compute k) =
          (⟨wr, pulled, wf, lt, futs⟩, ⟨.compute k, .item (.val v), pulled, wf, 0⟩) := by
        simp [observe, step, compute, hk]
      rw [ho]
      refine ⟨⟨wr, wf, futs.map Fut.known⟩, ?_, ⟨rfl, rfl, rfl, h4, h5, h6⟩⟩
      simp [watchStep, Res.hasMarker, hk, Fut.known, h4]
    | done x =>
      have ho : observe ⟨wr, pulled, wf, lt, futs⟩ (.compute k) =
          (⟨wr, pulled, wf, lt, futs⟩, ⟨.compute k, .item x, pulled, wf, 0⟩) := by
        simp [observe, step, compute, hk]
      rw [ho]
      refine ⟨⟨wr, wf, futs.map Fut.known⟩, ?_, ⟨rfl, rfl, rfl, h4, h5, h6⟩⟩
      simp [watchStep, Res.hasMarker, hk, Fut.known, h4]
    | pending =>
      have hl := drainRest_length_le wr
      have ho : observe ⟨wr, pulled, wf, lt, futs⟩ (.compute k) =
          (⟨drainRest wr, pulled + (wr.length - (drainRest wr).length), wf || drainItem wr == .endMarker, lt,
              futs.set k (.done (drainItem wr))⟩,
            ⟨.compute k, .item (drainItem wr), pulled + (wr.length - (drainRest wr).length),
              wf || drainItem wr == .endMarker, 0⟩) := by
        simp [observe, step, compute, hk, sendInner_spec]
      rw [ho]
      have hlast : ∀ j : Nat, (futs.set k (Fut.done (drainItem wr)))[j]? = some Fut.pending →
          lt = some (LastRef.handle j) := by
        intro j hj
        rw [List.getElem?_set] at hj
        split at hj
        · split at hj <;> simp at hj
        · exact h6 j hj
      have hwk : (futs.map Fut.known)[k]? = some none := by simp [hk, Fut.known]
      rcases skipAwaits_cases wr with h0 | ⟨v, r, h1⟩
      · have hi : drainItem wr = .endMarker := by simp [drainItem, h0]
        have hr : drainRest wr = [] := by simp [drainRest, h0]
        simp only [hi, hr, List.length_nil, Nat.sub_zero] at hlast ⊢
        refine ⟨⟨[], true, (futs.map Fut.known).set k (some .endMarker)⟩, ?_, ⟨rfl, by simp, ?_, ?_, by simp, hlast⟩⟩
        · simp [watchStep, Res.hasMarker, hwk, h0, h4]
        · simp [List.map_set, Fut.known]
        · simpa using h4
      · have hi : drainItem wr = .val v := by simp [drainItem, h1]
        have hr : drainRest wr = r := by simp [drainRest, h1]
        simp only [hi, hr] at hlast hl ⊢
        have hwf : wf = true → r = [] := by
          intro hw
          have := h5 hw
          subst this
          simp [skipAwaits] at h1
        refine ⟨⟨r, wf, (futs.map Fut.known).set k (some (.val v))⟩, ?_, ⟨rfl, by simp, ?_, ?_, by simpa using hwf, hlast⟩⟩
        · have : pulled + (wr.length - r.length) + r.length = total := by omega
          simp [watchStep, Res.hasMarker, hwk, h1, this]
        · simp [List.map_set, Fut.known]
        · show pulled + (wr.length - r.length) + r.length = total
          omega

theorem rel_take (total : Nat) (w : Watch) (s : St) (m : Nat) (h : Rel total w s) :
    ∃ w', watchStep total w (observe s (.take (m + 1))).2 = .ok w' ∧ Rel total w' (observe s (.take (m + 1))).1 := by
  obtain ⟨rest, pulled, stopped, lt, futs⟩ := s
  obtain ⟨wr, wf, wk⟩ := w
  obtain ⟨h1, h2, h3, h4, h5, h6⟩ := h
  simp only at h1 h2 h3 h4 h5 h6
  subst h1 h2 h3
  have hbe : ∀ r f, Watch.blocked ⟨r, f, futs.map Fut.known⟩ = blockedBy lt futs :=
    fun _ _ => watch_blocked_eq lt futs h6
  cases hb : blockedBy lt futs with
  | true =>
    have hs : St.blocked ⟨wr, pulled, wf, lt, futs⟩ = true := hb
    have ho : observe ⟨wr, pulled, wf, lt, futs⟩ (.take (m + 1)) =
        (⟨wr, pulled, wf, lt, futs⟩, ⟨.take (m + 1), .raised .runtimeError, pulled, wf, 0⟩) := by
      simp [observe, step, takeFirst_blocked _ _ hs]
    rw [ho]
    refine ⟨⟨wr, wf, futs.map Fut.known⟩, ?_, ⟨rfl, rfl, rfl, h4, h5, h6⟩⟩
    simp [watchStep, hbe, hb, Res.hasMarker, h4]
  | false =>
    have hnp := noPending_of_unblocked lt futs h6 hb
    obtain ⟨lt', p', e, hp, hb'⟩ := takeFirst_spec wr m pulled wf lt futs hb h5
    have ho : observe ⟨wr, pulled, wf, lt, futs⟩ (.take (m + 1)) =
        (⟨dropValues (m + 1) wr, p', wf || decide ((values wr).length < m + 1), lt', futs⟩,
          ⟨.take (m + 1), .lst (((values wr).take (m + 1)).map .val), p',
            wf || decide ((values wr).length < m + 1), 0⟩) := by
      simp [observe, step, e]
    rw [ho]
    have hpos : p' + (dropValues (m + 1) wr).length = total := by omega
    have hwf : (wf || decide ((values wr).length < m + 1)) = true → dropValues (m + 1) wr = [] := by
      intro hh
      rcases Bool.or_eq_true_iff.mp hh with hw | hv
      · rw [h5 hw]; simp [dropValues]
      · exact dropValues_of_short wr (m + 1) (by simpa using hv)
    have hm : Res.hasMarker (.lst (((values wr).map Item.val).take (m + 1))) = false := by
      rw [← List.map_take]; exact hasMarker_vals _
    refine ⟨⟨dropValues (m + 1) wr, wf || decide ((values wr).length < m + 1), futs.map Fut.known⟩, ?_,
      ⟨rfl, rfl, rfl, hpos, hwf, fun k hk => absurd hk (hnp k)⟩⟩
    simp [watchStep, hbe, hb, hm, hpos]

theorem rel_list (total : Nat) (w : Watch) (s : St) (h : Rel total w s) :
    ∃ w', watchStep total w (observe s .list).2 = .ok w' ∧ Rel total w' (observe s .list).1 := by
  obtain ⟨rest, pulled, stopped, lt, futs⟩ := s
  obtain ⟨wr, wf, wk⟩ := w
  obtain ⟨h1, h2, h3, h4, h5, h6⟩ := h
  simp only at h1 h2 h3 h4 h5 h6
  subst h1 h2 h3
  have hbe : ∀ r f, Watch.blocked ⟨r, f, futs.map Fut.known⟩ = blockedBy lt futs :=
    fun _ _ => watch_blocked_eq lt futs h6
  cases hb : blockedBy lt futs with
  | true =>
    have hs : St.blocked ⟨wr, pulled, wf, lt, futs⟩ = true := hb
    have ho : observe ⟨wr, pulled, wf, lt, futs⟩ .list =
        (⟨wr, pulled, wf, lt, futs⟩, ⟨.list, .raised .runtimeError, pulled, wf, 0⟩) := by
      simp [observe, step, listOf_blocked _ hs]
    rw [ho]
    refine ⟨⟨wr, wf, futs.map Fut.known⟩, ?_, ⟨rfl, rfl, rfl, h4, h5, h6⟩⟩
    simp [watchStep, hbe, hb, Res.hasMarker, h4]
  | false =>
    have hnp := noPending_of_unblocked lt futs h6 hb
    obtain ⟨lt', p', e, hp, hb'⟩ := listOf_spec wr pulled wf lt futs hb h5
    have ho : observe ⟨wr, pulled, wf, lt, futs⟩ .list =
        (⟨[], p', true, lt', futs⟩, ⟨.list, .lst ((values wr).map .val), p', true, 0⟩) := by
      simp [observe, step, e]
    rw [ho]
    have hpos : p' = total := by omega
    have hm := hasMarker_vals (values wr)
    refine ⟨⟨[], true, futs.map Fut.known⟩, ?_,
      ⟨rfl, rfl, rfl, by simpa using hpos, by simp, fun k hk => absurd hk (hnp k)⟩⟩
    simp [watchStep, hbe, hb, hm, hpos]

theorem rel_take_zero (total : Nat) (w : Watch) (s : St) (h : Rel total w s) :
    ∃ w', watchStep total w (observe s (.take 0)).2 = .ok w' ∧ Rel total w' (observe s (.take 0)).1 := by
  have ho : observe s (.take 0) = (s, ⟨.take 0, .lst [], s.pulled, s.stopped, 0⟩) := by
    simp [observe, step, takeFirst_zero]
  rw [ho]
  refine ⟨w, ?_, h⟩
  simp [watchStep, Res.hasMarker, h.rest, h.fin, h.pos]

/-- every operation keeps the model inside what the observer accepts -/
theorem rel_step (total : Nat) (w : Watch) (s : St) (op : Op) (h : Rel total w s) :
    ∃ w', watchStep total w (observe s op).2 = .ok w' ∧ Rel total w' (observe s op).1 := by
  cases op with
  | next => exact rel_next total w s h
  | compute k => exact rel_compute total w s k h
  | list => exact rel_list total w s h
  | take n =>
    cases n with
    | zero => exact rel_take_zero total w s h
    | succ m => exact rel_take total w s m h

theorem watchRun_ok (total : Nat) (ops : List Op) : ∀ (w : Watch) (s : St), Rel total w s →
    ∃ w', watchRun total w (run s ops) = .ok w' := by
  induction ops with
  | nil => intro w s _; exact ⟨w, rfl⟩
  | cons op ops ih =>
    intro w s h
    obtain ⟨w1, h1, h2⟩ := rel_step total w s op h
    obtain ⟨w2, h3⟩ := ih w1 (observe s op).1 h2
    refine ⟨w2, ?_⟩
    simp only [run, watchRun]
    rw [h1]
    exact h3
