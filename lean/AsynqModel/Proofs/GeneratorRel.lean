import AsynqModel.Lib.Generator
import AsynqModel.Proofs.Generator
/-! C17: every operation of the model is accepted by the observer `watchBasic` -/
namespace AsynqModel.Generator

theorem rel_next (total : Nat) (w : Watch) (s : St) (h : Rel total w s) :
    ∃ w', watchBasic total w (observeBasic s .next).2 = .ok w' ∧ Rel total w' (observeBasic s .next).1 := by
  obtain ⟨rest, pulled, stopped, lt, futs⟩ := s
  obtain ⟨wr, wf, wk⟩ := w
  obtain ⟨h1, h2, h3, h4, h5, hnm, h6⟩ := h
  simp only at h1 h2 h3 h4 h5 hnm h6
  subst h1 h2 h3
  have hbe : ∀ r f, Watch.blocked ⟨r, f, futs.map Fut.known⟩ = blockedBy lt futs :=
    fun _ _ => watch_blocked_eq lt futs h6
  cases hb : blockedBy lt futs with
  | true =>
    have hs : St.blocked ⟨wr, pulled, wf, lt, futs⟩ = true := hb
    have ho : observeBasic ⟨wr, pulled, wf, lt, futs⟩ .next =
        (⟨wr, pulled, wf, lt, futs⟩, ⟨.next, .raised .runtimeError, none, pulled, wf, 0⟩) := by
      simp [observeBasic, stepBasic, next_blocked _ hs]
    rw [ho]
    refine ⟨⟨wr, wf, futs.map Fut.known⟩, ?_, ⟨rfl, rfl, rfl, h4, h5, hnm, h6⟩⟩
    simp [watchBasic, hbe, hb, Res.hasMarker, h4]
  | false =>
    have hnp := noPending_of_unblocked lt futs h6 hb
    cases wr with
    | nil =>
      have ho : observeBasic ⟨[], pulled, wf, lt, futs⟩ .next =
          (⟨[], pulled, true, lt, futs⟩, ⟨.next, .raised .stopIteration, none, pulled, true, 0⟩) := by
        cases wf <;> simp [observeBasic, stepBasic, next, send, blocked_eq, hb, getOneValue]
      rw [ho]
      simp only [List.length_nil, Nat.add_zero] at h4
      refine ⟨⟨[], true, futs.map Fut.known⟩, ?_, ⟨rfl, rfl, rfl, by simpa using h4, by simp, rfl, h6⟩⟩
      simp [watchBasic, hbe, hb, Res.hasMarker, h4]
    | cons x r =>
      have hst : wf = false := by cases wf <;> simp_all
      subst hst
      simp only [List.length_cons] at h4
      cases x with
      | valueEnd => simp [noMarker] at hnm
      | value v =>
        have hmr : noMarker r = true := by simpa [noMarker] using hnm
        have ho : observeBasic ⟨.value v :: r, pulled, false, lt, futs⟩ .next =
            (⟨r, pulled + 1, false, lt, futs ++ [Fut.const (.val v)]⟩,
              ⟨.next, .fut (some (.val v)), none, pulled + 1, false, 0⟩) := by
          simp [observeBasic, stepBasic, next, send, blocked_eq, hb, getOneValue]
        rw [ho]
        refine ⟨⟨r, false, (futs ++ [Fut.const (.val v)]).map Fut.known⟩, ?_, ⟨rfl, rfl, rfl, ?_, by simp, hmr, ?_⟩⟩
        · have : pulled + 1 + r.length = total := by omega
          simp [watchBasic, hbe, hb, Res.hasMarker, Fut.known, this]
        · show pulled + 1 + r.length = total
          omega
        · intro k b hk
          simp only [List.getElem?_append] at hk
          split at hk
          · exact h6 k b hk
          · cases hkk : k - futs.length <;> simp [hkk] at hk
      | await bb =>
        have hmr : noMarker r = true := by simpa [noMarker] using hnm
        have ho : observeBasic ⟨.await bb :: r, pulled, false, lt, futs⟩ .next =
            (⟨r, pulled + 1, false, some (.handle futs.length), futs ++ [Fut.pending bb]⟩,
              ⟨.next, .fut none, none, pulled + 1, false, 0⟩) := by
          simp [observeBasic, stepBasic, next, send, blocked_eq, hb, getOneValue]
        rw [ho]
        refine ⟨⟨r, false, (futs ++ [Fut.pending bb]).map Fut.known⟩, ?_, ⟨rfl, rfl, rfl, ?_, by simp, hmr, ?_⟩⟩
        · have : pulled + 1 + r.length = total := by omega
          simp [watchBasic, hbe, hb, Res.hasMarker, Fut.known, this]
        · show pulled + 1 + r.length = total
          omega
        · intro k b hk
          simp only [List.getElem?_append] at hk
          split at hk
          · exact absurd hk (hnp k b)
          · rename_i hlt
            show some (LastRef.handle futs.length) = some (LastRef.handle k)
            have : k - futs.length = 0 := by
              cases hkk : k - futs.length with
              | zero => rfl
              | succ j => simp [hkk] at hk
            have : futs.length = k := by omega
            rw [this]

theorem known_getElem? (futs : List Fut) (k : Nat) : (futs.map Fut.known)[k]? = (futs[k]?).map Fut.known := by
  simp

theorem rel_compute (total : Nat) (w : Watch) (s : St) (k : Nat) (h : Rel total w s) :
    ∃ w', watchBasic total w (observeBasic s (.compute k)).2 = .ok w' ∧ Rel total w' (observeBasic s (.compute k)).1 := by
  obtain ⟨rest, pulled, stopped, lt, futs⟩ := s
  obtain ⟨wr, wf, wk⟩ := w
  obtain ⟨h1, h2, h3, h4, h5, hnm, h6⟩ := h
  simp only at h1 h2 h3 h4 h5 hnm h6
  subst h1 h2 h3
  cases hk : futs[k]? with
  | none =>
    have ho : observeBasic ⟨wr, pulled, wf, lt, futs⟩ (.compute k) =
        (⟨wr, pulled, wf, lt, futs⟩, ⟨.compute k, .raised .other, none, pulled, wf, 0⟩) := by
      simp [observeBasic, stepBasic, compute, hk]
    rw [ho]
    refine ⟨⟨wr, wf, futs.map Fut.known⟩, ?_, ⟨rfl, rfl, rfl, h4, h5, hnm, h6⟩⟩
    simp [watchBasic, Res.hasMarker, hk, h4]
  | some f =>
    cases f with
    | const v =>
      have ho : observeBasic ⟨wr, pulled, wf, lt, futs⟩ (.compute k) =
          (⟨wr, pulled, wf, lt, futs⟩, ⟨.compute k, .item v, none, pulled, wf, 0⟩) := by
        simp [observeBasic, stepBasic, compute, hk]
      rw [ho]
      refine ⟨⟨wr, wf, futs.map Fut.known⟩, ?_, ⟨rfl, rfl, rfl, h4, h5, hnm, h6⟩⟩
      simp [watchBasic, Res.hasMarker, hk, Fut.known, h4]
    | done x =>
      have ho : observeBasic ⟨wr, pulled, wf, lt, futs⟩ (.compute k) =
          (⟨wr, pulled, wf, lt, futs⟩, ⟨.compute k, .item x, none, pulled, wf, 0⟩) := by
        simp [observeBasic, stepBasic, compute, hk]
      rw [ho]
      refine ⟨⟨wr, wf, futs.map Fut.known⟩, ?_, ⟨rfl, rfl, rfl, h4, h5, hnm, h6⟩⟩
      simp [watchBasic, Res.hasMarker, hk, Fut.known, h4]
    | pending pb =>
      have hl := drainRest_length_le wr
      have ho : observeBasic ⟨wr, pulled, wf, lt, futs⟩ (.compute k) =
          (⟨drainRest wr, pulled + (wr.length - (drainRest wr).length), wf || drainStop wr, lt,
              futs.set k (.done (drainItem wr))⟩,
            ⟨.compute k, .item (drainItem wr), none, pulled + (wr.length - (drainRest wr).length),
              wf || drainStop wr, 0⟩) := by
        simp [observeBasic, stepBasic, compute, hk, sendInner_spec]
      rw [ho]
      have hlast : ∀ (j : Nat) (b : Bool), (futs.set k (Fut.done (drainItem wr)))[j]? = some (Fut.pending b) →
          lt = some (LastRef.handle j) := by
        intro j b hj
        rw [List.getElem?_set] at hj
        split at hj
        · split at hj <;> simp at hj
        · exact h6 j b hj
      have hwk : (futs.map Fut.known)[k]? = some (.pending pb) := by simp [hk, Fut.known]
      rcases skipAwaits_cases' wr hnm with h0 | ⟨v, r, h1⟩
      · have hi : drainItem wr = .endMarker := by simp [drainItem, h0]
        have hr : drainRest wr = [] := by simp [drainRest, h0]
        have hs : drainStop wr = true := by simp [drainStop, h0]
        simp only [hi, hr, hs, List.length_nil, Nat.sub_zero, Bool.or_true] at hlast ⊢
        refine ⟨⟨[], true, (futs.map Fut.known).set k (.val .endMarker)⟩, ?_,
          ⟨rfl, rfl, ?_, ?_, by simp, rfl, hlast⟩⟩
        · simp [watchBasic, Res.hasMarker, hwk, h0, h4]
        · simp [List.map_set, Fut.known]
        · simpa using h4
      · have hi : drainItem wr = .val v := by simp [drainItem, h1]
        have hr : drainRest wr = r := by simp [drainRest, h1]
        have hs : drainStop wr = false := by simp [drainStop, h1]
        have hmr : noMarker r = true := by
          have := noMarker_drainRest wr hnm; rwa [hr] at this
        simp only [hi, hr, hs, Bool.or_false] at hlast hl ⊢
        have hwf : wf = true → r = [] := by
          intro hw
          have := h5 hw
          subst this
          simp [skipAwaits] at h1
        refine ⟨⟨r, wf, (futs.map Fut.known).set k (.val (.val v))⟩, ?_,
          ⟨rfl, rfl, ?_, ?_, by simpa using hwf, hmr, hlast⟩⟩
        · have : pulled + (wr.length - r.length) + r.length = total := by omega
          simp [watchBasic, Res.hasMarker, hwk, h1, this]
        · simp [List.map_set, Fut.known]
        · show pulled + (wr.length - r.length) + r.length = total
          omega

theorem rel_take (total : Nat) (w : Watch) (s : St) (m : Nat) (h : Rel total w s) :
    ∃ w', watchBasic total w (observeBasic s (.take (m + 1))).2 = .ok w' ∧ Rel total w' (observeBasic s (.take (m + 1))).1 := by
  obtain ⟨rest, pulled, stopped, lt, futs⟩ := s
  obtain ⟨wr, wf, wk⟩ := w
  obtain ⟨h1, h2, h3, h4, h5, hnm, h6⟩ := h
  simp only at h1 h2 h3 h4 h5 hnm h6
  subst h1 h2 h3
  have hbe : ∀ r f, Watch.blocked ⟨r, f, futs.map Fut.known⟩ = blockedBy lt futs :=
    fun _ _ => watch_blocked_eq lt futs h6
  cases hb : blockedBy lt futs with
  | true =>
    have hs : St.blocked ⟨wr, pulled, wf, lt, futs⟩ = true := hb
    have ho : observeBasic ⟨wr, pulled, wf, lt, futs⟩ (.take (m + 1)) =
        (⟨wr, pulled, wf, lt, futs⟩, ⟨.take (m + 1), .raised .runtimeError, none, pulled, wf, 0⟩) := by
      simp [observeBasic, stepBasic, takeFirst_blocked _ _ hs]
    rw [ho]
    refine ⟨⟨wr, wf, futs.map Fut.known⟩, ?_, ⟨rfl, rfl, rfl, h4, h5, hnm, h6⟩⟩
    simp [watchBasic, hbe, hb, Res.hasMarker, h4]
  | false =>
    have hnp := noPending_of_unblocked lt futs h6 hb
    obtain ⟨lt', p', e, hp, hb'⟩ := takeFirst_spec wr m pulled wf lt futs hnm hb h5
    have ho : observeBasic ⟨wr, pulled, wf, lt, futs⟩ (.take (m + 1)) =
        (⟨dropValues (m + 1) wr, p', wf || decide ((values wr).length < m + 1), lt', futs⟩,
          ⟨.take (m + 1), .lst (((values wr).take (m + 1)).map .val), none, p',
            wf || decide ((values wr).length < m + 1), 0⟩) := by
      simp [observeBasic, stepBasic, e]
    rw [ho]
    have hpos : p' + (dropValues (m + 1) wr).length = total := by omega
    have hwf : (wf || decide ((values wr).length < m + 1)) = true → dropValues (m + 1) wr = [] := by
      intro hh
      rcases Bool.or_eq_true_iff.mp hh with hw | hv
      · rw [h5 hw]; simp [dropValues]
      · exact dropValues_of_short wr (m + 1) (by simpa using hv)
    have hm : Res.hasMarker (.lst (((values wr).map Item.val).take (m + 1))) = false := by
      rw [← List.map_take]; exact hasMarker_vals _
    refine ⟨⟨dropValues (m + 1) wr, wf || decide ((values wr).length < m + 1), futs.map Fut.known⟩, ?_,
      ⟨rfl, rfl, rfl, hpos, hwf, noMarker_dropValues (m + 1) wr hnm, fun k b hk => absurd hk (hnp k b)⟩⟩
    simp [watchBasic, hbe, hb, hm, hpos]

theorem rel_list (total : Nat) (w : Watch) (s : St) (h : Rel total w s) :
    ∃ w', watchBasic total w (observeBasic s .list).2 = .ok w' ∧ Rel total w' (observeBasic s .list).1 := by
  obtain ⟨rest, pulled, stopped, lt, futs⟩ := s
  obtain ⟨wr, wf, wk⟩ := w
  obtain ⟨h1, h2, h3, h4, h5, hnm, h6⟩ := h
  simp only at h1 h2 h3 h4 h5 hnm h6
  subst h1 h2 h3
  have hbe : ∀ r f, Watch.blocked ⟨r, f, futs.map Fut.known⟩ = blockedBy lt futs :=
    fun _ _ => watch_blocked_eq lt futs h6
  cases hb : blockedBy lt futs with
  | true =>
    have hs : St.blocked ⟨wr, pulled, wf, lt, futs⟩ = true := hb
    have ho : observeBasic ⟨wr, pulled, wf, lt, futs⟩ .list =
        (⟨wr, pulled, wf, lt, futs⟩, ⟨.list, .raised .runtimeError, none, pulled, wf, 0⟩) := by
      simp [observeBasic, stepBasic, listOf_blocked _ hs]
    rw [ho]
    refine ⟨⟨wr, wf, futs.map Fut.known⟩, ?_, ⟨rfl, rfl, rfl, h4, h5, hnm, h6⟩⟩
    simp [watchBasic, hbe, hb, Res.hasMarker, h4]
  | false =>
    have hnp := noPending_of_unblocked lt futs h6 hb
    obtain ⟨lt', p', e, hp, hb'⟩ := listOf_spec wr pulled wf lt futs hnm hb h5
    have ho : observeBasic ⟨wr, pulled, wf, lt, futs⟩ .list =
        (⟨[], p', true, lt', futs⟩, ⟨.list, .lst ((values wr).map .val), none, p', true, 0⟩) := by
      simp [observeBasic, stepBasic, e]
    rw [ho]
    have hpos : p' = total := by omega
    have hm := hasMarker_vals (values wr)
    refine ⟨⟨[], true, futs.map Fut.known⟩, ?_,
      ⟨rfl, rfl, rfl, by simpa using hpos, by simp, rfl, fun k b hk => absurd hk (hnp k b)⟩⟩
    simp [watchBasic, hbe, hb, hm, hpos]

theorem rel_take_zero (total : Nat) (w : Watch) (s : St) (h : Rel total w s) :
    ∃ w', watchBasic total w (observeBasic s (.take 0)).2 = .ok w' ∧ Rel total w' (observeBasic s (.take 0)).1 := by
  have ho : observeBasic s (.take 0) = (s, ⟨.take 0, .lst [], none, s.pulled, s.stopped, 0⟩) := by
    simp [observeBasic, stepBasic, takeFirst_zero]
  rw [ho]
  refine ⟨w, ?_, h⟩
  simp [watchBasic, Res.hasMarker, h.rest, h.fin, h.pos]

/-- a basic advance (`next` / `take_first` / `list_of_generator`) is accepted -/
theorem rel_adv (total : Nat) (w : Watch) (s : St) (a : Adv) (h : Rel total w s) :
    ∃ w', watchBasic total w (observeBasic s a.toOp).2 = .ok w' ∧ Rel total w' (observeBasic s a.toOp).1 := by
  cases a with
  | next => exact rel_next total w s h
  | list => exact rel_list total w s h
  | take n =>
    cases n with
    | zero => exact rel_take_zero total w s h
    | succ m => exact rel_take total w s m h

/-- while the previously returned task is not computed every advance is refused and changes nothing -/
theorem adv_blocked (s : St) (a : Adv) (hb : s.blocked = true) : stepBasic s a.toOp = (s, refused a) := by
  cases a with
  | next => exact next_blocked s hb
  | list => exact listOf_blocked s hb
  | take n =>
    cases n with
    | zero => exact takeFirst_zero s
    | succ m => exact takeFirst_blocked s m hb

theorem compute_pending (s : St) (k : Nat) (b : Bool) (hk : s.futs[k]? = some (.pending b)) :
    compute s k = ({ (sendInner s).1 with futs := (sendInner s).1.futs.set k (.done (sendInner s).2) },
      .item (sendInner s).2) := by
  simp [compute, hk]

/-- computing an outstanding task: the observer's cursor follows (`drainWatch`) -/
theorem rel_compute_out (total : Nat) (w : Watch) (s : St) (k : Nat) (b : Bool) (h : Rel total w s)
    (hk : s.futs[k]? = some (.pending b)) :
    Rel total (drainWatch w k).1 (compute s k).1 ∧ (compute s k).2 = .item (drainWatch w k).2 := by
  obtain ⟨rest, pulled, stopped, lt, futs⟩ := s
  obtain ⟨wr, wf, wk⟩ := w
  obtain ⟨h1, h2, h3, h4, h5, hnm, h6⟩ := h
  simp only at h1 h2 h3 h4 h5 hnm h6 hk
  subst h1 h2 h3
  have hl := drainRest_length_le wr
  have hc : compute ⟨wr, pulled, wf, lt, futs⟩ k =
      (⟨drainRest wr, pulled + (wr.length - (drainRest wr).length), wf || drainStop wr, lt,
          futs.set k (.done (drainItem wr))⟩, .item (drainItem wr)) := by
    simp [compute, hk, sendInner_spec]
  rw [hc]
  have hlast : ∀ (j : Nat) (b : Bool), (futs.set k (Fut.done (drainItem wr)))[j]? = some (Fut.pending b) →
      lt = some (LastRef.handle j) := by
    intro j b hj
    rw [List.getElem?_set] at hj
    split at hj
    · split at hj <;> simp at hj
    · exact h6 j b hj
  rcases skipAwaits_cases' wr hnm with h0 | ⟨v, r, h1⟩
  · have hi : drainItem wr = .endMarker := by simp [drainItem, h0]
    have hr : drainRest wr = [] := by simp [drainRest, h0]
    have hs : drainStop wr = true := by simp [drainStop, h0]
    simp only [hi, hr, hs, List.length_nil, Nat.sub_zero, drainWatch, h0, Bool.or_true] at hlast ⊢
    refine ⟨⟨rfl, rfl, ?_, ?_, by simp, rfl, hlast⟩, trivial⟩
    · simp [List.map_set, Fut.known]
    · simpa using h4
  · have hi : drainItem wr = .val v := by simp [drainItem, h1]
    have hr : drainRest wr = r := by simp [drainRest, h1]
    have hs : drainStop wr = false := by simp [drainStop, h1]
    have hmr : noMarker r = true := by
      have := noMarker_drainRest wr hnm; rwa [hr] at this
    simp only [hi, hr, hs, drainWatch, h1, Bool.or_false] at hlast hl ⊢
    have hwf : wf = true → r = [] := by
      intro hw
      have := h5 hw
      subst this
      simp [skipAwaits] at h1
    refine ⟨⟨rfl, rfl, ?_, ?_, by simpa using hwf, hmr, hlast⟩, trivial⟩
    · simp [List.map_set, Fut.known]
    · show pulled + (wr.length - r.length) + r.length = total
      omega

/-- two consumers: the k-th future and a sibling advancing the generator in the same yield -/
theorem rel_par (total : Nat) (w : Watch) (s : St) (k : Nat) (a : Adv) (h : Rel total w s) :
    ∃ w', watchStep total w (observe s (.par k a)).2 = .ok w' ∧ Rel total w' (observe s (.par k a)).1 := by
  have hkn : w.known[k]? = (s.futs[k]?).map Fut.known := by rw [h.known]; simp
  cases hk : s.futs[k]? with
  | none =>
    rw [hk] at hkn
    have ho : observe s (.par k a) = (s, ⟨.par k a, .raised .other, none, s.pulled, s.stopped, 0⟩) := by
      simp [observe, par, hk]
    rw [ho]
    refine ⟨w, ?_, h⟩
    simp [watchStep, hkn, h.rest, h.fin, h.pos]
  | some f =>
    rw [hk] at hkn
    cases f with
    | const v =>
      have hkn' : w.known[k]? = some (.val v) := by rw [hkn]; rfl
      obtain ⟨w', hw, hr⟩ := rel_adv total w s a h
      have ho : observe s (.par k a) = ((observeBasic s a.toOp).1,
          ⟨.par k a, .item v, some (true, (stepBasic s a.toOp).2), (observeBasic s a.toOp).1.pulled,
            (observeBasic s a.toOp).1.stopped, 0⟩) := by
        simp [observe, par, hk, observeBasic]
      rw [ho]
      refine ⟨w', ?_, hr⟩
      simp only [watchStep, hkn']
      simpa [sibObs, observeBasic] using hw
    | done x =>
      have hkn' : w.known[k]? = some (.val x) := by rw [hkn]; rfl
      obtain ⟨w', hw, hr⟩ := rel_adv total w s a h
      have ho : observe s (.par k a) = ((observeBasic s a.toOp).1,
          ⟨.par k a, .item x, some (true, (stepBasic s a.toOp).2), (observeBasic s a.toOp).1.pulled,
            (observeBasic s a.toOp).1.stopped, 0⟩) := by
        simp [observe, par, hk, observeBasic]
      rw [ho]
      refine ⟨w', ?_, hr⟩
      simp only [watchStep, hkn']
      simpa [sibObs, observeBasic] using hw
    | pending b =>
      have hkn' : w.known[k]? = some (.pending b) := by rw [hkn]; rfl
      obtain ⟨hrel, hitem⟩ := rel_compute_out total w s k b h hk
      have hcp := compute_pending s k b hk
      have hsp := startTask_spec b s.rest s.pulled s.stopped s.lastTask s.futs
      have hs : (⟨s.rest, s.pulled, s.stopped, s.lastTask, s.futs⟩ : St) = s := rfl
      rw [hs] at hsp
      have hpk := startTask_parks s b
      rw [← h.rest] at hpk
      cases hst : startTask s b with
      | mk s1 o =>
        rw [hst] at hpk
        cases o with
        | some x =>
          -- the task is computed before the sibling runs
          have hparks : (b || leadBlock w.rest) = false := by simpa using hpk.symm
          have hsi := hsp.1 s1 x hst
          have hc1 : (compute s k).1 = { s1 with futs := s1.futs.set k (.done x) } := by rw [hcp, hsi]
          have hc2 : (drainWatch w k).2 = x := by
            have := hitem; rw [hcp, hsi] at this; simpa using this.symm
          obtain ⟨w', hw, hr⟩ := rel_adv total (drainWatch w k).1 (compute s k).1 a hrel
          rw [hc1] at hw hr
          have ho : observe s (.par k a) =
              ((observeBasic { s1 with futs := s1.futs.set k (.done x) } a.toOp).1,
                ⟨.par k a, .item x, some (true, (stepBasic { s1 with futs := s1.futs.set k (.done x) } a.toOp).2),
                  (observeBasic { s1 with futs := s1.futs.set k (.done x) } a.toOp).1.pulled,
                  (observeBasic { s1 with futs := s1.futs.set k (.done x) } a.toOp).1.stopped, 0⟩) := by
            simp [observe, par, hk, hst, observeBasic]
          rw [ho]
          refine ⟨w', ?_, hr⟩
          simp only [watchStep, hkn', hparks]
          simpa [sibObs, observeBasic, hc2] using hw
        | none =>
          -- the task has started and is parked: NOT computed, the guard is still armed
          have hparks : (b || leadBlock w.rest) = true := by simpa using hpk.symm
          obtain ⟨hl1, hf1, hsi⟩ := hsp.2 s1 hst
          have hb1 : s1.blocked = true := by
            simp [St.blocked, hl1, hf1, h.last k b hk, hk]
          have hadv := adv_blocked s1 a hb1
          have hc1 : (compute s k).1 = { (sendInner s1).1 with futs := (sendInner s1).1.futs.set k (.done (sendInner s1).2) } := by
            rw [hcp, hsi]
          have hc2 : (drainWatch w k).2 = (sendInner s1).2 := by
            have := hitem; rw [hcp, ← hsi] at this; simpa using this.symm
          have ho : observe s (.par k a) = ((compute s k).1,
              ⟨.par k a, .item (sendInner s1).2, some (false, refused a), (compute s k).1.pulled,
                (compute s k).1.stopped, 0⟩) := by
            simp [observe, par, hk, hst, hadv, hc1]
          rw [ho]
          refine ⟨(drainWatch w k).1, ?_, hrel⟩
          simp [watchStep, hkn', hparks, hc2, hrel.rest, hrel.fin, hrel.pos]

/-- `send(x)` (x not None) is `next()` unless the generator has not started -/
theorem sendVal_eq (s : St) : sendVal s = if s.fresh then (s, .raised .typeError) else next s := by
  unfold sendVal St.fresh
  cases hb : s.blocked with
  | true => simp [next_blocked s hb]
  | false =>
    cases hs : s.stopped with
    | true => simp [next, send, hb, hs]
    | false =>
      cases hp : (s.pulled == 0) <;> simp

/-- under `Rel` the reference knows whether the underlying generator has started -/
theorem fresh_eq (total : Nat) (w : Watch) (s : St) (h : Rel total w s) : w.fresh total = s.fresh := by
  have hb : w.blocked = s.blocked := by
    unfold Watch.blocked
    rw [h.known, blocked_eq]
    exact watch_blocked_eq s.lastTask s.futs h.last
  unfold Watch.fresh St.fresh
  rw [hb, h.fin, h.rest]
  have hp := h.pos
  cases hq : (s.pulled == 0) with
  | true =>
    have : s.pulled = 0 := by simpa using hq
    have : (s.rest.length == total) = true := by simp; omega
    simp [this]
  | false =>
    have : s.pulled ≠ 0 := by simpa using hq
    have : (s.rest.length == total) = false := by simp; omega
    simp [this]

/-- `send(x)` with a non-None `x`: rejected without moving anything on a generator that has not started, `next()` otherwise -/
theorem rel_send (total : Nat) (w : Watch) (s : St) (h : Rel total w s) :
    ∃ w', watchStep total w (observe s .send).2 = .ok w' ∧ Rel total w' (observe s .send).1 := by
  have hf := fresh_eq total w s h
  cases hfr : s.fresh with
  | true =>
    have ho : observe s .send = (s, ⟨.send, .raised .typeError, none, s.pulled, s.stopped, 0⟩) := by
      simp [observe, sendVal_eq, hfr]
    rw [ho]
    refine ⟨w, ?_, h⟩
    simp [watchStep, hf, hfr, h.rest, h.fin, h.pos]
  | false =>
    obtain ⟨w', hw, hr⟩ := rel_next total w s h
    have ho : observe s .send = ((observeBasic s .next).1, { (observeBasic s .next).2 with op := .send }) := by
      simp [observe, sendVal_eq, hfr, observeBasic, stepBasic]
    rw [ho]
    refine ⟨w', ?_, hr⟩
    have hsib : (observeBasic s .next).2.sib = none := rfl
    simp only [watchStep, hf, hfr, hsib, Option.isSome_none]
    exact hw

/-- every operation keeps the model inside what the observer accepts -/
theorem rel_step (total : Nat) (w : Watch) (s : St) (op : Op) (h : Rel total w s) :
    ∃ w', watchStep total w (observe s op).2 = .ok w' ∧ Rel total w' (observe s op).1 := by
  have basic : ∀ op' : Op, (∀ k a, op' ≠ .par k a) → op' ≠ .send →
      (∃ w', watchBasic total w (observeBasic s op').2 = .ok w' ∧ Rel total w' (observeBasic s op').1) →
      ∃ w', watchStep total w (observe s op').2 = .ok w' ∧ Rel total w' (observe s op').1 := by
    intro op' hne hns hx
    cases op' with
    | par k a => exact absurd rfl (hne k a)
    | send => exact absurd rfl hns
    | next => simpa [watchStep, observe, observeBasic] using hx
    | compute k => simpa [watchStep, observe, observeBasic] using hx
    | take n => simpa [watchStep, observe, observeBasic] using hx
    | list => simpa [watchStep, observe, observeBasic] using hx
  cases op with
  | next => exact basic _ (by simp) (by simp) (rel_next total w s h)
  | compute k => exact basic _ (by simp) (by simp) (rel_compute total w s k h)
  | list => exact basic _ (by simp) (by simp) (rel_list total w s h)
  | take n =>
    cases n with
    | zero => exact basic _ (by simp) (by simp) (rel_take_zero total w s h)
    | succ m => exact basic _ (by simp) (by simp) (rel_take total w s m h)
  | par k a => exact rel_par total w s k a h
  | send => exact rel_send total w s h

theorem watchRun_ok (total : Nat) (ops : List Op) : ∀ (w : Watch) (s : St), Rel total w s →
    ∃ w', watchRun total w (run s ops) = .ok w' := by
  induction ops with
  | nil => intro w s _; exact ⟨w, rfl⟩
  | cons op ops ih =>
    intro w s h
    obtain ⟨w1, h1, h2⟩ := rel_step total w s op h
    obtain ⟨w2, h3⟩ := ih w1 (observe s op).1 h2
    refine ⟨w2, ?_⟩
    simp only [run, watchRun]
    rw [h1]
    exact h3

/-- the invariants of `Rel` hold in every state a history reaches -/
theorem rel_final (total : Nat) (ops : List Op) : ∀ (w : Watch) (s : St), Rel total w s →
    ∃ w', Rel total w' (finalState s ops) := by
  induction ops with
  | nil => intro w s h; exact ⟨w, h⟩
  | cons op ops ih =>
    intro w s h
    obtain ⟨w1, _, h2⟩ := rel_step total w s op h
    exact ih w1 (observe s op).1 h2

/-- the body after its (m+1)-th Value starts right behind that Value: what `take_first` consumed ends with it -/
theorem dropValues_split (b : Body) (hm : noMarker b = true) : ∀ m, m < (values b).length →
    ∃ pre v, b = pre ++ .value v :: dropValues (m + 1) b ∧ (values pre).length = m ∧ (values b)[m]? = some v := by
  induction b with
  | nil => intro m h; simp [values] at h
  | cons x r ih =>
    intro m h
    cases x with
    | valueEnd => simp [noMarker] at hm
    | await bb =>
      obtain ⟨pre, v, e, hl, hv⟩ := ih (by simpa [noMarker] using hm) m (by simpa [values] using h)
      refine ⟨.await bb :: pre, v, ?_, by simpa [values] using hl, by simpa [values] using hv⟩
      simp only [dropValues, List.cons_append]
      rw [← e]
    | value w =>
      cases m with
      | zero => exact ⟨[], w, by simp [dropValues], by simp [values], by simp [values]⟩
      | succ k =>
        obtain ⟨pre, v, e, hl, hv⟩ := ih (by simpa [noMarker] using hm) k
          (by simp only [values, List.length_cons] at h; omega)
        refine ⟨.value w :: pre, v, ?_, by simp [values, hl], by simpa [values] using hv⟩
        simp only [dropValues, List.cons_append]
        rw [← e]

