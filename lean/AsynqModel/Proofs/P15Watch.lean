import AsynqModel.Proofs.P14Watch
/-!
  P15, part 1: the observer `Spec.checkC03` as a predicate on newest-first traces.

  * `chk3 ord ret` is a copy of `Spec.checkC03` in which the start-order clause is checked only if `ord = true` and
    the `.ret` clause ("awaited-task-left-uncomputed") only if `ret = true`; `chk3_full`: with both flags it IS
    `Spec.checkC03`;
  * `okTr3 ord ret tr`: the observer accepts every event of the newest-first trace `tr`;
  * `spec_C03_iff` ties `okTr3 true true` to the executable `Spec.spec "C03"`;
  * `only_order_ret`: when the observer without the two clauses accepts, the full observer can only report one of
    those two clauses;
  * projection lemmas: which events touch the fields `runs`, `awaited` of the watch.
  Nothing here mentions the machine.
-/
namespace AsynqModel.Core.P15
open AsynqModel.Core AsynqModel.Core.Spec AsynqModel.Core.P14

/-- the start-order clause of `checkC03` for the first start of task `t` -/
def orderBad (w : Watch) (t : Nat) : Bool :=
  w.orderObl.any (fun (_, l) => l.contains t && (l.takeWhile (· != t)).any fun a => !w.started a)

/-- `t` is awaited by more than one task -/
abbrev elsewhere (w : Watch) (t : Nat) : Prop :=
  ((w.mentions.filter fun p => p.1 == t).map (·.2)).eraseDups.length > 1

/-- `Spec.checkC03` with switches for the start-order clause and the `.ret` clause -/
def chk3 (ord ret : Bool) (w : Watch) : Event → Option String
  | .run t i dc recv =>
    if w.isDone t then some "runs-after-completion"
    else if !dc then some "resumed-while-awaited-future-uncomputed"
    else match w.runs.lookup t, recv with
      | none, .start =>
        if i != 0 then some "resume-index"
        else if !(w.awaited.contains t) then some "never-awaited-task-started"
        else if elsewhere w t then none
        else if ord && orderBad w t then some "start-order"
        else none
      | none, .out _ => some "resumed-before-start"
      | some _, .start => some "started-twice"
      | some j, .out _ => if i != j + 1 then some "resumed-not-exactly-once-per-yield" else
          (match w.lastYield.lookup t with
           | some (jy, _) => if jy != j then some "resumed-without-new-yield" else none
           | none => some "resumed-without-new-yield")
  | .yield t i _ =>
    if w.runs.lookup t != some i then some "yield-index" else none
  | .done f _ => if w.isDone f then some "completed-twice" else none
  | .ret _ =>
    if ret && w.runs.any (fun (t, _) => !w.isDone t) then some "awaited-task-left-uncomputed" else none
  | .bad _ => some "unknown-event"
  | _ => none

theorem chk3_full (c : Ctx) (w : Watch) (e : Event) : chk3 true true w e = checkC03 c w e := by
  cases e with
  | run t i dc recv =>
    simp only [chk3, checkC03, elsewhere, orderBad, Bool.true_and]
    rfl
  | ret o => simp only [chk3, checkC03, Bool.true_and]
  | _ => simp [chk3, checkC03]

/-- the checker in the form `Spec.specRun` wants -/
def chkC (ord ret : Bool) : Ctx → Watch → Event → Option String := fun _ => chk3 ord ret

theorem checkOf_C03 : checkOf "C03" = checkC03 := by rfl

theorem chkC_full : chkC true true = checkC03 := by
  funext c w e; exact chk3_full c w e

/-- every event of the newest-first trace is accepted by the observer in the state it has when it reads the event -/
def okTr3 (ord ret : Bool) : List Event → Prop
  | [] => True
  | e :: tr => okTr3 ord ret tr ∧ chk3 ord ret (wOf tr) e = none

theorem specRun_iff_okTr3 (ord ret : Bool) (c : Ctx) (tr : List Event) :
    specRun (chkC ord ret) c {} 0 tr.reverse = none ↔ okTr3 ord ret tr := by
  induction tr with
  | nil => simp [specRun, okTr3]
  | cons e tr ih =>
    rw [List.reverse_cons, specRun_append, ih, ← wOf_eq_foldl]
    simp only [okTr3, specRun, chkC]
    cases h : chk3 ord ret (wOf tr) e <;> simp

/-- the executable observer of property C03 accepts the (oldest-first) trace iff `okTr3 true true` holds -/
theorem spec_C03_iff (c : Ctx) (tr : List Event) : spec "C03" c tr.reverse = none ↔ okTr3 true true tr := by
  unfold spec; rw [checkOf_C03, ← chkC_full]; exact specRun_iff_okTr3 true true c tr

/-- the start clause of `chk3` in isolation -/
def startChk (ord : Bool) (w : Watch) (t i : Nat) : Option String :=
  if i != 0 then some "resume-index"
  else if !(w.awaited.contains t) then some "never-awaited-task-started"
  else if elsewhere w t then none
  else if ord && orderBad w t then some "start-order"
  else none

/-- the resume clause of `chk3` in isolation -/
def resumeChk (w : Watch) (t i j : Nat) : Option String :=
  if i != j + 1 then some "resumed-not-exactly-once-per-yield" else
    (match w.lastYield.lookup t with
     | some (jy, _) => if jy != j then some "resumed-without-new-yield" else none
     | none => some "resumed-without-new-yield")

theorem chk3_run (o r : Bool) (w : Watch) (t i : Nat) (dc : Bool) (recv : Recv) :
    chk3 o r w (.run t i dc recv) =
      if w.isDone t then some "runs-after-completion"
      else if !dc then some "resumed-while-awaited-future-uncomputed"
      else match w.runs.lookup t, recv with
        | none, .start => startChk o w t i
        | none, .out _ => some "resumed-before-start"
        | some _, .start => some "started-twice"
        | some j, .out _ => resumeChk w t i j := by
  simp only [chk3, startChk, resumeChk]

theorem startChk_mono {o o' : Bool} (ho : o' = true → o = true) (w : Watch) (t i : Nat)
    (h : startChk o w t i = none) : startChk o' w t i = none := by
  unfold startChk at h ⊢
  split at h
  · cases h
  · rename_i h1
    rw [if_neg h1]
    split at h
    · cases h
    · rename_i h2
      rw [if_neg h2]
      split
      · rfl
      · rename_i h3
        rw [if_neg h3] at h
        split at h
        · cases h
        · rename_i h4
          rw [if_neg]
          intro h5
          apply h4
          simp only [Bool.and_eq_true] at h5 ⊢
          exact ⟨ho h5.1, h5.2⟩

theorem startChk_msg (w : Watch) (t i : Nat) (h : startChk false w t i = none) (m : String)
    (h2 : startChk true w t i = some m) : m = "start-order" := by
  unfold startChk at h h2
  split at h
  · cases h
  · rename_i h1
    rw [if_neg h1] at h2
    split at h
    · cases h
    · rename_i h3
      rw [if_neg h3] at h2
      split at h2
      · cases h2
      · split at h2
        · injection h2 with h2; exact h2.symm
        · cases h2

theorem chk3_mono {o r o' r' : Bool} (ho : o' = true → o = true) (hr : r' = true → r = true) (w : Watch) (e : Event)
    (h2 : chk3 o r w e = none) : chk3 o' r' w e = none := by
  cases e with
  | run t i dc recv =>
    rw [chk3_run] at h2 ⊢
    split at h2
    · cases h2
    · split at h2
      · cases h2
      · rename_i h3 h4
        rw [if_neg h3, if_neg h4]
        split at h2
        · exact startChk_mono ho _ _ _ h2
        · cases h2
        · cases h2
        · exact h2
  | ret o' =>
    simp only [chk3] at h2 ⊢
    split at h2
    · cases h2
    · rename_i h3
      rw [if_neg]
      intro h4
      apply h3
      simp only [Bool.and_eq_true] at h4 ⊢
      exact ⟨hr h4.1, h4.2⟩
  | _ => exact h2

theorem okTr3_mono {o r o' r' : Bool} (ho : o' = true → o = true) (hr : r' = true → r = true) :
    ∀ tr : List Event, okTr3 o r tr → okTr3 o' r' tr
  | [], _ => trivial
  | e :: tr, ⟨h1, h2⟩ => ⟨okTr3_mono ho hr tr h1, chk3_mono ho hr _ e h2⟩

/-- what the full check may say about an event the check without the two clauses accepts -/
theorem chk3_msg (w : Watch) (e : Event) (h1 : chk3 false false w e = none) (m : String)
    (h2 : chk3 true true w e = some m) : m = "start-order" ∨ m = "awaited-task-left-uncomputed" := by
  cases e with
  | run t i dc recv =>
    rw [chk3_run] at h1 h2
    split at h1
    · cases h1
    · split at h1
      · cases h1
      · rename_i h3 h4
        rw [if_neg h3, if_neg h4] at h2
        cases hl : w.runs.lookup t <;> cases recv <;> simp only [hl] at h1 h2
        · exact Or.inl (startChk_msg _ _ _ h1 m h2)
        · cases h1
        · cases h1
        · rw [h1] at h2; cases h2
  | ret o' =>
    simp only [chk3] at h2
    split at h2
    · injection h2 with h2; exact Or.inr h2.symm
    · cases h2
  | yield t i y => simp only [chk3] at h1 h2; rw [h1] at h2; cases h2
  | done f o => simp only [chk3] at h1 h2; rw [h1] at h2; cases h2
  | bad x => simp only [chk3] at h1 h2; rw [h1] at h2; cases h2
  | _ => simp [chk3] at h2

/-- if the observer without the start-order and `.ret` clauses accepts, the full observer can only report one of them -/
theorem only_order_ret (c : Ctx) (l : List Event) (w : Watch) (j : Nat)
    (h : specRun (chkC false false) c w j l = none)
    (i : Nat) (msg : String) (hv : specRun checkC03 c w j l = some (i, msg)) :
    msg = "start-order" ∨ msg = "awaited-task-left-uncomputed" := by
  induction l generalizing w j with
  | nil => simp [specRun] at hv
  | cons e l ih =>
    simp only [specRun] at h hv
    cases h1 : chkC false false c w e with
    | some m => rw [h1] at h; cases h
    | none =>
      rw [h1] at h
      cases h2 : checkC03 c w e with
      | none => rw [h2] at hv; exact ih _ _ h hv
      | some m =>
        rw [h2] at hv
        injection hv with hv; injection hv with _ hv; subst hv
        rw [← chk3_full] at h2
        exact chk3_msg w e h1 m h2

/-- the same when only the start-order clause is left out -/
theorem chk3_msg_order (w : Watch) (e : Event) (h1 : chk3 false true w e = none) (m : String)
    (h2 : chk3 true true w e = some m) : m = "start-order" := by
  cases e with
  | run t i dc recv =>
    rw [chk3_run] at h1 h2
    split at h1
    · cases h1
    · split at h1
      · cases h1
      · rename_i h3 h4
        rw [if_neg h3, if_neg h4] at h2
        cases hl : w.runs.lookup t <;> cases recv <;> simp only [hl] at h1 h2
        · exact startChk_msg _ _ _ h1 m h2
        · cases h1
        · cases h1
        · rw [h1] at h2; cases h2
  | ret o' => simp only [chk3] at h1 h2; rw [h1] at h2; cases h2
  | yield t i y => simp only [chk3] at h1 h2; rw [h1] at h2; cases h2
  | done f o => simp only [chk3] at h1 h2; rw [h1] at h2; cases h2
  | bad x => simp only [chk3] at h1 h2; rw [h1] at h2; cases h2
  | _ => simp [chk3] at h2

theorem only_order (c : Ctx) (l : List Event) (w : Watch) (j : Nat)
    (h : specRun (chkC false true) c w j l = none)
    (i : Nat) (msg : String) (hv : specRun checkC03 c w j l = some (i, msg)) : msg = "start-order" := by
  induction l generalizing w j with
  | nil => simp [specRun] at hv
  | cons e l ih =>
    simp only [specRun] at h hv
    cases h1 : chkC false true c w e with
    | some m => rw [h1] at h; cases h
    | none =>
      rw [h1] at h
      cases h2 : checkC03 c w e with
      | none => rw [h2] at hv; exact ih _ _ h hv
      | some m =>
        rw [h2] at hv
        injection hv with hv; injection hv with _ hv; subst hv
        rw [← chk3_full] at h2
        exact chk3_msg_order w e h1 m h2

/-! ### which events matter -/

/-- events `chk3` accepts without looking -/
def quietEv : Event → Bool
  | .run _ _ _ _ => false
  | .yield _ _ _ => false
  | .done _ _ => false
  | .ret _ => false
  | .bad _ => false
  | _ => true

theorem chk3_quiet (o r : Bool) (w : Watch) (e : Event) (h : quietEv e = true) : chk3 o r w e = none := by
  cases e <;> simp_all [chk3, quietEv]

theorem chk3_new (o r : Bool) (w : Watch) (f : Nat) (k : NewKind) : chk3 o r w (.new f k) = none := rfl

/-- only `run` events touch `runs` -/
theorem runs_of_not_run (w : Watch) (e : Event) (h : ∀ t i dc r, e ≠ .run t i dc r) : (watchEvent w e).runs = w.runs := by
  cases e with
  | run t i dc r => exact absurd rfl (h t i dc r)
  | new f k => cases k <;> simp [watchEvent] <;> split <;> rfl
  | ctx r c => cases r <;> rfl
  | yield t i y => simp [watchEvent, Watch.mention]
  | syncE t f => simp [watchEvent, Watch.mention]
  | _ => rfl

theorem run_runs (w : Watch) (t i : Nat) (dc : Bool) (r : Recv) :
    (watchEvent w (.run t i dc r)).runs = insertKV w.runs t i := rfl

/-- `awaited` only grows -/
theorem awaited_mono (w : Watch) (e : Event) (x : Nat) (h : x ∈ w.awaited) : x ∈ (watchEvent w e).awaited := by
  cases e with
  | new f k =>
    cases k <;> simp only [watchEvent] <;> (try split) <;> simp_all
  | ctx r c => cases r <;> exact h
  | yield t i y => simp [watchEvent, Watch.mention, h]
  | syncE t f => simp [watchEvent, Watch.mention, h]
  | _ => exact h

theorem awaited_mono_tr (pre tr : List Event) (x : Nat) (h : x ∈ (wOf tr).awaited) : x ∈ (wOf (pre ++ tr)).awaited := by
  induction pre with
  | nil => exact h
  | cons e pre ih => exact awaited_mono _ e x ih

theorem yield_awaited (w : Watch) (t i : Nat) (y : RY) (x : Nat) (h : x ∈ y.leaves) :
    x ∈ (watchEvent w (.yield t i y)).awaited := by
  simp [watchEvent, Watch.mention, h]

theorem syncE_awaited (w : Watch) (t f : Nat) : f ∈ (watchEvent w (.syncE t f)).awaited := by
  simp [watchEvent, Watch.mention]

theorem top_new_awaited (w : Watch) (i : Nat) (cv : Conv) (f : Nat) (cr : Option Nat) :
    f ∈ (watchEvent (watchEvent w (.top i cv)) (.new f (.task cr))).awaited := by
  simp [watchEvent]

end AsynqModel.Core.P15
