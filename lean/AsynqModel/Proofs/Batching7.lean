import AsynqModel.Proofs.Batching6
/-! helper lemmas for C11, part 7: the operations that finish a batch; the induction over the history -/
namespace AsynqModel.Batching
set_option linter.unusedSimpArgs false

theorem fin_runs_le {s : St} : (if s.kind = Kind.user then 1 else 0) ≤ 1 := by split <;> omega

theorem step_ok_flush (scripts : List Script) (s : St) (hg : Good s) (b : Nat) :
    specStep s (observe scripts s (.flush b)).2 = none := by
  simp only [observe, step]
  cases e : s.batches[b]? with
  | none => exact specStep_noop hg (by simp [opClause, batches_none e])
  | some B =>
    have ⟨hb, hbo, _⟩ := batches_some e
    have hnb : ¬ s.batches.length ≤ b := by omega
    simp only
    cases hB : B.out with
    | some o =>
      have hp : (s.bout b).isSome := by rw [hbo, hB]; rfl
      simp only [Option.isSome_some, if_true]
      exact specStep_noop hg (by simp [opClause, hnb, hp])
    | none =>
      have hp : s.bout b = none := by rw [hbo, hB]
      simp only [Option.isSome_none, Bool.false_eq_true, if_false]
      obtain ⟨o, f⟩ := compute_fin scripts hg hb hp
      have hout := out_of_fin f
      refine specStep_none ?_ ?_ (ann_of_fin f) (ext_clearUnlessKept _ b (ext_of_fin f))
        (good_clearUnlessKept _ b (good_of_fin f fin_runs_le) (by simp [hout]))
      · have hr := f.2
        simp only [opClause, hnb, hp, if_false, Option.isSome_none, Bool.false_eq_true, clearUnlessKept_bout, hout,
          clearUnlessKept_runs, hr, ne_eq, not_true_eq_false, Option.isNone_some]
        split <;> simp_all
      · intro ev hev
        simp only [evClause_clearUnlessKept]
        exact evClause_of_fin hg f ev hev

theorem step_ok_cancel (scripts : List Script) (s : St) (hg : Good s) (b : Nat) (x : Option Nat) :
    specStep s (observe scripts s (.cancel b x)).2 = none := by
  simp only [observe, step]
  cases e : s.batches[b]? with
  | none => exact specStep_noop hg (by simp [opClause, batches_none e])
  | some B =>
    have ⟨hb, hbo, _⟩ := batches_some e
    have hnb : ¬ s.batches.length ≤ b := by omega
    simp only
    cases hB : B.out with
    | some o =>
      have hp : (s.bout b).isSome := by rw [hbo, hB]; rfl
      simp only [Option.isSome_some, if_true]
      exact specStep_noop hg (by simp [opClause, hnb, hp])
    | none =>
      have hp : s.bout b = none := by rw [hbo, hB]
      simp only [Option.isSome_none, Bool.false_eq_true, if_false]
      have f := cancel_fin (errOfCancel x) hg hb hp
      have hout := out_of_fin f
      refine specStep_none ?_ (evClause_of_fin hg f) (ann_of_fin f) (ext_of_fin f) (good_of_fin f (by omega))
      have hr := f.2
      simp [opClause, hnb, hp, hout, hr]

theorem step_ok_batchValue (scripts : List Script) (s : St) (hg : Good s) (b : Nat) :
    specStep s (observe scripts s (.batchValue b)).2 = none := by
  simp only [observe, step]
  cases e : s.batches[b]? with
  | none => exact specStep_noop hg (by simp [opClause, batches_none e])
  | some B =>
    have ⟨hb, hbo, _⟩ := batches_some e
    have hnb : ¬ s.batches.length ≤ b := by omega
    simp only
    cases hB : B.out with
    | some o =>
      have hp : s.bout b = some o := by rw [hbo, hB]
      simp only [Option.isSome_some, if_true]
      exact specStep_noop hg (by simp [opClause, hnb, hp])
    | none =>
      have hp : s.bout b = none := by rw [hbo, hB]
      simp only [Option.isSome_none, Bool.false_eq_true, if_false]
      obtain ⟨o, f⟩ := compute_fin scripts hg hb hp
      have hout := out_of_fin f
      refine specStep_none ?_ (evClause_of_fin hg f) (ann_of_fin f) (ext_of_fin f) (good_of_fin f fin_runs_le)
      simp [opClause, hnb, hp, hout]

theorem step_ok_batchError (scripts : List Script) (s : St) (hg : Good s) (b : Nat) :
    specStep s (observe scripts s (.batchError b)).2 = none := by
  simp only [observe, step]
  cases e : s.batches[b]? with
  | none => exact specStep_noop hg (by simp [opClause, batches_none e])
  | some B =>
    have ⟨hb, hbo, _⟩ := batches_some e
    have hnb : ¬ s.batches.length ≤ b := by omega
    simp only
    cases hB : B.out with
    | some o =>
      have hp : s.bout b = some o := by rw [hbo, hB]
      simp only [Option.isSome_some, if_true]
      exact specStep_noop hg (by simp [opClause, hnb, hp])
    | none =>
      have hp : s.bout b = none := by rw [hbo, hB]
      simp only [Option.isSome_none, Bool.false_eq_true, if_false]
      obtain ⟨o, f⟩ := compute_fin scripts hg hb hp
      have hout := out_of_fin f
      refine specStep_none ?_ (evClause_of_fin hg f) (ann_of_fin f) (ext_of_fin f) (good_of_fin f fin_runs_le)
      simp [opClause, hnb, hp, hout]

theorem step_ok_itemValue (scripts : List Script) (s : St) (hg : Good s) (i : Nat) :
    specStep s (observe scripts s (.itemValue i)).2 = none := by
  simp only [observe, step]
  cases e : s.items[i]? with
  | none => exact specStep_noop hg (by simp [opClause, List.getElem?_eq_none_iff.mp e])
  | some it =>
    have ⟨hi, hio, hib⟩ := items_some e
    have hni : ¬ s.items.length ≤ i := by omega
    have ⟨gb, _, gz⟩ := hg.2.2.1 i hi
    simp only
    cases hO : it.out with
    | some o =>
      have hp : s.iout i = some o := by rw [hio, hO]
      simp only [Option.isSome_some, if_true]
      exact specStep_noop hg (by simp [opClause, hni, hp])
    | none =>
      have hp : s.iout i = none := by rw [hio, hO]
      have hbp : s.bout it.batch = none := by
        cases hx : s.bout it.batch with
        | none => rfl
        | some y =>
          have := gz (by rw [hib, hx]; rfl)
          rw [hp] at this; cases this
      simp only [Option.isSome_none, Bool.false_eq_true, if_false, hbp]
      rw [hib] at gb
      obtain ⟨o, f⟩ := compute_fin scripts hg gb hbp
      have hout := out_of_fin f
      have hE := ext_of_fin f
      have hib' : (compute scripts s it.batch).1.ibatch i = it.batch := by
        rw [(hE.2.2.2.2 i hi).1]; exact hib
      have hsome : ((compute scripts s it.batch).1.iout i).isSome := by
        obtain ⟨⟨a, fa⟩, _⟩ := f
        exact fa.all i (by have := hE.2.2.1; omega) hib'
      refine specStep_none ?_ ?_ (ann_of_fin f) (ext_clearUnlessKept _ _ hE)
        (good_clearUnlessKept _ _ (good_of_fin f fin_runs_le) (by simp [hout]))
      · cases hv : (compute scripts s it.batch).1.iout i with
        | none => rw [hv] at hsome; cases hsome
        | some v => simp [opClause, hni, hp, hv, hib', hout]
      · intro ev hev
        simp only [evClause_clearUnlessKept]
        exact evClause_of_fin hg f ev hev

/-- every operation from a good snapshot is accepted by the observer (and leads to a good snapshot) -/
theorem step_ok (scripts : List Script) (s : St) (hg : Good s) (op : Op) :
    specStep s (observe scripts s op).2 = none := by
  cases op with
  | add p sp lk => exact step_ok_add scripts s hg p sp lk
  | addTo b p => exact step_ok_addTo scripts s hg b p
  | flush b => exact step_ok_flush scripts s hg b
  | cancel b e => exact step_ok_cancel scripts s hg b e
  | itemValue i => exact step_ok_itemValue scripts s hg i
  | batchValue b => exact step_ok_batchValue scripts s hg b
  | batchError b => exact step_ok_batchError scripts s hg b
  | isFlushed b => exact step_ok_isFlushed scripts s hg b
  | isCancelled b => exact step_ok_isCancelled scripts s hg b
  | isEmpty b => exact step_ok_isEmpty scripts s hg b
  | itemComputed i => exact step_ok_itemComputed scripts s hg i

theorem good_of_specStep {pre : St} {ob : Obs} (h : specStep pre ob = none) : Good ob.post := by
  unfold specStep at h
  split at h
  · cases h
  · split at h
    · cases h
    · split at h
      · cases h
      · split at h
        · cases h
        · split at h
          · cases h
          · rename_i hgood; simpa using hgood

theorem observe_post (scripts : List Script) (s : St) (op : Op) :
    (observe scripts s op).2.post = (observe scripts s op).1 := rfl

theorem good_init (k : Kind) (keep : Bool := false) : Good (init k keep) := by
  cases k <;> cases keep <;> decide

theorem watchRun_ok (scripts : List Script) (ops : List Op) :
    ∀ s, Good s → watchRun s (run scripts s ops) = none := by
  induction ops with
  | nil => intro s _; rfl
  | cons op ops ih =>
    intro s hg
    have h := step_ok scripts s hg op
    simp only [run, watchRun, h]
    exact ih _ (good_of_specStep h)

theorem good_final (scripts : List Script) (ops : List Op) :
    ∀ s, Good s → Good (finalState scripts s ops) := by
  induction ops with
  | nil => intro s h; exact h
  | cons op ops ih =>
    intro s hg
    exact ih _ (good_of_specStep (step_ok scripts s hg op))

/-- what an accepted observation says, clause by clause -/
theorem specStep_unpack {pre : St} {ob : Obs} (h : specStep pre ob = none) :
    opClause pre ob = none ∧ (∀ ev ∈ ob.evs, evClause pre ob.post ev = none) ∧
    (ob.evs.filter Ev.isAnnounce).length ≤ 1 ∧ Ext pre ob.post ∧ Good ob.post := by
  unfold specStep at h
  split at h
  · cases h
  · rename_i h1
    split at h
    · cases h
    · rename_i h2
      split at h
      · cases h
      · rename_i h3
        split at h
        · cases h
        · rename_i h4
          split at h
          · cases h
          · rename_i h5
            exact ⟨h1, List.findSome?_eq_none_iff.mp h2, by omega, by simpa using h4, by simpa using h5⟩

end AsynqModel.Batching
