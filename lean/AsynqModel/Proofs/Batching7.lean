import AsynqModel.Proofs.Batching6
/-! helper lemmas for C11, part 7: the operations that finish a batch; the induction over the history -/
namespace AsynqModel.Batching
set_option linter.unusedSimpArgs false

theorem fin_runs_le {s : St} : (if s.kind = Kind.user then 1 else 0) ≤ 1 := by split <;> omega

/-! ### what the log of a finishing operation contains -/

theorem filter_isBody_nil (l : List Ev) (h : ∀ ev ∈ l, ev.isBody = false) : l.filter Ev.isBody = [] := by
  rw [List.filter_eq_nil_iff]; intro ev hev; simp [h ev hev]

theorem filterMap_bodyEnd_nil (l : List Ev) (h : ∀ ev ∈ l, ev.bodyEnd? = none) : l.filterMap Ev.bodyEnd? = [] := by
  rw [List.filterMap_eq_nil_iff]; exact h

theorem any_isBodyEv_false (l : List Ev) (h : ∀ ev ∈ l, ev.isBodyEv = false) : l.any Ev.isBodyEv = false := by
  rw [List.any_eq_false]; intro ev hev; simp [h ev hev]

theorem plain_isBody {ev : Ev} (h : ev.isPlain = true) : ev.isBody = false := by
  cases ev <;> simp_all [Ev.isPlain, Ev.isBody]
theorem plain_bodyEnd {ev : Ev} (h : ev.isPlain = true) : ev.bodyEnd? = none := by
  cases ev <;> simp_all [Ev.isPlain, Ev.bodyEnd?]
theorem plain_isBodyEv {ev : Ev} (h : ev.isPlain = true) : ev.isBodyEv = false := by
  cases ev <;> simp_all [Ev.isPlain, Ev.isBodyEv]

theorem bodyPart_noann {k : Kind} {a b0 : Nat} {o : Outc} {e0 : List Ev} (h : BodyPart k a b0 o e0) :
    ∀ ev ∈ e0, ev.isAnnounce = false := by
  cases k with
  | user =>
    obtain ⟨e1, r, he, hp, _⟩ := h
    subst he
    intro ev hev
    simp only [List.mem_cons, List.mem_append, List.not_mem_nil, or_false] at hev
    rcases hev with hev | hev | hev
    · subst hev; rfl
    · exact isPlain_not_announce (hp ev hev)
    · subst hev; rfl
  | debug => exact plain_noann h.1

theorem fin_unpack {s0 b0 o n e0 r} (h : Fin s0 b0 o n e0 r) :
    ∃ a L, Mid s0 b0 a r.1 ∧ r.1.bout b0 = some o ∧ r.2 = e0 ++ (L ++ [.announce b0 [] a]) ∧
      (∀ ev ∈ L, ev.isPlain = true) ∧ Law s0 r.1 r.2 ∧ r.1.runs b0 = n := by
  obtain ⟨⟨a, m, hout, _, _, ⟨L, hL, hp, _⟩, hl⟩, hr⟩ := h
  exact ⟨a, L, m, hout, hL, hp, hl, hr⟩

/-- every item completed while `b0` is being finished is an item of `b0` -/
theorem items_of_fin {s0 b0 o n e0 r} (h : Fin s0 b0 o n e0 r) :
    ∀ i o' bb, Ev.item i o' bb ∈ r.2 → r.1.ibatch i = b0 := by
  obtain ⟨⟨a, m, hout, _, hev, _⟩, _⟩ := h
  intro i o' bb hm
  exact (hev _ hm).2.2.2.1

/-- the clause about the batch that has to be flushed -/
theorem fateClause_flushed {rx : Bool} {pre : St} {ob : Obs} {b : Nat} {clear : Bool} {a : Nat} {o : Outc}
    {e0 L : List Ev} (hf : fate pre ob.op = .flushed b clear)
    (hout : ob.post.bout b = some o) (hslot : slotOk pre ob.post (some b) = true)
    (hbi : ob.post.bitems b = if clear && !pre.keep then [] else pre.bitems b)
    (hact : ob.post.active = a) (hruns : ob.post.runs b = if pre.kind = .user then 1 else 0)
    (hevs : ob.evs = e0 ++ (L ++ [.announce b [] a])) (hL : ∀ ev ∈ L, ev.isPlain = true)
    (hbp : BodyPart pre.kind a b o e0) (hbx : BodyExtra pre b o e0) : fateClause rx pre ob = none := by
  unfold fateClause
  rw [firstFail_none]
  unfold fateChecks
  simp only [hf, List.mem_append, List.mem_cons, List.not_mem_nil, or_false]
  intro x hx
  rcases hx with (hx | hx | hx) | hx
  · subst hx; simp [hout]
  · subst hx; exact hslot
  · subst hx; simp [hbi]
  · unfold bodyChecks at hx
    cases hk : pre.kind with
    | user =>
      rw [hk] at hbp hruns
      simp only [hk, List.mem_cons, List.not_mem_nil, or_false] at hx
      obtain ⟨e1, r, he0, hp1, ho⟩ := hbp
      subst he0
      have hb1 : (e1.filter Ev.isBody) = [] := filter_isBody_nil e1 (fun ev h => plain_isBody (hp1 ev h))
      have hb2 : (L.filter Ev.isBody) = [] := filter_isBody_nil L (fun ev h => plain_isBody (hL ev h))
      have hm1 : e1.filterMap Ev.bodyEnd? = [] := filterMap_bodyEnd_nil e1 (fun ev h => plain_bodyEnd (hp1 ev h))
      have hm2 : L.filterMap Ev.bodyEnd? = [] := filterMap_bodyEnd_nil L (fun ev h => plain_bodyEnd (hL ev h))
      rcases hx with hx | hx | hx | hx | hx
      · subst hx; simp [hruns]
      · subst hx; simp [hevs, hact]
      · subst hx
        simp [hevs, List.filter_append, hb1, hb2, Ev.isBody, List.filter]
      · subst hx
        simp [hevs, List.filterMap_append, hm1, hm2, Ev.bodyEnd?, List.filterMap, ho, hout]
      · subst hx
        have := hbx.1 hk (L ++ [.announce b [] a])
        simp only [List.cons_append, List.append_assoc, List.singleton_append, List.nil_append] at this
        simp [hevs, this]
    | debug =>
      rw [hk] at hbp
      simp only [hk, List.mem_cons, List.not_mem_nil, or_false] at hx
      obtain ⟨hp0, ho⟩ := hbp
      have hany : ob.evs.any Ev.isBodyEv = false := by
        rw [hevs]
        apply any_isBodyEv_false
        intro ev hev
        simp only [List.mem_append, List.mem_singleton] at hev
        rcases hev with hev | hev | hev
        · exact plain_isBodyEv (hp0 ev hev)
        · exact plain_isBodyEv (hL ev hev)
        · subst hev; rfl
      rcases hx with hx | hx
      · subst hx; simp [hany]
      · subst hx
        rcases ho with ho | ho
        · simp [hout, ho]
        · have hc := alreadyCause_append pre b e0 (L ++ [.announce b [] a]) (hbx.2 hk ho)
          rw [← hevs] at hc
          simp [hout, ho, hc]

/-- the clause about the batch that has to be cancelled -/
theorem fateClause_cancelled {rx : Bool} {pre : St} {ob : Obs} {b : Nat} {x : Err} {a : Nat} {L : List Ev}
    (hf : fate pre ob.op = .cancelled b x) (hout : ob.post.bout b = some (.err x)) (hruns : ob.post.runs b = 0)
    (hslot : slotOk pre ob.post (some b) = true) (hbi : ob.post.bitems b = pre.bitems b)
    (hevs : ob.evs = L ++ [.announce b [] a]) (hL : ∀ ev ∈ L, ev.isPlain = true) : fateClause rx pre ob = none := by
  have hany : ob.evs.any Ev.isBodyEv = false := by
    rw [hevs]
    apply any_isBodyEv_false
    intro ev hev
    simp only [List.mem_append, List.mem_singleton] at hev
    rcases hev with hev | hev
    · exact plain_isBodyEv (hL ev hev)
    · subst hev; rfl
  simp [fateClause, fateChecks, firstFail, hf, hout, hruns, hslot, hbi, hany]

/-- everything the observer wants of an operation that ran `_compute` of the pending batch `b` of a good snapshot;
    `kp = some k`: the operation went through `flush()`, which clears the item list unless `k` -/
theorem compute_ok {rx : Bool} (scripts : List Script) {s : St} (hg : Good s) {b : Nat} (hb : b < s.batches.length)
    (hp : s.bout b = none) (op : Op) (res : Res) (clear : Bool) (post : St)
    (hpost : post = if clear then (compute scripts s b).1.clearUnlessKept s.keep b else (compute scripts s b).1)
    (hf : fate s op = .flushed b clear)
    (h1 : opClause s ⟨op, res, (compute scripts s b).2, post⟩ = none) :
    specStep rx s ⟨op, res, (compute scripts s b).2, post⟩ = none := by
  obtain ⟨o, e0, f, hbp, hbx⟩ := compute_fin scripts hg hb hp
  have hitems := items_of_fin f
  have hblaw := blaw_compute scripts s b
  have hfb : (fate s op).batch? = some b := by rw [hf]; rfl
  obtain ⟨a, L, m, hout, hL, hpl, hl, hr⟩ := fin_unpack f
  have hn0 := bodyPart_noann hbp
  obtain ⟨a', m', hs⟩ := logShape_of_fin f hn0
  have ha' : a' = a := by rw [m'.aeq, m.aeq]
  subst ha'
  have hgood := good_of_fin f fin_runs_le
  have hE := ext_of_fin f
  have hcnt := counts_of_fin m hout hl hs
  have hslot := slot_of_mid m
  have haeq : (switch s b).active = a' := m.aeq.symm
  rw [haeq] at hbp
  cases clear with
  | true =>
    simp only [if_true] at hpost
    subst hpost
    refine specStep_none h1 ?_ ?_ ?_ (ann_of_shape hs) ?_ (counts_clearUnlessKept _ _ hcnt) (ext_clearUnlessKept _ b hE)
      (good_clearUnlessKept _ b hgood (by simp [hout]))
    · refine fateClause_flushed hf (o := o) (by simpa using hout) (by simpa [slot_clearUnlessKept] using hslot) ?_
        (by simpa using m.act) (by simpa using hr) hL hpl hbp hbx
      simp only [clearUnlessKept_bitems, m.bi0]
      cases s.keep <;> simp
    · exact frameClause_of hfb (fun i o' bb hm => by simpa using hitems i o' bb hm)
        (fun c hc => by
          have : ((compute scripts s b).1.clearUnlessKept s.keep b).bitems c = (compute scripts s b).1.bitems c := by
            cases s.keep <;> simp [St.clearUnlessKept, clearItems_bitems, hc]
          rw [this]; exact hblaw c)
    · intro ev hev
      simp only [hf, Fate.bodyRuns, evClause_clearUnlessKept]
      exact evClause_of_fin hg f ev hev
    · rw [after_clearUnlessKept]; exact after_of_shape _ hs
  | false =>
    simp only [Bool.false_eq_true, if_false] at hpost
    subst hpost
    refine specStep_none h1 ?_ (frameClause_of hfb hitems (fun c _ => hblaw c)) ?_ (ann_of_shape hs)
      (after_of_shape _ hs) hcnt hE hgood
    · exact fateClause_flushed hf (o := o) hout hslot (by simpa using m.bi0) m.act hr hL hpl hbp hbx
    · intro ev hev
      simp only [hf, Fate.bodyRuns]
      exact evClause_of_fin hg f ev hev

theorem fate_flush {s : St} {b : Nat} (hb : b < s.batches.length) (hp : s.bout b = none) :
    fate s (.flush b) = .flushed b true := by simp [fate, St.pendingBatch, hb, hp]

theorem step_ok_flush {rx : Bool} (scripts : List Script) (s : St) (hg : Good s) (b : Nat) :
    specStep rx s (observe scripts s (.flush b)).2 = none := by
  simp only [observe, step]
  cases e : s.batches[b]? with
  | none =>
    have hq : fate s (.flush b) = .quiet := by
      have : ¬ b < s.batches.length := by have := batches_none e; omega
      simp [fate, St.pendingBatch, this]
    exact specStep_noop hg hq (by simp [opClause, batches_none e])
  | some B =>
    have ⟨hb, hbo, _⟩ := batches_some e
    have hnb : ¬ s.batches.length ≤ b := by omega
    simp only
    cases hB : B.out with
    | some o =>
      have hp : (s.bout b).isSome := by rw [hbo, hB]; rfl
      have hq : fate s (.flush b) = .quiet := by
        have : ¬ s.bout b = none := by intro h; rw [h] at hp; cases hp
        simp [fate, St.pendingBatch, this]
      simp only [Option.isSome_some, if_true]
      exact specStep_noop hg hq (by simp [opClause, hnb, hp])
    | none =>
      have hp : s.bout b = none := by rw [hbo, hB]
      simp only [Option.isSome_none, Bool.false_eq_true, if_false]
      exact compute_ok scripts hg hb hp _ _ true _ rfl (fate_flush hb hp) (by simp [opClause, hnb, hp])

theorem step_ok_cancel {rx : Bool} (scripts : List Script) (s : St) (hg : Good s) (b : Nat) (x : Option Nat) :
    specStep rx s (observe scripts s (.cancel b x)).2 = none := by
  simp only [observe, step]
  cases e : s.batches[b]? with
  | none =>
    have hq : fate s (.cancel b x) = .quiet := by
      have : ¬ b < s.batches.length := by have := batches_none e; omega
      simp [fate, St.pendingBatch, this]
    exact specStep_noop hg hq (by simp [opClause, batches_none e])
  | some B =>
    have ⟨hb, hbo, _⟩ := batches_some e
    have hnb : ¬ s.batches.length ≤ b := by omega
    simp only
    cases hB : B.out with
    | some o =>
      have hp : (s.bout b).isSome := by rw [hbo, hB]; rfl
      have hq : fate s (.cancel b x) = .quiet := by
        have : ¬ s.bout b = none := by intro h; rw [h] at hp; cases hp
        simp [fate, St.pendingBatch, this]
      simp only [Option.isSome_some, if_true]
      exact specStep_noop hg hq (by simp [opClause, hnb, hp])
    | none =>
      have hp : s.bout b = none := by rw [hbo, hB]
      simp only [Option.isSome_none, Bool.false_eq_true, if_false]
      have hf : fate s (.cancel b x) = .cancelled b (errOfCancel x) := by simp [fate, St.pendingBatch, hb, hp]
      have f := cancel_fin (errOfCancel x) hg hb hp
      obtain ⟨a, L, m, hout, hL, hpl, hl, hr⟩ := fin_unpack f
      obtain ⟨a', m', hs⟩ := logShape_of_fin f (by simp)
      have ha' : a' = a := by rw [m'.aeq, m.aeq]
      subst ha'
      refine specStep_none (by simp [opClause, hnb, hp]) ?_
        (frameClause_of (by rw [hf]; rfl) (items_of_fin f) (fun c _ => blaw_completeBatch s b _ c)) ?_
        (ann_of_shape hs) (after_of_shape _ hs)
        (counts_of_fin m hout hl hs) (ext_of_fin f) (good_of_fin f (by omega))
      · exact fateClause_cancelled hf hout hr (slot_of_mid m) m.bi0 (by simpa using hL) hpl
      · intro ev hev
        simp only [hf, Fate.bodyRuns]
        exact evClause_of_fin_cancel hg f ev hev

theorem step_ok_batchValue {rx : Bool} (scripts : List Script) (s : St) (hg : Good s) (b : Nat) :
    specStep rx s (observe scripts s (.batchValue b)).2 = none := by
  simp only [observe, step]
  cases e : s.batches[b]? with
  | none =>
    have hq : fate s (.batchValue b) = .quiet := by
      have : ¬ b < s.batches.length := by have := batches_none e; omega
      simp [fate, St.pendingBatch, this]
    exact specStep_noop hg hq (by simp [opClause, batches_none e])
  | some B =>
    have ⟨hb, hbo, _⟩ := batches_some e
    have hnb : ¬ s.batches.length ≤ b := by omega
    simp only
    cases hB : B.out with
    | some o =>
      have hp : s.bout b = some o := by rw [hbo, hB]
      have hq : fate s (.batchValue b) = .quiet := by simp [fate, St.pendingBatch, hp]
      simp only [Option.isSome_some, if_true]
      exact specStep_noop hg hq (by simp [opClause, hnb, hp])
    | none =>
      have hp : s.bout b = none := by rw [hbo, hB]
      simp only [Option.isSome_none, Bool.false_eq_true, if_false]
      have hf : fate s (.batchValue b) = .flushed b false := by simp [fate, St.pendingBatch, hb, hp]
      obtain ⟨o, e0, f, _⟩ := compute_fin scripts hg hb hp
      have hout := out_of_fin f
      exact compute_ok scripts hg hb hp _ _ false _ rfl hf (by simp [opClause, hnb, hp, hout])

theorem step_ok_batchError {rx : Bool} (scripts : List Script) (s : St) (hg : Good s) (b : Nat) :
    specStep rx s (observe scripts s (.batchError b)).2 = none := by
  simp only [observe, step]
  cases e : s.batches[b]? with
  | none =>
    have hq : fate s (.batchError b) = .quiet := by
      have : ¬ b < s.batches.length := by have := batches_none e; omega
      simp [fate, St.pendingBatch, this]
    exact specStep_noop hg hq (by simp [opClause, batches_none e])
  | some B =>
    have ⟨hb, hbo, _⟩ := batches_some e
    have hnb : ¬ s.batches.length ≤ b := by omega
    simp only
    cases hB : B.out with
    | some o =>
      have hp : s.bout b = some o := by rw [hbo, hB]
      have hq : fate s (.batchError b) = .quiet := by simp [fate, St.pendingBatch, hp]
      simp only [Option.isSome_some, if_true]
      exact specStep_noop hg hq (by simp [opClause, hnb, hp])
    | none =>
      have hp : s.bout b = none := by rw [hbo, hB]
      simp only [Option.isSome_none, Bool.false_eq_true, if_false]
      have hf : fate s (.batchError b) = .flushed b false := by simp [fate, St.pendingBatch, hb, hp]
      obtain ⟨o, e0, f, _⟩ := compute_fin scripts hg hb hp
      have hout := out_of_fin f
      exact compute_ok scripts hg hb hp _ _ false _ rfl hf (by simp [opClause, hnb, hp, hout])

theorem step_ok_itemValue {rx : Bool} (scripts : List Script) (s : St) (hg : Good s) (i : Nat) :
    specStep rx s (observe scripts s (.itemValue i)).2 = none := by
  simp only [observe, step]
  cases e : s.items[i]? with
  | none =>
    have hni : s.items.length ≤ i := List.getElem?_eq_none_iff.mp e
    have hq : fate s (.itemValue i) = .quiet := by
      have : ¬ i < s.items.length := by omega
      simp [fate, this]
    exact specStep_noop hg hq (by simp [opClause, hni])
  | some it =>
    have ⟨hi, hio, hib⟩ := items_some e
    have hni : ¬ s.items.length ≤ i := by omega
    have ⟨gb, _, gz⟩ := hg.2.2.1 i hi
    simp only
    cases hO : it.out with
    | some o =>
      have hp : s.iout i = some o := by rw [hio, hO]
      have hq : fate s (.itemValue i) = .quiet := by simp [fate, hp]
      simp only [Option.isSome_some, if_true]
      exact specStep_noop hg hq (by simp [opClause, hni, hp])
    | none =>
      have hp : s.iout i = none := by rw [hio, hO]
      have hbp : s.bout it.batch = none := by
        cases hx : s.bout it.batch with
        | none => rfl
        | some y =>
          have := gz (by rw [hib, hx]; rfl)
          rw [hp] at this; cases this
      simp only [Option.isSome_none, Bool.false_eq_true, if_false, hbp]
      rw [hib] at gb
      have hf : fate s (.itemValue i) = .flushed it.batch true := by
        simp [fate, St.pendingBatch, hi, hp, hib, gb, hbp]
      obtain ⟨o, e0, f, _⟩ := compute_fin scripts hg gb hbp
      have hout := out_of_fin f
      have hE := ext_of_fin f
      have hib' : (compute scripts s it.batch).1.ibatch i = it.batch := by
        rw [(hE.2.2.2.2 i hi).1]; exact hib
      have hsome : ((compute scripts s it.batch).1.iout i).isSome := by
        obtain ⟨⟨a, fa⟩, _⟩ := f
        exact fa.all i (by have := hE.2.2.1; omega) hib'
      refine compute_ok scripts hg gb hbp _ _ true _ rfl hf ?_
      cases hv : (compute scripts s it.batch).1.iout i with
      | none => rw [hv] at hsome; cases hsome
      | some v => simp [opClause, hni, hp, hv, hib', hout]

/-- every operation from a good snapshot is accepted by the observer (and leads to a good snapshot) -/
theorem step_ok {rx : Bool} (scripts : List Script) (s : St) (hg : Good s) (op : Op) :
    specStep rx s (observe scripts s op).2 = none := by
  cases op with
  | add p sp lk => exact step_ok_add scripts s hg p sp lk
  | addTo b p => exact step_ok_addTo scripts s hg b p
  | flush b => exact step_ok_flush scripts s hg b
  | cancel b e => exact step_ok_cancel scripts s hg b e
  | itemValue i => exact step_ok_itemValue scripts s hg i
  | batchValue b => exact step_ok_batchValue scripts s hg b
  | batchError b => exact step_ok_batchError scripts s hg b
  | isFlushed b => exact step_ok_isFlushed scripts s hg b
  | isCancelled b => exact step_ok_isCancelled scripts s hg b
  | isEmpty b => exact step_ok_isEmpty scripts s hg b
  | itemComputed i => exact step_ok_itemComputed scripts s hg i

/-- what an accepted observation says, clause by clause -/
theorem specStep_unpack' {rx : Bool} {pre : St} {ob : Obs} (h : specStep rx pre ob = none) :
    (opClause pre ob = none ∧ fateClause rx pre ob = none ∧
    (∀ ev ∈ ob.evs, evClause (fate pre ob.op).bodyRuns pre ob.post ev = none) ∧
    (ob.evs.filter Ev.isAnnounce).length ≤ 1 ∧ afterAnnounceOk ob.post ob.evs = true ∧
    CountsOk pre ob.post ob.evs ∧ Ext pre ob.post ∧ Good ob.post) ∧ frameClause pre ob = none := by
  unfold specStep at h
  split at h
  · cases h
  · rename_i h1
    split at h
    · cases h
    · rename_i h2
      split at h
      · cases h
      · rename_i hf
        split at h
        · cases h
        · rename_i hfr
          split at h
          · cases h
          · rename_i h3
            split at h
            · cases h
            · rename_i ha
              split at h
              · cases h
              · rename_i hc
                split at h
                · cases h
                · rename_i h4
                  split at h
                  · cases h
                  · rename_i h5
                    exact ⟨⟨h1, hf, List.findSome?_eq_none_iff.mp h2, by omega, by simpa using ha, by simpa using hc,
                      by simpa using h4, by simpa using h5⟩, hfr⟩

theorem specStep_unpack {rx : Bool} {pre : St} {ob : Obs} (h : specStep rx pre ob = none) :
    opClause pre ob = none ∧ fateClause rx pre ob = none ∧
    (∀ ev ∈ ob.evs, evClause (fate pre ob.op).bodyRuns pre ob.post ev = none) ∧
    (ob.evs.filter Ev.isAnnounce).length ≤ 1 ∧ afterAnnounceOk ob.post ob.evs = true ∧
    CountsOk pre ob.post ob.evs ∧ Ext pre ob.post ∧ Good ob.post := (specStep_unpack' h).1

/-- the frame clause of an accepted observation -/
theorem specStep_frame {rx : Bool} {pre : St} {ob : Obs} (h : specStep rx pre ob = none) :
    frameClause pre ob = none := (specStep_unpack' h).2

theorem good_of_specStep {rx : Bool} {pre : St} {ob : Obs} (h : specStep rx pre ob = none) : Good ob.post :=
  (specStep_unpack h).2.2.2.2.2.2.2

theorem observe_post (scripts : List Script) (s : St) (op : Op) :
    (observe scripts s op).2.post = (observe scripts s op).1 := rfl

theorem good_init (k : Kind) (keep : Bool := false) : Good (init k keep) := by
  cases k <;> cases keep <;> decide

theorem watchRun_ok {rx : Bool} (scripts : List Script) (ops : List Op) :
    ∀ s, Good s → watchRun rx s (run scripts s ops) = none := by
  induction ops with
  | nil => intro s _; rfl
  | cons op ops ih =>
    intro s hg
    have h := step_ok (rx := rx) scripts s hg op
    simp only [run, watchRun, h]
    exact ih _ (good_of_specStep h)

theorem good_final (scripts : List Script) (ops : List Op) :
    ∀ s, Good s → Good (finalState scripts s ops) := by
  induction ops with
  | nil => intro s h; exact h
  | cons op ops ih =>
    intro s hg
    exact ih _ (good_of_specStep (step_ok (rx := false) scripts s hg op))

end AsynqModel.Batching
