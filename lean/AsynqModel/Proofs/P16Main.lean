import AsynqModel.Proofs.P16Clauses
/-!
  P16, part 14: the relation `U` (and with it the acceptance of every `.run` / `.flushB` / `.done` / `.ret` event by
  `checkC06`) holds in every reachable state of a well-scoped program in which the stack guard has not fired.
-/
namespace AsynqModel.Core.P16
open AsynqModel.Core AsynqModel.Core.Spec AsynqModel.Core.P13 AsynqModel.Core.P5 AsynqModel.Core.P12

variable {cx : Ctx}

/-- the invariants of a reachable state, collected -/
theorem bd_of {s : State} (h : P10.WSReach s) (hg : s.guardFired = false) (u : U cx s none) : Bd cx s := by
  have hr := h.reach
  have i13 := inv13_of_reach hr { (default : Ctx) with cfg := s.cfg } rfl
  refine ⟨R_reach hr hg, B_reach hr hg, I_reach hr, J_reach' h hg, lib'_of_ws h hg, ?_, i13.sr.ss⟩
  refine ⟨u, P2.pinv_reach hr, ?_, i13.li.base.outs, ?_, (P10.ws_hinv h).1, (P10.ws_binv h).chain⟩
  · intro t hp hs ho
    show (obs s.trace).lastYield.lookup t = _
    rw [obs_eq_wOf]
    exact (P14.K_reach default hr).ly t hp hs ho
  · intro t x he
    obtain ⟨extra, h1, _⟩ := i13.sr.ss
    rw [h1]
    exact List.mem_append_right _ (edgeIn_calls _ _ _ he)

theorem U_reach {s : State} (h : P10.WSReach s) (hg : s.guardFired = false) : U cx s none := by
  induction h with
  | init cfg tops choices _ => exact U.init cfg tops choices
  | @step s hs ih =>
    have hg0 := P3.guard_mono s hg
    have u := ih hg0
    have bd := bd_of hs hg0 u
    refine U_step u ?_ ?_ ?_ ?_ ?_ ?_
    · intro t old rest hctl
      have hm : t ∈ P2.gens s.ctl := by rw [hctl]; simp [P2.gens]
      exact ⟨bd.pf.pi.genKind t hm, by simp [State.computed, bd.pf.pi.live t hm], bd.pf.pi.gnb t hm⟩
    · intro t old rest hctl _ i dc r
      exact bd.run_ok hctl i dc r
    · intro root base rest hctl hlen k q its p pd
      exact bd.flush_ok hctl hlen k q its p pd
    · intro hctl o
      exact bd.ret_ok hctl o
    · intro t hnc hb _ hn
      exact bd.susp_ok t hb hn hnc
    · intro t hc ha
      exact bd.z_ok t hc ha

/-- the observer of C06 accepts the trace -/
theorem acc_C06 {s : State} (h : P10.WSReach s) (hg : s.guardFired = false) : P13.Acc checkC06 cx s.trace :=
  (acc_split cx s.trace).2 ⟨(R_reach h.reach hg).acc, (U_reach h hg).acc⟩

end AsynqModel.Core.P16
