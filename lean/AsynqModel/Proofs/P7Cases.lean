import AsynqModel.Proofs.P7Rel
import AsynqModel.Proofs.P3Main
/-!
  P7: classification of the steps of the machine as far as contexts, scoped values, the task stack and the
  completion of tasks are concerned (`Cases s (step s)`).  Every step is
  * `neutral`  : a `Q calm` change that keeps the task stack and the frame discipline,
  * `top`      : the end of a top-level computation (`finishTop`, the only source of `.svals` events),
  * `enterLoop`: `_execute(root)` starts, `root` is pushed,
  * `pop`      : the top of the stack is popped: a computed future, a batch item or a lazy future,
  * `suspend`  : second visit of a blocked task: its contexts are paused, it is popped,
  * `visit`    : first visit of a blocked task: its contexts are resumed, its dependencies pushed,
  * `enterGen` : `_continue_with_task(t)`: contexts resumed, generator frame pushed,
  * `withCtx`, `endwith`, `finish`: the three instructions of a task body that touch contexts,
  * `guard`    : the MAX_TASK_STACK_SIZE guard fires.
-/
namespace AsynqModel.Core.P7
open AsynqModel.Core P5

/-! ### one instruction of a task body -/

inductive GenCases (s : State) (t : Nat) (old : Option Nat) (r : State) : Prop
  | neutral (q : Q calm s r)
  | withCtx (c : CtxKind) (b k : Body) (s0 : State) (h0 : s0 = s ∨ ∃ var, s0 = s.svTouch var)
      (e : r = (if c == .nonasync then newCtx s0 s.ctxs.length t c
                else (newCtx s0 s.ctxs.length t c).ctxResumeOne s.ctxs.length).updTask t
                  fun ts => { ts with conts := (s.ctxs.length, k) :: ts.conts, body := b })
  | endwith (cid : Nat) (k : Body) (cs : List (Nat × Body)) (hconts : (s.task t).conts = (cid, k) :: cs)
      (e : r = (s.ctxExit cid).updTask t fun ts => { ts with conts := cs, body := k })
  | finish (o : Outcome) (hnc : s.computed t = false)
      (e : r = (((s.exitAll t).updTask t fun ts => { ts with pending := false }).complete t o).leaveGen t old)

theorem q_withCtl {P} (s : State) (c : List Ctl) : Q P s { s with ctl := c } := Q.of_eq rfl rfl rfl rfl rfl rfl
theorem q_withRaising {P} (s : State) (r : Option Err) : Q P s { s with raising := r } := Q.of_eq rfl rfl rfl rfl rfl rfl
theorem q_withBatches {P} (s : State) (b : List Batch) : Q P s { s with batches := b } := Q.of_eq rfl rfl rfl rfl rfl rfl

theorem q_leaveGen {P} (s : State) (t : Nat) (old : Option Nat) : Q P s (s.leaveGen t old) := by
  unfold State.leaveGen
  exact Q.trans (s' := s.updTask t fun ts => { ts with depsSched := false })
    (q_updTask _ _ _ (fun _ => rfl) (fun _ => rfl) (fun _ => rfl)) (Q.of_eq rfl rfl rfl rfl rfl rfl)

macro "p7_q_step" : tactic => `(tactic| first
  | exact Q.refl _ _
  | refine Q.trans ?_ (q_popStack _)
  | refine Q.trans ?_ (q_emit _ _ (by rfl) (by rfl))
  | refine Q.trans ?_ (q_updTask _ _ _ (fun _ => rfl) (fun _ => rfl) (fun _ => rfl))
  | refine Q.trans ?_ (q_newTask _ _ _ (fun _ _ => rfl))
  | refine Q.trans ?_ (q_alloc _ _ _ rfl rfl rfl rfl rfl (by rfl))
  | refine Q.trans ?_ (q_appendFut _ _ rfl rfl rfl rfl rfl)
  | refine Q.trans ?_ (q_updBatch ..)
  | refine Q.trans ?_ (q_fail ..)
  | refine Q.trans ?_ (q_leaveGen ..)
  | refine Q.trans ?_ (q_svTouch ..)
  | refine Q.trans ?_ (q_withCtl _ _)
  | refine Q.trans ?_ (q_withRaising _ _)
  | refine Q.trans ?_ (q_withBatches _ _)
  | exact Q.of_eq rfl rfl rfl rfl rfl rfl)

macro "p7_neutral" : tactic => `(tactic| (refine GenCases.neutral ?_; repeat p7_q_step))

theorem gen_finish (s : State) (t : Nat) (old : Option Nat) (o : Outcome) :
    GenCases s t old (s.finishTask t old o) := by
  unfold State.finishTask
  split
  · exact .neutral (q_fail ..)
  · next h => exact .finish o (by simpa using h) rfl

theorem gen_yield (s : State) (t : Nat) (old : Option Nat) (e : Event) (he : calm e = true) (hs : silent e = true)
    (g : TaskSt → TaskSt) (deps : List Nat)
    (h1 : ∀ x, (g x).ctxs = x.ctxs) (h2 : ∀ x, (g x).ctxActive = x.ctxActive) (h3 : ∀ x, (g x).conts = x.conts) :
    GenCases s t old (if deps.isEmpty then (s.emit e).updTask t g else ((s.emit e).updTask t g).leaveGen t old) := by
  have q1 : Q calm s ((s.emit e).updTask t g) := (q_emit s e he hs).trans (q_updTask _ _ _ h1 h2 h3)
  split
  · exact .neutral q1
  · exact .neutral (q1.trans (q_leaveGen ..))

theorem gen_cases (s : State) (t : Nat) (old : Option Nat) (hi : P2.ItemsOk s) : GenCases s t old (s.genStep t old) := by
  unfold State.genStep
  simp only []
  split
  · split
    · p7_neutral
    · split
      · p7_neutral
      · p7_neutral
      · p7_neutral
      · p7_neutral
      · p7_neutral
  · split
    · exact gen_finish ..
    · exact gen_finish ..
    · exact gen_finish ..
    · exact gen_finish ..
    · p7_neutral
    · -- item
      rename_i kind payload mode k heq
      cases hcb : s.curBatch? kind with
      | none =>
        simp only []
        split
        · p7_neutral
        · p7_neutral
      | some b0 =>
        simp only []
        split
        · p7_neutral
        · p7_neutral
    · p7_neutral
    · p7_neutral
    · p7_neutral
    · exact gen_yield s t old _ (by rfl) (by rfl) _ _ (fun _ => rfl) (fun _ => rfl) (fun _ => rfl)
    · exact gen_yield s t old _ (by rfl) (by rfl) _ _ (fun _ => rfl) (fun _ => rfl) (fun _ => rfl)
    · p7_neutral
    · -- syncfut
      rename_i r k h heq
      have q1 : Q calm s ((s.updTask t fun ts => { ts with body := .syncret ((s.task t).resolve r) k h }).emit
          (.syncE t ((s.task t).resolve r))) := by repeat p7_q_step
      have hi1 : P2.ItemsOk ((s.updTask t fun ts => { ts with body := .syncret ((s.task t).resolve r) k h }).emit
          (.syncE t ((s.task t).resolve r))) :=
        itemsOk_of_eq (s := s) (fun f => by rw [emit_fut, kind_updTask]) rfl hi
      split
      · exact .neutral q1
      · split
        · exact .neutral (q1.trans (q_withCtl _ _))
        · split
          · split
            · exact .neutral q1
            · exact .neutral (q1.trans (q_flushBatch (fun e _ h => h) _ _ _ hi1))
          · exact .neutral q1
        · next hk => exact .neutral (q1.trans (q_complete _ _ _ (by rw [hk]; intro h; cases h) rfl))
        · exact .neutral q1
    · -- syncret
      repeat' split
      all_goals p7_neutral
    · -- withCtx
      rename_i c b k heq
      refine .withCtx c b k _ ?_ rfl
      cases c
      · exact .inl rfl
      · exact .inr ⟨_, rfl⟩
      · exact .inl rfl
    · -- endwith
      split
      · exact gen_finish ..
      · next heq => exact .endwith _ _ _ heq rfl
    · p7_neutral
    · p7_neutral

/-! ### the frame discipline -/

theorem SF_waitEnter (st : List Nat) (f : Nat) (r : List Ctl) : SF st (.waitEnter f :: r) = SF st r := rfl
theorem SF_gen (st : List Nat) (t : Nat) (o : Option Nat) (r : List Ctl) :
    SF st (.gen t o :: r) = (st.head? = some t ∧ SF st r) := rfl
theorem SF_waitLoop (st : List Nat) (f b : Nat) (r : List Ctl) :
    SF st (.waitLoop f b :: r) = (b ≤ st.length ∧ SF (st.drop (st.length - b)) r) := rfl
theorem SF_nil (st : List Nat) : SF st [] = (st = []) := rfl

/-- a generator step keeps the task stack; the control stack stays, loses the generator frame, or gains a
    `wait_for` frame -/
theorem gen_sf (s : State) (t : Nat) (old : Option Nat) (rest : List Ctl) (hctl : s.ctl = .gen t old :: rest) :
    (s.genStep t old).stack = s.stack ∧ (SF s.stack s.ctl → SF s.stack (s.genStep t old).ctl) := by
  rcases P3.genStep_trans s t old with h | h | ⟨f, h⟩
  · exact ⟨h.stack, fun hsf => by rw [h.ctl]; exact hsf⟩
  · refine ⟨h.stack, fun hsf => ?_⟩
    rw [h.ctl, hctl]
    rw [hctl, SF_gen] at hsf
    exact hsf.2
  · exact ⟨h.stack, fun hsf => by rw [h.ctl, SF_waitEnter]; exact hsf⟩

/-! ### all steps -/

inductive Cases (s r : State) : Prop
  | neutral (q : Q calm s r) (hst : r.stack = s.stack) (hsf : SF s.stack s.ctl → SF r.stack r.ctl)
  | top (f : Nat) (hctl : s.ctl = []) (e : r = s.finishTop f)
  | enterLoop (root : Nat) (rest : List Ctl) (hctl : s.ctl = .waitEnter root :: rest)
      (hnc : s.computed root = false) (q : Q calm s r)
      (hst : r.stack = root :: s.stack) (hc : r.ctl = .waitLoop root s.stack.length :: rest)
  | pop (root base : Nat) (rest : List Ctl) (top : Nat) (stk : List Nat) (hctl : s.ctl = .waitLoop root base :: rest)
      (hst : s.stack = top :: stk) (hlen : s.stack.length > base)
      (hno : s.computed top = true ∨ (s.fut top).kind ≠ .task) (q : Q calm s r) (hst' : r.stack = stk)
      (hc : r.ctl = s.ctl)
  | suspend (root base : Nat) (rest : List Ctl) (t : Nat) (stk : List Nat) (hctl : s.ctl = .waitLoop root base :: rest)
      (hst : s.stack = t :: stk) (hlen : s.stack.length > base) (hk : (s.fut t).kind = .task)
      (hnc : s.computed t = false) (hsched : (s.task t).depsSched = true)
      (e : r = ((s.updTask t fun ts => { ts with depsSched := false }).pauseContexts t).popStack)
  | visit (root base : Nat) (rest : List Ctl) (t : Nat) (stk : List Nat) (hctl : s.ctl = .waitLoop root base :: rest)
      (hst : s.stack = t :: stk) (hlen : s.stack.length > base) (hk : (s.fut t).kind = .task)
      (hnc : s.computed t = false) (hsched : (s.task t).depsSched = false) (ds : List Nat)
      (hds : ∀ d ∈ ds, d ∈ (s.task t).deps ∧
        ((s.updTask t fun ts => { ts with depsSched := true }).resumeContexts t).computed d = false)
      (e : r = { ((s.updTask t fun ts => { ts with depsSched := true }).resumeContexts t) with
                 stack := ds.reverse ++ ((s.updTask t fun ts => { ts with depsSched := true }).resumeContexts t).stack })
  | enterGen (root base : Nat) (rest : List Ctl) (t : Nat) (stk : List Nat) (hctl : s.ctl = .waitLoop root base :: rest)
      (hst : s.stack = t :: stk) (hlen : s.stack.length > base) (hk : (s.fut t).kind = .task)
      (hnc : s.computed t = false)
      (e : r = { s.resumeContexts t with ctl := .gen t (s.resumeContexts t).active :: (s.resumeContexts t).ctl,
                                         active := some t })
  | gen (t : Nat) (old : Option Nat) (rest : List Ctl) (hctl : s.ctl = .gen t old :: rest)
      (hst : r.stack = s.stack) (hsf : SF s.stack s.ctl → SF s.stack r.ctl) (g : GenCases s t old r)
  | guard (h : r.guardFired = true)

theorem handle_cases (s : State) (root base : Nat) (rest : List Ctl) (t : Nat) (stk : List Nat)
    (hctl : s.ctl = .waitLoop root base :: rest) (hst : s.stack = t :: stk) (hlen : s.stack.length > base)
    (hk : (s.fut t).kind = .task) (hnc : s.computed t = false) : Cases s (s.handleTask t) := by
  unfold State.handleTask
  simp only []
  split
  · split
    · next hs => exact .suspend root base rest t stk hctl hst hlen hk hnc hs rfl
    · next hs =>
      refine .visit root base rest t stk hctl hst hlen hk hnc (by simpa using hs) _ ?_ rfl
      intro d hd
      have := List.mem_filter.1 hd
      exact ⟨this.1, by simpa using this.2⟩
  · split
    · exact .neutral (q_fail ..) rfl (fun h => h)
    · exact .enterGen root base rest t stk hctl hst hlen hk hnc rfl

theorem exec_cases (s : State) (root base : Nat) (rest : List Ctl) (hctl : s.ctl = .waitLoop root base :: rest)
    (hlen : s.stack.length > base) : Cases s s.executeIter := by
  unfold State.executeIter
  split
  · exact .neutral (q_fail ..) rfl (fun h => h)
  · next top stk hst =>
    split
    · exact .guard rfl
    · split
      · next hc => exact .pop root base rest top stk hctl hst hlen (.inl hc) (q_popStack _) (by simp [State.popStack, hst]) rfl
      · next hc =>
        split
        · next hk => exact handle_cases s root base rest top stk hctl hst hlen hk (by simpa using hc)
        · next hk =>
          refine .pop root base rest top stk hctl hst hlen (.inr (by rw [hk]; intro h; cases h)) ?_ ?_ ?_
          · refine Q.trans ?_ (q_popStack _)
            split
            · split
              · exact Q.refl _ _
              · exact Q.of_eq rfl rfl rfl rfl rfl rfl
            · exact Q.refl _ _
          · show (State.popStack _).stack = stk
            simp only [State.popStack]
            split
            · split <;> simp [hst]
            · simp [hst]
          · show (State.popStack _).ctl = s.ctl
            simp only [State.popStack]
            split
            · split <;> rfl
            · rfl
        · next o hk =>
          exact .pop root base rest top stk hctl hst hlen (.inr (by rw [hk]; intro h; cases h))
            ((q_complete _ _ _ (by rw [hk]; intro h; cases h) rfl).trans (q_popStack _))
            (by simp [State.popStack, State.complete, State.emit, State.setFut, hst]) rfl
        · exact .neutral (q_fail ..) rfl (fun h => h)

theorem step_cases (s : State) (hi : P2.ItemsOk s) (hr : s.raising = none) : Cases s (step s) := by
  unfold step
  split
  · exact .neutral (Q.refl _ _) rfl (fun h => h)
  · split
    · next hctl =>
      split
      · next f _ => exact .top f hctl rfl
      · split
        · exact .neutral (Q.refl _ _) rfl (fun h => h)
        · refine .neutral ?_ rfl ?_
          · refine Q.trans (s' := (({ s with tops := _, topIdx := s.topIdx + 1 } : State).emit (.top s.topIdx _)).newTask _ []
              |>.1) ?_ (Q.of_eq rfl rfl rfl rfl rfl rfl)
            refine Q.trans ?_ (q_newTask _ _ _ (fun _ _ => rfl))
            refine Q.trans ?_ (q_emit _ _ (by rfl) (by rfl))
            exact Q.of_eq rfl rfl rfl rfl rfl rfl
          · intro h; rw [hctl] at h; exact h
    · next root rest hctl =>
      simp only [hr, Option.isSome_none, Bool.false_eq_true, if_false]
      split
      · refine .neutral (Q.of_eq rfl rfl rfl rfl rfl rfl) rfl ?_
        intro h
        rw [hctl, SF_waitEnter] at h
        simpa [State.returnFromWait, hctl] using h
      · next hnc =>
        exact .enterLoop root rest hctl (by simpa using hnc) (Q.of_eq rfl rfl rfl rfl rfl rfl) rfl (by simp [hctl])
    · next root base rest hctl =>
      simp only [hr, Option.isSome_none, Bool.false_eq_true, if_false]
      split
      · next hlen => exact exec_cases s root base rest hctl hlen
      · next hlen =>
        have hle : s.stack.length ≤ base := Nat.le_of_not_lt hlen
        have hdrop : SF s.stack s.ctl → SF s.stack rest := by
          intro h
          rw [hctl, SF_waitLoop] at h
          have : s.stack.length - base = 0 := by omega
          rw [this] at h
          simpa using h.2
        split
        · refine .neutral (Q.of_eq rfl rfl rfl rfl rfl rfl) rfl ?_
          intro h
          simpa [State.returnFromWait, hctl] using hdrop h
        · have c := same_schedulerFlush s root
          refine .neutral (q_schedulerFlush (fun e _ h => h) s root hi) c.stack ?_
          intro h
          rw [c.stack, c.ctl]
          show SF s.stack (.waitEnter root :: s.ctl.tail)
          rw [SF_waitEnter, hctl]
          exact hdrop h
    · next t old rest hctl =>
      simp only [hr, Option.isSome_none, Bool.false_and, Bool.false_eq_true, if_false]
      obtain ⟨h1, h2⟩ := gen_sf s t old rest hctl
      exact .gen t old rest hctl h1 h2 (gen_cases s t old hi)

end AsynqModel.Core.P7
