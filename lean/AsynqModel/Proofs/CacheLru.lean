import AsynqModel.Lib.Cache
import AsynqModel.Proofs.Cache
/-! helper lemmas for C13: the eviction policy of alru_cache stated WITHOUT the recency list - an entry survives
    as long as fewer than `maxsize` distinct other keys are involved, and is gone once `maxsize` distinct other keys
    have been used since its last use -/
namespace AsynqModel.Cache

/-- a duplicate-free list contained in `D` is no longer than `D` -/
theorem nodup_subset_length {α : Type} [DecidableEq α] :
    ∀ (l D : List α), l.Nodup → (∀ a ∈ l, a ∈ D) → l.length ≤ D.length
  | [], _, _, _ => Nat.zero_le _
  | a :: l, D, hn, hs => by
    have ha : a ∈ D := hs a List.mem_cons_self
    have hn' := List.nodup_cons.mp hn
    have hs' : ∀ x ∈ l, x ∈ D.erase a := by
      intro x hx
      have hne : x ≠ a := by intro e; subst e; exact hn'.1 hx
      exact (List.mem_erase_of_ne hne).mpr (hs x (List.mem_cons_of_mem _ hx))
    have ih := nodup_subset_length l (D.erase a) hn'.2 hs'
    have hl := List.length_erase_of_mem ha
    have hpos : 0 < D.length := List.length_pos_of_mem ha
    simp only [List.length_cons]
    omega

theorem lookup_none_of_forall {k : Key} {items : List (Key × Val)} (h : ∀ p ∈ items, p.1 ≠ k) :
    items.lookup k = none := by
  cases hl : items.lookup k with
  | none => rfl
  | some v => exact absurd rfl (h _ (lookup_some_mem hl))

/-- in a cache without duplicate keys, what comes after the entry of `k` has distinct keys, none of them `k` -/
theorem keysNodup_split {k : Key} {v : Val} {pre post : List (Key × Val)} (h : KeysNodup (pre ++ (k, v) :: post)) :
    (post.map (·.1)).Nodup ∧ ∀ p ∈ post, p.1 ≠ k := by
  unfold KeysNodup at h
  rw [List.map_append, List.map_cons, List.nodup_append] at h
  obtain ⟨_, h2, _⟩ := h
  rw [List.nodup_cons] at h2
  refine ⟨h2.2, ?_⟩
  intro p hp e
  exact h2.1 (List.mem_map.mpr ⟨p, hp, e⟩)

theorem mem_keys_del {k2 u : Key} {l : List (Key × Val)} (hu : u ∈ l.map (·.1)) (hne : u ≠ k2) :
    u ∈ (del k2 l).map (·.1) := by
  simp only [List.mem_map] at hu ⊢
  obtain ⟨p, hp, rfl⟩ := hu
  exact ⟨p, by simp [del, hp, hne], rfl⟩

namespace Alru

/-! ### the keys a history USES: those on which a call returned a value -/

/-- the key a call contributes to the recency order: the key of a call that returned a value (hit or fresh) -/
def usedKey (mk : Call → Option Key) (bd : Call → Option (List Nat)) (st : St) (op : Op) : List Key :=
  match (step mk bd st op).2, mk op.c with
  | .ok _, some k => [k]
  | _, _ => []

/-- the keys on which the calls of a history returned a value, in call order -/
def usedKeys (mk : Call → Option Key) (bd : Call → Option (List Nat)) (st : St) : List Op → List Key
  | [] => []
  | op :: ops => usedKey mk bd st op ++ usedKeys mk bd (step mk bd st op).1 ops

/-- every used key is the key of one of the calls -/
theorem usedKeys_subset (mk : Call → Option Key) (bd : Call → Option (List Nat)) (st : St) (ops : List Op) :
    ∀ k ∈ usedKeys mk bd st ops, k ∈ ops.filterMap fun o => mk o.c := by
  induction ops generalizing st with
  | nil => intro k hk; simp [usedKeys] at hk
  | cons op ops ih =>
    intro k hk
    simp only [usedKeys, List.mem_append] at hk
    rcases hk with hk | hk
    · have : mk op.c = some k := by
        unfold usedKey at hk
        split at hk
        · rename_i h2; simp at hk; rw [h2, hk]
        · simp at hk
      simp [this]
    · have := ih _ k hk
      rw [List.filterMap_cons]
      split
      · exact this
      · exact List.mem_cons_of_mem _ this

/-! ### kept: fewer than `maxsize` distinct other keys used -/

/-- `k ↦ v` sits in the cache and every entry used more recently has its key in `D` -/
def Kept (k : Key) (v : Val) (D : List Key) (items : List (Key × Val)) : Prop :=
  ∃ pre post, items = pre ++ (k, v) :: post ∧ ∀ p ∈ post, p.1 ∈ D

theorem kept_step (mk : Call → Option Key) (bd : Call → Option (List Nat)) (st : St) (op : Op) (k : Key) (v : Val)
    (D : List Key) (hnd : KeysNodup st.cache.items)
    (hD : ∀ k2 ∈ usedKey mk bd st op, k2 ≠ k → k2 ∈ D) (hl : D.length + 1 ≤ st.cache.cap)
    (h : Kept k v D st.cache.items) :
    Kept k v D (step mk bd st op).1.cache.items := by
  obtain ⟨pre, post, hi, hp⟩ := h
  cases hmk : mk op.c with
  | none => rw [step_key_error hmk]; exact ⟨pre, post, hi, hp⟩
  | some k2 =>
    cases hlk : st.cache.items.lookup k2 with
    | some v2 =>
      rw [step_hit hmk hlk]
      simp only []
      by_cases hkk : k = k2
      · subst hkk
        refine ⟨del k st.cache.items, [], ?_, by simp⟩
        have : v2 = v := by
          rw [hi] at hlk hnd
          rw [lookup_mid_of_nodup pre post hnd] at hlk
          exact (Option.some.inj hlk).symm
        rw [this]
      · refine ⟨del k2 pre, del k2 post ++ [(k2, v2)], ?_, ?_⟩
        · rw [hi, del_append, del_cons_ne v post hkk]; simp
        · intro p hpm
          simp only [List.mem_append, List.mem_singleton] at hpm
          rcases hpm with hpm | hpm
          · exact hp p (List.mem_filter.mp hpm).1
          · subst hpm
            exact hD k2 (by simp [usedKey, step_hit hmk hlk, hmk]) (fun e => hkk e.symm)
    | none =>
      cases hb : bd op.c with
      | none => rw [step_bind_error hmk hlk hb]; exact ⟨pre, post, hi, hp⟩
      | some b =>
        cases hra : op.raises with
        | true => rw [step_raise hmk hlk hb hra]; exact ⟨pre, post, hi, hp⟩
        | false =>
          rw [step_store hmk hlk hb hra]
          have hall := lookup_none_forall hlk
          have hkk : k2 ≠ k := by
            intro e
            have := hall (k, v) (by rw [hi]; simp)
            exact this e.symm
          have hk2D : k2 ∈ D := hD k2 (by simp [usedKey, step_store hmk hlk hb hra, hmk]) hkk
          have hpost' : ∀ p ∈ post ++ [(k2, (⟨st.runs + 1, b⟩ : Val))], p.1 ∈ D := by
            intro p hpm
            simp only [List.mem_append, List.mem_singleton] at hpm
            rcases hpm with hpm | hpm
            · exact hp p hpm
            · subst hpm; exact hk2D
          simp only [LRU.setItem, hlk, Option.isSome_none, Bool.false_eq_true, if_false]
          by_cases hfull : st.cache.items.length = st.cache.cap
          · simp only [hfull, beq_self_eq_true, if_true]
            cases pre with
            | nil =>
              -- impossible: `k` would be the least recently used of a full cache, but the entries after it and the
              -- new key are distinct keys of `D`, which has fewer than `maxsize` elements
              exfalso
              have hsp := keysNodup_split (hi ▸ hnd)
              have hnd2 : (k2 :: post.map (·.1)).Nodup := by
                rw [List.nodup_cons]
                refine ⟨?_, hsp.1⟩
                intro hm
                simp only [List.mem_map] at hm
                obtain ⟨p, hpm, hpe⟩ := hm
                exact hall p (by rw [hi]; simp [hpm]) hpe
              have hsub : ∀ a ∈ k2 :: post.map (·.1), a ∈ D := by
                intro a ha
                simp only [List.mem_cons, List.mem_map] at ha
                rcases ha with ha | ⟨p, hpm, rfl⟩
                · subst ha; exact hk2D
                · exact hp p hpm
              have hcard := nodup_subset_length _ D hnd2 hsub
              rw [hi] at hfull
              simp at hfull hcard
              omega
            | cons p0 pre' =>
              refine ⟨pre', post ++ [(k2, ⟨st.runs + 1, b⟩)], ?_, hpost'⟩
              rw [hi]; simp
          · have hb' : (st.cache.items.length == st.cache.cap) = false := by simpa using hfull
            simp only [hb', Bool.false_eq_true, if_false]
            refine ⟨pre, post ++ [(k2, ⟨st.runs + 1, b⟩)], ?_, hpost'⟩
            rw [hi]; simp

theorem kept_run (mk : Call → Option Key) (bd : Call → Option (List Nat)) (cap : Nat) (hcap : 1 ≤ cap) (k : Key) (v : Val)
    (D : List Key) (ops : List Op) (w : Watch) (st : St) (hrel : Rel cap w st)
    (hD : ∀ k2 ∈ usedKeys mk bd st ops, k2 ≠ k → k2 ∈ D) (hl : D.length + 1 ≤ cap)
    (h : Kept k v D st.cache.items) :
    (finalState mk bd st ops).cache.items.lookup k = some v := by
  induction ops generalizing w st with
  | nil =>
    obtain ⟨pre, post, hi, _⟩ := h
    simp only [finalState]
    rw [hi]
    exact lookup_mid_of_nodup pre post (hi ▸ hrel.nodup)
  | cons op ops ih =>
    obtain ⟨w', _, h2⟩ := rel_step mk mk bd cap hcap w st op hrel rfl
    have hs := kept_step mk bd st op k v D hrel.nodup
      (fun k2 hk2 => hD k2 (by simp only [usedKeys, List.mem_append]; exact Or.inl hk2)) (by rw [hrel.capEq]; exact hl) h
    simp only [finalState]
    exact ih w' _ h2 (fun k2 hk2 => hD k2 (by simp only [usedKeys, List.mem_append]; exact Or.inr (by simpa [observe] using hk2)))
      (by simpa [observe] using hs)

/-! ### evicted: `maxsize` distinct other keys used since -/

/-- `k` is not cached, or every key of `U` sits behind it in the recency order -/
def Gone (k : Key) (U : List Key) (items : List (Key × Val)) : Prop :=
  items.lookup k = none ∨ ∃ pre v post, items = pre ++ (k, v) :: post ∧ ∀ u ∈ U, u ∈ post.map (·.1)

theorem gone_step (mk : Call → Option Key) (bd : Call → Option (List Nat)) (st : St) (op : Op) (k : Key) (U : List Key)
    (hnd : KeysNodup st.cache.items) (hnk : k ∉ usedKey mk bd st op) (h : Gone k U st.cache.items) :
    Gone k (U ++ usedKey mk bd st op) (step mk bd st op).1.cache.items := by
  cases hmk : mk op.c with
  | none =>
    have hu : usedKey mk bd st op = [] := by simp [usedKey, step_key_error hmk]
    rw [hu, List.append_nil, step_key_error hmk]; exact h
  | some k2 =>
    cases hlk : st.cache.items.lookup k2 with
    | some v2 =>
      have hu : usedKey mk bd st op = [k2] := by simp [usedKey, step_hit hmk hlk, hmk]
      have hkk : k2 ≠ k := by intro e; apply hnk; rw [hu]; simp [e]
      rw [hu, step_hit hmk hlk]
      simp only []
      rcases h with h | ⟨pre, v, post, hi, hU⟩
      · left
        apply lookup_none_of_forall
        intro p hpm
        simp only [List.mem_append, List.mem_singleton] at hpm
        rcases hpm with hpm | hpm
        · exact lookup_none_forall h p (List.mem_filter.mp hpm).1
        · subst hpm; exact hkk
      · right
        refine ⟨del k2 pre, v, del k2 post ++ [(k2, v2)], ?_, ?_⟩
        · rw [hi, del_append, del_cons_ne v post (fun e => hkk e.symm)]; simp
        · intro u hu'
          simp only [List.mem_append, List.mem_singleton] at hu'
          rw [List.map_append, List.mem_append]
          rcases hu' with hu' | hu'
          · by_cases hue : u = k2
            · right; simp [hue]
            · left; exact mem_keys_del (hU u hu') hue
          · right; simp [hu']
    | none =>
      cases hb : bd op.c with
      | none =>
        have hu : usedKey mk bd st op = [] := by simp [usedKey, step_bind_error hmk hlk hb]
        rw [hu, List.append_nil, step_bind_error hmk hlk hb]; exact h
      | some b =>
        cases hra : op.raises with
        | true =>
          have hu : usedKey mk bd st op = [] := by simp [usedKey, step_raise hmk hlk hb hra]
          rw [hu, List.append_nil, step_raise hmk hlk hb hra]; exact h
        | false =>
          have hu : usedKey mk bd st op = [k2] := by simp [usedKey, step_store hmk hlk hb hra, hmk]
          have hkk : k2 ≠ k := by intro e; apply hnk; rw [hu]; simp [e]
          rw [hu, step_store hmk hlk hb hra]
          simp only [LRU.setItem, hlk, Option.isSome_none, Bool.false_eq_true, if_false]
          rcases h with h | ⟨pre, v, post, hi, hU⟩
          · left
            apply lookup_none_of_forall
            intro p hpm
            have key : p ∈ st.cache.items ∨ p = (k2, ⟨st.runs + 1, b⟩) := by
              split at hpm
              · simp only [List.mem_append, List.mem_singleton] at hpm
                rcases hpm with hpm | hpm
                · exact Or.inl (List.mem_of_mem_drop hpm)
                · exact Or.inr hpm
              · simp only [List.mem_append, List.mem_singleton] at hpm
                exact hpm
            rcases key with hpm | hpm
            · exact lookup_none_forall h p hpm
            · subst hpm; exact hkk
          · have hU' : ∀ u ∈ U ++ [k2], u ∈ (post ++ [(k2, (⟨st.runs + 1, b⟩ : Val))]).map (·.1) := by
              intro u hu'
              simp only [List.mem_append, List.mem_singleton] at hu'
              rw [List.map_append, List.mem_append]
              rcases hu' with hu' | hu'
              · left; exact hU u hu'
              · right; simp [hu']
            by_cases hfull : st.cache.items.length = st.cache.cap
            · simp only [hfull, beq_self_eq_true, if_true]
              cases pre with
              | nil =>
                -- `k` is the least recently used entry of a full cache: it is the one evicted
                left
                have hsp := keysNodup_split (hi ▸ hnd)
                rw [hi]
                apply lookup_none_of_forall
                intro p hpm
                simp only [List.nil_append, List.drop_succ_cons, List.drop_zero, List.mem_append, List.mem_singleton] at hpm
                rcases hpm with hpm | hpm
                · exact hsp.2 p hpm
                · subst hpm; exact hkk
              | cons p0 pre' =>
                right
                refine ⟨pre', v, post ++ [(k2, ⟨st.runs + 1, b⟩)], ?_, hU'⟩
                rw [hi]; simp
            · have hb' : (st.cache.items.length == st.cache.cap) = false := by simpa using hfull
              simp only [hb', Bool.false_eq_true, if_false]
              right
              refine ⟨pre, v, post ++ [(k2, ⟨st.runs + 1, b⟩)], ?_, hU'⟩
              rw [hi]; simp

theorem gone_run (mk : Call → Option Key) (bd : Call → Option (List Nat)) (cap : Nat) (hcap : 1 ≤ cap) (k : Key)
    (ops : List Op) (w : Watch) (st : St) (U : List Key) (hrel : Rel cap w st)
    (hnk : k ∉ usedKeys mk bd st ops) (h : Gone k U st.cache.items) :
    Gone k (U ++ usedKeys mk bd st ops) (finalState mk bd st ops).cache.items := by
  induction ops generalizing w st U with
  | nil => simpa [usedKeys, finalState] using h
  | cons op ops ih =>
    obtain ⟨w', _, h2⟩ := rel_step mk mk bd cap hcap w st op hrel rfl
    simp only [usedKeys, List.mem_append, not_or] at hnk
    have hs := gone_step mk bd st op k U hrel.nodup hnk.1 h
    have := ih w' (step mk bd st op).1 (U ++ usedKey mk bd st op) (by simpa [observe] using h2) hnk.2 hs
    simp only [usedKeys, finalState, ← List.append_assoc]
    simpa [observe] using this

theorem gone_start (k : Key) (items : List (Key × Val)) : Gone k [] items := by
  cases hl : items.lookup k with
  | none => exact Or.inl hl
  | some v =>
    obtain ⟨pre, post, hi⟩ := List.append_of_mem (lookup_some_mem hl)
    exact Or.inr ⟨pre, v, post, hi, by simp⟩

end Alru

end AsynqModel.Cache
