import AsynqModel.Proofs.P19Ext
import AsynqModel.Proofs.P6Static
/-
  P19, part 4: what one step does to the trace, the denotations and the bookkeeping of top-level computations
  (`StepX`): an `XF` step, the scheduler's flush (one `flushB` event, the items of the unflushed batch it names are
  completed, nothing else is), the end of a top-level computation (one `ret` event) or the start of one (a `top`
  event).  The flush counter `fcount` and the index `topOf` of the current computation as functions of the trace.
-/
namespace AsynqModel.Core.P19
open AsynqModel.Core

/-! ### the flush counter -/

/-- the number of scheduler flushes since the last `top` event (the trace is newest first) -/
def fcount : List Event → Nat
  | [] => 0
  | .top .. :: _ => 0
  | .flushB .. :: tr => fcount tr + 1
  | _ :: tr => fcount tr

/-- the index carried by the last `top` event -/
def topOf : List Event → Nat
  | [] => 0
  | .top i _ :: _ => i
  | _ :: tr => topOf tr

theorem fcount_cons_quiet (e : Event) (tr : List Event) (h : quietEv e = true) : fcount (e :: tr) = fcount tr := by
  cases e <;> first | rfl | simp [quietEv] at h

theorem topOf_cons_quiet (e : Event) (tr : List Event) (h : quietEv e = true) : topOf (e :: tr) = topOf tr := by
  cases e <;> first | rfl | simp [quietEv] at h

theorem fcount_append_quiet (evs tr : List Event) (h : ∀ e ∈ evs, quietEv e = true) : fcount (evs ++ tr) = fcount tr := by
  induction evs with
  | nil => rfl
  | cons e evs ih =>
    rw [List.cons_append, fcount_cons_quiet e _ (h e List.mem_cons_self)]
    exact ih (fun x hx => h x (List.mem_cons_of_mem _ hx))

theorem topOf_append_quiet (evs tr : List Event) (h : ∀ e ∈ evs, quietEv e = true) : topOf (evs ++ tr) = topOf tr := by
  induction evs with
  | nil => rfl
  | cons e evs ih =>
    rw [List.cons_append, topOf_cons_quiet e _ (h e List.mem_cons_self)]
    exact ih (fun x hx => h x (List.mem_cons_of_mem _ hx))

theorem XF.fcount {s r : State} (h : XF s r) : fcount r.trace = fcount s.trace := by
  obtain ⟨evs, e, q⟩ := h.trace
  rw [e]; exact fcount_append_quiet evs _ q

theorem XF.topOf {s r : State} (h : XF s r) : topOf r.trace = topOf s.trace := by
  obtain ⟨evs, e, q⟩ := h.trace
  rw [e]; exact topOf_append_quiet evs _ q

/-! ### a flushed batch completes its items and nothing else -/

theorem fut_complete_ne (s : State) (i : Nat) (o : Outcome) (f : Nat) (h : f ≠ i) : (s.complete i o).fut f = s.fut f := by
  rw [P6.fut_complete, if_neg (fun hh => h hh.1)]

theorem flushItems_other (kind : Nat) (l : List Nat) : ∀ (s : State) (f : Nat), f ∉ l → (s.flushItems kind l).fut f = s.fut f := by
  induction l with
  | nil => intro s f _; rfl
  | cons i is ih =>
    intro s f hf
    have h1 : f ≠ i := fun h => hf (h ▸ List.mem_cons_self)
    have h2 : f ∉ is := fun h => hf (List.mem_cons_of_mem _ h)
    unfold State.flushItems
    dsimp only
    rw [ih _ f h2]
    split
    · rfl
    · split
      · exact fut_complete_ne _ _ _ _ h1
      · exact fut_complete_ne _ _ _ _ h1
      · rfl

theorem finishItems_other (e : Err) (l : List Nat) : ∀ (s : State) (f : Nat), f ∉ l → (s.finishItems e l).fut f = s.fut f := by
  induction l with
  | nil => intro s f _; rfl
  | cons i is ih =>
    intro s f hf
    have h1 : f ≠ i := fun h => hf (h ▸ List.mem_cons_self)
    have h2 : f ∉ is := fun h => hf (List.mem_cons_of_mem _ h)
    unfold State.finishItems
    rw [ih _ f h2]
    split
    · rfl
    · exact fut_complete_ne _ _ _ _ h1

theorem fut_of_futs {s r : State} (h : r.futs = s.futs) (f : Nat) : r.fut f = s.fut f := by
  unfold State.fut; rw [h]

theorem futs_switchActive (s : State) (k q : Nat) : (s.switchActive k q).futs = s.futs := by
  unfold State.switchActive
  split
  · split <;> rfl
  · rfl

theorem flushBatch_other (s : State) (k q : Nat) (b : Batch) (hb : s.batch? k q = some b) (f : Nat) (hf : f ∉ b.items) :
    (s.flushBatch k q).fut f = s.fut f := by
  unfold State.flushBatch
  rw [hb]
  dsimp only
  show (State.finishItems _ _ _).fut f = _
  rw [finishItems_other _ _ _ _ hf, flushItems_other _ _ _ _ hf]
  exact fut_of_futs (futs_switchActive s k q) f

theorem admissible_unflushed (s : State) (c : Nat × Nat) (b : Batch) (ha : s.admissible c = true)
    (hb : s.batch? c.1 c.2 = some b) : b.flushed = false := by
  unfold State.admissible at ha
  simp only [Bool.and_eq_true] at ha
  have hc : c ∈ s.flushable := by simpa using ha.1
  unfold State.flushable at hc
  rw [List.mem_filter] at hc
  obtain ⟨k, q⟩ := c
  have := hc.2
  simp only [hb] at this
  simp only [Bool.and_eq_true, Bool.not_eq_true'] at this
  exact this.2

/-! ### the classification -/

inductive StepX (s r : State) : Prop
  /-- any step except a scheduler flush, the start and the end of a top-level computation -/
  | xf (hnf : ¬ P6.IsFlush s) (h : XF s r)
  /-- the scheduler finds no batch to flush -/
  | noflush (root base : Nat) (rest : List Ctl) (hctl : s.ctl = .waitLoop root base :: rest)
      (hctl' : r.ctl = .waitEnter root :: rest) (hf : r.futs = s.futs) (hb : r.batches = s.batches) (h : XF s r)
  /-- the scheduler flushes the unflushed batch `(k, q)` -/
  | flush (root base : Nat) (rest : List Ctl) (hctl : s.ctl = .waitLoop root base :: rest)
      (hctl' : r.ctl = .waitEnter root :: rest)
      (k q : Nat) (b : Batch) (items : List Nat) (prio : Nat × Nat) (pend : List PendingB) (s1 : State)
      (hb : s.batch? k q = some b) (hfl : b.flushed = false)
      (h1f : s1.futs = s.futs) (h1c : s1.cfg = s.cfg) (h1t : s1.trace = .flushB k q items prio pend :: s.trace)
      (h1i : s1.topIdx = s.topIdx) (h1cur : s1.curTop = s.curTop) (h1tops : s1.tops = s.tops)
      (hx : XF s1 r)
      (hcomp : ∀ i ∈ b.items, i < s.futs.length → r.computed i = true)
      (hother : ∀ f, f ∉ b.items → r.fut f = s.fut f)
  | fin (root : Nat) (o : Outcome) (hctl : s.ctl = []) (hcur : s.curTop = some root)
      (htr : ∃ e1 e2, r.trace = e1 :: e2 :: .ret o :: s.trace ∧ quietEv e1 = true ∧ quietEv e2 = true)
      (hf : r.futs = s.futs) (hc : r.cfg = s.cfg) (hcur' : r.curTop = none) (htops : r.tops = s.tops)
      (hidx : r.topIdx = s.topIdx)
  | top (conv : Conv) (body : Body) (rest : List (Conv × Body)) (htops : s.tops = (conv, body) :: rest)
      (hctl : s.ctl = []) (hcur : s.curTop = none)
      (htr : ∃ nk, r.trace = .new s.futs.length nk :: .top s.topIdx conv :: s.trace)
      (hidx : r.topIdx = s.topIdx + 1) (hcur' : r.curTop = some s.futs.length) (htops' : r.tops = rest)
      (hc : r.cfg = s.cfg) (hlen : r.futs.length = s.futs.length + 1)
      (hden : ∀ f, f < s.futs.length → (r.fut f).den = (s.fut f).den)

theorem flushRest_x (s s0 : State) (root base : Nat) (rest : List Ctl) (hctl : s.ctl = .waitLoop root base :: rest)
    (hctl0 : s0.ctl = .waitEnter root :: rest)
    (hf : s0.futs = s.futs) (hc : s0.cfg = s.cfg) (ht : s0.trace = s.trace)
    (hi : s0.topIdx = s.topIdx) (hcur : s0.curTop = s.curTop) (htops : s0.tops = s.tops) (hbat : s0.batches = s.batches)
    (fl : List (Nat × Nat)) (hst : (P3.flushRest s0 fl).stuck = none) : StepX s (P3.flushRest s0 fl) := by
  have x0 : XF s s0 := XF.of_eq hc hf ht hi hcur htops
  revert hst
  unfold P3.flushRest
  split
  · intro _; exact .noflush root base rest hctl hctl0 hf hbat x0
  · dsimp only
    split
    · intro h; simp [State.fail] at h
    · rename_i c _
      split
      · intro h; simp [State.fail] at h
      · rename_i hadm
        split
        · intro h; simp [State.fail] at h
        · rename_i b hb
          intro hst
          have hadm' : s0.admissible c = true := by simpa using hadm
          have hbs : s.batch? c.1 c.2 = some b := by
            have : s.batch? c.1 c.2 = s0.batch? c.1 c.2 := by unfold State.batch?; rw [hbat]
            rw [this]; exact hb
          have hfl := admissible_unflushed s0 c b hadm' hb
          have hcc : (State.flushBatch
              (({ s0 with choices := _, sbatches := fl.erase c } : State).emit
                (.flushB c.1 c.2 b.items _ _)) c.1 c.2).ctl = s0.ctl := (P6.flushBatch_desc _ c.1 c.2 hst).1.ctl
          refine .flush root base rest hctl (hcc.trans hctl0) c.1 c.2 b _ _ _ _ hbs hfl ?_ ?_
            (by show _ :: s0.trace = _; rw [ht]) ?_ ?_ ?_
            ((xf_flushBatch _ _ _).trans (xf_emit _ _ rfl)) ?_ ?_
          · exact hf
          · exact hc
          · exact hi
          · exact hcur
          · exact htops
          · intro i hi' hlt
            have hst' : (State.flushBatch _ c.1 c.2).stuck = none := hst
            obtain ⟨_, b', hb', hcomp, _⟩ := P6.flushBatch_desc _ c.1 c.2 hst'
            have e : b' = b := by
              have h2 : State.batch? _ c.1 c.2 = some b := hb
              have : some b' = some b := hb'.symm.trans h2
              cases this; rfl
            subst e
            exact hcomp i hi' (by
              show i < s0.futs.length
              rw [hf]; exact hlt)
          · intro f hfn
            show (State.flushBatch _ c.1 c.2).fut f = _
            refine Eq.trans (flushBatch_other _ c.1 c.2 b ?_ f hfn) (fut_of_futs hf f)
            exact hb

theorem stepx (s : State) (hs : s.stuck = none) (hr : s.raising = none) (hst : (step s).stuck = none) :
    StepX s (step s) := by
  revert hst
  unfold step
  rw [if_neg (by simp [hs])]
  split
  · rename_i hctl
    have hnf : ¬ P6.IsFlush s := by
      rintro ⟨root, base, rest, h, _⟩; rw [hctl] at h; cases h
    split
    · rename_i f hcur
      intro _
      exact .fin f _ hctl hcur ⟨_, _, rfl, rfl, rfl⟩ rfl rfl rfl rfl rfl
    · rename_i hcur
      split
      · intro _; exact .xf hnf (XF.refl _)
      · rename_i conv body rest htops
        intro _
        refine .top conv body rest htops hctl hcur ⟨_, rfl⟩ rfl rfl rfl rfl (by simp [State.newTask, State.emit]) ?_
        intro f hf
        exact (xf_newTask (({ s with tops := rest, topIdx := s.topIdx + 1 } : State).emit (.top s.topIdx conv)) body []).den f hf
  · rename_i root rest hctl
    have hnf : ¬ P6.IsFlush s := by
      rintro ⟨root', base, rest', h, _⟩; rw [hctl] at h; cases h
    intro _
    split
    · exact .xf hnf (XF.of_eq rfl rfl rfl rfl rfl rfl)
    · split
      · exact .xf hnf (XF.of_eq rfl rfl rfl rfl rfl rfl)
      · exact .xf hnf (XF.of_eq rfl rfl rfl rfl rfl rfl)
  · rename_i root base rest hctl
    rw [if_neg (by simp [hr])]
    split
    · rename_i hlen
      intro _
      refine .xf ?_ (xf_executeIter s)
      rintro ⟨root', base', rest', h, h2, _⟩
      rw [hctl] at h; cases h
      omega
    · split
      · rename_i hc
        intro _
        refine .xf ?_ (XF.of_eq rfl rfl rfl rfl rfl rfl)
        rintro ⟨root', base', rest', h, _, h3⟩
        rw [hctl] at h; cases h
        rw [hc] at h3; cases h3
      · intro hst
        rw [P3.schedulerFlush_eq] at hst ⊢
        exact flushRest_x s ({ s with sbatches := s.flushable, ctl := .waitEnter root :: s.ctl.tail } : State)
          root base rest hctl (by simp [hctl]) rfl rfl rfl rfl rfl rfl rfl _ hst
  · rename_i t old rest hctl
    have hnf : ¬ P6.IsFlush s := by
      rintro ⟨root', base, rest', h, _⟩; rw [hctl] at h; cases h
    intro _
    refine .xf hnf ?_
    split <;> (try split) <;> first | exact xf_fail _ _ | exact xf_genStep _ _ _

end AsynqModel.Core.P19
