import AsynqModel.Lib.ContextsHooks
import AsynqModel.Theorems.C06w
/-! helper lemmas for Theorems/C06h.lean: the hook layer without hook actions is the plain model; hooks that only ENTER
    contexts never change `task._contexts` while no task is active -/
namespace AsynqModel.Core.P28
open AsynqModel.Contexts

theorem resumeCtx_reg (defs : List Kind) (s : St) (c : Nat) : (resumeCtx defs s c).1.reg = s.reg := by
  unfold resumeCtx
  split <;> rfl

theorem resumeCtx_phase (defs : List Kind) (s : St) (c : Nat) : (resumeCtx defs s c).1.phase = s.phase := by
  unfold resumeCtx
  split <;> rfl

/-- no hook actions at all -/
def NoHooks (hd : HDefs) : Prop := ∀ c, hdefOf hd c = {}

theorem noHooks_nil : NoHooks [] := by
  intro c; simp [hdefOf]

theorem resumeCtxH_plain (cfg : Cfg) (defs : List Kind) (hd : HDefs) (h : NoHooks hd) (s : St) (c : Nat) :
    resumeCtxH cfg defs hd s c = resumeCtx defs s c := by
  unfold resumeCtxH
  rw [h c]
  split
  · rename_i heq; rw [heq]
  · rename_i heq; rw [heq]; rfl

theorem pauseCtxH_plain (cfg : Cfg) (defs : List Kind) (hd : HDefs) (h : NoHooks hd) (s : St) (c : Nat) :
    pauseCtxH cfg defs hd s c = pauseCtx defs s c := by
  unfold pauseCtxH
  rw [h c]
  split
  · rename_i heq; rw [heq]
  · rename_i heq; rw [heq]; rfl

theorem pauseLoopH_plain (cfg : Cfg) (defs : List Kind) (hd : HDefs) (h : NoHooks hd) (l : List Nat) :
    ∀ (s : St) (calls : List Call) (err : Option Exc),
      pauseLoopH cfg defs hd l s calls err = pauseLoop defs l s calls err := by
  induction l with
  | nil => intro s calls err; rfl
  | cons c rest ih =>
    intro s calls err
    unfold pauseLoopH pauseLoop
    rw [pauseCtxH_plain cfg defs hd h]
    generalize pauseCtx defs s c = r
    obtain ⟨s', cl, e⟩ := r
    exact ih s' (calls ++ cl) (keepLast e err)

theorem resumeLoopH_plain (cfg : Cfg) (defs : List Kind) (hd : HDefs) (h : NoHooks hd) (l : List Nat) :
    ∀ (s : St) (calls : List Call) (err : Option Exc),
      resumeLoopH cfg defs hd l s calls err = resumeLoop defs l s calls err := by
  induction l with
  | nil => intro s calls err; rfl
  | cons c rest ih =>
    intro s calls err
    unfold resumeLoopH resumeLoop
    rw [resumeCtxH_plain cfg defs hd h]
    generalize resumeCtx defs s c = r
    obtain ⟨s', cl, e⟩ := r
    exact ih s' (calls ++ cl) (keepFirst err e)

theorem pauseContextsH_plain (cfg : Cfg) (defs : List Kind) (hd : HDefs) (h : NoHooks hd) (s : St) :
    pauseContextsH cfg defs hd s = pauseContexts defs s := by
  unfold pauseContextsH pauseContexts
  rw [pauseLoopH_plain cfg defs hd h]
  rfl

theorem resumeContextsH_plain (cfg : Cfg) (defs : List Kind) (hd : HDefs) (h : NoHooks hd) (s : St) :
    resumeContextsH cfg defs hd s = resumeContexts defs s := by
  unfold resumeContextsH resumeContexts
  rw [resumeLoopH_plain cfg defs hd h]
  rfl

theorem enterOpH_plain (cfg : Cfg) (defs : List Kind) (hd : HDefs) (h : NoHooks hd) (s : St) (c : Nat) :
    enterOpH cfg defs hd s c = enterOp cfg defs s c := by
  unfold enterOpH enterOp
  rw [resumeCtxH_plain cfg defs hd h]

theorem exitOpH_plain (cfg : Cfg) (defs : List Kind) (hd : HDefs) (h : NoHooks hd) (s : St) (c : Nat) :
    exitOpH cfg defs hd s c = exitOp cfg defs s c := by
  unfold exitOpH exitOp
  simp only [pauseCtxH_plain cfg defs hd h]
  rfl

theorem stepCoreH_plain (cfg : Cfg) (defs : List Kind) (hd : HDefs) (h : NoHooks hd) (s : St) (op : Op) :
    stepCoreH cfg defs hd s (.base op) = stepCore cfg defs s op := by
  cases op with
  | enter c => simp only [stepCoreH, stepCore, enterOpH_plain cfg defs hd h]
  | exit c => simp only [stepCoreH, stepCore, exitOpH_plain cfg defs hd h]
  | suspend =>
    simp only [stepCoreH, stepCore, resumeContextsH_plain cfg defs hd h, pauseContextsH_plain cfg defs hd h]
  | continue_ =>
    simp only [stepCoreH, stepCore, resumeContextsH_plain cfg defs hd h]
  | finish ok => rfl

/-! ## hooks that only enter: no change of the registered contexts while no task is active -/

theorem enterOp_reg_phase (cfg : Cfg) (defs : List Kind) (s : St) (m : Nat) (hp : s.phase ≠ .running) :
    (enterOp cfg defs s m).1.reg = s.reg ∧ (enterOp cfg defs s m).1.phase = s.phase := by
  have hb : (s.phase == Phase.running) = false := by
    cases hph : s.phase <;> simp_all
  have h1 : (enterS1 s m).reg = s.reg := by simp [enterS1, hb]
  have h1p : (enterS1 s m).phase = s.phase := rfl
  unfold enterOp
  split
  · exact ⟨h1, h1p⟩
  · have hr := resumeCtx_reg defs (enterS1 s m) m
    have hph := resumeCtx_phase defs (enterS1 s m) m
    generalize resumeCtx defs (enterS1 s m) m = r at hr hph
    obtain ⟨s2, calls, e⟩ := r
    simp only [] at hr hph
    cases e with
    | none => simp only [afterResume]; exact ⟨hr.trans h1, hph.trans h1p⟩
    | some x =>
      simp only [afterResume, hb]
      split
      · simp only [delAttr, Bool.false_eq_true, if_false]; exact ⟨hr.trans h1, hph.trans h1p⟩
      · exact ⟨hr.trans h1, hph.trans h1p⟩

def allEnter (l : List HAct) : Bool := l.all HAct.isEnter

theorem runActs_reg_phase (cfg : Cfg) (defs : List Kind) (l : List HAct) (hl : allEnter l = true) :
    ∀ (s : St) (calls : List Call), s.phase ≠ .running →
      (runActs cfg defs l s calls).1.reg = s.reg ∧ (runActs cfg defs l s calls).1.phase = s.phase := by
  induction l with
  | nil => intro s calls _; exact ⟨rfl, rfl⟩
  | cons a rest ih =>
    intro s calls hp
    have hrest : allEnter rest = true := by
      simp only [allEnter, List.all_cons, Bool.and_eq_true] at hl; exact hl.2
    cases a with
    | exit m => simp [allEnter, HAct.isEnter] at hl
    | enter m =>
      have hm : (memberOp cfg defs s (.enter m)).1.reg = s.reg ∧ (memberOp cfg defs s (.enter m)).1.phase = s.phase := by
        unfold memberOp
        simp only []
        split
        · exact enterOp_reg_phase cfg defs s m hp
        · exact ⟨rfl, rfl⟩
      unfold runActs
      generalize memberOp cfg defs s (.enter m) = r at hm
      obtain ⟨s', cl, e⟩ := r
      simp only [] at hm
      cases e with
      | some x => exact hm
      | none =>
        simp only []
        have hp' : s'.phase ≠ .running := by rw [hm.2]; exact hp
        have := ih hrest s' (calls ++ cl) hp'
        exact ⟨this.1.trans hm.1, this.2.trans hm.2⟩

theorem noExit_allEnter (hd : HDefs) (h : noExitOnResume hd = true) (c : Nat) : allEnter (hdefOf hd c).onR = true := by
  unfold hdefOf
  by_cases hc : c < hd.length
  · have hmem : hd[c] ∈ hd := List.getElem_mem hc
    simp only [noExitOnResume, List.all_eq_true] at h
    have := h _ hmem
    simp only [List.getD_eq_getElem?_getD, List.getElem?_eq_getElem hc, Option.getD_some]
    simpa [allEnter, List.all_eq_true] using this
  · simp [List.getD_eq_getElem?_getD, List.getElem?_eq_none (Nat.le_of_not_lt hc), allEnter]

theorem resumeCtxH_reg_phase (cfg : Cfg) (defs : List Kind) (hd : HDefs) (h : noExitOnResume hd = true) (s : St) (c : Nat)
    (hp : s.phase ≠ .running) :
    (resumeCtxH cfg defs hd s c).1.reg = s.reg ∧ (resumeCtxH cfg defs hd s c).1.phase = s.phase := by
  have hr := resumeCtx_reg defs s c
  have hph := resumeCtx_phase defs s c
  unfold resumeCtxH
  generalize resumeCtx defs s c = r at hr hph
  obtain ⟨s1, cl, e⟩ := r
  simp only [] at hr hph
  cases e with
  | some x => exact ⟨hr, hph⟩
  | none =>
    simp only []
    have := runActs_reg_phase cfg defs (hdefOf hd c).onR (noExit_allEnter hd h c) s1 cl (by rw [hph]; exact hp)
    exact ⟨this.1.trans hr, this.2.trans hph⟩

end AsynqModel.Core.P28
