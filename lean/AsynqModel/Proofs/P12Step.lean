import AsynqModel.Proofs.P12Gen
/-!
  P12: classification of the steps of the machine (`Sc s (step s)`) for the DFS-chain invariant: what happens to the
  control stack and the task stack, the heap-side frame `Hp`, and the facts about the task that is handled.
-/
namespace AsynqModel.Core.P12
open AsynqModel.Core P5 P7

inductive Sc (s r : State) : Prop
  | same (hp : Hp E s r) (c : r.ctl = s.ctl) (st : r.stack = s.stack)
  | top (f : Nat) (hc : s.ctl = []) (hp : Hp E s r) (c : r.ctl = [.waitEnter f]) (st : r.stack = s.stack)
  | popEnter (root : Nat) (rest : List Ctl) (hc : s.ctl = .waitEnter root :: rest) (hp : Hp E s r) (c : r.ctl = rest)
      (st : r.stack = s.stack)
  | popLoop (root base : Nat) (rest : List Ctl) (hc : s.ctl = .waitLoop root base :: rest)
      (hlen : s.stack.length ≤ base) (hp : Hp E s r) (c : r.ctl = rest) (st : r.stack = s.stack)
  | enterLoop (root : Nat) (rest : List Ctl) (hc : s.ctl = .waitEnter root :: rest) (hp : Hp E s r)
      (c : r.ctl = .waitLoop root s.stack.length :: rest) (st : r.stack = root :: s.stack)
  | flush (root base : Nat) (rest : List Ctl) (hc : s.ctl = .waitLoop root base :: rest)
      (hlen : s.stack.length ≤ base) (hp : Hp E s r) (c : r.ctl = .waitEnter root :: rest) (st : r.stack = s.stack)
  | pop (root base : Nat) (rest : List Ctl) (top : Nat) (stk : List Nat) (hc : s.ctl = .waitLoop root base :: rest)
      (hst : s.stack = top :: stk) (hlen : base < s.stack.length)
      (hno : s.computed top = true ∨ (s.fut top).kind ≠ .task) (hp : Hp E s r) (c : r.ctl = s.ctl) (st : r.stack = stk)
  | suspend (root base : Nat) (rest : List Ctl) (top : Nat) (stk : List Nat)
      (hc : s.ctl = .waitLoop root base :: rest) (hst : s.stack = top :: stk) (hlen : base < s.stack.length)
      (hk : (s.fut top).kind = .task) (hp : Hp (O top) s r) (hact : (r.task top).ctxActive = false)
      (hpend : (r.task top).pending = (s.task top).pending) (c : r.ctl = s.ctl) (st : r.stack = stk)
  | visit (root base : Nat) (rest : List Ctl) (top : Nat) (stk : List Nat)
      (hc : s.ctl = .waitLoop root base :: rest) (hst : s.stack = top :: stk) (hlen : base < s.stack.length)
      (hk : (s.fut top).kind = .task) (hnc : s.computed top = false) (ds : List Nat) (hne : ds ≠ [])
      (hds : ∀ d ∈ ds, d ∈ (s.task top).deps) (hp : Hp (O top) s r)
      (hpend : (r.task top).pending = (s.task top).pending) (hdeps : (r.task top).deps = (s.task top).deps)
      (hcomp : r.computed top = false) (c : r.ctl = s.ctl) (st : r.stack = ds ++ s.stack)
  | enterGen (root base : Nat) (rest : List Ctl) (top : Nat) (stk : List Nat) (old : Option Nat)
      (hc : s.ctl = .waitLoop root base :: rest) (hst : s.stack = top :: stk) (hlen : base < s.stack.length)
      (hk : (s.fut top).kind = .task) (hnc : s.computed top = false) (hp : Hp (O top) s r)
      (c : r.ctl = .gen top old :: s.ctl) (st : r.stack = s.stack)
  | gen (t : Nat) (old : Option Nat) (rest : List Ctl) (hc : s.ctl = .gen t old :: rest) (g : GenR s t r)
  | guard (h : r.guardFired = true)

theorem Sc.mkSuspend {s : State} (x r : State) (root base : Nat) (rest : List Ctl) (top : Nat) (stk : List Nat)
    (hc : s.ctl = .waitLoop root base :: rest) (hst : s.stack = top :: stk) (hlen : base < s.stack.length)
    (hk : (s.fut top).kind = .task) (hp : Hp (O top) s x) (hact : (x.task top).ctxActive = false)
    (hpend : (x.task top).pending = (s.task top).pending)
    (ef : r.futs = x.futs) (c : r.ctl = s.ctl) (st : r.stack = stk) : Sc s r :=
  .suspend root base rest top stk hc hst hlen hk (hp.cg ef) (by rw [task_of_futs ef]; exact hact)
    (by rw [task_of_futs ef]; exact hpend) c st

theorem Sc.mkVisit {s : State} (x r : State) (root base : Nat) (rest : List Ctl) (top : Nat) (stk : List Nat)
    (hc : s.ctl = .waitLoop root base :: rest) (hst : s.stack = top :: stk) (hlen : base < s.stack.length)
    (hk : (s.fut top).kind = .task) (hnc : s.computed top = false) (ds : List Nat) (hne : ds ≠ [])
    (hds : ∀ d ∈ ds, d ∈ (s.task top).deps) (hp : Hp (O top) s x)
    (hpend : (x.task top).pending = (s.task top).pending) (hdeps : (x.task top).deps = (s.task top).deps)
    (hcomp : x.computed top = false) (ef : r.futs = x.futs) (c : r.ctl = s.ctl) (st : r.stack = ds ++ s.stack) :
    Sc s r :=
  .visit root base rest top stk hc hst hlen hk hnc ds hne hds (hp.cg ef) (by rw [task_of_futs ef]; exact hpend)
    (by rw [task_of_futs ef]; exact hdeps) (by rw [computed_of_futs ef]; exact hcomp) c st

theorem handle_sc (s : State) (hna : NA s) (root base : Nat) (rest : List Ctl) (t : Nat) (stk : List Nat)
    (hctl : s.ctl = .waitLoop root base :: rest) (hst : s.stack = t :: stk) (hlen : base < s.stack.length)
    (hk : (s.fut t).kind = .task) (hnc : s.computed t = false) : Sc s (s.handleTask t) := by
  have ht := lt_of_kind_task s t hk
  unfold State.handleTask
  simp only []
  split
  · next hb =>
    split
    · -- second visit
      have h1 : Hp (O t) s (s.updTask t fun ts => { ts with depsSched := false }) := hp_updTask s t _ ht
      have fl := flip_pause' (s.updTask t fun ts => { ts with depsSched := false }) t (na_of_ctxs rfl hna)
        (by simpa using ht)
      refine Sc.mkSuspend ((s.updTask t fun ts => { ts with depsSched := false }).pauseContexts t) _ root base rest t
        stk hctl hst hlen hk (h1.trans fl.hp) fl.act (by rw [fl.pending, task_updTask_self _ _ _ ht]) rfl ?_ ?_
      · show (State.pauseContexts _ t).ctl = _
        rw [fl.same.ctl]; rfl
      · show (State.pauseContexts _ t).stack.tail = _
        rw [fl.same.stack]
        show s.stack.tail = stk
        rw [hst]; rfl
    · -- first visit
      have h1 : Hp (O t) s (s.updTask t fun ts => { ts with depsSched := true }) := hp_updTask s t _ ht
      have fl := flip_resume' (s.updTask t fun ts => { ts with depsSched := true }) t (na_of_ctxs rfl hna)
        (by simpa using ht)
      have hts : (s.updTask t fun ts => { ts with depsSched := true }).task t = { s.task t with depsSched := true } :=
        task_updTask_self _ _ _ ht
      have hcomp : ∀ f, ((s.updTask t fun ts => { ts with depsSched := true }).resumeContexts t).computed f =
          s.computed f := fun f => by rw [fl.comp, computed_updTask]
      refine Sc.mkVisit ((s.updTask t fun ts => { ts with depsSched := true }).resumeContexts t) _ root base rest t stk
        hctl hst hlen hk hnc
        (((s.task t).deps.filter fun d =>
          !((s.updTask t fun ts => { ts with depsSched := true }).resumeContexts t).computed d).reverse) ?_ ?_
        (h1.trans fl.hp) ?_ ?_ ?_ rfl ?_ ?_
      · intro hnil
        rw [List.reverse_eq_nil_iff, List.filter_eq_nil_iff] at hnil
        rw [List.any_eq_true] at hb
        obtain ⟨d, hd, hdc⟩ := hb
        have := hnil d hd
        rw [hcomp] at this
        exact this hdc
      · intro d hd
        exact (List.mem_filter.1 (List.mem_reverse.1 hd)).1
      · rw [fl.pending, hts]
      · rw [fl.deps, hts]
      · rw [hcomp]; exact hnc
      · show (State.resumeContexts _ t).ctl = _
        rw [fl.same.ctl]; rfl
      · show _ ++ (State.resumeContexts _ t).stack = _
        rw [fl.same.stack]; rfl
  · split
    · exact .same (Hp.of_futs rfl) rfl rfl
    · have fl := flip_resume' s t hna ht
      refine .enterGen root base rest t stk (s.resumeContexts t).active hctl hst hlen hk hnc (fl.hp.cg rfl) ?_ ?_
      · show _ :: (s.resumeContexts t).ctl = _
        rw [fl.same.ctl]
      · show (s.resumeContexts t).stack = _
        rw [fl.same.stack]

theorem exec_sc (s : State) (hna : NA s) (root base : Nat) (rest : List Ctl)
    (hctl : s.ctl = .waitLoop root base :: rest) (hlen : base < s.stack.length) : Sc s s.executeIter := by
  unfold State.executeIter
  split
  · exact .same (Hp.of_futs rfl) rfl rfl
  · next top stk hst =>
    split
    · exact .guard rfl
    · split
      · next hc =>
        exact .pop root base rest top stk hctl hst hlen (.inl hc) (Hp.of_futs rfl) rfl (by simp [State.popStack, hst])
      · next hc =>
        split
        · next hk => exact handle_sc s hna root base rest top stk hctl hst hlen hk (by simpa using hc)
        · next hk =>
          refine .pop root base rest top stk hctl hst hlen (.inr (by rw [hk]; intro h; cases h)) ?_ ?_ ?_
          · refine Hp.of_futs ?_
            show (State.popStack _).futs = _
            simp only [State.popStack]
            split
            · split <;> rfl
            · rfl
          · show (State.popStack _).ctl = s.ctl
            simp only [State.popStack]
            split
            · split <;> rfl
            · rfl
          · show (State.popStack _).stack = stk
            simp only [State.popStack]
            split
            · split <;> simp [hst]
            · simp [hst]
        · next o hk =>
          exact .pop root base rest top stk hctl hst hlen (.inr (by rw [hk]; intro h; cases h))
            ((hp_complete_nt s top _ (by rw [hk]; intro h; cases h)).cg rfl) rfl
            (by simp [State.popStack, State.complete, State.emit, State.setFut, hst])
        · exact .same (Hp.of_futs rfl) rfl rfl

theorem step_sc (s : State) (hna : NA s) (hi : P2.ItemsOk s) (hr : s.raising = none)
    (hgk : ∀ t old rest, s.ctl = .gen t old :: rest → t < s.futs.length) : Sc s (step s) := by
  unfold step
  split
  · exact .same (Hp.refl E s (fun _ h => h.elim)) rfl rfl
  · split
    · next hctl =>
      split
      · exact .same (Hp.of_futs rfl) rfl rfl
      · split
        · exact .same (Hp.refl E s (fun _ h => h.elim)) rfl rfl
        · next conv body rest' _ =>
          refine .top _ hctl ?_ rfl rfl
          have h1 : Hp E s (({ s with tops := rest', topIdx := s.topIdx + 1 } : State).emit (.top s.topIdx conv)) :=
            Hp.of_futs rfl
          exact (h1.trans (hp_newTask _ body [])).cg rfl
    · next root rest hctl =>
      simp only [hr, Option.isSome_none, Bool.false_eq_true, if_false]
      split
      · exact .popEnter root rest hctl (Hp.of_futs rfl) (by simp [State.returnFromWait, hctl]) rfl
      · exact .enterLoop root rest hctl (Hp.of_futs rfl) (by simp [hctl]) rfl
    · next root base rest hctl =>
      simp only [hr, Option.isSome_none, Bool.false_eq_true, if_false]
      split
      · next hlen => exact exec_sc s hna root base rest hctl hlen
      · next hlen =>
        have hle : s.stack.length ≤ base := Nat.le_of_not_lt hlen
        split
        · exact .popLoop root base rest hctl hle (Hp.of_futs rfl) (by simp [State.returnFromWait, hctl]) rfl
        · have c := same_schedulerFlush s root
          refine .flush root base rest hctl hle (hp_schedulerFlush s root hi) ?_ c.stack
          rw [c.ctl]
          show _ :: s.ctl.tail = _
          rw [hctl]; rfl
    · next t old rest hctl =>
      simp only [hr, Option.isSome_none, Bool.false_and, Bool.false_eq_true, if_false]
      exact .gen t old rest hctl (genStep_r s t old (hgk t old rest hctl) hi)

end AsynqModel.Core.P12
