import AsynqModel.Proofs.P25Pass
import AsynqModel.Proofs.P20Term
import AsynqModel.Proofs.P21Main
/-
  P25 (termination without the NonAsync / guard hypotheses), part 7: the lexicographic measure

      (M1', M2, U, pc, SF, cfl', pf, PhiQ)

  decreases with EVERY step of a well-scoped run that is not finished and not stuck - NonAsyncContexts, synchronous
  calls, and the MAX_TASK_STACK_SIZE guard (any number of firings) included.
  * `M1'` remaining program weight: every instruction, every start of a top-level computation;
  * `M2` unflushed non-empty batches: every scheduler flush that finds a batch;
  * `U` uncomputed futures: a lazy future computed by `_execute`, a task failed by a NonAsyncContext;
  * `pc` head of the Python stack: `wait_for` (3), generator (2), outside (1 / 0): every frame popped - in particular by
    the MAX_TASK_STACK_SIZE guard, which changes none of `M1'`, `M2`, `U` - and every generator entered;
  * `SF` stale flags outside the current pass, `cfl'` = 0 iff the current pass is `Clean'`: a flush that finds nothing;
  * `pf` (1 at the head of `wait_for`'s loop, 0 inside `_execute`), `PhiQ` the potential of a pass.
  The invariants used hold for every reachable state of a well-scoped program whatever `guardFired` is: `P10.HInv`
  (awaited futures precede the awaiting task), `P13.Buried` (under a `wait_for` frame sits a generator or nothing),
  `P2.PInv` (a running task is an uncomputed task), `P6.InvB` (an uncomputed item is in its unflushed batch).
-/
namespace AsynqModel.Core.P25
open AsynqModel.Core AsynqModel.Core.P6 AsynqModel.Core.P6T AsynqModel.Core.P20

/-! ### the measure -/

open Classical in
/-- 0 if the current scheduler pass is clean, else 1 -/
noncomputable def cfl' (R : Nat → Nat) (s : State) : Nat := if Clean' R s then 0 else 1

theorem cfl'_zero {R : Nat → Nat} {s : State} (h : Clean' R s) : cfl' R s = 0 := by unfold cfl'; rw [if_pos h]
theorem cfl'_one {R : Nat → Nat} {s : State} (h : ¬ Clean' R s) : cfl' R s = 1 := by unfold cfl'; rw [if_neg h]
theorem cfl'_le_one (R : Nat → Nat) (s : State) : cfl' R s ≤ 1 := by unfold cfl'; split <;> omega
theorem cfl'_le_of {R : Nat → Nat} {s r : State} (h : Clean' R s → Clean' R r) : cfl' R r ≤ cfl' R s := by
  by_cases hc : Clean' R s
  · rw [cfl'_zero hc, cfl'_zero (h hc)]; exact Nat.le_refl _
  · rw [cfl'_one hc]; exact cfl'_le_one R r

/-- coarse phase: the kind of the head of the Python stack -/
def pc (s : State) : Nat :=
  match s.ctl with
  | [] => if s.curTop.isSome then 1 else 0
  | .gen _ _ :: _ => 2
  | _ => 3

/-- fine phase: at the head of `wait_for`'s loop (1) or elsewhere (0) -/
def pf (s : State) : Nat :=
  match s.ctl with
  | .waitEnter _ :: _ => 1
  | _ => 0

theorem pc_onGen {s : State} (h : P10.onGen s.ctl) : pc s ≤ 2 := by
  unfold pc
  rcases h with h | ⟨t, o, r', h⟩ <;> rw [h] <;> dsimp only
  split <;> omega
  exact Nat.le_refl _

abbrev T8 := Nat × Nat × Nat × Nat × Nat × Nat × Nat × Nat

def Lt8 : T8 → T8 → Prop :=
  Prod.Lex (· < ·) (Prod.Lex (· < ·) (Prod.Lex (· < ·) (Prod.Lex (· < ·) (Prod.Lex (· < ·) (Prod.Lex (· < ·)
    (Prod.Lex (· < ·) (· < ·)))))))

theorem lt8_wf : WellFounded Lt8 :=
  (Prod.lex Nat.lt_wfRel (Prod.lex Nat.lt_wfRel (Prod.lex Nat.lt_wfRel (Prod.lex Nat.lt_wfRel (Prod.lex Nat.lt_wfRel
    (Prod.lex Nat.lt_wfRel (Prod.lex Nat.lt_wfRel Nat.lt_wfRel))))))).wf

/-- first components `≤`, the rest decreases -/
theorem lx {β : Type} {rb : β → β → Prop} {a a' : Nat} {b b' : β} (h : a' ≤ a) (hb : rb b' b) :
    Prod.Lex (· < ·) rb (a', b') (a, b) := by
  rcases Nat.lt_or_eq_of_le h with h | h
  · exact Prod.Lex.left _ _ h
  · subst h; exact Prod.Lex.right _ hb

theorem lx1 {β : Type} {rb : β → β → Prop} {a a' : Nat} {b b' : β} (h : a' < a) :
    Prod.Lex (· < ·) rb (a', b') (a, b) := Prod.Lex.left _ _ h

noncomputable def mu' (s : State) (p : Nat → List Nat) : T8 :=
  (M1' s, M2 s, U s, pc s, SF s, cfl' (P10.rankOf s p) s, pf s, PhiQ (P10.rankOf s p) s)

/-! ### the run invariant -/

structure Good' (s : State) : Prop where
  ws : P10.WSReach s
  stuck : s.stuck = none
  b : InvB s

theorem Good'.hinv {s : State} (h : Good' s) : P10.HInv s := (P10.ws_hinv h.ws).1

theorem onGen_of_under {s : State} {r : Nat} {rest : List Ctl} (h : P13.under s r rest) : P10.onGen rest := by
  cases rest with
  | nil => exact Or.inl rfl
  | cons c rest' =>
    cases c with
    | gen t o => exact Or.inr ⟨t, o, rest', rfl⟩
    | waitEnter _ => exact h.elim
    | waitLoop _ _ => exact h.elim

/-- under a `wait_for` frame sits a generator frame or nothing -/
theorem Good'.tail_onGen {s : State} (h : Good' s) {c : Ctl} {rest : List Ctl} (hctl : s.ctl = c :: rest)
    (hc : ∀ t o, c ≠ .gen t o) : P10.onGen rest := by
  have hb := P21.buried_reach h.ws.reach
  rw [hctl] at hb
  cases c with
  | gen t o => exact absurd rfl (hc t o)
  | waitEnter r => exact onGen_of_under hb.1
  | waitLoop r b => exact onGen_of_under hb.1

theorem Good'.gen {s : State} (h : Good' s) {t : Nat} {old : Option Nat} {rest : List Ctl}
    (hctl : s.ctl = .gen t old :: rest) : (view s t).kind = .task ∧ (view s t).out = none := by
  have pin := P2.pinv_reach h.ws.reach
  have hm : t ∈ P2.gens s.ctl := by rw [hctl]; simp [P2.gens]
  exact ⟨pin.genKind t hm, pin.live t hm⟩

/-! ### steps that keep the heap -/

theorem views_of_futs {s r : State} (hf : r.futs = s.futs) : ∀ f, view r f = view s f := by
  intro f; unfold view State.fut; rw [hf]

/-- the first three components when heap, batches and remaining computations are kept -/
theorem keep3 {s r : State} (hf : r.futs = s.futs) (ht : r.tops = s.tops) (hb : r.batches = s.batches) :
    M1' r = M1' s ∧ M2 r = M2 s ∧ U r = U s :=
  ⟨M1'_same (by rw [hf]) ht (views_of_futs hf), M2_of_batches hb, U_same (by rw [hf]) (views_of_futs hf)⟩

/-- a frame is popped (or the generator of a task is entered): the phase decreases -/
theorem lt8_pc {s r : State} {p p' : Nat → List Nat} (hf : r.futs = s.futs) (ht : r.tops = s.tops)
    (hb : r.batches = s.batches) (hpc : pc r < pc s) : Lt8 (mu' r p') (mu' s p) := by
  obtain ⟨h1, h2, h3⟩ := keep3 hf ht hb
  unfold mu'
  exact lx (Nat.le_of_eq h1) (lx (Nat.le_of_eq h2) (lx (Nat.le_of_eq h3) (lx1 hpc)))

theorem pathOK_of_futs {s r : State} {p : Nat → List Nat} (hf : r.futs = s.futs) (hp : P10.PathOK s p) :
    P10.PathOK r p :=
  pathOK_of_own (fun f => by rw [views_of_futs hf f]) hp

/-! ### `step` at the heads of the control stack -/

theorem step_gen' (s : State) (hs : s.stuck = none) {t : Nat} {old : Option Nat} {rest : List Ctl}
    (hctl : s.ctl = .gen t old :: rest) (hst : (step s).stuck = none) : step s = s.genStep t old := by
  have e := P9.step_gen s t old rest hs hctl
  rw [e] at hst ⊢
  unfold P9.genCore at hst ⊢
  cases hb : P9.genBad s t
  · simp
  · rw [hb] at hst; simp [State.fail] at hst

theorem step_wait_raise (s : State) (hs : s.stuck = none) {c : Ctl} {rest : List Ctl} (hctl : s.ctl = c :: rest)
    (hc : ∀ t o, c ≠ .gen t o) (hr : s.raising.isSome = true) :
    step s = s.raiseOutOfWait (s.raising.getD .other) := by
  unfold step
  cases c with
  | gen t o => exact absurd rfl (hc t o)
  | waitEnter r => simp [hs, hctl, hr]
  | waitLoop r b => simp [hs, hctl, hr]

/-! ### one iteration of `_execute` -/

theorem region_below {s : State} {root base : Nat} {rest : List Ctl} (hctl : s.ctl = .waitLoop root base :: rest)
    (hlen : s.stack.length ≤ base) (x : Nat) : x ∉ region s := by
  intro hm
  obtain ⟨above, below, hs, hb⟩ := (mem_region_loop hctl x).1 hm
  have := congrArg List.length hs
  simp at this
  omega

theorem mu'_iter {s : State} {p : Nat → List Nat} (h : Good' s) (hp : P10.PathOK s p) {root base : Nat}
    {rest : List Ctl} (hctl : s.ctl = .waitLoop root base :: rest) (hlen : s.stack.length > base)
    (hr : s.raising = none) (hst : (step s).stuck = none) :
    ∃ p', P10.PathOK (step s) p' ∧ Lt8 (mu' (step s) p') (mu' s p) := by
  have hH := h.hinv
  obtain ⟨p0, hp0⟩ := (P10.ws_hinv (P10.WSReach.step h.ws)).1.path
  have e := step_waitLoop_iter s h.stuck hr hctl hlen
  have hrest : P10.onGen rest := h.tail_onGen hctl (by intro t o e; cases e)
  have hpcs : pc s = 3 := by unfold pc; rw [hctl]
  rw [e] at hst hp0 ⊢
  cases hstk : s.stack with
  | nil => rw [hstk] at hlen; simp at hlen
  | cons top st =>
    have d := executeIter_id s top st hstk hst
    have same_ctl : ∀ {r : State}, r.ctl = s.ctl → pc r = pc s ∧ pf r = pf s := by
      intro r hc; unfold pc pf; rw [hc, hctl]; exact ⟨rfl, rfl⟩
    cases d with
    | guard hv fr hctl' _ =>
      refine ⟨p0, hp0, ?_⟩
      unfold mu'
      refine lx (Nat.le_of_eq (M1'_same fr.len fr.tops hv)) (lx (Nat.le_of_eq (M2_of_batches fr.batches))
        (lx (Nat.le_of_eq (U_same fr.len hv)) (lx1 ?_)))
      have : pc s.executeIter ≤ 2 := pc_onGen (by rw [hctl', hctl]; exact hrest)
      omega
    | compl t c _ _ =>
      refine ⟨p0, hp0, ?_⟩
      unfold mu'
      exact lx (M1'_compl_le c.fr.len c.fr.tops c.views) (lx (Nat.le_of_eq (M2_of_batches c.fr.batches))
        (lx1 (U_compl_lt c.fr.len c.ht c.h0 c.h1 c.hvo)))
    | enterGen hv fr a hctl' _ =>
      refine ⟨p0, hp0, ?_⟩
      unfold mu'
      refine lx (Nat.le_of_eq (M1'_same fr.len fr.tops hv)) (lx (Nat.le_of_eq (M2_of_batches fr.batches))
        (lx (Nat.le_of_eq (U_same fr.len hv)) (lx1 ?_)))
      have : pc s.executeIter = 2 := by unfold pc; rw [hctl']
      omega
    | pop hcase hv fr hst' hctl' hsb =>
      refine ⟨p, pathOK_of_own (fun f => by rw [hv f]) hp, ?_⟩
      obtain ⟨h1, h2, h3⟩ := pass_pop (R := P10.rankOf s p) h.b hctl hctl' hstk hcase hv fr hst' hsb
      obtain ⟨e1, e2⟩ := same_ctl hctl'
      unfold mu'
      rw [rankOf_congr fr.len]
      exact lx (Nat.le_of_eq (M1'_same fr.len fr.tops hv)) (lx (Nat.le_of_eq (M2_of_batches fr.batches))
        (lx (Nat.le_of_eq (U_same fr.len hv)) (lx (Nat.le_of_eq e1) (lx h1 (lx (cfl'_le_of h2)
          (lx (Nat.le_of_eq e2) h3))))))
    | second hk hc hbl hfl hvt hvo fr hst' hctl' hsb =>
      have hvo' : ∀ f, view s.executeIter f = view s f ∨ f = top := fun f => by
        by_cases e : f = top
        · exact Or.inr e
        · exact Or.inl (hvo f e)
      refine ⟨p, pathOK_of_own (fun f => ?_) hp, ?_⟩
      · rcases hvo' f with e | e
        · rw [e]
        · subst e; rw [hvt]; rfl
      obtain ⟨h1, h2, h3⟩ := pass_second (R := P10.rankOf s p) hctl hctl' hstk hlen hk hc hbl hfl hvt hvo fr hst' hsb
      obtain ⟨e1, e2⟩ := same_ctl hctl'
      have hM : M1' s.executeIter = M1' s := by
        unfold M1'
        rw [fr.tops, fr.len]
        congr 1
        refine rsum_congr _ (fun f _ => ?_)
        rcases hvo' f with e | e
        · exact tval'_of_view e
        · subst e; unfold tval'; rw [hvt]; rfl
      have hU : U s.executeIter = U s := U_of_out fr.len (fun f => by
        rcases hvo' f with e | e
        · rw [e]
        · subst e; rw [hvt]; rfl)
      unfold mu'
      rw [rankOf_congr fr.len]
      exact lx (Nat.le_of_eq hM) (lx (Nat.le_of_eq (M2_of_batches fr.batches))
        (lx (Nat.le_of_eq hU) (lx (Nat.le_of_eq e1) (lx h1 (lx (cfl'_le_of h2)
          (lx (Nat.le_of_eq e2) h3))))))
    | first hk hc hbl hfl hvt hvo fr hst' hctl' hsb =>
      have hvo' : ∀ f, view s.executeIter f = view s f ∨ f = top := fun f => by
        by_cases e : f = top
        · exact Or.inr e
        · exact Or.inl (hvo f e)
      refine ⟨p, pathOK_of_own (fun f => ?_) hp, ?_⟩
      · rcases hvo' f with e | e
        · rw [e]
        · subst e; rw [hvt]; rfl
      have hrk : ∀ d ∈ (view s top).deps, P10.rankOf s p d < P10.rankOf s p top := by
        intro d hd
        have hn := hH.deps top d hd
        exact P10.rankOf_lt hp (hH.named_lt hn) (hH.named_bound hn)
      obtain ⟨h12, h3⟩ := pass_first (R := P10.rankOf s p) hctl hctl' hstk hlen hk hc hfl hvt hvo fr hst' hsb hrk
      obtain ⟨e1, e2⟩ := same_ctl hctl'
      have hM : M1' s.executeIter = M1' s := by
        unfold M1'
        rw [fr.tops, fr.len]
        congr 1
        refine rsum_congr _ (fun f _ => ?_)
        rcases hvo' f with e | e
        · exact tval'_of_view e
        · subst e; unfold tval'; rw [hvt]; rfl
      have hU : U s.executeIter = U s := U_of_out fr.len (fun f => by
        rcases hvo' f with e | e
        · rw [e]
        · subst e; rw [hvt]; rfl)
      unfold mu'
      rw [rankOf_congr fr.len]
      refine lx (Nat.le_of_eq hM) (lx (Nat.le_of_eq (M2_of_batches fr.batches))
        (lx (Nat.le_of_eq hU) (lx (Nat.le_of_eq e1) ?_)))
      rcases h12 with h1 | ⟨h1, h2⟩
      · exact lx1 h1
      · exact lx h1 (lx (cfl'_le_of h2) (lx (Nat.le_of_eq e2) h3))

/-! ### the scheduler flush -/

theorem mu'_flush {s : State} {p : Nat → List Nat} (h : Good' s) (hp : P10.PathOK s p) {root base : Nat}
    {rest : List Ctl} (hctl : s.ctl = .waitLoop root base :: rest) (hlen : s.stack.length ≤ base)
    (hroot : s.computed root = false) (hr : s.raising = none) (hst : (step s).stuck = none) :
    P10.PathOK (step s) p ∧ Lt8 (mu' (step s) p) (mu' s p) := by
  have hs := h.stuck
  have e := step_waitLoop_flush s hs hr hctl hlen hroot
  rw [e] at hst ⊢
  have F := (schedulerFlush_desc s root hst).1
  have hpath : P10.PathOK (s.schedulerFlush root) p := by
    refine pathOK_of_own (fun f => ?_) hp
    rcases F.view f with e1 | ⟨_, o, e1⟩ <;> rw [e1] <;> rfl
  refine ⟨hpath, ?_⟩
  have hM1 : M1' (s.schedulerFlush root) ≤ M1' s := M1'_flushDesc_le F
  unfold mu'
  by_cases hfl : s.flushable = []
  · -- no batch: the pass was not clean; the next one is
    have hnc : ¬ Clean' (P10.rankOf s p) s := fun hc => flushable_ne_nil' hc hctl hlen hroot hfl
    have er := schedulerFlush_empty s root hfl
    have hf : (s.schedulerFlush root).futs = s.futs := by rw [er]
    have hctl' : (s.schedulerFlush root).ctl = .waitEnter root :: rest := by rw [er, hctl]; rfl
    obtain ⟨h1, h2, h3⟩ := keep3 hf (by rw [er]) (by rw [er])
    have hnl : ∀ r0 b0 rest0, (s.schedulerFlush root).ctl ≠ .waitLoop r0 b0 :: rest0 := by
      intro r0 b0 rest0 h0; rw [hctl'] at h0; cases h0
    have hpc : pc (s.schedulerFlush root) = pc s := by unfold pc; rw [hctl', hctl]
    have hsf : SF (s.schedulerFlush root) ≤ SF s := by
      refine SF_le (by rw [hf]) ?_
      intro x hx _
      exact ⟨flagged_of_view (views_of_futs hf x) hx, region_below hctl hlen x⟩
    have hrk : P10.rankOf (s.schedulerFlush root) p = P10.rankOf s p := rankOf_congr (by rw [hf]) p
    rw [hrk]
    refine lx (Nat.le_of_eq h1) (lx (Nat.le_of_eq h2) (lx (Nat.le_of_eq h3) (lx (Nat.le_of_eq hpc) (lx hsf (lx1 ?_)))))
    rw [cfl'_one hnc, cfl'_zero (clean'_of_noLoop hnl)]
    exact Nat.lt_succ_self _
  · refine lx hM1 (lx1 ?_)
    rcases P1.schedulerFlush_cases s root hfl with ⟨m, hm, _⟩ | ⟨c, b, _, hadm, hbc, hfw⟩
    · rw [hm] at hst; simp [State.fail] at hst
    · have hcf := (P1.admissible_spec s c hadm).1
      obtain ⟨_, b', hb', hne, hunf⟩ := (P1.mem_flushable s c.1 c.2).1 hcf
      rw [hbc] at hb'; cases hb'
      rw [hfw] at hst ⊢
      unfold P1.flushWith at hst ⊢
      obtain ⟨_, _, _, _, hFB⟩ := flushBatch_desc _ c.1 c.2 hst
      unfold M2
      refine M2_flush hFB (b := b) hbc ?_
      unfold liveB
      rw [hunf]
      cases hi : b.items with
      | nil => exact absurd hi hne
      | cons _ _ => rfl

/-! ### every step -/

/-- every step of an unfinished run decreases the measure -/
theorem mu'_step {s : State} {p : Nat → List Nat} (h : Good' s) (hp : P10.PathOK s p) (hnd : s.isDone = false)
    (hst : (step s).stuck = none) :
    ∃ p', P10.PathOK (step s) p' ∧ Lt8 (mu' (step s) p') (mu' s p) := by
  have hs := h.stuck
  obtain ⟨p0, hp0⟩ := (P10.ws_hinv (P10.WSReach.step h.ws)).1.path
  cases hctl : s.ctl with
  | nil =>
    cases hcur : s.curTop with
    | some f =>
      have e := step_nil_some s hs hctl f hcur
      refine ⟨p0, hp0, ?_⟩
      rw [e]
      refine lt8_pc rfl rfl rfl ?_
      have h1 : pc (s.finishTop f) = 0 := by unfold pc State.finishTop; simp [State.emit, hctl]
      have h2 : pc s = 1 := by unfold pc; rw [hctl, hcur]; rfl
      omega
    | none =>
      cases htops : s.tops with
      | nil => simp [State.isDone, hs, hctl, hcur, htops] at hnd
      | cons q rest =>
        obtain ⟨conv, body⟩ := q
        refine ⟨p0, hp0, lx1 ?_⟩
        have e : step s = { ((({ s with tops := rest, topIdx := s.topIdx + 1 } : State).emit (.top s.topIdx conv)).newTask body []).1 with
            curTop := some ((({ s with tops := rest, topIdx := s.topIdx + 1 } : State).emit (.top s.topIdx conv)).newTask body []).2,
            ctl := [.waitEnter ((({ s with tops := rest, topIdx := s.topIdx + 1 } : State).emit (.top s.topIdx conv)).newTask body []).2] } := by
          unfold step; simp [hs, hctl, hcur, htops]
        have U := updN_newTask s (({ s with tops := rest, topIdx := s.topIdx + 1 } : State).emit (.top s.topIdx conv))
          rfl rfl rfl rfl body []
        rw [e]
        exact M1'_top htops ⟨U.len, U.viewN, U.viewO, U.batches, U.stack, U.noNA⟩ rfl
  | cons c rest =>
    cases c with
    | gen t old =>
      have e := step_gen' s hs hctl hst
      refine ⟨p0, hp0, lx1 ?_⟩
      rw [e] at hst ⊢
      obtain ⟨hk, ho⟩ := h.gen hctl
      exact M1'_gd hk ho (genStep_gd' s t old hk hst)
    | waitEnter root =>
      have hrest : P10.onGen rest := h.tail_onGen hctl (by intro t o e; cases e)
      have hpcs : pc s = 3 := by unfold pc; rw [hctl]
      have pop : ∀ r : State, r.futs = s.futs → r.tops = s.tops → r.batches = s.batches → r.ctl = s.ctl.tail →
          Lt8 (mu' r p0) (mu' s p) := by
        intro r hf ht hb hc
        refine lt8_pc hf ht hb ?_
        have : pc r ≤ 2 := pc_onGen (by rw [hc, hctl]; exact hrest)
        omega
      cases hr : s.raising with
      | some er =>
        have e := step_wait_raise s hs hctl (by intro t o e; cases e) (by rw [hr]; rfl)
        refine ⟨p0, hp0, ?_⟩
        rw [e]
        exact pop _ rfl rfl rfl rfl
      | none =>
        cases hcr : s.computed root with
        | true =>
          have e := step_waitEnter_ret s hs hr hctl hcr
          refine ⟨p0, hp0, ?_⟩
          rw [e]
          exact pop _ rfl rfl rfl rfl
        | false =>
          have e := step_waitEnter_loop s hs hr hctl hcr
          refine ⟨p, ?_, ?_⟩
          · rw [e]; exact pathOK_of_futs rfl hp
          rw [e]
          generalize hrdef : ({ s with ctl := .waitLoop root s.stack.length :: s.ctl.tail, stack := root :: s.stack } : State) = r
          have hf : r.futs = s.futs := by subst hrdef; rfl
          have hctl' : r.ctl = .waitLoop root s.stack.length :: rest := by subst hrdef; simp [hctl]
          have hstk' : r.stack = root :: s.stack := by subst hrdef; rfl
          obtain ⟨h1, h2, h3⟩ := keep3 hf (by subst hrdef; rfl) (by subst hrdef; rfl)
          have hpc : pc r = pc s := by unfold pc; rw [hctl', hctl]
          have hpf : pf r < pf s := by unfold pf; rw [hctl', hctl]; exact Nat.zero_lt_one
          have hregs : region s = [] := region_not_loop (by intro a b c hh; rw [hctl] at hh; cases hh)
          have hsfle : ∀ x, Flagged r x → x ∉ region r → Flagged s x ∧ x ∉ region s := by
            intro x hx _
            exact ⟨flagged_of_view (views_of_futs hf x) hx, by rw [hregs]; simp⟩
          have hrk : P10.rankOf r p = P10.rankOf s p := rankOf_congr (by rw [hf]) p
          unfold mu'
          rw [hrk]
          refine lx (Nat.le_of_eq h1) (lx (Nat.le_of_eq h2) (lx (Nat.le_of_eq h3) (lx (Nat.le_of_eq hpc) ?_)))
          by_cases hfr : Flagged s root
          · refine lx1 (SF_lt (by rw [hf]) hsfle hfr (by rw [hregs]; simp) ?_)
            exact (mem_region_loop hctl' root).2 ⟨[], s.stack, hstk', Nat.le_refl _⟩
          · have hcl : Clean' (P10.rankOf s p) r := clean'_enter hctl' hstk' (views_of_futs hf) hfr
            refine lx (SF_le (by rw [hf]) hsfle) (lx ?_ (lx1 hpf))
            rw [cfl'_zero hcl]
            exact Nat.zero_le _
    | waitLoop root base =>
      have hrest : P10.onGen rest := h.tail_onGen hctl (by intro t o e; cases e)
      have hpcs : pc s = 3 := by unfold pc; rw [hctl]
      have pop : ∀ r : State, r.futs = s.futs → r.tops = s.tops → r.batches = s.batches → r.ctl = s.ctl.tail →
          Lt8 (mu' r p0) (mu' s p) := by
        intro r hf ht hb hc
        refine lt8_pc hf ht hb ?_
        have : pc r ≤ 2 := pc_onGen (by rw [hc, hctl]; exact hrest)
        omega
      cases hr : s.raising with
      | some er =>
        have e := step_wait_raise s hs hctl (by intro t o e; cases e) (by rw [hr]; rfl)
        refine ⟨p0, hp0, ?_⟩
        rw [e]
        exact pop _ rfl rfl rfl rfl
      | none =>
        by_cases hlen : s.stack.length > base
        · exact mu'_iter h hp hctl hlen hr hst
        · have hle : s.stack.length ≤ base := by omega
          cases hcr : s.computed root with
          | true =>
            have e := step_waitLoop_ret s hs hr hctl hle hcr
            refine ⟨p0, hp0, ?_⟩
            rw [e]
            exact pop _ rfl rfl rfl rfl
          | false => exact ⟨p, mu'_flush h hp hctl hle hcr hr hst⟩

end AsynqModel.Core.P25
