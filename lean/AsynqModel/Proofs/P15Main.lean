import AsynqModel.Proofs.P15Step
import AsynqModel.Proofs.P11Step
/-!
  P15, part 4: the simulation relation `R false false` (every clause of the C03 observer except start-order and the
  `.ret` clause) holds in every reachable state of every program.

  The side conditions of `R_step` come from `P2.PInv` (running generators are live tasks, what a resumed task yielded is
  computed, the active task is a running generator) and `P11.LInv` (everything the scheduler may start has been awaited).
-/
namespace AsynqModel.Core.P15
open AsynqModel.Core AsynqModel.Core.Spec AsynqModel.Core.P2 AsynqModel.Core.P14

/-- the observer's `awaited` list contains everything `P11.Awaited` says was awaited -/
theorem awaited_of_Awaited {t : Nat} {tr : List Event} (h : P11.Awaited t tr) : t ∈ (wOf tr).awaited := by
  rcases h with ⟨e, he, ha⟩ | ⟨l1, idx, conv, l2, h⟩
  · obtain ⟨pre, post, rfl⟩ := List.append_of_mem he
    apply awaited_mono_tr
    rw [wOf_cons]
    cases e with
    | yield u i y => exact yield_awaited _ _ _ _ _ (by simpa [P11.awaitsEv] using ha)
    | syncE u f =>
      have : f = t := by simpa [P11.awaitsEv] using ha
      subst this; exact syncE_awaited _ _ _
    | _ => simp [P11.awaitsEv] at ha
  · subst h
    apply awaited_mono_tr
    rw [wOf_cons, wOf_cons]
    exact top_new_awaited _ _ _ _ _

/-- the facts `genStep` needs about the running generator, in a reachable state -/
theorem genOK_reach {s : State} (h : Reach s) {t : Nat} {old : Option Nat} {rest : List Ctl}
    (hctl : s.ctl = .gen t old :: rest) : GenOK false s t := by
  have inv := pinv_reach h
  have htg : t ∈ gens s.ctl := by rw [hctl]; simp [gens]
  refine ⟨inv.genKind t htg, inv.live t htg, ?_, fun hs => inv.res0 t hs, ?_, ?_, fun ho => by cases ho⟩
  · intro hp a ha
    have hm := inv.actIn a ha
    rw [hctl] at hm
    simp only [gens, List.mem_cons] at hm
    rcases hm with rfl | hm
    · exact hp
    · exact inv.buried a (by rw [hctl]; exact hm)
  · intro hp hs
    exact (hrun_of_reach h t old rest hctl hp hs).2
  · intro _ _
    exact awaited_of_Awaited ((P11.inv_reach h).1.tracked t (Or.inr (Or.inl ⟨_, by rw [hctl]; exact List.mem_cons_self, rfl⟩)))

theorem R_reach {s : State} (h : Reach s) : R false false s := by
  induction h with
  | init cfg tops choices => exact R_init cfg tops choices
  | step hr ih =>
    exact R_step ih (pinv_reach hr).items (fun t old rest _ hctl => genOK_reach hr hctl)
      (fun _ _ _ _ hr => by cases hr)

end AsynqModel.Core.P15
