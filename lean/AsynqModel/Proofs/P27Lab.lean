import AsynqModel.Proofs.P17Lab
import AsynqModel.Proofs.P16J
import AsynqModel.Proofs.P27CtxFinal
/-!
  P27, C07 part 6: the labelled task stack with active parents (`P17.LabIA`) on every reachable state of a well-scoped
  program in which the stack guard has not fired - `P17.LabIA_reach` without the hypothesis that no NonAsyncContext
  exists: the proof of `Proofs/P17Lab.lean` over the classification `P16.step_sc'` of the steps (where the second visit
  of a blocked task may fail it) and the library facts `P16.Lib'`.
-/
namespace AsynqModel.Core.P27
open AsynqModel.Core P5 P7 P12 P17

/-! ### transfer lemmas (cf. `P12.lab_keep`, `lab_pop`, `lab_push`) -/

theorem laba_keep' {X : Nat → Prop} {s r : State} (lb : P16.Lib' s) (hp : Hp X s r)
    (hX : ∀ p, X p → s.stack.head? = some p) (st : r.stack = s.stack)
    (he : ∀ p u, s.stack.head? ≠ some p → edgeIn s.ctl p u → edgeIn r.ctl p u)
    (hb : s.stack ≠ [] → bottomRoot r.ctl = bottomRoot s.ctl) (h : LabIA s) : LabIA r := by
  obtain ⟨L, hL, hlab, hh, hbo⟩ := h
  refine ⟨L, by rw [st]; exact hL, LabA.transfer_top lb.hinv lb.chain hp hlab hL hX he, ?_, ?_⟩
  · intro o hk ha hc
    rw [st]
    by_cases hx : X o
    · exact .inl (hX o hx)
    · obtain ⟨h1, h2, h3⟩ := heads_back hp hk ha hc hx
      exact hh o h1 h2 h3
  · intro x hx
    have hne : s.stack ≠ [] := by
      rw [← hL]; intro e
      rw [List.map_eq_nil_iff] at e; rw [e] at hx; cases hx
    rw [hb hne]; exact hbo x hx

theorem laba_pop' {X : Nat → Prop} {s r : State} (lb : P16.Lib' s) (hp : Hp X s r) {top : Nat} {stk : List Nat}
    (hst : s.stack = top :: stk) (hX : ∀ p, X p → p = top) (st : r.stack = stk)
    (he : ∀ p u, s.stack.head? ≠ some p → edgeIn s.ctl p u → edgeIn r.ctl p u)
    (hexcl : ¬ ((r.fut top).kind = .task ∧ (r.task top).ctxActive = true ∧ r.computed top = false))
    (hc : r.ctl = s.ctl) (h : LabIA s) : LabIA r := by
  obtain ⟨L, hL, hlab, hh, hbo⟩ := h
  have hX' : ∀ p, X p → s.stack.head? = some p := fun p hx => by rw [hX p hx, hst]; rfl
  have hlabr : LabA r L := LabA.transfer_top lb.hinv lb.chain hp hlab hL hX' he
  cases L with
  | nil => rw [hst] at hL; cases hL
  | cons x L' =>
    obtain ⟨a, pa⟩ := x
    rw [hst] at hL
    simp only [List.map_cons, List.cons.injEq] at hL
    obtain ⟨rfl, hL'⟩ := hL
    refine ⟨L', by rw [st]; exact hL', hlabr.tail, ?_, ?_⟩
    · intro o hk ha hc'
      by_cases ho : o = a
      · subst ho; exact absurd ⟨hk, ha, hc'⟩ hexcl
      · have hx : ¬ X o := fun hx => ho (hX o hx)
        obtain ⟨h1, h2, h3⟩ := heads_back hp hk ha hc' hx
        rcases hh o h1 h2 h3 with h4 | h4
        · rw [hst] at h4; simp at h4; exact absurd h4.symm ho
        · simp only [List.map_cons, List.mem_cons] at h4
          rcases h4 with h4 | h4
          · cases L' with
            | nil =>
              have : pa = a := hlab
              exact absurd (h4.trans this) ho
            | cons y L'' =>
              obtain ⟨b, pb⟩ := y
              rcases hlab.2.1 with e | e
              · left
                rw [st, ← hL']; simp [h4, e]
              · right
                simp [h4, e]
          · exact .inr h4
    · intro x hx
      rw [hc]
      refine hbo x ?_
      cases L' with
      | nil => cases hx
      | cons y L'' => rw [List.getLast?_cons_cons]; exact hx

theorem laba_push' {s r : State} (lb : P16.Lib' s) {top : Nat} {stk : List Nat} (hp : Hp (O top) s r)
    (hst : s.stack = top :: stk) (ds : List Nat) (hne : ds ≠ []) (hl : ∀ d ∈ ds, LinkA r top d)
    (st : r.stack = ds ++ s.stack)
    (he : ∀ p u, s.stack.head? ≠ some p → edgeIn s.ctl p u → edgeIn r.ctl p u) (hc : r.ctl = s.ctl)
    (h : LabIA s) : LabIA r := by
  obtain ⟨L, hL, hlab, hh, hbo⟩ := h
  have hX' : ∀ p, O top p → s.stack.head? = some p := fun p hx => by rw [hx, hst]; rfl
  have hlabr : LabA r L := LabA.transfer_top lb.hinv lb.chain hp hlab hL hX' he
  cases L with
  | nil => rw [hst] at hL; cases hL
  | cons x L' =>
    obtain ⟨a, pa⟩ := x
    have hL0 := hL
    rw [hst] at hL
    simp only [List.map_cons, List.cons.injEq] at hL
    obtain ⟨rfl, hL'⟩ := hL
    refine ⟨ds.map (fun d => (d, a)) ++ (a, pa) :: L', ?_, LabA.push ds L' pa hlabr hl, ?_, ?_⟩
    · rw [st, ← hL0, List.map_append, map_fst_pair]
    · intro o hk ha hc'
      right
      by_cases ho : o = a
      · subst ho
        cases ds with
        | nil => exact absurd rfl hne
        | cons d ds => simp
      · obtain ⟨h1, h2, h3⟩ := heads_back hp hk ha hc' ho
        rcases hh o h1 h2 h3 with h4 | h4
        · rw [hst] at h4; simp at h4; exact absurd h4.symm ho
        · simp only [List.map_append, List.mem_append]
          exact .inr h4
    · intro x hx
      rw [getLast?_append_cons] at hx
      rw [hc]; exact hbo x hx


/-! ### the first visit of a blocked task resumes its contexts -/

theorem visit_active' (s : State) (lb : P16.Lib' s) (hg : (step s).guardFired = false) {root base : Nat} {rest : List Ctl}
    {top : Nat} {stk : List Nat} (hctl : s.ctl = .waitLoop root base :: rest) (hst : s.stack = top :: stk)
    (hk : (s.fut top).kind = .task) (hnc0 : s.computed top = false)
    (hgrow : s.stack.length < (step s).stack.length) :
    ((step s).task top).ctxActive = true := by
  have ht : top < s.futs.length := lt_of_kind_task s top hk
  cases P7.step_cases s lb.items lb.raising with
  | neutral q hst' _ => rw [hst'] at hgrow; omega
  | top f hc e => rw [hc] at hctl; cases hctl
  | enterLoop root' rest' hc _ _ _ _ => rw [hc] at hctl; cases hctl
  | pop _ _ _ top' stk' _ hst1 _ _ _ hst' _ =>
    rw [hst', hst1] at hgrow; simp at hgrow; omega
  | suspend _ _ _ t stk' _ hst1 _ _ _ _ e =>
    rw [e] at hgrow
    have : (State.popStack ((s.updTask t fun ts => { ts with depsSched := false }).pauseContexts t)).stack =
        s.stack.tail := by
      show (State.pauseContexts _ t).stack.tail = _
      rw [(same_pauseContexts _ t).stack]; rfl
    rw [this, hst1] at hgrow; simp at hgrow; omega
  | visit _ _ _ t stk' _ hst1 _ _ _ _ ds _ e =>
    have htt : t = top := by rw [hst1] at hst; simp at hst; exact hst.1
    subst htt
    rw [e]
    have hts : (s.updTask t fun ts => { ts with depsSched := true }).task t = { s.task t with depsSched := true } :=
      task_updTask_self _ _ _ ht
    have fl := P16.flip_resume'' (s.updTask t fun ts => { ts with depsSched := true }) t (by
      intro hact c hc
      rw [hts] at hact hc
      exact lb.z t hnc0 hact c hc) (by simpa using ht)
    exact fl.act
  | enterGen _ _ _ t stk' _ hst1 _ _ _ e =>
    rw [e] at hgrow
    have : (s.resumeContexts t).stack = s.stack := (same_resumeContexts s t).stack
    simp only [this] at hgrow
    omega
  | gen t old rest' hc _ _ _ => rw [hc] at hctl; cases hctl
  | guard h => rw [h] at hg; cases hg


/-! ### one step (cf. `P12.J_step`) -/

theorem LabIA_step' (s : State) (lb : P16.Lib' s) (j : J s) (h : LabIA s)
    (hga : ∀ t old, (t, old) ∈ Inv.gensOf s.ctl → (s.task t).ctxActive = true)
    (hg : (step s).guardFired = false) : LabIA (step s) := by
  have hgk : ∀ t old rest, s.ctl = .gen t old :: rest → t < s.futs.length := fun t old rest hc =>
    lt_of_kind_task s t (lb.genKind t (by rw [hc]; simp [P2.gens]))
  have hid : ∀ p u, s.stack.head? ≠ some p → edgeIn s.ctl p u → edgeIn s.ctl p u := fun _ _ _ h => h
  cases P16.step_sc' s lb.z lb.items lb.raising hgk with
  | same hp c st =>
    exact laba_keep' lb hp (fun _ h => h.elim) st (by rw [c]; exact hid) (fun _ => by rw [c]) h
  | top f hc hp c st =>
    refine laba_keep' lb hp (fun _ h => h.elim) st ?_ ?_ h
    · intro p u _ h'; rw [hc] at h'; exact absurd h' edgeIn_nil
    · intro hne
      have hd := lb.disc
      rw [hc] at hd
      exact absurd hd hne
  | popEnter root rest hc hp c st =>
    refine laba_keep' lb hp (fun _ h => h.elim) st ?_ ?_ h
    · rw [c]; exact edge_pop hc lb.disc (.inl ⟨root, rfl⟩)
    · intro hne
      have hd := lb.disc
      rw [hc] at hd
      rw [c, hc, bottomRoot_cons _ (rest_ne_of_disc_enter hd hne)]
  | popLoop root base rest hc hlen hp c st =>
    refine laba_keep' lb hp (fun _ h => h.elim) st ?_ ?_ h
    · rw [c]; exact edge_pop hc lb.disc (.inr ⟨root, base, rfl, hlen⟩)
    · intro hne
      have hd := lb.disc
      rw [hc] at hd
      rw [c, hc, bottomRoot_cons _ (rest_ne_of_disc_loop hd hlen hne)]
  | enterLoop root rest hc hp c st =>
    have he : ∀ p u, edgeIn s.ctl p u → edgeIn (step s).ctl p u := by
      intro p u h'
      rw [hc] at h'; rw [c]
      exact edgeIn_rehead h' (isWait_enter_loop root _)
    obtain ⟨L, hL, hlab, hh, hbo⟩ := h
    have hlabr : LabA (step s) L :=
      LabA.transfer_top lb.hinv lb.chain hp hlab hL (fun _ h => h.elim) (fun p u _ h => he p u h)
    have hd := lb.disc
    rw [hc] at hd
    rcases hd.1 with hnil | ⟨t, old, rest', hrest⟩
    · -- the outermost `wait_for`
      rw [hnil] at hd
      have hstk : s.stack = [] := hd.2
      refine ⟨[(root, root)], by rw [st, hstk]; rfl, rfl, ?_, ?_⟩
      · intro o hk ha hc'
        obtain ⟨h1, h2, h3⟩ := heads_back hp hk ha hc' (fun h => h)
        rcases hh o h1 h2 h3 with h4 | h4
        · rw [hstk] at h4; cases h4
        · have : L = [] := by
            cases L with
            | nil => rfl
            | cons x L => rw [hstk] at hL; cases hL
          rw [this] at h4; cases h4
      · intro x hx
        simp only [List.getLast?_singleton, Option.some.injEq] at hx
        subst hx
        rw [c, hnil]; rfl
    · -- a nested `wait_for`, called from the generator of `t`, the top of the stack
      rw [hrest] at hd
      have hhead : s.stack.head? = some t := disc_gen_head hd.2
      cases L with
      | nil => rw [← hL] at hhead; cases hhead
      | cons x L' =>
        obtain ⟨a, pa⟩ := x
        have hat : a = t := by rw [← hL] at hhead; simpa using hhead
        subst hat
        have hedge : edgeIn s.ctl a root := by rw [hc, hrest]; exact edgeIn_head old rest' (isWait_enter root)
        have hl : Link s a root := ⟨(j.sync a root hedge).1, .inr (j.sync a root hedge).2⟩
        have hact : (s.task a).ctxActive = true :=
          hga a old (by rw [hc, hrest]; exact mem_gensOf_cons _ (mem_gensOf_head a old rest'))
        have hlr : LinkA (step s) a root := LinkA.transfer hp (fun h => h) (he a root) ⟨hl, hact⟩
        refine ⟨(root, a) :: (a, pa) :: L', by rw [st, ← hL]; rfl, ⟨hlr, .inl rfl, hlabr⟩, ?_, ?_⟩
        · intro o hk ha hc'
          obtain ⟨h1, h2, h3⟩ := heads_back hp hk ha hc' (fun h => h)
          right
          rcases hh o h1 h2 h3 with h4 | h4
          · rw [hhead] at h4
            simp only [Option.some.injEq] at h4
            simp [h4]
          · simp only [List.map_cons, List.mem_cons] at h4 ⊢
            exact .inr h4
        · intro x hx
          rw [List.getLast?_cons_cons] at hx
          have := hbo x hx
          rw [c, bottomRoot_cons _ (by rw [hrest]; exact List.cons_ne_nil _ _)]
          rw [hc, bottomRoot_cons _ (by rw [hrest]; exact List.cons_ne_nil _ _)] at this
          exact this
  | flush root base rest hc hlen hp c st =>
    refine laba_keep' lb hp (fun _ h => h.elim) st ?_ ?_ h
    · intro p u _ h'
      rw [hc] at h'; rw [c]
      exact edgeIn_rehead h' (isWait_loop_enter root base)
    · intro _
      rw [c, hc]
      exact bottomRoot_rehead _ _ _ rfl
  | pop root base rest top stk hc hst hlen hno hp c st =>
    refine laba_pop' lb hp hst (fun _ h => h.elim) st (by rw [c]; exact hid) ?_ c h
    rintro ⟨h1, h2, h3⟩
    rcases hno with h' | h'
    · rw [hp.comp top h'] at h3; cases h3
    · rcases Nat.lt_or_ge top s.futs.length with hl | hl
      · rw [hp.kind top hl] at h1; exact h' h1
      · have := (hp.fresh top hl h1).2
        rw [h2] at this; cases this
  | suspend root base rest top stk hc hst hlen hk hp hact hpend c st =>
    refine laba_pop' lb hp hst (fun _ h => h) st (by rw [c]; exact hid) ?_ c h
    rintro ⟨_, h2, _⟩
    rw [hact] at h2; cases h2
  | visit root base rest top stk hc hst hlen hk hnc ds hne hds hp hpend hdeps hcomp c st =>
    have hnin := lb.notIn root base rest top stk hc hlen hst
    have hpt : (s.task top).pending = true := j.pend top hk hnc hnin
    have hgrow : s.stack.length < (step s).stack.length := by
      rw [st, List.length_append]
      have : 0 < ds.length := List.length_pos_iff.2 hne
      omega
    have hactr := visit_active' s lb hg hc hst hk hnc hgrow
    refine laba_push' lb hp hst ds hne ?_ st (by rw [c]; exact hid) c h
    intro d hd
    refine ⟨⟨by rw [hp.kind top (lt_of_kind_task s top hk)]; exact hk, .inl ⟨hcomp, by rw [hpend]; exact hpt, ?_⟩⟩, hactr⟩
    rw [hdeps]; exact hds d hd
  | enterGen root base rest top stk old hc hst hlen hk hnc hp c st =>
    refine laba_keep' lb hp (fun p hx => by rw [hx, hst]; rfl) st ?_ ?_ h
    · intro p u _ h'; rw [c]; exact edgeIn_cons _ h'
    · intro _
      rw [c, bottomRoot_cons _ (by rw [hc]; exact List.cons_ne_nil _ _)]
  | gen t old rest hc g =>
    have hd := lb.disc
    rw [hc] at hd
    have hhead : s.stack.head? = some t := disc_gen_head hd
    have hX : ∀ p, O t p → s.stack.head? = some p := fun p hx => by rw [hx]; exact hhead
    cases g with
    | stay hp c st =>
      exact laba_keep' lb hp hX st (by rw [c]; exact hid) (fun _ => by rw [c]) h
    | leave hp c st h' =>
      have hc' : (step s).ctl = rest := by rw [c, hc]; rfl
      refine laba_keep' lb hp hX st ?_ ?_ h
      · intro p u _ h''
        rw [hc'] ; rw [hc] at h''
        rcases edgeIn_cons_inv h'' with h'' | ⟨hw, _⟩
        · exact h''
        · exact absurd hw isWait_not_gen
      · intro _
        rw [hc', hc, bottomRoot_cons _ (rest_ne_of_disc_gen hd)]
    | call f hp c st hb hpnd =>
      refine laba_keep' lb hp hX st (by intro p u _ h'; rw [c]; exact edgeIn_cons _ h') ?_ h
      intro _
      rw [c, bottomRoot_cons _ (by rw [hc]; exact List.cons_ne_nil _ _)]
  | guard h' => rw [h'] at hg; cases hg


theorem LabIA_reach' {s : State} (h : P10.WSReach s) (hg : s.guardFired = false) : LabIA s := by
  induction h with
  | init cfg tops choices _ => exact LabIA_init cfg tops choices
  | @step s hs ih =>
    have hg0 := P3.guard_mono s hg
    refine LabIA_step' s (P16.lib'_of_ws hs hg0) (P16.J_reach' hs hg0) (ih hg0) ?_ hg
    intro t old hm
    exact ((I_reach hs.reach).g.gens t old hm).2.1

end AsynqModel.Core.P27
