import AsynqModel.Proofs.P7L
/-!
  P7: how to establish the `NoRevisit` hypothesis.  `noRevisit s` holds as soon as
  * the root of a `wait_for` that enters `_execute` has no resumed contexts, and
  * the uncomputed dependencies of a task visited for the first time are not the task itself and have no resumed
    contexts
  (both are consequences of the acyclicity of the await graph: a task with resumed contexts is on the task stack
  between its two visits, or its generator is running, and everything above it is awaited by it).
-/
namespace AsynqModel.Core.P7
open AsynqModel.Core P5

/-- the two places where the machine pushes futures onto the task stack -/
structure Cold (s : State) : Prop where
  root : ∀ root rest, s.ctl = .waitEnter root :: rest → s.computed root = false → hot s root = false
  deps : ∀ root base rest t stk, s.ctl = .waitLoop root base :: rest → s.stack = t :: stk → s.stack.length > base →
    (s.fut t).kind = .task → s.computed t = false → (s.task t).depsSched = false →
    ∀ d ∈ (s.task t).deps, s.computed d = false → d ≠ t ∧ hot s d = false

theorem pushed_nil (s : State) (h : (step s).stack.length ≤ s.stack.length) : pushed s = [] := by
  unfold pushed
  have : (step s).stack.length - s.stack.length = 0 := by omega
  rw [this]; rfl

theorem noRevisit_of_cold (s : State) (g : Good s) (hg : (step s).guardFired = false) (c : Cold s) :
    noRevisit s = true := by
  have nil : (step s).stack.length ≤ s.stack.length → noRevisit s = true := by
    intro h
    unfold noRevisit
    rw [pushed_nil s h]; rfl
  cases step_cases s g.pi.items g.co.raising with
  | neutral q hst hsf => exact nil (by rw [hst]; exact Nat.le_refl _)
  | top f hctl e => exact nil (by rw [e]; exact Nat.le_refl _)
  | enterLoop root rest hctl hnc q hst hc =>
    unfold noRevisit
    rw [pushed_eq s [root] (by rw [hst]; rfl)]
    simp only [List.all_cons, List.all_nil, Bool.and_true, Bool.not_eq_true']
    rw [hot_q q]
    exact c.root root rest hctl hnc
  | pop root base rest top stk hctl hst hlen hno q hst' hc => exact nil (by rw [hst', hst]; simp)
  | suspend root base rest t stk hctl hst hlen hk hnc hsched e =>
    refine nil ?_
    rw [e]
    show ((s.updTask t fun ts => { ts with depsSched := false }).pauseContexts t).stack.tail.length ≤ _
    rw [(same_pauseContexts _ t).stack]
    show s.stack.tail.length ≤ _
    simp
  | visit root base rest t stk hctl hst hlen hk hnc hsched ds hds e =>
    have ht := lt_of_kind_task s t hk
    unfold noRevisit
    have hstk : (step s).stack = ds.reverse ++ s.stack := by
      rw [e]
      show ds.reverse ++ ((s.updTask t fun ts => { ts with depsSched := true }).resumeContexts t).stack = _
      rw [(same_resumeContexts _ t).stack]; rfl
    rw [pushed_eq s ds.reverse hstk, List.all_eq_true]
    intro d hd
    have hd' := hds d (List.mem_reverse.1 hd)
    simp only [Bool.not_eq_true']
    by_cases hact : (s.task t).ctxActive = true
    · have hts : (s.updTask t fun ts => { ts with depsSched := true }).task t = { s.task t with depsSched := true } :=
        task_updTask_self _ _ _ ht
      rw [nf_resume_active _ t (by rw [hts]; exact hact)] at hd' e
      have hcd : s.computed d = false := by rw [← hd'.2]; exact (computed_updTask s t d _).symm
      obtain ⟨hne, hcold⟩ := c.deps root base rest t stk hctl hst hlen hk hnc hsched d hd'.1 hcd
      rw [← hcold, e]
      show hot (s.updTask t fun ts => { ts with depsSched := true }) d = hot s d
      exact hot_congr (task_updTask_field s t d (fun ts => { ts with depsSched := true }) (·.ctxActive) (fun _ => rfl))
        (task_updTask_field s t d (fun ts => { ts with depsSched := true }) (·.ctxs) (fun _ => rfl))
    · obtain ⟨fl, _⟩ := flip_resume s t (fun ts => { ts with depsSched := true }) (fun _ => rfl) (fun _ => rfl)
        (fun _ => rfl) g.na ht (by simpa using hact)
      have hcd : s.computed d = false := by rw [← hd'.2]; exact (fl.comp d).symm
      obtain ⟨hne, hcold⟩ := c.deps root base rest t stk hctl hst hlen hk hnc hsched d hd'.1 hcd
      rw [← hcold, e]
      show hot ((s.updTask t fun ts => { ts with depsSched := true }).resumeContexts t) d = hot s d
      simp [hot, fl.op.tne d hne]
  | enterGen root base rest t stk hctl hst hlen hk hnc e =>
    refine nil ?_
    rw [e]
    show (s.resumeContexts t).stack.length ≤ _
    rw [(same_resumeContexts s t).stack]; exact Nat.le_refl _
  | gen t old rest hctl hst hsf gc => exact nil (by rw [hst]; exact Nat.le_refl _)
  | guard h => rw [h] at hg; cases hg

/-- if every reachable state (guard not fired, no NonAsyncContext) is `Cold`, every such run is a `noRevisit` run -/
theorem reachNR_of_cold (hc : ∀ s, Reach s → s.guardFired = false → NA s → Cold s) {s : State} (h : Reach s)
    (hg : s.guardFired = false) (hna : NA s) : ReachNR s := by
  induction h with
  | init cfg tops choices => exact ReachNR.init cfg tops choices
  | @step s h ih =>
    have hg0 := P3.guard_mono s hg
    have hna0 := na_back s h hna
    exact ReachNR.step (ih hg0 hna0) (noRevisit_of_cold s (good_of_reach h hg0 hna0) hg (hc s h hg0 hna0))

end AsynqModel.Core.P7
