import AsynqModel.Proofs.P12Defs
/-!
  P16, part 5: what `ctxExit` / `exitAll` do to the registrations (`TaskSt.ctxs`) and to the kind and owner of the
  context objects.  No invariant is assumed.
-/
namespace AsynqModel.Core.P16
open AsynqModel.Core AsynqModel.Core.P5

/-- kind and owner of a context object -/
def ko (x : CtxSt) : CtxKind × Option Nat := (x.kind, x.owner)

theorem ko_flag {s r : State} {c : Nat} {b : Bool} (f : FlagOp s r c b) (c' : Nat) :
    (r.ctxs[c']?).map ko = (s.ctxs[c']?).map ko := by
  by_cases hc : c' = c
  · subst hc
    cases hx : s.ctxs[c']? with
    | none =>
      have : r.ctxs[c']? = none := by
        rw [List.getElem?_eq_none_iff] at hx ⊢
        rw [f.len]; exact hx
      rw [this]
    | some x =>
      obtain ⟨x', h1, h2, h3, _⟩ := f.eq x hx
      rw [h1]; simp [ko, h2, h3]
  · rw [f.ne c' hc]

theorem ko_of_ctxs {s r : State} (h : r.ctxs = s.ctxs) (c' : Nat) : (r.ctxs[c']?).map ko = (s.ctxs[c']?).map ko := by
  rw [h]

theorem ko_pauseIf (s : State) (b : Bool) (c : Nat) (e : Event) (c' : Nat) :
    (((if b then s else s.ctxPauseOne c).emit e).ctxs[c']?).map ko = (s.ctxs[c']?).map ko := by
  show ((if b then s else s.ctxPauseOne c).ctxs[c']?).map ko = _
  split
  · rfl
  · exact ko_flag (flagOp_pause s c) c'

theorem task_pauseIf (s : State) (b : Bool) (c : Nat) (e : Event) (u : Nat) :
    ((if b then s else s.ctxPauseOne c).emit e).task u = s.task u := by
  show (if b then s else s.ctxPauseOne c).task u = _
  split
  · rfl
  · exact (flagOp_pause s c).task u

theorem task_ite_pause (s : State) (b : Bool) (c u : Nat) :
    (if b then s else s.ctxPauseOne c).task u = s.task u := by
  split
  · rfl
  · exact (flagOp_pause s c).task u

theorem ko_ite_pause (s : State) (b : Bool) (c c' : Nat) :
    ((if b then s else s.ctxPauseOne c).ctxs[c']?).map ko = (s.ctxs[c']?).map ko := by
  split
  · rfl
  · exact ko_flag (flagOp_pause s c) c'

theorem ko_ctxExit (s : State) (c c' : Nat) : ((s.ctxExit c).ctxs[c']?).map ko = (s.ctxs[c']?).map ko := by
  cases h : s.ctxs[c]? with
  | none =>
    rw [ctxExit_missing s c h]
    exact ko_flag (flagOp_pause s c) c'
  | some x =>
    cases ho : x.owner with
    | none =>
      rw [ctxExit_none s c x h ho]
      exact ko_ite_pause s _ c c'
    | some o =>
      rw [ctxExit_some s c o x h ho]
      show ((if _ then eraseReg s c o else (eraseReg s c o).ctxPauseOne c).ctxs[c']?).map ko = _
      rw [ko_ite_pause]; rfl

/-- the registrations of task `u` after `ctxExit c` -/
theorem ctxs_ctxExit (s : State) (c u : Nat) :
    ((s.ctxExit c).task u).ctxs =
      if (∃ x, s.ctxs[c]? = some x ∧ x.owner = some u) then (s.task u).ctxs.erase c else (s.task u).ctxs := by
  cases h : s.ctxs[c]? with
  | none =>
    have hno : ¬ ∃ x', (none : Option CtxSt) = some x' ∧ x'.owner = some u := by
      rintro ⟨x, hx, _⟩; cases hx
    rw [if_neg hno, ctxExit_missing s c h]
    show ((s.ctxPauseOne c).task u).ctxs = _
    rw [(flagOp_pause s c).task u]
  | some x =>
    cases ho : x.owner with
    | none =>
      have hno : ¬ ∃ x', some x = some x' ∧ x'.owner = some u := by
        rintro ⟨x', hx', ho'⟩; cases hx'; rw [ho] at ho'; cases ho'
      rw [if_neg hno, ctxExit_none s c x h ho]
      show ((if _ then s else s.ctxPauseOne c).task u).ctxs = _
      rw [task_ite_pause]
    | some o =>
      rw [ctxExit_some s c o x h ho]
      show ((if _ then eraseReg s c o else (eraseReg s c o).ctxPauseOne c).task u).ctxs = _
      rw [task_ite_pause, ctxs_eraseReg]
      by_cases hu : u = o
      · subst hu
        rw [if_pos rfl, if_pos ⟨x, rfl, ho⟩]
      · rw [if_neg hu, if_neg]
        rintro ⟨x', hx', ho'⟩
        cases hx'
        rw [ho] at ho'; cases ho'
        exact hu rfl

theorem ctxs_ctxExit_sub (s : State) (c u c' : Nat) (h : c' ∈ ((s.ctxExit c).task u).ctxs) : c' ∈ (s.task u).ctxs := by
  rw [ctxs_ctxExit] at h
  split at h
  · exact List.mem_of_mem_erase h
  · exact h

theorem ctxs_ctxExit_nodup (s : State) (c u : Nat) (h : (s.task u).ctxs.Nodup) : ((s.ctxExit c).task u).ctxs.Nodup := by
  rw [ctxs_ctxExit]
  split
  · exact h.erase c
  · exact h

theorem ctxs_ctxExit_self (s : State) (c o : Nat) (x : CtxSt) (hx : s.ctxs[c]? = some x) (ho : x.owner = some o)
    (hn : (s.task o).ctxs.Nodup) : c ∉ ((s.ctxExit c).task o).ctxs := by
  rw [ctxs_ctxExit, if_pos ⟨x, hx, ho⟩]
  intro hm
  exact (hn.mem_erase_iff.1 hm).1 rfl

/-! ### the fold of `exitAll` -/

theorem ko_foldExit (l : List (Nat × Body)) : ∀ (s : State) (c' : Nat),
    ((l.foldl (fun s p => s.ctxExit p.1) s).ctxs[c']?).map ko = (s.ctxs[c']?).map ko := by
  induction l with
  | nil => intro s c'; rfl
  | cons p l ih => intro s c'; rw [List.foldl_cons, ih, ko_ctxExit]

theorem ctxs_foldExit_sub (l : List (Nat × Body)) : ∀ (s : State) (u c' : Nat),
    c' ∈ ((l.foldl (fun s p => s.ctxExit p.1) s).task u).ctxs → c' ∈ (s.task u).ctxs := by
  induction l with
  | nil => intro s u c' h; exact h
  | cons p l ih => intro s u c' h; rw [List.foldl_cons] at h; exact ctxs_ctxExit_sub s p.1 u c' (ih _ u c' h)

theorem ctxs_foldExit_nodup (l : List (Nat × Body)) : ∀ (s : State) (u : Nat), (s.task u).ctxs.Nodup →
    ((l.foldl (fun s p => s.ctxExit p.1) s).task u).ctxs.Nodup := by
  induction l with
  | nil => intro s u h; exact h
  | cons p l ih => intro s u h; rw [List.foldl_cons]; exact ih _ u (ctxs_ctxExit_nodup s p.1 u h)

/-- the contexts of the blocks that were left and that belong to `o` are not registered with `o` any more -/
theorem ctxs_foldExit_gone (o : Nat) (l : List (Nat × Body)) : ∀ (s : State),
    (∀ p ∈ l, ∃ x, s.ctxs[p.1]? = some x ∧ x.owner = some o) → (s.task o).ctxs.Nodup →
    ∀ p ∈ l, p.1 ∉ ((l.foldl (fun s p => s.ctxExit p.1) s).task o).ctxs := by
  induction l with
  | nil => intro s _ _ p hp; cases hp
  | cons q l ih =>
    intro s hown hn p hp
    rw [List.foldl_cons]
    obtain ⟨x, hx, ho⟩ := hown q (by simp)
    rcases List.mem_cons.1 hp with rfl | hp
    · intro hm
      exact ctxs_ctxExit_self s p.1 o x hx ho hn (ctxs_foldExit_sub l _ o _ hm)
    · refine ih (s.ctxExit q.1) ?_ (ctxs_ctxExit_nodup s q.1 o hn) p hp
      intro p' hp'
      obtain ⟨x', hx', ho'⟩ := hown p' (by simp [hp'])
      have := ko_ctxExit s q.1 p'.1
      rw [hx'] at this
      cases hy : (s.ctxExit q.1).ctxs[p'.1]? with
      | none => rw [hy] at this; cases this
      | some y =>
        rw [hy] at this
        simp only [Option.map_some, Option.some.injEq, ko, Prod.mk.injEq] at this
        exact ⟨y, rfl, by rw [this.2]; exact ho'⟩

theorem task_exitAll (s : State) (t u : Nat) :
    ((s.exitAll t).task u).ctxs = (((s.task t).conts.foldl (fun s p => s.ctxExit p.1) s).task u).ctxs := by
  unfold State.exitAll
  exact task_updTask_field _ t u _ (·.ctxs) (fun _ => rfl)

theorem conts_exitAll (s : State) (t u : Nat) :
    ((s.exitAll t).task u).conts = if u = t ∧ t < s.futs.length then [] else (s.task u).conts := by
  unfold State.exitAll
  rw [task_updTask]
  have hlen : ((s.task t).conts.foldl (fun s p => s.ctxExit p.1) s).futs.length = s.futs.length := by
    have := (P12.hp_foldExit (s.task t).conts s)
    have h2 : ∀ (l : List (Nat × Body)) (x : State), (l.foldl (fun s p => s.ctxExit p.1) x).futs.length = x.futs.length := by
      intro l
      induction l with
      | nil => intro x; rfl
      | cons p l ih =>
        intro x
        rw [List.foldl_cons, ih]
        cases h : x.ctxs[p.1]? with
        | none => rw [ctxExit_missing x p.1 h]; show (x.ctxPauseOne p.1).futs.length = _; rw [(flagOp_pause x p.1).futs]
        | some y =>
          cases ho : y.owner with
          | none =>
            rw [ctxExit_none x p.1 y h ho]
            show (if _ then x else x.ctxPauseOne p.1).futs.length = _
            split
            · rfl
            · rw [(flagOp_pause x p.1).futs]
          | some o =>
            rw [ctxExit_some x p.1 o y h ho]
            show (if _ then eraseReg x p.1 o else (eraseReg x p.1 o).ctxPauseOne p.1).futs.length = _
            split
            · simp [eraseReg]
            · rw [(flagOp_pause _ p.1).futs]; simp [eraseReg]
    exact h2 _ s
  rw [hlen]
  split
  · rfl
  · rw [conts_foldExit]

end AsynqModel.Core.P16
