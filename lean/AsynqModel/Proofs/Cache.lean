import AsynqModel.Lib.Cache
/-! helper lemmas for C13: key construction vs. Python's binding; qcore's LRUCache vs. the reference cache;
    the three simulation relations (observer state ~ model state) -/
namespace AsynqModel.Cache

/-! ## keys -/

theorem fillRest_eq_bindRest (kwargs dflts : List (Name × Nat)) (names : List Name) :
    fillRest kwargs dflts names = bindRest kwargs dflts names := by
  induction names with
  | nil => rfl
  | cons n ns ih =>
    simp only [fillRest, bindRest, ih]
    cases hd : dflts.lookup n <;> cases hk : kwargs.lookup n <;> simp

theorem sortKw_nil : sortKw [] = [] := rfl

theorem getArgsTuple_of_bind (pos kwonly : List Name) (dflts : List (Name × Nat)) (c : Call) (b : List Nat)
    (h : bind pos kwonly dflts c = some b) :
    getArgsTuple c.args c.kwargs (pos ++ kwonly) dflts = some (b.map .val) := by
  unfold bind at h
  split at h
  · contradiction
  · rename_i h1
    split at h
    · contradiction
    · rename_i h2
      split at h
      · contradiction
      · cases hb : bindRest c.kwargs dflts (List.drop c.args.length pos ++ kwonly) with
        | none => simp [hb] at h
        | some vs =>
          simp [hb] at h
          subst h
          have hdrop : (pos ++ kwonly).drop c.args.length = pos.drop c.args.length ++ kwonly :=
            List.drop_append_of_le_length (by omega)
          have hfil : (c.kwargs.filter fun p => !(pos ++ kwonly).contains p.1) = [] := by
            rw [List.filter_eq_nil_iff]
            intro p hp
            simp only [List.any_eq_true, not_exists, not_and] at h2
            have := h2 p hp
            simpa using this
          unfold getArgsTuple
          rw [hdrop, fillRest_eq_bindRest, hb]
          simp only []
          rw [hfil]
          simp [sortKw]


/-! ## binding with `*rest` -/

theorem bindV_eq_bind (v : Bool) (pos kwonly : List Name) (dflts : List (Name × Nat)) (c : Call)
    (h : v = false ∨ c.args.length ≤ pos.length) : bindV v pos kwonly dflts c = bind pos kwonly dflts c := by
  unfold bindV bind
  rcases h with h | h
  · subst h
    by_cases h1 : pos.length < c.args.length
    · simp [h1]
    · have h2 : c.args.take pos.length = c.args := List.take_of_length_le (by omega)
      have h3 : c.args.drop pos.length = [] := List.drop_of_length_le (by omega)
      simp [h1, h2, h3]
  · have h1 : ¬ pos.length < c.args.length := by omega
    have h2 : c.args.take pos.length = c.args := List.take_of_length_le h
    have h3 : c.args.drop pos.length = [] := List.drop_of_length_le h
    simp [h1, h2, h3]

/-- a call with an unexpected keyword cannot be bound, with or without `*rest` -/
theorem bindV_unexpected (v : Bool) (pos kwonly : List Name) (dflts : List (Name × Nat)) (c : Call)
    (h : c.kwargs.any (fun p => !(pos ++ kwonly).contains p.1) = true) : bindV v pos kwonly dflts c = none := by
  unfold bindV
  split
  · rfl
  · rfl

/-- binding to a function with `*rest` = binding the named part of the call, then the overflow -/
theorem bindV_true_eq (pos kwonly : List Name) (dflts : List (Name × Nat)) (c : Call) :
    bindV true pos kwonly dflts c =
      (bind pos kwonly dflts ⟨c.args.take pos.length, c.kwargs⟩).map (· ++ c.args.drop pos.length) := by
  unfold bindV bind
  have hlen : (c.args.take pos.length).length = min pos.length c.args.length := List.length_take
  have ht : pos.take (min pos.length c.args.length) = pos.take c.args.length := by
    by_cases h : pos.length ≤ c.args.length
    · rw [Nat.min_eq_left h, List.take_of_length_le h, List.take_of_length_le (Nat.le_refl _)]
    · rw [Nat.min_eq_right (by omega)]
  have hd : pos.drop (min pos.length c.args.length) = pos.drop c.args.length := by
    by_cases h : pos.length ≤ c.args.length
    · rw [Nat.min_eq_left h, List.drop_of_length_le h, List.drop_of_length_le (Nat.le_refl _)]
    · rw [Nat.min_eq_right (by omega)]
  have h1 : ¬ pos.length < min pos.length c.args.length := by omega
  simp only [Bool.not_true, Bool.false_and, Bool.false_eq_true, if_false, hlen, ht, hd, h1]
  split
  · rfl
  · split
    · rfl
    · cases bindRest c.kwargs dflts (List.drop c.args.length pos ++ kwonly) <;> simp

theorem hasPair_append (a b : Key) : hasPair (a ++ b) = (hasPair a || hasPair b) := by
  simp [hasPair, List.any_append]

theorem hasPair_map_val' (b : List Nat) : hasPair (b.map .val) = false := by
  induction b with
  | nil => rfl
  | cons x xs ih => simp [hasPair]

/-- the REPAIRED key is the normalised argument tuple for EVERY valid call, with or without `*rest` -/
theorem argsKey_of_bindV (s : Sig) (pos : List Name) (c : Call) (b : List Nat)
    (h : bindV s.varargs pos s.kwonly (kwargsDefaults s) c = some b) : argsKey s pos c = some (b.map .val) := by
  unfold argsKey
  cases hv : s.varargs with
  | false =>
    rw [hv, bindV_eq_bind false _ _ _ c (Or.inl rfl)] at h
    simpa using getArgsTuple_of_bind pos s.kwonly (kwargsDefaults s) c b h
  | true =>
    rw [hv, bindV_true_eq] at h
    cases hb : bind pos s.kwonly (kwargsDefaults s) ⟨c.args.take pos.length, c.kwargs⟩ with
    | none => simp [hb] at h
    | some b' =>
      simp [hb] at h
      subst h
      have := getArgsTuple_of_bind pos s.kwonly (kwargsDefaults s) ⟨c.args.take pos.length, c.kwargs⟩ b' hb
      simp only [] at this
      simp [this]

/-! ## association lists / LRUCache -/

theorem lookup_none_forall {k : Key} {items : List (Key × Val)} (h : items.lookup k = none) :
    ∀ p ∈ items, p.1 ≠ k := by
  induction items with
  | nil => simp
  | cons q qs ih =>
    obtain ⟨a, b⟩ := q
    simp only [List.lookup] at h
    split at h
    · contradiction
    · rename_i hne
      intro p hp
      cases hp with
      | head => intro e; subst e; simp at hne
      | tail _ hp => exact ih h p hp

theorem del_of_lookup_none {k : Key} {items : List (Key × Val)} (h : items.lookup k = none) : del k items = items := by
  unfold del
  rw [List.filter_eq_self]
  intro p hp
  have := lookup_none_forall h p hp
  simpa using this

theorem lookup_some_mem {k : Key} {v : Val} {items : List (Key × Val)} (h : items.lookup k = some v) :
    (k, v) ∈ items := by
  induction items with
  | nil => simp at h
  | cons q qs ih =>
    obtain ⟨a, b⟩ := q
    simp only [List.lookup] at h
    split at h
    · rename_i heq
      have : k = a := by simpa using heq
      subst this
      injection h with h; subst h
      exact List.mem_cons_self
    · exact List.mem_cons_of_mem _ (ih h)

theorem del_length_lt {k : Key} {v : Val} {items : List (Key × Val)} (h : items.lookup k = some v) :
    (del k items).length < items.length := by
  unfold del
  apply List.length_filter_lt_length_iff_exists.mpr
  exact ⟨(k, v), lookup_some_mem h, by simp⟩

def KeysNodup (items : List (Key × Val)) : Prop := (items.map (·.1)).Nodup

theorem keysNodup_del_append {k : Key} {v : Val} {items : List (Key × Val)} (h : KeysNodup items) :
    KeysNodup (del k items ++ [(k, v)]) := by
  unfold KeysNodup at *
  rw [List.map_append, List.nodup_append]
  refine ⟨?_, by simp, ?_⟩
  · exact List.Nodup.sublist (List.Sublist.map _ List.filter_sublist) h
  · intro a ha b hb
    simp at hb
    subst hb
    simp only [del, List.mem_map, List.mem_filter] at ha
    obtain ⟨p, ⟨_, hp⟩, rfl⟩ := ha
    simpa using hp

theorem keysNodup_append_new {k : Key} {v : Val} {items : List (Key × Val)} (h : KeysNodup items)
    (hk : items.lookup k = none) : KeysNodup (items ++ [(k, v)]) := by
  have := keysNodup_del_append (k := k) (v := v) h
  rwa [del_of_lookup_none hk] at this

theorem keysNodup_drop {n : Nat} {items : List (Key × Val)} (h : KeysNodup items) : KeysNodup (items.drop n) := by
  unfold KeysNodup at *
  exact List.Nodup.sublist (List.Sublist.map _ (List.drop_sublist _ _)) h

theorem lookup_drop_none {k : Key} {n : Nat} {items : List (Key × Val)} (h : items.lookup k = none) :
    (items.drop n).lookup k = none := by
  cases hl : (items.drop n).lookup k with
  | none => rfl
  | some v =>
    have hm := List.mem_of_mem_drop (lookup_some_mem hl)
    exact absurd rfl (lookup_none_forall h _ hm)

/-! ## alru_cache: the observer simulates the model -/

namespace Alru

structure Rel (cap : Nat) (w : Watch) (st : St) : Prop where
  entries : w.entries = st.cache.items
  runs : w.runs = st.runs
  capEq : st.cache.cap = cap
  nodup : KeysNodup st.cache.items
  len : st.cache.items.length ≤ cap

theorem rel_init (cap : Nat) : Rel cap { entries := [], runs := 0 } (init cap) :=
  ⟨rfl, rfl, rfl, by simp [KeysNodup, init], by simp [init]⟩

/-- storing a new key: qcore's `__setitem__` does what the reference `refInsert` does -/
theorem setItem_new {cap : Nat} (hcap : 1 ≤ cap) {c : LRU} (hc : c.cap = cap) (hlen : c.items.length ≤ cap)
    {k : Key} (v : Val) (hk : c.items.lookup k = none) :
    (c.setItem k v).items = refInsert cap k v c.items ∧ (c.setItem k v).cap = cap := by
  have hfil : (c.items.filter fun p => p.1 != k) = c.items := del_of_lookup_none hk
  unfold LRU.setItem refInsert refTouch
  simp only [hk, Option.isSome_none, Bool.false_eq_true, if_false, hfil, List.length_append, List.length_cons,
    List.length_nil, hc]
  by_cases hfull : c.items.length = cap
  · simp only [hfull, beq_self_eq_true, if_true, and_true]
    have : cap + (0 + 1) - cap = 1 := by omega
    rw [this]
    cases hi : c.items with
    | nil => simp [hi] at hfull; omega
    | cons a l => simp
  · have hb : (c.items.length == cap) = false := by simpa using hfull
    simp only [hb, Bool.false_eq_true, if_false, and_true]
    have : c.items.length + (0 + 1) - cap = 0 := by omega
    rw [this]; simp

theorem setItem_new_inv {cap : Nat} (hcap : 1 ≤ cap) {c : LRU} (hc : c.cap = cap) (hlen : c.items.length ≤ cap)
    (hnd : KeysNodup c.items) {k : Key} (v : Val) (hk : c.items.lookup k = none) :
    KeysNodup (c.setItem k v).items ∧ (c.setItem k v).items.length ≤ cap := by
  unfold LRU.setItem
  simp only [hk, Option.isSome_none, Bool.false_eq_true, if_false, hc]
  by_cases hfull : c.items.length = cap
  · simp only [hfull, beq_self_eq_true, if_true]
    refine ⟨keysNodup_append_new (keysNodup_drop hnd) (lookup_drop_none hk), ?_⟩
    simp; omega
  · have hb : (c.items.length == cap) = false := by simpa using hfull
    simp only [hb, Bool.false_eq_true, if_false]
    refine ⟨keysNodup_append_new hnd hk, ?_⟩
    simp; omega

theorem step_key_error {mk : Call → Option Key} {bd : Call → Option (List Nat)} {st : St} {op : Op}
    (h : mk op.c = none) : step mk bd st op = (st, .raisedType) := by
  simp [step, h]

theorem step_hit {mk : Call → Option Key} {bd : Call → Option (List Nat)} {st : St} {op : Op} {k : Key} {v : Val}
    (h : mk op.c = some k) (hl : st.cache.items.lookup k = some v) :
    step mk bd st op = ({ st with cache := { st.cache with items := del k st.cache.items ++ [(k, v)] } }, .ok v) := by
  simp [step, h, LRU.getItem, hl]

theorem step_bind_error {mk : Call → Option Key} {bd : Call → Option (List Nat)} {st : St} {op : Op} {k : Key}
    (h : mk op.c = some k) (hl : st.cache.items.lookup k = none) (hb : bd op.c = none) :
    step mk bd st op = (st, .raisedType) := by
  simp [step, h, LRU.getItem, hl, hb]

theorem step_raise {mk : Call → Option Key} {bd : Call → Option (List Nat)} {st : St} {op : Op} {k : Key} {b : List Nat}
    (h : mk op.c = some k) (hl : st.cache.items.lookup k = none) (hb : bd op.c = some b) (hr : op.raises = true) :
    step mk bd st op = ({ st with runs := st.runs + 1 }, .raisedUser (st.runs + 1)) := by
  simp [step, h, LRU.getItem, hl, hb, hr]

theorem step_store {mk : Call → Option Key} {bd : Call → Option (List Nat)} {st : St} {op : Op} {k : Key} {b : List Nat}
    (h : mk op.c = some k) (hl : st.cache.items.lookup k = none) (hb : bd op.c = some b) (hr : op.raises = false) :
    step mk bd st op =
      ({ cache := st.cache.setItem k ⟨st.runs + 1, b⟩, runs := st.runs + 1 }, .ok ⟨st.runs + 1, b⟩) := by
  simp [step, h, LRU.getItem, hl, hb, hr]

theorem rel_step (mk rk : Call → Option Key) (bd : Call → Option (List Nat)) (cap : Nat) (hcap : 1 ≤ cap)
    (w : Watch) (st : St) (op : Op) (h : Rel cap w st) (hk : mk op.c = rk op.c) :
    ∃ w', watchStep rk bd cap w op (observe mk bd st op).2 = .ok w' ∧ Rel cap w' (observe mk bd st op).1 := by
  obtain ⟨he, hr, hc, hnd, hlen⟩ := h
  obtain ⟨we, wr⟩ := w
  simp only at he hr
  subst he hr
  unfold observe watchStep
  rw [← hk]
  cases hmk : mk op.c with
  | none =>
    rw [step_key_error hmk]
    exact ⟨⟨st.cache.items, st.runs⟩, by simp [malformed], ⟨rfl, rfl, hc, hnd, hlen⟩⟩
  | some k =>
    cases hl : st.cache.items.lookup k with
    | some v =>
      rw [step_hit hmk hl]
      refine ⟨⟨refTouch k v st.cache.items, st.runs⟩, by simp [hl], ⟨rfl, rfl, hc, keysNodup_del_append hnd, ?_⟩⟩
      have := del_length_lt hl
      simp; omega
    | none =>
      cases hb : bd op.c with
      | none =>
        rw [step_bind_error hmk hl hb]
        exact ⟨⟨st.cache.items, st.runs⟩, by simp [malformed, hl], ⟨rfl, rfl, hc, hnd, hlen⟩⟩
      | some b =>
        cases hra : op.raises with
        | true =>
          rw [step_raise hmk hl hb hra]
          exact ⟨⟨st.cache.items, st.runs + 1⟩, by simp [hl], ⟨rfl, rfl, hc, hnd, hlen⟩⟩
        | false =>
          rw [step_store hmk hl hb hra]
          have h1 := setItem_new hcap hc hlen ⟨st.runs + 1, b⟩ hl
          have h2 := setItem_new_inv hcap hc hlen hnd ⟨st.runs + 1, b⟩ hl
          exact ⟨⟨refInsert cap k ⟨st.runs + 1, b⟩ st.cache.items, st.runs + 1⟩, by simp [hl], ⟨h1.1.symm, rfl, h1.2, h2.1, h2.2⟩⟩

theorem watchRun_ok (mk rk : Call → Option Key) (bd : Call → Option (List Nat)) (cap : Nat) (hcap : 1 ≤ cap)
    (ops : List Op) (w : Watch) (st : St) (h : Rel cap w st) (hk : ∀ op ∈ ops, mk op.c = rk op.c) :
    ∃ w', watchRun rk bd cap w ops (run mk bd st ops) = .ok w' := by
  induction ops generalizing w st with
  | nil => exact ⟨w, rfl⟩
  | cons op ops ih =>
    obtain ⟨w', h1, h2⟩ := rel_step mk rk bd cap hcap w st op h (hk op List.mem_cons_self)
    simp only [run, watchRun, h1]
    exact ih _ _ h2 (fun o ho => hk o (List.mem_cons_of_mem _ ho))

/-- the invariant of the cache alone, for every history -/
theorem inv_final (mk : Call → Option Key) (bd : Call → Option (List Nat)) (cap : Nat) (hcap : 1 ≤ cap)
    (ops : List Op) (w : Watch) (st : St) (h : Rel cap w st) :
    ∃ w', Rel cap w' (finalState mk bd st ops) := by
  induction ops generalizing w st with
  | nil => exact ⟨w, h⟩
  | cons op ops ih =>
    obtain ⟨w', _, h2⟩ := rel_step mk mk bd cap hcap w st op h rfl
    exact ih _ _ h2

end Alru

/-! ## alru_cache: a recently used key survives -/

namespace Alru

theorem del_append (k : Key) (a b : List (Key × Val)) : del k (a ++ b) = del k a ++ del k b := by
  simp [del]

theorem del_cons_ne {k k2 : Key} (v : Val) (l : List (Key × Val)) (h : k ≠ k2) :
    del k2 ((k, v) :: l) = (k, v) :: del k2 l := by
  simp [del, h]

theorem del_length_le (k : Key) (l : List (Key × Val)) : (del k l).length ≤ l.length := by
  unfold del; exact List.length_filter_le _ _

theorem lookup_mid_of_nodup {k : Key} {v : Val} (pre post : List (Key × Val))
    (h : KeysNodup (pre ++ (k, v) :: post)) : (pre ++ (k, v) :: post).lookup k = some v := by
  induction pre with
  | nil => simp
  | cons p pre ih =>
    obtain ⟨a, b⟩ := p
    have hne : k ≠ a := by
      intro e; subst e
      simp [KeysNodup] at h
    have hbeq : (k == a) = false := by simpa using hne
    have h' : KeysNodup (pre ++ (k, v) :: post) := by
      simp only [KeysNodup, List.cons_append, List.map_cons, List.nodup_cons] at h ⊢
      exact h.2
    simp only [List.cons_append, List.lookup, hbeq]
    exact ih h'

/-- `k ↦ v` sits in the cache with at most `n` entries used more recently -/
def Within (k : Key) (v : Val) (n : Nat) (items : List (Key × Val)) : Prop :=
  ∃ pre post, items = pre ++ (k, v) :: post ∧ post.length ≤ n

theorem within_step (mk : Call → Option Key) (bd : Call → Option (List Nat)) (st : St) (op : Op) (k : Key) (v : Val)
    (n : Nat) (hnd : KeysNodup st.cache.items) (_hlen : st.cache.items.length ≤ st.cache.cap) (hn : n + 2 ≤ st.cache.cap)
    (h : Within k v n st.cache.items) :
    Within k v (n + 1) (step mk bd st op).1.cache.items := by
  obtain ⟨pre, post, hi, hp⟩ := h
  cases hmk : mk op.c with
  | none => rw [step_key_error hmk]; exact ⟨pre, post, hi, by omega⟩
  | some k2 =>
    cases hl : st.cache.items.lookup k2 with
    | some v2 =>
      rw [step_hit hmk hl]
      simp only []
      by_cases hkk : k = k2
      · subst hkk
        have hm := lookup_some_mem hl
        -- the hit is on k itself: whatever value is stored under k is re-inserted at the end
        refine ⟨del k st.cache.items, [], ?_, by simp⟩
        have : v2 = v := by
          rw [hi] at hl hnd
          rw [lookup_mid_of_nodup pre post hnd] at hl
          exact (Option.some.inj hl).symm
        rw [this]
      · refine ⟨del k2 pre, del k2 post ++ [(k2, v2)], ?_, ?_⟩
        · rw [hi, del_append, del_cons_ne v post hkk]; simp
        · have := del_length_le k2 post
          simp; omega
    | none =>
      cases hb : bd op.c with
      | none => rw [step_bind_error hmk hl hb]; exact ⟨pre, post, hi, by omega⟩
      | some b =>
        cases hra : op.raises with
        | true => rw [step_raise hmk hl hb hra]; exact ⟨pre, post, hi, by omega⟩
        | false =>
          rw [step_store hmk hl hb hra]
          simp only [LRU.setItem, hl, Option.isSome_none, Bool.false_eq_true, if_false]
          by_cases hfull : st.cache.items.length = st.cache.cap
          · simp only [hfull, beq_self_eq_true, if_true]
            cases pre with
            | nil =>
              rw [hi] at hfull
              simp at hfull
              omega
            | cons p pre' =>
              refine ⟨pre', post ++ [(k2, ⟨st.runs + 1, b⟩)], ?_, by simp; omega⟩
              rw [hi]; simp
          · have hb' : (st.cache.items.length == st.cache.cap) = false := by simpa using hfull
            simp only [hb', Bool.false_eq_true, if_false]
            refine ⟨pre, post ++ [(k2, ⟨st.runs + 1, b⟩)], ?_, by simp; omega⟩
            rw [hi]; simp

theorem within_run (mk : Call → Option Key) (bd : Call → Option (List Nat)) (cap : Nat) (k : Key) (v : Val)
    (ops : List Op) (w : Watch) (st : St) (n : Nat) (hrel : Rel cap w st) (hcap : 1 ≤ cap)
    (h : Within k v n st.cache.items) (hn : n + ops.length + 1 ≤ cap) :
    (finalState mk bd st ops).cache.items.lookup k = some v := by
  induction ops generalizing w st n with
  | nil =>
    obtain ⟨pre, post, hi, _⟩ := h
    simp only [finalState]
    rw [hi]
    exact lookup_mid_of_nodup pre post (hi ▸ hrel.nodup)
  | cons op ops ih =>
    simp only [List.length_cons] at hn
    obtain ⟨w', _, h2⟩ := rel_step mk mk bd cap hcap w st op hrel rfl
    have hs := within_step mk bd st op k v n hrel.nodup (by rw [hrel.capEq]; exact hrel.len) (by rw [hrel.capEq]; omega) h
    simp only [finalState]
    exact ih w' _ (n + 1) h2 (by simpa [observe] using hs) (by omega)

end Alru


/-! ## the partial theorems about alru_cache's default key -/

theorem map_val_injective {a b : List Nat} (h : a.map KeyElem.val = b.map KeyElem.val) : a = b := by
  induction a generalizing b with
  | nil => cases b <;> simp_all
  | cons x xs ih =>
    cases b with
    | nil => simp at h
    | cons y ys =>
      simp only [List.map_cons, List.cons.injEq, KeyElem.val.injEq] at h
      rw [h.1, ih h.2]

namespace Alru

theorem finalState_append (mk : Call → Option Key) (bd : Call → Option (List Nat)) (st : St) (a b : List Op) :
    finalState mk bd st (a ++ b) = finalState mk bd (finalState mk bd st a) b := by
  induction a generalizing st with
  | nil => rfl
  | cons op a ih => simp only [List.cons_append, finalState, ih]

/-- a call on key `k` that returns a value leaves `k ↦ that value` as the most recently used entry -/
theorem within_after_ok (mk : Call → Option Key) (bd : Call → Option (List Nat)) (st : St) (op : Op) (k : Key) (v : Val)
    (hk : mk op.c = some k) (hres : (step mk bd st op).2 = .ok v) :
    Within k v 0 (step mk bd st op).1.cache.items := by
  cases hl : st.cache.items.lookup k with
  | some v2 =>
    rw [step_hit hk hl] at hres ⊢
    simp only [Res.ok.injEq] at hres
    subst hres
    exact ⟨_, [], rfl, Nat.le_refl _⟩
  | none =>
    cases hb : bd op.c with
    | none => rw [step_bind_error hk hl hb] at hres; simp at hres
    | some b =>
      cases hra : op.raises with
      | true => rw [step_raise hk hl hb hra] at hres; simp at hres
      | false =>
        rw [step_store hk hl hb hra] at hres ⊢
        simp only [Res.ok.injEq] at hres
        subst hres
        simp only [LRU.setItem, hl, Option.isSome_none, Bool.false_eq_true, if_false]
        split
        · exact ⟨_, [], rfl, Nat.le_refl _⟩
        · exact ⟨_, [], rfl, Nat.le_refl _⟩

end Alru

/-! ## acached_per_instance -/

namespace PerInst

abbrev IMap := List (Nat × List (Key × Val))

theorem lookup_cons_eq (j a : Nat) (b : List (Key × Val)) (ps : IMap) :
    List.lookup j ((a, b) :: ps) = if j = a then some b else List.lookup j ps := by
  simp only [List.lookup]
  by_cases h : j = a
  · subst h; simp
  · have : (j == a) = false := by simpa using h
    simp [this, h]

theorem lookup_isSome_eq_contains (l : IMap) (i : Nat) :
    (l.lookup i).isSome = (l.map (·.1)).contains i := by
  induction l with
  | nil => rfl
  | cons p ps ih =>
    obtain ⟨a, b⟩ := p
    rw [lookup_cons_eq]
    by_cases h : i = a
    · subst h; simp
    · simp [h, ih]

theorem lookup_append_getD (l : IMap) (i j : Nat) :
    ((l ++ [(i, [])]).lookup j).getD [] = (l.lookup j).getD [] := by
  induction l with
  | nil => simp only [List.nil_append, lookup_cons_eq]; by_cases h : j = i <;> simp [h]
  | cons p ps ih =>
    obtain ⟨a, b⟩ := p
    simp only [List.cons_append, lookup_cons_eq]
    by_cases h : j = a <;> simp [h, ih]

theorem lookup_append_self (l : IMap) (i : Nat) (h : l.lookup i = none) :
    (l ++ [(i, [])]).lookup i = some [] := by
  induction l with
  | nil => simp
  | cons p ps ih =>
    obtain ⟨a, b⟩ := p
    simp only [List.cons_append, lookup_cons_eq] at h ⊢
    by_cases hh : i = a
    · simp [hh] at h
    · simp only [hh, if_false] at h ⊢
      exact ih h

theorem lookup_store (l : IMap) (i j : Nat) (k : Key) (v : Val) :
    (store l i k v).lookup j = if j = i then (l.lookup i).map ((k, v) :: ·) else l.lookup j := by
  induction l with
  | nil => simp [store]
  | cons p ps ih =>
    obtain ⟨a, b⟩ := p
    have hs : store ((a, b) :: ps) i k v = (if a = i then (a, (k, v) :: b) else (a, b)) :: store ps i k v := by
      simp [store]
    rw [hs]
    by_cases hai : a = i
    · subst hai
      simp only [if_true, lookup_cons_eq, ih]
      by_cases hj : j = a
      · subst hj; simp
      · simp [hj]
    · simp only [hai, if_false, lookup_cons_eq, ih]
      by_cases hj : j = a
      · subst hj; simp [hai]
      · simp only [hj, if_false]
        by_cases hji : j = i
        · subst hji
          have : ¬ j = a := hj
          simp [this]
        · simp [hji]

theorem lookup_filter_ne (l : IMap) (i j : Nat) :
    (l.filter fun p => p.1 != i).lookup j = if j = i then none else l.lookup j := by
  induction l with
  | nil => simp
  | cons p ps ih =>
    obtain ⟨a, b⟩ := p
    simp only [List.filter_cons]
    by_cases hai : a = i
    · subst hai
      simp only [bne_self_eq_false, Bool.false_eq_true, if_false, ih, lookup_cons_eq]
      by_cases hj : j = a <;> simp [hj]
    · have : (a != i) = true := by simpa using hai
      simp only [this, if_true, lookup_cons_eq, ih]
      by_cases hj : j = a
      · subst hj; simp [hai]
      · simp [hj]

theorem map_fst_store (l : IMap) (i : Nat) (k : Key) (v : Val) : (store l i k v).map (·.1) = l.map (·.1) := by
  unfold store
  rw [List.map_map]
  apply List.map_congr_left
  intro p _
  by_cases h : p.1 = i <;> simp [h]

theorem map_fst_filter (l : IMap) (i : Nat) :
    (l.filter fun p => p.1 != i).map (·.1) = (l.map (·.1)).filter (· != i) := by
  induction l with
  | nil => rfl
  | cons p ps ih =>
    simp only [List.filter_cons, List.map_cons]
    by_cases h : p.1 = i
    · simp [h, ih]
    · have : (p.1 != i) = true := by simpa using h
      simp [this, ih]

end PerInst

namespace PerInst

/-- `if instance_key not in cache: cache[instance_key] = (ref, {})` -/
def ensure (l : IMap) (i : Nat) : IMap := if (l.lookup i).isSome then l else l ++ [(i, [])]

theorem ensure_getD (l : IMap) (i j : Nat) : ((ensure l i).lookup j).getD [] = (l.lookup j).getD [] := by
  unfold ensure; split
  · rfl
  · exact lookup_append_getD l i j

theorem ensure_self (l : IMap) (i : Nat) : (ensure l i).lookup i = some ((l.lookup i).getD []) := by
  unfold ensure
  cases h : l.lookup i with
  | some m => simp [h]
  | none => simp [lookup_append_self l i h]

theorem ensure_keys (l : IMap) (i : Nat) :
    (ensure l i).map (·.1) = if (l.map (·.1)).contains i then l.map (·.1) else l.map (·.1) ++ [i] := by
  unfold ensure
  rw [lookup_isSome_eq_contains]
  split <;> simp

/-- `pin`/`zomb`: no cached value refers to its instance, so no entry has outlived its instance -/
structure Rel (w : Watch) (st : St) : Prop where
  ref : ∀ i k, w.ref i k = (cacheOf st i).lookup k
  live : w.live = st.insts.map (·.1)
  runs : w.runs = st.runs
  pin : st.pinned = []
  zomb : st.zombies = 0

theorem rel_init : Rel watchInit init := ⟨fun _ _ => rfl, rfl, rfl, rfl, rfl⟩

/-- `pinned` after a store -/
def pinAfter (st : St) (i : Nat) (sr : Bool) : List Nat :=
  if sr && !st.pinned.contains i then i :: st.pinned else st.pinned

theorem step_call_eq (mk : Call → Option Key) (bd : Call → Option (List Nat)) (st : St) (i : Nat) (c : Call)
    (raises sr : Bool) :
    step mk bd st (.call i c raises sr) =
      (let st1 : St := { st with insts := ensure st.insts i }
       match mk c with
       | none => (st1, .raisedType)
       | some k =>
         match (cacheOf st i).lookup k with
         | some v => (st1, .ok v)
         | none =>
           match bd c with
           | none => (st1, .raisedType)
           | some b =>
             if raises then ({ st1 with runs := st.runs + 1 }, .raisedUser (st.runs + 1))
             else ({ st with insts := store (ensure st.insts i) i k ⟨st.runs + 1, b⟩, pinned := pinAfter st i sr,
                             runs := st.runs + 1 }, .ok ⟨st.runs + 1, b⟩)) := by
  simp only [step, ensure, cacheOf, pinAfter]
  have := ensure_getD st.insts i i
  simp only [ensure] at this
  rw [this]
  rfl

theorem step_drop_eq (mk : Call → Option Key) (bd : Call → Option (List Nat)) (st : St) (i : Nat)
    (h : st.pinned.contains i = false) :
    step mk bd st (.drop i) = ({ st with insts := st.insts.filter fun p => p.1 != i }, .unit) := by
  have hn : ¬ i ∈ st.pinned := by simpa using h
  simp [step, hn]

theorem rel_ensure {w : Watch} {st : St} (h : Rel w st) (i : Nat) :
    Rel { w with live := if w.live.contains i then w.live else w.live ++ [i] } { st with insts := ensure st.insts i } := by
  refine ⟨fun j k => ?_, ?_, h.runs, h.pin, h.zomb⟩
  · simp only [cacheOf, ensure_getD]; exact h.ref j k
  · simp only [ensure_keys, h.live]

theorem ensure_length {w : Watch} {st : St} (h : Rel w st) (i : Nat) :
    (ensure st.insts i).length = (if w.live.contains i then w.live else w.live ++ [i]).length := by
  have := congrArg List.length (ensure_keys st.insts i)
  rw [List.length_map] at this
  rw [this, h.live]

section steps
variable {mk : Call → Option Key} {bd : Call → Option (List Nat)} {st : St} {i : Nat} {c : Call} {raises sr : Bool}

theorem step_key_error (h : mk c = none) :
    step mk bd st (.call i c raises sr) = ({ st with insts := ensure st.insts i }, .raisedType) := by
  rw [step_call_eq]; simp [h]

theorem step_hit {k : Key} {v : Val} (h : mk c = some k) (hl : (cacheOf st i).lookup k = some v) :
    step mk bd st (.call i c raises sr) = ({ st with insts := ensure st.insts i }, .ok v) := by
  rw [step_call_eq]; simp [h, hl]

theorem step_bind_error {k : Key} (h : mk c = some k) (hl : (cacheOf st i).lookup k = none) (hb : bd c = none) :
    step mk bd st (.call i c raises sr) = ({ st with insts := ensure st.insts i }, .raisedType) := by
  rw [step_call_eq]; simp [h, hl, hb]

theorem step_raise {k : Key} {b : List Nat} (h : mk c = some k) (hl : (cacheOf st i).lookup k = none) (hb : bd c = some b) :
    step mk bd st (.call i c true sr) =
      ({ st with insts := ensure st.insts i, runs := st.runs + 1 }, .raisedUser (st.runs + 1)) := by
  rw [step_call_eq]; simp [h, hl, hb]

theorem step_store {k : Key} {b : List Nat} (h : mk c = some k) (hl : (cacheOf st i).lookup k = none) (hb : bd c = some b) :
    step mk bd st (.call i c false sr) =
      ({ st with insts := store (ensure st.insts i) i k ⟨st.runs + 1, b⟩, pinned := pinAfter st i sr,
                 runs := st.runs + 1 }, .ok ⟨st.runs + 1, b⟩) := by
  rw [step_call_eq]; simp [h, hl, hb]

end steps

theorem rel_step (mk rk : Call → Option Key) (bd : Call → Option (List Nat)) (w : Watch) (st : St) (op : Op)
    (h : Rel w st) (hk : ∀ i c r sr, op = .call i c r sr → mk c = rk c ∧ sr = false) :
    ∃ w', watchStep rk bd w op (observe mk bd st op).2 = .ok w' ∧ Rel w' (observe mk bd st op).1 := by
  cases op with
  | drop i =>
    have hnp : st.pinned.contains i = false := by rw [h.pin]; rfl
    refine ⟨{ ref := fun j => if j == i then fun _ => none else w.ref j, live := w.live.filter (· != i), runs := w.runs }, ?_, ?_⟩
    · simp [watchStep, observe, step_drop_eq mk bd st i hnp, h.runs, h.live, h.zomb, ← map_fst_filter]
    · simp only [observe, step_drop_eq mk bd st i hnp]
      refine ⟨fun j k => ?_, ?_, h.runs, h.pin, h.zomb⟩
      · simp only [cacheOf, lookup_filter_ne]
        by_cases hj : j = i
        · simp [hj]
        · have := h.ref j k
          simp [hj, this, cacheOf]
      · simp [h.live, map_fst_filter]
  | call i c raises sr =>
    obtain ⟨hkc, hsr⟩ := hk i c raises sr rfl
    subst hsr
    clear hk
    have hlen := ensure_length h i
    have hre := rel_ensure h i
    have hr := h.runs
    have hz := h.zomb
    cases hmk : mk c with
    | none =>
      refine ⟨{ w with live := if w.live.contains i then w.live else w.live ++ [i] }, ?_, ?_⟩
      · simp [observe, step_key_error hmk, watchStep, ← hkc, hmk, hlen, hr, hz]
      · simpa [observe, step_key_error hmk] using hre
    | some k =>
      have href := h.ref i k
      cases hl : (cacheOf st i).lookup k with
      | some v =>
        refine ⟨{ w with live := if w.live.contains i then w.live else w.live ++ [i] }, ?_, ?_⟩
        · simp [observe, step_hit hmk hl, watchStep, ← hkc, hmk, hlen, hr, href, hl, hz]
        · simpa [observe, step_hit hmk hl] using hre
      | none =>
        cases hb : bd c with
        | none =>
          refine ⟨{ w with live := if w.live.contains i then w.live else w.live ++ [i] }, ?_, ?_⟩
          · simp [observe, step_bind_error hmk hl hb, watchStep, ← hkc, hmk, hlen, hr, href, hl, hb, hz]
          · simpa [observe, step_bind_error hmk hl hb] using hre
        | some b =>
          cases raises with
          | true =>
            refine ⟨{ w with live := if w.live.contains i then w.live else w.live ++ [i], runs := w.runs + 1 }, ?_, ?_⟩
            · simp [observe, step_raise hmk hl hb, watchStep, ← hkc, hmk, hlen, hr, href, hl, hb, hz]
            · simp only [observe, step_raise hmk hl hb]
              exact ⟨hre.ref, hre.live, by simp [hr], h.pin, h.zomb⟩
          | false =>
            refine ⟨{ ref := fun j k' => if j == i && k' == k then some ⟨w.runs + 1, b⟩ else w.ref j k',
                      live := if w.live.contains i then w.live else w.live ++ [i], runs := w.runs + 1 }, ?_, ?_⟩
            · simp [observe, step_store hmk hl hb, watchStep, ← hkc, hmk, hlen, hr, href, hl, hb, store, List.length_map, hz]
            · simp only [observe, step_store hmk hl hb]
              refine ⟨fun j k' => ?_, ?_, by simp [hr], by simp [pinAfter, h.pin], h.zomb⟩
              · simp only [cacheOf, lookup_store]
                by_cases hj : j = i
                · subst hj
                  simp only [ensure_self, if_true, Option.map_some, Option.getD_some, beq_self_eq_true, Bool.true_and]
                  simp only [List.lookup, hr]
                  by_cases hkk : k' = k
                  · subst hkk; simp
                  · have : (k' == k) = false := by simpa using hkk
                    simp only [this, Bool.false_eq_true, if_false]
                    exact h.ref j k'
                · have : (j == i) = false := by simpa using hj
                  simp only [this, Bool.false_and, Bool.false_eq_true, if_false, hj]
                  have := hre.ref j k'
                  simpa [cacheOf] using this
              · simp only [map_fst_store]
                exact hre.live

end PerInst

/-! ## acached_per_instance: calls with an unexpected keyword -/

theorem hasPair_map_val (b : List Nat) : hasPair (b.map .val) = false := by
  induction b with
  | nil => rfl
  | cons x xs ih => simp [hasPair]

theorem insertKw_ne_nil (p : Name × Nat) (l : List (Name × Nat)) : insertKw p l ≠ [] := by
  cases l with
  | nil => simp [insertKw]
  | cons q qs => simp only [insertKw]; split <;> simp

theorem sortKw_ne_nil {l : List (Name × Nat)} (h : l ≠ []) : sortKw l ≠ [] := by
  cases l with
  | nil => contradiction
  | cons p ps => simp only [sortKw, List.foldr_cons]; exact insertKw_ne_nil _ _

/-- a call with an unexpected keyword: Python cannot bind it, and `get_args_tuple` either raises or produces a key
    that carries a `(name, value)` pair -/
theorem unexpected_keyword (pos kwonly : List Name) (dflts : List (Name × Nat)) (c : Call)
    (h : c.kwargs.any (fun p => !(pos ++ kwonly).contains p.1) = true) :
    bind pos kwonly dflts c = none ∧
      (getArgsTuple c.args c.kwargs (pos ++ kwonly) dflts = none ∨
        ∃ k, getArgsTuple c.args c.kwargs (pos ++ kwonly) dflts = some k ∧ hasPair k = true) := by
  constructor
  · unfold bind
    split
    · rfl
    · rfl
  · unfold getArgsTuple
    cases fillRest c.kwargs dflts ((pos ++ kwonly).drop c.args.length) with
    | none => exact Or.inl rfl
    | some vs =>
      right
      refine ⟨_, rfl, ?_⟩
      have hne : (c.kwargs.filter fun p => !(pos ++ kwonly).contains p.1) ≠ [] := by
        intro he
        rw [List.filter_eq_nil_iff] at he
        rw [List.any_eq_true] at h
        obtain ⟨p, hp, hq⟩ := h
        exact he p hp hq
      have hs := sortKw_ne_nil hne
      cases hsk : sortKw (c.kwargs.filter fun p => !(pos ++ kwonly).contains p.1) with
      | nil => exact absurd hsk hs
      | cons q qs => simp [hasPair]

namespace PerInst

def GoodInv (st : St) : Prop := ∀ i k v, (cacheOf st i).lookup k = some v → hasPair k = false

theorem good_init : GoodInv init := by intro i k v h; simp [cacheOf, init] at h

theorem good_step (mk : Call → Option Key) (bd : Call → Option (List Nat)) (st : St) (op : Op)
    (hg : ∀ i c r sr, op = .call i c r sr → ∀ k b, mk c = some k → bd c = some b → hasPair k = false)
    (h : GoodInv st) : GoodInv (step mk bd st op).1 := by
  cases op with
  | drop i =>
    intro j k v hl
    have hc : cacheOf (step mk bd st (.drop i)).1 j = if j = i then [] else cacheOf st j := by
      simp only [step]
      split <;> simp only [cacheOf, lookup_filter_ne] <;> by_cases hj : j = i <;> simp [hj]
    rw [hc] at hl
    by_cases hj : j = i
    · simp [hj] at hl
    · simp only [hj, if_false] at hl
      exact h j k v hl
  | call i c r sr =>
    have he : ∀ st' : St, st'.insts = ensure st.insts i → GoodInv st' := by
      intro st' hs j k v hl
      simp only [cacheOf, hs, ensure_getD] at hl
      exact h j k v hl
    rw [step_call_eq]
    simp only []
    cases hmk : mk c with
    | none => exact he _ rfl
    | some k =>
      simp only []
      cases (cacheOf st i).lookup k with
      | some v => exact he _ rfl
      | none =>
        simp only []
        cases hb : bd c with
        | none => exact he _ rfl
        | some b =>
          cases r with
          | true => exact he _ rfl
          | false =>
            intro j k' v hl
            simp only [cacheOf, lookup_store, Bool.false_eq_true, if_false] at hl
            by_cases hj : j = i
            · subst hj
              simp only [ensure_self, if_true, Option.map_some, Option.getD_some] at hl
              by_cases hkk : k' = k
              · subst hkk; exact hg j c false sr rfl k' b hmk hb
              · have : (k' == k) = false := by simpa using hkk
                simp only [List.lookup, this] at hl
                exact h j k' v hl
            · simp only [hj, if_false, ensure_getD] at hl
              exact h j k' v hl

/-- a call Python cannot bind whose key carries a pair misses every cache and raises TypeError -/
theorem rel_step_bad (mk rk : Call → Option Key) (bd : Call → Option (List Nat)) (w : Watch) (st : St)
    (i : Nat) (c : Call) (r sr : Bool) (k : Key) (h : Rel w st) (hgood : GoodInv st)
    (hrk : rk c = none) (hbd : bd c = none) (hmk : mk c = some k) (hp : hasPair k = true) :
    ∃ w', watchStep rk bd w (.call i c r sr) (observe mk bd st (.call i c r sr)).2 = .ok w' ∧
      Rel w' (observe mk bd st (.call i c r sr)).1 := by
  have hl : (cacheOf st i).lookup k = none := by
    cases hl : (cacheOf st i).lookup k with
    | none => rfl
    | some v => have := hgood i k v hl; rw [hp] at this; contradiction
  have hlen := ensure_length h i
  have hre := rel_ensure h i
  refine ⟨{ w with live := if w.live.contains i then w.live else w.live ++ [i] }, ?_, ?_⟩
  · simp [observe, step_bind_error hmk hl hbd, watchStep, hrk, hlen, h.runs, h.zomb]
  · simpa [observe, step_bind_error hmk hl hbd] using hre

end PerInst

/-- what a call may be for the refinement: the key as written equals the reference key (every valid call; a call
    whose key construction raises), or it cannot be bound and its key carries a leftover keyword -/
def Agree (mk rk : Call → Option Key) (bd : Call → Option (List Nat)) (c : Call) : Prop :=
  (mk c = rk c ∧ ∀ k b, mk c = some k → bd c = some b → hasPair k = false) ∨
    (rk c = none ∧ bd c = none ∧ ∃ k, mk c = some k ∧ hasPair k = true)

namespace PerInst

theorem watchRun_ok' (mk rk : Call → Option Key) (bd : Call → Option (List Nat))
    (ops : List Op) (w : Watch) (st : St) (h : Rel w st) (hgood : GoodInv st)
    (hk : ∀ i c r sr, Op.call i c r sr ∈ ops → Agree mk rk bd c ∧ sr = false) :
    ∃ w', watchRun rk bd w ops (run mk bd st ops) = .ok w' := by
  induction ops generalizing w st with
  | nil => exact ⟨w, rfl⟩
  | cons op ops ih =>
    have hstep : ∃ w', watchStep rk bd w op (observe mk bd st op).2 = .ok w' ∧ Rel w' (observe mk bd st op).1 := by
      cases op with
      | drop i => exact rel_step mk rk bd w st (.drop i) h (fun _ _ _ _ e => by cases e)
      | call i c r sr =>
        obtain ⟨hag, hsr⟩ := hk i c r sr List.mem_cons_self
        rcases hag with ⟨h1, _⟩ | ⟨h1, h2, k, h3, h4⟩
        · exact rel_step mk rk bd w st _ h (fun i' c' r' sr' e => by cases e; exact ⟨h1, hsr⟩)
        · exact rel_step_bad mk rk bd w st i c r sr k h hgood h1 h2 h3 h4
    have hg' : GoodInv (observe mk bd st op).1 := by
      apply good_step mk bd st op _ hgood
      intro i c r sr e k b hmk hb
      subst e
      rcases (hk i c r sr List.mem_cons_self).1 with ⟨_, h2⟩ | ⟨_, h2, _⟩
      · exact h2 k b hmk hb
      · rw [h2] at hb; contradiction
    obtain ⟨w', h1, h2⟩ := hstep
    simp only [run, watchRun, h1]
    exact ih _ _ h2 hg' (fun i c r sr ho => hk i c r sr (List.mem_cons_of_mem _ ho))

end PerInst

/-- the repaired key and an unexpected keyword: the key construction raises, or the key carries a `(name, value)` pair -/
theorem argsKey_unexpected (s : Sig) (pos : List Name) (c : Call)
    (h : c.kwargs.any (fun p => !(pos ++ s.kwonly).contains p.1) = true) :
    argsKey s pos c = none ∨ ∃ k, argsKey s pos c = some k ∧ hasPair k = true := by
  unfold argsKey
  cases hv : s.varargs with
  | false => simpa using (unexpected_keyword pos s.kwonly (kwargsDefaults s) c h).2
  | true =>
    have := (unexpected_keyword pos s.kwonly (kwargsDefaults s) ⟨c.args.take pos.length, c.kwargs⟩ h).2
    simp only [] at this
    rcases this with h2 | ⟨k, h2, h3⟩
    · left; simp [h2]
    · right
      exact ⟨k ++ (c.args.drop pos.length).map .val, by simp [h2], by simp [hasPair_append, h3]⟩

/-- every call that is valid (with or without `*rest`, overflow included), or whose key construction raises, or that
    carries an unexpected keyword agrees with the reference -/
theorem argsKey_agree (s : Sig) (pos : List Name) (c : Call)
    (h : ((bindV s.varargs pos s.kwonly (kwargsDefaults s) c).isSome || (argsKey s pos c).isNone ||
      c.kwargs.any (fun p => !(pos ++ s.kwonly).contains p.1)) = true) :
    Agree (argsKey s pos) (fun c => (bindV s.varargs pos s.kwonly (kwargsDefaults s) c).map (·.map .val))
      (bindV s.varargs pos s.kwonly (kwargsDefaults s)) c := by
  cases hb : bindV s.varargs pos s.kwonly (kwargsDefaults s) c with
  | some b =>
    left
    have hk := argsKey_of_bindV s pos c b hb
    refine ⟨by simp [hb, hk], ?_⟩
    intro k b' hk' _
    rw [hk] at hk'
    injection hk' with hk'
    subst hk'
    exact hasPair_map_val' b
  | none =>
    simp only [hb, Option.isSome_none, Bool.false_or, Bool.or_eq_true, Option.isNone_iff_eq_none] at h
    rcases h with h | h
    · left
      exact ⟨by simp [hb, h], by intro k b hk; rw [h] at hk; contradiction⟩
    · rcases argsKey_unexpected s pos c h with h2 | ⟨k, h2, h3⟩
      · left
        exact ⟨by simp [hb, h2], by intro k b hk; rw [h2] at hk; contradiction⟩
      · right
        exact ⟨by simp [hb], hb, k, h2, h3⟩

theorem perInst_agree (s : Sig) (c : Call) (h : perInstCallOK s c = true) :
    Agree (perInstKey s) (perInstRefKey s) (perInstBind s) c :=
  argsKey_agree s (s.args.drop 1) c h

/-! ## alru_cache with the default key: calls with an unexpected keyword (the same argument as for acached_per_instance) -/

namespace Alru

/-- no stored key carries a leftover keyword: stored keys come from calls Python could bind -/
def GoodInv (st : St) : Prop := ∀ p ∈ st.cache.items, hasPair p.1 = false

theorem good_init (cap : Nat) : GoodInv (init cap) := by intro p hp; simp [init] at hp

theorem good_step (mk : Call → Option Key) (bd : Call → Option (List Nat)) (st : St) (op : Op)
    (hg : ∀ k b, mk op.c = some k → bd op.c = some b → hasPair k = false) (h : GoodInv st) :
    GoodInv (step mk bd st op).1 := by
  cases hmk : mk op.c with
  | none => rw [step_key_error hmk]; exact h
  | some k =>
    cases hl : st.cache.items.lookup k with
    | some v =>
      rw [step_hit hmk hl]
      intro p hp
      simp only [List.mem_append, List.mem_singleton] at hp
      rcases hp with hp | hp
      · exact h p (List.mem_filter.mp hp).1
      · subst hp; exact h _ (lookup_some_mem hl)
    | none =>
      cases hb : bd op.c with
      | none => rw [step_bind_error hmk hl hb]; exact h
      | some b =>
        cases hra : op.raises with
        | true => rw [step_raise hmk hl hb hra]; exact h
        | false =>
          rw [step_store hmk hl hb hra]
          intro p hp
          simp only [LRU.setItem, hl, Option.isSome_none, Bool.false_eq_true, if_false] at hp
          have key : p ∈ st.cache.items ∨ p = (k, ⟨st.runs + 1, b⟩) := by
            split at hp
            · simp only [List.mem_append, List.mem_singleton] at hp
              rcases hp with hp | hp
              · exact Or.inl (List.mem_of_mem_drop hp)
              · exact Or.inr hp
            · simp only [List.mem_append, List.mem_singleton] at hp
              exact hp
          rcases key with hp | hp
          · exact h p hp
          · subst hp; exact hg k b hmk hb

/-- a call Python cannot bind whose key carries a pair misses the cache and raises TypeError -/
theorem rel_step_bad (mk rk : Call → Option Key) (bd : Call → Option (List Nat)) (cap : Nat) (w : Watch) (st : St)
    (op : Op) (k : Key) (h : Rel cap w st) (hgood : GoodInv st)
    (hrk : rk op.c = none) (hbd : bd op.c = none) (hmk : mk op.c = some k) (hp : hasPair k = true) :
    ∃ w', watchStep rk bd cap w op (observe mk bd st op).2 = .ok w' ∧ Rel cap w' (observe mk bd st op).1 := by
  have hl : st.cache.items.lookup k = none := by
    cases hl : st.cache.items.lookup k with
    | none => rfl
    | some v => have := hgood _ (lookup_some_mem hl); rw [hp] at this; contradiction
  refine ⟨w, ?_, ?_⟩
  · simp [observe, step_bind_error hmk hl hbd, watchStep, hrk, malformed, h.runs]
  · simpa [observe, step_bind_error hmk hl hbd] using h

theorem watchRun_ok' (mk rk : Call → Option Key) (bd : Call → Option (List Nat)) (cap : Nat) (hcap : 1 ≤ cap)
    (ops : List Op) (w : Watch) (st : St) (h : Rel cap w st) (hgood : GoodInv st)
    (hk : ∀ op ∈ ops, Agree mk rk bd op.c) :
    ∃ w', watchRun rk bd cap w ops (run mk bd st ops) = .ok w' := by
  induction ops generalizing w st with
  | nil => exact ⟨w, rfl⟩
  | cons op ops ih =>
    have hstep : ∃ w', watchStep rk bd cap w op (observe mk bd st op).2 = .ok w' ∧ Rel cap w' (observe mk bd st op).1 := by
      rcases hk op List.mem_cons_self with ⟨h1, _⟩ | ⟨h1, h2, k, h3, h4⟩
      · exact rel_step mk rk bd cap hcap w st op h h1
      · exact rel_step_bad mk rk bd cap w st op k h hgood h1 h2 h3 h4
    have hg' : GoodInv (observe mk bd st op).1 := by
      apply good_step mk bd st op _ hgood
      intro k b hmk hb
      rcases hk op List.mem_cons_self with ⟨_, h2⟩ | ⟨_, h2, _⟩
      · exact h2 k b hmk hb
      · rw [h2] at hb; contradiction
    obtain ⟨w', h1, h2⟩ := hstep
    simp only [run, watchRun, h1]
    exact ih _ _ h2 hg' (fun o ho => hk o (List.mem_cons_of_mem _ ho))

end Alru

theorem alru_agree (s : Sig) (c : Call) (h : alruCallOK s c = true) :
    Agree (alruKey .default s) (alruRefKey .default s) (alruBind s) c :=
  argsKey_agree s s.args c h

/-! ## alazy_constant -/

namespace Lazy

/-- the reference state mirrors alazy_constant's two attributes: a stored value is the cached value with its
    refresh time; "nothing stored" is a refresh time that is 0 or already expired (and stays expired) -/
structure Rel (ttl : Nat) (w : Watch) (st : St) : Prop where
  now : w.now = st.now
  runs : w.runs = st.runs
  pos : 1 ≤ st.now
  stored : match w.stored with
    | some (v, t) => st.rt = t ∧ 1 ≤ t ∧ st.cached = some v
    | none => st.rt = 0 ∨ (ttl ≠ 0 ∧ st.rt + ttl < st.now)

theorem rel_init (ttl t0 : Nat) (h : 1 ≤ t0) : Rel ttl { stored := none, now := t0, runs := 0 } (init t0) :=
  ⟨rfl, rfl, h, Or.inl rfl⟩

theorem stale_iff (ttl : Nat) (st : St) :
    stale ttl st = true ↔ (st.rt = 0 ∨ (ttl ≠ 0 ∧ st.rt + ttl < st.now)) := by
  simp only [stale, Bool.or_eq_true, beq_iff_eq, Bool.and_eq_true, bne_iff_ne, ne_eq, decide_eq_true_eq]
  constructor
  · rintro (h | ⟨h1, h2⟩)
    · exact Or.inl h
    · exact Or.inr ⟨h1, by omega⟩
  · rintro (h | ⟨h1, h2⟩)
    · exact Or.inl h
    · exact Or.inr ⟨h1, by omega⟩

theorem valid_none_stale {ttl : Nat} {w : Watch} {st : St} (h : Rel ttl w st) (hv : valid ttl w = none) :
    stale ttl st = true := by
  rw [stale_iff]
  have hs := h.stored
  unfold valid at hv
  cases hw : w.stored with
  | none => simpa [hw] using hs
  | some p =>
    obtain ⟨v, t⟩ := p
    simp only [hw] at hs hv
    split at hv
    · contradiction
    · rename_i hc
      simp only [Bool.or_eq_true, beq_iff_eq, decide_eq_true_eq, not_or, Nat.not_le] at hc
      have := h.now
      right; exact ⟨hc.1, by omega⟩

theorem valid_some_fresh {ttl : Nat} {w : Watch} {st : St} {v : Val} (h : Rel ttl w st) (hv : valid ttl w = some v) :
    stale ttl st = false ∧ st.cached = some v := by
  have hs := h.stored
  unfold valid at hv
  cases hw : w.stored with
  | none => simp [hw] at hv
  | some p =>
    obtain ⟨v', t⟩ := p
    simp only [hw] at hs hv
    split at hv
    · rename_i hc
      injection hv with hv; subst hv
      refine ⟨?_, hs.2.2⟩
      cases hst : stale ttl st with
      | false => rfl
      | true =>
        rw [stale_iff] at hst
        simp only [Bool.or_eq_true, beq_iff_eq, decide_eq_true_eq] at hc
        have := h.now
        omega
    · contradiction

theorem rel_step (ttl : Nat) (w : Watch) (st : St) (op : Op) (h : Rel ttl w st) :
    ∃ w', watchStep ttl w op (observe ttl st op).2 = .ok w' ∧ Rel ttl w' (observe ttl st op).1 := by
  have hn := h.now
  have hr := h.runs
  cases op with
  | tick d =>
    refine ⟨{ w with now := w.now + d }, by simp [watchStep, observe, step, hn, hr], ?_⟩
    refine ⟨by simp [observe, step, hn], hr, by simp [observe, step]; have := h.pos; omega, ?_⟩
    have hs := h.stored
    cases hw : w.stored with
    | none =>
      simp only [hw] at hs ⊢
      simp only [observe, step]
      rcases hs with hs | hs
      · exact Or.inl hs
      · exact Or.inr ⟨hs.1, by omega⟩
    | some p => simpa [hw, observe, step] using hs
  | dirty =>
    refine ⟨{ w with stored := none }, by simp [watchStep, observe, step, hn, hr], ?_⟩
    exact ⟨hn, hr, h.pos, Or.inl rfl⟩
  | call raises dur =>
    cases hv : valid ttl w with
    | some v =>
      obtain ⟨h1, h2⟩ := valid_some_fresh h hv
      refine ⟨w, by simp [watchStep, observe, step, hv, h1, h2, hn, hr], ?_⟩
      simpa [observe, step, h1] using h
    | none =>
      have h1 := valid_none_stale h hv
      cases raises with
      | true =>
        refine ⟨{ stored := none, now := w.now + dur, runs := w.runs + 1 }, by simp [watchStep, observe, step, hv, h1, hn, hr], ?_⟩
        refine ⟨by simp [observe, step, h1, hn], by simp [observe, step, h1, hr], by simp [observe, step, h1]; have := h.pos; omega, ?_⟩
        rw [stale_iff] at h1
        simp only [observe, step, stale_iff, h1, if_true]
        rcases h1 with h1 | h1
        · exact Or.inl h1
        · exact Or.inr ⟨h1.1, by omega⟩
      | false =>
        refine ⟨{ stored := some (⟨w.runs + 1, []⟩, w.now + dur), now := w.now + dur, runs := w.runs + 1 },
          by simp [watchStep, observe, step, hv, h1, hn, hr], ?_⟩
        have := h.pos
        refine ⟨by simp [observe, step, h1, hn], by simp [observe, step, h1, hr], by simp [observe, step, h1]; omega, ?_⟩
        simp [observe, step, h1, hn, hr]; omega

theorem watchRun_ok (ttl : Nat) (ops : List Op) (w : Watch) (st : St) (h : Rel ttl w st) :
    ∃ w', watchRun ttl w ops (run ttl st ops) = .ok w' := by
  induction ops generalizing w st with
  | nil => exact ⟨w, rfl⟩
  | cons op ops ih =>
    obtain ⟨w', h1, h2⟩ := rel_step ttl w st op h
    simp only [run, watchRun, h1]
    exact ih _ _ h2

end Lazy

end AsynqModel.Cache
