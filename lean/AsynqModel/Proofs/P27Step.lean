import AsynqModel.Proofs.P27Gen
import AsynqModel.Proofs.P5Basic
/-
  P6 (property C04), part 5: `Desc s r` - what one step of the machine does on the level of views - and
  `step_desc`: every step of a yield-only program without NonAsyncContext (guard not fired, not stuck) has one of
  these shapes.
-/
namespace AsynqModel.Core.P27
open AsynqModel.Core.P6
open AsynqModel.Core

/-- views, heap size, batches, remaining computations agree -/
structure Same (s r : State) : Prop where
  len : r.futs.length = s.futs.length
  view : ∀ f, view r f = view s f
  batches : r.batches = s.batches
  tops : r.tops = s.tops
  noNA : NoNA s → NoNA r

theorem EqvK.same {s r : State} (e : EqvK s r) : Same s r := ⟨e.len, e.view, e.batches, e.tops, e.noNA⟩

theorem Same.withCtl {s r : State} (e : Same s r) (c : List Ctl) (a : Option Nat) :
    Same s { r with ctl := c, active := a } := ⟨e.len, e.view, e.batches, e.tops, e.noNA⟩

theorem Same.withStack {s r : State} (e : Same s r) (st : List Nat) :
    Same s { r with stack := st } := ⟨e.len, e.view, e.batches, e.tops, e.noNA⟩

theorem Same.computed {s r : State} (e : Same s r) (f : Nat) : r.computed f = s.computed f :=
  computed_of_view (e.view f)

/-- `Upd1` without the clause about the stack -/
structure Upd1S (s r : State) (t : Nat) (v' : FV) : Prop where
  len : r.futs.length = s.futs.length
  viewT : view r t = v'
  viewO : ∀ f, f ≠ t → view r f = view s f
  batches : r.batches = s.batches
  tops : r.tops = s.tops
  noNA : NoNA s → NoNA r

theorem Upd1.toS {s r : State} {t : Nat} {v' : FV} (h : Upd1 s r t v') : Upd1S s r t v' :=
  ⟨h.len, h.viewT, h.viewO, h.batches, h.tops, h.noNA⟩

theorem Upd1S.withStack {s r : State} {t : Nat} {v' : FV} (h : Upd1S s r t v') (st : List Nat) :
    Upd1S s { r with stack := st } t v' :=
  ⟨h.len, h.viewT, h.viewO, h.batches, h.tops, h.noNA⟩

/-- a new future with view `nv`; nothing else changes -/
structure UpdN (s r : State) (nv : FV) : Prop where
  len : r.futs.length = s.futs.length + 1
  viewN : view r s.futs.length = nv
  viewO : ∀ f, f ≠ s.futs.length → view r f = view s f
  batches : r.batches = s.batches
  stack : r.stack = s.stack
  noNA : NoNA s → NoNA r

def flagView (b : Bool) (v : FV) : FV := { v with flag := b }
def doneView (o : Outcome) (v : FV) : FV := { v with out := some o, deps := [] }

/-- the batches after a scheduler flush of `(k, q)`: if `(k, q)` was the current batch of its kind a fresh batch
    `(k, q + 1)` is opened; every batch `(k, q)` is marked flushed -/
def FlushBatches (old new : List Batch) (k q : Nat) : Prop :=
  ∃ (l1 : List Batch) (g : Batch → Batch),
    (((∃ b, curBatchL old k = some b ∧ b.seq = q) ∧ l1 = old ++ [({ kind := k, seq := q + 1 } : Batch)]) ∨
     ((∀ b, curBatchL old k = some b → b.seq ≠ q) ∧ l1 = old)) ∧
    (∀ b : Batch, (g b).kind = b.kind ∧ (g b).seq = b.seq ∧ (g b).flushed = true) ∧
    new = l1.map (fun b' => if b'.kind == k && b'.seq == q then g b' else b')

/-- `r` is `s` with some uncomputed futures completed (batches aside) -/
structure Compl (s r : State) : Prop where
  len : r.futs.length = s.futs.length
  tops : r.tops = s.tops
  stack : r.stack = s.stack
  ctl : r.ctl = s.ctl
  cfg : r.cfg = s.cfg
  ctxs : r.ctxs = s.ctxs
  view : ∀ f, view r f = view s f ∨ ((view s f).out = none ∧ ∃ o, view r f = doneView o (view s f))

/-- what a scheduler flush does -/
structure FlushDesc (s r : State) : Prop where
  len : r.futs.length = s.futs.length
  tops : r.tops = s.tops
  noNA : NoNA s → NoNA r
  stack : r.stack = s.stack
  view : ∀ f, view r f = view s f ∨ ((view s f).out = none ∧ ∃ o, view r f = doneView o (view s f))
  batches : r.batches = s.batches ∨
    ∃ k q b, s.batch? k q = some b ∧ (∀ i ∈ b.items, i < s.futs.length → r.computed i = true) ∧
      FlushBatches s.batches r.batches k q

/-- the shapes of `r = step s` -/
inductive Desc (s r : State) : Prop
  /-- nothing the proof looks at changes (the end of a top-level computation, a finished run) -/
  | quiet (e : Same s r) (hst : r.stack = s.stack) (hctl : r.ctl = s.ctl)
  /-- a top-level computation starts -/
  | top (conv : Conv) (body : Body) (rest : List (Conv × Body)) (htops : s.tops = (conv, body) :: rest)
      (hctl0 : s.ctl = []) (U : UpdN s r (taskView body [])) (htops' : r.tops = rest)
      (hctl : r.ctl = [.waitEnter s.futs.length])
  /-- `wait_for(root)` / `_execute(root)` returns: root is computed -/
  | ret (root : Nat) (hw : ∀ t old rest, s.ctl ≠ .gen t old :: rest) (hroot : s.computed root = true) (e : Same s r) (hst : r.stack = s.stack)
      (hctl : r.ctl = s.ctl.tail)
  /-- `_execute(root)` starts -/
  | enterLoop (root : Nat) (rest : List Ctl) (hctl0 : s.ctl = .waitEnter root :: rest)
      (hroot : s.computed root = false) (e : Same s r) (hst : r.stack = root :: s.stack)
      (hctl : r.ctl = .waitLoop root s.stack.length :: rest)
  /-- the top of the stack is popped: it is computed, or an item (whose batch gets scheduled) -/
  | pop (hw : ∃ root base rest, s.ctl = .waitLoop root base :: rest) (top : Nat) (st : List Nat)
      (hstk : s.stack = top :: st)
      (hcase : s.computed top = true ∨ (s.computed top = false ∧ ∃ k q p m, (view s top).kind = .item k q p m))
      (e : Same s r) (hst : r.stack = st) (hctl : r.ctl = s.ctl)
  /-- a lazy future on top of the stack is computed and popped -/
  | popLazy (hw : ∃ root base rest, s.ctl = .waitLoop root base :: rest) (top : Nat) (st : List Nat)
      (hstk : s.stack = top :: st) (lo : LazyOut)
      (hk : (view s top).kind = .lazy lo) (hc : s.computed top = false)
      (U : Upd1S s r top (doneView (lazyOutcome lo) (view s top))) (hst : r.stack = st) (hctl : r.ctl = s.ctl)
  /-- second visit of a blocked task: it is popped, its flag is reset -/
  | second (hw : ∃ root base rest, s.ctl = .waitLoop root base :: rest) (top : Nat) (st : List Nat)
      (hstk : s.stack = top :: st) (hk : (view s top).kind = .task)
      (hc : s.computed top = false) (hbl : ∃ d ∈ (view s top).deps, s.computed d = false)
      (hfl : (view s top).flag = true) (hnaf : P2.NAfree s top)
      (U : Upd1S s r top (flagView false (view s top))) (hst : r.stack = st) (hctl : r.ctl = s.ctl)
  /-- P27: second visit of a blocked task with a registered NonAsyncContext: `_pause_contexts` fails the task with the
      AssertionError of `NonAsyncContext.pause()` (its open with-blocks are left), and it is popped -/
  | naFail (hw : ∃ root base rest, s.ctl = .waitLoop root base :: rest) (top : Nat) (st : List Nat)
      (hstk : s.stack = top :: st) (hk : (view s top).kind = .task)
      (hc : s.computed top = false) (hbl : ∃ d ∈ (view s top).deps, s.computed d = false)
      (hfl : (view s top).flag = true) (hna : ¬ P2.NAfree s top)
      (U : Upd1S s r top (finishView (view s top) (.err .nonasync))) (hst : r.stack = st) (hctl : r.ctl = s.ctl)
  /-- first visit of a blocked task: its flag is set, its uncomputed dependencies are pushed -/
  | first (hw : ∃ root base rest, s.ctl = .waitLoop root base :: rest) (top : Nat) (st : List Nat)
      (hstk : s.stack = top :: st) (hk : (view s top).kind = .task)
      (hc : s.computed top = false) (hbl : ∃ d ∈ (view s top).deps, s.computed d = false)
      (hfl : (view s top).flag = false)
      (U : Upd1S s r top (flagView true (view s top)))
      (hst : r.stack = ((view s top).deps.filter fun d => !s.computed d).reverse ++ s.stack) (hctl : r.ctl = s.ctl)
  /-- a task that is not blocked is continued -/
  | enterGen (hw : ∃ root base rest, s.ctl = .waitLoop root base :: rest) (top : Nat) (st : List Nat)
      (hstk : s.stack = top :: st) (hk : (view s top).kind = .task)
      (hc : s.computed top = false) (hnb : ∀ d ∈ (view s top).deps, s.computed d = true)
      (e : Same s r) (hst : r.stack = s.stack) (a : Option Nat) (hctl : r.ctl = .gen top a :: s.ctl)
  /-- an instruction of the running task -/
  | gen (t : Nat) (old : Option Nat) (rest : List Ctl) (hctl0 : s.ctl = .gen t old :: rest) (d : GenDesc s r t)
  /-- the stack is back at its base, root is not computed: the scheduler flushes -/
  | flush (root base : Nat) (rest : List Ctl) (hctl0 : s.ctl = .waitLoop root base :: rest)
      (hlen : s.stack.length ≤ base) (hroot : s.computed root = false) (F : FlushDesc s r)
      (hctl : r.ctl = .waitEnter root :: rest)

/-! ### completions -/

theorem Compl.refl (s : State) : Compl s s := ⟨rfl, rfl, rfl, rfl, rfl, rfl, fun _ => Or.inl rfl⟩

theorem Compl.trans {s s1 s2 : State} (h1 : Compl s s1) (h2 : Compl s1 s2) : Compl s s2 := by
  refine ⟨h2.len.trans h1.len, h2.tops.trans h1.tops, h2.stack.trans h1.stack, h2.ctl.trans h1.ctl,
    h2.cfg.trans h1.cfg, h2.ctxs.trans h1.ctxs, fun f => ?_⟩
  rcases h1.view f with e1 | ⟨n1, o1, e1⟩
  · rcases h2.view f with e2 | ⟨n2, o2, e2⟩
    · exact Or.inl (e2.trans e1)
    · rw [e1] at n2 e2; exact Or.inr ⟨n2, o2, e2⟩
  · rcases h2.view f with e2 | ⟨n2, o2, e2⟩
    · exact Or.inr ⟨n1, o1, e2.trans e1⟩
    · rw [e1] at n2; cases n2

theorem Compl.computed_mono {s r : State} (h : Compl s r) {f : Nat} (hf : s.computed f = true) :
    r.computed f = true := by
  rcases h.view f with e | ⟨_, o, e⟩
  · rw [computed_of_view e]; exact hf
  · rw [computed_eq_view, e]; rfl

theorem compl_emit (s : State) (e : Event) : Compl s (s.emit e) := ⟨rfl, rfl, rfl, rfl, rfl, rfl, fun _ => Or.inl rfl⟩

theorem compl_complete (s : State) (i : Nat) (o : Outcome) (h : s.computed i = false) : Compl s (s.complete i o) := by
  refine ⟨length_complete _ _ _, rfl, rfl, rfl, rfl, rfl, fun f => ?_⟩
  rw [view_complete]
  split
  · rename_i hh
    rw [hh.1]
    refine Or.inr ⟨?_, o, rfl⟩
    have : (view s i).out.isSome = false := h
    cases hv : (view s i).out
    · rfl
    · rw [hv] at this; cases this
  · exact Or.inl rfl

theorem computed_complete_self (s : State) (i : Nat) (o : Outcome) (hi : i < s.futs.length) :
    (s.complete i o).computed i = true := by
  rw [computed_eq_view, view_complete, if_pos ⟨rfl, hi⟩]; rfl

@[simp] theorem batches_complete (s : State) (i : Nat) (o : Outcome) : (s.complete i o).batches = s.batches := rfl
@[simp] theorem stuck_complete (s : State) (i : Nat) (o : Outcome) : (s.complete i o).stuck = s.stuck := rfl

theorem flushItems_compl (kind : Nat) (l : List Nat) (s : State) :
    Compl s (s.flushItems kind l) ∧ (s.flushItems kind l).batches = s.batches ∧
      (s.flushItems kind l).stuck = s.stuck := by
  induction l generalizing s with
  | nil => exact ⟨Compl.refl _, rfl, rfl⟩
  | cons i is ih =>
    unfold State.flushItems
    have h1 : ∀ s1 : State, Compl s s1 → s1.batches = s.batches → s1.stuck = s.stuck →
        Compl s (s1.flushItems kind is) ∧ (s1.flushItems kind is).batches = s.batches ∧
          (s1.flushItems kind is).stuck = s.stuck := fun s1 c b st =>
      ⟨c.trans (ih s1).1, (ih s1).2.1.trans b, (ih s1).2.2.trans st⟩
    dsimp only
    split
    · exact h1 _ (Compl.refl _) rfl rfl
    · rename_i hc
      have hc : s.computed i = false := by simpa using hc
      split
      · exact h1 _ (compl_complete _ _ _ hc) rfl rfl
      · exact h1 _ (compl_complete _ _ _ hc) rfl rfl
      · exact h1 _ (Compl.refl _) rfl rfl

theorem finishItems_compl (e : Err) (l : List Nat) (s : State) :
    Compl s (s.finishItems e l) ∧ (s.finishItems e l).batches = s.batches ∧ (s.finishItems e l).stuck = s.stuck ∧
      ∀ i ∈ l, i < s.futs.length → (s.finishItems e l).computed i = true := by
  induction l generalizing s with
  | nil => exact ⟨Compl.refl _, rfl, rfl, by simp⟩
  | cons i is ih =>
    unfold State.finishItems
    have h1 : ∀ s1 : State, Compl s s1 → s1.batches = s.batches → s1.stuck = s.stuck →
        (i < s.futs.length → s1.computed i = true) →
        Compl s (s1.finishItems e is) ∧ (s1.finishItems e is).batches = s.batches ∧
          (s1.finishItems e is).stuck = s.stuck ∧
          ∀ j ∈ i :: is, j < s.futs.length → (s1.finishItems e is).computed j = true := by
      intro s1 c b st hi
      refine ⟨c.trans (ih s1).1, (ih s1).2.1.trans b, (ih s1).2.2.1.trans st, ?_⟩
      intro j hj hlt
      rcases List.mem_cons.1 hj with h | h
      · subst h; exact (ih s1).1.computed_mono (hi hlt)
      · exact (ih s1).2.2.2 j h (by rw [c.len]; exact hlt)
    split
    · rename_i hc
      exact h1 _ (Compl.refl _) rfl rfl (fun _ => hc)
    · rename_i hc
      have hc : s.computed i = false := by simpa using hc
      exact h1 _ (compl_complete _ _ _ hc) rfl rfl (fun hlt => computed_complete_self _ _ _ hlt)

/-! ### P27: `_resume_contexts` / `_pause_contexts` without the hypothesis `NoNA` -/

theorem isNonAsync_of_eqv {s s' : State} (h : Eqv s s') (c : Nat) : s'.ctxIsNonAsync c = s.ctxIsNonAsync c := by
  have hk : (s'.ctxs.map (·.kind))[c]? = (s.ctxs.map (·.kind))[c]? := by rw [h.ckinds]
  simp only [List.getElem?_map] at hk
  unfold State.ctxIsNonAsync
  cases h1 : s'.ctxs[c]? <;> cases h2 : s.ctxs[c]? <;> simp_all

theorem nafree_of_eqv_task {s s' : State} (h : Eqv s s') {t : Nat} (ht : (s'.task t).ctxs = (s.task t).ctxs)
    (hn : P2.NAfree s t) : P2.NAfree s' t := by
  intro c hc
  rw [ht] at hc
  rw [isNonAsync_of_eqv h]; exact hn c hc

/-- `_resume_contexts` of a task whose contexts are active, or which has no registered NonAsyncContext, changes nothing
    the proof looks at -/
theorem eqv_resumeContexts' (s : State) (t : Nat) (hz : (s.task t).ctxActive = false → P2.NAfree s t) :
    Eqv s (s.resumeContexts t) := by
  unfold State.resumeContexts
  dsimp only
  split
  · exact Eqv.refl _
  · rename_i hact
    have h : Eqv s ((s.task t).ctxs.foldl (fun s c => if s.ctxIsNonAsync c then s else s.ctxResumeOne c)
        (s.updTask t fun ts => { ts with ctxActive := true })) :=
      (eqv_updTask s t _ (fun _ => rfl)).trans (eqv_foldl _ (fun s c => by
        split
        · exact Eqv.refl _
        · exact eqv_ctxResumeOne _ _) _ _)
    rw [if_neg]
    · exact h
    · intro hany
      obtain ⟨c, hc1, hc2⟩ := List.any_eq_true.1 hany
      rw [isNonAsync_of_eqv h, hz (by simpa using hact) c hc1] at hc2; cases hc2

/-- `_pause_contexts` of a task without registered NonAsyncContext changes nothing the proof looks at -/
theorem eqv_pauseContexts' (s : State) (t : Nat) (hn : P2.NAfree s t) : Eqv s (s.pauseContexts t) := by
  unfold State.pauseContexts
  dsimp only
  split
  · exact Eqv.refl _
  · have h : Eqv s ((s.task t).ctxs.reverse.foldl (fun s c => if s.ctxIsNonAsync c then s else s.ctxPauseOne c)
        (s.updTask t fun ts => { ts with ctxActive := false })) :=
      (eqv_updTask s t _ (fun _ => rfl)).trans (eqv_foldl _ (fun s c => by
        split
        · exact Eqv.refl _
        · exact eqv_ctxPauseOne _ _) _ _)
    rw [if_neg]
    · exact h
    · intro hany
      obtain ⟨c, hc1, hc2⟩ := List.any_eq_true.1 hany
      rw [isNonAsync_of_eqv h, hn c hc1] at hc2; cases hc2

def failView (v : FV) : FV := { v with out := some (.err .nonasync), pending := false, deps := [], conts := [] }

/-- `_pause_contexts` of an uncomputed task with active contexts, one of them a NonAsyncContext: the task is failed -/
theorem pauseContexts_fail (s : State) (t : Nat) (ht : t < s.futs.length) (hc : s.computed t = false)
    (hact : (s.task t).ctxActive = true) (hna : ¬ P2.NAfree s t) :
    Upd1 s (s.pauseContexts t) t (failView (view s t)) ∧ (s.pauseContexts t).ctl = s.ctl := by
  unfold State.pauseContexts
  dsimp only
  rw [if_neg (by simp [hact])]
  have h : Eqv s ((s.task t).ctxs.reverse.foldl (fun s c => if s.ctxIsNonAsync c then s else s.ctxPauseOne c)
      (s.updTask t fun ts => { ts with ctxActive := false })) :=
    (eqv_updTask s t _ (fun _ => rfl)).trans (eqv_foldl _ (fun s c => by
      split
      · exact Eqv.refl _
      · exact eqv_ctxPauseOne _ _) _ _)
  generalize hs2 : (s.task t).ctxs.reverse.foldl (fun s c => if s.ctxIsNonAsync c then s else s.ctxPauseOne c)
      (s.updTask t fun ts => { ts with ctxActive := false }) = s2 at h
  have hany : (s.task t).ctxs.any s2.ctxIsNonAsync = true := by
    rw [List.any_eq_true]
    refine Classical.byContradiction fun hne => hna ?_
    intro c hc'
    cases hcc : s.ctxIsNonAsync c with
    | false => rfl
    | true => exact absurd ⟨c, hc', by rw [isNonAsync_of_eqv h]; exact hcc⟩ hne
  rw [if_pos hany]
  unfold State.failSuspended
  rw [if_neg (by rw [h.computed, hc]; simp)]
  unfold State.exitAll
  have e1 := h.trans (eqv_exitFold s2 (s2.task t).conts)
  have U1 := Upd1.of_eqv e1 t
  have U2 := U1.updTask ht (fun ts => { ts with conts := [] }) (fun v => { v with conts := [] }) (fun _ => rfl)
  have U3 := U2.updTask ht (fun ts => { ts with pending := false }) (fun v => { v with pending := false })
    (fun _ => rfl)
  have U4 := U3.complete ht (.err .nonasync)
  refine ⟨?_, ?_⟩
  · refine ⟨U4.len, ?_, U4.viewO, U4.batches, U4.stack, U4.tops, U4.noNA⟩
    rw [U4.viewT]
    rfl
  · show (List.foldl (fun s p => s.ctxExit p.1) s2 (s2.task t).conts).ctl = s.ctl
    rw [e1.ctl]

/-! ### `handleTask`, `executeIter` -/

theorem any_not_computed {s : State} {l : List Nat} :
    (l.any fun d => !s.computed d) = true ↔ ∃ d ∈ l, s.computed d = false := by
  simp [List.any_eq_true]

theorem handleTask_desc (s : State) (hw : ∃ root base rest, s.ctl = .waitLoop root base :: rest)
    (top : Nat) (st : List Nat) (hstk : s.stack = top :: st)
    (hk : (view s top).kind = .task) (hc : s.computed top = false)
    (hz : (s.task top).ctxActive = false → P2.NAfree s top)
    (hst : (s.handleTask top).stuck = none) : Desc s (s.handleTask top) := by
  have ht : top < s.futs.length := lt_of_view_task s top hk
  have U0 : Upd1 s s top (view s top) := Upd1.of_eqv (Eqv.refl s) top
  revert hst
  unfold State.handleTask
  dsimp only
  split
  · rename_i hbl
    have hbl' : ∃ d ∈ (view s top).deps, s.computed d = false := any_not_computed.1 hbl
    split
    · rename_i hfl
      intro _
      have U1 := U0.updTask ht (fun ts => { ts with depsSched := false }) (flagView false) (fun _ => rfl)
      have hts1 : (s.updTask top fun ts => { ts with depsSched := false }).task top =
          { s.task top with depsSched := false } := P5.task_updTask_self _ _ _ ht
      have hnaf1 : P2.NAfree (s.updTask top fun ts => { ts with depsSched := false }) top ↔ P2.NAfree s top := by
        unfold P2.NAfree; rw [hts1]; exact Iff.rfl
      by_cases hna : P2.NAfree s top
      · have e2 := eqv_pauseContexts' _ top (hnaf1.2 hna)
        have U2 := U1.eqv e2
        refine .second hw top st hstk hk hc hbl' hfl hna (U2.toS.withStack _) ?_ e2.ctl
        show ((s.updTask top _).pauseContexts top).stack.tail = st
        rw [U2.stack, hstk]; rfl
      · have hact : (s.task top).ctxActive = true := by
          cases h : (s.task top).ctxActive
          · exact absurd (hz h) hna
          · rfl
        obtain ⟨F, hctl⟩ := pauseContexts_fail (s.updTask top fun ts => { ts with depsSched := false }) top
          (by simpa using ht) (by rw [P5.computed_updTask]; exact hc) (by rw [hts1]; exact hact)
          (fun h => hna (hnaf1.1 h))
        have hv1 : view (s.updTask top fun ts => { ts with depsSched := false }) top = flagView false (view s top) :=
          U1.viewT
        have U2 : Upd1 s ((s.updTask top fun ts => { ts with depsSched := false }).pauseContexts top) top
            (finishView (view s top) (.err .nonasync)) := by
          refine ⟨F.len.trans U1.len, ?_, fun f hf => (F.viewO f hf).trans (U1.viewO f hf),
            F.batches.trans U1.batches, F.stack.trans U1.stack, F.tops.trans U1.tops, fun _ => trivial⟩
          rw [F.viewT, hv1]; rfl
        refine .naFail hw top st hstk hk hc hbl' hfl hna (U2.toS.withStack _) ?_ hctl
        show ((s.updTask top _).pauseContexts top).stack.tail = st
        rw [U2.stack, hstk]; rfl
    · rename_i hfl
      intro _
      have hfl' : (view s top).flag = false := by
        show (s.task top).depsSched = false
        simpa using hfl
      have U1 := U0.updTask ht (fun ts => { ts with depsSched := true }) (flagView true) (fun _ => rfl)
      have hts1 : (s.updTask top fun ts => { ts with depsSched := true }).task top =
          { s.task top with depsSched := true } := P5.task_updTask_self _ _ _ ht
      have e2 := eqv_resumeContexts' (s.updTask top fun ts => { ts with depsSched := true }) top (by
        rw [hts1]
        intro hact
        have := hz hact
        unfold P2.NAfree at this ⊢
        rw [hts1]; exact this)
      have U2 := U1.eqv e2
      refine .first hw top st hstk hk hc hbl' hfl' (U2.toS.withStack _) ?_ e2.ctl
      show _ ++ ((s.updTask top _).resumeContexts top).stack = _
      rw [U2.stack]
      congr 2
      apply List.filter_congr
      intro d _
      by_cases hd : d = top
      · subst hd
        have : view ((s.updTask d _).resumeContexts d) d = flagView true (view s d) := U2.viewT
        rw [computed_eq_view, this]; rfl
      · rw [computed_of_view (U2.viewO d hd)]
  · rename_i hnb
    have hnb' : ∀ d ∈ (view s top).deps, s.computed d = true := by
      intro d hd
      cases hcd : s.computed d
      · exact absurd (any_not_computed.2 ⟨d, hd, hcd⟩) hnb
      · rfl
    split
    · intro h; simp at h
    · intro _
      have e := eqv_resumeContexts' s top hz
      exact .enterGen hw top st hstk hk hc hnb' (e.k27.same.withCtl _ _) e.stack _ (by show _ :: (s.resumeContexts top).ctl = _; rw [e.ctl])

theorem out_none_of_uncomputed' {s : State} {f : Nat} (h : s.computed f = false) : s.out f = none := by
  unfold State.computed at h
  cases ho : s.out f
  · rfl
  · rw [ho] at h; cases h

theorem lt_of_kind_ne_const (s : State) (f : Nat) (h : (view s f).kind ≠ .const) : f < s.futs.length := by
  refine Nat.lt_of_not_le fun hle => h ?_
  rw [view_ge s f hle]; rfl

theorem executeIter_desc (s : State) (hw : ∃ root base rest, s.ctl = .waitLoop root base :: rest)
    (hz : ∀ t, s.out t = none → (s.task t).ctxActive = false → P2.NAfree s t) (hst : s.executeIter.stuck = none)
    (hg : s.executeIter.guardFired = false) : Desc s s.executeIter := by
  have hS : Same s s := ⟨rfl, fun _ => rfl, rfl, rfl, id⟩
  revert hst hg
  unfold State.executeIter
  split
  · intro h; simp at h
  · rename_i top st hstk
    split
    · intro _ h; simp [State.raiseOutOfWait] at h
    · split
      · rename_i hc
        intro _ _
        exact .pop hw top st hstk (Or.inl hc) (hS.withStack _) (by simp [State.popStack, hstk]) rfl
      · rename_i hc
        have hc : s.computed top = false := by simpa using hc
        split
        · rename_i hk
          intro h _
          exact handleTask_desc s hw top st hstk hk hc (hz top (out_none_of_uncomputed' hc)) h
        · rename_i k q p m hk
          intro _ _
          have key : ∀ s1 : State, Same s s1 → s1.stack = s.stack → s1.ctl = s.ctl → Desc s s1.popStack :=
            fun s1 e h1 h2 => .pop hw top st hstk (Or.inr ⟨hc, k, q, p, m, hk⟩) (e.withStack _)
              (by simp [State.popStack, h1, hstk]) h2
          split
          · split
            · exact key _ hS rfl rfl
            · exact key _ ⟨rfl, fun _ => rfl, rfl, rfl, id⟩ rfl rfl
          · exact key _ hS rfl rfl
        · rename_i lo hk
          intro _ _
          have hk' : (view s top).kind = .lazy lo := hk
          have ht : top < s.futs.length := lt_of_kind_ne_const s top (by rw [hk']; simp)
          have U := (Upd1.of_eqv (Eqv.refl s) top).complete ht (lazyOutcome lo)
          exact .popLazy hw top st hstk lo hk' hc (U.toS.withStack _) (by simp [State.popStack, State.complete, State.setFut, State.emit, hstk]) rfl
        · intro h; simp at h

/-! ### the scheduler flush -/

theorem flushBatch_desc (s : State) (k q : Nat) (hst : (s.flushBatch k q).stuck = none) :
    Compl s (s.flushBatch k q) ∧
    ∃ b, s.batch? k q = some b ∧ (∀ i ∈ b.items, i < s.futs.length → (s.flushBatch k q).computed i = true) ∧
      FlushBatches s.batches (s.flushBatch k q).batches k q := by
  revert hst
  unfold State.flushBatch
  split
  · intro h; simp at h
  · rename_i b hb
    intro _
    dsimp only
    have key : ∀ s1 : State, Compl s s1 →
        (((∃ b, curBatchL s.batches k = some b ∧ b.seq = q) ∧
            s1.batches = s.batches ++ [({ kind := k, seq := q + 1 } : Batch)]) ∨
         ((∀ b, curBatchL s.batches k = some b → b.seq ≠ q) ∧ s1.batches = s.batches)) →
        let s2 := s1.emit (.flushI k q b.items)
        let s3 := s2.flushItems k b.items
        let raises := (s3.cfg.kind k).raises
        let s4 := s3.finishItems (if raises then .flushraise k else .notset) b.items
        let s5 := s4.emit (.bdone k q (!raises))
        let r := s5.updBatch k q fun b => { b with flushed := true, items := if s5.cfg.keepDeps then b.items else [] }
        Compl s r ∧ ∃ b', s.batch? k q = some b' ∧ (∀ i ∈ b'.items, i < s.futs.length → r.computed i = true) ∧
          FlushBatches s.batches r.batches k q := by
      intro s1 c1 hb1 s2 s3 raises s4 s5 r
      have c2 : Compl s1 s2 := compl_emit _ _
      have f3 := flushItems_compl k b.items s2
      have f4 := finishItems_compl (if raises then .flushraise k else .notset) b.items s3
      have c5 : Compl s4 s5 := compl_emit _ _
      have c : Compl s s5 := (((c1.trans c2).trans f3.1).trans f4.1).trans c5
      have cr : Compl s r := ⟨c.len, c.tops, c.stack, c.ctl, c.cfg, c.ctxs, c.view⟩
      refine ⟨cr, b, hb, ?_, s1.batches,
        (fun b => { b with flushed := true, items := if s5.cfg.keepDeps then b.items else [] }), hb1,
        fun b0 => ⟨rfl, rfl, rfl⟩, ?_⟩
      · intro i hi hlt
        have : s4.computed i = true := f4.2.2.2 i hi (by rw [f3.1.len, c2.len, c1.len]; exact hlt)
        exact this
      · show s5.batches.map _ = _
        have : s5.batches = s1.batches := f4.2.1.trans f3.2.1
        rw [this]
    unfold State.switchActive
    split
    · rename_i b0 hb0
      split
      · rename_i hq
        have hq : b0.seq = q := by simpa using hq
        exact key _ ⟨rfl, rfl, rfl, rfl, rfl, rfl, fun _ => Or.inl rfl⟩ (Or.inl ⟨⟨b0, hb0, hq⟩, rfl⟩)
      · rename_i hq
        have hq : ¬ b0.seq = q := by simpa using hq
        refine key _ (Compl.refl _) (Or.inr ⟨?_, rfl⟩)
        intro b1 hb1
        have : b1 = b0 := by
          have h2 : curBatchL s.batches k = some b0 := hb0
          rw [h2] at hb1; cases hb1; rfl
        rw [this]; exact hq
    · rename_i hb0
      refine key _ (Compl.refl _) (Or.inr ⟨?_, rfl⟩)
      intro b1 hb1
      have h2 : curBatchL s.batches k = none := hb0
      rw [h2] at hb1; cases hb1

theorem flush_final (s s1 : State) (root : Nat) (hf : s1.futs = s.futs) (ht : s1.tops = s.tops)
    (hstk : s1.stack = s.stack) (_hcx : s1.ctxs = s.ctxs) (hbt : s1.batches = s.batches)
    (hcl : s1.ctl = .waitEnter root :: s.ctl.tail) (k q : Nat) (e : Event)
    (hst : ((s1.flushBatch k q).emit e).stuck = none) :
    FlushDesc s ((s1.flushBatch k q).emit e) ∧ ((s1.flushBatch k q).emit e).ctl = .waitEnter root :: s.ctl.tail := by
  have hview : ∀ f, view s1 f = view s f := by
    intro f; unfold view State.fut; rw [hf]
  obtain ⟨cc, b', hb', hcomp, hfb⟩ := flushBatch_desc s1 k q hst
  refine ⟨⟨?_, ?_, ?_, ?_, ?_, Or.inr ⟨k, q, b', ?_, ?_, ?_⟩⟩, ?_⟩
  · show (s1.flushBatch k q).futs.length = _
    rw [cc.len, hf]
  · show (s1.flushBatch k q).tops = _
    rw [cc.tops]; exact ht
  · exact fun _ => trivial
  · show (s1.flushBatch k q).stack = _
    rw [cc.stack]; exact hstk
  · intro f
    rcases cc.view f with e | ⟨n, o, e⟩
    · exact Or.inl (e.trans (hview f))
    · refine Or.inr ⟨by rw [← hview f]; exact n, o, ?_⟩
      rw [← hview f]; exact e
  · have : s.batch? k q = s1.batch? k q := by
      unfold State.batch?; rw [hbt]
    rw [this]; exact hb'
  · intro i hi hlt
    exact hcomp i hi (by rw [hf]; exact hlt)
  · rw [← hbt]; exact hfb
  · show (s1.flushBatch k q).ctl = _
    rw [cc.ctl]; exact hcl

theorem schedulerFlush_desc (s : State) (root : Nat) (hst : (s.schedulerFlush root).stuck = none) :
    FlushDesc s (s.schedulerFlush root) ∧ (s.schedulerFlush root).ctl = .waitEnter root :: s.ctl.tail := by
  revert hst
  rw [P3.schedulerFlush_eq]
  generalize hs0 : ({ s with sbatches := s.flushable, ctl := .waitEnter root :: s.ctl.tail } : State) = s0
  have c0 : s0.futs = s.futs ∧ s0.tops = s.tops ∧ s0.stack = s.stack ∧ s0.ctxs = s.ctxs ∧ s0.batches = s.batches ∧
      s0.ctl = .waitEnter root :: s.ctl.tail := by
    subst hs0; exact ⟨rfl, rfl, rfl, rfl, rfl, rfl⟩
  obtain ⟨hf, ht, hstk, hcx, hbt, hcl⟩ := c0
  have hview : ∀ f, view s0 f = view s f := by
    intro f; unfold view State.fut; rw [hf]
  unfold P3.flushRest
  split
  · intro _
    exact ⟨⟨by rw [hf], ht, fun _ => trivial, hstk, fun f => Or.inl (hview f), Or.inl hbt⟩, hcl⟩
  · dsimp only
    split
    · intro h; simp at h
    · rename_i c _
      split
      · intro h; simp at h
      · split
        · intro h; simp at h
        · intro h
          refine flush_final s _ root ?_ ?_ ?_ ?_ ?_ ?_ c.1 c.2 _ h
          · exact hf
          · exact ht
          · exact hstk
          · exact hcx
          · exact hbt
          · exact hcl

/-! ### `step` -/

theorem updN_newTask (s s1 : State) (hf : s1.futs = s.futs) (hb : s1.batches = s.batches)
    (hst : s1.stack = s.stack) (_hc : s1.ctxs = s.ctxs) (body : Body) (inh : List Nat) :
    UpdN s (s1.newTask body inh).1 (taskView body inh) := by
  have hview : ∀ f, view s1 f = view s f := by
    intro f; unfold view State.fut; rw [hf]
  unfold State.newTask
  refine ⟨by simp [hf], ?_, ?_, hb, hst, fun _ => trivial⟩
  · rw [view_alloc, if_pos (by rw [hf])]; rfl
  · intro f hne
    rw [view_alloc, if_neg (by rw [hf]; exact hne)]
    exact hview f

theorem step_desc (s : State) (hs : s.stuck = none) (hr : s.raising = none)
    (hz : ∀ t, s.out t = none → (s.task t).ctxActive = false → P2.NAfree s t)
    (hgen : ∀ t old rest, s.ctl = .gen t old :: rest → (view s t).kind = .task ∧ okV (view s t))
    (hst : (step s).stuck = none) (hg : (step s).guardFired = false) : Desc s (step s) := by
  have hS : Same s s := ⟨rfl, fun _ => rfl, rfl, rfl, id⟩
  revert hst hg
  unfold step
  rw [if_neg (by simp [hs])]
  split
  · rename_i hctl
    split
    · intro _ _
      exact .quiet ⟨rfl, fun _ => rfl, rfl, rfl, id⟩ rfl rfl
    · rename_i hcur
      split
      · intro _ _
        exact .quiet hS rfl rfl
      · rename_i conv body rest htops
        intro _ _
        have U := updN_newTask s (({ s with tops := rest, topIdx := s.topIdx + 1 } : State).emit (.top s.topIdx conv))
          rfl rfl rfl rfl body []
        exact .top conv body rest htops hctl ⟨U.len, U.viewN, U.viewO, U.batches, U.stack, U.noNA⟩ rfl rfl
  · rename_i root rest hctl
    rw [if_neg (by simp [hr])]
    split
    · rename_i hc
      intro _ _
      exact .ret root (by intro t old rest' h; rw [hctl] at h; cases h) hc ⟨rfl, fun _ => rfl, rfl, rfl, id⟩ rfl rfl
    · rename_i hc
      intro _ _
      exact .enterLoop root rest hctl (by simpa using hc) ⟨rfl, fun _ => rfl, rfl, rfl, id⟩ rfl (by simp [hctl])
  · rename_i root base rest hctl
    rw [if_neg (by simp [hr])]
    split
    · intro h1 h2
      exact executeIter_desc s ⟨root, base, rest, hctl⟩ hz h1 h2
    · rename_i hlen
      split
      · rename_i hc
        intro _ _
        exact .ret root (by intro t old rest' h; rw [hctl] at h; cases h) hc ⟨rfl, fun _ => rfl, rfl, rfl, id⟩ rfl rfl
      · rename_i hc
        intro h1 _
        have d := schedulerFlush_desc s root h1
        exact .flush root base rest hctl (by omega) (by simpa using hc) d.1 (by rw [d.2, hctl]; rfl)
  · rename_i t old rest hctl
    rw [if_neg (by simp [hr])]
    intro h1 _
    obtain ⟨hk, hok⟩ := hgen t old rest hctl
    exact .gen t old rest hctl (genStep_desc s t old hk hok h1)

end AsynqModel.Core.P27
