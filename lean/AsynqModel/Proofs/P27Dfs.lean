import AsynqModel.Proofs.P27Stable
/-
  P6 (property C04), part 10: the depth-first-search invariant `InvC` of a scheduler pass:
  * `Paths`: the awaits relation follows the post-order of the creation tree (hence is acyclic),
  * `flagStack`: a task whose `_dependencies_scheduled` flag is set is on the stack,
  * `dfs` (S2): every uncomputed dependency of a flagged stack entry is settled or lies above that entry,
  * `ord`: everything above the topmost entry of a flagged task precedes it in post-order,
  * `root`: the root of the pass is the bottom entry of the stack, or it is settled.
-/
namespace AsynqModel.Core.P27
open AsynqModel.Core.P6
open AsynqModel.Core

def ctlRoot : Ctl → Option Nat
  | .waitEnter r => some r
  | .waitLoop r _ => some r
  | .gen _ _ => none

structure Paths (s : State) (P : Nat → List Nat) : Prop where
  own : ∀ t d, d ∈ (view s t).own → d < s.futs.length ∧ ((view s d).kind = .task → P d = P t ++ [d])
  inh : ∀ t d, d ∈ (view s t).inh → d < s.futs.length ∧
    ((view s d).kind = .task → ∃ w br rest, P d = w ++ [d] ∧ P t = w ++ br :: rest ∧ d < br)
  prev : ∀ t d, d ∈ extractFutures (view s t).prevY → d ∈ (view s t).own ∨ d ∈ (view s t).inh
  depsLt : ∀ t d, d ∈ (view s t).deps → d < s.futs.length
  edge : ∀ t d, d ∈ (view s t).deps → (view s d).kind = .task → PLt (P d) (P t)
  stackLt : ∀ x ∈ s.stack, x < s.futs.length
  ctlLt : ∀ c ∈ s.ctl, ∀ r, ctlRoot c = some r → r < s.futs.length

/-- an uncompleted task whose `_dependencies_scheduled` flag is set -/
def Flagged (s : State) (x : Nat) : Prop :=
  (view s x).kind = .task ∧ (view s x).flag = true ∧ (view s x).out = none

structure InvC (s : State) (P : Nat → List Nat) : Prop where
  paths : Paths s P
  flagStack : ∀ t, Flagged s t → t ∈ s.stack
  dfs : ∀ above x below, s.stack = above ++ x :: below → Flagged s x →
    ∀ d ∈ (view s x).deps, s.computed d = false → Settled s d ∨ d ∈ above
  ord : ∀ above d below, s.stack = above ++ d :: below → d ∉ above → Flagged s d →
    ∀ y ∈ above, (view s y).kind = .task → PLt (P y) (P d)
  root : ∀ root base rest,
    (s.ctl = .waitLoop root base :: rest ∨ ∃ t old, s.ctl = .gen t old :: .waitLoop root base :: rest) →
    (∃ pre, s.stack = pre ++ [root]) ∨ Settled s root

/-- the running task dereferences only references that are in scope -/
def StepScoped (s : State) : Prop :=
  ∀ t old rest, s.ctl = .gen t old :: rest → (view s t).pending = false →
    (∀ y k h, (view s t).body = .yld y k h → ∀ r ∈ y.leaves, refOK (view s t) r) ∧
    (∀ c pass k, (view s t).body = .spawn c pass k → ∀ r ∈ pass, refOK (view s t) r)

theorem invC_init (cfg : Cfg) (tops : List (Conv × Body)) (choices : List (Nat × Nat)) :
    InvC (initState cfg tops choices) (fun _ => []) := by
  have hv : ∀ f, view (initState cfg tops choices) f = dview := fun f => view_ge _ _ (Nat.zero_le _)
  refine ⟨⟨?_, ?_, ?_, ?_, ?_, ?_, ?_⟩, ?_, ?_, ?_, ?_⟩
  · intro t d hd; rw [hv] at hd; cases hd
  · intro t d hd; rw [hv] at hd; cases hd
  · intro t d hd; rw [hv] at hd; simp [dview, fview, extractFutures] at hd
  · intro t d hd; rw [hv] at hd; cases hd
  · intro t d hd; rw [hv] at hd; cases hd
  · intro x hx; cases hx
  · intro c hc; cases hc
  · intro t ht; rw [Flagged, hv] at ht; cases ht.1
  · intro above x below h; cases above <;> cases h
  · intro above x below h; cases above <;> cases h
  · intro root base rest h
    rcases h with h | ⟨t, old, h⟩ <;> cases h

/-! ### transfer lemmas -/

/-- `Paths` when the heap only grows and own / inh / prevY / kinds of existing futures are unchanged -/
theorem Paths.transfer {s r : State} {P : Nat → List Nat} (h : Paths s P) (hlen : s.futs.length ≤ r.futs.length)
    (hown : ∀ t, (view r t).own = (view s t).own) (hinh : ∀ t, (view r t).inh = (view s t).inh)
    (hprev : ∀ t, (view r t).prevY = (view s t).prevY)
    (hkind : ∀ d, d < s.futs.length → (view r d).kind = (view s d).kind)
    (hdeps : ∀ t d, d ∈ (view r t).deps → d ∈ (view s t).deps)
    (hstack : ∀ x ∈ r.stack, x < r.futs.length)
    (hctl : ∀ c ∈ r.ctl, ∀ x, ctlRoot c = some x → x < r.futs.length) : Paths r P := by
  refine ⟨?_, ?_, ?_, ?_, ?_, hstack, hctl⟩
  · intro t d hd
    rw [hown] at hd
    obtain ⟨h1, h2⟩ := h.own t d hd
    exact ⟨Nat.lt_of_lt_of_le h1 hlen, fun hk => h2 (by rw [← hkind d h1]; exact hk)⟩
  · intro t d hd
    rw [hinh] at hd
    obtain ⟨h1, h2⟩ := h.inh t d hd
    exact ⟨Nat.lt_of_lt_of_le h1 hlen, fun hk => h2 (by rw [← hkind d h1]; exact hk)⟩
  · intro t d hd
    rw [hprev] at hd
    rw [hown, hinh]
    exact h.prev t d hd
  · intro t d hd
    exact Nat.lt_of_lt_of_le (h.depsLt t d (hdeps t d hd)) hlen
  · intro t d hd hk
    have hd' := hdeps t d hd
    exact h.edge t d hd' (by rw [← hkind d (h.depsLt t d hd')]; exact hk)

/-- the step keeps the stack; flagged tasks of `r` were flagged in `s` with at least the same uncomputed
    dependencies; settled futures stay settled -/
theorem InvC.transfer {s r : State} {P P' : Nat → List Nat} (h : InvC s P) (hpaths : Paths r P')
    (hst : r.stack = s.stack)
    (hc : ∀ f, s.computed f = true → r.computed f = true)
    (hfl : ∀ x, Flagged r x → Flagged s x ∧ ∀ d ∈ (view r x).deps, r.computed d = false → d ∈ (view s x).deps)
    (hset : ∀ f, Settled s f → Settled r f)
    (hP : ∀ x ∈ s.stack, P' x = P x)
    (hk : ∀ y ∈ s.stack, (view r y).kind = .task → (view s y).kind = .task)
    (hroot : ∀ root base rest,
      (r.ctl = .waitLoop root base :: rest ∨ ∃ t old, r.ctl = .gen t old :: .waitLoop root base :: rest) →
      ∃ base' rest', (s.ctl = .waitLoop root base' :: rest' ∨
        ∃ t old, s.ctl = .gen t old :: .waitLoop root base' :: rest')) : InvC r P' := by
  refine ⟨hpaths, ?_, ?_, ?_, ?_⟩
  · intro t ht
    rw [hst]; exact h.flagStack t (hfl t ht).1
  · intro above x below hstk hx d hd hcd
    rw [hst] at hstk
    obtain ⟨hx', hdeps⟩ := hfl x hx
    have hcd' : s.computed d = false := by
      cases hh : s.computed d
      · rfl
      · rw [hc d hh] at hcd; cases hcd
    rcases h.dfs above x below hstk hx' d (hdeps d hd hcd) hcd' with h1 | h1
    · exact Or.inl (hset d h1)
    · exact Or.inr h1
  · intro above d below hstk hn hd y hy hyk
    rw [hst] at hstk
    have hys : y ∈ s.stack := by rw [hstk]; exact List.mem_append_left _ hy
    have hds : d ∈ s.stack := by rw [hstk]; simp
    rw [hP y hys, hP d hds]
    exact h.ord above d below hstk hn (hfl d hd).1 y hy (hk y hys hyk)
  · intro root base rest hctl
    obtain ⟨base', rest', hs⟩ := hroot root base rest hctl
    rcases h.root root base' rest' hs with ⟨pre, h1⟩ | h1
    · exact Or.inl ⟨pre, by rw [hst]; exact h1⟩
    · exact Or.inr (hset root h1)

/-- the top of the stack is popped; it is settled afterwards and not flagged -/
theorem InvC.pop {s r : State} {P : Nat → List Nat} (h : InvC s P) (hpaths : Paths r P)
    {top : Nat} {st : List Nat} (hstk : s.stack = top :: st) (hst : r.stack = st)
    (hc : ∀ f, s.computed f = true → r.computed f = true)
    (hfl : ∀ x, Flagged r x → Flagged s x ∧ ∀ d ∈ (view r x).deps, r.computed d = false → d ∈ (view s x).deps)
    (hset : ∀ f, Settled s f → Settled r f)
    (hk : ∀ y, (view r y).kind = .task → (view s y).kind = .task)
    (hts : Settled r top) (hnf : ¬ Flagged r top) (hctl : r.ctl = s.ctl) : InvC r P := by
  have hne : ∀ x, Flagged r x → x ≠ top := fun x hx e => hnf (e ▸ hx)
  refine ⟨hpaths, ?_, ?_, ?_, ?_⟩
  · intro t ht
    have := h.flagStack t (hfl t ht).1
    rw [hstk] at this
    rw [hst]
    rcases List.mem_cons.1 this with e | e
    · exact absurd e (hne t ht)
    · exact e
  · intro above x below hs hx d hd hcd
    rw [hst] at hs
    obtain ⟨hx', hdeps⟩ := hfl x hx
    have hcd' : s.computed d = false := by
      cases hh : s.computed d
      · rfl
      · rw [hc d hh] at hcd; cases hcd
    have hs' : s.stack = (top :: above) ++ x :: below := by rw [hstk, hs]; rfl
    rcases h.dfs (top :: above) x below hs' hx' d (hdeps d hd hcd) hcd' with h1 | h1
    · exact Or.inl (hset d h1)
    · rcases List.mem_cons.1 h1 with e | e
      · exact Or.inl (e ▸ hts)
      · exact Or.inr e
  · intro above d below hs hn hd y hy hyk
    rw [hst] at hs
    have hs' : s.stack = (top :: above) ++ d :: below := by rw [hstk, hs]; rfl
    refine h.ord (top :: above) d below hs' ?_ (hfl d hd).1 y (List.mem_cons_of_mem _ hy) (hk y hyk)
    intro hm
    rcases List.mem_cons.1 hm with e | e
    · exact hne d hd e
    · exact hn e
  · intro root base rest hc'
    rw [hctl] at hc'
    rcases h.root root base rest hc' with ⟨pre, h1⟩ | h1
    · rw [hstk] at h1
      rcases ends_cons h1 with ⟨_, e⟩ | ⟨pre', e⟩
      · exact Or.inr (e ▸ hts)
      · exact Or.inl ⟨pre', by rw [hst]; exact e⟩
    · exact Or.inr (hset root h1)

/-! ### `Paths` under the instructions that change own / deps -/

theorem mem_tail_ctl {c : Ctl} {l : List Ctl} (h : c ∈ l.tail) : c ∈ l := List.mem_of_mem_tail h

/-- a future is allocated by task `t`; `P'` extends `P` at the new future -/
theorem Paths.alloc {s r : State} {P P' : Nat → List Nat} {t : Nat} {k : Body} {nv : FV} (h : Paths s P)
    (U : Upd2 s r t (ownView (view s t) s.futs.length k) nv) (ht : t < s.futs.length)
    (hP : ∀ x, x ≠ s.futs.length → P' x = P x)
    (hnew : nv.kind = .task → P' s.futs.length = P t ++ [s.futs.length])
    (hnown : nv.own = []) (hndeps : nv.deps = []) (hnprev : nv.prevY = .none)
    (hninh : ∀ d ∈ nv.inh, (d ∈ (view s t).own ∨ d ∈ (view s t).inh) ∧ P' s.futs.length = P t ++ [s.futs.length])
    (hstack : r.stack = s.stack) (hctl : r.ctl = s.ctl) : Paths r P' := by
  have hlen : r.futs.length = s.futs.length + 1 := U.len
  have htne : t ≠ s.futs.length := Nat.ne_of_lt ht
  have hkind : ∀ d, d < s.futs.length → (view r d).kind = (view s d).kind := by
    intro d hd
    rcases U.view_cases d with ⟨rfl, e⟩ | ⟨rfl, _⟩ | ⟨_, _, e⟩
    · rw [e]; rfl
    · exact absurd hd (Nat.lt_irrefl _)
    · rw [e]
  have hPt : P' t = P t := hP t htne
  refine ⟨?_, ?_, ?_, ?_, ?_, ?_, ?_⟩
  · intro t' d hd
    rcases U.view_cases t' with ⟨rfl, e⟩ | ⟨rfl, e⟩ | ⟨h1, h2, e⟩
    · rw [e] at hd
      have hd' : d ∈ (view s t').own ++ [s.futs.length] := hd
      rcases List.mem_append.1 hd' with hd' | hd'
      · obtain ⟨b1, b2⟩ := h.own t' d hd'
        refine ⟨by omega, fun hk => ?_⟩
        rw [hP d (Nat.ne_of_lt b1), hPt]
        exact b2 (by rw [← hkind d b1]; exact hk)
      · simp at hd'
        subst hd'
        refine ⟨by omega, fun hk => ?_⟩
        rw [hPt]
        exact hnew (by rw [← U.viewN]; exact hk)
    · rw [e, hnown] at hd; cases hd
    · rw [e] at hd
      obtain ⟨b1, b2⟩ := h.own t' d hd
      refine ⟨by omega, fun hk => ?_⟩
      rw [hP d (Nat.ne_of_lt b1), hP t' h2]
      exact b2 (by rw [← hkind d b1]; exact hk)
  · intro t' d hd
    rcases U.view_cases t' with ⟨rfl, e⟩ | ⟨rfl, e⟩ | ⟨h1, h2, e⟩
    · rw [e] at hd
      have hd' : d ∈ (view s t').inh := hd
      obtain ⟨b1, b2⟩ := h.inh t' d hd'
      refine ⟨by omega, fun hk => ?_⟩
      rw [hP d (Nat.ne_of_lt b1), hPt]
      exact b2 (by rw [← hkind d b1]; exact hk)
    · rw [e] at hd
      obtain ⟨hsrc, hPn⟩ := hninh d hd
      rcases hsrc with hsrc | hsrc
      · obtain ⟨b1, b2⟩ := h.own t d hsrc
        refine ⟨by omega, fun hk => ?_⟩
        refine ⟨P t, s.futs.length, [], ?_, hPn, b1⟩
        rw [hP d (Nat.ne_of_lt b1)]
        exact b2 (by rw [← hkind d b1]; exact hk)
      · obtain ⟨b1, b2⟩ := h.inh t d hsrc
        refine ⟨by omega, fun hk => ?_⟩
        obtain ⟨w, br, rest, e1, e2, e3⟩ := b2 (by rw [← hkind d b1]; exact hk)
        refine ⟨w, br, rest ++ [s.futs.length], ?_, ?_, e3⟩
        · rw [hP d (Nat.ne_of_lt b1)]; exact e1
        · rw [hPn, e2]; simp
    · rw [e] at hd
      obtain ⟨b1, b2⟩ := h.inh t' d hd
      refine ⟨by omega, fun hk => ?_⟩
      rw [hP d (Nat.ne_of_lt b1), hP t' h2]
      exact b2 (by rw [← hkind d b1]; exact hk)
  · intro t' d hd
    rcases U.view_cases t' with ⟨rfl, e⟩ | ⟨rfl, e⟩ | ⟨h1, h2, e⟩
    · rw [e] at hd ⊢
      have hd' : d ∈ extractFutures (view s t').prevY := hd
      rcases h.prev t' d hd' with h1 | h1
      · exact Or.inl (List.mem_append_left _ h1)
      · exact Or.inr h1
    · rw [e, hnprev] at hd; simp [extractFutures] at hd
    · rw [e] at hd ⊢; exact h.prev t' d hd
  · intro t' d hd
    rcases U.view_cases t' with ⟨rfl, e⟩ | ⟨rfl, e⟩ | ⟨h1, h2, e⟩
    · rw [e] at hd
      have := h.depsLt t' d hd; omega
    · rw [e, hndeps] at hd; cases hd
    · rw [e] at hd
      have := h.depsLt t' d hd; omega
  · intro t' d hd hk
    rcases U.view_cases t' with ⟨rfl, e⟩ | ⟨rfl, e⟩ | ⟨h1, h2, e⟩
    · rw [e] at hd
      have hd' : d ∈ (view s t').deps := hd
      have b1 := h.depsLt t' d hd'
      rw [hP d (Nat.ne_of_lt b1), hPt]
      exact h.edge t' d hd' (by rw [← hkind d b1]; exact hk)
    · rw [e, hndeps] at hd; cases hd
    · rw [e] at hd
      have b1 := h.depsLt t' d hd
      rw [hP d (Nat.ne_of_lt b1), hP t' h2]
      exact h.edge t' d hd (by rw [← hkind d b1]; exact hk)
  · intro x hx
    rw [hstack] at hx
    have := h.stackLt x hx; omega
  · intro c hc x hx
    rw [hctl] at hc
    have := h.ctlLt c hc x hx; omega

/-- the running task yields -/
theorem Paths.yield {s r : State} {P : Nat → List Nat} {t : Nat} {nd : List Nat} {npy : RY} {leave : Bool}
    (h : Paths s P) (U : Upd1S s r t (yieldView (view s t) nd npy leave))
    (hnd : ∀ d ∈ nd, d ∈ (view s t).deps ∨ d ∈ (view s t).own ∨ d ∈ (view s t).inh)
    (hnpy : ∀ d ∈ extractFutures npy, d ∈ (view s t).own ∨ d ∈ (view s t).inh)
    (hstack : r.stack = s.stack) (hctl : ∀ c ∈ r.ctl, c ∈ s.ctl) : Paths r P := by
  have hkind : ∀ d, (view r d).kind = (view s d).kind := by
    intro d
    rcases U.view_cases d with ⟨rfl, e⟩ | ⟨_, e⟩ <;> rw [e] <;> rfl
  refine ⟨?_, ?_, ?_, ?_, ?_, ?_, ?_⟩
  · intro t' d hd
    have hd' : d ∈ (view s t').own := by
      rcases U.view_cases t' with ⟨rfl, e⟩ | ⟨_, e⟩ <;> rw [e] at hd <;> exact hd
    obtain ⟨b1, b2⟩ := h.own t' d hd'
    exact ⟨by rw [U.len]; exact b1, fun hk => b2 (by rw [← hkind d]; exact hk)⟩
  · intro t' d hd
    have hd' : d ∈ (view s t').inh := by
      rcases U.view_cases t' with ⟨rfl, e⟩ | ⟨_, e⟩ <;> rw [e] at hd <;> exact hd
    obtain ⟨b1, b2⟩ := h.inh t' d hd'
    exact ⟨by rw [U.len]; exact b1, fun hk => b2 (by rw [← hkind d]; exact hk)⟩
  · intro t' d hd
    rcases U.view_cases t' with ⟨rfl, e⟩ | ⟨_, e⟩
    · rw [e] at hd ⊢; exact hnpy d hd
    · rw [e] at hd ⊢; exact h.prev t' d hd
  · intro t' d hd
    rw [U.len]
    rcases U.view_cases t' with ⟨rfl, e⟩ | ⟨_, e⟩
    · rw [e] at hd
      rcases hnd d hd with h1 | h1 | h1
      · exact h.depsLt t' d h1
      · exact (h.own t' d h1).1
      · exact (h.inh t' d h1).1
    · rw [e] at hd; exact h.depsLt t' d hd
  · intro t' d hd hk
    rw [hkind] at hk
    rcases U.view_cases t' with ⟨rfl, e⟩ | ⟨_, e⟩
    · rw [e] at hd
      rcases hnd d hd with h1 | h1 | h1
      · exact h.edge t' d h1 hk
      · rw [(h.own t' d h1).2 hk]; exact PLt.child _ _
      · obtain ⟨w, br, rest, e1, e2, e3⟩ := (h.inh t' d h1).2 hk
        rw [e1, e2]; exact PLt.sibling w rest e3
    · rw [e] at hd; exact h.edge t' d hd hk
  · intro x hx
    rw [hstack] at hx; rw [U.len]; exact h.stackLt x hx
  · intro c hc x hx
    rw [U.len]; exact h.ctlLt c (hctl c hc) x hx

end AsynqModel.Core.P27
