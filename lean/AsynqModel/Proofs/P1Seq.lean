import AsynqModel.Proofs.P1Flush
/-!
  Batches have distinct keys: the batches of one kind carry the sequence numbers 0, 1, 2, ... in creation order
  (`BSeq`), because a new batch of a kind is only created when there is none yet (`item`, seq 0) or by
  `_try_switch_active_batch` from the newest one (seq + 1).
-/
namespace AsynqModel.Core.P1
open AsynqModel.Core

/-- the sequence numbers of the batches of kind `k`, in creation order -/
def kseqs (l : List Batch) (k : Nat) : List Nat := (l.filter (fun b => b.kind == k)).map (·.seq)

def BSeq (s : State) : Prop := ∀ k, kseqs s.batches k = List.range (kseqs s.batches k).length

theorem kseqs_append (l : List Batch) (b0 : Batch) (k : Nat) :
    kseqs (l ++ [b0]) k = kseqs l k ++ (if b0.kind = k then [b0.seq] else []) := by
  by_cases h : b0.kind = k <;> simp [kseqs, List.filter_append, h]

theorem kseqs_map (l : List Batch) (f : Batch → Batch) (hf : ∀ b, (f b).kind = b.kind ∧ (f b).seq = b.seq) (k : Nat) :
    kseqs (l.map f) k = kseqs l k := by
  induction l with
  | nil => rfl
  | cons b l ih =>
    simp only [kseqs, List.map_cons, List.filter_cons, (hf b).1] at ih ⊢
    split
    · simp only [List.map_cons, (hf b).2, ih]
    · exact ih

theorem curBatch?_none {s : State} {kind : Nat} (h : s.curBatch? kind = none) : kseqs s.batches kind = [] := by
  simp only [State.curBatch?, List.getLast?_eq_none_iff] at h
  simp [kseqs, h]

theorem curBatch?_some {s : State} {kind : Nat} {b : Batch} (h : s.curBatch? kind = some b) :
    (kseqs s.batches kind).getLast? = some b.seq := by
  simp only [State.curBatch?] at h
  simp [kseqs, List.getLast?_map, h]

theorem bseq_len {s : State} (h : BSeq s) {kind : Nat} {b : Batch} (hb : s.curBatch? kind = some b) :
    (kseqs s.batches kind).length = b.seq + 1 := by
  have h1 := curBatch?_some hb
  rw [h kind, List.getLast?_range] at h1
  split at h1
  · cases h1
  · simp only [Option.some.injEq] at h1
    omega

theorem bseq_of_batches {s s' : State} (hb : s'.batches = s.batches) (h : BSeq s) : BSeq s' := by
  intro k; rw [hb]; exact h k

/-- the first batch of a kind -/
theorem bseq_appendNew (s : State) (kind : Nat) (h : BSeq s) (hn : s.curBatch? kind = none) :
    BSeq { s with batches := s.batches ++ [({ kind := kind, seq := 0 } : Batch)] } := by
  intro k
  show kseqs (s.batches ++ [_]) k = List.range (kseqs (s.batches ++ [_]) k).length
  rw [kseqs_append]
  by_cases hk : kind = k
  · subst hk
    simp [curBatch?_none hn, List.range_succ]
  · simp only [hk, if_false, List.append_nil]
    exact h k

theorem bseq_switchActive (s : State) (k q : Nat) (h : BSeq s) : BSeq (s.switchActive k q) := by
  unfold State.switchActive
  split
  · next b hb =>
    split
    · next hq =>
      have hq' : b.seq = q := by simpa using hq
      intro k'
      show kseqs (s.batches ++ [_]) k' = List.range (kseqs (s.batches ++ [_]) k').length
      rw [kseqs_append]
      by_cases hk : k = k'
      · subst hk
        have hl := bseq_len h hb
        simp only [if_true, List.length_append, List.length_singleton, List.range_succ]
        rw [← h k, hl, hq']
      · simp only [hk, if_false, List.append_nil]
        exact h k'
    · exact h
  · exact h

theorem bseq_updBatch (s : State) (k q : Nat) (g : Batch → Batch) (hg : ∀ b, (g b).kind = b.kind ∧ (g b).seq = b.seq)
    (h : BSeq s) : BSeq (s.updBatch k q g) := by
  intro k'
  show kseqs (s.batches.map _) k' = List.range (kseqs (s.batches.map _) k').length
  rw [kseqs_map]
  · exact h k'
  · intro b
    split
    · exact hg b
    · exact ⟨rfl, rfl⟩

theorem bseq_flushBatch (s : State) (k q : Nat) (h : BSeq s) : BSeq (s.flushBatch k q) := by
  cases hb : s.batch? k q with
  | none => rw [flushBatch_none s k q hb]; exact h
  | some b =>
    rw [flushBatch_eq s k q b hb]
    apply bseq_updBatch _ _ _ _ (flushUpd_key s.cfg)
    apply bseq_of_batches (s := s.switchActive k q)
    · simp
    · exact bseq_switchActive s k q h

/-- distinct keys -/
theorem bseq_pairwise {s : State} (h : BSeq s) :
    s.batches.Pairwise (fun a b => ¬ (a.kind = b.kind ∧ a.seq = b.seq)) := by
  rw [List.pairwise_iff_forall_sublist]
  intro a b hab hkey
  have hk : (kseqs s.batches a.kind).Nodup := by rw [h a.kind]; exact List.nodup_range
  rw [kseqs, List.nodup_iff_pairwise_ne, List.pairwise_map, List.pairwise_filter,
    List.pairwise_iff_forall_sublist] at hk
  exact hk hab (by simp) (by simp [hkey.1]) hkey.2

theorem bseq_nodup {s : State} (h : BSeq s) : (s.batches.map fun b => (b.kind, b.seq)).Nodup := by
  rw [List.nodup_iff_pairwise_ne, List.pairwise_map]
  refine (bseq_pairwise h).imp ?_
  intro a b hne heq
  simp only [Prod.mk.injEq] at heq
  exact hne heq

theorem find?_of_pairwise (l : List Batch) (b : Batch)
    (hp : l.Pairwise (fun a b => ¬ (a.kind = b.kind ∧ a.seq = b.seq))) (hb : b ∈ l) :
    l.find? (fun x => x.kind == b.kind && x.seq == b.seq) = some b := by
  induction l with
  | nil => cases hb
  | cons a l ih =>
    rw [List.pairwise_cons] at hp
    simp only [List.find?_cons]
    by_cases hk : a.kind = b.kind ∧ a.seq = b.seq
    · have : a = b := by
        rcases List.mem_cons.1 hb with h | h
        · exact h.symm
        · exact absurd hk (hp.1 b h)
      subst this
      simp
    · have hk' : (a.kind == b.kind && a.seq == b.seq) = false := by simpa using hk
      simp only [hk']
      rcases List.mem_cons.1 hb with h | h
      · subst h
        exact absurd ⟨rfl, rfl⟩ hk
      · exact ih hp.2 h

/-- `batch?` finds exactly the record with that key -/
theorem bseq_lookup {s : State} (h : BSeq s) (b : Batch) (hb : b ∈ s.batches) : s.batch? b.kind b.seq = some b :=
  find?_of_pairwise s.batches b (bseq_pairwise h) hb

end AsynqModel.Core.P1
