import AsynqModel.Proofs.P5Basic
/-!
  P5: `Ext s s'` - the state `s'` differs from `s` only in ways that do not concern contexts (futures were allocated or
  completed, batches flushed, context-silent events emitted, ...).  Control (`ctl`, `active`, `stack`) is not covered.
-/
namespace AsynqModel.Core.P5
open AsynqModel.Core

/-- events that are not about contexts -/
def silent : Event → Bool
  | .ctx _ _ => false
  | .ctxN _ _ _ => false
  | .ctxX _ => false
  | _ => true

structure Ext (s s' : State) : Prop where
  ctxs : s'.ctxs = s.ctxs
  sv : s'.sv = s.sv
  cfg : s'.cfg = s.cfg
  len : s.futs.length ≤ s'.futs.length
  tctxs : ∀ t, (s'.task t).ctxs = (s.task t).ctxs
  tact : ∀ t, (s'.task t).ctxActive = (s.task t).ctxActive
  tconts : ∀ t, (s'.task t).conts = (s.task t).conts
  tdeps : ∀ t, (s'.task t).deps = (s.task t).deps ∨ (s'.task t).deps = []
  comp : ∀ f, s.computed f = true → s'.computed f = true
  kind : ∀ f, f < s.futs.length → (s'.fut f).kind = (s.fut f).kind
  trace : ∃ evs, s'.trace = evs ++ s.trace ∧ ∀ e ∈ evs, silent e = true
  /-- `depsSched` flags are at most cleared -/
  tsched : ∀ t, (s'.task t).depsSched = true → (s.task t).depsSched = true

theorem Ext.refl (s : State) : Ext s s :=
  ⟨rfl, rfl, rfl, Nat.le_refl _, fun _ => rfl, fun _ => rfl, fun _ => rfl, fun _ => .inl rfl, fun _ h => h,
    fun _ _ => rfl, ⟨[], rfl, by simp⟩, fun _ h => h⟩

theorem Ext.trans {s s' s'' : State} (h : Ext s s') (h' : Ext s' s'') : Ext s s'' := by
  refine ⟨h'.ctxs.trans h.ctxs, h'.sv.trans h.sv, h'.cfg.trans h.cfg, Nat.le_trans h.len h'.len,
    fun t => (h'.tctxs t).trans (h.tctxs t), fun t => (h'.tact t).trans (h.tact t),
    fun t => (h'.tconts t).trans (h.tconts t), ?_, fun f hf => h'.comp f (h.comp f hf), ?_, ?_,
    fun t ht => h.tsched t (h'.tsched t ht)⟩
  · intro t
    rcases h'.tdeps t with h1 | h1
    · rw [h1]; exact h.tdeps t
    · exact .inr h1
  · intro f hf
    rw [h'.kind f (Nat.lt_of_lt_of_le hf h.len), h.kind f hf]
  · obtain ⟨e1, he1, hs1⟩ := h.trace
    obtain ⟨e2, he2, hs2⟩ := h'.trace
    refine ⟨e2 ++ e1, by rw [he2, he1, List.append_assoc], ?_⟩
    intro e he
    rcases List.mem_append.1 he with h | h
    · exact hs2 e h
    · exact hs1 e h

/-- a change of fields other than `futs` and `trace`, e.g. of the control state -/
theorem Ext.of_eq {s s' : State} (h1 : s'.futs = s.futs) (h2 : s'.ctxs = s.ctxs) (h3 : s'.sv = s.sv)
    (h4 : s'.trace = s.trace) (h5 : s'.cfg = s.cfg) : Ext s s' := by
  have hf : ∀ f, s'.fut f = s.fut f := fun f => by simp [State.fut, h1]
  have ht : ∀ f, s'.task f = s.task f := fun f => by simp [State.task, hf]
  refine ⟨h2, h3, h5, by rw [h1]; exact Nat.le_refl _, fun t => by rw [ht], fun t => by rw [ht], fun t => by rw [ht],
    fun t => .inl (by rw [ht]), fun f hc => by simpa [State.computed, State.out, hf] using hc,
    fun f _ => by rw [hf], ⟨[], by simp [h4], by simp⟩, fun t => by rw [ht]; exact id⟩

theorem ext_emit (s : State) (e : Event) (h : silent e = true) : Ext s (s.emit e) :=
  ⟨rfl, rfl, rfl, Nat.le_refl _, fun _ => rfl, fun _ => rfl, fun _ => rfl, fun _ => .inl rfl, fun _ h => h,
    fun _ _ => rfl, ⟨[e], rfl, by simpa using h⟩, fun _ h => h⟩

/-- an update of a task that keeps its context fields -/
theorem ext_updTask (s : State) (t : Nat) (g : TaskSt → TaskSt)
    (h1 : ∀ x, (g x).ctxs = x.ctxs) (h2 : ∀ x, (g x).ctxActive = x.ctxActive) (h3 : ∀ x, (g x).conts = x.conts)
    (h4 : ∀ x, (g x).deps = x.deps ∨ (g x).deps = [])
    (h5 : ∀ x, (g x).depsSched = true → x.depsSched = true) : Ext s (s.updTask t g) := by
  refine ⟨rfl, rfl, rfl, by simp, fun u => task_updTask_field s t u g (·.ctxs) h1,
    fun u => task_updTask_field s t u g (·.ctxActive) h2, fun u => task_updTask_field s t u g (·.conts) h3, ?_,
    fun f hf => by rw [computed_updTask]; exact hf, fun f _ => kind_updTask s t f g, ⟨[], rfl, by simp⟩, ?_⟩
  · intro u
    rw [task_updTask]
    split
    · next h' => rw [h'.1]; exact h4 _
    · exact .inl rfl
  · intro u
    rw [task_updTask]
    split
    · next h' => rw [h'.1]; exact h5 _
    · exact id

/-! ### complete -/

theorem fut_complete (s : State) (f g : Nat) (o : Outcome) :
    (s.complete f o).fut g = if g = f ∧ f < s.futs.length then
      { s.fut f with out := some o,
                     ts := { (if s.cfg.keepDeps then (s.fut f).ts else { (s.fut f).ts with deps := [] }) with
                             lastY := .none, deps := [] } }
    else s.fut g := by
  simp [State.complete, fut_setFut]

theorem ext_complete (s : State) (f : Nat) (o : Outcome) : Ext s (s.complete f o) := by
  have hf := fun g => fut_complete s f g o
  refine ⟨rfl, rfl, rfl, by simp [State.complete], ?_, ?_, ?_, ?_, ?_, ?_, ⟨[.done f o], rfl, by simp [silent]⟩, ?_⟩
  rotate_right
  · intro t; simp only [State.task, hf]; split
    · next h => rw [h.1]; split <;> exact id
    · exact id
  · intro t; simp only [State.task, hf]; split
    · next h => rw [h.1]; split <;> rfl
    · rfl
  · intro t; simp only [State.task, hf]; split
    · next h => rw [h.1]; split <;> rfl
    · rfl
  · intro t; simp only [State.task, hf]; split
    · next h => rw [h.1]; split <;> rfl
    · rfl
  · intro t; simp only [State.task, hf]; split
    · exact .inr rfl
    · exact .inl rfl
  · intro g hg; simp only [State.computed, State.out, hf] at hg ⊢; split
    · rfl
    · exact hg
  · intro g _; simp only [hf]; split
    · next h => rw [h.1]
    · rfl

theorem computed_complete_self (s : State) (f : Nat) (o : Outcome) (h : f < s.futs.length) :
    (s.complete f o).computed f = true := by
  simp [State.computed, State.out, fut_complete, h]

theorem out_complete (s : State) (f g : Nat) (o : Outcome) :
    (s.complete f o).out g = if g = f ∧ f < s.futs.length then some o else s.out g := by
  simp only [State.out, fut_complete]; split <;> rfl

/-! ### alloc -/

theorem fut_appendFut (s : State) (x : Fut) (g : Nat) :
    ({ s with futs := s.futs ++ [x] } : State).fut g = if g = s.futs.length then x else s.fut g := by
  simp only [State.fut, List.getD_eq_getElem?_getD]
  by_cases h : g = s.futs.length
  · subst h; simp
  · simp only [h, if_false]
    by_cases h' : g < s.futs.length
    · rw [List.getElem?_append_left h']
    · have h1 : s.futs.length ≤ g := Nat.le_of_not_lt h'
      rw [List.getElem?_eq_none h1, List.getElem?_eq_none (by simp; omega)]

/-- allocation of a future whose task state has no contexts (every future the machine allocates) -/
theorem ext_appendFut (s : State) (x : Fut)
    (h1 : x.ts.ctxs = []) (h2 : x.ts.ctxActive = false) (h3 : x.ts.conts = []) (h4 : x.ts.deps = [])
    (h5 : x.ts.depsSched = false) :
    Ext s { s with futs := s.futs ++ [x] } := by
  have hf := fut_appendFut s x
  have hd := fut_default s s.futs.length (Nat.le_refl _)
  refine ⟨rfl, rfl, rfl, by simp, ?_, ?_, ?_, ?_, ?_, ?_, ⟨[], rfl, by simp⟩, ?_⟩
  rotate_right
  · intro t; simp only [State.task, hf]; split
    · next h => rw [h, hd, h5]; exact id
    · exact id
  · intro t; simp only [State.task, hf]; split
    · next h => rw [h, hd, h1]
    · rfl
  · intro t; simp only [State.task, hf]; split
    · next h => rw [h, hd, h2]
    · rfl
  · intro t; simp only [State.task, hf]; split
    · next h => rw [h, hd, h3]
    · rfl
  · intro t; simp only [State.task, hf]; split
    · exact .inr h4
    · exact .inl rfl
  · intro g hg; simp only [State.computed, State.out, hf] at hg ⊢; split
    · next h => rw [h, hd] at hg; simp at hg
    · exact hg
  · intro g hg; simp only [hf]; split
    · omega
    · rfl

theorem ext_alloc (s : State) (x : Fut) (nk : NewKind)
    (h1 : x.ts.ctxs = []) (h2 : x.ts.ctxActive = false) (h3 : x.ts.conts = []) (h4 : x.ts.deps = [])
    (h5 : x.ts.depsSched = false) :
    Ext s (s.alloc x nk).1 :=
  (ext_appendFut s x h1 h2 h3 h4 h5).trans (ext_emit _ _ (by rfl))

theorem alloc_snd (s : State) (x : Fut) (nk : NewKind) : (s.alloc x nk).2 = s.futs.length := rfl
theorem alloc_len (s : State) (x : Fut) (nk : NewKind) : (s.alloc x nk).1.futs.length = s.futs.length + 1 := by
  simp [State.alloc]

/-! ### batches -/

theorem ext_switchActive (s : State) (k q : Nat) : Ext s (s.switchActive k q) := by
  unfold State.switchActive
  split
  · split
    · exact Ext.of_eq rfl rfl rfl rfl rfl
    · exact Ext.refl s
  · exact Ext.refl s

theorem ext_updBatch (s : State) (k q : Nat) (g : Batch → Batch) : Ext s (s.updBatch k q g) :=
  Ext.of_eq rfl rfl rfl rfl rfl

theorem ext_flushItems (s : State) (kind : Nat) (l : List Nat) : Ext s (s.flushItems kind l) := by
  induction l generalizing s with
  | nil => exact Ext.refl s
  | cons i is ih =>
    unfold State.flushItems
    refine Ext.trans ?_ (ih _)
    split
    · exact Ext.refl s
    · split
      · exact ext_complete ..
      · exact ext_complete ..
      · exact Ext.refl s

theorem ext_finishItems (s : State) (e : Err) (l : List Nat) : Ext s (s.finishItems e l) := by
  induction l generalizing s with
  | nil => exact Ext.refl s
  | cons i is ih =>
    unfold State.finishItems
    refine Ext.trans ?_ (ih _)
    split
    · exact Ext.refl s
    · exact ext_complete ..

theorem ext_fail (s : State) (m : String) : Ext s (s.fail m) := Ext.of_eq rfl rfl rfl rfl rfl

theorem ext_flushBatch (s : State) (k q : Nat) : Ext s (s.flushBatch k q) := by
  unfold State.flushBatch
  split
  · exact ext_fail ..
  · refine Ext.trans ?_ (ext_updBatch ..)
    refine Ext.trans ?_ (ext_emit _ _ (by rfl))
    refine Ext.trans ?_ (ext_finishItems _ _ _)
    refine Ext.trans ?_ (ext_flushItems _ _ _)
    refine Ext.trans ?_ (ext_emit _ _ (by rfl))
    exact ext_switchActive s k q

theorem ext_schedulerFlush (s : State) (root : Nat) : Ext s (s.schedulerFlush root) := by
  unfold State.schedulerFlush
  simp only
  repeat' split
  all_goals first | exact Ext.of_eq rfl rfl rfl rfl rfl | skip
  all_goals
    refine Ext.trans ?_ (ext_emit _ _ (by rfl))
    refine Ext.trans ?_ (ext_flushBatch _ _ _)
    refine Ext.trans ?_ (ext_emit _ _ (by rfl))
    exact Ext.of_eq rfl rfl rfl rfl rfl

theorem ext_popStack (s : State) : Ext s s.popStack := Ext.of_eq rfl rfl rfl rfl rfl

/-! ### Neutral: the part of `Ext` the context invariant looks at -/

structure Neutral (s s' : State) : Prop where
  ctxs : s'.ctxs = s.ctxs
  tctxs : ∀ t, (s'.task t).ctxs = (s.task t).ctxs
  tact : ∀ t, (s'.task t).ctxActive = (s.task t).ctxActive
  tconts : ∀ t, (s'.task t).conts = (s.task t).conts
  trace : ∃ evs, s'.trace = evs ++ s.trace ∧ ∀ e ∈ evs, silent e = true

theorem Ext.neutral {s s' : State} (h : Ext s s') : Neutral s s' := ⟨h.ctxs, h.tctxs, h.tact, h.tconts, h.trace⟩

theorem Neutral.trans {s s' s'' : State} (h : Neutral s s') (h' : Neutral s' s'') : Neutral s s'' := by
  refine ⟨h'.ctxs.trans h.ctxs, fun t => (h'.tctxs t).trans (h.tctxs t), fun t => (h'.tact t).trans (h.tact t),
    fun t => (h'.tconts t).trans (h.tconts t), ?_⟩
  obtain ⟨e1, he1, hs1⟩ := h.trace
  obtain ⟨e2, he2, hs2⟩ := h'.trace
  refine ⟨e2 ++ e1, by rw [he2, he1, List.append_assoc], ?_⟩
  intro e he
  rcases List.mem_append.1 he with h | h
  · exact hs2 e h
  · exact hs1 e h

theorem neutral_updTask (s : State) (t : Nat) (g : TaskSt → TaskSt)
    (h1 : ∀ x, (g x).ctxs = x.ctxs) (h2 : ∀ x, (g x).ctxActive = x.ctxActive) (h3 : ∀ x, (g x).conts = x.conts) :
    Neutral s (s.updTask t g) :=
  ⟨rfl, fun u => task_updTask_field s t u g (·.ctxs) h1, fun u => task_updTask_field s t u g (·.ctxActive) h2,
    fun u => task_updTask_field s t u g (·.conts) h3, ⟨[], rfl, by simp⟩⟩

end AsynqModel.Core.P5
