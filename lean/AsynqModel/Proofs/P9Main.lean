import AsynqModel.Proofs.P9Stutter
/-
  P9 (property C20), part 13: from one step to whole runs.  `Sim a b`: `a` (default options) and `b`
  (KEEP_DEPENDENCIES) have the same projection and both satisfy the invariant.
-/
namespace AsynqModel.Core.P9
open AsynqModel.Core

/-! ### `runFuel` is iterated `step` -/

theorem step_done (s : State) (h : s.isDone = true) : step s = s := by
  cases hst : s.stuck with
  | some m => exact step_stuck s (by simp [hst])
  | none =>
    simp only [State.isDone, hst, Option.isSome_none, Bool.false_or, Bool.and_eq_true, List.isEmpty_iff,
      Option.isNone_iff_eq_none] at h
    exact step_nil_done s hst h.1.1 h.1.2 h.2

theorem runFuel_done (n : Nat) (s : State) (h : s.isDone = true) : runFuel n s = s := by
  cases n with
  | zero => rfl
  | succ n => simp [runFuel, h]

theorem runFuel_succ' (n : Nat) (s : State) : runFuel (n + 1) s = runFuel n (step s) := by
  by_cases h : s.isDone = true
  · rw [step_done s h, runFuel_done _ s h, runFuel_done _ s h]
  · simp [runFuel, h]

theorem runFuel_step (n : Nat) (s : State) : runFuel (n + 1) s = step (runFuel n s) := by
  induction n generalizing s with
  | zero => rw [runFuel_succ']; rfl
  | succ n ih => rw [runFuel_succ', ih (step s), ← runFuel_succ']

theorem cfg_step (s : State) : (step s).cfg = s.cfg := by
  cases P3.step_shape s with
  | idle h => exact h.cfg
  | finishTop _ h _ => exact h.cfg
  | topStart _ _ h => exact h.cfg
  | raiseEnter _ _ _ _ h => exact h.cfg
  | raiseLoop _ _ _ _ _ h => exact h.cfg
  | popEnter _ _ _ _ h => exact h.cfg
  | enterLoop _ _ _ _ h => exact h.cfg
  | guard _ _ _ _ _ _ _ e => rw [e]; rfl
  | iter _ _ _ _ _ _ _ _ h => exact h.cfg
  | enterGen _ _ _ _ _ _ h => exact h.cfg
  | popLoop _ _ _ _ _ _ h => exact h.cfg
  | flush _ _ _ _ _ _ h => exact h.cfg
  | genStay _ _ _ _ h => exact h.cfg
  | genLeave _ _ _ _ h => exact h.cfg
  | genCall _ _ _ _ _ h => exact h.cfg

/-! ### the simulation -/

structure Sim (a b : State) : Prop where
  proj : P a = P b
  ja : J a
  jb : J b
  kd : a.cfg.keepDeps = false

theorem not_stutter_of_kd {a : State} (h : a.cfg.keepDeps = false) (t : Nat) : ¬ Stutter a t := by
  intro hs
  rw [hs.1] at h; cases h

/-- is the next step of `b` a stutter -/
def StutterNow (b : State) : Prop := b.stuck = none ∧ ∃ t old rest, b.ctl = .gen t old :: rest ∧ Stutter b t

theorem guard_of_P {a b : State} (h : P a = P b) : a.guardFired = b.guardFired := by
  have : (P a).guardFired = (P b).guardFired := congrArg State.guardFired h
  exact this

theorem stuck_of_P {a b : State} (h : P a = P b) : a.stuck = b.stuck := by
  have : (P a).stuck = (P b).stuck := congrArg State.stuck h
  exact this

/-- lock-step -/
theorem sim_step {a b : State} (h : Sim a b) (hns : ¬ StutterNow b) (hg : (step a).guardFired = false) :
    Sim (step a) (step b) := by
  have hpa : P (step a) = P (step (P a)) := P_step a (h.ja.stepOK fun t _ _ _ => not_stutter_of_kd h.kd t)
  have hpb : P (step b) = P (step (P b)) := by
    cases hst : b.stuck with
    | some m => rw [step_stuck b (by simp [hst]), step_stuck (P b) (by simp [hst]), P_idem]
    | none =>
      exact P_step b (h.jb.stepOK fun t old rest hctl hs => hns ⟨hst, t, old, rest, hctl, hs⟩)
  have hp : P (step a) = P (step b) := by rw [hpa, hpb, h.proj]
  refine ⟨hp, J_step a h.ja hg, J_step b h.jb ?_, by rw [cfg_step]; exact h.kd⟩
  rw [← guard_of_P hp]; exact hg

/-- one step of `a` against two of `b` -/
theorem sim_stutter {a b : State} (h : Sim a b) (hs : StutterNow b) (hg : (step a).guardFired = false) :
    Sim (step a) (step (step b)) ∧ Obs (step a) (step b) := by
  obtain ⟨hst, t, old, rest, hctl, hstu⟩ := hs
  obtain ⟨h1, h2, h3, h4⟩ := stutter_step b h.jb hst t old rest hctl hstu
  have hpa : P (step a) = P (step (P a)) := P_step a (h.ja.stepOK fun t _ _ _ => not_stutter_of_kd h.kd t)
  have hp : P (step a) = P (step (step b)) := by rw [hpa, h1, h.proj]
  have hgb : b.guardFired = false := by
    have e1 := guard_of_P hp
    rw [h4] at e1
    rw [← e1]; exact hg
  have hj1 : J (step b) := J_step b h.jb (by rw [h3]; exact hgb)
  have hj2 : J (step (step b)) := J_step (step b) hj1 (by rw [h4]; exact hgb)
  refine ⟨⟨hp, J_step a h.ja hg, hj2, by rw [cfg_step]; exact h.kd⟩, ?_⟩
  have o1 : Obs (step a) (step (P a)) := Obs.of_P hpa
  rw [h.proj] at o1
  exact o1.trans h2.symm

theorem sim_init (cfg : Cfg) (tops : List (Conv × Body)) (choices : List (Nat × Nat)) :
    Sim (initState { cfg with keepDeps := false } tops choices) (initState { cfg with keepDeps := true } tops choices) :=
  ⟨rfl, J_init _ _ _, J_init _ _ _, rfl⟩


theorem Sim.obs {a b : State} (h : Sim a b) : Obs a b := Obs.of_P h.proj

theorem step_of_stuck' (b : State) (h : b.stuck ≠ none) : step b = b :=
  step_stuck b (by cases hb : b.stuck with | none => exact absurd hb h | some _ => rfl)

/-- forward: every state of the default run is matched, at most twice as late, by a state of the run with
    KEEP_DEPENDENCIES -/
theorem forward (a0 b0 : State) (h0 : Sim a0 b0) (n0 : Nat) (hg : (runFuel n0 a0).guardFired = false) :
    ∃ n1, n0 ≤ n1 ∧ n1 ≤ 2 * n0 ∧ Sim (runFuel n0 a0) (runFuel n1 b0) := by
  induction n0 with
  | zero => exact ⟨0, Nat.le_refl _, Nat.le_refl _, h0⟩
  | succ n ih =>
    rw [runFuel_step] at hg ⊢
    obtain ⟨n1, h1, h2, hs⟩ := ih (P3.guard_mono _ hg)
    by_cases hst : StutterNow (runFuel n1 b0)
    · refine ⟨n1 + 2, by omega, by omega, ?_⟩
      rw [runFuel_step, runFuel_step]
      exact (sim_stutter hs hst hg).1
    · refine ⟨n1 + 1, by omega, by omega, ?_⟩
      rw [runFuel_step]
      exact sim_step hs hst hg

/-- the invariant of the backward direction: matched, or in the middle of a stutter -/
def Back (a0 b0 : State) (n0 n1 : Nat) : Prop :=
  Sim (runFuel n0 a0) (runFuel n1 b0) ∨
  ∃ k m, n0 = k + 1 ∧ n1 = m + 1 ∧ Sim (runFuel k a0) (runFuel m b0) ∧ StutterNow (runFuel m b0)

theorem backward_aux (a0 b0 : State) (h0 : Sim a0 b0) (n1 : Nat) (hg : (runFuel n1 b0).guardFired = false) :
    ∃ n0, n0 ≤ n1 ∧ Back a0 b0 n0 n1 ∧ Obs (runFuel n0 a0) (runFuel n1 b0) := by
  induction n1 with
  | zero => exact ⟨0, Nat.le_refl _, Or.inl h0, h0.obs⟩
  | succ n ih =>
    have hgn : (runFuel n b0).guardFired = false := by
      rw [runFuel_step] at hg; exact P3.guard_mono _ hg
    obtain ⟨n0, hle, hb, _⟩ := ih hgn
    rcases hb with hs | ⟨k, m, e0, e1, hs, hst⟩
    · by_cases hst : StutterNow (runFuel n b0)
      · -- the first half of a stutter
        have hga : (step (runFuel n0 a0)).guardFired = false := by
          obtain ⟨hst0, t, old, rest, hctl, hstu⟩ := hst
          obtain ⟨h1, h2, h3, h4⟩ := stutter_step _ hs.jb hst0 t old rest hctl hstu
          have hpa : P (step (runFuel n0 a0)) = P (step (P (runFuel n0 a0))) :=
            P_step _ (hs.ja.stepOK fun t _ _ _ => not_stutter_of_kd hs.kd t)
          have hp : P (step (runFuel n0 a0)) = P (step (step (runFuel n b0))) := by rw [hpa, h1, hs.proj]
          rw [guard_of_P hp, h4, ← h3]
          rw [runFuel_step] at hg; exact hg
        refine ⟨n0 + 1, by omega, Or.inr ⟨n0, n, rfl, rfl, hs, hst⟩, ?_⟩
        rw [runFuel_step, runFuel_step]
        exact (sim_stutter hs hst hga).2
      · by_cases hstuck : (runFuel n b0).stuck = none
        · have hp : P (step (runFuel n0 a0)) = P (step (runFuel n b0)) := by
            have hpa : P (step (runFuel n0 a0)) = P (step (P (runFuel n0 a0))) :=
              P_step _ (hs.ja.stepOK fun t _ _ _ => not_stutter_of_kd hs.kd t)
            have hpb : P (step (runFuel n b0)) = P (step (P (runFuel n b0))) :=
              P_step _ (hs.jb.stepOK fun t old rest hctl hst' => hst ⟨hstuck, t, old, rest, hctl, hst'⟩)
            rw [hpa, hpb, hs.proj]
          have hga : (step (runFuel n0 a0)).guardFired = false := by
            rw [guard_of_P hp]; rw [runFuel_step] at hg; exact hg
          have hs' := sim_step hs hst hga
          refine ⟨n0 + 1, by omega, Or.inl ?_, ?_⟩
          · rw [runFuel_step, runFuel_step]; exact hs'
          · rw [runFuel_step, runFuel_step]; exact hs'.obs
        · -- both runs are stuck: nothing moves any more
          refine ⟨n0, by omega, Or.inl ?_, ?_⟩
          · rw [runFuel_step, step_of_stuck' _ hstuck]; exact hs
          · rw [runFuel_step, step_of_stuck' _ hstuck]; exact hs.obs
    · -- the second half of a stutter
      subst e0 e1
      have hgm : (runFuel m b0).guardFired = false := by
        rw [runFuel_step] at hgn; exact P3.guard_mono _ hgn
      obtain ⟨hst0, t, old, rest, hctl, hstu⟩ := hst
      obtain ⟨h1, h2, h3, h4⟩ := stutter_step _ hs.jb hst0 t old rest hctl hstu
      have hpa : P (step (runFuel k a0)) = P (step (P (runFuel k a0))) :=
        P_step _ (hs.ja.stepOK fun t _ _ _ => not_stutter_of_kd hs.kd t)
      have hp : P (step (runFuel k a0)) = P (step (step (runFuel m b0))) := by rw [hpa, h1, hs.proj]
      have hga : (step (runFuel k a0)).guardFired = false := by
        rw [guard_of_P hp, h4]; exact hgm
      have hs' := (sim_stutter hs ⟨hst0, t, old, rest, hctl, hstu⟩ hga).1
      refine ⟨k + 1, by omega, Or.inl ?_, ?_⟩
      · rw [runFuel_step, runFuel_step, runFuel_step]; exact hs'
      · rw [runFuel_step, runFuel_step, runFuel_step]; exact hs'.obs

theorem backward (a0 b0 : State) (h0 : Sim a0 b0) (n1 : Nat) (hg : (runFuel n1 b0).guardFired = false) :
    ∃ n0, n0 ≤ n1 ∧ Obs (runFuel n0 a0) (runFuel n1 b0) := by
  obtain ⟨n0, h1, _, h3⟩ := backward_aux a0 b0 h0 n1 hg
  exact ⟨n0, h1, h3⟩

end AsynqModel.Core.P9
