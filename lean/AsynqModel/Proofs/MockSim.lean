import AsynqModel.Lib.Mock
import AsynqModel.Proofs.Mock
/-! helper lemmas for C19, part 2: the observer `Watch` simulates the model -/
set_option linter.unusedSimpArgs false
namespace AsynqModel.Mock

theorem construct_ok (d : Defaults) (p : Nat) (s : PSpec) (h : s.constructible d = true) :
    construct d p s = .ok { spec := s, new := maybeWrapNew p s } := by
  unfold construct PSpec.constructible at *
  simp only [Bool.not_eq_true'] at h
  simp [h]

theorem construct_inv (d : Defaults) (p : Nat) (s : PSpec) (pt : Patcher) (h : construct d p s = .ok pt) :
    pt = { spec := s, new := maybeWrapNew p s } := by
  unfold construct at h
  simp only [] at h
  split at h
  · cases h
  · injection h with h; exact h.symm

/-- all four conventions reach the replacement exactly once, with the caller's arguments after what the
    descriptor protocol puts in front, and return / raise what the replacement returns / raises -/
theorem conv_installed (p n : Nat) (s : PSpec) (via : Via) (c : Conv) (args : List Nat) (kw : List (Nat × Nat))
    (pre : List Nat) (hpre : expectedPrefix s.repl via = some pre) (hm : s.modeExposed via = false) :
    conv (installedObj { spec := s, new := maybeWrapNew p s } p n) via c args kw =
      { out := s.behav.out,
        calls := [{ callee := expectedCallee p s (installedObj { spec := s, new := maybeWrapNew p s } p n).tok,
                    args := pre ++ args, kw := kw }] } := by
  obtain ⟨t, repl, cr, an, vo, bh, sl, sh⟩ := s
  rcases repl with _ | _ | _ | _ | _ | _ | _ | _ | (_ | _) | (_ | _ | _) <;> cases via <;> cases c <;>
    simp_all [expectedPrefix, Repl.desc?, bindPrefix, installedObj, maybeWrapNew, freshObj, Shape.callable,
      Repl.isCallable, Repl.acceptsAttrs, conv, invoke, expectedCallee, Obj.tok, Behav.outIn, PSpec.modeExposed,
      pairAsyncioInMode]

/-- a patcher that is `modeSafe` is not exposed on any target of the environment -/
theorem modeSafe_not_exposed (env : Env) (s : PSpec) (t : Nat) (h : s.modeSafe env = true) :
    s.modeExposed (env.tspec t).via = false := by
  unfold PSpec.modeSafe at h
  unfold PSpec.modeExposed
  cases hms : (pairAsyncioInMode && (s.behav.modeSensitive && s.repl.desc?.isSome)) with
  | false =>
    cases hp : pairAsyncioInMode with
    | false => simp
    | true => rw [hp] at hms; simp only [Bool.true_and] at hms; simp [hms]
  | true =>
    simp only [hms, Bool.not_true, Bool.false_or] at h
    have hv : (env.tspec t).via = .plain := by
      unfold Env.tspec
      by_cases ht : t < env.targets.length
      · have hmem : env.targets[t] ∈ env.targets := List.getElem_mem ht
        have := List.all_eq_true.1 h _ hmem
        simp only [List.getD_eq_getElem?_getD, List.getElem?_eq_getElem ht, Option.getD_some]
        simpa using this
      · simp only [List.getD_eq_getElem?_getD, List.getElem?_eq_none (Nat.le_of_not_lt ht), Option.getD_none]
    simp [hv]


/-! ### the simulation relation -/

structure Rel (env : Env) (w : Watch) (st : State) : Prop where
  specs : ∀ p, w.specs p = (st.patchers p).map (·.spec)
  wf : ∀ p pt, st.patchers p = some pt →
    pt = { spec := pt.spec, new := maybeWrapNew p pt.spec } ∧ pt.spec.modeSafe env = true
  stack : w.stack = mapStk Obj.tok st.stack
  active : w.active = st.active
  skip : w.skip = st.skip
  inv : Inv env st
  actOpen : ∀ p ∈ st.active, isOpen p st.stack = true
  actNodup : st.active.Nodup
  untainted : w.tainted = false
  bind : w.bind = st.bind
  entries : ∀ p, w.entries p = st.entries p

theorem rel_init (env : Env) : Rel env watchInit (init env) :=
  ⟨fun _ => rfl, fun _ _ h => (by cases h), rfl, rfl, rfl, inv_init env, fun _ h => (by cases h), List.nodup_nil, rfl, rfl, fun _ => rfl⟩

theorem peeks_eq (env : Env) (w : Watch) (st : State) (hs : w.stack = mapStk Obj.tok st.stack)
    (hi : ∀ t, st.store t = expectAt env.initStore st.stack t) : peekAll env st = expectedPeeks env w := by
  unfold peekAll expectedPeeks
  congr 1
  funext t
  rw [hs, expectAt_mapStk, hi t]

theorem rel_peeks (env : Env) (w : Watch) (st : State) (h : Rel env w st) : peekAll env st = expectedPeeks env w :=
  peeks_eq env w st h.stack h.inv.store

/-- states that differ only in `skip` / `active` / `patchers` show the same store -/
theorem peekAll_congr (env : Env) (st st' : State) (h : st'.store = st.store) : peekAll env st' = peekAll env st := by
  unfold peekAll; rw [h]

theorem rel_skip (env : Env) (w : Watch) (st : State) (k : Option (Nat × Nat)) (h : Rel env w st) :
    Rel env { w with skip := k } { st with skip := k } :=
  ⟨h.specs, h.wf, h.stack, h.active, rfl, inv_skip env st k h.inv, h.actOpen, h.actNodup, h.untainted, h.bind, h.entries⟩

theorem step_skipping (env : Env) (w : Watch) (st : State) (op : Op) (h : Rel env w st) (q d : Nat)
    (hsk : st.skip = some (q, d)) :
    ∃ w', watchStep env w (observe env st op).2 = .ok w' ∧ Rel env w' (observe env st op).1 := by
  have hw : w.skip = some (q, d) := by rw [h.skip, hsk]
  have hp := rel_peeks env w st h
  obtain ⟨wspecs, wstack, wactive, wskip, wtainted, wbind, wentries⟩ := w
  have ht : wtainted = false := h.untainted
  subst ht
  simp only [] at hw
  subst hw
  unfold watchStep observe step
  simp only [hsk]
  cases op with
  | enter p =>
    by_cases hpq : p = q
    · simp only [hpq, if_true, bne_self_eq_false, Bool.false_eq_true, if_false]
      have : peekAll env { st with skip := some (q, d + 1) } = _ := hp
      simp only [this, bne_self_eq_false, Bool.false_eq_true, if_false]
      exact ⟨_, rfl, rel_skip env _ st _ h⟩
    · simp only [hpq, if_false, bne_self_eq_false, Bool.false_eq_true, hp]
      exact ⟨_, rfl, h⟩
  | exit p exc =>
    by_cases hpq : p = q
    · cases d with
      | zero =>
        simp only [hpq, if_true, bne_self_eq_false, Bool.false_eq_true, if_false]
        have : peekAll env { st with skip := none } = _ := hp
        simp only [this, bne_self_eq_false, Bool.false_eq_true, if_false]
        exact ⟨_, rfl, rel_skip env _ st _ h⟩
      | succ d' =>
        simp only [hpq, if_true, bne_self_eq_false, Bool.false_eq_true, if_false]
        have : peekAll env { st with skip := some (q, d') } = _ := hp
        simp only [this, bne_self_eq_false, Bool.false_eq_true, if_false]
        exact ⟨_, rfl, rel_skip env _ st _ h⟩
    · simp only [hpq, if_false, bne_self_eq_false, Bool.false_eq_true, hp]
      exact ⟨_, rfl, h⟩
  | _ =>
    simp only [bne_self_eq_false, Bool.false_eq_true, if_false, hp]
    exact ⟨_, rfl, h⟩


theorem step_construct (env : Env) (w : Watch) (st : State) (p : Nat) (s : PSpec) (hc : s.constructible env.defaults = true)
    (hm : s.modeSafe env = true) (h : Rel env w st) (hsk : st.skip = none) :
    ∃ w', watchStep env w (observe env st (.construct p s)).2 = .ok w' ∧
      Rel env w' (observe env st (.construct p s)).1 := by
  have hp := rel_peeks env w st h
  have hinv := inv_step env st (.construct p s) h.inv (Or.inr rfl)
  have hs := h.specs p
  have hc' : (retarget st.bind s).constructible env.defaults = true := hc
  obtain ⟨wspecs, wstack, wactive, wskip, wtainted, wbind, wentries⟩ := w
  have ht : wtainted = false := h.untainted
  subst ht
  have hw : wskip = none := by have := h.skip; simp only [] at this; rw [this, hsk]
  subst hw
  have hb : wbind = st.bind := h.bind
  subst hb
  unfold watchStep observe
  unfold step at hinv ⊢
  simp only [hsk] at hinv ⊢
  simp only [] at hs
  cases hpt : st.patchers p with
  | some pt =>
    simp only [hpt, Option.map_some, Option.map_none] at hs hinv ⊢
    simp only [hs, hp, beq_self_eq_true, Bool.and_self, if_true]
    exact ⟨_, rfl, h⟩
  | none =>
    simp only [hpt, Option.map, construct_ok env.defaults p (retarget st.bind s) hc'] at hs hinv ⊢
    simp only [peekAll] at hp ⊢
    simp only [hs, hp, bne_self_eq_false, Bool.false_eq_true, if_false]
    refine ⟨_, rfl, ⟨fun q => ?_, fun q pt hq => ?_, h.stack, h.active, rfl, hinv, h.actOpen, h.actNodup, rfl, rfl, h.entries⟩⟩
    · by_cases hq : q = p
      · simp [upd, hq]
      · simp only [upd, hq, if_false]; exact h.specs q
    · by_cases hqp : q = p
      · simp only [upd, hqp, if_true] at hq; injection hq with hq; subst hq; rw [hqp]
        exact ⟨rfl, hm⟩
      · simp only [upd, hqp, if_false] at hq; exact h.wf q pt hq

theorem step_peek (env : Env) (w : Watch) (st : State) (h : Rel env w st) (hsk : st.skip = none) :
    ∃ w', watchStep env w (observe env st .peek).2 = .ok w' ∧ Rel env w' (observe env st .peek).1 := by
  have hp := rel_peeks env w st h
  obtain ⟨wspecs, wstack, wactive, wskip, wtainted, wbind, wentries⟩ := w
  have ht : wtainted = false := h.untainted
  subst ht
  have hw : wskip = none := by have := h.skip; simp only [] at this; rw [this, hsk]
  subst hw
  unfold watchStep observe step
  simp only [hsk, hp, beq_self_eq_true, if_true]
  exact ⟨_, rfl, h⟩

theorem step_call (env : Env) (w : Watch) (st : State) (t : Nat) (args : List Nat) (kw : List (Nat × Nat))
    (h : Rel env w st) (hsk : st.skip = none) :
    ∃ w', watchStep env w (observe env st (.call t args kw)).2 = .ok w' ∧
      Rel env w' (observe env st (.call t args kw)).1 := by
  have hp := rel_peeks env w st h
  have hstk := h.stack
  obtain ⟨wspecs, wstack, wactive, wskip, wtainted, wbind, wentries⟩ := w
  have ht : wtainted = false := h.untainted
  subst ht
  have hw : wskip = none := by have := h.skip; simp only [] at this; rw [this, hsk]
  subst hw
  have hb : wbind = st.bind := h.bind
  subst hb
  simp only [] at hstk
  subst hstk
  unfold watchStep observe step
  simp only [hsk, hp, bne_self_eq_false, Bool.false_eq_true, if_false]
  rw [topFor_mapStk]
  generalize st.bind t = t'
  cases htop : topFor t' st.stack with
  | none => exact ⟨_, rfl, h⟩
  | some e =>
    simp only [Option.map_some, Option.map_none]
    obtain ⟨hmem, het⟩ := topFor_mem st.stack t' e htop
    obtain ⟨pt, sv, n, h1, h2, h3, _⟩ := SavedOk_mem env _ _ _ h.inv.saved e hmem
    have hs := h.specs e.p
    simp only [h1, Option.map_some, Option.map_none] at hs
    simp only [hs]
    cases hec : expectedConv e.p pt.spec e.o.tok (env.tspec t').via args kw with
    | none => exact ⟨_, rfl, h⟩
    | some ec =>
      simp only []
      have hwf := (h.wf e.p pt h1).1
      have hexp := modeSafe_not_exposed env pt.spec t' (h.wf e.p pt h1).2
      have hstore : st.store t' = some e.o := by
        rw [h.inv.store t', expectAt_topFor, htop]
      unfold expectedConv at hec
      cases hpre : expectedPrefix pt.spec.repl (env.tspec t').via with
      | none => simp [hpre] at hec
      | some pre =>
        simp only [hpre, Option.map_some, Option.map_none] at hec
        injection hec with hec
        have hconv : ∀ c, conv e.o (env.tspec t').via c args kw = ec := by
          intro c
          rw [← hec, h3, hwf]
          exact conv_installed e.p n pt.spec _ c args kw pre hpre hexp
        have : callAll env st t' args kw = [ec, ec, ec, ec] := by
          simp [callAll, hstore, Conv.all, hconv]
        simp only [this, convClause, beq_self_eq_true, if_true]
        exact ⟨_, rfl, h⟩

/-- rebinding a name changes neither the store nor the open patches -/
theorem step_rebind (env : Env) (w : Watch) (st : State) (a b : Nat) (h : Rel env w st) (hsk : st.skip = none) :
    ∃ w', watchStep env w (observe env st (.rebind a b)).2 = .ok w' ∧ Rel env w' (observe env st (.rebind a b)).1 := by
  have hp := rel_peeks env w st h
  obtain ⟨wspecs, wstack, wactive, wskip, wtainted, wbind, wentries⟩ := w
  have ht : wtainted = false := h.untainted
  subst ht
  have hw : wskip = none := by have := h.skip; simp only [] at this; rw [this, hsk]
  subst hw
  have hb : wbind = st.bind := h.bind
  subst hb
  unfold watchStep observe step
  simp only [peekAll] at hp ⊢
  simp only [hsk, hp, bne_self_eq_false, Bool.false_eq_true, if_false]
  exact ⟨_, rfl, ⟨h.specs, h.wf, h.stack, h.active, rfl, ⟨h.inv.store, h.inv.saved, h.inv.nodup⟩, h.actOpen, h.actNodup,
    rfl, rfl, h.entries⟩⟩

theorem present_eq (env : Env) (st : State) (t : Nat) (hi : ∀ t, st.store t = expectAt env.initStore st.stack t) :
    ((expectAt (fun t => (env.initStore t).map Obj.tok) (mapStk Obj.tok st.stack) t).isSome || (env.inh t).isSome)
      = (getOriginal env st t).1.isSome := by
  rw [expectAt_mapStk, ← hi t]
  unfold getOriginal
  cases st.store t <;> simp

theorem tok_value (p n : Nat) (s : PSpec) (h : s.repl = .value) :
    (installedObj { spec := s, new := maybeWrapNew p s } p n).tok = { id := s.newId p, tag := .asis } := by
  simp [installedObj, maybeWrapNew, h, Repl.desc?, Repl.isCallable, Shape.callable, Obj.tok, PSpec.newId]

/-- what the model installs is, for every replacement kind, the object the observer expects -/
theorem tok_installed (p n : Nat) (s : PSpec) :
    (installedObj { spec := s, new := maybeWrapNew p s } p n).tok = expectedTok p n s := by
  obtain ⟨t, repl, cr, an, vo, bh, sl, sh⟩ := s
  rcases repl with _ | _ | _ | _ | _ | _ | _ | _ | (_ | _) | (_ | _ | _) <;>
    simp [installedObj, maybeWrapNew, freshObj, Repl.desc?, Repl.isCallable, Repl.acceptsAttrs, Shape.callable, Obj.tok,
      PSpec.newId, expectedTok]

/-- the model's counter of made objects moves exactly when the observer's does -/
theorem entries_step (p : Nat) (s : PSpec) (f g : Nat → Nat) (h : ∀ q, f q = g q) (q : Nat) :
    (if s.repl.makesFresh then upd f p (f p + 1) else f) q =
      upd g p (match maybeWrapNew p s with | some _ => g p | none => g p + 1) q := by
  obtain ⟨t, repl, cr, an, vo, bh, sl, sh⟩ := s
  by_cases hq : q = p
  · subst hq
    rcases repl with _ | _ | _ | _ | _ | _ | _ | _ | (_ | _) | (_ | _ | _) <;>
      simp [Repl.makesFresh, maybeWrapNew, Repl.desc?, Repl.isCallable, Repl.acceptsAttrs, upd, h]
  · rcases repl with _ | _ | _ | _ | _ | _ | _ | _ | (_ | _) | (_ | _ | _) <;>
      simp [Repl.makesFresh, maybeWrapNew, Repl.desc?, Repl.isCallable, Repl.acceptsAttrs, upd, h, hq]

theorem isOpen_cons_of {α : Type} (q : Nat) (e : Entry α) (stk : List (Entry α)) (h : isOpen q stk = true) :
    isOpen q (e :: stk) = true := by
  simp [isOpen, h]

/-! ### `__enter__`: first the name is resolved, then `_patch.__enter__` runs on the resolved patcher -/

theorem maybeWrapNew_retarget (p : Nat) (b : Nat → Nat) (s : PSpec) : maybeWrapNew p (retarget b s) = maybeWrapNew p s := rfl

theorem resolveP_spec (b : Nat → Nat) (pt : Patcher) :
    (resolveP b pt).spec = if pt.spec.viaObject then pt.spec else retarget b pt.spec := by
  unfold resolveP; split <;> rfl

theorem resolveP_wf (b : Nat → Nat) (p : Nat) (pt : Patcher) (h : pt = { spec := pt.spec, new := maybeWrapNew p pt.spec }) :
    resolveP b pt = { spec := (resolveP b pt).spec, new := maybeWrapNew p (resolveP b pt).spec } := by
  unfold resolveP
  split
  · exact h
  · show ({ pt with spec := retarget b pt.spec } : Patcher) = _
    rw [maybeWrapNew_retarget]
    rw [h]

/-- re-resolving the name of a patcher that has no open patch: the observer stores the re-targeted spec, the model
    the re-targeted patcher; they stay in step -/
theorem rel_resolve (env : Env) (w : Watch) (st : State) (p : Nat) (pt0 : Patcher) (h : Rel env w st)
    (hpt : st.patchers p = some pt0) (hopen : isOpen p st.stack = false) :
    Rel env { w with specs := upd w.specs p (some (resolveP st.bind pt0).spec) }
      (setPatcher st p (resolveP st.bind pt0)) := by
  refine ⟨fun q => ?_, fun q pt hq => ?_, h.stack, h.active, h.skip, inv_setPatcher env st p _ h.inv hopen,
    h.actOpen, h.actNodup, h.untainted, h.bind, h.entries⟩
  · by_cases hq : q = p
    · simp [setPatcher, upd, hq]
    · simp only [setPatcher, upd, hq, if_false]; exact h.specs q
  · by_cases hqp : q = p
    · simp only [setPatcher, upd, hqp, if_true] at hq
      injection hq with hq; subst hq; rw [hqp]
      exact ⟨resolveP_wf st.bind p pt0 (h.wf p pt0 hpt).1, by
        have := (h.wf p pt0 hpt).2
        unfold resolveP; split
        · exact this
        · exact this⟩
    · simp only [setPatcher, upd, hqp, if_false] at hq; exact h.wf q pt hq

/-- the part of `enterWatch` that follows the resolution of the patcher's name -/
def enterCore (env : Env) (w : Watch) (ob : Obs) (p : Nat) (isStart : Bool) (s : PSpec) : Except String Watch :=
  let present := (expectAt (fun t => (env.initStore t).map Obj.tok) w.stack s.target).isSome
                 || (env.inh s.target).isSome
  if !s.create && !present then
    if ob.res == .raised .attributeError && ob.peeks == expectedPeeks env w then
      .ok (if isStart then w else { w with skip := some (p, 0) })
    else .error "enter-missing"
  else
    match ob.res with
    | .entered o =>
      if o != expectedTok p (w.entries p) s then
        .error (if s.repl == .value then "noncallable-as-is" else "installed-object") else
      let w' := { w with stack := { p := p, t := s.target, o := o } :: w.stack, active := if isStart then w.active ++ [p] else w.active,
                         entries := if s.repl.makesFresh then upd w.entries p (w.entries p + 1) else w.entries }
      if ob.peeks == expectedPeeks env w' then .ok w' else .error "installed"
    | _ => .error "enter"

theorem enterWatch_resolved (env : Env) (w : Watch) (ob : Obs) (p : Nat) (isStart : Bool) (s0 : PSpec)
    (hs : w.specs p = some s0) (ho : isOpen p w.stack = false) :
    enterWatch env w ob p isStart =
      enterCore env { w with specs := upd w.specs p (some (if s0.viaObject then s0 else retarget w.bind s0)) } ob p isStart
        (if s0.viaObject then s0 else retarget w.bind s0) := by
  unfold enterWatch enterCore
  simp only [hs, ho, Bool.false_eq_true, if_false]
  rfl

/-- what `step` does with `with patcher:` once the patcher is resolved -/
def enterThen (env : Env) (pt : Patcher) (p : Nat) (st : State) : State × Res :=
  match (enter env pt p st).2 with
  | .entered _ => enter env pt p st
  | _ => ({ (enter env pt p st).1 with skip := some (p, 0) }, (enter env pt p st).2)

theorem step_enter_eq (env : Env) (st : State) (p : Nat) (pt0 : Patcher) (hsk : st.skip = none)
    (hpt : st.patchers p = some pt0) :
    step env st (.enter p) = enterThen env (resolveP st.bind pt0) p (setPatcher st p (resolveP st.bind pt0)) := by
  unfold step enterThen
  simp only [hsk, hpt]
  generalize enter env _ p _ = x
  obtain ⟨a, r⟩ := x
  cases r <;> rfl

theorem step_start_eq (env : Env) (st : State) (p : Nat) (pt0 : Patcher) (hsk : st.skip = none)
    (hpt : st.patchers p = some pt0) :
    step env st (.start p) = start env (resolveP st.bind pt0) p (setPatcher st p (resolveP st.bind pt0)) := by
  unfold step
  simp only [hsk, hpt]

theorem enterCore_enter (env : Env) (w : Watch) (st : State) (p : Nat) (pt : Patcher) (op : Op) (h : Rel env w st)
    (hsk : st.skip = none) (hpt : st.patchers p = some pt) (hopen : isOpen p st.stack = false) :
    ∃ w', enterCore env w { op := op, res := (enterThen env pt p st).2, peeks := peekAll env (enterThen env pt p st).1 }
        p false pt.spec = .ok w' ∧ Rel env w' (enterThen env pt p st).1 := by
  have hp := rel_peeks env w st h
  have hstk := h.stack
  obtain ⟨wspecs, wstack, wactive, wskip, wtainted, wbind, wentries⟩ := w
  have ht : wtainted = false := h.untainted
  subst ht
  have hw : wskip = none := by have := h.skip; simp only [] at this; rw [this, hsk]
  subst hw
  simp only [] at hstk
  subst hstk
  have hinv := inv_enter env st pt p h.inv hpt hopen
  have hwf := (h.wf p pt hpt).1
  unfold enterCore enterThen
  simp only [present_eq env st pt.spec.target h.inv.store]
  unfold enter at hinv ⊢
  simp only [] at hinv ⊢
  by_cases hfail : (!pt.spec.create && (getOriginal env st pt.spec.target).1.isNone) = true
  · have hfail' : (!pt.spec.create && !(getOriginal env st pt.spec.target).1.isSome) = true := by
      simpa using hfail
    simp only [hfail, hfail', if_true]
    simp only [peekAll] at hp ⊢
    simp only [hp, beq_self_eq_true, Bool.and_self, if_true, Bool.false_eq_true, if_false]
    exact ⟨_, rfl, rel_skip env _ st _ h⟩
  · have hfail' : ¬ (!pt.spec.create && !(getOriginal env st pt.spec.target).1.isSome) = true := by
      simpa using hfail
    simp only [hfail, hfail', Bool.false_eq_true, if_false] at hinv ⊢
    have hent : wentries p = st.entries p := h.entries p
    have hnew : pt.new = maybeWrapNew p pt.spec := congrArg Patcher.new hwf
    have htok : (installedObj pt p (st.entries p)).tok = expectedTok p (wentries p) pt.spec := by
      rw [hent, hwf]
      exact tok_installed p _ pt.spec
    simp only [htok, bne_self_eq_false, Bool.false_eq_true, if_false]
    rw [← htok]
    have hrel : Rel env
        { specs := wspecs, stack := { p := p, t := pt.spec.target, o := (installedObj pt p (st.entries p)).tok } ::
            mapStk Obj.tok st.stack, active := wactive, skip := none, tainted := false, bind := wbind,
          entries := if pt.spec.repl.makesFresh then upd wentries p (wentries p + 1) else wentries }
        { st with store := upd st.store pt.spec.target (some (installedObj pt p (st.entries p))),
                  saved := upd st.saved p (some (getOriginal env st pt.spec.target)),
                  entries := upd st.entries p (match pt.new with | some _ => st.entries p | none => st.entries p + 1),
                  stack := { p := p, t := pt.spec.target, o := installedObj pt p (st.entries p) } :: st.stack } :=
      ⟨h.specs, h.wf, rfl, h.active, (by simp only [hsk]), hinv, fun q hq => isOpen_cons_of q _ _ (h.actOpen q hq),
        h.actNodup, rfl, h.bind, fun q => by
          show (if pt.spec.repl.makesFresh then upd wentries p (wentries p + 1) else wentries) q =
            upd st.entries p (match pt.new with | some _ => st.entries p | none => st.entries p + 1) q
          rw [hnew]; exact entries_step p pt.spec wentries st.entries h.entries q⟩
    have hp2 := rel_peeks env _ _ hrel
    simp only [peekAll] at hp2 ⊢
    simp only [hp2, beq_self_eq_true, if_true, Bool.false_eq_true, if_false]
    exact ⟨_, rfl, hrel⟩

theorem enterCore_start (env : Env) (w : Watch) (st : State) (p : Nat) (pt : Patcher) (op : Op) (h : Rel env w st)
    (hsk : st.skip = none) (hpt : st.patchers p = some pt) (hopen : isOpen p st.stack = false) :
    ∃ w', enterCore env w { op := op, res := (start env pt p st).2, peeks := peekAll env (start env pt p st).1 }
        p true pt.spec = .ok w' ∧ Rel env w' (start env pt p st).1 := by
  have hp := rel_peeks env w st h
  have hstk := h.stack
  obtain ⟨wspecs, wstack, wactive, wskip, wtainted, wbind, wentries⟩ := w
  have ht : wtainted = false := h.untainted
  subst ht
  have hw : wskip = none := by have := h.skip; simp only [] at this; rw [this, hsk]
  subst hw
  simp only [] at hstk
  subst hstk
  have hinv := inv_enter env st pt p h.inv hpt hopen
  have hwf := (h.wf p pt hpt).1
  unfold enterCore start
  simp only [present_eq env st pt.spec.target h.inv.store]
  unfold enter at hinv ⊢
  simp only [] at hinv ⊢
  by_cases hfail : (!pt.spec.create && (getOriginal env st pt.spec.target).1.isNone) = true
  · have hfail' : (!pt.spec.create && !(getOriginal env st pt.spec.target).1.isSome) = true := by
      simpa using hfail
    simp only [hfail, hfail', if_true]
    simp only [peekAll] at hp ⊢
    simp only [hp, beq_self_eq_true, Bool.and_self, if_true]
    exact ⟨_, rfl, h⟩
  · have hfail' : ¬ (!pt.spec.create && !(getOriginal env st pt.spec.target).1.isSome) = true := by
      simpa using hfail
    simp only [hfail, hfail', Bool.false_eq_true, if_false] at hinv ⊢
    have hent : wentries p = st.entries p := h.entries p
    have hnew : pt.new = maybeWrapNew p pt.spec := congrArg Patcher.new hwf
    have htok : (installedObj pt p (st.entries p)).tok = expectedTok p (wentries p) pt.spec := by
      rw [hent, hwf]
      exact tok_installed p _ pt.spec
    simp only [htok, bne_self_eq_false, Bool.false_eq_true, if_false]
    rw [← htok]
    have hrel : Rel env
        { specs := wspecs, stack := { p := p, t := pt.spec.target, o := (installedObj pt p (st.entries p)).tok } ::
            mapStk Obj.tok st.stack, active := wactive ++ [p], skip := none, tainted := false, bind := wbind,
          entries := if pt.spec.repl.makesFresh then upd wentries p (wentries p + 1) else wentries }
        { st with store := upd st.store pt.spec.target (some (installedObj pt p (st.entries p))),
                  saved := upd st.saved p (some (getOriginal env st pt.spec.target)),
                  entries := upd st.entries p (match pt.new with | some _ => st.entries p | none => st.entries p + 1),
                  stack := { p := p, t := pt.spec.target, o := installedObj pt p (st.entries p) } :: st.stack,
                  active := st.active ++ [p] } := by
      have hact : wactive = st.active := h.active
      have hnot : p ∉ st.active := fun hin => by
        have := h.actOpen p hin; rw [hopen] at this; cases this
      refine ⟨h.specs, h.wf, rfl, (by simp only [hact]), (by simp only [hsk]), inv_active env _ _ hinv, fun q hq => ?_, ?_, rfl,
        h.bind, fun q => ?_⟩
      · simp only [List.mem_append, List.mem_singleton] at hq
        cases hq with
        | inl hq => exact isOpen_cons_of q _ _ (h.actOpen q hq)
        | inr hq => simp [isOpen, hq]
      · rw [List.nodup_append]
        refine ⟨h.actNodup, (by simp), fun a ha b hb => ?_⟩
        simp only [List.mem_singleton] at hb
        subst hb
        exact fun hab => hnot (hab ▸ ha)
      · show (if pt.spec.repl.makesFresh then upd wentries p (wentries p + 1) else wentries) q =
          upd st.entries p (match pt.new with | some _ => st.entries p | none => st.entries p + 1) q
        rw [hnew]; exact entries_step p pt.spec wentries st.entries h.entries q
    have hp2 := rel_peeks env _ _ hrel
    simp only [peekAll] at hp2 ⊢
    simp only [hp2, beq_self_eq_true, if_true]
    exact ⟨_, rfl, hrel⟩

theorem step_enter (env : Env) (w : Watch) (st : State) (p : Nat) (h : Rel env w st) (hsk : st.skip = none) :
    ∃ w', watchStep env w (observe env st (.enter p)).2 = .ok w' ∧
      (w'.tainted = true ∨ Rel env w' (observe env st (.enter p)).1) := by
  have hwsk : w.skip = none := by rw [h.skip, hsk]
  have hs := h.specs p
  have hwstep : ∀ ob : Obs, ob.op = .enter p → watchStep env w ob = enterWatch env w ob p false := by
    intro ob hob
    unfold watchStep
    simp only [h.untainted, hwsk, hob, Bool.false_eq_true, if_false]
  rw [hwstep _ rfl]
  cases hpt : st.patchers p with
  | none =>
    have hp := rel_peeks env w st h
    rw [hpt] at hs
    simp only [Option.map_none] at hs
    unfold enterWatch observe step
    simp only [hsk, hpt, hs]
    simp only [peekAll] at hp ⊢
    simp only [hp, beq_self_eq_true, Bool.and_self, if_true, Bool.false_eq_true, if_false]
    exact ⟨_, rfl, Or.inr (rel_skip env _ st _ h)⟩
  | some pt0 =>
    rw [hpt] at hs
    simp only [Option.map_some] at hs
    cases hopen : isOpen p st.stack with
    | true =>
      have ho : isOpen p w.stack = true := by rw [h.stack, isOpen_mapStk]; exact hopen
      unfold enterWatch
      simp only [hs, ho, if_true]
      exact ⟨_, rfl, Or.inl rfl⟩
    | false =>
      have ho : isOpen p w.stack = false := by rw [h.stack, isOpen_mapStk]; exact hopen
      have hsp : (if pt0.spec.viaObject then pt0.spec else retarget w.bind pt0.spec) = (resolveP st.bind pt0).spec := by
        rw [h.bind, resolveP_spec]
      rw [enterWatch_resolved env w _ p false pt0.spec hs ho, hsp]
      have hrel := rel_resolve env w st p pt0 h hpt hopen
      obtain ⟨w', h1, h2⟩ := enterCore_enter env _ _ p (resolveP st.bind pt0) (.enter p) hrel hsk
        (setPatcher_patchers st p _) hopen
      refine ⟨w', ?_, Or.inr ?_⟩
      · unfold observe
        simp only [step_enter_eq env st p pt0 hsk hpt]
        exact h1
      · unfold observe
        simp only [step_enter_eq env st p pt0 hsk hpt]
        exact h2

theorem step_start (env : Env) (w : Watch) (st : State) (p : Nat) (h : Rel env w st) (hsk : st.skip = none) :
    ∃ w', watchStep env w (observe env st (.start p)).2 = .ok w' ∧
      (w'.tainted = true ∨ Rel env w' (observe env st (.start p)).1) := by
  have hwsk : w.skip = none := by rw [h.skip, hsk]
  have hs := h.specs p
  have hwstep : ∀ ob : Obs, ob.op = .start p → watchStep env w ob = enterWatch env w ob p true := by
    intro ob hob
    unfold watchStep
    simp only [h.untainted, hwsk, hob, Bool.false_eq_true, if_false]
  rw [hwstep _ rfl]
  cases hpt : st.patchers p with
  | none =>
    have hp := rel_peeks env w st h
    rw [hpt] at hs
    simp only [Option.map_none] at hs
    unfold enterWatch observe step
    simp only [hsk, hpt, hs]
    simp only [peekAll] at hp ⊢
    simp only [hp, beq_self_eq_true, Bool.and_self, if_true, Bool.false_eq_true, if_false]
    exact ⟨_, rfl, Or.inr h⟩
  | some pt0 =>
    rw [hpt] at hs
    simp only [Option.map_some] at hs
    cases hopen : isOpen p st.stack with
    | true =>
      have ho : isOpen p w.stack = true := by rw [h.stack, isOpen_mapStk]; exact hopen
      unfold enterWatch
      simp only [hs, ho, if_true]
      exact ⟨_, rfl, Or.inl rfl⟩
    | false =>
      have ho : isOpen p w.stack = false := by rw [h.stack, isOpen_mapStk]; exact hopen
      have hsp : (if pt0.spec.viaObject then pt0.spec else retarget w.bind pt0.spec) = (resolveP st.bind pt0).spec := by
        rw [h.bind, resolveP_spec]
      rw [enterWatch_resolved env w _ p true pt0.spec hs ho, hsp]
      have hrel := rel_resolve env w st p pt0 h hpt hopen
      obtain ⟨w', h1, h2⟩ := enterCore_start env _ _ p (resolveP st.bind pt0) (.start p) hrel hsk
        (setPatcher_patchers st p _) hopen
      refine ⟨w', ?_, Or.inr ?_⟩
      · unfold observe
        simp only [step_start_eq env st p pt0 hsk hpt]
        exact h1
      · unfold observe
        simp only [step_start_eq env st p pt0 hsk hpt]
        exact h2



theorem isOpen_eraseP_ne {α : Type} (p q : Nat) (stk : List (Entry α)) (h : isOpen q stk = true) (hne : q ≠ p) :
    isOpen q (eraseP p stk) = true := by
  induction stk with
  | nil => simp [isOpen] at h
  | cons e stk ih =>
    simp only [eraseP]
    simp only [isOpen, Bool.or_eq_true, beq_iff_eq] at h
    split
    · rename_i hep
      cases h with
      | inl h => exact absurd (h ▸ hep) hne
      | inr h => exact h
    · cases h with
      | inl h => simp [isOpen, h]
      | inr h => simp [isOpen, ih h]

theorem exit_bind (env : Env) (pt : Patcher) (p : Nat) (exc : Bool) (st : State) :
    (exit env pt p exc st).1.bind = st.bind := by
  unfold exit; split <;> rfl

theorem exit_entries (env : Env) (pt : Patcher) (p : Nat) (exc : Bool) (st : State) :
    (exit env pt p exc st).1.entries = st.entries := by
  unfold exit; split <;> rfl

/-- ending a well-nested patch: the model's `__exit__` succeeds and the relation continues with the entry removed -/
theorem rel_exit (env : Env) (w : Watch) (st : State) (p : Nat) (pt : Patcher) (exc : Bool) (h : Rel env w st)
    (hpt : st.patchers p = some pt) (htop : isTop pt.spec.target p st.stack = true) (hact : p ∉ st.active) :
    (exit env pt p exc st).2 = .exited exc ∧
      Rel env { w with stack := eraseP p w.stack } (exit env pt p exc st).1 := by
  have hinv := inv_exit env st pt p exc h.inv hpt htop
  obtain ⟨hres, hstk, hactive, hpat, hskip⟩ := exit_res env st pt p exc h.inv hpt htop
  refine ⟨hres, ⟨?_, ?_, ?_, ?_, ?_, hinv, ?_, ?_, h.untainted, ?_, ?_⟩⟩
  · intro q; rw [hpat]; exact h.specs q
  · intro q pt' hq; rw [hpat] at hq; exact h.wf q pt' hq
  · show eraseP p w.stack = _
    rw [hstk, h.stack, eraseP_mapStk]
  · show w.active = _
    rw [hactive]; exact h.active
  · show w.skip = _
    rw [hskip]; exact h.skip
  · intro q hq
    rw [hactive] at hq
    rw [hstk]
    exact isOpen_eraseP_ne p q _ (h.actOpen q hq) (fun hqp => hact (hqp ▸ hq))
  · rw [hactive]; exact h.actNodup
  · show w.bind = _
    rw [exit_bind]; exact h.bind
  · intro q
    show w.entries q = _
    rw [exit_entries]; exact h.entries q

theorem rel_stop (env : Env) (w : Watch) (st : State) (p : Nat) (pt : Patcher) (h : Rel env w st)
    (hpt : st.patchers p = some pt) (htop : isTop pt.spec.target p st.stack = true) (hact : p ∈ st.active) :
    (stop env pt p st).2 = .stopped ∧
      Rel env { w with stack := eraseP p w.stack, active := w.active.erase p } (stop env pt p st).1 := by
  have hrel0 : Rel env { w with active := w.active.erase p } { st with active := st.active.erase p } :=
    ⟨h.specs, h.wf, h.stack, (by show w.active.erase p = st.active.erase p; rw [h.active]), h.skip,
      inv_active env st _ h.inv,
      fun q hq => h.actOpen q (List.mem_of_mem_erase hq), h.actNodup.erase p, h.untainted, h.bind, h.entries⟩
  have hnot : p ∉ ({ st with active := st.active.erase p } : State).active := by
    show p ∉ st.active.erase p
    exact fun hin => (List.Nodup.mem_erase_iff h.actNodup).1 hin |>.1 rfl
  obtain ⟨hres, hrel⟩ := rel_exit env _ _ p pt false hrel0 hpt htop hnot
  unfold stop
  simp only [hact, if_true]
  simp only [] at hres hrel
  rw [hres]
  exact ⟨rfl, hrel⟩

theorem step_exit (env : Env) (w : Watch) (st : State) (p : Nat) (exc : Bool) (h : Rel env w st)
    (hsk : st.skip = none) :
    ∃ w', watchStep env w (observe env st (.exit p exc)).2 = .ok w' ∧
      (w'.tainted = true ∨ Rel env w' (observe env st (.exit p exc)).1) := by
  have hp := rel_peeks env w st h
  have hs := h.specs p
  have hstk := h.stack
  have hact := h.active
  obtain ⟨wspecs, wstack, wactive, wskip, wtainted, wbind, wentries⟩ := w
  have ht : wtainted = false := h.untainted
  subst ht
  have hw : wskip = none := by have := h.skip; simp only [] at this; rw [this, hsk]
  subst hw
  simp only [] at hs hstk hact
  cases hpt : st.patchers p with
  | none =>
    simp only [hpt, Option.map_none] at hs
    unfold watchStep observe step
    simp only [hsk, hpt, hs, Bool.false_eq_true, if_false]
    simp only [peekAll] at hp ⊢
    simp only [hp, beq_self_eq_true, Bool.and_self, if_true]
    exact ⟨_, rfl, Or.inr h⟩
  | some pt =>
    simp only [hpt, Option.map_some] at hs
    by_cases hok : isTop pt.spec.target p st.stack = true ∧ p ∉ st.active
    · obtain ⟨hres, hrel⟩ := rel_exit env _ st p pt exc h hpt hok.1 hok.2
      have hp2 := rel_peeks env _ _ hrel
      have htop' : isTop pt.spec.target p wstack = true := by rw [hstk, isTop_mapStk]; exact hok.1
      have hact' : wactive.contains p = false := by rw [hact]; simpa using hok.2
      refine ⟨{ specs := wspecs, stack := eraseP p wstack, active := wactive, skip := none, tainted := false, bind := wbind, entries := wentries }, ?_, Or.inr ?_⟩
      · unfold watchStep observe step
        simp only [hsk, hpt, hs, htop', hact', Bool.false_eq_true, if_false, Bool.not_true, Bool.or_self]
        simp only [hres, hp2, bne_self_eq_false, Bool.false_eq_true, if_false]
      · unfold observe step
        simp only [hsk, hpt]
        exact hrel
    · refine ⟨{ specs := wspecs, stack := wstack, active := wactive, skip := none, tainted := true, bind := wbind, entries := wentries }, ?_, Or.inl rfl⟩
      have : (!isTop pt.spec.target p wstack || wactive.contains p) = true := by
        rw [hstk, isTop_mapStk, hact]
        by_cases h1 : isTop pt.spec.target p st.stack = true
        · have : p ∈ st.active := by
            apply Classical.byContradiction; intro h2; exact hok ⟨h1, h2⟩
          simp [h1, this]
        · simp [h1]
      unfold watchStep observe step
      simp only [hsk, hpt, hs, this, Bool.false_eq_true, if_false, if_true]

theorem step_stop (env : Env) (w : Watch) (st : State) (p : Nat) (h : Rel env w st) (hsk : st.skip = none) :
    ∃ w', watchStep env w (observe env st (.stop p)).2 = .ok w' ∧
      (w'.tainted = true ∨ Rel env w' (observe env st (.stop p)).1) := by
  have hp := rel_peeks env w st h
  have hs := h.specs p
  have hstk := h.stack
  have hact := h.active
  obtain ⟨wspecs, wstack, wactive, wskip, wtainted, wbind, wentries⟩ := w
  have ht : wtainted = false := h.untainted
  subst ht
  have hw : wskip = none := by have := h.skip; simp only [] at this; rw [this, hsk]
  subst hw
  simp only [] at hs hstk hact
  cases hpt : st.patchers p with
  | none =>
    simp only [hpt, Option.map_none] at hs
    unfold watchStep observe step
    simp only [hsk, hpt, hs, Bool.false_eq_true, if_false]
    simp only [peekAll] at hp ⊢
    simp only [hp, beq_self_eq_true, Bool.and_self, if_true]
    exact ⟨_, rfl, Or.inr h⟩
  | some pt =>
    simp only [hpt, Option.map_some] at hs
    by_cases hin : p ∈ st.active
    · have hact' : wactive.contains p = true := by rw [hact]; simpa using hin
      by_cases htop : isTop pt.spec.target p st.stack = true
      · obtain ⟨hres, hrel⟩ := rel_stop env _ st p pt h hpt htop hin
        have hp2 := rel_peeks env _ _ hrel
        have htop' : isTop pt.spec.target p wstack = true := by rw [hstk, isTop_mapStk]; exact htop
        refine ⟨{ specs := wspecs, stack := eraseP p wstack, active := wactive.erase p, skip := none,
                  tainted := false, bind := wbind, entries := wentries }, ?_, Or.inr ?_⟩
        · unfold watchStep observe step
          simp only [hsk, hpt, hs, htop', hact', Bool.false_eq_true, if_false, Bool.not_true]
          simp only [hres, hp2, bne_self_eq_false, Bool.false_eq_true, if_false]
        · unfold observe step
          simp only [hsk, hpt]
          exact hrel
      · refine ⟨{ specs := wspecs, stack := wstack, active := wactive, skip := none, tainted := true, bind := wbind, entries := wentries }, ?_, Or.inl rfl⟩
        have htop' : isTop pt.spec.target p wstack = false := by
          rw [hstk, isTop_mapStk]; simpa using htop
        unfold watchStep observe step
        simp only [hsk, hpt, hs, htop', hact', Bool.false_eq_true, if_false, Bool.not_true, Bool.not_false, if_true]
    · have hact' : wactive.contains p = false := by rw [hact]; simpa using hin
      have hstop : stop env pt p st = (st, .notActive) := by
        unfold stop; simp only [hin, if_false]
      unfold watchStep observe step
      simp only [hsk, hpt, hs, hact', hstop, Bool.false_eq_true, if_false, Bool.not_false, if_true]
      simp only [peekAll] at hp ⊢
      simp only [hp, beq_self_eq_true, Bool.and_self, if_true]
      exact ⟨_, rfl, Or.inr h⟩

/-- the index-based loop of `_patch_stopall` over a duplicate-free list of started patches is "stop each one, most
    recently started first" - what the observer expects -/
theorem stopall_sim (env : Env) (r : List Nat) : ∀ (w : Watch) (st : State), Rel env w st → st.active = r.reverse →
    match stopallWatch w r with
    | none => True
    | some w' => (stopallLoop env r.length st).2 = .unit ∧ Rel env w' (stopallLoop env r.length st).1 := by
  induction r with
  | nil => intro w st h _; exact ⟨rfl, h⟩
  | cons p ps ih =>
    intro w st h hact
    simp only [List.reverse_cons] at hact
    have hin : p ∈ st.active := by rw [hact]; simp
    obtain ⟨e, hemem, hep⟩ := (isOpen_true_iff p st.stack).1 (h.actOpen p hin)
    obtain ⟨pt, _, _, hpt, _⟩ := SavedOk_mem env _ _ _ h.inv.saved e hemem
    rw [hep] at hpt
    have hs := h.specs p
    simp only [hpt, Option.map_some] at hs
    unfold stopallWatch
    simp only [hs]
    by_cases htop : isTop pt.spec.target p st.stack = true
    · have htop' : isTop pt.spec.target p w.stack = true := by rw [h.stack, isTop_mapStk]; exact htop
      simp only [htop', if_true]
      obtain ⟨hres, hrel⟩ := rel_stop env w st p pt h hpt htop hin
      have hnd : p ∉ ps.reverse := by
        have := h.actNodup
        rw [hact, List.nodup_append] at this
        exact fun hmem => this.2.2 p hmem p (by simp) rfl
      have hact1 : (stop env pt p st).1.active = ps.reverse := by
        have := hrel.active
        simp only [] at this
        rw [← this, h.active, hact, List.erase_append_right _ hnd]
        simp
      have := ih _ _ hrel hact1
      have hidx : st.active[ps.length]? = some p := by
        rw [hact]
        simp [List.getElem?_append_right]
      have hloop : stopallLoop env (ps.length + 1) st = stopallLoop env ps.length (stop env pt p st).1 := by
        conv => lhs; unfold stopallLoop
        simp only [hidx, hpt]
        rw [show stop env pt p st = ((stop env pt p st).1, (stop env pt p st).2) from rfl, hres]
      simp only [List.length_cons, hloop]
      exact this
    · have htop' : isTop pt.spec.target p w.stack = false := by
        rw [h.stack, isTop_mapStk]; simpa using htop
      simp only [htop', Bool.false_eq_true, if_false]

theorem step_stopall (env : Env) (w : Watch) (st : State) (h : Rel env w st) (hsk : st.skip = none) :
    ∃ w', watchStep env w (observe env st .stopall).2 = .ok w' ∧
      (w'.tainted = true ∨ Rel env w' (observe env st .stopall).1) := by
  have hsim := stopall_sim env st.active.reverse w st h (by simp)
  have hact := h.active
  have hsk' : w.skip = none := by rw [h.skip, hsk]
  simp only [List.length_reverse] at hsim
  unfold watchStep observe step
  simp only [hsk, hsk', h.untainted, hact, Bool.false_eq_true, if_false]
  cases hw : stopallWatch w st.active.reverse with
  | none => exact ⟨_, rfl, Or.inl rfl⟩
  | some w' =>
    simp only [hw] at hsim
    have hp2 := rel_peeks env _ _ hsim.2
    simp only [hsim.1, hp2, bne_self_eq_false, Bool.false_eq_true, if_false]
    exact ⟨_, rfl, Or.inr hsim.2⟩

/-! ### shape and frame: what every observation of the model satisfies, in any state -/

theorem enter_res (env : Env) (pt : Patcher) (p : Nat) (st : State) :
    (∃ x, (enter env pt p st).2 = .raised x) ∨ (∃ o, (enter env pt p st).2 = .entered o) := by
  unfold enter
  simp only []
  split
  · exact Or.inl ⟨_, rfl⟩
  · exact Or.inr ⟨_, rfl⟩

theorem exit_res' (env : Env) (pt : Patcher) (p : Nat) (exc : Bool) (st : State) :
    (∃ x, (exit env pt p exc st).2 = .raised x) ∨ (exit env pt p exc st).2 = .exited exc := by
  unfold exit
  split
  · exact Or.inl ⟨_, rfl⟩
  · exact Or.inr rfl

theorem stop_res (env : Env) (pt : Patcher) (p : Nat) (st : State) :
    (∃ x, (stop env pt p st).2 = .raised x) ∨ (stop env pt p st).2 = .stopped ∨ (stop env pt p st).2 = .notActive := by
  unfold stop
  split
  · rcases exit_res' env pt p false { st with active := st.active.erase p } with ⟨x, hx⟩ | hx
    · refine Or.inl ⟨x, ?_⟩
      generalize exit env pt p false { st with active := st.active.erase p } = r at hx ⊢
      obtain ⟨a, b⟩ := r
      simp only [] at hx
      subst hx; rfl
    · refine Or.inr (Or.inl ?_)
      generalize exit env pt p false { st with active := st.active.erase p } = r at hx ⊢
      obtain ⟨a, b⟩ := r
      simp only [] at hx
      subst hx; rfl
  · exact Or.inr (Or.inr rfl)

theorem stopall_res (env : Env) (i : Nat) : ∀ st : State,
    (∃ x, (stopallLoop env i st).2 = .raised x) ∨ (stopallLoop env i st).2 = .unit := by
  induction i with
  | zero => intro st; exact Or.inr rfl
  | succ i ih =>
    intro st
    unfold stopallLoop
    split
    · exact Or.inr rfl
    · split
      · exact Or.inl ⟨_, rfl⟩
      · rename_i pt _
        generalize stop env pt _ st = r
        obtain ⟨st', r⟩ := r
        cases r <;> first | exact ih _ | exact Or.inl ⟨_, rfl⟩

theorem callAll_length (env : Env) (st : State) (t : Nat) (args : List Nat) (kw : List (Nat × Nat)) :
    (callAll env st t args kw).length = 4 := by
  unfold callAll
  split
  · simp [Conv.all]
  · split <;> simp [Conv.all]

theorem step_fits (env : Env) (st : State) (op : Op) : (step env st op).2.fits op = true := by
  unfold step
  cases hsk : st.skip with
  | some qd =>
    obtain ⟨q, d⟩ := qd
    cases op with
    | enter p => simp only []; split <;> rfl
    | exit p exc =>
      simp only []
      split
      · cases d <;> rfl
      · rfl
    | _ => rfl
  | none =>
    cases op with
    | construct p s =>
      simp only []
      split
      · rfl
      · split <;> rfl
    | enter p =>
      simp only []
      split
      · rfl
      · rename_i pt0 _
        rcases enter_res env (resolveP st.bind pt0) p (setPatcher st p (resolveP st.bind pt0)) with ⟨x, hx⟩ | ⟨o, ho⟩
        · generalize enter env (resolveP st.bind pt0) p (setPatcher st p (resolveP st.bind pt0)) = r at hx ⊢
          obtain ⟨a, b⟩ := r
          simp only [] at hx
          subst hx; rfl
        · generalize enter env (resolveP st.bind pt0) p (setPatcher st p (resolveP st.bind pt0)) = r at ho ⊢
          obtain ⟨a, b⟩ := r
          simp only [] at ho
          subst ho; rfl
    | exit p exc =>
      simp only []
      split
      · rfl
      · rename_i pt _
        rcases exit_res' env pt p exc st with ⟨x, hx⟩ | hx <;> rw [hx] <;> rfl
    | start p =>
      simp only []
      split
      · rfl
      · rename_i pt0 _
        unfold start
        rcases enter_res env (resolveP st.bind pt0) p (setPatcher st p (resolveP st.bind pt0)) with ⟨x, hx⟩ | ⟨o, ho⟩
        · generalize enter env (resolveP st.bind pt0) p (setPatcher st p (resolveP st.bind pt0)) = r at hx ⊢
          obtain ⟨a, b⟩ := r
          simp only [] at hx
          subst hx; rfl
        · generalize enter env (resolveP st.bind pt0) p (setPatcher st p (resolveP st.bind pt0)) = r at ho ⊢
          obtain ⟨a, b⟩ := r
          simp only [] at ho
          subst ho; rfl
    | stop p =>
      simp only []
      split
      · rfl
      · rename_i pt _
        rcases stop_res env pt p st with ⟨x, hx⟩ | hx | hx <;> rw [hx] <;> rfl
    | stopall =>
      simp only []
      rcases stopall_res env st.active.length st with ⟨x, hx⟩ | hx <;> rw [hx] <;> rfl
    | call t args kw =>
      simp only [Res.fits, callAll_length, beq_self_eq_true]
    | peek => rfl
    | rebind a b => rfl

theorem step_readOnly (env : Env) (st : State) (op : Op) (h : op.readOnly = true) : (step env st op).1.store = st.store := by
  unfold step
  cases hsk : st.skip with
  | some qd => cases op <;> first | rfl | cases h
  | none =>
    cases op with
    | construct p s =>
      simp only []
      split
      · rfl
      · split <;> rfl
    | call t args kw => rfl
    | peek => rfl
    | rebind a b => rfl
    | _ => cases h

theorem peekAll_length (env : Env) (st : State) : (peekAll env st).length = env.targets.length := by
  simp [peekAll]

theorem observe_shape (env : Env) (st : State) (op : Op) : shapeOk env (observe env st op).2 = true := by
  unfold shapeOk observe
  simp only [peekAll_length, beq_self_eq_true, Bool.true_and]
  exact step_fits env st op

/-- the observer is either out of its claims (tainted) or in step with the model -/
def Sim (env : Env) (w : Watch) (st : State) : Prop := w.tainted = true ∨ Rel env w st

theorem sim_step (env : Env) (w : Watch) (st : State) (op : Op) (hc : op.constructible env.defaults = true)
    (hm : op.modeSafe env = true) (h : Sim env w st) :
    ∃ w', watchStep env w (observe env st op).2 = .ok w' ∧ Sim env w' (observe env st op).1 := by
  cases h with
  | inl ht => exact ⟨w, by unfold watchStep; simp [ht], Or.inl ht⟩
  | inr h =>
    cases hsk : st.skip with
    | some qd =>
      obtain ⟨w', h1, h2⟩ := step_skipping env w st op h qd.1 qd.2 hsk
      exact ⟨w', h1, Or.inr h2⟩
    | none =>
      cases op with
      | construct p s =>
        obtain ⟨w', h1, h2⟩ := step_construct env w st p s hc hm h hsk
        exact ⟨w', h1, Or.inr h2⟩
      | enter p => exact step_enter env w st p h hsk
      | exit p exc => exact step_exit env w st p exc h hsk
      | start p => exact step_start env w st p h hsk
      | stop p => exact step_stop env w st p h hsk
      | stopall => exact step_stopall env w st h hsk
      | call t args kw =>
        obtain ⟨w', h1, h2⟩ := step_call env w st t args kw h hsk
        exact ⟨w', h1, Or.inr h2⟩
      | peek =>
        obtain ⟨w', h1, h2⟩ := step_peek env w st h hsk
        exact ⟨w', h1, Or.inr h2⟩
      | rebind a b =>
        obtain ⟨w', h1, h2⟩ := step_rebind env w st a b h hsk
        exact ⟨w', h1, Or.inr h2⟩

theorem watchRun_ok (env : Env) (ops : List Op) (hc : ops.all (Op.constructible env.defaults) = true)
    (hm : ops.all (Op.modeSafe env) = true) (w : Watch) (st : State)
    (h : Sim env w st) : ∃ w', watchRun env w (peekAll env st) (runFrom env st ops) = .ok w' := by
  induction ops generalizing w st with
  | nil => exact ⟨w, rfl⟩
  | cons op ops ih =>
    simp only [List.all_cons, Bool.and_eq_true] at hc hm
    obtain ⟨w', h1, h2⟩ := sim_step env w st op hc.1 hm.1 h
    have hshape := observe_shape env st op
    have hframe : ((observe env st op).2.op.readOnly && (observe env st op).2.peeks != peekAll env st) = false := by
      cases hro : op.readOnly with
      | false => simp [observe, hro]
      | true =>
        have : (observe env st op).2.peeks = peekAll env st := by
          show peekAll env (step env st op).1 = peekAll env st
          unfold peekAll; rw [step_readOnly env st op hro]
        simp [this]
    simp only [runFrom, watchRun, h1, hshape, hframe, Bool.not_true, Bool.false_eq_true, if_false]
    exact ih hc.2 hm.2 _ _ h2

theorem initPeeks_eq (env : Env) : initPeeks env = peekAll env (init env) := rfl

end AsynqModel.Mock
