import AsynqModel.Lib.Batching
/-! helper lemmas for C11, part 1: how the primitive state updates act on the accessors of a snapshot -/
namespace AsynqModel.Batching
set_option linter.unusedSimpArgs false

theorem modify_append_left {α} (l : List α) (x : α) (b : Nat) (f : α → α) (h : b < l.length) :
    (l ++ [x]).modify b f = l.modify b f ++ [x] := by
  apply List.ext_getElem?
  intro j
  simp only [List.getElem?_modify, List.getElem?_append, List.length_modify]
  by_cases hj : j < l.length
  · simp [hj]
  · have : ¬ b = j := by omega
    simp [hj, this]

section eff
variable (s : St) (i j b c p : Nat) (o : Outc) (sp : Option Nat) (lk : Option Link)

/-! setItemOut -/
@[simp] theorem setItemOut_kind : (s.setItemOut i o).kind = s.kind := rfl
@[simp] theorem setItemOut_keep : (s.setItemOut i o).keep = s.keep := rfl
@[simp] theorem setItemOut_active : (s.setItemOut i o).active = s.active := rfl
@[simp] theorem setItemOut_batches : (s.setItemOut i o).batches = s.batches := rfl
@[simp] theorem setItemOut_bout : (s.setItemOut i o).bout b = s.bout b := rfl
@[simp] theorem setItemOut_bitems : (s.setItemOut i o).bitems b = s.bitems b := rfl
@[simp] theorem setItemOut_runs : (s.setItemOut i o).runs b = s.runs b := rfl
@[simp] theorem setItemOut_len : (s.setItemOut i o).items.length = s.items.length := by simp [St.setItemOut]
@[simp] theorem setItemOut_ibatch : (s.setItemOut i o).ibatch j = s.ibatch j := by
  simp only [St.ibatch, St.setItemOut, List.getElem?_modify]; cases s.items[j]? <;> simp; split <;> rfl
@[simp] theorem setItemOut_payload : (s.setItemOut i o).payload j = s.payload j := by
  simp only [St.payload, St.setItemOut, List.getElem?_modify]; cases s.items[j]? <;> simp; split <;> rfl
@[simp] theorem setItemOut_ispawn : (s.setItemOut i o).ispawn j = s.ispawn j := by
  simp only [St.ispawn, St.setItemOut, List.getElem?_modify]; cases s.items[j]? <;> simp; split <;> rfl
@[simp] theorem setItemOut_ilink : (s.setItemOut i o).ilink j = s.ilink j := by
  simp only [St.ilink, St.setItemOut, List.getElem?_modify]; cases s.items[j]? <;> simp; split <;> rfl
theorem setItemOut_iout : (s.setItemOut i o).iout j = if j = i ∧ i < s.items.length then some o else s.iout j := by
  simp only [St.iout, St.setItemOut, List.getElem?_modify]
  by_cases h : i = j
  · subst h
    by_cases hl : i < s.items.length
    · simp [hl]
    · simp [hl, List.getElem?_eq_none_iff.mpr (Nat.le_of_not_lt hl)]
  · have : ¬ j = i := fun e => h e.symm
    cases s.items[j]? <;> simp [h, this]

/-! setBatchOut -/
@[simp] theorem setBatchOut_kind : (s.setBatchOut b o).kind = s.kind := rfl
@[simp] theorem setBatchOut_keep : (s.setBatchOut b o).keep = s.keep := rfl
@[simp] theorem setBatchOut_active : (s.setBatchOut b o).active = s.active := rfl
@[simp] theorem setBatchOut_items : (s.setBatchOut b o).items = s.items := rfl
@[simp] theorem setBatchOut_iout : (s.setBatchOut b o).iout i = s.iout i := rfl
@[simp] theorem setBatchOut_ibatch : (s.setBatchOut b o).ibatch i = s.ibatch i := rfl
@[simp] theorem setBatchOut_payload : (s.setBatchOut b o).payload i = s.payload i := rfl
@[simp] theorem setBatchOut_ispawn : (s.setBatchOut b o).ispawn i = s.ispawn i := rfl
@[simp] theorem setBatchOut_ilink : (s.setBatchOut b o).ilink i = s.ilink i := rfl
@[simp] theorem setBatchOut_len : (s.setBatchOut b o).batches.length = s.batches.length := by simp [St.setBatchOut]
@[simp] theorem setBatchOut_bitems : (s.setBatchOut b o).bitems c = s.bitems c := by
  simp only [St.bitems, St.setBatchOut, List.getElem?_modify]; cases s.batches[c]? <;> simp; split <;> rfl
@[simp] theorem setBatchOut_runs : (s.setBatchOut b o).runs c = s.runs c := by
  simp only [St.runs, St.setBatchOut, List.getElem?_modify]; cases s.batches[c]? <;> simp; split <;> rfl
theorem setBatchOut_bout : (s.setBatchOut b o).bout c = if c = b ∧ b < s.batches.length then some o else s.bout c := by
  simp only [St.bout, St.setBatchOut, List.getElem?_modify]
  by_cases h : b = c
  · subst h
    by_cases hl : b < s.batches.length
    · simp [hl]
    · simp [hl, List.getElem?_eq_none_iff.mpr (Nat.le_of_not_lt hl)]
  · have : ¬ c = b := fun e => h e.symm
    cases s.batches[c]? <;> simp [h, this]

/-! incRuns -/
@[simp] theorem incRuns_kind : (s.incRuns b).kind = s.kind := rfl
@[simp] theorem incRuns_keep : (s.incRuns b).keep = s.keep := rfl
@[simp] theorem incRuns_active : (s.incRuns b).active = s.active := rfl
@[simp] theorem incRuns_items : (s.incRuns b).items = s.items := rfl
@[simp] theorem incRuns_iout : (s.incRuns b).iout i = s.iout i := rfl
@[simp] theorem incRuns_ibatch : (s.incRuns b).ibatch i = s.ibatch i := rfl
@[simp] theorem incRuns_payload : (s.incRuns b).payload i = s.payload i := rfl
@[simp] theorem incRuns_ispawn : (s.incRuns b).ispawn i = s.ispawn i := rfl
@[simp] theorem incRuns_ilink : (s.incRuns b).ilink i = s.ilink i := rfl
@[simp] theorem incRuns_len : (s.incRuns b).batches.length = s.batches.length := by simp [St.incRuns]
@[simp] theorem incRuns_bitems : (s.incRuns b).bitems c = s.bitems c := by
  simp only [St.bitems, St.incRuns, List.getElem?_modify]; cases s.batches[c]? <;> simp; split <;> rfl
@[simp] theorem incRuns_bout : (s.incRuns b).bout c = s.bout c := by
  simp only [St.bout, St.incRuns, List.getElem?_modify]; cases s.batches[c]? <;> simp; split <;> rfl
theorem incRuns_runs : (s.incRuns b).runs c = if c = b ∧ b < s.batches.length then s.runs c + 1 else s.runs c := by
  simp only [St.runs, St.incRuns, List.getElem?_modify]
  by_cases h : b = c
  · subst h
    by_cases hl : b < s.batches.length
    · simp [hl]
    · simp [hl, List.getElem?_eq_none_iff.mpr (Nat.le_of_not_lt hl)]
  · have : ¬ c = b := fun e => h e.symm
    cases s.batches[c]? <;> simp [h, this]

/-! clearItems -/
@[simp] theorem clearItems_kind : (s.clearItems b).kind = s.kind := rfl
@[simp] theorem clearItems_keep : (s.clearItems b).keep = s.keep := rfl
@[simp] theorem clearItems_active : (s.clearItems b).active = s.active := rfl
@[simp] theorem clearItems_items : (s.clearItems b).items = s.items := rfl
@[simp] theorem clearItems_iout : (s.clearItems b).iout i = s.iout i := rfl
@[simp] theorem clearItems_ibatch : (s.clearItems b).ibatch i = s.ibatch i := rfl
@[simp] theorem clearItems_payload : (s.clearItems b).payload i = s.payload i := rfl
@[simp] theorem clearItems_ispawn : (s.clearItems b).ispawn i = s.ispawn i := rfl
@[simp] theorem clearItems_ilink : (s.clearItems b).ilink i = s.ilink i := rfl
@[simp] theorem clearItems_len : (s.clearItems b).batches.length = s.batches.length := by simp [St.clearItems]
@[simp] theorem clearItems_bout : (s.clearItems b).bout c = s.bout c := by
  simp only [St.bout, St.clearItems, List.getElem?_modify]; cases s.batches[c]? <;> simp; split <;> rfl
@[simp] theorem clearItems_runs : (s.clearItems b).runs c = s.runs c := by
  simp only [St.runs, St.clearItems, List.getElem?_modify]; cases s.batches[c]? <;> simp; split <;> rfl
theorem clearItems_bitems : (s.clearItems b).bitems c = if c = b then [] else s.bitems c := by
  simp only [St.bitems, St.clearItems, List.getElem?_modify]
  by_cases h : b = c
  · subst h; cases s.batches[b]? <;> simp
  · have : ¬ c = b := fun e => h e.symm
    cases s.batches[c]? <;> simp [h, this]

/-! clearUnlessKept -/
variable (kp : Bool)
@[simp] theorem clearUnlessKept_kind : (s.clearUnlessKept kp b).kind = s.kind := by cases kp <;> rfl
@[simp] theorem clearUnlessKept_keep : (s.clearUnlessKept kp b).keep = s.keep := by cases kp <;> rfl
@[simp] theorem clearUnlessKept_active : (s.clearUnlessKept kp b).active = s.active := by cases kp <;> rfl
@[simp] theorem clearUnlessKept_items : (s.clearUnlessKept kp b).items = s.items := by cases kp <;> rfl
@[simp] theorem clearUnlessKept_iout : (s.clearUnlessKept kp b).iout i = s.iout i := by cases kp <;> rfl
@[simp] theorem clearUnlessKept_ibatch : (s.clearUnlessKept kp b).ibatch i = s.ibatch i := by cases kp <;> rfl
@[simp] theorem clearUnlessKept_payload : (s.clearUnlessKept kp b).payload i = s.payload i := by cases kp <;> rfl
@[simp] theorem clearUnlessKept_len : (s.clearUnlessKept kp b).batches.length = s.batches.length := by
  cases kp <;> simp [St.clearUnlessKept]
@[simp] theorem clearUnlessKept_bout : (s.clearUnlessKept kp b).bout c = s.bout c := by
  cases kp <;> simp [St.clearUnlessKept]
@[simp] theorem clearUnlessKept_runs : (s.clearUnlessKept kp b).runs c = s.runs c := by
  cases kp <;> simp [St.clearUnlessKept]

/-! pushBatch -/
@[simp] theorem pushBatch_kind : s.pushBatch.kind = s.kind := rfl
@[simp] theorem pushBatch_keep : s.pushBatch.keep = s.keep := rfl
@[simp] theorem pushBatch_active : s.pushBatch.active = s.batches.length := rfl
@[simp] theorem pushBatch_items : s.pushBatch.items = s.items := rfl
@[simp] theorem pushBatch_iout : s.pushBatch.iout i = s.iout i := rfl
@[simp] theorem pushBatch_ibatch : s.pushBatch.ibatch i = s.ibatch i := rfl
@[simp] theorem pushBatch_payload : s.pushBatch.payload i = s.payload i := rfl
@[simp] theorem pushBatch_ispawn : s.pushBatch.ispawn i = s.ispawn i := rfl
@[simp] theorem pushBatch_ilink : s.pushBatch.ilink i = s.ilink i := rfl
@[simp] theorem pushBatch_len : s.pushBatch.batches.length = s.batches.length + 1 := by simp [St.pushBatch]
@[simp] theorem pushBatch_bout : s.pushBatch.bout c = s.bout c := by
  simp only [St.bout, St.pushBatch, List.getElem?_append]
  by_cases h : c < s.batches.length
  · simp [h]
  · simp only [h, if_false, List.getElem?_eq_none_iff.mpr (Nat.le_of_not_lt h)]
    by_cases h2 : c - s.batches.length = 0 <;> simp [h2]
@[simp] theorem pushBatch_bitems : s.pushBatch.bitems c = s.bitems c := by
  simp only [St.bitems, St.pushBatch, List.getElem?_append]
  by_cases h : c < s.batches.length
  · simp [h]
  · simp only [h, if_false, List.getElem?_eq_none_iff.mpr (Nat.le_of_not_lt h)]
    by_cases h2 : c - s.batches.length = 0 <;> simp [h2]
@[simp] theorem pushBatch_runs : s.pushBatch.runs c = s.runs c := by
  simp only [St.runs, St.pushBatch, List.getElem?_append]
  by_cases h : c < s.batches.length
  · simp [h]
  · simp only [h, if_false, List.getElem?_eq_none_iff.mpr (Nat.le_of_not_lt h)]
    by_cases h2 : c - s.batches.length = 0 <;> simp [h2]

/-! pushItem -/
@[simp] theorem pushItem_kind : (s.pushItem b p sp lk).kind = s.kind := rfl
@[simp] theorem pushItem_keep : (s.pushItem b p sp lk).keep = s.keep := rfl
@[simp] theorem pushItem_active : (s.pushItem b p sp lk).active = s.active := rfl
@[simp] theorem pushItem_blen : (s.pushItem b p sp lk).batches.length = s.batches.length := by simp [St.pushItem]
@[simp] theorem pushItem_ilen : (s.pushItem b p sp lk).items.length = s.items.length + 1 := by simp [St.pushItem]
@[simp] theorem pushItem_bout : (s.pushItem b p sp lk).bout c = s.bout c := by
  simp only [St.bout, St.pushItem, List.getElem?_modify]; cases s.batches[c]? <;> simp; split <;> rfl
@[simp] theorem pushItem_runs : (s.pushItem b p sp lk).runs c = s.runs c := by
  simp only [St.runs, St.pushItem, List.getElem?_modify]; cases s.batches[c]? <;> simp; split <;> rfl
theorem pushItem_bitems : (s.pushItem b p sp lk).bitems c =
    if c = b ∧ b < s.batches.length then s.bitems c ++ [s.items.length] else s.bitems c := by
  simp only [St.bitems, St.pushItem, List.getElem?_modify]
  by_cases h : b = c
  · subst h
    by_cases hl : b < s.batches.length
    · simp [hl]
    · simp [hl, List.getElem?_eq_none_iff.mpr (Nat.le_of_not_lt hl)]
  · have : ¬ c = b := fun e => h e.symm
    cases s.batches[c]? <;> simp [h, this]
@[simp] theorem pushItem_iout : (s.pushItem b p sp lk).iout j = s.iout j := by
  simp only [St.iout, St.pushItem, List.getElem?_append]
  by_cases h : j < s.items.length
  · simp [h]
  · simp only [h, if_false, List.getElem?_eq_none_iff.mpr (Nat.le_of_not_lt h)]
    by_cases h2 : j - s.items.length = 0 <;> simp [h2]
theorem pushItem_ibatch : (s.pushItem b p sp lk).ibatch j = if j = s.items.length then b else s.ibatch j := by
  simp only [St.ibatch, St.pushItem, List.getElem?_append]
  by_cases h : j < s.items.length
  · have : ¬ j = s.items.length := by omega
    simp [h, this]
  · by_cases h2 : j = s.items.length
    · simp [h2]
    · have : ¬ j - s.items.length = 0 := by omega
      simp [h, h2, this, List.getElem?_eq_none_iff.mpr (Nat.le_of_not_lt h)]
theorem pushItem_payload : (s.pushItem b p sp lk).payload j = if j = s.items.length then p else s.payload j := by
  simp only [St.payload, St.pushItem, List.getElem?_append]
  by_cases h : j < s.items.length
  · have : ¬ j = s.items.length := by omega
    simp [h, this]
  · by_cases h2 : j = s.items.length
    · simp [h2]
    · have : ¬ j - s.items.length = 0 := by omega
      simp [h, h2, this, List.getElem?_eq_none_iff.mpr (Nat.le_of_not_lt h)]
theorem pushItem_ispawn : (s.pushItem b p sp lk).ispawn j = if j = s.items.length then sp else s.ispawn j := by
  simp only [St.ispawn, St.pushItem, List.getElem?_append]
  by_cases h : j < s.items.length
  · have : ¬ j = s.items.length := by omega
    simp [h, this]
  · by_cases h2 : j = s.items.length
    · simp [h2]
    · have : ¬ j - s.items.length = 0 := by omega
      simp [h, h2, this, List.getElem?_eq_none_iff.mpr (Nat.le_of_not_lt h)]
theorem pushItem_ilink : (s.pushItem b p sp lk).ilink j = if j = s.items.length then lk else s.ilink j := by
  simp only [St.ilink, St.pushItem, List.getElem?_append]
  by_cases h : j < s.items.length
  · have : ¬ j = s.items.length := by omega
    simp [h, this]
  · by_cases h2 : j = s.items.length
    · simp [h2]
    · have : ¬ j - s.items.length = 0 := by omega
      simp [h, h2, this, List.getElem?_eq_none_iff.mpr (Nat.le_of_not_lt h)]

end eff

end AsynqModel.Batching
