import AsynqModel.Proofs.P22Defs
import AsynqModel.Proofs.P7Rel
/-!
# P22, part 3: `Sm s r` - a move of the scheduler that the simulation invariant does not see

`r` differs from `s` only in scheduler-side fields (task stack, batches, control stack, flags of contexts, scoped
values, `ctxs / ctxActive / depsSched` of tasks), in futures that are not tasks being completed, in context objects
being appended, and in events that are neither `.read` nor `.new`.  Every step of the machine that is not an
instruction of a task body (and not the start / the end of a top-level computation) is such a move (`sm_step`).
-/
namespace AsynqModel.Core.P22
open AsynqModel.Core

/-- events the invariant does not look at -/
def quietEv : Event → Bool
  | .read _ _ _ => false
  | .new _ _ => false
  | _ => true

structure Sm (s r : State) : Prop where
  cfg : r.cfg = s.cfg
  tops : r.tops = s.tops
  topIdx : r.topIdx = s.topIdx
  curTop : r.curTop = s.curTop ∨ r.curTop = none
  len : r.futs.length = s.futs.length
  fut : ∀ u, (r.fut u).kind = (s.fut u).kind ∧ (r.fut u).den = (s.fut u).den
  task : ∀ u, (s.fut u).kind = .task → (r.fut u).out = (s.fut u).out ∧ P4.coreA (r.fut u).ts = P4.coreA (s.fut u).ts
  ctxLen : s.ctxs.length ≤ r.ctxs.length
  kinds : ∀ c, c < s.ctxs.length → P7.kindOf r c = P7.kindOf s c
  trace : ∃ evs, r.trace = evs ++ s.trace ∧ ∀ e ∈ evs, quietEv e = true

namespace Sm

theorem refl (s : State) : Sm s s :=
  ⟨rfl, rfl, rfl, .inl rfl, rfl, fun _ => ⟨rfl, rfl⟩, fun _ _ => ⟨rfl, rfl⟩, Nat.le_refl _, fun _ _ => rfl, ⟨[], rfl, by simp⟩⟩

theorem curTop_trans {a b c : State} (h1 : b.curTop = a.curTop ∨ b.curTop = none)
    (h2 : c.curTop = b.curTop ∨ c.curTop = none) : c.curTop = a.curTop ∨ c.curTop = none := by
  rcases h2 with h2 | h2
  · rcases h1 with h1 | h1
    · exact .inl (h2.trans h1)
    · exact .inr (h2.trans h1)
  · exact .inr h2

theorem trans {a b c : State} (h1 : Sm a b) (h2 : Sm b c) : Sm a c := by
  refine ⟨h2.cfg.trans h1.cfg, h2.tops.trans h1.tops, h2.topIdx.trans h1.topIdx, curTop_trans h1.curTop h2.curTop,
    h2.len.trans h1.len, fun u => ⟨(h2.fut u).1.trans (h1.fut u).1, (h2.fut u).2.trans (h1.fut u).2⟩, ?_,
    Nat.le_trans h1.ctxLen h2.ctxLen, ?_, ?_⟩
  · intro u hk
    have hk' : (b.fut u).kind = .task := by rw [(h1.fut u).1]; exact hk
    exact ⟨(h2.task u hk').1.trans (h1.task u hk).1, (h2.task u hk').2.trans (h1.task u hk).2⟩
  · intro c' hc
    rw [h2.kinds c' (Nat.lt_of_lt_of_le hc h1.ctxLen), h1.kinds c' hc]
  · obtain ⟨e1, he1, hq1⟩ := h1.trace
    obtain ⟨e2, he2, hq2⟩ := h2.trace
    refine ⟨e2 ++ e1, by rw [he2, he1, List.append_assoc], ?_⟩
    intro e he
    rcases List.mem_append.1 he with h | h
    · exact hq2 e h
    · exact hq1 e h

/-- a change of fields other than `futs`, `ctxs`, `trace`, `cfg`, `tops`, `topIdx`, `curTop` -/
theorem of_eq {s r : State} (h1 : r.futs = s.futs) (h2 : r.ctxs = s.ctxs) (h3 : r.trace = s.trace) (h4 : r.cfg = s.cfg)
    (h5 : r.tops = s.tops) (h6 : r.topIdx = s.topIdx) (h7 : r.curTop = s.curTop) : Sm s r := by
  have hf : ∀ u, r.fut u = s.fut u := fun u => by simp [State.fut, h1]
  refine ⟨h4, h5, h6, .inl h7, by rw [h1], fun u => by rw [hf]; exact ⟨rfl, rfl⟩, fun u _ => by rw [hf]; exact ⟨rfl, rfl⟩,
    by rw [h2]; exact Nat.le_refl _, ?_, ⟨[], by simp [h3], by simp⟩⟩
  intro c _
  simp [P7.kindOf, h2]

end Sm

theorem sm_emit (s : State) (e : Event) (h : quietEv e = true) : Sm s (s.emit e) :=
  ⟨rfl, rfl, rfl, .inl rfl, rfl, fun _ => ⟨rfl, rfl⟩, fun _ _ => ⟨rfl, rfl⟩, Nat.le_refl _, fun _ _ => rfl,
    ⟨[e], rfl, by simpa using h⟩⟩

theorem sm_fail (s : State) (m : String) : Sm s (s.fail m) := Sm.of_eq rfl rfl rfl rfl rfl rfl rfl
theorem sm_popStack (s : State) : Sm s s.popStack := Sm.of_eq rfl rfl rfl rfl rfl rfl rfl
theorem sm_updBatch (s : State) (k q : Nat) (g : Batch → Batch) : Sm s (s.updBatch k q g) :=
  Sm.of_eq rfl rfl rfl rfl rfl rfl rfl

theorem sm_updTask (s : State) (t : Nat) (g : TaskSt → TaskSt) (hg : ∀ ts, P4.coreA (g ts) = P4.coreA ts) :
    Sm s (s.updTask t g) := by
  refine ⟨rfl, rfl, rfl, .inl rfl, by simp, fun u => ⟨P4.kind_updTask s t g u, P4.den_updTask s t g u⟩, ?_, Nat.le_refl _,
    fun _ _ => rfl, ⟨[], rfl, by simp⟩⟩
  intro u _
  refine ⟨P4.out_updTask s t g u, ?_⟩
  rw [P4.fut_updTask]
  split
  · next h => obtain ⟨rfl, _⟩ := h; exact hg _
  · rfl

/-- completion of a future that is not a task -/
theorem sm_complete (s : State) (f : Nat) (o : Outcome) (hk : (s.fut f).kind ≠ .task) : Sm s (s.complete f o) := by
  refine ⟨rfl, rfl, rfl, .inl rfl, by simp, fun u => ?_, ?_, Nat.le_refl _, fun _ _ => rfl, ⟨[.done f o], rfl, by simp [quietEv]⟩⟩
  · rw [P4.fut_complete]
    split
    · next h => obtain ⟨rfl, _⟩ := h; exact ⟨rfl, rfl⟩
    · exact ⟨rfl, rfl⟩
  · intro u hu
    rw [P4.fut_complete]
    split
    · next h => obtain ⟨rfl, _⟩ := h; exact absurd hu hk
    · exact ⟨rfl, rfl⟩

theorem sm_switchActive (s : State) (k q : Nat) : Sm s (s.switchActive k q) := by
  unfold State.switchActive
  split
  · split
    · exact Sm.of_eq rfl rfl rfl rfl rfl rfl rfl
    · exact Sm.refl s
  · exact Sm.refl s

theorem sm_flushItems (s : State) (kind : Nat) (l : List Nat) : Sm s (s.flushItems kind l) := by
  induction l generalizing s with
  | nil => exact Sm.refl s
  | cons i is ih =>
    unfold State.flushItems
    refine Sm.trans ?_ (ih _)
    split
    · exact Sm.refl s
    · split
      · next h => exact sm_complete _ _ _ (by rw [h]; intro h'; cases h')
      · next h => exact sm_complete _ _ _ (by rw [h]; intro h'; cases h')
      · exact Sm.refl s

theorem sm_finishItems (e : Err) (l : List Nat) (s : State) (hl : ∀ i ∈ l, (s.fut i).kind ≠ .task) :
    Sm s (s.finishItems e l) := by
  induction l generalizing s with
  | nil => exact Sm.refl s
  | cons i is ih =>
    unfold State.finishItems
    have h1 : Sm s (if s.computed i then s else s.complete i (.err e)) := by
      split
      · exact Sm.refl s
      · exact sm_complete _ _ _ (hl i (by simp))
    refine Sm.trans h1 (ih _ ?_)
    intro j hj hk
    rw [(h1.fut j).1] at hk
    exact hl j (by simp [hj]) hk

theorem sm_flushBatch (s : State) (k q : Nat) (hi : P2.ItemsOk s) : Sm s (s.flushBatch k q) := by
  unfold State.flushBatch
  split
  · exact sm_fail ..
  · next b hb =>
    have hbm : b ∈ s.batches := List.mem_of_find?_eq_some hb
    refine Sm.trans ?_ (sm_updBatch ..)
    refine Sm.trans ?_ (sm_emit _ _ rfl)
    have h1 : Sm s ((s.switchActive k q).emit (.flushI k q b.items)) :=
      (sm_switchActive s k q).trans (sm_emit _ _ rfl)
    have h2 := h1.trans (sm_flushItems _ k b.items)
    refine h2.trans (sm_finishItems _ _ _ ?_)
    intro i hi' hk
    rw [(h2.fut i).1] at hk
    exact P7.not_task_of_item (hi b hbm i hi') hk

theorem sm_schedulerFlush (s : State) (root : Nat) (hi : P2.ItemsOk s) : Sm s (s.schedulerFlush root) := by
  unfold State.schedulerFlush
  simp only
  repeat' split
  all_goals first | exact Sm.of_eq rfl rfl rfl rfl rfl rfl rfl | skip
  all_goals
    refine Sm.trans ?_ (sm_emit _ _ rfl)
    refine Sm.trans ?_ (sm_flushBatch _ _ _ ?_)
    · refine Sm.trans ?_ (sm_emit _ _ rfl)
      exact Sm.of_eq rfl rfl rfl rfl rfl rfl rfl
    · exact P7.itemsOk_of_eq (fun _ => rfl) rfl hi

/-! ### contexts -/

theorem kindOf_set (l : List CtxSt) (c : Nat) (x y : CtxSt) (h : l[c]? = some x) (hk : y.kind = x.kind) (c' : Nat) :
    (match (l.set c y)[c']? with | some z => z.kind | none => CtxKind.plain) =
    (match l[c']? with | some z => z.kind | none => CtxKind.plain) := by
  rw [List.getElem?_set]
  by_cases hc : c = c'
  · subst hc
    have hlt : c < l.length := by
      rcases Nat.lt_or_ge c l.length with h' | h'
      · exact h'
      · rw [List.getElem?_eq_none h'] at h; cases h
    obtain ⟨_, hx⟩ := List.getElem?_eq_some_iff.1 h
    simp [hlt, hk, hx]
  · simp [hc]

/-- a change of `ctxs` that keeps the length and the kinds, and of `sv` -/
theorem sm_ctxs {s r : State} (h1 : r.futs = s.futs) (h3 : r.trace = s.trace) (h4 : r.cfg = s.cfg)
    (h5 : r.tops = s.tops) (h6 : r.topIdx = s.topIdx) (h7 : r.curTop = s.curTop)
    (hl : s.ctxs.length ≤ r.ctxs.length) (hk : ∀ c, c < s.ctxs.length → P7.kindOf r c = P7.kindOf s c) : Sm s r := by
  have hf : ∀ u, r.fut u = s.fut u := fun u => by simp [State.fut, h1]
  exact ⟨h4, h5, h6, .inl h7, by rw [h1], fun u => by rw [hf]; exact ⟨rfl, rfl⟩, fun u _ => by rw [hf]; exact ⟨rfl, rfl⟩, hl, hk,
    ⟨[], by simp [h3], by simp⟩⟩

theorem sm_ctxSetResumed (s : State) (c : Nat) (b : Bool) : Sm s (s.ctxSetResumed c b) := by
  unfold State.ctxSetResumed
  split
  · next x hx =>
    refine sm_ctxs rfl rfl rfl rfl rfl rfl (by simp) ?_
    intro c' _
    simp only [P7.kindOf]
    exact kindOf_set s.ctxs c x { x with resumed := b } hx rfl c'
  · exact Sm.refl s

theorem sm_svSet (s : State) (var val : Nat) : Sm s (s.svSet var val) := by
  unfold State.svSet
  split <;> exact Sm.of_eq rfl rfl rfl rfl rfl rfl rfl

theorem sm_svTouch (s : State) (var : Nat) : Sm s (s.svTouch var) := by
  unfold State.svTouch
  split
  · exact Sm.refl s
  · exact Sm.of_eq rfl rfl rfl rfl rfl rfl rfl

theorem svSet_ctxs (s : State) (var val : Nat) : (s.svSet var val).ctxs = s.ctxs := by
  unfold State.svSet; split <;> rfl

theorem sm_ctxResumeOne (s : State) (c : Nat) : Sm s (s.ctxResumeOne c) := by
  unfold State.ctxResumeOne
  have h1 : Sm s ((s.emit (.ctx true c)).ctxSetResumed c true) := (sm_emit s _ rfl).trans (sm_ctxSetResumed _ _ _)
  refine h1.trans ?_
  generalize (s.emit (.ctx true c)).ctxSetResumed c true = s1
  simp only
  split
  · next x hx =>
    split
    · next var val _ =>
      refine (sm_svSet s1 var val).trans ?_
      refine sm_ctxs rfl rfl rfl rfl rfl rfl (by simp) ?_
      intro c' _
      simp only [P7.kindOf, svSet_ctxs]
      exact kindOf_set s1.ctxs c x { x with old := s1.svGet var } hx rfl c'
    · exact Sm.refl _
  · exact Sm.refl _

theorem sm_ctxPauseOne (s : State) (c : Nat) : Sm s (s.ctxPauseOne c) := by
  unfold State.ctxPauseOne
  have h1 : Sm s ((s.emit (.ctx false c)).ctxSetResumed c false) := (sm_emit s _ rfl).trans (sm_ctxSetResumed _ _ _)
  refine h1.trans ?_
  generalize (s.emit (.ctx false c)).ctxSetResumed c false = s1
  simp only
  split
  · split
    · exact sm_svSet _ _ _
    · exact Sm.refl _
  · exact Sm.refl _

theorem sm_exit_tail (s : State) (c : Nat) (b : Bool) :
    Sm s ((if b = true then s else s.ctxPauseOne c).emit (.ctxX c)) := by
  refine Sm.trans ?_ (sm_emit _ _ rfl)
  split
  · exact Sm.refl _
  · exact sm_ctxPauseOne _ _

theorem sm_ctxExit (s : State) (c : Nat) : Sm s (s.ctxExit c) := by
  unfold State.ctxExit
  cases s.ctxs[c]? with
  | none => simp only []; exact sm_exit_tail _ _ _
  | some x =>
    simp only []
    cases x.owner with
    | none => simp only []; exact sm_exit_tail _ _ _
    | some o =>
      simp only []
      exact (sm_updTask s o _ (fun ts => P4.coreA_ctxs ts _)).trans (sm_exit_tail _ _ _)

theorem sm_foldl {α : Type} (f : State → α → State) (h : ∀ s a, Sm s (f s a)) (l : List α) (s : State) :
    Sm s (l.foldl f s) := by
  induction l generalizing s with
  | nil => exact Sm.refl s
  | cons a l ih => exact (h s a).trans (ih _)

theorem sm_exitFold (s : State) (cs : List (Nat × Body)) : Sm s (cs.foldl (fun s p => s.ctxExit p.1) s) :=
  sm_foldl _ (fun s p => sm_ctxExit s p.1) cs s

theorem na_sm {s r : State} (h : Sm s r) (hna : P7.NA r) : P7.NA s := by
  intro c x hx hk
  have hc : c < s.ctxs.length := by
    rcases Nat.lt_or_ge c s.ctxs.length with h' | h'
    · exact h'
    · rw [List.getElem?_eq_none h'] at hx; cases hx
  have hk2 := h.kinds c hc
  have hc' : c < r.ctxs.length := Nat.lt_of_lt_of_le hc h.ctxLen
  simp only [P7.kindOf, hx, List.getElem?_eq_getElem hc'] at hk2
  exact hna c r.ctxs[c] (List.getElem?_eq_getElem hc') (hk2.trans hk)

theorem ctxIsNonAsync_false {s : State} (hna : P7.NA s) (c : Nat) : s.ctxIsNonAsync c = false := by
  unfold State.ctxIsNonAsync
  split
  · next x hx =>
    have := hna c x hx
    simpa using this
  · rfl

/-- no NonAsyncContext exists: `ctxs` of `r` has the kinds of `s` (same length) -/
structure SmK (s r : State) : Prop extends Sm s r where
  ctxEq : r.ctxs.length = s.ctxs.length

theorem na_of_smk {s r : State} (h : SmK s r) (hna : P7.NA s) : P7.NA r := by
  intro c x hx hk
  have hc' : c < r.ctxs.length := by
    rcases Nat.lt_or_ge c r.ctxs.length with h' | h'
    · exact h'
    · rw [List.getElem?_eq_none h'] at hx; cases hx
  have hc : c < s.ctxs.length := by rw [← h.ctxEq]; exact hc'
  have hk2 := h.kinds c hc
  simp only [P7.kindOf, hx, List.getElem?_eq_getElem hc] at hk2
  exact hna c s.ctxs[c] (List.getElem?_eq_getElem hc) (hk2.symm.trans hk)


/-! ### `_resume_contexts` / `_pause_contexts` (no NonAsyncContext exists) -/

theorem sm_resumeContexts (s : State) (t : Nat) (h : Inv.noNonAsync s = true) : Sm s (s.resumeContexts t) := by
  unfold State.resumeContexts
  simp only
  split
  · exact Sm.refl s
  · have h1 : Sm s (s.updTask t fun ts => { ts with ctxActive := true }) :=
      sm_updTask _ _ _ (fun ts => P4.coreA_ctxActive ts _)
    have h2 := h1.trans (sm_foldl (fun s c => if s.ctxIsNonAsync c then s else s.ctxResumeOne c)
      (fun s c => by split; exact Sm.refl s; exact sm_ctxResumeOne s c) (s.task t).ctxs _)
    have q1 : P4.Still s (s.updTask t fun ts => { ts with ctxActive := true }) :=
      P4.still_updTask _ _ _ (fun ts => P4.coreA_ctxActive ts _)
    have q2 := q1.trans (P4.still_foldl (fun s c => if s.ctxIsNonAsync c then s else s.ctxResumeOne c)
      (fun s c => by split; exact P4.Still.refl s; exact P4.still_ctxResumeOne s c) (s.task t).ctxs _)
    have h3 := P4.ctxIsNonAsync_false _ (q2.1.nna h)
    simp only [h3, List.any_eq_true, Bool.false_eq_true, and_false, exists_false, if_false]
    exact h2

theorem sm_pauseContexts (s : State) (t : Nat) (h : Inv.noNonAsync s = true) : Sm s (s.pauseContexts t) := by
  unfold State.pauseContexts
  simp only
  split
  · exact Sm.refl s
  · have h1 : Sm s (s.updTask t fun ts => { ts with ctxActive := false }) :=
      sm_updTask _ _ _ (fun ts => P4.coreA_ctxActive ts _)
    have h2 := h1.trans (sm_foldl (fun s c => if s.ctxIsNonAsync c then s else s.ctxPauseOne c)
      (fun s c => by split; exact Sm.refl s; exact sm_ctxPauseOne s c) (s.task t).ctxs.reverse _)
    have q1 : P4.Still s (s.updTask t fun ts => { ts with ctxActive := false }) :=
      P4.still_updTask _ _ _ (fun ts => P4.coreA_ctxActive ts _)
    have q2 := q1.trans (P4.still_foldl (fun s c => if s.ctxIsNonAsync c then s else s.ctxPauseOne c)
      (fun s c => by split; exact P4.Still.refl s; exact P4.still_ctxPauseOne s c) (s.task t).ctxs.reverse _)
    have h3 := P4.ctxIsNonAsync_false _ (q2.1.nna h)
    simp only [h3, List.any_eq_true, Bool.false_eq_true, and_false, exists_false, if_false]
    exact h2

/-! ### the scheduler's own transitions -/

theorem sm_handleTask (s : State) (t : Nat) (h : Inv.noNonAsync s = true) : Sm s (s.handleTask t) := by
  unfold State.handleTask
  simp only
  split
  · split
    · have q1 : Sm s (s.updTask t fun ts => { ts with depsSched := false }) :=
        sm_updTask _ _ _ (fun ts => P4.coreA_depsSched ts _)
      have p1 : P4.Still s (s.updTask t fun ts => { ts with depsSched := false }) :=
        P4.still_updTask _ _ _ (fun ts => P4.coreA_depsSched ts _)
      exact (q1.trans (sm_pauseContexts _ t (p1.1.nna h))).trans (sm_popStack _)
    · have q1 : Sm s (s.updTask t fun ts => { ts with depsSched := true }) :=
        sm_updTask _ _ _ (fun ts => P4.coreA_depsSched ts _)
      have p1 : P4.Still s (s.updTask t fun ts => { ts with depsSched := true }) :=
        P4.still_updTask _ _ _ (fun ts => P4.coreA_depsSched ts _)
      exact (q1.trans (sm_resumeContexts _ t (p1.1.nna h))).trans (Sm.of_eq rfl rfl rfl rfl rfl rfl rfl)
  · split
    · exact sm_fail ..
    · exact (sm_resumeContexts s t h).trans (Sm.of_eq rfl rfl rfl rfl rfl rfl rfl)

theorem sm_executeIter (s : State) (h : Inv.noNonAsync s = true) : Sm s s.executeIter := by
  unfold State.executeIter
  split
  · exact sm_fail ..
  · split
    · exact Sm.of_eq rfl rfl rfl rfl rfl rfl rfl
    · split
      · exact sm_popStack _
      · split
        · exact sm_handleTask s _ h
        · refine Sm.trans ?_ (sm_popStack _)
          split
          · split
            · exact Sm.refl _
            · exact Sm.of_eq rfl rfl rfl rfl rfl rfl rfl
          · exact Sm.refl _
        · next o hk => exact (sm_complete _ _ _ (by rw [hk]; intro h'; cases h')).trans (sm_popStack _)
        · exact sm_fail ..

/-- every step whose innermost frame is a `wait_for` frame is a move the invariant does not see -/
theorem sm_step_wait (s : State) (h : Inv.noNonAsync s = true) (hi : P2.ItemsOk s)
    (hw : (∃ root rest, s.ctl = .waitEnter root :: rest) ∨ (∃ root base rest, s.ctl = .waitLoop root base :: rest)) :
    Sm s (step s) := by
  unfold step
  split
  · exact Sm.refl s
  · rcases hw with ⟨root, rest, hc⟩ | ⟨root, base, rest, hc⟩
    · rw [hc]
      simp only
      split
      · exact Sm.of_eq rfl rfl rfl rfl rfl rfl rfl
      · split
        · exact Sm.of_eq rfl rfl rfl rfl rfl rfl rfl
        · exact Sm.of_eq rfl rfl rfl rfl rfl rfl rfl
    · rw [hc]
      simp only
      split
      · exact Sm.of_eq rfl rfl rfl rfl rfl rfl rfl
      · split
        · exact sm_executeIter s h
        · split
          · exact Sm.of_eq rfl rfl rfl rfl rfl rfl rfl
          · exact sm_schedulerFlush s root hi

end AsynqModel.Core.P22
