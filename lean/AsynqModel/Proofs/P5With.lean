import AsynqModel.Proofs.P5Gens
/-!
  P5: entering a with-block (a new context), and pushing its continuation.
-/
namespace AsynqModel.Core.P5
open AsynqModel.Core

/-- the context object is created, logged and registered with the active task (`enter_context`) -/
def newCtx (s : State) (cid t : Nat) (c : CtxKind) : State :=
  let s := s.emit (.ctxN cid t c)
  let s := { s with ctxs := s.ctxs ++ [({ kind := c, owner := s.active } : CtxSt)] }
  match s.active with
  | some a => s.updTask a fun ts => { ts with ctxs := ts.ctxs ++ [cid] }
  | none => s

theorem same_newCtx (s : State) (cid t : Nat) (c : CtxKind) : Same s (newCtx s cid t c) := by
  unfold newCtx
  simp only
  split <;> exact ⟨rfl, rfl, rfl, rfl, rfl⟩

theorem mono_newCtx (s : State) (cid t : Nat) (c : CtxKind) : Mono s (newCtx s cid t c) := by
  unfold newCtx
  simp only
  split
  · refine Mono.trans (s' := { s.emit (.ctxN cid t c) with ctxs := s.ctxs ++ [({ kind := c, owner := s.active } : CtxSt)] })
      (Mono.of_eq rfl rfl) ?_
    exact mono_updTask _ _ _ (fun _ => rfl) (fun _ => .inl rfl) (fun _ h => h)
  · exact Mono.of_eq rfl rfl

theorem J_newCtx_core {s s' : State} (cid t : Nat) (c : CtxKind) (new : CtxSt) (j : J s [] [])
    (hcid : cid = s.ctxs.length) (hk : new.kind = c) (hr : new.resumed = false)
    (hctxs : s'.ctxs = s.ctxs ++ [new]) (htrace : s'.trace = .ctxN cid t c :: s.trace)
    (hconts : ∀ u, (s'.task u).conts = (s.task u).conts)
    (hact : ∀ u, (s'.task u).ctxActive = (s.task u).ctxActive)
    (htc : ∀ u, (s'.task u).ctxs = if new.owner = some u then (s.task u).ctxs ++ [cid] else (s.task u).ctxs)
    (ha : ∀ a, new.owner = some a → (s.task a).ctxActive = true) :
    J s' [] (if c = .nonasync then [] else [cid]) := by
  have hold : ∀ (c' : Nat) (x : CtxSt), s.ctxs[c']? = some x → s'.ctxs[c']? = some x := by
    intro c' x hx
    rw [hctxs, List.getElem?_append_left (lt_of_getElem?_some hx)]; exact hx
  have hnew : s'.ctxs[cid]? = some new := by
    rw [hctxs, hcid]; simp
  have hinv : ∀ (c' : Nat) (x : CtxSt), s'.ctxs[c']? = some x → (c' = cid ∧ x = new) ∨ s.ctxs[c']? = some x := by
    intro c' x hx
    rw [hctxs] at hx
    by_cases h : c' < s.ctxs.length
    · rw [List.getElem?_append_left h] at hx; exact .inr hx
    · have h' : s.ctxs.length ≤ c' := Nat.le_of_not_lt h
      rw [List.getElem?_append_right h'] at hx
      have h3 : c' - s.ctxs.length = 0 := by
        rcases Nat.eq_zero_or_pos (c' - s.ctxs.length) with h0 | h0
        · exact h0
        · rw [List.getElem?_eq_none (by simp; omega)] at hx; cases hx
      rw [h3] at hx
      simp at hx
      exact .inl ⟨by omega, hx.symm⟩
  have hlt : ∀ u c', c' ∈ (s.task u).ctxs → c' ≠ cid := by
    intro u c' hc'
    obtain ⟨x, hx, _⟩ := j.reg u c' hc'
    have := lt_of_getElem?_some hx
    omega
  have hres : ∀ c', resumedD s' c' = resumedD s c' := by
    intro c'
    unfold resumedD
    cases h : s'.ctxs[c']? with
    | none =>
      cases h2 : s.ctxs[c']? with
      | none => rfl
      | some x => rw [hold c' x h2] at h; cases h
    | some x =>
      rcases hinv c' x h with ⟨h1, h2⟩ | h1
      · have : s.ctxs[c']? = none := by rw [h1, hcid]; simp
        rw [this, h2]; exact hr
      · rw [h1]
  have hsub : ∀ u c', c' ∈ (s.task u).ctxs → c' ∈ (s'.task u).ctxs := by
    intro u c' h
    rw [htc]; split
    · exact List.mem_append_left _ h
    · exact h
  have hw : ∀ c', word s'.trace c' = word s.trace c' := fun c' => by rw [htrace, word_ctxN]
  refine ⟨?_, ?_, ?_, ?_, ?_, ?_, ?_, ?_, ?_, ?_, ?_, ?_⟩
  · intro u c' hc'
    rw [htc] at hc'
    rw [hact]
    have hold' : c' ∈ (s.task u).ctxs → ∃ x : CtxSt, s'.ctxs[c']? = some x ∧ x.owner = some u ∧
        (x.kind = .nonasync ∨ x.resumed = ((s.task u).ctxActive != decide (c' ∈ if c = .nonasync then [] else [cid]))) := by
      intro h
      obtain ⟨x, hx, hxo, hxr⟩ := j.reg u c' h
      refine ⟨x, hold c' x hx, hxo, ?_⟩
      rcases hxr with h1 | h1
      · exact .inl h1
      · refine .inr ?_
        rw [h1]
        have := hlt u c' h
        split <;> simp [this]
    split at hc'
    · next hown =>
      rcases List.mem_append.1 hc' with h | h
      · exact hold' h
      · simp at h; subst h
        refine ⟨new, hnew, hown, ?_⟩
        by_cases hc : c = .nonasync
        · exact .inl (hk.trans hc)
        · refine .inr ?_
          rw [hr, ha u hown]; simp [hc]
    · exact hold' hc'
  · intro u
    rw [htc]; split
    · rw [List.nodup_append]
      refine ⟨j.nodup u, by simp, ?_⟩
      intro a ha' b hb
      simp at hb; subst hb
      exact hlt u a ha'
    · exact j.nodup u
  · intro u; rw [hconts]; exact j.cnodup u
  · intro u v c'; rw [hconts, hconts]; exact j.cdisj u v c'
  · intro u c' h; rw [hconts] at h; rw [hctxs]; simp; have := j.cbound u c' h; omega
  · intro u c' h _ x hx hxk
    rw [hconts] at h
    have hb := j.cbound u c' h
    rcases hinv c' x hx with ⟨h1, _⟩ | h1
    · omega
    · have := j.opn u c' h (by simp) x h1 hxk
      cases hxo : x.owner with
      | none => simpa [hxo] using this
      | some o => simp only [hxo] at this ⊢; exact hsub o c' this
  · intro c' x hx hxk
    rcases hinv c' x hx with ⟨_, h2⟩ | h1
    · rw [h2]; exact hr
    · exact j.na c' x h1 hxk
  · intro c'; rw [hw]; exact j.good c'
  · intro c'; rw [hw, hres]; exact j.head c'
  · intro c' hc'
    rw [hctxs] at hc'; simp at hc'
    by_cases h : c' = cid
    · subst h; exact ⟨t, c, by rw [htrace]; simp⟩
    · obtain ⟨t', k, hm⟩ := j.newOK c' (by omega)
      exact ⟨t', k, by rw [htrace]; exact List.mem_cons_of_mem _ hm⟩
  · intro c'; rw [htrace]; exact ⟨fun b hb => (by cases hb), j.after c'⟩
  · intro c'; rw [htrace]; exact ⟨fun hb => (by cases hb), j.exit c'⟩

theorem J_newCtx {s : State} (cid t : Nat) (c : CtxKind) (j : J s [] []) (hcid : cid = s.ctxs.length)
    (ha : ∀ a, s.active = some a → a < s.futs.length ∧ (s.task a).ctxActive = true) :
    J (newCtx s cid t c) [] (if c = .nonasync then [] else [cid]) := by
  unfold newCtx
  simp only [emit_active]
  cases hact : s.active with
  | none =>
    simp only
    refine J_newCtx_core cid t c { kind := c, owner := none } j hcid rfl rfl rfl rfl (fun _ => rfl) (fun _ => rfl)
      (fun u => by rw [if_neg (by simp)]; rfl) (fun a h => by cases h)
  | some a =>
    simp only
    obtain ⟨halt, haact⟩ := ha a hact
    refine J_newCtx_core cid t c { kind := c, owner := some a } j hcid rfl rfl rfl rfl
      (fun u => task_updTask_field _ a u _ (·.conts) (fun _ => rfl))
      (fun u => task_updTask_field _ a u _ (·.ctxActive) (fun _ => rfl)) ?_
      (fun a' h => by cases h; exact haact)
    intro u
    rw [task_updTask]
    by_cases hu : u = a
    · subst hu; simp [show u < s.futs.length from halt]; rfl
    · have : ¬ a = u := fun h => hu h.symm
      simp [hu, this]; rfl

theorem newCtx_entry (s : State) (cid t : Nat) (c : CtxKind) (hcid : cid = s.ctxs.length) :
    (newCtx s cid t c).ctxs[cid]? = some { kind := c, owner := s.active } := by
  unfold newCtx
  simp only [emit_active]
  split <;> simp [hcid]

theorem conts_newCtx (s : State) (cid t : Nat) (c : CtxKind) (u : Nat) :
    ((newCtx s cid t c).task u).conts = (s.task u).conts := by
  unfold newCtx
  simp only
  split
  · exact task_updTask_field _ _ u _ (·.conts) (fun _ => rfl)
  · rfl

theorem newCtx_registered (s : State) (cid t : Nat) (c : CtxKind) (a : Nat) (ha : s.active = some a)
    (hlt : a < s.futs.length) : cid ∈ ((newCtx s cid t c).task a).ctxs := by
  unfold newCtx
  simp only [emit_active, ha]
  rw [task_updTask]
  simp [hlt]

/-- the continuation of the with-block is pushed on the task's list of open blocks -/
theorem J_pushCont {s : State} (t cid : Nat) (k : Body) (g : TaskSt → TaskSt) (j : J s [] [])
    (hg1 : ∀ x, (g x).ctxs = x.ctxs) (hg2 : ∀ x, (g x).ctxActive = x.ctxActive)
    (hg3 : ∀ x, (g x).conts = (cid, k) :: x.conts)
    (hfresh : ∀ u, cid ∉ (s.task u).conts.map (·.1))
    (x : CtxSt) (hx : s.ctxs[cid]? = some x)
    (hopn : x.kind ≠ .nonasync → match x.owner with
      | some o => cid ∈ (s.task o).ctxs
      | none => x.resumed = true) : J (s.updTask t g) [] [] := by
  have hctxs : ∀ u, ((s.updTask t g).task u).ctxs = (s.task u).ctxs := fun u => task_updTask_field s t u g (·.ctxs) hg1
  have hact : ∀ u, ((s.updTask t g).task u).ctxActive = (s.task u).ctxActive :=
    fun u => task_updTask_field s t u g (·.ctxActive) hg2
  have hc : ∀ u c, c ∈ ((s.updTask t g).task u).conts.map (·.1) →
      (c = cid ∧ u = t) ∨ c ∈ (s.task u).conts.map (·.1) := by
    intro u c h
    rw [task_updTask] at h
    split at h
    · next hh =>
      rw [hg3] at h
      simp only [List.map_cons, List.mem_cons] at h
      rcases h with h | h
      · exact .inl ⟨h, hh.1⟩
      · rw [hh.1]; exact .inr h
    · exact .inr h
  refine ⟨?_, ?_, ?_, ?_, ?_, ?_, j.na, j.good, j.head, j.newOK, j.after, j.exit⟩
  · intro u c h; rw [hctxs] at h; rw [hact]; exact j.reg u c h
  · intro u; rw [hctxs]; exact j.nodup u
  · intro u
    rw [task_updTask]
    split
    · rw [hg3, List.map_cons, List.nodup_cons]; exact ⟨hfresh t, j.cnodup t⟩
    · exact j.cnodup u
  · intro u v c h1 h2
    rcases hc u c h1 with ⟨h1c, h1u⟩ | h1
    · rcases hc v c h2 with ⟨_, h2u⟩ | h2
      · rw [h1u, h2u]
      · rw [h1c] at h2; exact absurd h2 (hfresh v)
    · rcases hc v c h2 with ⟨h2c, _⟩ | h2
      · rw [h2c] at h1; exact absurd h1 (hfresh u)
      · exact j.cdisj u v c h1 h2
  · intro u c h
    rcases hc u c h with ⟨h1, _⟩ | h1
    · rw [h1]; exact lt_of_getElem?_some hx
    · exact j.cbound u c h1
  · intro u c h _ y hy hyk
    rw [updTask_ctxs] at hy
    have key : match y.owner with
        | some o => c ∈ (s.task o).ctxs
        | none => y.resumed = true := by
      rcases hc u c h with ⟨h1, _⟩ | h1
      · subst h1
        rw [hx] at hy; cases hy
        exact hopn hyk
      · exact j.opn u c h1 (by simp) y hy hyk
    cases hyo : y.owner with
    | none => simpa [hyo] using key
    | some o => simp only [hyo] at key ⊢; rw [hctxs]; exact key

end AsynqModel.Core.P5
