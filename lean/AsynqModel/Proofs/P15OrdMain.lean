import AsynqModel.Proofs.P15OrdC
import AsynqModel.Proofs.P15Main2
/-!
  P15, part 16: the full simulation relation `R true true` (every clause of the C03 observer) for the states of a
  well-scoped run in which the stack guard has not fired and no NonAsyncContext was created.
-/
namespace AsynqModel.Core.P15
open AsynqModel.Core AsynqModel.Core.Spec AsynqModel.Core.P2 AsynqModel.Core.P14

/-- the start-order clause at the first start of the task whose generator frame has just been pushed -/
theorem order_ok {s : State} (h : P10.WSReach s) (hg : s.guardFired = false) (hn : Inv.noNonAsync s = true)
    {t : Nat} {old : Option Nat} {rest : List Ctl} (hctl : s.ctl = .gen t old :: rest)
    (hts : (s.task t).started = false) :
    elsewhere (wOf s.trace) t ∨ orderBad (wOf s.trace) t = false := by
  have hna := P7.na_of_noNonAsync hn
  have oi := ordInv_reach h hg hn
  have r := R_reach h.reach
  have hd := (P12.lib_of_ws h hg hna).disc
  rw [hctl] at hd
  have hhead : s.stack[0]? = some t := by
    have := hd.1
    cases hs : s.stack with
    | nil => rw [hs] at this; cases this
    | cons x xs => rw [hs] at this; simpa using this
  by_cases he : elsewhere (wOf s.trace) t
  · exact Or.inl he
  · right
    unfold orderBad
    rw [List.any_eq_false]
    rintro ⟨u, l⟩ hm
    simp only [Bool.and_eq_true, List.contains_eq_mem, decide_eq_true_eq, List.any_eq_true, Bool.not_eq_true',
      not_and, not_exists]
    intro htl a ha
    rcases oi u l hm 0 t hhead htl hts he a ha with h1 | h1
    · rw [r.started a, h1]; simp
    · simp at h1

theorem R_reachFull {s : State} (h : P10.WSReach s) (hg : s.guardFired = false) (hn : Inv.noNonAsync s = true) :
    R true true s := by
  induction h with
  | init cfg tops choices _ => exact R_init cfg tops choices
  | @step s hs ih =>
    have hg0 := P3.guard_mono s hg
    have hn0 := P4.step_noNonAsync s hn
    exact R_step (ih hg0 hn0) (pinv_reach hs.reach).items
      (fun t old rest _ hctl => genOK_of_false (genOK_reach hs.reach hctl)
        (fun _ _ hst => order_ok hs hg0 hn0 hctl hst))
      (fun f _ hctl _ _ t hst => started_computed_at_top hs hg0 hn0 hctl t hst)

end AsynqModel.Core.P15
