import AsynqModel.Lib.Generator
/-! helper lemmas for C17: what `_send_inner`, one loop trip and the two consumer loops do, in closed form -/
namespace AsynqModel.Generator

/-- what a `_send_inner` task returns when the underlying generator still has `b` to yield -/
def drainItem (b : Body) : Item :=
  match skipAwaits b with
  | .value v :: _ => .val v
  | _ => .endMarker

/-- ... what is left of the body afterwards -/
def drainRest (b : Body) : Body :=
  match skipAwaits b with
  | .value _ :: r => r
  | .valueEnd :: r => r
  | _ => []

/-- ... and whether it ran the underlying generator off its end -/
def drainStop (b : Body) : Bool := (skipAwaits b).isEmpty

theorem skipAwaits_cases (b : Body) :
    skipAwaits b = [] ∨ (∃ v r, skipAwaits b = .value v :: r) ∨ (∃ r, skipAwaits b = .valueEnd :: r) := by
  induction b with
  | nil => simp [skipAwaits]
  | cons x r ih => cases x <;> simp [skipAwaits, ih]

theorem noMarker_skipAwaits (b : Body) : noMarker (skipAwaits b) = noMarker b := by
  induction b with
  | nil => rfl
  | cons x r ih => cases x <;> simp [skipAwaits, noMarker, ih]

/-- without a marker payload a task returns END_OF_GENERATOR only by running off the end of the body -/
theorem skipAwaits_cases' (b : Body) (hm : noMarker b = true) :
    skipAwaits b = [] ∨ ∃ v r, skipAwaits b = .value v :: r := by
  rcases skipAwaits_cases b with h | h | ⟨r, h⟩
  · exact .inl h
  · exact .inr h
  · have := noMarker_skipAwaits b; rw [h, hm] at this; simp [noMarker] at this

theorem drainStop_eq (b : Body) (hm : noMarker b = true) : drainStop b = (drainItem b == .endMarker) := by
  rcases skipAwaits_cases' b hm with h | ⟨v, r, h⟩
  · simp [drainStop, drainItem, h]
  · simp [drainStop, drainItem, h]

theorem drainRest_length_le (b : Body) : (drainRest b).length ≤ b.length := by
  induction b with
  | nil => simp [drainRest, skipAwaits]
  | cons x r ih =>
    cases x with
    | await bb => simp only [drainRest, skipAwaits] at ih ⊢; simp only [List.length_cons]; omega
    | value v => simp [drainRest, skipAwaits]
    | valueEnd => simp [drainRest, skipAwaits]

theorem noMarker_drainRest (b : Body) (hm : noMarker b = true) : noMarker (drainRest b) = true := by
  induction b with
  | nil => rfl
  | cons x r ih =>
    cases x with
    | await bb => simp only [drainRest, skipAwaits] at ih ⊢; exact ih (by simpa [noMarker] using hm)
    | value v => simpa [drainRest, skipAwaits, noMarker] using hm
    | valueEnd => simp [noMarker] at hm

theorem values_skipAwaits (b : Body) : values (skipAwaits b) = values b := by
  induction b with
  | nil => rfl
  | cons x r ih => cases x <;> simp [skipAwaits, values, ih]

/-- for a body without marker payloads `values` are all the payloads -/
theorem payloads_eq_values (b : Body) (hm : noMarker b = true) : payloads b = (values b).map .val := by
  induction b with
  | nil => rfl
  | cons x r ih =>
    cases x with
    | await bb => simpa [payloads, values] using ih (by simpa [noMarker] using hm)
    | value v => simpa [payloads, values] using ih (by simpa [noMarker] using hm)
    | valueEnd => simp [noMarker] at hm

theorem sendInnerLoop_spec (rest : Body) : ∀ (fuel pulled : Nat) (stopped : Bool) (lastTask : Option LastRef)
    (futs : List Fut), rest.length < fuel →
    sendInnerLoop fuel ⟨rest, pulled, stopped, lastTask, futs⟩ =
      (⟨drainRest rest, pulled + (rest.length - (drainRest rest).length),
        stopped || drainStop rest, lastTask, futs⟩, drainItem rest) := by
  induction rest with
  | nil =>
    intro fuel pulled stopped lastTask futs h
    cases fuel with
    | zero => simp at h
    | succ f => simp [sendInnerLoop, getOneValue, drainRest, drainItem, drainStop, skipAwaits]
  | cons x r ih =>
    intro fuel pulled stopped lastTask futs h
    cases fuel with
    | zero => simp at h
    | succ f =>
      cases x with
      | value v => simp [sendInnerLoop, getOneValue, drainRest, drainItem, drainStop, skipAwaits]
      | valueEnd => simp [sendInnerLoop, getOneValue, drainRest, drainItem, drainStop, skipAwaits]
      | await bb =>
        have hl := drainRest_length_le r
        simp only [List.length_cons] at h
        simp only [sendInnerLoop, getOneValue]
        rw [ih f (pulled + 1) stopped lastTask futs (by omega)]
        have e1 : drainRest (.await bb :: r) = drainRest r := by simp [drainRest, skipAwaits]
        have e2 : drainItem (.await bb :: r) = drainItem r := by simp [drainItem, skipAwaits]
        have e3 : drainStop (.await bb :: r) = drainStop r := by simp [drainStop, skipAwaits]
        simp only [e1, e2, e3, List.length_cons]
        congr 2
        omega

theorem sendInner_spec (rest : Body) (pulled : Nat) (stopped : Bool) (lastTask : Option LastRef) (futs : List Fut) :
    sendInner ⟨rest, pulled, stopped, lastTask, futs⟩ =
      (⟨drainRest rest, pulled + (rest.length - (drainRest rest).length),
        stopped || drainStop rest, lastTask, futs⟩, drainItem rest) :=
  sendInnerLoop_spec rest _ pulled stopped lastTask futs (Nat.lt_succ_self _)

theorem sendInner_await (bb : Bool) (r : Body) (pulled : Nat) (stopped : Bool) (lt : Option LastRef) (futs : List Fut) :
    sendInner ⟨.await bb :: r, pulled, stopped, lt, futs⟩ = sendInner ⟨r, pulled + 1, stopped, lt, futs⟩ := by
  simp [sendInner, sendInnerLoop, getOneValue]

/-- running a task as far as it gets without a flush: either it is done, exactly as `_send_inner` run to its end would
    be, or it is parked having consumed awaits only - `last_task` and the caller's futures untouched, and running it
    to its end from there gives what running it to its end from the start gives -/
theorem startLoop_spec (rest : Body) : ∀ (fuel pulled : Nat) (stopped : Bool) (lt : Option LastRef)
    (futs : List Fut), rest.length < fuel →
    (∀ s1 x, startLoop fuel ⟨rest, pulled, stopped, lt, futs⟩ = (s1, some x) →
        sendInner ⟨rest, pulled, stopped, lt, futs⟩ = (s1, x)) ∧
    (∀ s1, startLoop fuel ⟨rest, pulled, stopped, lt, futs⟩ = (s1, none) →
        s1.lastTask = lt ∧ s1.futs = futs ∧ sendInner s1 = sendInner ⟨rest, pulled, stopped, lt, futs⟩) := by
  induction rest with
  | nil =>
    intro fuel pulled stopped lt futs h
    cases fuel with
    | zero => simp at h
    | succ f => simp [startLoop, sendInner, sendInnerLoop, getOneValue]
  | cons x r ih =>
    intro fuel pulled stopped lt futs h
    cases fuel with
    | zero => simp at h
    | succ f =>
      simp only [List.length_cons] at h
      cases x with
      | value v => simp [startLoop, sendInner, sendInnerLoop, getOneValue]
      | valueEnd => simp [startLoop, sendInner, sendInnerLoop, getOneValue]
      | await bb =>
        rw [sendInner_await]
        cases bb with
        | true =>
          simp only [startLoop, getOneValue]
          refine ⟨by simp, ?_⟩
          intro s1 h1
          simp only [Prod.mk.injEq, and_true] at h1
          subst h1
          exact ⟨rfl, rfl, rfl⟩
        | false =>
          simp only [startLoop, getOneValue]
          exact ih f (pulled + 1) stopped lt futs (by omega)

theorem startTask_spec (b : Bool) (rest : Body) (pulled : Nat) (stopped : Bool) (lt : Option LastRef) (futs : List Fut) :
    (∀ s1 x, startTask ⟨rest, pulled, stopped, lt, futs⟩ b = (s1, some x) →
        sendInner ⟨rest, pulled, stopped, lt, futs⟩ = (s1, x)) ∧
    (∀ s1, startTask ⟨rest, pulled, stopped, lt, futs⟩ b = (s1, none) →
        s1.lastTask = lt ∧ s1.futs = futs ∧ sendInner s1 = sendInner ⟨rest, pulled, stopped, lt, futs⟩) := by
  cases b with
  | true =>
    simp only [startTask, if_true]
    refine ⟨by simp, ?_⟩
    intro s1 h1
    simp only [Prod.mk.injEq, and_true] at h1
    subst h1
    exact ⟨rfl, rfl, rfl⟩
  | false =>
    simpa [startTask] using startLoop_spec rest (rest.length + 1) pulled stopped lt futs (Nat.lt_succ_self _)

/-- a started task is parked (cannot be computed before a batch flush) iff one of the awaits it consumes before
    its Value - or the end of the body - needs a flush -/
theorem startLoop_parks (rest : Body) : ∀ (fuel pulled : Nat) (stopped : Bool) (lt : Option LastRef)
    (futs : List Fut), rest.length < fuel →
    ((startLoop fuel ⟨rest, pulled, stopped, lt, futs⟩).2 == none) = leadBlock rest := by
  induction rest with
  | nil =>
    intro fuel pulled stopped lt futs h
    cases fuel with
    | zero => simp at h
    | succ f => simp [startLoop, getOneValue, leadBlock]
  | cons x r ih =>
    intro fuel pulled stopped lt futs h
    cases fuel with
    | zero => simp at h
    | succ f =>
      simp only [List.length_cons] at h
      cases x with
      | value v => simp [startLoop, getOneValue, leadBlock]
      | valueEnd => simp [startLoop, getOneValue, leadBlock]
      | await bb =>
        cases bb with
        | true => simp [startLoop, getOneValue, leadBlock]
        | false =>
          simp only [startLoop, getOneValue, leadBlock, Bool.false_or]
          exact ih f (pulled + 1) stopped lt futs (by omega)

theorem startTask_parks (s : St) (b : Bool) : ((startTask s b).2 == none) = (b || leadBlock s.rest) := by
  obtain ⟨rest, pulled, stopped, lt, futs⟩ := s
  cases b with
  | true => simp [startTask]
  | false => simpa [startTask] using startLoop_parks rest (rest.length + 1) pulled stopped lt futs (Nat.lt_succ_self _)

/-- `blocked` only looks at `last_task` and the futures -/
def blockedBy (lt : Option LastRef) (futs : List Fut) : Bool :=
  match lt with
  | some (.handle k) => (match futs[k]? with | some (.pending _) => true | _ => false)
  | _ => false

theorem blocked_eq (s : St) : s.blocked = blockedBy s.lastTask s.futs := rfl

theorem drainItem_end (b : Body) (hm : noMarker b = true) (h : drainItem b = .endMarker) :
    drainRest b = [] ∧ values b = [] ∧ drainStop b = true := by
  rw [← values_skipAwaits b]
  rcases skipAwaits_cases' b hm with h0 | ⟨v, r, h1⟩
  · simp [drainRest, drainStop, h0, values]
  · simp [drainItem, h1] at h

theorem drainItem_val (b : Body) (v : Nat) (h : drainItem b = .val v) :
    values b = v :: values (drainRest b) ∧ drainStop b = false := by
  rw [← values_skipAwaits b]
  rcases skipAwaits_cases b with h0 | ⟨w, r, h1⟩ | ⟨r, h1⟩
  · simp [drainItem, h0] at h
  · simp [drainItem, h1] at h; simp [drainRest, drainStop, h1, values, h]
  · simp [drainItem, h1] at h

theorem dropValues_succ_await (n : Nat) (b : Body) (hm : noMarker b = true) :
    dropValues (n + 1) b = match drainItem b with | .val _ => dropValues n (drainRest b) | .endMarker => [] := by
  induction b with
  | nil => simp [dropValues, drainItem, skipAwaits]
  | cons x r ih =>
    cases x with
    | await bb =>
      have e1 : drainRest (.await bb :: r) = drainRest r := by simp [drainRest, skipAwaits]
      have e2 : drainItem (.await bb :: r) = drainItem r := by simp [drainItem, skipAwaits]
      simp only [dropValues, e1, e2, ih (by simpa [noMarker] using hm)]
    | value v => simp [dropValues, drainItem, drainRest, skipAwaits]
    | valueEnd => simp [noMarker] at hm

theorem dropValues_length_le (n : Nat) (b : Body) : (dropValues n b).length ≤ b.length := by
  induction b generalizing n with
  | nil => cases n <;> simp [dropValues]
  | cons x r ih =>
    cases n with
    | zero => simp [dropValues]
    | succ m =>
      cases x with
      | await bb => have := ih (m + 1); simp only [dropValues, List.length_cons]; omega
      | value v => have := ih m; simp only [dropValues, List.length_cons]; omega
      | valueEnd => have := ih (m + 1); simp only [dropValues, List.length_cons]; omega

theorem noMarker_dropValues (n : Nat) (b : Body) (hm : noMarker b = true) : noMarker (dropValues n b) = true := by
  induction b generalizing n with
  | nil => cases n <;> simp [dropValues, noMarker]
  | cons x r ih =>
    cases n with
    | zero => simpa [dropValues] using hm
    | succ m =>
      cases x with
      | await bb => simp only [dropValues]; exact ih (m + 1) (by simpa [noMarker] using hm)
      | value v => simp only [dropValues]; exact ih m (by simpa [noMarker] using hm)
      | valueEnd => simp [noMarker] at hm

/-- one loop trip from a state in which the previous task is computed -/
theorem pull_nil (pulled : Nat) (stopped : Bool) (lt : Option LastRef) (futs : List Fut)
    (hb : blockedBy lt futs = false) :
    pull ⟨[], pulled, stopped, lt, futs⟩ = (⟨[], pulled, true, lt, futs⟩, .error .stopIteration) := by
  cases stopped <;> simp [pull, send, blocked_eq, hb, getOneValue]

theorem pull_value (v : Nat) (r : Body) (pulled : Nat) (lt : Option LastRef) (futs : List Fut)
    (hb : blockedBy lt futs = false) :
    pull ⟨.value v :: r, pulled, false, lt, futs⟩ = (⟨r, pulled + 1, false, lt, futs⟩, .ok (.val v)) := by
  simp [pull, send, blocked_eq, hb, getOneValue]

theorem pull_await (bb : Bool) (r : Body) (pulled : Nat) (lt : Option LastRef) (futs : List Fut)
    (hb : blockedBy lt futs = false) :
    pull ⟨.await bb :: r, pulled, false, lt, futs⟩ =
      (⟨drainRest r, pulled + 1 + (r.length - (drainRest r).length), drainStop r,
        some .internal, futs⟩, .ok (drainItem r)) := by
  simp [pull, send, blocked_eq, hb, getOneValue, sendInner_spec]

theorem pull_blocked (s : St) (hb : s.blocked = true) : pull s = (s, .error .runtimeError) := by
  simp [pull, send, hb]

theorem blockedBy_internal (futs : List Fut) : blockedBy (some .internal) futs = false := rfl

/-- `list_of_generator` from a state in which the previous task is computed: all remaining Values, generator exhausted -/
theorem listLoop_spec : ∀ (fuel : Nat) (rest : Body) (pulled : Nat) (stopped : Bool) (lt : Option LastRef)
    (futs : List Fut) (data : List Item), noMarker rest = true →
    blockedBy lt futs = false → (stopped = true → rest = []) → rest.length < fuel →
    ∃ lt' p', listLoop fuel ⟨rest, pulled, stopped, lt, futs⟩ data =
        (⟨[], p', true, lt', futs⟩, .lst (data ++ (values rest).map .val)) ∧
      p' = pulled + rest.length ∧ blockedBy lt' futs = false := by
  intro fuel
  induction fuel with
  | zero => intro rest _ _ _ _ _ _ _ _ h; simp at h
  | succ f ih =>
    intro rest pulled stopped lt futs data hm hb hs hf
    cases rest with
    | nil =>
      refine ⟨lt, pulled, ?_, rfl, hb⟩
      simp [listLoop, pull_nil, hb, values]
    | cons x r =>
      have hst : stopped = false := by cases stopped <;> simp_all
      subst hst
      simp only [List.length_cons] at hf
      cases x with
      | valueEnd => simp [noMarker] at hm
      | value v =>
        have hmr : noMarker r = true := by simpa [noMarker] using hm
        obtain ⟨lt', p', h1, hp, h2⟩ := ih r (pulled + 1) false lt futs (data ++ [.val v]) hmr hb (by simp) (by omega)
        refine ⟨lt', p', ?_, by simp only [List.length_cons]; omega, h2⟩
        simp only [listLoop, pull_value _ _ _ _ _ hb, h1, values]
        simp
      | await bb =>
        have hmr : noMarker r = true := by simpa [noMarker] using hm
        have hl := drainRest_length_le r
        cases hd : drainItem r with
        | endMarker =>
          obtain ⟨hr, hv, hstop⟩ := drainItem_end r hmr hd
          obtain ⟨lt', p', h1, hp, h2⟩ := ih [] (pulled + 1 + (r.length - (drainRest r).length)) true
            (some .internal) futs data rfl (blockedBy_internal futs) (by simp) (by simp; omega)
          refine ⟨lt', p', ?_, by simp only [hr, List.length_cons, List.length_nil] at hp ⊢; omega, h2⟩
          simp only [listLoop, pull_await _ _ _ _ _ hb, hd, hr, hstop] at h1 ⊢
          simp only [h1, values, hv]
        | val v =>
          obtain ⟨hv, hstop⟩ := drainItem_val r v hd
          obtain ⟨lt', p', h1, hp, h2⟩ := ih (drainRest r) (pulled + 1 + (r.length - (drainRest r).length)) false
            (some .internal) futs (data ++ [.val v]) (noMarker_drainRest r hmr) (blockedBy_internal futs) (by simp)
            (by omega)
          refine ⟨lt', p', ?_, by simp only [List.length_cons]; omega, h2⟩
          simp only [listLoop, pull_await _ _ _ _ _ hb, hd, hstop]
          simp only [h1, values, hv]
          simp

/-- the test `i == n - 1` on Python integers -/
theorem breakTest (i n : Nat) : ((i : Int) == (n : Int) - 1) = decide (i + 1 = n) := by
  by_cases h : i + 1 = n
  · simp [h]; omega
  · simp [h]; omega

theorem takeLoop_nil (fuel n i pulled : Nat) (stopped : Bool) (lt : Option LastRef) (futs : List Fut)
    (ret : List Item) (hb : blockedBy lt futs = false) :
    takeLoop (fuel + 1) n i ⟨[], pulled, stopped, lt, futs⟩ ret = (⟨[], pulled, true, lt, futs⟩, .lst ret) := by
  simp [takeLoop, pull_nil, hb]

/-- while the `enumerate` index is below `n`: `take_first` delivers the next `n - i` Values and stops right
    after the last of them -/
theorem takeLoop_lt : ∀ (fuel : Nat) (rest : Body) (n i m pulled : Nat) (stopped : Bool) (lt : Option LastRef)
    (futs : List Fut) (ret : List Item), noMarker rest = true →
    n = i + (m + 1) → blockedBy lt futs = false → (stopped = true → rest = []) → rest.length < fuel →
    ∃ lt' p', takeLoop fuel n i ⟨rest, pulled, stopped, lt, futs⟩ ret =
        (⟨dropValues (m + 1) rest, p', stopped || decide ((values rest).length < m + 1), lt', futs⟩,
          .lst (ret ++ ((values rest).take (m + 1)).map .val)) ∧
      p' + (dropValues (m + 1) rest).length = pulled + rest.length ∧ blockedBy lt' futs = false := by
  intro fuel
  induction fuel with
  | zero => intro rest _ _ _ _ _ _ _ _ _ _ _ _ h; simp at h
  | succ f ih =>
    intro rest n i m pulled stopped lt futs ret hm hn hb hs hf
    have hbt : ((i : Int) == (n : Int) - 1) = decide (m = 0) := by
      rw [breakTest]; by_cases hm : m = 0 <;> simp [hm] <;> omega
    cases rest with
    | nil =>
      refine ⟨lt, pulled, ?_, by simp [dropValues], hb⟩
      simp [takeLoop_nil, hb, values, dropValues]
    | cons x r =>
      have hst : stopped = false := by cases stopped <;> simp_all
      subst hst
      simp only [List.length_cons] at hf
      cases x with
      | valueEnd => simp [noMarker] at hm
      | value v =>
        have hmr : noMarker r = true := by simpa [noMarker] using hm
        cases m with
        | zero =>
          refine ⟨lt, pulled + 1, ?_, by simp [dropValues]; omega, hb⟩
          simp [takeLoop, pull_value _ _ _ _ _ hb, hbt, values, dropValues]
        | succ k =>
          obtain ⟨lt', p', h1, hp, h2⟩ := ih r n (i + 1) k (pulled + 1) false lt futs (ret ++ [.val v]) hmr (by omega) hb
            (by simp) (by omega)
          refine ⟨lt', p', ?_, by simp only [dropValues, List.length_cons]; omega, h2⟩
          simp only [takeLoop, pull_value _ _ _ _ _ hb, hbt, h1, values, dropValues]
          simp
      | await bb =>
        have hmr : noMarker r = true := by simpa [noMarker] using hm
        have hl := drainRest_length_le r
        have hdv := dropValues_succ_await m r hmr
        cases hd : drainItem r with
        | endMarker =>
          obtain ⟨hr, hv, hstop⟩ := drainItem_end r hmr hd
          rw [hd] at hdv
          cases f with
          | zero => omega
          | succ f' =>
            refine ⟨some .internal, pulled + 1 + (r.length - (drainRest r).length), ?_,
              by simp only [dropValues, hdv, hr, List.length_cons, List.length_nil]; omega, blockedBy_internal futs⟩
            simp only [takeLoop, pull_await _ _ _ _ _ hb, hd, hr, hstop] at ⊢
            simp only [values, hv, dropValues, hdv]
            simp [pull_nil _ _ _ _ (blockedBy_internal futs)]
        | val v =>
          obtain ⟨hv, hstop⟩ := drainItem_val r v hd
          rw [hd] at hdv
          cases m with
          | zero =>
            refine ⟨some .internal, pulled + 1 + (r.length - (drainRest r).length), ?_,
              by simp only [dropValues, hdv, List.length_cons] at *; omega, blockedBy_internal futs⟩
            simp only [takeLoop, pull_await _ _ _ _ _ hb, hd, hbt, hstop]
            simp [values, hv, dropValues, hdv]
          | succ k =>
            obtain ⟨lt', p', h1, hp, h2⟩ := ih (drainRest r) n (i + 1) k (pulled + 1 + (r.length - (drainRest r).length))
              false (some .internal) futs (ret ++ [.val v]) (noMarker_drainRest r hmr) (by omega)
              (blockedBy_internal futs) (by simp) (by omega)
            refine ⟨lt', p', ?_, by simp only [dropValues, hdv, List.length_cons] at *; omega, h2⟩
            simp only [takeLoop, pull_await _ _ _ _ _ hb, hd, hbt, hstop]
            simp only [h1, values, hv, dropValues, hdv]
            simp

/-! ### the loops as functions of the state -/

theorem listOf_spec (rest : Body) (pulled : Nat) (stopped : Bool) (lt : Option LastRef) (futs : List Fut)
    (hm : noMarker rest = true) (hb : blockedBy lt futs = false) (hw : stopped = true → rest = []) :
    ∃ lt' p', listOf ⟨rest, pulled, stopped, lt, futs⟩ =
        (⟨[], p', true, lt', futs⟩, .lst ((values rest).map .val)) ∧
      p' = pulled + rest.length ∧ blockedBy lt' futs = false := by
  have := listLoop_spec (rest.length + 1) rest pulled stopped lt futs [] hm hb hw (Nat.lt_succ_self _)
  simpa [listOf] using this

theorem takeFirst_spec (rest : Body) (m pulled : Nat) (stopped : Bool) (lt : Option LastRef) (futs : List Fut)
    (hm : noMarker rest = true) (hb : blockedBy lt futs = false) (hw : stopped = true → rest = []) :
    ∃ lt' p', takeFirst ⟨rest, pulled, stopped, lt, futs⟩ (m + 1) =
        (⟨dropValues (m + 1) rest, p', stopped || decide ((values rest).length < m + 1), lt', futs⟩,
          .lst (((values rest).take (m + 1)).map .val)) ∧
      p' + (dropValues (m + 1) rest).length = pulled + rest.length ∧ blockedBy lt' futs = false := by
  have := takeLoop_lt (rest.length + 1) rest (m + 1) 0 m pulled stopped lt futs [] hm (by omega) hb hw
    (Nat.lt_succ_self _)
  simpa [takeFirst] using this

/-- `take_first(gen, 0)` returns `[]` and does not touch the generator - in any state -/
theorem takeFirst_zero (s : St) : takeFirst s 0 = (s, .lst []) := by
  simp [takeFirst]

theorem listOf_blocked (s : St) (hb : s.blocked = true) : listOf s = (s, .raised .runtimeError) := by
  simp [listOf, listLoop, pull_blocked s hb]

theorem takeFirst_blocked (s : St) (m : Nat) (hb : s.blocked = true) :
    takeFirst s (m + 1) = (s, .raised .runtimeError) := by
  simp [takeFirst, takeLoop, pull_blocked s hb]

theorem next_blocked (s : St) (hb : s.blocked = true) : next s = (s, .raised .runtimeError) := by
  simp [next, send, hb]

/-! ### the observer simulates the model -/

def Fut.known : Fut → Known
  | .const r => .val r
  | .pending b => .pending b
  | .done r => .val r

/-- the reference cursor mirrors the generator; at most the task in `last_task` is uncomputed -/
structure Rel (total : Nat) (w : Watch) (s : St) : Prop where
  rest : w.rest = s.rest
  fin : w.fin = s.stopped
  known : w.known = s.futs.map Fut.known
  pos : s.pulled + s.rest.length = total
  wf : s.stopped = true → s.rest = []
  nm : noMarker s.rest = true
  last : ∀ k b, s.futs[k]? = some (.pending b) → s.lastTask = some (.handle k)

theorem rel_init (b : Body) (hm : noMarker b = true) : Rel b.length (watchInit b) (init b) := by
  constructor <;> simp [watchInit, init, hm]

theorem noPending_of_unblocked (lt : Option LastRef) (futs : List Fut)
    (hl : ∀ k b, futs[k]? = some (.pending b) → lt = some (.handle k)) (hb : blockedBy lt futs = false) :
    ∀ (k : Nat) (b : Bool), futs[k]? ≠ some (Fut.pending b) := by
  intro k b hk
  have := hl k b hk
  subst this
  simp [blockedBy, hk] at hb

theorem watch_blocked_eq (lt : Option LastRef) (futs : List Fut)
    (hl : ∀ k b, futs[k]? = some (.pending b) → lt = some (.handle k)) :
    (futs.map Fut.known).any Known.isPending = blockedBy lt futs := by
  cases hb : blockedBy lt futs with
  | false =>
    have hn := noPending_of_unblocked lt futs hl hb
    rw [Bool.eq_false_iff]
    intro h
    simp only [List.any_eq_true, List.mem_map] at h
    obtain ⟨x, ⟨f, hf, hx⟩, hx2⟩ := h
    obtain ⟨k, hk⟩ := List.getElem?_of_mem hf
    cases f with
    | pending b => exact hn k b hk
    | const v => simp [Fut.known] at hx; simp [← hx, Known.isPending] at hx2
    | done r => simp [Fut.known] at hx; simp [← hx, Known.isPending] at hx2
  | true =>
    simp only [blockedBy] at hb
    split at hb
    · rename_i k
      split at hb
      · rename_i b hk
        simp only [List.any_eq_true, List.mem_map]
        exact ⟨.pending b, ⟨.pending b, List.mem_of_getElem? hk, rfl⟩, rfl⟩
      · simp at hb
    · simp at hb

theorem dropValues_of_short (b : Body) : ∀ n, (values b).length < n → dropValues n b = [] := by
  induction b with
  | nil => intro n _; cases n <;> simp [dropValues] at *
  | cons x r ih =>
    intro n hn
    cases n with
    | zero => omega
    | succ m =>
      cases x with
      | await bb => simp only [dropValues, values] at hn ⊢; exact ih (m + 1) hn
      | value v => simp only [dropValues, values, List.length_cons] at hn ⊢; exact ih m (by omega)
      | valueEnd => simp only [dropValues, values] at hn ⊢; exact ih (m + 1) hn

/-- a list of Values does not contain END_OF_GENERATOR -/
theorem hasMarker_vals (l : List Nat) : Res.hasMarker (.lst (l.map .val)) = false := by
  induction l with
  | nil => rfl
  | cons x r ih => simp only [Res.hasMarker, List.map_cons, List.any_cons] at ih ⊢; rw [ih]; rfl

theorem values_dropValues (b : Body) : ∀ n, values (dropValues n b) = (values b).drop n := by
  induction b with
  | nil => intro n; cases n <;> simp [dropValues, values]
  | cons x r ih =>
    intro n
    cases n with
    | zero => simp [dropValues]
    | succ m =>
      cases x with
      | await bb => simp only [dropValues, values]; exact ih (m + 1)
      | value v => simp only [dropValues, values, List.drop_succ_cons]; exact ih m
      | valueEnd => simp only [dropValues, values]; exact ih (m + 1)

theorem dropValues_dropValues (b : Body) : ∀ n m, dropValues m (dropValues n b) = dropValues (n + m) b := by
  induction b with
  | nil => intro n m; cases n <;> cases m <;> simp [dropValues]
  | cons x r ih =>
    intro n m
    cases n with
    | zero => simp [dropValues]
    | succ k =>
      have e : k + 1 + m = (k + m) + 1 := by omega
      cases x with
      | await bb => simp only [dropValues, e]; rw [← e]; exact ih (k + 1) m
      | value v => simp only [dropValues, e]; exact ih k m
      | valueEnd => simp only [dropValues, e]; rw [← e]; exact ih (k + 1) m

/-- the state `take_first(gen, n)` leaves behind is again one from which the loops can be described -/
theorem take_wf (b : Body) (n : Nat) (stopped : Bool) (hw : stopped = true → b = []) :
    (stopped || decide ((values b).length < n)) = true → dropValues n b = [] := by
  intro hh
  rcases Bool.or_eq_true_iff.mp hh with h | h
  · rw [hw h]; cases n <;> simp [dropValues]
  · exact dropValues_of_short b n (by simpa using h)

/-- whatever the state, the consumer loops never put END_OF_GENERATOR into their result -/
theorem listLoop_noMarker : ∀ (fuel : Nat) (s : St) (data : List Item),
    data.any (· == .endMarker) = false → (listLoop fuel s data).2.hasMarker = false := by
  intro fuel
  induction fuel with
  | zero => intro s data _; rfl
  | succ f ih =>
    intro s data hd
    simp only [listLoop]
    cases hp : pull s with
    | mk s1 r =>
      cases r with
      | error x => cases x <;> simp [Res.hasMarker, hd]
      | ok v =>
        cases v with
        | endMarker => exact ih s1 data hd
        | val x => exact ih s1 (data ++ [.val x]) (by simp [List.any_append, hd])

theorem takeLoop_noMarker : ∀ (fuel n i : Nat) (s : St) (ret : List Item),
    ret.any (· == .endMarker) = false → (takeLoop fuel n i s ret).2.hasMarker = false := by
  intro fuel
  induction fuel with
  | zero => intro n i s ret _; rfl
  | succ f ih =>
    intro n i s ret hd
    simp only [takeLoop]
    cases hp : pull s with
    | mk s1 r =>
      cases r with
      | error x => cases x <;> simp [Res.hasMarker, hd]
      | ok v =>
        cases v with
        | endMarker => exact ih n (i + 1) s1 ret hd
        | val x =>
          have h2 : (ret ++ [Item.val x]).any (· == .endMarker) = false := by simp [List.any_append, hd]
          simp only []
          split
          · simpa [Res.hasMarker] using h2
          · exact ih n (i + 1) s1 _ h2

/-- repeated `take_first` calls on one generator, and the reference: consecutive chunks of the Values -/
def takeMany (s : St) : List Nat → List Res
  | [] => []
  | n :: ns => (takeFirst s n).2 :: takeMany (takeFirst s n).1 ns

def chunks (l : List Nat) : List Nat → List (List Nat)
  | [] => []
  | n :: ns => l.take n :: chunks (l.drop n) ns

/-- the state after the calls -/
def takeManySt (s : St) : List Nat → St
  | [] => s
  | n :: ns => takeManySt (takeFirst s n).1 ns

/-- how many Values the calls ask for as long as Values are left: a call that asks for more than there are left
    runs the generator to its end -/
theorem takeMany_spec (ns : List Nat) : ∀ (rest : Body) (pulled : Nat) (stopped : Bool)
    (lt : Option LastRef) (futs : List Fut), noMarker rest = true → blockedBy lt futs = false →
    (stopped = true → rest = []) →
    takeMany ⟨rest, pulled, stopped, lt, futs⟩ ns = (chunks (values rest) ns).map (fun c => .lst (c.map .val)) ∧
    (takeManySt ⟨rest, pulled, stopped, lt, futs⟩ ns).rest = dropValues ns.sum rest ∧
    (takeManySt ⟨rest, pulled, stopped, lt, futs⟩ ns).pulled + (dropValues ns.sum rest).length =
      pulled + rest.length := by
  induction ns with
  | nil => intros; simp [takeMany, chunks, takeManySt, dropValues]
  | cons n ns ih =>
    intro rest pulled stopped lt futs hm hb hw
    cases n with
    | zero =>
      simp only [takeMany, takeManySt, chunks, List.map_cons, takeFirst_zero, List.take_zero, List.drop_zero,
        List.map_nil, List.sum_cons, Nat.zero_add]
      obtain ⟨h1, h2, h3⟩ := ih _ pulled _ lt futs hm hb hw
      exact ⟨by rw [h1], h2, h3⟩
    | succ m =>
      obtain ⟨lt', p', e, hp, hb'⟩ := takeFirst_spec rest m pulled stopped lt futs hm hb hw
      obtain ⟨h1, h2, h3⟩ := ih _ p' _ lt' futs (noMarker_dropValues (m + 1) rest hm) hb'
        (take_wf rest (m + 1) stopped hw)
      have hdd : dropValues ns.sum (dropValues (m + 1) rest) = dropValues (m + 1 + ns.sum) rest :=
        dropValues_dropValues rest (m + 1) ns.sum
      simp only [takeMany, takeManySt, chunks, List.map_cons, e, List.sum_cons]
      rw [hdd] at h2 h3
      refine ⟨by rw [h1, values_dropValues], h2, by omega⟩

theorem values_wrapAux (b : Body) : ∀ m, values (wrapAux m b) = values b := by
  induction b with
  | nil => intro m; cases m <;> rfl
  | cons x r ih => intro m; cases m <;> cases x <;> simp [wrapAux, values, ih]

theorem values_wrapN (k : Nat) (b : Body) : values (wrapN k b) = values b := by
  induction k with
  | zero => rfl
  | succ j ih => simp only [wrapN, wrap, values_wrapAux, ih]

theorem noMarker_wrapAux (b : Body) : ∀ m, noMarker (wrapAux m b) = true := by
  induction b with
  | nil => intro m; cases m <;> rfl
  | cons x r ih => intro m; cases m <;> cases x <;> simp [wrapAux, noMarker, ih]

theorem noMarker_wrapN (k : Nat) (b : Body) (hm : noMarker b = true) : noMarker (wrapN k b) = true := by
  cases k with
  | zero => exact hm
  | succ j => exact noMarker_wrapAux _ false

/-! ### the fuel of the consumer loops is never used up (every state, every body - also with marker payloads) -/

/-- one loop trip either ends the loop with StopIteration / RuntimeError or delivers something and makes progress -/
theorem pull_cases (s : St) :
    ((pull s).2 = .error .stopIteration ∨ (pull s).2 = .error .runtimeError) ∨
    (∃ v, (pull s).2 = .ok v ∧ (pull s).1.rest.length < s.rest.length) := by
  obtain ⟨rest, pulled, stopped, lt, futs⟩ := s
  cases hb : blockedBy lt futs with
  | true => simp [pull, send, blocked_eq, hb]
  | false =>
    cases stopped with
    | true => simp [pull, send, blocked_eq, hb]
    | false =>
      cases rest with
      | nil => simp [pull, send, blocked_eq, hb, getOneValue]
      | cons x r =>
        cases x with
        | value v => simp [pull, send, blocked_eq, hb, getOneValue]
        | valueEnd => simp [pull, send, blocked_eq, hb, getOneValue]
        | await bb =>
          have := drainRest_length_le r
          right
          refine ⟨drainItem r, ?_⟩
          simp [pull, send, blocked_eq, hb, getOneValue, sendInner_spec]
          omega

theorem listLoop_within_fuel : ∀ (fuel : Nat) (s : St) (data : List Item), s.rest.length < fuel →
    (listLoop fuel s data).2 ≠ .raised .other := by
  intro fuel
  induction fuel with
  | zero => intro s _ h; simp at h
  | succ f ih =>
    intro s data hf
    simp only [listLoop]
    rcases pull_cases s with (h | h) | ⟨v, h, hl⟩
    · cases hp : pull s with
      | mk s1 r => rw [hp] at h; simp only at h; subst h; simp
    · cases hp : pull s with
      | mk s1 r => rw [hp] at h; simp only at h; subst h; simp
    · cases hp : pull s with
      | mk s1 r =>
        rw [hp] at h hl; simp only at h hl; subst h
        cases v with
        | endMarker => exact ih s1 data (by omega)
        | val x => exact ih s1 _ (by omega)

theorem takeLoop_within_fuel : ∀ (fuel n i : Nat) (s : St) (ret : List Item), s.rest.length < fuel →
    (takeLoop fuel n i s ret).2 ≠ .raised .other := by
  intro fuel
  induction fuel with
  | zero => intro _ _ s _ h; simp at h
  | succ f ih =>
    intro n i s ret hf
    simp only [takeLoop]
    rcases pull_cases s with (h | h) | ⟨v, h, hl⟩
    · cases hp : pull s with
      | mk s1 r => rw [hp] at h; simp only at h; subst h; simp
    · cases hp : pull s with
      | mk s1 r => rw [hp] at h; simp only at h; subst h; simp
    · cases hp : pull s with
      | mk s1 r =>
        rw [hp] at h hl; simp only at h hl; subst h
        cases v with
        | endMarker => exact ih n (i + 1) s1 ret (by omega)
        | val x =>
          simp only []
          split
          · simp
          · exact ih n (i + 1) s1 _ (by omega)
