import AsynqModel.Proofs.P16Obs
import AsynqModel.Proofs.P13Inv
import AsynqModel.Proofs.P14Watch
import AsynqModel.Proofs.P5Reach
import AsynqModel.Proofs.P2Basic
import AsynqModel.Proofs.P2Unwrap
/-!
  P16, part 9: the relation `U` between the observer and the machine that holds in EVERY intermediate state of a
  step, and its preservation by the primitive operations of the machine.

  `U cx s ex`:
  * `acc` : no event of the trace violated a clause of `chkB` (`checkC06` without the `.ctx` / `.ctxX` clauses);
  * `lyc` : a task the observer considers suspended is a task that is `pending` (except for `ex`, the task that is
            about to be completed);
  * `kt`, `kl` : the observer knows every task as a task, and at least as many futures as the machine has;
  * `old` : a dependency of a task is a leaf of what it yielded last, or computed (KEEP_DEPENDENCIES keeps old ones);
  * `ns`  : a task that has not started has yielded nothing;
  * `ps`  : a task that is not suspended has started (or is computed).
-/
namespace AsynqModel.Core.P16
open AsynqModel.Core AsynqModel.Core.Spec AsynqModel.Core.P13 AsynqModel.Core.P5

structure U (cx : Ctx) (s : State) (ex : Option Nat) : Prop where
  acc : P13.Acc chkB cx s.trace
  lyc : ∀ t p, ex ≠ some t → (W s).lastYield.lookup t = some p → (s.task t).pending = true ∧ (s.fut t).kind = .task
  kt : ∀ f, (s.fut f).kind = .task → (W s).isTask f = true
  kl : s.futs.length ≤ (W s).kinds.length
  old : ∀ t d, d ∈ (s.task t).deps → d ∈ (s.task t).lastY.leaves ∨ s.computed d = true
  ns : ∀ t, (s.task t).started = false → (s.task t).lastY = .none ∧ (s.task t).deps = []
  ps : ∀ t, ex ≠ some t → (s.task t).pending = false → (s.task t).started = true ∨ s.computed t = true

variable {cx : Ctx}

/-- events that change neither `lastYield` nor `kinds` -/
def uQuiet : Event → Bool
  | .run _ _ _ _ => false
  | .yield _ _ _ => false
  | .done _ _ => false
  | .new _ _ => false
  | _ => true

/-- ... and that `chkB` has no clause for -/
def uInert : Event → Bool
  | .run _ _ _ _ => false
  | .yield _ _ _ => false
  | .done _ _ => false
  | .new _ _ => false
  | .flushB _ _ _ _ _ => false
  | .ret _ => false
  | .bad _ => false
  | _ => true

theorem uQuiet_of_inert {e : Event} (h : uInert e = true) : uQuiet e = true := by
  cases e <;> simp_all [uInert, uQuiet]

theorem chkB_inert (w : Watch) (e : Event) (h : uInert e = true) : chkB cx w e = none := by
  cases e <;> simp_all [uInert, chkB, checkC06]

theorem quiet_lastYield (w : Watch) (e : Event) (h : uQuiet e = true) : (watchEvent w e).lastYield = w.lastYield := by
  cases e <;> simp_all [uQuiet, watchEvent, Watch.mention]
  case ctx r c => cases r <;> rfl

theorem quiet_kinds (w : Watch) (e : Event) (h : uQuiet e = true) : (watchEvent w e).kinds = w.kinds := by
  cases e <;> simp_all [uQuiet, watchEvent, Watch.mention]
  case ctx r c => cases r <;> rfl

theorem new_kinds (w : Watch) (f : Nat) (k : NewKind) : (watchEvent w (.new f k)).kinds = (f, k) :: w.kinds := by
  cases k <;> simp [watchEvent] <;> split <;> rfl

theorem isTask_of_kinds {w w' : Watch} (h : w'.kinds = w.kinds) (f : Nat) : w'.isTask f = w.isTask f := by
  unfold Watch.isTask; rw [h]

theorem U.weaken {s : State} (h : U cx s none) (ex : Option Nat) : U cx s ex :=
  ⟨h.acc, fun t p _ => h.lyc t p (by simp), h.kt, h.kl, h.old, h.ns, fun t _ => h.ps t (by simp)⟩

theorem U.init (cfg : Cfg) (tops : List (Conv × Body)) (choices : List (Nat × Nat)) :
    U cx (initState cfg tops choices) none := by
  have ht : ∀ t, (initState cfg tops choices).task t = {} := fun t => by simp [State.task, State.fut, initState]
  have hf : ∀ t, (initState cfg tops choices).fut t = {} := fun t => by simp [State.fut, initState]
  refine ⟨trivial, fun t p _ h => ?_, fun f h => ?_, Nat.zero_le _, fun t d h => ?_, fun t _ => ?_, fun t _ h => ?_⟩
  · simp [W, initState] at h
  · rw [hf] at h; cases h
  · rw [ht] at h; cases h
  · rw [ht]; exact ⟨rfl, rfl⟩
  · rw [ht] at h; cases h

theorem U.of_eq {s r : State} {ex} (h : U cx s ex) (hf : r.futs = s.futs) (ht : r.trace = s.trace) : U cx r ex := by
  have e1 : ∀ u, r.task u = s.task u := fun u => by simp [State.task, State.fut, hf]
  have e2 : ∀ u, r.fut u = s.fut u := fun u => by simp [State.fut, hf]
  have e3 : ∀ u, r.computed u = s.computed u := fun u => by simp [State.computed, State.out, e2]
  have hw : W r = W s := by show obs r.trace = obs s.trace; rw [ht]
  refine ⟨by rw [ht]; exact h.acc, ?_, ?_, by rw [hw, hf]; exact h.kl, ?_, ?_, ?_⟩
  · intro t p hx hl; rw [hw] at hl; rw [e1, e2]; exact h.lyc t p hx hl
  · intro f hk; rw [e2] at hk; rw [hw]; exact h.kt f hk
  · intro t d hd; rw [e1] at hd ⊢; rw [e3]; exact h.old t d hd
  · intro t hs; rw [e1] at hs ⊢; exact h.ns t hs
  · intro t hx hp; rw [e1] at hp ⊢; rw [e3]; exact h.ps t hx hp

/-- an event that is checked, but changes nothing the relation looks at -/
theorem U.emitC {s : State} {ex} (h : U cx s ex) (e : Event) (hq : uQuiet e = true)
    (hchk : chkB cx (W s) e = none) : U cx (s.emit e) ex := by
  have hw1 : (W (s.emit e)).lastYield = (W s).lastYield := quiet_lastYield _ _ hq
  have hw2 : (W (s.emit e)).kinds = (W s).kinds := quiet_kinds _ _ hq
  refine ⟨⟨h.acc, hchk⟩, ?_, ?_, by rw [hw2]; exact h.kl, h.old, h.ns, h.ps⟩
  · intro t p hx hl; rw [hw1] at hl; exact h.lyc t p hx hl
  · intro f hk; rw [isTask_of_kinds hw2]; exact h.kt f hk

theorem U.emit {s : State} {ex} (h : U cx s ex) (e : Event) (he : uInert e = true) : U cx (s.emit e) ex :=
  h.emitC e (uQuiet_of_inert he) (chkB_inert _ e he)

theorem U.updTask {s : State} {ex} (h : U cx s ex) (t : Nat) (g : TaskSt → TaskSt) (h1 : ∀ x, (g x).pending = x.pending)
    (h2 : ∀ x, (g x).started = x.started) (h3 : ∀ x, (g x).lastY = x.lastY) (h4 : ∀ x, (g x).deps = x.deps) :
    U cx (s.updTask t g) ex := by
  have f1 : ∀ u, ((s.updTask t g).task u).pending = (s.task u).pending := fun u => task_updTask_field s t u g (·.pending) h1
  have f2 : ∀ u, ((s.updTask t g).task u).started = (s.task u).started := fun u => task_updTask_field s t u g (·.started) h2
  have f3 : ∀ u, ((s.updTask t g).task u).lastY = (s.task u).lastY := fun u => task_updTask_field s t u g (·.lastY) h3
  have f4 : ∀ u, ((s.updTask t g).task u).deps = (s.task u).deps := fun u => task_updTask_field s t u g (·.deps) h4
  refine ⟨h.acc, ?_, ?_, by show (s.updTask t g).futs.length ≤ (W s).kinds.length; rw [updTask_len]; exact h.kl, ?_, ?_, ?_⟩
  · intro u p hx hl; rw [f1, kind_updTask]; exact h.lyc u p hx hl
  · intro f hk; rw [kind_updTask] at hk; exact h.kt f hk
  · intro u d hd; rw [f4] at hd; rw [f3, computed_updTask]; exact h.old u d hd
  · intro u hs; rw [f2] at hs; rw [f3, f4]; exact h.ns u hs
  · intro u hx hp; rw [f1] at hp; rw [f2, computed_updTask]; exact h.ps u hx hp

/-- the task that is about to be completed stops being `pending` -/
theorem U.unpend {s : State} (h : U cx s none) (t : Nat) (g : TaskSt → TaskSt)
    (h2 : ∀ x, (g x).started = x.started) (h3 : ∀ x, (g x).lastY = x.lastY) (h4 : ∀ x, (g x).deps = x.deps)
    (h1 : ∀ x, (g x).pending = false) : U cx (s.updTask t g) (some t) := by
  have f2 : ∀ u, ((s.updTask t g).task u).started = (s.task u).started := fun u => task_updTask_field s t u g (·.started) h2
  have f3 : ∀ u, ((s.updTask t g).task u).lastY = (s.task u).lastY := fun u => task_updTask_field s t u g (·.lastY) h3
  have f4 : ∀ u, ((s.updTask t g).task u).deps = (s.task u).deps := fun u => task_updTask_field s t u g (·.deps) h4
  have f1 : ∀ u, u ≠ t → (s.updTask t g).task u = s.task u := fun u hu => task_updTask_ne s t u g hu
  refine ⟨h.acc, ?_, ?_, by show (s.updTask t g).futs.length ≤ (W s).kinds.length; rw [updTask_len]; exact h.kl, ?_, ?_, ?_⟩
  · intro u p hx hl
    have hu : u ≠ t := fun e => hx (by rw [e])
    rw [f1 u hu, kind_updTask]; exact h.lyc u p (by simp) hl
  · intro f hk; rw [kind_updTask] at hk; exact h.kt f hk
  · intro u d hd; rw [f4] at hd; rw [f3, computed_updTask]; exact h.old u d hd
  · intro u hs; rw [f2] at hs; rw [f3, f4]; exact h.ns u hs
  · intro u hx hp
    have hu : u ≠ t := fun e => hx (by rw [e])
    rw [f1 u hu] at hp; rw [f1 u hu, computed_updTask]; exact h.ps u (by simp) hp

theorem lookup_done (w : Watch) (f : Nat) (o : Outcome) (t : Nat) :
    (watchEvent w (.done f o)).lastYield.lookup t = if t = f then none else w.lastYield.lookup t := by
  rw [P14.done_lastYield]
  by_cases h : t = f
  · subst h
    simp only [if_true]
    cases hl : (w.lastYield.filter fun p => p.1 != t).lookup t with
    | none => rfl
    | some p =>
      have := mem_of_lookup _ _ _ hl
      simp at this
  · rw [if_neg h, P14.lookup_filter_ne _ _ _ h]

theorem lookup_run (w : Watch) (f i : Nat) (dc : Bool) (r : Recv) (t : Nat) :
    (watchEvent w (.run f i dc r)).lastYield.lookup t = if t = f then none else w.lastYield.lookup t := by
  rw [P14.run_lastYield]
  by_cases h : t = f
  · subst h
    simp only [if_true]
    cases hl : (w.lastYield.filter fun p => p.1 != t).lookup t with
    | none => rfl
    | some p =>
      have := mem_of_lookup _ _ _ hl
      simp at this
  · rw [if_neg h, P14.lookup_filter_ne _ _ _ h]

/-- `set_value` / `set_error` -/
theorem U.complete {s : State} {ex} (h : U cx s ex) (f : Nat) (o : Outcome) (hex : ex = none ∨ ex = some f)
    (hchk : chkB cx (W s) (.done f o) = none) : U cx (s.complete f o) none := by
  have hfut := fun g => fut_complete s f g o
  have hne : ∀ u, u ≠ f → (s.complete f o).task u = s.task u := fun u hu => by
    unfold State.task; rw [hfut, if_neg (fun hh => hu hh.1)]
  have hkind : ∀ u, ((s.complete f o).fut u).kind = (s.fut u).kind := by
    intro u; rw [hfut]; split
    · next hh => rw [hh.1]
    · rfl
  have hcomp : ∀ u, s.computed u = true → (s.complete f o).computed u = true := (ext_complete s f o).comp
  have hw : W (s.complete f o) = watchEvent (W s) (.done f o) := rfl
  have hexu : ∀ u, u ≠ f → ex ≠ some u := by
    intro u hu
    rcases hex with e | e <;> rw [e] <;> simp
    exact fun e' => hu e'.symm
  refine ⟨⟨h.acc, hchk⟩, ?_, ?_, ?_, ?_, ?_, ?_⟩
  · intro u p _ hl
    rw [hw, lookup_done] at hl
    by_cases hu : u = f
    · rw [if_pos hu] at hl; cases hl
    · rw [if_neg hu] at hl
      rw [hne u hu, hkind]; exact h.lyc u p (hexu u hu) hl
  · intro u hk
    rw [hkind] at hk
    show (W s).isTask u = true
    exact h.kt u hk
  · show (s.complete f o).futs.length ≤ (W s).kinds.length
    have : (s.complete f o).futs.length = s.futs.length := by simp [State.complete]
    rw [this]; exact h.kl
  · intro u d hd
    by_cases hu : u = f
    · subst hu
      by_cases hl : u < s.futs.length
      · exfalso
        simp only [State.task, hfut, hl, and_self, if_true] at hd
        simp at hd
      · have e : (s.complete u o).task u = s.task u := by
          unfold State.task; rw [hfut, if_neg (fun hh => hl hh.2)]
        rw [e] at hd ⊢
        rcases h.old u d hd with h1 | h1
        · exact .inl h1
        · exact .inr (hcomp d h1)
    · rw [hne u hu] at hd ⊢
      rcases h.old u d hd with h1 | h1
      · exact .inl h1
      · exact .inr (hcomp d h1)
  · intro u hs
    by_cases hu : u = f
    · subst hu
      by_cases hl : u < s.futs.length
      · simp only [State.task, hfut, hl, and_self, if_true]
      · have e : (s.complete u o).task u = s.task u := by
          unfold State.task; rw [hfut, if_neg (fun hh => hl hh.2)]
        rw [e] at hs ⊢; exact h.ns u hs
    · rw [hne u hu] at hs ⊢; exact h.ns u hs
  · intro u _ hp
    by_cases hu : u = f
    · subst hu
      by_cases hl : u < s.futs.length
      · right
        simp [State.computed, State.out, hfut, hl]
      · have e : (s.complete u o).task u = s.task u := by
          unfold State.task; rw [hfut, if_neg (fun hh => hl hh.2)]
        rw [e] at hp
        rw [task_default s u (Nat.le_of_not_lt hl)] at hp
        cases hp
    · rw [hne u hu] at hp ⊢
      rcases h.ps u (hexu u hu) hp with h1 | h1
      · exact .inl h1
      · exact .inr (hcomp u h1)

theorem chkB_new (w : Watch) (f : Nat) (k : NewKind) : chkB cx w (.new f k) = none := rfl
theorem chkB_yield (w : Watch) (t i : Nat) (y : RY) : chkB cx w (.yield t i y) = none := rfl

/-- a new future -/
theorem U.alloc {s : State} {ex} (h : U cx s ex) (x : Fut) (nk : NewKind) (h1 : x.ts.pending = true)
    (h2 : x.ts.started = false) (h3 : x.ts.lastY = .none) (h4 : x.ts.deps = [])
    (hk : x.kind = .task → ∃ cr, nk = .task cr) : U cx (s.alloc x nk).1 ex := by
  have hfut := fun g => P2.fut_alloc s x nk g
  have hold : ∀ g, g < s.futs.length → (s.alloc x nk).1.fut g = s.fut g := fun g hg => by
    rw [hfut, if_neg (by omega)]
  have hw : W (s.alloc x nk).1 = watchEvent (W s) (.new s.futs.length nk) := rfl
  have hcases : ∀ g, (g < s.futs.length ∧ (s.alloc x nk).1.fut g = s.fut g) ∨
      (g = s.futs.length ∧ (s.alloc x nk).1.fut g = x) ∨ (s.futs.length < g ∧ (s.alloc x nk).1.fut g = {}) := by
    intro g
    rcases Nat.lt_trichotomy g s.futs.length with hg | hg | hg
    · exact .inl ⟨hg, hold g hg⟩
    · exact .inr (.inl ⟨hg, by rw [hfut, if_pos hg]⟩)
    · refine .inr (.inr ⟨hg, ?_⟩)
      rw [hfut, if_neg (by omega)]
      exact fut_default s g (by omega)
  have hcomp : ∀ g, s.computed g = true → (s.alloc x nk).1.computed g = true := by
    intro g hg
    rcases hcases g with ⟨_, e⟩ | ⟨e0, _⟩ | ⟨e0, _⟩
    · simpa [State.computed, State.out, e] using hg
    · simp [State.computed, State.out, fut_default s g (by omega)] at hg
    · simp [State.computed, State.out, fut_default s g (by omega)] at hg
  refine ⟨⟨h.acc, chkB_new ..⟩, ?_, ?_, ?_, ?_, ?_, ?_⟩
  · intro t p hx hl
    rw [hw, P14.new_lastYield] at hl
    obtain ⟨hp, hkt⟩ := h.lyc t p hx hl
    have hlt := lt_of_kind_task s t hkt
    simp only [State.task, hold t hlt]
    exact ⟨hp, hkt⟩
  · intro f hkf
    rw [hw]
    unfold Watch.isTask
    rw [new_kinds, List.lookup_cons]
    rcases hcases f with ⟨hl, e⟩ | ⟨e0, e⟩ | ⟨_, e⟩
    · have : (f == s.futs.length) = false := by simp; omega
      rw [this]
      rw [e] at hkf
      exact h.kt f hkf
    · subst e0
      rw [e] at hkf
      obtain ⟨cr, rfl⟩ := hk hkf
      simp
    · rw [e] at hkf; cases hkf
  · rw [hw, new_kinds]
    simp only [State.alloc, State.emit, List.length_append, List.length_singleton, List.length_cons]
    exact Nat.succ_le_succ h.kl
  · intro t d hd
    rcases hcases t with ⟨_, e⟩ | ⟨_, e⟩ | ⟨_, e⟩
    · simp only [State.task, e] at hd ⊢
      rcases h.old t d hd with h1 | h1
      · exact .inl h1
      · exact .inr (hcomp d h1)
    · simp only [State.task, e, h4] at hd; cases hd
    · simp only [State.task, e] at hd; cases hd
  · intro t hs
    rcases hcases t with ⟨_, e⟩ | ⟨_, e⟩ | ⟨_, e⟩
    · simp only [State.task, e] at hs ⊢; exact h.ns t hs
    · simp only [State.task, e]; exact ⟨h3, h4⟩
    · simp only [State.task, e]; exact ⟨trivial, trivial⟩
  · intro t hx hp
    rcases hcases t with ⟨_, e⟩ | ⟨_, e⟩ | ⟨_, e⟩
    · simp only [State.task, e] at hp ⊢
      rcases h.ps t hx hp with h1 | h1
      · exact .inl h1
      · exact .inr (hcomp t h1)
    · simp only [State.task, e, h1] at hp; cases hp
    · simp only [State.task, e] at hp; cases hp

/-- the resume / the start of a suspended task -/
theorem U.run {s : State} (h : U cx s none) (t i : Nat) (dc : Bool) (r : Recv) (g : TaskSt → TaskSt)
    (h1 : ∀ x, (g x).pending = false) (h2 : (g (s.task t)).started = true) (h3 : ∀ x, (g x).lastY = .none)
    (h4 : ∀ x, (g x).deps = x.deps ∨ (g x).deps = []) (hd : ∀ d ∈ (s.task t).deps, s.computed d = true)
    (hchk : chkB cx (W s) (.run t i dc r) = none) : U cx ((s.updTask t g).emit (.run t i dc r)) none := by
  have hw : W ((s.updTask t g).emit (.run t i dc r)) = watchEvent (W s) (.run t i dc r) := rfl
  have hne : ∀ u, u ≠ t → ((s.updTask t g).emit (.run t i dc r)).task u = s.task u := fun u hu => by
    rw [emit_task, task_updTask_ne s t u g hu]
  have hself : ∀ u, u = t → t < s.futs.length → ((s.updTask t g).emit (.run t i dc r)).task u = g (s.task t) := by
    intro u hu hl; rw [emit_task, hu, task_updTask_self s t g hl]
  have hsmall : ∀ u, u = t → ¬ t < s.futs.length → ((s.updTask t g).emit (.run t i dc r)).task u = s.task u := by
    intro u hu hl
    rw [emit_task, task_updTask, if_neg (fun hh => hl hh.2)]
  refine ⟨⟨h.acc, hchk⟩, ?_, ?_, ?_, ?_, ?_, ?_⟩
  · intro u p _ hl
    rw [hw, lookup_run] at hl
    by_cases hu : u = t
    · rw [if_pos hu] at hl; cases hl
    · rw [if_neg hu] at hl
      rw [hne u hu]
      show _ ∧ ((s.updTask t g).fut u).kind = _
      rw [kind_updTask]; exact h.lyc u p (by simp) hl
  · intro f hk
    have hk' : (s.fut f).kind = .task := by
      have : ((s.updTask t g).fut f).kind = .task := hk
      rwa [kind_updTask] at this
    show (W s).isTask f = true
    exact h.kt f hk'
  · show (s.updTask t g).futs.length ≤ (W s).kinds.length
    rw [updTask_len]; exact h.kl
  · intro u d hdd
    show _ ∨ (s.updTask t g).computed d = true
    rw [computed_updTask]
    by_cases hu : u = t
    · by_cases hl : t < s.futs.length
      · rw [hself u hu hl] at hdd ⊢
        rcases h4 (s.task t) with e | e
        · rw [e] at hdd; exact .inr (hd d hdd)
        · rw [e] at hdd; cases hdd
      · rw [hsmall u hu hl] at hdd ⊢; exact h.old u d hdd
    · rw [hne u hu] at hdd ⊢; exact h.old u d hdd
  · intro u hs
    by_cases hu : u = t
    · by_cases hl : t < s.futs.length
      · rw [hself u hu hl] at hs; rw [h2] at hs; cases hs
      · rw [hsmall u hu hl] at hs ⊢; exact h.ns u hs
    · rw [hne u hu] at hs ⊢; exact h.ns u hs
  · intro u _ hp
    show _ ∨ (s.updTask t g).computed u = true
    rw [computed_updTask]
    by_cases hu : u = t
    · by_cases hl : t < s.futs.length
      · rw [hself u hu hl]; exact .inl h2
      · rw [hsmall u hu hl] at hp ⊢; exact h.ps u (by simp) hp
    · rw [hne u hu] at hp ⊢; exact h.ps u (by simp) hp

/-- a `yield` of the running task `t` -/
theorem U.yield {s : State} (h : U cx s none) (t i : Nat) (ry : RY) (g : TaskSt → TaskSt)
    (h1 : ∀ x, (g x).pending = true) (h2 : ∀ x, (g x).started = x.started) (h3 : ∀ x, (g x).lastY = ry)
    (h4 : (g (s.task t)).deps = (s.task t).deps ++ extractFutures ry ∨ (g (s.task t)).deps = extractFutures ry)
    (hk : (s.fut t).kind = .task) (hst : (s.task t).started = true) (hd : ∀ d ∈ (s.task t).deps, s.computed d = true) :
    U cx ((s.emit (.yield t i ry)).updTask t g) none := by
  have hl : t < s.futs.length := lt_of_kind_task s t hk
  have hw : W ((s.emit (.yield t i ry)).updTask t g) = watchEvent (W s) (.yield t i ry) := rfl
  have hne : ∀ u, u ≠ t → ((s.emit (.yield t i ry)).updTask t g).task u = s.task u := fun u hu => by
    rw [task_updTask_ne _ t u g hu]; rfl
  have hself : ((s.emit (.yield t i ry)).updTask t g).task t = g (s.task t) := by
    rw [task_updTask_self _ t g (by simpa using hl)]; rfl
  have hkind : ∀ u, (((s.emit (.yield t i ry)).updTask t g).fut u).kind = (s.fut u).kind := fun u => by
    rw [kind_updTask]; rfl
  have hcomp : ∀ u, ((s.emit (.yield t i ry)).updTask t g).computed u = s.computed u := fun u => by
    rw [computed_updTask]; rfl
  refine ⟨⟨h.acc, chkB_yield ..⟩, ?_, ?_, ?_, ?_, ?_, ?_⟩
  · intro u p _ hlk
    rw [hw, P14.yield_lastYield] at hlk
    by_cases hu : u = t
    · subst hu; rw [hself, hkind]; exact ⟨h1 _, hk⟩
    · rw [P14.lookup_insertKV_ne _ _ _ _ hu] at hlk
      rw [hne u hu, hkind]; exact h.lyc u p (by simp) hlk
  · intro f hkf
    rw [hkind] at hkf
    show (W s).isTask f = true
    exact h.kt f hkf
  · show ((s.emit (.yield t i ry)).updTask t g).futs.length ≤ (W s).kinds.length
    rw [updTask_len]; exact h.kl
  · intro u d hdd
    rw [hcomp]
    by_cases hu : u = t
    · subst hu
      rw [hself] at hdd ⊢
      rw [h3]
      rcases h4 with e | e
      · rw [e] at hdd
        rcases List.mem_append.1 hdd with h5 | h5
        · exact .inr (hd d h5)
        · exact .inl ((P2.mem_extractFutures ry d).1 h5)
      · rw [e] at hdd
        exact .inl ((P2.mem_extractFutures ry d).1 hdd)
    · rw [hne u hu] at hdd ⊢; exact h.old u d hdd
  · intro u hs
    by_cases hu : u = t
    · subst hu; rw [hself, h2, hst] at hs; cases hs
    · rw [hne u hu] at hs ⊢; exact h.ns u hs
  · intro u _ hp
    rw [hcomp]
    by_cases hu : u = t
    · subst hu; rw [hself, h1] at hp; cases hp
    · rw [hne u hu] at hp ⊢; exact h.ps u (by simp) hp

end AsynqModel.Core.P16
