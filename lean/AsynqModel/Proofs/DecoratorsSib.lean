import AsynqModel.Lib.Decorators
import AsynqModel.Proofs.Decorators
/-! helper lemmas for C09, conventions with a SECOND call of the same attribute (`sibling`, `siblingCall`, `prior`):
    the model equals the reference table whenever the key function separates the two calls - whatever the hashes -/
namespace AsynqModel.Decorators

/-! ### the two calls differ -/

theorem subst_ne (a : Args) (h : (a.pos.isEmpty && a.kw.isEmpty) = false) : a.subst ≠ a := by
  intro heq
  obtain ⟨pos, kw⟩ := a
  simp only [Args.subst, Args.mk.injEq] at heq
  obtain ⟨hp, hk⟩ := heq
  cases pos with
  | cons x xs => simp [substTok] at hp
  | nil =>
    cases kw with
    | cons y ys =>
      obtain ⟨y1, y2⟩ := y
      simp [substTok] at hk
    | nil => simp at h

theorem refArgs_inj (ft : FnType) (acc : Access) (a b : Args) (h : refArgs ft acc 0 a = refArgs ft acc 0 b) : a = b := by
  obtain ⟨ap, ak⟩ := a
  obtain ⟨bp, bk⟩ := b
  simp only [refArgs, Args.mk.injEq] at h
  obtain ⟨hp, hk⟩ := h
  have := List.append_cancel_left (List.append_cancel_left hp)
  simp [this, hk]

/-- unless the second call is skipped, the arguments its body must receive differ from those of the observed call -/
theorem refArgsSib_ne (ft : FnType) (acc : Access) (rel : Rel) (a : Args)
    (h : identicalSib ft acc rel a = false) : refArgsSib ft acc rel a ≠ refArgs ft acc 0 a := by
  by_cases he : effRecv rel ft acc = true
  · -- another receiver: the first positional argument differs
    cases rel <;> cases ft <;> cases acc <;>
      first
      | (simp [effRecv, hasRecvParam] at he; done)
      | (intro heq
         simp [refArgsSib, refArgs, effRecv, hasRecvParam, refPrefixSib, refPrefix, explicitSelfSib, explicitSelf,
               Access.swap, tokInst2, tokSubInst2, tokInst, tokSubInst, tokCls, tokSubCls] at heq)
  · have he' : effRecv rel ft acc = false := by simpa using he
    have hne : a.subst ≠ a := by
      apply subst_ne
      simpa [identicalSib, he', Bool.and_assoc] using h
    intro heq
    simp only [refArgsSib, he'] at heq
    exact hne (refArgs_inj ft acc _ _ (by simpa using heq))

/-! ### kinds that keep nothing between two calls -/

theorem sib_eq_ref_sibling_plainKinds (k : Kind) (ft : FnType) (acc : Access) (bk : BodyKind) (a : Args)
    (keyOf : Args → Args) (hf : Nat → Nat) (rs : Bool) (rel : Rel)
    (h : supported k ft acc = true) (hk : k ≠ .dedup) :
    modelCvRunF (Env.quiet keyOf hf rs) ⟨k, ft, acc, bk⟩ .sibling a rel = refCvRun ⟨k, ft, acc, bk⟩ .sibling a rel := by
  cases k <;> first
    | (exact absurd rfl hk)
    | (cases ft <;> cases acc <;> cases bk <;> cases rel <;> first | rfl | (simp [supported] at h))

theorem sib_eq_ref_siblingCall_plainKinds (k : Kind) (ft : FnType) (acc : Access) (bk : BodyKind) (a : Args)
    (keyOf : Args → Args) (hf : Nat → Nat) (rs : Bool) (rel : Rel)
    (h : supported k ft acc = true) (hk : k ≠ .dedup) :
    modelCvRunF (Env.quiet keyOf hf rs) ⟨k, ft, acc, bk⟩ .siblingCall a rel = refCvRun ⟨k, ft, acc, bk⟩ .siblingCall a rel := by
  cases k <;> first
    | (exact absurd rfl hk)
    | (cases ft <;> cases acc <;> cases bk <;> cases rel <;> first | rfl | (simp [supported] at h))

theorem sib_eq_ref_prior_plainKinds (k : Kind) (ft : FnType) (acc : Access) (bk : BodyKind) (a : Args)
    (keyOf : Args → Args) (hf : Nat → Nat) (rs : Bool) (rel : Rel)
    (h : supported k ft acc = true) (hk : k ≠ .alru ∧ k ≠ .acpi) :
    modelCvRunF (Env.quiet keyOf hf rs) ⟨k, ft, acc, bk⟩ .prior a rel = refCvRun ⟨k, ft, acc, bk⟩ .prior a rel := by
  cases k <;> first
    | (exact absurd rfl hk.1)
    | (exact absurd rfl hk.2)
    | (cases ft <;> cases acc <;> cases bk <;> cases rel <;> first | rfl | (simp [supported] at h))

/-! ### deduplicate: the first call is in `tasks` when the second is made -/

theorem dictFind_single_ne (hf : Nat → Nat) (k' k : Nat × Args) (r : Reach) (h : k' ≠ k) :
    dictFind hf [(k', r)] k = none := by
  apply dictFind_none
  intro e he
  simp only [List.mem_singleton] at he
  rw [he]; exact h

theorem dedup_sibling_unfold (ft : FnType) (acc : Access) (bk : BodyKind) (a : Args)
    (keyOf : Args → Args) (hf : Nat → Nat) (rs : Bool) (rel : Rel) (h : supported .dedup ft acc = true) :
    modelCvRunF (Env.quiet keyOf hf rs) ⟨.dedup, ft, acc, bk⟩ .sibling a rel =
      ⟨[.val ⟨1, refArgsSib ft acc rel a, false⟩],
       (match dictFind hf [((1, keyOf (refArgsSib ft acc rel a)), ⟨1, refArgsSib ft acc rel a, false⟩)]
                (1, keyOf (refArgs ft acc 0 a)) with
        | some r => Res.fut r
        | none => Res.fut ⟨1, refArgs ft acc 0 a, false⟩).value, false⟩ := by
  cases ft <;> cases acc <;> cases bk <;> cases rel <;> first | rfl | (simp [supported] at h)

theorem dedup_siblingCall_unfold (ft : FnType) (acc : Access) (bk : BodyKind) (a : Args)
    (keyOf : Args → Args) (hf : Nat → Nat) (rs : Bool) (rel : Rel) (h : supported .dedup ft acc = true) :
    modelCvRunF (Env.quiet keyOf hf rs) ⟨.dedup, ft, acc, bk⟩ .siblingCall a rel =
      ⟨[.val ⟨1, refArgsSib ft acc rel a, false⟩],
       (match dictFind hf [((1, keyOf (refArgsSib ft acc rel a)), ⟨1, refArgsSib ft acc rel a, false⟩)]
                (1, keyOf (refArgs ft acc 0 a)) with
        | some r => Res.fut r
        | none => Res.fut ⟨1, refArgs ft acc 0 a, false⟩).value, false⟩ := by
  cases ft <;> cases acc <;> cases bk <;> cases rel <;> first | rfl | (simp [supported] at h)

/-! ### alru_cache / acached_per_instance: the value of the first call is in the cache when the second is made -/

theorem cached_prior_unfold (k : Kind) (ft : FnType) (acc : Access) (bk : BodyKind) (a : Args)
    (keyOf : Args → Args) (hf : Nat → Nat) (rs : Bool) (rel : Rel) (h : supported k ft acc = true)
    (hk : k = .alru ∨ k = .acpi) :
    modelCvRunF (Env.quiet keyOf hf rs) ⟨k, ft, acc, bk⟩ .prior a rel =
      ⟨[.val ⟨1, refArgsSib ft acc rel a, false⟩],
       (Res.drive
         (match dictFind hf (if rs then [] else [((1, keyOf (refArgsSib ft acc rel a)), ⟨1, refArgsSib ft acc rel a, false⟩)])
                (1, keyOf (refArgs ft acc 0 a)) with
          | some r => Res.gen (.val r)
          | none => Res.gen (.val ⟨1, refArgs ft acc 0 a, false⟩))).value, false⟩ := by
  rcases hk with rfl | rfl <;> cases rs <;> cases ft <;> cases acc <;> cases bk <;> cases rel <;>
    first | rfl | (simp [supported] at h)

/-! ### one call in an ARBITRARY environment -/

theorem available_not_sib (k : Kind) (cv : Cv) (h : available k cv = true) : cv.isSib = false := by
  cases cv <;> first | rfl | (simp [available] at h)

/-- kinds that consult neither the in-flight table nor a cache -/
theorem asynq_env_free (k : Kind) (ft : FnType) (acc : Access) (bk : BodyKind) (a : Args) (env : Env)
    (h : supported k ft acc = true) (hk : k.hasAsynq = true) (hk' : k ≠ .dedup ∧ k ≠ .alru ∧ k ≠ .acpi) :
    app env .asynq (Cell.callable ⟨k, ft, acc, bk⟩) (callerArgs ft acc 0 a) =
      .fut ⟨1, refArgs ft acc 0 a, k.userWrapped⟩ := by
  cases k <;> first
    | (simp [Kind.hasAsynq] at hk; done)
    | (exact absurd rfl hk'.1)
    | (exact absurd rfl hk'.2.1)
    | (exact absurd rfl hk'.2.2)
    | (cases ft <;> cases acc <;> cases bk <;> first | rfl | (simp [supported] at h))

/-- alru_cache / acached_per_instance with an arbitrary cache: the only entry consulted is the one under the key of
    this very call -/
theorem cached_asynq_unfold (k : Kind) (ft : FnType) (acc : Access) (bk : BodyKind) (a : Args) (env : Env)
    (h : supported k ft acc = true) (hk : k = .alru ∨ k = .acpi) :
    app env .asynq (Cell.callable ⟨k, ft, acc, bk⟩) (callerArgs ft acc 0 a) =
      Res.drive (match env.cacheLookup (1, env.keyOf (refArgs ft acc 0 a)) with
                 | some r => Res.gen (.val r)
                 | none => Res.gen (.val ⟨1, refArgs ft acc 0 a, false⟩)) := by
  rcases hk with rfl | rfl <;> cases ft <;> cases acc <;> cases bk <;> first | rfl | (simp [supported] at h)

theorem asynq_other_keys (k : Kind) (ft : FnType) (acc : Access) (bk : BodyKind) (a : Args) (env : Env)
    (h : supported k ft acc = true) (hk : k.hasAsynq = true)
    (ht : ∀ e ∈ env.tasks, e.1 ≠ (1, env.keyOf (refArgs ft acc 0 a)))
    (hc : ∀ e ∈ env.cache, e.1 ≠ (1, env.keyOf (refArgs ft acc 0 a))) :
    app env .asynq (Cell.callable ⟨k, ft, acc, bk⟩) (callerArgs ft acc 0 a) =
      .fut ⟨1, refArgs ft acc 0 a, k.userWrapped⟩ := by
  by_cases hd : k = .dedup
  · subst hd
    rw [dedup_asynq_unfold ft acc bk a env h]
    unfold Env.lookup
    rw [dictFind_none _ _ _ ht]; rfl
  · by_cases hc' : k = .alru ∨ k = .acpi
    · rw [cached_asynq_unfold k ft acc bk a env h hc']
      unfold Env.cacheLookup
      rw [dictFind_none _ _ _ hc]
      rcases hc' with rfl | rfl <;> rfl
    · exact asynq_env_free k ft acc bk a env h hk
        ⟨hd, fun hh => hc' (Or.inl hh), fun hh => hc' (Or.inr hh)⟩

/-! ### together -/

theorem modelCvRun_sib_eq_ref (k : Kind) (ft : FnType) (acc : Access) (bk : BodyKind) (cv : Cv) (a : Args)
    (keyOf : Args → Args) (hf : Nat → Nat) (rs : Bool) (rel : Rel)
    (h : supported k ft acc = true) (hcv : cv.isSib = true)
    (hkey : keyOf (refArgsSib ft acc rel a) ≠ keyOf (refArgs ft acc 0 a)) :
    modelCvRunF (Env.quiet keyOf hf rs) ⟨k, ft, acc, bk⟩ cv a rel = refCvRun ⟨k, ft, acc, bk⟩ cv a rel := by
  have hk1 : ((1 : Nat), keyOf (refArgsSib ft acc rel a)) ≠ (1, keyOf (refArgs ft acc 0 a)) := by
    intro heq; exact hkey (Prod.mk.inj heq).2
  cases cv <;> first | (simp [Cv.isSib] at hcv; done) | skip
  · -- sibling
    by_cases hk : k = .dedup
    · subst hk
      rw [dedup_sibling_unfold ft acc bk a keyOf hf rs rel h, dictFind_single_ne hf _ _ _ hk1]; rfl
    · exact sib_eq_ref_sibling_plainKinds k ft acc bk a keyOf hf rs rel h hk
  · -- siblingCall
    by_cases hk : k = .dedup
    · subst hk
      rw [dedup_siblingCall_unfold ft acc bk a keyOf hf rs rel h, dictFind_single_ne hf _ _ _ hk1]; rfl
    · exact sib_eq_ref_siblingCall_plainKinds k ft acc bk a keyOf hf rs rel h hk
  · -- prior
    by_cases hk : k = .alru ∨ k = .acpi
    · rw [cached_prior_unfold k ft acc bk a keyOf hf rs rel h hk]
      have : dictFind hf (if rs = true then [] else [((1, keyOf (refArgsSib ft acc rel a)), ⟨1, refArgsSib ft acc rel a, false⟩)])
          (1, keyOf (refArgs ft acc 0 a)) = none := by
        cases rs
        · exact dictFind_single_ne hf _ _ _ hk1
        · rfl
      rw [this]
      rcases hk with rfl | rfl <;> rfl
    · exact sib_eq_ref_prior_plainKinds k ft acc bk a keyOf hf rs rel h (by
        constructor <;> intro hh <;> apply hk <;> simp [hh])

/-- every convention, skipped or not, for a key function that separates the two calls -/
theorem modelCv_eq_ref_all (k : Kind) (ft : FnType) (acc : Access) (bk : BodyKind) (cv : Cv) (a : Args)
    (keyOf : Args → Args) (hf : Nat → Nat) (rs : Bool) (rel : Rel)
    (h : supported k ft acc = true)
    (hkey : identicalSib ft acc rel a = false → keyOf (refArgsSib ft acc rel a) ≠ keyOf (refArgs ft acc 0 a)) :
    modelCvF (Env.quiet keyOf hf rs) ⟨k, ft, acc, bk⟩ cv a rel = refCv ⟨k, ft, acc, bk⟩ cv a rel := by
  cases hcv : cv.isSib
  · exact modelCv_eq_ref_quiet k ft acc bk cv a keyOf hf rs rel h hcv
  · unfold modelCvF modelCvWith refCv
    cases hi : identicalSib ft acc rel a
    · simp only [hcv, Bool.and_false, Bool.false_eq_true, if_false]
      exact modelCvRun_sib_eq_ref k ft acc bk cv a keyOf hf rs rel h hcv (hkey hi)
    · simp [hcv]

theorem modelReport_eq_ref (c : Case) (h : supported c.cell.kind c.cell.ft c.cell.acc = true) :
    modelReportF c = refReport c := by
  obtain ⟨⟨k, ft, acc, bk⟩, raises, sig, args, falsy, pre, rel, vk⟩ := c
  simp only [modelReportF, refReport, report, Report.mk.injEq]
  refine ⟨?_, modelCls_eq_ref k ft acc bk h, modelRecv_eq_ref k ft acc bk h⟩
  apply List.map_congr_left
  intro cv _
  have := modelCv_eq_ref_all k ft acc bk cv args id vk.hashOf raises rel h
    (fun hi => refArgsSib_ne ft acc rel args hi)
  simp only [Env.quiet] at this
  simp only [Case.env, this]

/-! ### own entries in the tables (put there by earlier calls of the same function), body kinds, arbitrary receivers -/



theorem dictFind_some (hf : Nat → Nat) (l : Table) (k : Nat × Args) (r : Reach) (h : dictFind hf l k = some r) :
    ∃ e ∈ l, e.1 = k ∧ e.2 = r := by
  rw [dictFind_eq] at h
  cases hfind : l.find? (fun e => decide (e.1 = k)) with
  | none => rw [hfind] at h; cases h
  | some e =>
    rw [hfind] at h
    simp only [Option.map_some, Option.some.injEq] at h
    refine ⟨e, List.mem_of_find?_eq_some hfind, ?_, h⟩
    have := List.find?_some hfind
    simpa using this

/-- an entry found under the key of this very call in a consistent table is the task / the value of THIS call -/
theorem own_entry (keyOf : Args → Args) (hf : Nat → Nat) (t : Table) (x : Args) (r : Reach)
    (hsep : Table.separates keyOf x t) (ht : Table.ownConsistent keyOf t)
    (h : dictFind hf t (1, keyOf x) = some r) : r = ⟨1, x, false⟩ := by
  obtain ⟨⟨⟨i, key⟩, ⟨b, args, w⟩⟩, he, hk, rfl⟩ := dictFind_some hf t _ r h
  simp only [Prod.mk.injEq] at hk
  obtain ⟨rfl, rfl⟩ := hk
  obtain ⟨hb, hw, hkey⟩ := ht _ he rfl
  simp only at hb hw hkey
  subst hb hw
  have := hsep _ he rfl hkey.symm
  simp only at this
  rw [this]

theorem separates_of_injective (keyOf : Args → Args) (x : Args) (t : Table)
    (hinj : ∀ y, keyOf y = keyOf x → y = x) : Table.separates keyOf x t :=
  fun e _ _ hk => hinj e.2.args hk

theorem separates_of_foreign (keyOf : Args → Args) (x : Args) (t : Table) (h : ∀ e ∈ t, e.1.1 ≠ 1) :
    Table.separates keyOf x t ∧ Table.ownConsistent keyOf t :=
  ⟨fun e he h1 => absurd h1 (h e he), fun e he h1 => absurd h1 (h e he)⟩

theorem asynq_own_entries (k : Kind) (ft : FnType) (acc : Access) (bk : BodyKind) (a : Args) (env : Env)
    (h : supported k ft acc = true) (hk : k.hasAsynq = true)
    (hst : Table.separates env.keyOf (refArgs ft acc 0 a) env.tasks)
    (hsc : Table.separates env.keyOf (refArgs ft acc 0 a) env.cache)
    (ht : Table.ownConsistent env.keyOf env.tasks) (hc : Table.ownConsistent env.keyOf env.cache) :
    app env .asynq (Cell.callable ⟨k, ft, acc, bk⟩) (callerArgs ft acc 0 a) =
      .fut ⟨1, refArgs ft acc 0 a, k.userWrapped⟩ := by
  by_cases hd : k = .dedup
  · subst hd
    rw [dedup_asynq_unfold ft acc bk a env h]
    unfold Env.lookup
    cases hl : dictFind env.hashOf env.tasks (1, env.keyOf (refArgs ft acc 0 a)) with
    | none => rfl
    | some r => rw [own_entry env.keyOf env.hashOf env.tasks _ r hst ht hl]; rfl
  · by_cases hc' : k = .alru ∨ k = .acpi
    · rw [cached_asynq_unfold k ft acc bk a env h hc']
      unfold Env.cacheLookup
      cases hl : dictFind env.hashOf env.cache (1, env.keyOf (refArgs ft acc 0 a)) with
      | none => rcases hc' with rfl | rfl <;> rfl
      | some r =>
        rw [own_entry env.keyOf env.hashOf env.cache _ r hsc hc hl]
        rcases hc' with rfl | rfl <;> rfl
    · exact asynq_env_free k ft acc bk a env h hk
        ⟨hd, fun hh => hc' (Or.inl hh), fun hh => hc' (Or.inr hh)⟩

/-- the body kind (plain function / generator function / generator blocking on a batch) of a DECORATED callable never
    shows: `_call_pure` runs a generator object (needs_wrapper) and wraps a plain function in `_fn_wrapper`, and both
    paths end in the same future -/
theorem bk_irrelevant (k : Kind) (ft : FnType) (acc : Access) (bk bk' : BodyKind) (cv : Cv) (a : Args)
    (keyOf : Args → Args) (hf : Nat → Nat) (rs : Bool) (rel : Rel)
    (h : supported k ft acc = true) (hk : k ≠ .raw)
    (hkey : identicalSib ft acc rel a = false → keyOf (refArgsSib ft acc rel a) ≠ keyOf (refArgs ft acc 0 a)) :
    modelCvF (Env.quiet keyOf hf rs) ⟨k, ft, acc, bk⟩ cv a rel = modelCvF (Env.quiet keyOf hf rs) ⟨k, ft, acc, bk'⟩ cv a rel := by
  rw [modelCv_eq_ref_all k ft acc bk cv a keyOf hf rs rel h hkey, modelCv_eq_ref_all k ft acc bk' cv a keyOf hf rs rel h hkey]
  have hr : ∀ b, Cell.rawGen ⟨k, ft, acc, b⟩ = false := by
    intro b; cases k <;> first | rfl | exact absurd rfl hk
  unfold refCv refCvRun Cell.refVal
  simp only [hr]




theorem any_receiver_asynq (k : Kind) (ft : FnType) (bk : BodyKind) (owner : Option Nat) (cls : Nat) (a : Args)
    (keyOf : Args → Args) (hs : supported k ft .inst = true) (hk : k.hasAsynq = true)
    (hself : k = .acpi → pyPrefix ft owner cls ++ a.pos ≠ []) :
    app (Env.idle keyOf) .asynq (descrGet (build k ft bk false) owner cls) a =
      .fut ⟨1, { a with pos := pyPrefix ft owner cls ++ a.pos }, k.userWrapped⟩ := by
  obtain ⟨pos, kw⟩ := a
  cases k <;> first
    | (simp [Kind.hasAsynq] at hk; done)
    | (cases ft <;> cases bk <;> cases owner <;> first | rfl | (simp [supported] at hs; done))
    | (cases ft <;> cases bk <;> cases owner <;> cases pos <;>
         first | rfl | (simp [supported] at hs; done) | (simp [pyPrefix] at hself; done))

theorem any_receiver_call (k : Kind) (ft : FnType) (bk : BodyKind) (owner : Option Nat) (cls : Nat) (a : Args)
    (keyOf : Args → Args) (hs : supported k ft .inst = true)
    (hself : k = .acpi → pyPrefix ft owner cls ++ a.pos ≠ []) :
    app (Env.idle keyOf) .call (descrGet (build k ft bk false) owner cls) a =
      (if k.pureLike then .fut ⟨1, { a with pos := pyPrefix ft owner cls ++ a.pos }, false⟩
       else Cell.refVal ⟨k, ft, .inst, bk⟩
              ⟨if k.hasSyncFn then 2 else 1, { a with pos := pyPrefix ft owner cls ++ a.pos }, k.userWrapped⟩) := by
  obtain ⟨pos, kw⟩ := a
  cases k <;> first
    | (cases ft <;> cases bk <;> cases owner <;> first | rfl | (simp [supported] at hs; done))
    | (cases ft <;> cases bk <;> cases owner <;> cases pos <;>
         first | rfl | (simp [supported] at hs; done) | (simp [pyPrefix] at hself; done))


end AsynqModel.Decorators
