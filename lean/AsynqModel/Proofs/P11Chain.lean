import AsynqModel.Proofs.P11Final
/-!
  P11, part 5: error chains.  Every failed future's error can be traced back, along a chain of "awaited" edges through
  failed tasks, to an origin: a future that is not a task (batch item, ErrorFuture, lazy future), or a task that raised
  the error itself.
-/
namespace AsynqModel.Core.P11
open AsynqModel.Core
open P2

/-- `f` failed with `e` on its own account: it is not a task (a batch item, an ErrorFuture, a lazy future), or a
    task that was failed by a NonAsyncContext, ended at its own `raise` / bare `reraise`, yielded a non-future
    (TypeError; conservatively: every TypeError counts as self-inflicted), or caught the stack guard's RuntimeError -/
def Origin (s : State) (f : Nat) (e : Err) : Prop :=
  (s.fut f).kind ≠ .task ∨ e = .nonasync ∨ e = .typeerr ∨ (e = .stackguard ∧ s.guardFired = true) ∨
  (∃ n, e = .u n ∧ (s.task f).body = .raise n) ∨
  (e = .u 0 ∧ (s.task f).body = .reraise ∧ (s.task f).caught = none)

/-- `Chain s e t`: `t` has failed with `e`, and so has every future on a path of awaits from `t` to an origin of `e` -/
inductive Chain (s : State) (e : Err) : Nat → Prop
  | origin {f : Nat} : s.out f = some (.err e) → Origin s f e → Chain s e f
  | step {t f : Nat} : (s.fut t).kind = .task → s.out t = some (.err e) → AwaitedBy s.trace t f → Chain s e f →
      Chain s e t

theorem Chain.out {s : State} {e : Err} {t : Nat} (h : Chain s e t) : s.out t = some (.err e) := by
  cases h with
  | origin h _ => exact h
  | step _ h _ _ => exact h

/-- what a transition leaves alone: computed futures (outcome, kind, final statement, exception caught last), the old
    events, a guard that has fired -/
structure Frame (s s' : State) : Prop where
  out : ∀ f o, s.out f = some o → s'.out f = some o
  kind : ∀ f o, s.out f = some o → (s'.fut f).kind = (s.fut f).kind
  body : ∀ f o, s.out f = some o → (s.fut f).kind = .task → (s'.task f).body = (s.task f).body
  caught : ∀ f o, s.out f = some o → (s'.task f).caught = (s.task f).caught
  trace : ∃ pre, s'.trace = pre ++ s.trace
  guard : s.guardFired = true → s'.guardFired = true

theorem Frame.trans {a b c : State} (h1 : Frame a b) (h2 : Frame b c) : Frame a c where
  out := fun f o h => h2.out f o (h1.out f o h)
  kind := fun f o h => (h2.kind f o (h1.out f o h)).trans (h1.kind f o h)
  body := fun f o h hk =>
    (h2.body f o (h1.out f o h) (by rw [h1.kind f o h]; exact hk)).trans (h1.body f o h hk)
  caught := fun f o h => (h2.caught f o (h1.out f o h)).trans (h1.caught f o h)
  trace := by
    obtain ⟨p1, e1⟩ := h1.trace
    obtain ⟨p2, e2⟩ := h2.trace
    exact ⟨p2 ++ p1, by rw [e2, e1, List.append_assoc]⟩
  guard := fun h => h2.guard (h1.guard h)

theorem frame_pre {s s0 : State} (q : Pre s s0) : Frame s s0 where
  out := fun f o h => by rw [out_of_futs q.futs]; exact h
  kind := fun f o _ => by unfold State.fut; rw [q.futs]
  body := fun f o _ _ => by rw [task_of_futs q.futs]
  caught := fun f o _ => by rw [task_of_futs q.futs]
  trace := ⟨[], by rw [q.trace]; rfl⟩
  guard := fun h => by rw [q.guard]; exact h

theorem frame_desc {s s' : State} (d : Desc s s') : Frame s s' := by
  obtain ⟨p, s1, b, futs, trace, stack, ctl, raising, guard, hE, hL, hD, hC, hX⟩ := d
  obtain ⟨pre, e1, _⟩ := b.trace
  have hnl : ∀ f o, s.out f = some o → ¬ p.L f := fun f o h hl => by rw [hL f hl] at h; cases h
  refine ⟨fun f o h => ?_, fun f o h => ?_, fun f o h hk => ?_, fun f o h => ?_, ⟨pre, by rw [trace, e1]⟩, fun hg => ?_⟩
  · rw [out_of_futs futs]; exact b.out h
  · have : (s'.fut f).kind = (s1.fut f).kind := by unfold State.fut; rw [futs]
    rw [this]; exact (b.fut f).kind_of_out h
  · rw [task_of_futs futs]
    rcases (b.fut f).body hk with h4 | h4
    · exact absurd h4 (hnl f o h)
    · exact h4
  · rw [task_of_futs futs]
    rcases (b.fut f).caught with h4 | ⟨h4, _⟩
    · exact h4
    · exact absurd h4 (hnl f o h)
  · rcases guard with h4 | h4
    · rw [h4, b.guard]; exact hg
    · exact h4

theorem AwaitedBy.frame {s s' : State} (fr : Frame s s') {t f : Nat} (h : AwaitedBy s.trace t f) :
    AwaitedBy s'.trace t f := by
  obtain ⟨pre, e1⟩ := fr.trace
  rw [e1]; exact h.mono pre

theorem Origin.frame {s s' : State} (fr : Frame s s') {f : Nat} {e : Err} {o : Outcome} (ho : s.out f = some o)
    (h : Origin s f e) : Origin s' f e := by
  unfold Origin at *
  by_cases hk : (s.fut f).kind = .task
  · rw [fr.body f o ho hk, fr.caught f o ho]
    rcases h with h | h | h | ⟨h1, h2⟩ | h | h
    · exact absurd hk h
    · exact Or.inr (Or.inl h)
    · exact Or.inr (Or.inr (Or.inl h))
    · exact Or.inr (Or.inr (Or.inr (Or.inl ⟨h1, fr.guard h2⟩)))
    · exact Or.inr (Or.inr (Or.inr (Or.inr (Or.inl h))))
    · exact Or.inr (Or.inr (Or.inr (Or.inr (Or.inr h))))
  · left; rw [fr.kind f o ho]; exact hk

theorem Chain.frame {s s' : State} (fr : Frame s s') {e : Err} {t : Nat} (h : Chain s e t) : Chain s' e t := by
  induction h with
  | origin ho hor => exact .origin (fr.out _ _ ho) (hor.frame fr ho)
  | step hk ho ha _ ih =>
    exact .step (by rw [fr.kind _ _ ho]; exact hk) (fr.out _ _ ho) (ha.frame fr) ih

/-- where a caught exception comes from, transitively -/
def SrcCh (s : State) (t : Nat) (e : Err) : Prop :=
  e = .typeerr ∨ (e = .stackguard ∧ s.guardFired = true) ∨ ∃ f, AwaitedBy s.trace t f ∧ Chain s e f

theorem SrcCh.frame {s s' : State} (fr : Frame s s') {t : Nat} {e : Err} (h : SrcCh s t e) : SrcCh s' t e := by
  rcases h with h | ⟨h1, h2⟩ | ⟨f, h1, h2⟩
  · exact Or.inl h
  · exact Or.inr (Or.inl ⟨h1, fr.guard h2⟩)
  · exact Or.inr (Or.inr ⟨f, h1.frame fr, h2.frame fr⟩)

structure ChInv (s : State) : Prop where
  failed : ∀ t e, s.out t = some (.err e) → Chain s e t
  caught : ∀ t e, (s.task t).caught = some e → SrcCh s t e

theorem chinv_init (cfg : Cfg) (tops : List (Conv × Body)) (choices : List (Nat × Nat)) :
    ChInv (initState cfg tops choices) := by
  refine ⟨fun t e h => ?_, fun t e h => ?_⟩
  · unfold State.out at h; rw [fut_init] at h; cases h
  · rw [show (initState cfg tops choices).task t = {} from by simp [State.task, fut_init]] at h
    cases h

/-- one transition: `s` → (`Pre`) `s0` → (`Desc`) `s'`, where `s'` satisfies `EInv` -/
theorem chinv_step {s s0 s' : State} (h : ChInv s) (q : Pre s s0) (d : Desc s0 s') (he : EInv s') : ChInv s' := by
  have fr : Frame s s' := (frame_pre q).trans (frame_desc d)
  obtain ⟨p, s1, b, futs, trace, stack, ctl, raising, guard, hE, hL, hD, hC, hX⟩ := d
  have hcaught : ∀ t e, (s'.task t).caught = some e → SrcCh s' t e := by
    intro t e hc
    rw [task_of_futs futs] at hc
    rcases (b.fut t).caught with h4 | ⟨_, e', h4, h5⟩
    · have h6 : (s1.task t).caught = (s0.task t).caught := h4
      rw [h6, task_of_futs q.futs] at hc
      exact (h.caught t e hc).frame fr
    · have h6 : (s1.task t).caught = some e' := h4
      rw [h6] at hc; injection hc with hc; subst hc
      rcases (hC t _ h5).2 with h7 | ⟨h7, h8⟩ | ⟨f, h7, h8⟩
      · exact Or.inl h7
      · exact Or.inr (Or.inl ⟨h7, fr.guard (by rw [← q.guard]; exact h8)⟩)
      · refine Or.inr (Or.inr ⟨f, by rw [trace]; exact h7, ?_⟩)
        exact (h.failed f _ (by rw [← out_of_futs q.futs]; exact h8)).frame fr
  refine ⟨fun t e ho => ?_, hcaught⟩
  cases hs : s.out t with
  | some o =>
    have := fr.out t o hs
    rw [ho] at this; injection this with this; subst this
    exact (h.failed t e hs).frame fr
  | none =>
    by_cases hk : (s'.fut t).kind = .task
    · rcases he.fin t e hk ho with h1 | h1 | h1 | ⟨hb, hc⟩
      · exact .origin ho (Or.inr (Or.inl h1))
      · exact .origin ho (Or.inr (Or.inr (Or.inr (Or.inr (Or.inl h1)))))
      · exact .origin ho (Or.inr (Or.inr (Or.inr (Or.inr (Or.inr h1)))))
      · rcases hcaught t e hc with h2 | h2 | ⟨f, h2, h3⟩
        · exact .origin ho (Or.inr (Or.inr (Or.inl h2)))
        · exact .origin ho (Or.inr (Or.inr (Or.inr (Or.inl h2))))
        · exact .step hk ho h2 h3
    · exact .origin ho (Or.inl hk)

theorem chinv_reach {s : State} (h : Reach s) : ChInv s := by
  induction h with
  | init cfg tops choices => exact chinv_init _ _ _
  | @step s hr ih =>
    have inv := inv_reach hr
    obtain ⟨s0, q, d⟩ := step_desc_reach hr inv.2.raising inv.1.tracked
    exact chinv_step ih q d (inv_reach (Reach.step hr)).2

/-! ### dependence -/

/-- `t` depends on `g`: reflexive-transitive closure of "awaited" -/
inductive DependsOn (tr : List Event) : Nat → Nat → Prop
  | refl (t : Nat) : DependsOn tr t t
  | step {t f g : Nat} : AwaitedBy tr t f → DependsOn tr f g → DependsOn tr t g

theorem chain_origin {s : State} {e : Err} {t : Nat} (h : Chain s e t) :
    ∃ g, DependsOn s.trace t g ∧ s.out g = some (.err e) ∧ Origin s g e := by
  induction h with
  | @origin f ho hor => exact ⟨f, .refl f, ho, hor⟩
  | step _ _ ha _ ih =>
    obtain ⟨g, h1, h2, h3⟩ := ih
    exact ⟨g, .step ha h1, h2, h3⟩

end AsynqModel.Core.P11
