import AsynqModel.Proofs.P22GenC
/-!
# P22, part 10: the instructions that allocate a future: `spawn`, `item`, `const`, `errfut`, `lazy`, and `sync`
-/
namespace AsynqModel.Core.P22
open AsynqModel.Core AsynqModel.Core.P22.SeqSV

variable {cfg : Cfg} {tops : List (Conv × Body)} {s : State} {g : Ghost} {t : Nat} {old : Option Nat} {rest' : List Ctl}

/-- `rest` of the task that moves, when it has created the future `s.futs.length` -/
theorem rest_after_alloc {r : State} {g' : Ghost}
    (hS : Sim cfg tops s g) (hB : Bnd s) (L : Lm s r t) (hgt : g' t ≠ none)
    (hkt : (s.fut t).kind = .task) (hown : (r.task t).own = (s.task t).own ++ [s.futs.length])
    (hinh : (r.task t).inh = (s.task t).inh) (hc : r.computed t = false) (E : SvEnv) :
    rest cfg r g' t E =
      (headD cfg (envOf r E (cids (r.task t))) (fun f => (r.fut f).den) ((r.task t).pending && (r.task t).started)
        (r.task t).body [] ⟨(r.task t).env, Inv.dens s (s.task t).own ++ [(r.fut s.futs.length).den],
          (s.task t).own.map (kidOf s g') ++ [kidOf r g' s.futs.length], (r.task t).caught, (r.task t).prevYRef⟩).1 ++
      runFrames cfg r E [] (r.task t).conts
        (headD cfg (envOf r E (cids (r.task t))) (fun f => (r.fut f).den) ((r.task t).pending && (r.task t).started)
          (r.task t).body [] ⟨(r.task t).env, Inv.dens s (s.task t).own ++ [(r.fut s.futs.length).den],
            (s.task t).own.map (kidOf s g') ++ [kidOf r g' s.futs.length], (r.task t).caught,
            (r.task t).prevYRef⟩).2 := by
  have hi0 : (s.task t).inh = [] := hS.inh t hkt
  have hl : locOf r g' (r.task t) = ⟨(r.task t).env, Inv.dens s (s.task t).own ++ [(r.fut s.futs.length).den],
      (s.task t).own.map (kidOf s g') ++ [kidOf r g' s.futs.length], (r.task t).caught, (r.task t).prevYRef⟩ := by
    unfold locOf
    rw [hown]
    have h1 : Inv.dens r ((s.task t).own ++ [s.futs.length]) =
        Inv.dens s (s.task t).own ++ [(r.fut s.futs.length).den] := by
      unfold Inv.dens
      rw [List.map_append]
      congr 1
      exact List.map_congr_left (fun f hf => (L.fut f (hB.own t f hf)).2)
    have h2 : ((s.task t).own ++ [s.futs.length]).map (kidOf r g') =
        (s.task t).own.map (kidOf s g') ++ [kidOf r g' s.futs.length] := by
      rw [List.map_append]
      congr 1
      exact List.map_congr_left (fun f hf => kidOf_lm hS L hgt (hB.own t f hf))
    rw [h1, h2]
  unfold rest headRun
  rw [hc, hl, hinh, hi0]
  rfl

/-- the new future -/
structure NewFut (x : Fut) (b : Body) : Prop where
  kind : x.kind = .task
  body : x.ts.body = b
  nsb : ns b = true
  nosync : ∀ f k c, b ≠ .syncret f k c
  started : x.ts.started = false
  pending : x.ts.pending = true
  conts : x.ts.conts = []
  env : x.ts.env = []
  own : x.ts.own = []
  inh : x.ts.inh = []
  caught : x.ts.caught = none
  prev : x.ts.prevYRef = .none
  deps : x.ts.deps = []
  prevY : x.ts.prevY = .none
  out : x.out = none

theorem NewFut.fresh {x : Fut} {b : Body} (h : NewFut x b) : Fresh x.ts :=
  ⟨h.pending, h.conts, h.env, h.own, h.caught, h.prev, h.deps, h.prevY,
    fun f k c => by rw [h.body]; exact h.nosync f k c⟩

/-- the obligations of a move in which `t` creates the future `s.futs.length` -/
theorem mkUpd_alloc {r : State} {g' : Ghost} {ip : Info} {mid : List Act}
    (C : GC cfg tops s g t old rest') (hst : (s.genStep t old).stuck = none) (hip : g t = some ip)
    (L : Lm s r t) (hlen : r.futs.length = s.futs.length + 1)
    (hnew : (r.fut s.futs.length).kind ≠ .task ∨ ∃ b, NewFut (r.fut s.futs.length) b)
    (hown : (r.task t).own = (s.task t).own ++ [s.futs.length]) (hstd : (r.task t).started = true)
    (hcr : r.computed t = false)
    (gmono : ∀ u iu, g u = some iu → g' u = some iu)
    (gnew : ∀ u iu, g u = none → g' u = some iu →
      u = s.futs.length ∧ (r.fut u).kind = .task ∧ (r.task u).started = false ∧
        iu.k = ip.k ∧ iu.ρ = ip.ρ ++ [(s.task t).own.length] ∧ iu.b = (r.task u).body ∧
        iu.inh = Inv.dens r (r.task u).inh ∧
        iu.E = envOf r ip.E (cids (r.task t)) ∧ Act.call (s.task t).own.length iu.b iu.inh iu.E ∈ mid)
    (hsplit : rest cfg s g t ip.E = mid ++ rest cfg r g' t ip.E)
    (hrd : mreads t r.trace = mreads t s.trace ++ (reads mid).map rdVal)
    (hmc : ∀ i c ci E', Act.call i c ci E' ∈ mid →
      ∃ v iv, (r.task t).own[i]? = some v ∧ g' v = some iv ∧ iv.b = c ∧ iv.inh = ci ∧ iv.E = E')
    (hwn : g' s.futs.length ≠ none →
      (((r.task t).pending = true ∧ (r.task t).started = true ∧ s.futs.length ∈ (r.task t).lastY.leaves) ∨
       ((r.task t).pending = false ∧ ∃ k h, (r.task t).body = .syncret s.futs.length k h)))
    (hinh : (r.task t).inh = [])
    (hns : nsBC (r.task t).body (r.task t).conts)
    (hsync : ∀ f k h, (r.task t).body = .syncret f k h →
      f ∈ (r.task t).own ∧ ((r.fut f).kind = .task → g' f ≠ none))
    (hdeps : ∀ d, d ∈ (r.task t).deps → (r.fut d).kind = .task → g' d ≠ none)
    (hprev : ∀ d, d ∈ (r.task t).prevY.leaves → (r.fut d).kind = .task → g' d ≠ none) :
    Upd cfg s r g g' t ip mid := by
  have hnc := C.nc hst
  have hlast : (r.task t).own[(s.task t).own.length]? = some s.futs.length := by
    rw [hown]; simp
  have hgetNew : ∀ (i u : Nat), (r.task t).own[i]? = some u → (s.task t).own.length ≤ i →
      i = (s.task t).own.length ∧ u = s.futs.length := by
    intro i u ho hi
    rw [hown] at ho
    rcases Nat.lt_or_ge (s.task t).own.length i with h | h
    · rw [List.getElem?_eq_none (by simp; omega)] at ho; cases ho
    · have : i = (s.task t).own.length := by omega
      subst this
      simp at ho
      exact ⟨rfl, ho.symm⟩
  have hgetOld : ∀ (i u : Nat), (r.task t).own[i]? = some u → i < (s.task t).own.length → (s.task t).own[i]? = some u := by
    intro i u ho hi
    rw [hown, List.getElem?_append_left hi] at ho
    exact ho
  refine
    { lm := L, gt := hip, kt := C.kt, nct := C.nct, started' := hstd, gmono := gmono, gnew := ?_, ownPre := ?_,
      ownNew := ?_, ownND := ?_, newF := ?_, split := hsplit, rd := hrd, midCalls := hmc, envOK := Or.inr hnc, waits := ?_,
      inh_t := hinh, ns_t := hns, sync_t := fun f k h hb _ => hsync f k h hb, deps_t := hdeps, prev_t := hprev }
  · intro u iu hg hg'
    obtain ⟨hu, h1, h2, h3, h4, h5, h6, h7, h8⟩ := gnew u iu hg hg'
    exact ⟨(s.task t).own.length, by rw [hu]; exact hlast, h1, h2, h3, h4, h5, h6, h7, h8⟩
  · rw [hown]; exact List.prefix_append _ _
  · intro i u ho hi
    rw [(hgetNew i u ho hi).2]; exact Nat.le_refl _
  · intro i j u hi hj
    rcases Nat.lt_or_ge i (s.task t).own.length with h1 | h1
    · have hi' := hgetOld i u hi h1
      rcases Nat.lt_or_ge j (s.task t).own.length with h2 | h2
      · exact (C.sim.ownInj t t i j u C.kt C.kt hi' (hgetOld j u hj h2)).2
      · have := (hgetNew j u hj h2).2
        have hu := C.bnd.own t u (List.mem_of_getElem? hi')
        omega
    · obtain ⟨e1, e2⟩ := hgetNew i u hi h1
      rcases Nat.lt_or_ge j (s.task t).own.length with h2 | h2
      · have hu := C.bnd.own t u (List.mem_of_getElem? (hgetOld j u hj h2))
        omega
      · rw [e1, (hgetNew j u hj h2).1]
  · intro f hf hk
    have hfl := lt_of_task r f hk
    have hfe : f = s.futs.length := by omega
    subst hfe
    rcases hnew with hn | ⟨b, hn⟩
    · exact absurd hk hn
    · refine ⟨hn.fresh, hn.started, ?_, hn.inh, ?_⟩
      · simp [State.computed, State.out, hn.out]
      · show ns (r.fut s.futs.length).ts.body = true
        rw [hn.body]; exact hn.nsb
  · intro i u ho hg hc
    refine ⟨hcr, ?_⟩
    rcases Nat.lt_or_ge i (s.task t).own.length with h1 | h1
    · have ho' := hgetOld i u ho h1
      exfalso
      have hul := C.bnd.own t u (List.mem_of_getElem? ho')
      cases hgu : g u with
      | none =>
        cases hg'u : g' u with
        | none => exact hg hg'u
        | some iu =>
          have := (gnew u iu hgu hg'u).1
          omega
      | some iu =>
        have hne : g u ≠ none := by rw [hgu]; intro h; cases h
        have hcs := hnc u (List.mem_of_getElem? ho') hne
        have hut : u ≠ t := by intro e; rw [e, C.nct] at hcs; cases hcs
        have hku := C.sim.dom u iu hgu
        have : r.computed u = s.computed u := computed_of_out (L.task u hut hku).1
        rw [this, hcs] at hc; cases hc
    · obtain ⟨_, e2⟩ := hgetNew i u ho h1
      subst e2
      exact hwn hg

theorem headD_plain (cfg : Cfg) (Ec : SvEnv) (den : Nat → Outcome) (b : Body) (inh : List Outcome) (l : Loc)
    (hb : ∀ f k h, b ≠ .syncret f k h) : headD cfg Ec den false b inh l = runBody cfg b Ec inh l := by
  unfold headD
  simp only [Bool.false_eq_true, if_false]

theorem g_none_of_ge (hS : Sim cfg tops s g) {u : Nat} (hu : s.futs.length ≤ u) : g u = none := by
  cases hg : g u with
  | none => rfl
  | some iu =>
    have := lt_of_task s u (hS.dom u iu hg)
    omega

/-- the common part of `spawn`, `item`, `const`, `errfut`, `lazy`: the future `s.futs.length` is created, nothing is
    called -/
theorem sim_new {r : State} (C : GC cfg tops s g t old rest') (hst : (s.genStep t old).stuck = none)
    (hp : (s.task t).pending = false) (k : Body) (hk : ns k = true) (hksy : ∀ f k' c, k ≠ .syncret f k' c)
    (L : Lm s r t) (hlen : r.futs.length = s.futs.length + 1)
    (hnew : (r.fut s.futs.length).kind ≠ .task ∨ ∃ b, NewFut (r.fut s.futs.length) b)
    (ht : r.task t = { s.task t with own := (s.task t).own ++ [s.futs.length], body := k })
    (hcr : r.computed t = false) (hrd : mreads t r.trace = mreads t s.trace)
    (hpure : ∀ Ec l, runBody cfg (s.task t).body Ec [] l =
      runBody cfg k Ec [] { l with own := l.own ++ [(r.fut s.futs.length).den],
                                   kids := l.kids ++ [kidOf r g s.futs.length] })
    (hnsync : ∀ f k' h, (s.task t).body ≠ .syncret f k' h) :
    Sim cfg tops r g := by
  obtain ⟨ip, hip⟩ := C.info
  have hstd := C.started_of_running hp
  have hkd : ∀ d, (r.fut d).kind = .task → d < s.futs.length → (s.fut d).kind = .task := by
    intro d hk hd; rw [← (L.fut d hd).1]; exact hk
  have hnb := C.sim.nsB t C.kt
  refine sim_upd C.sim C.bnd (mkUpd_alloc (mid := []) C hst hip L hlen hnew ?_ ?_ hcr (fun _ _ h => h) ?_ ?_ ?_
    (fun _ _ _ _ h => by cases h) ?_ ?_ ?_ ?_ ?_ ?_)
  · rw [ht]
  · rw [ht]; exact hstd
  · intro u iu h1 h2; rw [h1] at h2; cases h2
  · -- split
    have hcid : cids (r.task t) = cids (s.task t) := by rw [ht]; rfl
    have hE : envOf r ip.E (cids (r.task t)) = envOf s ip.E (cids (s.task t)) := by
      rw [hcid]; exact envOf_lm L ip.E (C.bnd.conts t)
    rw [rest_before C.sim C.kt C.nct, rest_after_alloc C.sim C.bnd L C.called C.kt (by rw [ht]) (by rw [ht]) hcr, hE]
    have hconts : (r.task t).conts = (s.task t).conts := by rw [ht]
    rw [hconts, runFrames_congr cfg ip.E [] _ _ (fun c hc => ovOf_of_kindOf (L.kinds c (C.bnd.conts t c hc)))]
    have hh : headD cfg (envOf s ip.E (cids (s.task t))) (fun f => (s.fut f).den)
          ((s.task t).pending && (s.task t).started) (s.task t).body [] (locOf s g (s.task t)) =
        headD cfg (envOf s ip.E (cids (s.task t))) (fun f => (r.fut f).den) ((r.task t).pending && (r.task t).started)
          (r.task t).body [] ⟨(r.task t).env, Inv.dens s (s.task t).own ++ [(r.fut s.futs.length).den],
            (s.task t).own.map (kidOf s g) ++ [kidOf r g s.futs.length], (r.task t).caught, (r.task t).prevYRef⟩ := by
      rw [ht]
      simp only [hp, Bool.false_and]
      rw [headD_plain _ _ _ _ _ _ hnsync, headD_plain _ _ _ _ _ _ hksy, hpure]
      rfl
    rw [hh]; rfl
  · rw [hrd]; simp
  · intro hg; exact absurd (g_none_of_ge C.sim (Nat.le_refl _)) hg
  · rw [ht]; exact C.sim.inh t C.kt
  · rw [ht]; exact nsBC_plain hk hksy hnb.2
  · intro f k' h hb; rw [ht] at hb; exact absurd hb (hksy f k' h)
  · intro d hd hkd'
    rw [ht] at hd
    exact C.sim.depsCalled t d C.kt hd (hkd d hkd' (C.bnd.deps t d hd))
  · intro d hd hkd'
    rw [ht] at hd
    exact C.sim.prevCalled t d C.kt hd (hkd d hkd' (C.bnd.prevY t d hd))

theorem task_alloc_lt (x0 : State) (x : Fut) (nk : NewKind) (u : Nat) (h : u < x0.futs.length) :
    (x0.alloc x nk).1.task u = x0.task u := by
  unfold State.task; rw [P4.fut_alloc_lt x0 x nk u h]

theorem computed_alloc_lt (x0 : State) (x : Fut) (nk : NewKind) (u : Nat) (h : u < x0.futs.length) :
    (x0.alloc x nk).1.computed u = x0.computed u := by
  unfold State.computed State.out; rw [P4.fut_alloc_lt x0 x nk u h]

/-- the future `newTask child []` allocates -/
def spawnFut (s : State) (child : Body) : Fut :=
  { kind := .task, ts := { body := child, inh := [], creator := s.active },
    den := (evalBody s.cfg child [] [] (Inv.dens s []) none .none).outcome }

theorem newTask_nil (s : State) (child : Body) : s.newTask child [] = s.alloc (spawnFut s child) (.task s.active) := rfl

theorem spawnFut_new (s : State) {child : Body} (h : ns child = true) (hn : ∀ f k c, child ≠ .syncret f k c) :
    NewFut (spawnFut s child) child :=
  ⟨rfl, rfl, h, hn, rfl, rfl, rfl, rfl, rfl, rfl, rfl, rfl, rfl, rfl, rfl⟩

/-- `child.asynq(...)`: a task that has not started is created; nothing of it runs -/
theorem sim_spawn (C : GC cfg tops s g t old rest') (hst : (s.genStep t old).stuck = none)
    (hp : (s.task t).pending = false) (child : Body) (pass : List Ref) (k : Body)
    (hb : (s.task t).body = .spawn child pass k) : Sim cfg tops (s.genStep t old) g := by
  have hnb := C.sim.nsB t C.kt
  have hns : pass = [] ∧ ns child = true ∧ ns k = true := by
    have := nsBC_body hnb (by rw [hb]; intro _ _ _; nofun)
    rw [hb] at this
    simp only [ns, Bool.and_eq_true, List.isEmpty_iff] at this
    exact ⟨this.1.1, this.1.2, this.2⟩
  obtain ⟨hpass, hnc, hnk⟩ := hns
  subst hpass
  have hsy : (∀ f k' c, child ≠ .syncret f k' c) ∧ (∀ f k' c, k ≠ .syncret f k' c) := by
    have hws := C.ws (by rw [hb]; intro _ _ _; nofun)
    rw [hb] at hws
    simp only [P4.ws, Bool.and_eq_true] at hws
    exact ⟨P4.ws_not_syncret hws.1.2, P4.ws_not_syncret hws.2⟩
  have e : s.genStep t old = (s.newTask child []).1.updTask t fun ts =>
      { ts with own := ts.own ++ [s.futs.length], body := k } := by
    unfold State.genStep
    simp only [hp, hb, Bool.false_eq_true, if_false, List.map_nil]
    rfl
  rw [e, newTask_nil]
  have hne : s.futs.length ≠ t := Nat.ne_of_gt C.lt
  have hfx : ((s.alloc (spawnFut s child) (.task s.active)).1.updTask t
      fun ts => { ts with own := ts.own ++ [s.futs.length], body := k }).fut s.futs.length = spawnFut s child := by
    rw [P4.fut_updTask_ne _ t _ _ hne, P4.fut_alloc_self]
  refine sim_new C hst hp k hnk hsy.2 ((lm_alloc s t _ _ (by rw [C.active]; intro h; cases h)).trans (lm_updTask _ t _))
    (by simp) ?_ ?_ ?_ ?_ ?_ (by rw [hb]; intro _ _ _; nofun)
  · right
    exact ⟨child, by rw [hfx]; exact spawnFut_new s hnc hsy.1⟩
  · rw [task_updTask_self' _ t _ (by simp; exact Nat.lt_succ_of_lt C.lt), task_alloc_lt _ _ _ _ C.lt]
  · rw [P2.computed_updTask, computed_alloc_lt _ _ _ _ C.lt]; exact C.nct
  · exact mreads_cons_none (tr := s.trace) rfl
  · intro Ec l
    rw [hb, hfx]
    have hk' : kidOf ((s.alloc (spawnFut s child) (.task s.active)).1.updTask t
        fun ts => { ts with own := ts.own ++ [s.futs.length], body := k }) g s.futs.length = some (child, []) := by
      unfold kidOf
      rw [g_none_of_ge C.sim (Nat.le_refl _)]
      simp only
      unfold State.task
      rw [hfx]
      rfl
    rw [hk']
    simp only [runBody, List.map_nil, spawnFut, C.cfgEq]
    rfl

/-- a future that is not a task is created (`const`, `errfut`, `lazy`, and `item` after the batch bookkeeping) -/
theorem sim_plainFut {s0 : State} (C : GC cfg tops s g t old rest') (hst : (s.genStep t old).stuck = none)
    (hp : (s.task t).pending = false) (k : Body) (hk : ns k = true) (hksy : ∀ f k' c, k ≠ .syncret f k' c)
    (x : Fut) (nk : NewKind)
    (hxk : x.kind ≠ .task) (hnk : nk ≠ .task none)
    (h0 : Sm s s0) (hf0 : s0.futs = s.futs) (ht0 : s0.trace = s.trace)
    (g0 : State → State) (hg0 : ∀ y, Sm y (g0 y)) (hg0f : ∀ y, (g0 y).futs = y.futs) (hg0t : ∀ y, (g0 y).trace = y.trace)
    (e : s.genStep t old = (g0 (s0.alloc x nk).1).updTask t fun ts => { ts with own := ts.own ++ [s.futs.length], body := k })
    (hpure : ∀ Ec l, runBody cfg (s.task t).body Ec [] l =
      runBody cfg k Ec [] { l with own := l.own ++ [x.den], kids := l.kids ++ [none] })
    (hnsync : ∀ f k' h, (s.task t).body ≠ .syncret f k' h) :
    Sim cfg tops (s.genStep t old) g := by
  rw [e]
  have hlen0 : s0.futs.length = s.futs.length := by rw [hf0]
  have hne : s.futs.length ≠ t := Nat.ne_of_gt C.lt
  have hfut1 : ∀ u, (g0 (s0.alloc x nk).1).fut u = (s0.alloc x nk).1.fut u := by
    intro u; unfold State.fut; rw [hg0f]
  have hfut0 : ∀ u, s0.fut u = s.fut u := by intro u; unfold State.fut; rw [hf0]
  have hfx : ((g0 (s0.alloc x nk).1).updTask t
      fun ts => { ts with own := ts.own ++ [s.futs.length], body := k }).fut s.futs.length = x := by
    rw [P4.fut_updTask_ne _ t _ _ hne, hfut1, ← hlen0, P4.fut_alloc_self]
  have L : Lm s ((g0 (s0.alloc x nk).1).updTask t
      fun ts => { ts with own := ts.own ++ [s.futs.length], body := k }) t :=
    (((Lm.of_sm h0 t).trans (lm_alloc s0 t x nk hnk)).trans (Lm.of_sm (hg0 _) t)).trans (lm_updTask _ t _)
  have hlt1 : t < (g0 (s0.alloc x nk).1).futs.length := by
    rw [hg0f]; simp [hlen0]; exact Nat.lt_succ_of_lt C.lt
  have htk : (g0 (s0.alloc x nk).1).task t = s.task t := by
    unfold State.task
    rw [hfut1, P4.fut_alloc_lt s0 x nk t (by rw [hlen0]; exact C.lt), hfut0]
  refine sim_new C hst hp k hk hksy L (by simp [hg0f, hlen0]) ?_ ?_ ?_ ?_ ?_ hnsync
  · left; rw [hfx]; exact hxk
  · rw [task_updTask_self' _ t _ hlt1, htk]
  · rw [P2.computed_updTask]
    unfold State.computed State.out
    rw [hfut1, P4.fut_alloc_lt s0 x nk t (by rw [hlen0]; exact C.lt), hfut0]
    exact C.nct
  · show mreads t (g0 (s0.alloc x nk).1).trace = _
    rw [hg0t]
    show mreads t (_ :: s0.trace) = _
    rw [ht0]
    exact mreads_cons_none (by cases nk <;> rfl)
  · intro Ec l
    rw [hfx, hpure]
    have hk' : kidOf ((g0 (s0.alloc x nk).1).updTask t
        fun ts => { ts with own := ts.own ++ [s.futs.length], body := k }) g s.futs.length = none := by
      unfold kidOf
      rw [g_none_of_ge C.sim (Nat.le_refl _), hfx]
      cases hxk' : x.kind <;> simp_all
    rw [hk']

theorem sim_const (C : GC cfg tops s g t old rest') (hst : (s.genStep t old).stuck = none)
    (hp : (s.task t).pending = false) (v : Nat) (k : Body) (hb : (s.task t).body = .const v k) :
    Sim cfg tops (s.genStep t old) g := by
  have hnb := C.sim.nsB t C.kt
  have hk : ns k = true := by
    have := nsBC_body hnb (by rw [hb]; intro _ _ _; nofun)
    rw [hb] at this; simpa [ns] using this
  have hsy : ∀ f k' c, k ≠ .syncret f k' c := by
    have hws := C.ws (by rw [hb]; intro _ _ _; nofun)
    rw [hb] at hws
    exact P4.ws_not_syncret hws
  refine sim_plainFut (s0 := s) C hst hp k hk hsy { kind := .const, out := some (.ok (.a v)), den := .ok (.a v) } (.const v)
    (by intro h; cases h) (by intro h; cases h) (Sm.refl s) rfl rfl id (fun y => Sm.refl y) (fun _ => rfl) (fun _ => rfl) ?_ ?_
    (by rw [hb]; intro _ _ _; nofun)
  · unfold State.genStep
    simp only [hp, hb, Bool.false_eq_true, if_false]
    rfl
  · intro Ec l; rw [hb]; simp only [runBody]

theorem sim_errfut (C : GC cfg tops s g t old rest') (hst : (s.genStep t old).stuck = none)
    (hp : (s.task t).pending = false) (e : Nat) (k : Body) (hb : (s.task t).body = .errfut e k) :
    Sim cfg tops (s.genStep t old) g := by
  have hnb := C.sim.nsB t C.kt
  have hk : ns k = true := by
    have := nsBC_body hnb (by rw [hb]; intro _ _ _; nofun)
    rw [hb] at this; simpa [ns] using this
  have hsy : ∀ f k' c, k ≠ .syncret f k' c := by
    have hws := C.ws (by rw [hb]; intro _ _ _; nofun)
    rw [hb] at hws
    exact P4.ws_not_syncret hws
  refine sim_plainFut (s0 := s) C hst hp k hk hsy { kind := .errfut, out := some (.err (.u e)), den := .err (.u e) } (.errfut e)
    (by intro h; cases h) (by intro h; cases h) (Sm.refl s) rfl rfl id (fun y => Sm.refl y) (fun _ => rfl) (fun _ => rfl) ?_ ?_
    (by rw [hb]; intro _ _ _; nofun)
  · unfold State.genStep
    simp only [hp, hb, Bool.false_eq_true, if_false]
    rfl
  · intro Ec l; rw [hb]; simp only [runBody]

theorem sim_lazy (C : GC cfg tops s g t old rest') (hst : (s.genStep t old).stuck = none)
    (hp : (s.task t).pending = false) (o : LazyOut) (k : Body) (hb : (s.task t).body = .lazy o k) :
    Sim cfg tops (s.genStep t old) g := by
  have hnb := C.sim.nsB t C.kt
  have hk : ns k = true := by
    have := nsBC_body hnb (by rw [hb]; intro _ _ _; nofun)
    rw [hb] at this; simpa [ns] using this
  have hsy : ∀ f k' c, k ≠ .syncret f k' c := by
    have hws := C.ws (by rw [hb]; intro _ _ _; nofun)
    rw [hb] at hws
    exact P4.ws_not_syncret hws
  refine sim_plainFut (s0 := s) C hst hp k hk hsy { kind := .lazy o, den := lazyOutcome o } .lazy
    (by intro h; cases h) (by intro h; cases h) (Sm.refl s) rfl rfl id (fun y => Sm.refl y) (fun _ => rfl) (fun _ => rfl) ?_ ?_
    (by rw [hb]; intro _ _ _; nofun)
  · unfold State.genStep
    simp only [hp, hb, Bool.false_eq_true, if_false]
    rfl
  · intro Ec l; rw [hb]; simp only [runBody]

theorem ensureBatch_futs (s : State) (kind : Nat) : (P4.ensureBatch s kind).futs = s.futs := by
  rcases P4.ensureBatch_cases s kind with h | h <;> rw [h]
theorem ensureBatch_trace (s : State) (kind : Nat) : (P4.ensureBatch s kind).trace = s.trace := by
  rcases P4.ensureBatch_cases s kind with h | h <;> rw [h]
theorem ensureBatch_cfg (s : State) (kind : Nat) : (P4.ensureBatch s kind).cfg = s.cfg := by
  rcases P4.ensureBatch_cases s kind with h | h <;> rw [h]
theorem sm_ensureBatch (s : State) (kind : Nat) : Sm s (P4.ensureBatch s kind) := by
  rcases P4.ensureBatch_cases s kind with h | h <;> rw [h]
  · exact Sm.refl s
  · exact Sm.of_eq rfl rfl rfl rfl rfl rfl rfl

/-- a batch item is created -/
theorem sim_item (C : GC cfg tops s g t old rest') (hst : (s.genStep t old).stuck = none)
    (hp : (s.task t).pending = false) (kind payload : Nat) (mode : ItemMode) (k : Body)
    (hb : (s.task t).body = .item kind payload mode k) : Sim cfg tops (s.genStep t old) g := by
  have hnb := C.sim.nsB t C.kt
  have hk : ns k = true := by
    have := nsBC_body hnb (by rw [hb]; intro _ _ _; nofun)
    rw [hb] at this; simpa [ns] using this
  have hsy : ∀ f k' c, k ≠ .syncret f k' c := by
    have hws := C.ws (by rw [hb]; intro _ _ _; nofun)
    rw [hb] at hws
    exact P4.ws_not_syncret hws
  have e0 : s.genStep t old = match (P4.ensureBatch s kind).curBatch? kind with
      | none => (P4.ensureBatch s kind).fail "no batch"
      | some b => P4.itemStep (P4.ensureBatch s kind) t kind payload mode k b := by
    unfold State.genStep
    simp only [hp, hb, Bool.false_eq_true, if_false]
    rfl
  cases hcb : (P4.ensureBatch s kind).curBatch? kind with
  | none => rw [e0, hcb] at hst; simp at hst
  | some b =>
    have hlen0 : (P4.ensureBatch s kind).futs.length = s.futs.length := by rw [ensureBatch_futs]
    refine sim_plainFut (s0 := P4.ensureBatch s kind) C hst hp k hk hsy
      { kind := .item kind b.seq payload mode, den := itemOutcome (P4.ensureBatch s kind).cfg kind payload mode }
      (.item kind b.seq b.items.length payload mode) (by intro h; cases h) (by intro h; cases h)
      (sm_ensureBatch s kind) (ensureBatch_futs s kind) (ensureBatch_trace s kind)
      (fun y => y.updBatch kind b.seq fun b' => { b' with items := b'.items ++ [s.futs.length] })
      (fun y => sm_updBatch y _ _ _) (fun _ => rfl) (fun _ => rfl) ?_ ?_ (by rw [hb]; intro _ _ _; nofun)
    · rw [e0, hcb]
      simp only [P4.itemStep, hlen0]
    · intro Ec l
      rw [hb]
      simp only [runBody, ensureBatch_cfg, C.cfgEq]

end AsynqModel.Core.P22
