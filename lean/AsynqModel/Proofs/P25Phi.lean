import AsynqModel.Proofs.P25Desc
import AsynqModel.Proofs.P20Phi
/-
  P25 (termination without the NonAsync / guard hypotheses), part 4: a potential of a scheduler pass that needs NO
  invariant about the `_dependencies_scheduled` flags (after a MAX_TASK_STACK_SIZE reset stale flags survive on tasks
  that are no longer on the scheduler stack, so the discipline `P10.CInv.pos` used by `P20.PhiR_first` is gone).

  A stack entry `x` (an uncomputed task) is OPEN below the entries `A` if `x` is flagged and every entry above it has a
  smaller rank; it weighs `B^(rank x + 1)` if open and `2·B^(rank x + 1)` otherwise (`1` for any other entry).
  * popping the top never closes an entry below (fewer entries above);
  * a first visit opens the top entry and pushes entries of smaller rank: entries below that were open stay open
    (the new entries are smaller than the top, which is smaller than the open entry), the others do not matter.
-/
namespace AsynqModel.Core.P25
open AsynqModel.Core AsynqModel.Core.P6 AsynqModel.Core.P6T

/-- weight of a stack entry `x` with view `v` below the entries `A` -/
def ewq (B : Nat) (R : Nat → Nat) (v : FV) (A : List Nat) (x : Nat) : Nat :=
  if v.kind = .task ∧ v.out = none then
    (if v.flag = true ∧ ∀ a ∈ A, R a < R x then B ^ (R x + 1) else 2 * B ^ (R x + 1))
  else 1

def ewS (R : Nat → Nat) (s : State) (A : List Nat) (x : Nat) : Nat := ewq (Bof s) R (view s x) A x

def PhiQ (R : Nat → Nat) (s : State) : Nat := phiGo (ewS R s) [] s.stack

theorem ewq_pos (B : Nat) (hB : 0 < B) (R : Nat → Nat) (v : FV) (A : List Nat) (x : Nat) : 0 < ewq B R v A x := by
  unfold ewq
  have := Nat.pow_pos (n := R x + 1) hB
  split
  · split <;> omega
  · omega

theorem ewq_le_two (B : Nat) (hB : 0 < B) (R : Nat → Nat) (v : FV) (A : List Nat) (x : Nat) :
    ewq B R v A x ≤ 2 * B ^ (R x + 1) := by
  unfold ewq
  have := Nat.pow_pos (n := R x + 1) hB
  split
  · split <;> omega
  · omega

/-- an entry does not get heavier: same kind, outcome kept or set, and an open entry stays open -/
theorem ewq_mono {B : Nat} {R : Nat → Nat} {v v' : FV} {A A' : List Nat} {x : Nat} (hB : 0 < B)
    (hk : v'.kind = v.kind) (ho : v'.out = v.out ∨ v'.out ≠ none)
    (hopen : v.flag = true → (∀ a ∈ A, R a < R x) → v'.flag = true ∧ ∀ a ∈ A', R a < R x) :
    ewq B R v' A' x ≤ ewq B R v A x := by
  by_cases h' : v'.kind = .task ∧ v'.out = none
  · have h : v.kind = .task ∧ v.out = none := by
      refine ⟨hk ▸ h'.1, ?_⟩
      rcases ho with e | e
      · rw [← e]; exact h'.2
      · exact absurd h'.2 e
    unfold ewq
    rw [if_pos h', if_pos h]
    by_cases hop : v.flag = true ∧ ∀ a ∈ A, R a < R x
    · rw [if_pos hop, if_pos (hopen hop.1 hop.2)]
      exact Nat.le_refl _
    · rw [if_neg hop]
      split <;> omega
  · have : ewq B R v' A' x = 1 := by unfold ewq; rw [if_neg h']
    rw [this]
    exact ewq_pos B hB R v A x

theorem phiGo_mono (e1 e2 : List Nat → Nat → Nat) (Rel : List Nat → List Nat → Prop)
    (hcons : ∀ A A' x, Rel A A' → Rel (x :: A) (x :: A')) :
    ∀ (l : List Nat) (A A' : List Nat), Rel A A' → (∀ x ∈ l, ∀ A A', Rel A A' → e1 A' x ≤ e2 A x) →
      phiGo e1 A' l ≤ phiGo e2 A l
  | [], _, _, _, _ => Nat.le_refl _
  | x :: rest, A, A', hr, h => by
    unfold phiGo
    have h1 := h x List.mem_cons_self A A' hr
    have h2 := phiGo_mono e1 e2 Rel hcons rest (x :: A) (x :: A') (hcons A A' x hr)
      (fun y hy => h y (List.mem_cons_of_mem _ hy))
    omega

/-- the top of the stack is popped; no entry below gets heavier -/
theorem PhiQ_pop {R : Nat → Nat} {s r : State} {top : Nat} {st : List Nat} (hstk : s.stack = top :: st)
    (hst : r.stack = st)
    (hent : ∀ x ∈ st, ∀ A A', top ∈ A → (∀ a ∈ A', a ∈ A) → ewS R r A' x ≤ ewS R s A x) : PhiQ R r < PhiQ R s := by
  unfold PhiQ
  rw [hstk, hst]
  show phiGo (ewS R r) [] st < ewS R s [] top + phiGo (ewS R s) [top] st
  have hpos : 0 < ewS R s [] top := ewq_pos _ (Bof_pos s) _ _ _ _
  have : phiGo (ewS R r) [] st ≤ phiGo (ewS R s) [top] st := by
    refine phiGo_mono _ _ (fun A A' => top ∈ A ∧ ∀ a ∈ A', a ∈ A) ?_ st [top] [] ?_ ?_
    · intro A A' x ⟨h1, h2⟩
      refine ⟨List.mem_cons_of_mem _ h1, fun a ha => ?_⟩
      rcases List.mem_cons.1 ha with e | e
      · rw [e]; exact List.mem_cons_self
      · exact List.mem_cons_of_mem _ (h2 a e)
    · exact ⟨List.mem_cons_self, fun a ha => by cases ha⟩
    · intro x hx A A' ⟨h1, h2⟩
      exact hent x hx A A' h1 h2
  omega

/-- the entry lemma for a pop in which the views are kept, except that the popped task `top` may lose its flag or get
    computed -/
theorem ewS_pop_entry {R : Nat → Nat} {s r : State} {top : Nat} (hB : Bof r = Bof s)
    (hvo : ∀ x, x ≠ top → view r x = view s x)
    (hvt : (view r top).kind = (view s top).kind ∧ ((view r top).out = (view s top).out ∨ (view r top).out ≠ none))
    (x : Nat) (A A' : List Nat) (htop : top ∈ A) (hsub : ∀ a ∈ A', a ∈ A) : ewS R r A' x ≤ ewS R s A x := by
  unfold ewS
  rw [hB]
  by_cases hx : x = top
  · subst hx
    refine ewq_mono (Bof_pos s) hvt.1 hvt.2 ?_
    intro _ hall
    exact absurd (hall x htop) (Nat.lt_irrefl _)
  · rw [hvo x hx]
    refine ewq_mono (Bof_pos s) rfl (Or.inl rfl) ?_
    intro hf hall
    exact ⟨hf, fun a ha => hall a (hsub a ha)⟩

/-- first visit of a blocked task: its entry opens (it loses half of its weight), its dependencies weigh less than that -/
theorem PhiQ_first {R : Nat → Nat} {s r : State} (hB : Bof r = Bof s) {top : Nat} {st : List Nat}
    (hstk : s.stack = top :: st) (htl : top < s.futs.length)
    (hk : (view s top).kind = .task) (hc : s.computed top = false) (hfl : (view s top).flag = false)
    (hvt : view r top = flagView true (view s top)) (hvo : ∀ x, x ≠ top → view r x = view s x)
    (hst : r.stack = ((view s top).deps.filter fun d => !s.computed d).reverse ++ s.stack)
    (hrk : ∀ d ∈ (view s top).deps, R d < R top) :
    PhiQ R r < PhiQ R s := by
  have ho := out_none_of_uncomputed hc
  generalize hds : ((view s top).deps.filter fun d => !s.computed d) = ds at hst
  have hdsmem : ∀ d, d ∈ ds → d ∈ (view s top).deps := by
    intro d hd; rw [← hds] at hd; exact (List.mem_filter.1 hd).1
  have hBpos : 0 < Bof s := Bof_pos s
  have hlen : 2 * ds.length + 1 ≤ Bof s := by
    have h1 : ds.length ≤ (view s top).deps.length := by rw [← hds]; exact List.length_filter_le _ _
    have h2 : depTerm s top ≤ Dsum s := le_rsum htl
    have h3 : depTerm s top = (view s top).deps.length := by unfold depTerm; rw [if_pos hk]
    show 2 * ds.length + 1 ≤ 2 * Dsum s + 1
    omega
  unfold PhiQ
  rw [hstk, hst, hstk, phiGo_append]
  show phiGo (ewS R r) [] ds.reverse + (ewS R r (ds.reverse.reverse ++ []) top +
    phiGo (ewS R r) (top :: (ds.reverse.reverse ++ [])) st) < ewS R s [] top + phiGo (ewS R s) [top] st
  -- the old entry
  have h1 : ewS R s [] top = 2 * Bof s ^ (R top + 1) := by
    unfold ewS ewq
    rw [if_pos ⟨hk, ho⟩, if_neg (by rw [hfl]; simp)]
  -- the opened entry
  have h2 : ewS R r (ds.reverse.reverse ++ []) top = Bof s ^ (R top + 1) := by
    have hop : ∀ a ∈ ds.reverse.reverse ++ [], R a < R top := by
      intro a ha
      simp at ha
      exact hrk a (hdsmem a ha)
    unfold ewS ewq
    rw [hB, hvt]
    rw [if_pos ⟨hk, ho⟩, if_pos ⟨rfl, hop⟩]
  -- the entries below do not get heavier
  have h3 : phiGo (ewS R r) (top :: (ds.reverse.reverse ++ [])) st ≤ phiGo (ewS R s) [top] st := by
    refine phiGo_mono _ _ (fun A A' => top ∈ A ∧ ∀ y, y ∈ A' → y ∈ A ∨ y ∈ ds) ?_ st _ _ ?_ ?_
    · intro A A' x ⟨h1, h3⟩
      refine ⟨List.mem_cons_of_mem _ h1, fun y hy => ?_⟩
      rcases List.mem_cons.1 hy with e | e
      · exact Or.inl (e ▸ List.mem_cons_self)
      · rcases h3 y e with h | h
        · exact Or.inl (List.mem_cons_of_mem _ h)
        · exact Or.inr h
    · refine ⟨List.mem_cons_self, fun y hy => ?_⟩
      simp at hy
      rcases hy with e | e
      · exact Or.inl (e ▸ List.mem_cons_self)
      · exact Or.inr e
    · intro x _ A A' ⟨hA, hmem⟩
      unfold ewS
      rw [hB]
      by_cases hx : x = top
      · subst hx
        rw [hvt]
        refine ewq_mono hBpos rfl (Or.inl rfl) ?_
        intro hf _
        rw [hfl] at hf; cases hf
      · rw [hvo x hx]
        refine ewq_mono hBpos rfl (Or.inl rfl) ?_
        intro hf hall
        refine ⟨hf, fun a ha => ?_⟩
        rcases hmem a ha with h | h
        · exact hall a h
        · exact Nat.lt_trans (hrk a (hdsmem a h)) (hall top hA)
  -- the pushed entries
  have h4 : phiGo (ewS R r) [] ds.reverse ≤ ds.reverse.length * (2 * Bof s ^ (R top)) := by
    apply phiGo_le
    intro x hx A
    have hxds : x ∈ ds := List.mem_reverse.1 hx
    have hlt : R x < R top := hrk x (hdsmem x hxds)
    have hp : Bof s ^ (R x + 1) ≤ Bof s ^ (R top) := pow_mono hBpos hlt
    have := ewq_le_two (Bof s) hBpos R (view r x) A x
    unfold ewS
    rw [hB]
    omega
  rw [h1, h2]
  rw [List.length_reverse] at h4
  have hX : 0 < Bof s ^ (R top) := Nat.pow_pos hBpos
  have hpow : Bof s ^ (R top + 1) = Bof s ^ (R top) * Bof s := Nat.pow_succ _ _
  have hmul : (2 * ds.length) * Bof s ^ (R top) < Bof s * Bof s ^ (R top) :=
    Nat.mul_lt_mul_of_pos_right (by omega) hX
  have e1 : ds.length * (2 * Bof s ^ (R top)) = (2 * ds.length) * Bof s ^ (R top) := by
    rw [Nat.mul_comm 2 ds.length, Nat.mul_assoc]
  have e2 : Bof s ^ (R top) * Bof s = Bof s * Bof s ^ (R top) := Nat.mul_comm _ _
  rw [hpow, e2]
  rw [e1] at h4
  omega

end AsynqModel.Core.P25
