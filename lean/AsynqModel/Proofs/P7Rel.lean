import AsynqModel.Proofs.P5SvTask
import AsynqModel.Proofs.P2Inv
import AsynqModel.Proofs.P7Defs
/-!
  P7: `Q P s s'` - `s'` differs from `s` only in ways that concern neither contexts nor the completion of tasks:
  futures allocated, NON-TASK futures completed, batches flushed, events emitted, where
  * the scoped values may have been "touched" (`svTouch`: reads stay the same),
  * no task changes its `computed` status,
  * `guardFired` stays,
  * the new events satisfy `P` (`calm`: not about contexts and no `.svals`; or only `P5.silent`).
-/
namespace AsynqModel.Core.P7
open AsynqModel.Core P5

/-- events that are neither about contexts nor the result / scoped-value report at the end of a top-level computation -/
def calm : Event → Bool
  | .ctx _ _ => false
  | .ctxN _ _ _ => false
  | .ctxX _ => false
  | .svals _ => false
  | .ret _ => false
  | _ => true

/-- every event but the result and the scoped-value report of a top-level computation (`finishTop`) -/
def nosv : Event → Bool
  | .svals _ => false
  | .ret _ => false
  | _ => true

theorem calm_nosv {e : Event} (h : calm e = true) : nosv e = true := by
  cases e <;> simp_all [calm, nosv]

theorem calm_silent {e : Event} (h : calm e = true) : silent e = true := by
  cases e <;> simp_all [calm, silent]

structure Q (P : Event → Bool) (s s' : State) : Prop where
  ctxs : s'.ctxs = s.ctxs
  cfg : s'.cfg = s.cfg
  len : s.futs.length ≤ s'.futs.length
  tctxs : ∀ t, (s'.task t).ctxs = (s.task t).ctxs
  tact : ∀ t, (s'.task t).ctxActive = (s.task t).ctxActive
  tconts : ∀ t, (s'.task t).conts = (s.task t).conts
  comp : ∀ f, s.computed f = true → s'.computed f = true
  kind : ∀ f, f < s.futs.length → (s'.fut f).kind = (s.fut f).kind
  svg : ∀ v, s'.svGet v = s.svGet v
  svn : (s.sv.map (·.1)).Nodup → (s'.sv.map (·.1)).Nodup
  tcomp : ∀ f, (s.fut f).kind = .task → s'.computed f = s.computed f
  guard : s'.guardFired = s.guardFired
  trace : ∃ evs, s'.trace = evs ++ s.trace ∧ ∀ e ∈ evs, P e = true

namespace Q
variable {P : Event → Bool} {s s' s'' : State}

theorem kind_task (h : Q P s s') (f : Nat) (hk : (s.fut f).kind = .task) : (s'.fut f).kind = .task := by
  rw [h.kind f (lt_of_kind_task s f hk)]; exact hk

theorem refl (P : Event → Bool) (s : State) : Q P s s :=
  ⟨rfl, rfl, Nat.le_refl _, fun _ => rfl, fun _ => rfl, fun _ => rfl, fun _ h => h, fun _ _ => rfl, fun _ => rfl, id,
    fun _ _ => rfl, rfl, ⟨[], rfl, by simp⟩⟩

theorem trans (h : Q P s s') (h' : Q P s' s'') : Q P s s'' := by
  refine ⟨h'.ctxs.trans h.ctxs, h'.cfg.trans h.cfg, Nat.le_trans h.len h'.len,
    fun t => (h'.tctxs t).trans (h.tctxs t), fun t => (h'.tact t).trans (h.tact t),
    fun t => (h'.tconts t).trans (h.tconts t), fun f hf => h'.comp f (h.comp f hf), ?_,
    fun v => (h'.svg v).trans (h.svg v), fun hn => h'.svn (h.svn hn), ?_, h'.guard.trans h.guard, ?_⟩
  · intro f hf
    rw [h'.kind f (Nat.lt_of_lt_of_le hf h.len), h.kind f hf]
  · intro f hk
    rw [h'.tcomp f (h.kind_task f hk), h.tcomp f hk]
  · obtain ⟨e1, he1, hs1⟩ := h.trace
    obtain ⟨e2, he2, hs2⟩ := h'.trace
    refine ⟨e2 ++ e1, by rw [he2, he1, List.append_assoc], ?_⟩
    intro e he
    rcases List.mem_append.1 he with h | h
    · exact hs2 e h
    · exact hs1 e h

theorem mono {P' : Event → Bool} (hp : ∀ e, P e = true → P' e = true) (h : Q P s s') : Q P' s s' := by
  obtain ⟨evs, he, hs⟩ := h.trace
  exact { h with trace := ⟨evs, he, fun e hm => hp e (hs e hm)⟩ }

/-- from `P5.Ext` (scoped values untouched) -/
theorem of_ext (e : Ext s s') (tc : ∀ f, (s.fut f).kind = .task → s'.computed f = s.computed f)
    (g : s'.guardFired = s.guardFired) (tr : ∃ evs, s'.trace = evs ++ s.trace ∧ ∀ e ∈ evs, P e = true) : Q P s s' :=
  ⟨e.ctxs, e.cfg, e.len, e.tctxs, e.tact, e.tconts, e.comp, e.kind, fun v => by simp [State.svGet, e.sv],
    fun hn => by rw [e.sv]; exact hn, tc, g, tr⟩

/-- a change of fields other than `futs`, `ctxs`, `sv`, `trace`, `cfg`, `guardFired` -/
theorem of_eq (h1 : s'.futs = s.futs) (h2 : s'.ctxs = s.ctxs) (h3 : s'.sv = s.sv) (h4 : s'.trace = s.trace)
    (h5 : s'.cfg = s.cfg) (h6 : s'.guardFired = s.guardFired) : Q P s s' :=
  of_ext (Ext.of_eq h1 h2 h3 h4 h5) (fun f _ => by simp [State.computed, State.out, State.fut, h1]) h6
    ⟨[], by simp [h4], by simp⟩

end Q

/-! ### the helpers -/

section helpers
variable {P : Event → Bool}

theorem q_emit (s : State) (e : Event) (h : P e = true) (hs : silent e = true) : Q P s (s.emit e) :=
  Q.of_ext (ext_emit s e hs) (fun _ _ => rfl) rfl ⟨[e], rfl, by simpa using h⟩

theorem q_updTask (s : State) (t : Nat) (g : TaskSt → TaskSt)
    (h1 : ∀ x, (g x).ctxs = x.ctxs) (h2 : ∀ x, (g x).ctxActive = x.ctxActive) (h3 : ∀ x, (g x).conts = x.conts) :
    Q P s (s.updTask t g) :=
  ⟨rfl, rfl, by simp, fun u => task_updTask_field s t u g (·.ctxs) h1,
    fun u => task_updTask_field s t u g (·.ctxActive) h2, fun u => task_updTask_field s t u g (·.conts) h3,
    fun f hf => by rw [computed_updTask]; exact hf, fun f _ => kind_updTask s t f g, fun _ => rfl, id,
    fun f _ => computed_updTask s t f g, rfl, ⟨[], rfl, by simp⟩⟩

theorem computed_complete_ne (s : State) (f g : Nat) (o : Outcome) (h : g ≠ f) :
    (s.complete f o).computed g = s.computed g := by
  simp [State.computed, out_complete, h]

/-- completion of a future that is not a task -/
theorem q_complete (s : State) (f : Nat) (o : Outcome) (hk : (s.fut f).kind ≠ .task) (hp : P (.done f o) = true) :
    Q P s (s.complete f o) :=
  Q.of_ext (ext_complete s f o)
    (fun g hg => computed_complete_ne s f g o (fun h => hk (h ▸ hg))) rfl ⟨[.done f o], rfl, by simpa using hp⟩

theorem computed_appendFut (s : State) (x : Fut) (g : Nat) (hg : g < s.futs.length) :
    ({ s with futs := s.futs ++ [x] } : State).computed g = s.computed g := by
  simp only [State.computed, State.out, fut_appendFut]
  rw [if_neg (by omega)]

theorem q_appendFut (s : State) (x : Fut)
    (h1 : x.ts.ctxs = []) (h2 : x.ts.ctxActive = false) (h3 : x.ts.conts = []) (h4 : x.ts.deps = [])
    (h5 : x.ts.depsSched = false) : Q P s { s with futs := s.futs ++ [x] } :=
  Q.of_ext (ext_appendFut s x h1 h2 h3 h4 h5)
    (fun g hg => computed_appendFut s x g (lt_of_kind_task s g hg)) rfl ⟨[], rfl, by simp⟩

theorem q_alloc (s : State) (x : Fut) (nk : NewKind)
    (h1 : x.ts.ctxs = []) (h2 : x.ts.ctxActive = false) (h3 : x.ts.conts = []) (h4 : x.ts.deps = [])
    (h5 : x.ts.depsSched = false) (hp : P (.new s.futs.length nk) = true) : Q P s (s.alloc x nk).1 :=
  Q.of_ext (ext_alloc s x nk h1 h2 h3 h4 h5)
    (fun g hg => computed_appendFut s x g (lt_of_kind_task s g hg)) rfl ⟨[.new s.futs.length nk], rfl, by simpa using hp⟩

theorem q_newTask (s : State) (child : Body) (inh : List Nat) (hp : ∀ f k, P (.new f k) = true) :
    Q P s (s.newTask child inh).1 := by
  unfold State.newTask
  exact q_alloc _ _ _ rfl rfl rfl rfl rfl (hp _ _)

theorem q_fail (s : State) (m : String) : Q P s (s.fail m) := Q.of_eq rfl rfl rfl rfl rfl rfl
theorem q_popStack (s : State) : Q P s s.popStack := Q.of_eq rfl rfl rfl rfl rfl rfl
theorem q_updBatch (s : State) (k q : Nat) (g : Batch → Batch) : Q P s (s.updBatch k q g) :=
  Q.of_eq rfl rfl rfl rfl rfl rfl

theorem q_switchActive (s : State) (k q : Nat) : Q P s (s.switchActive k q) := by
  unfold State.switchActive
  split
  · split
    · exact Q.of_eq rfl rfl rfl rfl rfl rfl
    · exact Q.refl P s
  · exact Q.refl P s

theorem q_flushItems (hp : ∀ f o, P (.done f o) = true) (s : State) (kind : Nat) (l : List Nat) :
    Q P s (s.flushItems kind l) := by
  induction l generalizing s with
  | nil => exact Q.refl P s
  | cons i is ih =>
    unfold State.flushItems
    refine Q.trans ?_ (ih _)
    split
    · exact Q.refl P s
    · split
      · next h => exact q_complete _ _ _ (by rw [h]; intro h'; cases h') (hp _ _)
      · next h => exact q_complete _ _ _ (by rw [h]; intro h'; cases h') (hp _ _)
      · exact Q.refl P s

theorem q_finishItems (hp : ∀ f o, P (.done f o) = true) (e : Err) (l : List Nat) (s : State)
    (hl : ∀ i ∈ l, (s.fut i).kind ≠ .task) : Q P s (s.finishItems e l) := by
  induction l generalizing s with
  | nil => exact Q.refl P s
  | cons i is ih =>
    unfold State.finishItems
    have h1 : Q P s (if s.computed i then s else s.complete i (.err e)) := by
      split
      · exact Q.refl P s
      · exact q_complete _ _ _ (hl i (by simp)) (hp _ _)
    refine Q.trans h1 (ih _ ?_)
    intro j hj hk
    -- the kind of `j` is the same before
    by_cases hlt : j < s.futs.length
    · rw [h1.kind j hlt] at hk; exact hl j (by simp [hj]) hk
    · -- `j` is out of range in `s`; completion allocates nothing
      have hlen : (if s.computed i then s else s.complete i (.err e)).futs.length = s.futs.length := by
        split
        · rfl
        · simp [State.complete]
      have := lt_of_kind_task _ j hk
      omega

theorem not_task_of_item {k : FKind} (h : P2.isItemKind k = true) : k ≠ .task := by
  intro h'; rw [h'] at h; cases h

theorem q_flushBatch (hp : ∀ e, silent e = true → calm e = true → P e = true) (s : State) (k q : Nat)
    (hi : P2.ItemsOk s) : Q P s (s.flushBatch k q) := by
  unfold State.flushBatch
  split
  · exact q_fail ..
  · next b hb =>
    have hbm : b ∈ s.batches := List.mem_of_find?_eq_some hb
    have hd : ∀ f o, P (.done f o) = true := fun f o => hp _ rfl rfl
    refine Q.trans ?_ (q_updBatch ..)
    refine Q.trans ?_ (q_emit _ _ (hp _ rfl rfl) rfl)
    have h1 : Q P s ((s.switchActive k q).emit (.flushI k q b.items)) :=
      (q_switchActive s k q).trans (q_emit _ _ (hp _ rfl rfl) rfl)
    have h2 := h1.trans (q_flushItems hd _ k b.items)
    refine h2.trans (q_finishItems hd _ _ _ ?_)
    intro i hi' hk
    have hki := not_task_of_item (hi b hbm i hi')
    by_cases hlt : i < s.futs.length
    · rw [h2.kind i hlt] at hk; exact hki hk
    · rw [fut_default s i (Nat.le_of_not_lt hlt)] at hki
      -- the default future is a constant, and so is it after (kinds beyond the old heap: only non-tasks are allocated... )
      -- `flushItems`/`switchActive`/`emit` allocate nothing
      have hlen : (((s.switchActive k q).emit (.flushI k q b.items)).flushItems k b.items).futs.length = s.futs.length := by
        have a1 : ∀ (l : List Nat) (x : State), (x.flushItems k l).futs.length = x.futs.length := by
          intro l
          induction l with
          | nil => intro x; rfl
          | cons i is ih =>
            intro x
            unfold State.flushItems
            rw [ih]
            split
            · rfl
            · split <;> simp [State.complete]
        rw [a1]
        show (s.switchActive k q).futs.length = s.futs.length
        unfold State.switchActive
        split
        · split <;> rfl
        · rfl
      have := lt_of_kind_task _ i hk
      omega

theorem itemsOk_of_eq {s s' : State} (hf : ∀ f, (s'.fut f).kind = (s.fut f).kind) (hb : s'.batches = s.batches)
    (hi : P2.ItemsOk s) : P2.ItemsOk s' := by
  intro b hbm i him
  rw [hb] at hbm
  rw [hf]; exact hi b hbm i him

theorem q_schedulerFlush (hp : ∀ e, silent e = true → calm e = true → P e = true) (s : State) (root : Nat)
    (hi : P2.ItemsOk s) : Q P s (s.schedulerFlush root) := by
  unfold State.schedulerFlush
  simp only
  repeat' split
  all_goals first | exact Q.of_eq rfl rfl rfl rfl rfl rfl | skip
  all_goals
    refine Q.trans ?_ (q_emit _ _ (hp _ rfl rfl) rfl)
    refine Q.trans ?_ (q_flushBatch hp _ _ _ ?_)
    · refine Q.trans ?_ (q_emit _ _ (hp _ rfl rfl) rfl)
      exact Q.of_eq rfl rfl rfl rfl rfl rfl
    · exact itemsOk_of_eq (fun _ => rfl) rfl hi

/-! ### touching a scoped value -/

theorem svGet_svTouch (s : State) (var v : Nat) : (s.svTouch var).svGet v = s.svGet v := by
  unfold State.svTouch
  split
  · rfl
  · next h =>
    unfold State.svGet
    simp only
    have : ∀ (l : List (Nat × Nat)), (l.any (fun p => p.1 == var)) = false →
        ((l ++ [(var, 0)]).lookup v).getD 0 = (l.lookup v).getD 0 := by
      intro l
      induction l with
      | nil => intro _; simp only [List.nil_append, lookup_cons', List.lookup_nil]; split <;> rfl
      | cons p l ih =>
        intro hl
        obtain ⟨a, b⟩ := p
        simp only [List.any_cons, Bool.or_eq_false_iff] at hl
        simp only [List.cons_append, lookup_cons']
        split
        · rfl
        · exact ih hl.2
    exact this s.sv (Bool.eq_false_iff.2 h)

theorem svn_svTouch (s : State) (var : Nat) (h : (s.sv.map (·.1)).Nodup) : ((s.svTouch var).sv.map (·.1)).Nodup := by
  unfold State.svTouch
  split
  · exact h
  · next hn =>
    simp only [List.map_append, List.map_cons, List.map_nil]
    rw [List.nodup_append]
    refine ⟨h, by simp, ?_⟩
    intro a ha b hb
    simp only [List.mem_singleton] at hb
    subst hb
    intro hab
    apply hn
    rw [List.any_eq_true]
    obtain ⟨p, hp, hpa⟩ := List.mem_map.1 ha
    exact ⟨p, hp, by simp [hpa, hab]⟩

theorem q_svTouch (s : State) (var : Nat) : Q P s (s.svTouch var) := by
  have hf : (s.svTouch var).futs = s.futs := by simp
  have ht : ∀ u, (s.svTouch var).task u = s.task u := fun u => by simp [State.task, State.fut]
  have hfu : ∀ u, (s.svTouch var).fut u = s.fut u := fun u => by simp [State.fut]
  have hcfg : (s.svTouch var).cfg = s.cfg := by unfold State.svTouch; split <;> rfl
  exact ⟨by simp, hcfg, by rw [hf]; exact Nat.le_refl _, fun u => by rw [ht], fun u => by rw [ht], fun u => by rw [ht],
    fun f h => by simpa [State.computed, State.out, hfu] using h, fun f _ => by rw [hfu], svGet_svTouch s var,
    svn_svTouch s var, fun f _ => by simp [State.computed, State.out, hfu], by simp, ⟨[], by simp, by simp⟩⟩

end helpers

end AsynqModel.Core.P7
