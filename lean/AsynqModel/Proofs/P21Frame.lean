import AsynqModel.Proofs.P10Step
import AsynqModel.Proofs.P6Batch
import AsynqModel.Proofs.P20Gen
/-
  P21 (no stuck states for well-scoped programs), part 1: frame relations.

  * `Aux s r`  : the fields no heap-side helper touches: `choices`, `curTop`, `cfg`, and the number of `ret` events.
  * `FZ s r`   : a heap-side helper: `P10.NZ` (no future created, bodies kept, `pending` only reset, computed futures
                 stay computed, control stack / raising / stuck / tops unchanged) + `Aux` + the batch table unchanged.
  * `G x s r`  : what a whole step may do to the heap as far as this proof is concerned, with task `x` exempt from the
                 "body unchanged" clause; new futures are not stopped at a `syncret`; the batch invariant `P6.InvB` is kept.
-/
namespace AsynqModel.Core.P21
open AsynqModel.Core

def isRet : Event → Bool
  | .ret _ => true
  | _ => false

/-- number of `ret` events (top-level calls that have returned or raised) -/
def rets (l : List Event) : Nat := (l.filter isRet).length

theorem rets_cons (e : Event) (l : List Event) : rets (e :: l) = (if isRet e then 1 else 0) + rets l := by
  unfold rets
  rw [List.filter_cons]
  split <;> simp <;> omega

structure Aux (s r : State) : Prop where
  choices : ∃ n, r.choices = s.choices.drop n
  curTop : r.curTop = s.curTop
  cfg : r.cfg = s.cfg
  rets : rets r.trace = rets s.trace

theorem Aux.refl (s : State) : Aux s s := ⟨⟨0, rfl⟩, rfl, rfl, rfl⟩

theorem Aux.trans {a b c : State} (h1 : Aux a b) (h2 : Aux b c) : Aux a c := by
  obtain ⟨n1, e1⟩ := h1.choices
  obtain ⟨n2, e2⟩ := h2.choices
  exact ⟨⟨n1 + n2, by rw [e2, e1, List.drop_drop]⟩, h2.curTop.trans h1.curTop, h2.cfg.trans h1.cfg, h2.rets.trans h1.rets⟩

theorem aux_of_eq {s r : State} (h1 : r.choices = s.choices) (h2 : r.curTop = s.curTop) (h3 : r.cfg = s.cfg)
    (h4 : r.trace = s.trace) : Aux s r := ⟨⟨0, h1⟩, h2, h3, by rw [h4]⟩

theorem aux_emit (s : State) (e : Event) (he : isRet e = false) : Aux s (s.emit e) :=
  ⟨⟨0, rfl⟩, rfl, rfl, by show rets (e :: s.trace) = _; rw [rets_cons, he]; simp⟩

theorem aux_updTask (s : State) (t : Nat) (g : TaskSt → TaskSt) : Aux s (s.updTask t g) := aux_of_eq rfl rfl rfl rfl
theorem aux_updBatch (s : State) (k q : Nat) (g : Batch → Batch) : Aux s (s.updBatch k q g) := aux_of_eq rfl rfl rfl rfl
theorem aux_fail (s : State) (m : String) : Aux s (s.fail m) := aux_of_eq rfl rfl rfl rfl

theorem aux_svSet (s : State) (var val : Nat) : Aux s (s.svSet var val) := by
  unfold State.svSet
  split <;> exact aux_of_eq rfl rfl rfl rfl

theorem aux_svTouch (s : State) (var : Nat) : Aux s (s.svTouch var) := by
  unfold State.svTouch
  split
  · exact Aux.refl _
  · exact aux_of_eq rfl rfl rfl rfl

theorem aux_complete (s : State) (f : Nat) (o : Outcome) : Aux s (s.complete f o) :=
  ⟨⟨0, rfl⟩, rfl, rfl, by show rets (Event.done f o :: _) = _; rw [rets_cons]; simp [isRet]⟩

theorem aux_ctxSetResumed (s : State) (c : Nat) (r : Bool) : Aux s (s.ctxSetResumed c r) := by
  unfold State.ctxSetResumed
  split
  · exact aux_of_eq rfl rfl rfl rfl
  · exact Aux.refl _

theorem aux_ctxResumeOne (s : State) (c : Nat) : Aux s (s.ctxResumeOne c) := by
  unfold State.ctxResumeOne
  have h0 : Aux s ((s.emit (.ctx true c)).ctxSetResumed c true) := (aux_emit s _ rfl).trans (aux_ctxSetResumed _ _ _)
  refine h0.trans ?_
  generalize (s.emit (.ctx true c)).ctxSetResumed c true = s1
  dsimp only
  split
  · split
    · exact Aux.trans (aux_svSet s1 _ _) (aux_of_eq rfl rfl rfl rfl)
    · exact Aux.refl _
  · exact Aux.refl _

theorem aux_ctxPauseOne (s : State) (c : Nat) : Aux s (s.ctxPauseOne c) := by
  unfold State.ctxPauseOne
  have h0 : Aux s ((s.emit (.ctx false c)).ctxSetResumed c false) := (aux_emit s _ rfl).trans (aux_ctxSetResumed _ _ _)
  refine h0.trans ?_
  generalize (s.emit (.ctx false c)).ctxSetResumed c false = s1
  dsimp only
  split
  · split
    · exact aux_svSet s1 _ _
    · exact Aux.refl _
  · exact Aux.refl _

theorem aux_ctxExitAux (s : State) (c : Nat) (owner : Option Nat) : Aux s (P3.ctxExitAux s c owner) := by
  unfold P3.ctxExitAux
  refine Aux.trans ?_ (aux_emit _ _ rfl)
  cases owner <;> dsimp only
  · split
    · exact Aux.refl _
    · exact aux_ctxPauseOne _ _
  · split
    · exact aux_updTask _ _ _
    · exact (aux_updTask _ _ _).trans (aux_ctxPauseOne _ _)

theorem aux_ctxExit (s : State) (c : Nat) : Aux s (s.ctxExit c) := by
  rw [P3.ctxExit_eq]
  exact aux_ctxExitAux _ _ _

theorem aux_foldl {α : Type} (g : State → α → State) (hg : ∀ s a, Aux s (g s a)) (l : List α) (s : State) :
    Aux s (l.foldl g s) := by
  induction l generalizing s with
  | nil => exact Aux.refl _
  | cons a l ih => exact (hg s a).trans (ih _)

theorem aux_exitAll (s : State) (t : Nat) : Aux s (s.exitAll t) := by
  unfold State.exitAll
  exact (aux_foldl (fun s (p : Nat × Body) => s.ctxExit p.1) (fun s p => aux_ctxExit s p.1) _ s).trans
    (aux_updTask _ _ _)

theorem aux_failSuspended (s : State) (t : Nat) (e : Err) : Aux s (s.failSuspended t e) := by
  unfold State.failSuspended
  split
  · exact Aux.refl _
  · exact ((aux_exitAll s t).trans (aux_updTask _ _ _)).trans (aux_complete _ _ _)

theorem aux_resumeContexts (s : State) (t : Nat) : Aux s (s.resumeContexts t) := by
  unfold State.resumeContexts
  dsimp only
  split
  · exact Aux.refl _
  · have h : Aux s ((s.task t).ctxs.foldl (fun s c => if s.ctxIsNonAsync c then s else s.ctxResumeOne c)
        (s.updTask t fun ts => { ts with ctxActive := true })) :=
      (aux_updTask s t _).trans (aux_foldl _ (fun s c => by
        split
        · exact Aux.refl _
        · exact aux_ctxResumeOne _ _) _ _)
    split
    · exact h.trans (aux_failSuspended _ _ _)
    · exact h

theorem aux_pauseContexts (s : State) (t : Nat) : Aux s (s.pauseContexts t) := by
  unfold State.pauseContexts
  dsimp only
  split
  · exact Aux.refl _
  · have h : Aux s ((s.task t).ctxs.reverse.foldl (fun s c => if s.ctxIsNonAsync c then s else s.ctxPauseOne c)
        (s.updTask t fun ts => { ts with ctxActive := false })) :=
      (aux_updTask s t _).trans (aux_foldl _ (fun s c => by
        split
        · exact Aux.refl _
        · exact aux_ctxPauseOne _ _) _ _)
    split
    · exact h.trans (aux_failSuspended _ _ _)
    · exact h

theorem aux_switchActive (s : State) (k q : Nat) : Aux s (s.switchActive k q) := by
  unfold State.switchActive
  split
  · split
    · exact aux_of_eq rfl rfl rfl rfl
    · exact Aux.refl _
  · exact Aux.refl _

theorem aux_flushItems (s : State) (kind : Nat) (l : List Nat) : Aux s (s.flushItems kind l) := by
  induction l generalizing s with
  | nil => exact Aux.refl _
  | cons i is ih =>
    unfold State.flushItems
    refine Aux.trans ?_ (ih _)
    split
    · exact Aux.refl _
    · split
      · exact aux_complete _ _ _
      · exact aux_complete _ _ _
      · exact Aux.refl _

theorem aux_finishItems (s : State) (e : Err) (l : List Nat) : Aux s (s.finishItems e l) := by
  induction l generalizing s with
  | nil => exact Aux.refl _
  | cons i is ih =>
    unfold State.finishItems
    refine Aux.trans ?_ (ih _)
    split
    · exact Aux.refl _
    · exact aux_complete _ _ _

theorem aux_flushBatch (s : State) (k q : Nat) : Aux s (s.flushBatch k q) := by
  unfold State.flushBatch
  split
  · exact aux_fail _ _
  · dsimp only
    exact ((((aux_switchActive s k q).trans (aux_emit _ _ rfl)).trans (aux_flushItems _ _ _)).trans
      (aux_finishItems _ _ _)).trans ((aux_emit _ _ rfl).trans (aux_updBatch _ _ _ _))

theorem aux_alloc (s : State) (x : Fut) (nk : NewKind) : Aux s (s.alloc x nk).1 :=
  ⟨⟨0, rfl⟩, rfl, rfl, by show rets (Event.new _ nk :: _) = _; rw [rets_cons]; simp [isRet]⟩

theorem aux_newTask (s : State) (child : Body) (inh : List Nat) : Aux s (s.newTask child inh).1 := by
  unfold State.newTask
  exact aux_alloc _ _ _

theorem aux_leaveGen (s : State) (t : Nat) (old : Option Nat) : Aux s (s.leaveGen t old) :=
  aux_of_eq rfl rfl rfl rfl

end AsynqModel.Core.P21
