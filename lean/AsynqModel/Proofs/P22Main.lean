import AsynqModel.Proofs.P22Env
import AsynqModel.Proofs.P4Reach
import AsynqModel.Theorems.C01
import AsynqModel.Proofs.P17C01
/-!
# P22, part 16: the simulation invariant holds in every reachable state (`sim_reach`)
-/
namespace AsynqModel.Core.P22
open AsynqModel.Core AsynqModel.Core.P22.SeqSV

variable {cfg : Cfg} {tops : List (Conv × Body)} {s : State} {g : Ghost}

/-- the end of a top-level computation -/
theorem sim_finishTop (hS : Sim cfg tops s g) (hB : Bnd s) (f : Nat) : Sim cfg tops (s.finishTop f) g := by
  unfold State.finishTop
  have h0 : Sm s ({ s with raising := none, curTop := none } : State) :=
    ⟨rfl, rfl, rfl, .inr rfl, rfl, fun _ => ⟨rfl, rfl⟩, fun _ _ => ⟨rfl, rfl⟩, Nat.le_refl _, fun _ _ => rfl,
      ⟨[], rfl, by simp⟩⟩
  exact sim_sm hS hB (((h0.trans (sm_emit _ _ rfl)).trans (sm_emit _ _ rfl)).trans (sm_emit _ _ rfl))

/-- the ghost after a top-level computation has started -/
def topG (g : Ghost) (f : Nat) (i : Info) : Ghost := fun u => if u = f then some i else g u

/-- the start of a top-level computation: the root is created - and called -/
theorem sim_top (hS : Sim cfg tops s g) (hB : Bnd s) (hact : s.active = none)
    (conv : Conv) (body : Body) (rest0 : List (Conv × Body)) (htops : s.tops = (conv, body) :: rest0)
    (hnsb : ns body = true) (hnsy : ∀ f k c, body ≠ .syncret f k c) :
    Sim cfg tops
      { (({ s with tops := rest0, topIdx := s.topIdx + 1 } : State).emit (.top s.topIdx conv)).newTask body [] |>.1 with
        curTop := some s.futs.length, ctl := [.waitEnter s.futs.length] }
      (topG g s.futs.length ⟨s.topIdx, [], body, [], []⟩) := by
  obtain ⟨s0, hs0⟩ : ∃ s0 : State, s0 = ({ s with tops := rest0, topIdx := s.topIdx + 1 } : State).emit (.top s.topIdx conv) :=
    ⟨_, rfl⟩
  obtain ⟨r, hr⟩ : ∃ r : State, r = { (s0.newTask body []).1 with
      curTop := some s.futs.length, ctl := [.waitEnter s.futs.length] } := ⟨_, rfl⟩
  rw [← hs0, ← hr]
  have hlen0 : s0.futs.length = s.futs.length := by rw [hs0]; rfl
  have hfut0 : ∀ u, s0.fut u = s.fut u := by rw [hs0]; intro u; rfl
  have hact0 : s0.active = none := by rw [hs0]; exact hact
  have hfutr : ∀ u, r.fut u = (s0.alloc (spawnFut s0 body) (.task s0.active)).1.fut u := by
    rw [hr, newTask_nil]; intro u; rfl
  have hold : ∀ u, u < s.futs.length → r.fut u = s.fut u := by
    intro u hu
    rw [hfutr, P4.fut_alloc_lt _ _ _ _ (by rw [hlen0]; exact hu), hfut0]
  have hnew : r.fut s.futs.length = spawnFut s0 body := by
    rw [hfutr, ← hlen0, P4.fut_alloc_self]
  have hrlen : r.futs.length = s.futs.length + 1 := by
    have : r.futs = (s0.alloc (spawnFut s0 body) (.task s0.active)).1.futs := by rw [hr, newTask_nil]
    rw [this]; simp [hlen0]
  have hbig : ∀ u, r.futs.length ≤ u → r.fut u = {} := fun u hu => P4.fut_default r u hu
  have holdT : ∀ u, u < s.futs.length → r.task u = s.task u := by
    intro u hu; unfold State.task; rw [hold u hu]
  have holdC : ∀ u, u < s.futs.length → r.computed u = s.computed u := by
    intro u hu; unfold State.computed State.out; rw [hold u hu]
  have hctxs : r.ctxs = s.ctxs := by rw [hr, newTask_nil, hs0]; rfl
  have htr : r.trace = .new s.futs.length (.task none) :: .top s.topIdx conv :: s.trace := by
    rw [hr, newTask_nil, hact0, hs0]; rfl
  have hgl : g s.futs.length = none := g_none_of_ge hS (Nat.le_refl _)
  have hgo : ∀ u, u < s.futs.length → topG g s.futs.length ⟨s.topIdx, [], body, [], []⟩ u = g u := by
    intro u hu; unfold topG; rw [if_neg (by omega)]
  have hgn : topG g s.futs.length ⟨s.topIdx, [], body, [], []⟩ s.futs.length = some ⟨s.topIdx, [], body, [], []⟩ := by
    unfold topG; simp
  have hmono : ∀ u iu, g u = some iu → topG g s.futs.length ⟨s.topIdx, [], body, [], []⟩ u = some iu := by
    intro u iu h
    rw [hgo u (lt_of_task s u (hS.dom u iu h))]; exact h
  -- a task of `r` is an old task or the new one
  have hcase : ∀ u, (r.fut u).kind = .task → u < s.futs.length ∨ u = s.futs.length := by
    intro u hk
    have := lt_of_task r u hk
    omega
  have hmr : ∀ u, mreads u r.trace = mreads u s.trace := by
    intro u; rw [htr, mreads_cons_none rfl, mreads_cons_none rfl]
  have hroots : roots r.trace = roots s.trace ++ [s.futs.length] := by
    rw [htr]
    show roots ([.new s.futs.length (.task none), .top s.topIdx conv] ++ s.trace) = _
    rw [roots_append]; rfl
  have hovOf : ∀ c, ovOf r c = ovOf s c := by intro c; unfold ovOf P7.kindOf; rw [hctxs]
  have hkidOld : ∀ f, f < s.futs.length →
      kidOf r (topG g s.futs.length ⟨s.topIdx, [], body, [], []⟩) f = kidOf s g f := by
    intro f hf
    refine kidOf_congr (hgo f hf) (by rw [hold f hf]) ?_
    intro _ hk
    rw [holdT f hf, hS.inh f hk]
    exact ⟨rfl, rfl⟩
  have hrest : ∀ u E, u < s.futs.length → (s.fut u).kind = .task →
      rest cfg r (topG g s.futs.length ⟨s.topIdx, [], body, [], []⟩) u E = rest cfg s g u E := by
    intro u E hu hk
    cases hcu : s.computed u with
    | true =>
      have hcr : r.computed u = true := by rw [holdC u hu]; exact hcu
      unfold rest; rw [hcu, hcr]; rfl
    | false =>
      refine rest_congr cfg E (holdC u hu) (by rw [holdT u hu]) (fun f hf => by rw [hold f (hB.own u f hf)]) ?_ ?_ ?_
        (fun c _ => hovOf c)
      · rw [hS.inh u hk]; intro f hf; cases hf
      · intro f k h hb; rw [hold f (hB.sync u f k h hb hcu)]
      · intro f hf; exact hkidOld f (hB.own u f hf)
  have hnewF : NewFut (r.fut s.futs.length) body := by rw [hnew]; exact spawnFut_new s0 hnsb hnsy
  have hnewT : r.task s.futs.length = (spawnFut s0 body).ts := by unfold State.task; rw [hnew]
  have hnewC : r.computed s.futs.length = false := by simp [State.computed, State.out, hnew, spawnFut]
  have hnoread : mreads s.futs.length s.trace = [] := by
    apply mreads_nil_of
    intro e he
    cases e with
    | read u' var v =>
      simp only [rdEv]
      rw [if_neg]
      intro e'
      have := hS.rdLt u' var v he
      omega
    | _ => rfl
  have htopsEq : tops[s.topIdx]? = some (conv, body) := by
    have := hS.tops
    rw [htops] at this
    have h2 : (tops.drop s.topIdx)[0]? = some (conv, body) := by rw [← this]; rfl
    rw [List.getElem?_drop] at h2
    simpa using h2
  refine
    { dom := ?_, unst := ?_, fresh := ?_, called := ?_, split := ?_, path := ?_, env := ?_, waits := ?_, root := ?_,
      rootTr := ?_, rootLen := ?_, cur := ?_, ownInj := ?_, inh := ?_, nsB := ?_, tops := ?_, sync := ?_, rdLt := ?_,
      depsCalled := ?_, prevCalled := ?_ }
  · intro u iu hg'
    unfold topG at hg'
    split at hg'
    · next hu => rw [hu]; exact hnewF.kind
    · have hk := hS.dom u iu hg'
      rw [hold u (lt_of_task s u hk)]; exact hk
  · intro u hk hg'
    rcases hcase u hk with hu | hu
    · rw [hold u hu] at hk
      rw [hgo u hu] at hg'
      rw [holdT u hu]; exact hS.unst u hk hg'
    · rw [hu, hgn] at hg'; cases hg'
  · intro u hk hst
    rcases hcase u hk with hu | hu
    · rw [hold u hu] at hk
      rw [holdT u hu] at hst ⊢
      obtain ⟨hf, hc, hm⟩ := hS.fresh u hk hst
      exact ⟨hf, by rw [holdC u hu]; exact hc, by rw [hmr]; exact hm⟩
    · rw [hu]
      exact ⟨hnewF.fresh, hnewC, by rw [hmr]; exact hnoread⟩
  · intro u iu hg' hst
    unfold topG at hg'
    split at hg'
    · next hu =>
      rw [hu, hnewT, ← Option.some.inj hg']
      exact ⟨rfl, rfl⟩
    · have hk := hS.dom u iu hg'
      have hu := lt_of_task s u hk
      rw [holdT u hu] at hst ⊢
      obtain ⟨ha, hb⟩ := hS.called u iu hg' hst
      refine ⟨ha, ?_⟩
      rw [hb, hS.inh u hk]; rfl
  · intro u iu hg'
    unfold topG at hg'
    split at hg'
    · next hu =>
      rw [hu]
      refine ⟨[], ?_, by rw [hmr, hnoread]; rfl, fun _ _ _ _ h => by cases h⟩
      rw [rest_fresh cfg r _ s.futs.length iu.E hnewF.fresh hnewF.started hnewC, hnewT, ← Option.some.inj hg']
      rfl
    · have hk := hS.dom u iu hg'
      have hu := lt_of_task s u hk
      obtain ⟨pre, hp, hrd, hcl⟩ := hS.split u iu hg'
      refine ⟨pre, by rw [hrest u _ hu hk]; exact hp, by rw [hmr]; exact hrd, ?_⟩
      intro i c ci E' hm
      obtain ⟨v, iv, h1, h2, h3⟩ := hcl i c ci E' hm
      exact ⟨v, iv, by rw [holdT u hu]; exact h1, hmono v iv h2, h3⟩
  · intro p i u iu hk ho hg'
    rcases hcase p hk with hp | hp
    · rw [hold p hp] at hk
      rw [holdT p hp] at ho
      have hu := hB.own p u (List.mem_of_getElem? ho)
      rw [hgo u hu] at hg'
      obtain ⟨ip, hgp, h1, h2, h3⟩ := hS.path p i u iu hk ho hg'
      exact ⟨ip, hmono p ip hgp, h1, h2, h3⟩
    · rw [hp, hnewT] at ho; cases ho
  · intro p i u iu ip hk ho hg' hgp hc
    rcases hcase p hk with hp | hp
    · rw [hold p hp] at hk
      rw [holdT p hp] at ho ⊢
      have hu := hB.own p u (List.mem_of_getElem? ho)
      rw [hgo u hu] at hg'
      rw [hgo p hp] at hgp
      rw [holdC u hu] at hc
      rw [envOf_congr ip.E (fun c _ => hovOf c)]
      exact hS.env p i u iu ip hk ho hg' hgp hc
    · rw [hp, hnewT] at ho; cases ho
  · intro p i u hk ho hg' hc
    rcases hcase p hk with hp | hp
    · rw [hold p hp] at hk
      rw [holdT p hp] at ho ⊢
      have hu := hB.own p u (List.mem_of_getElem? ho)
      rw [hgo u hu] at hg'
      rw [holdC u hu] at hc
      rw [holdC p hp]
      exact hS.waits p i u hk ho hg' hc
    · rw [hp, hnewT] at ho; cases ho
  · intro u iu hg' hρ
    unfold topG at hg'
    split at hg'
    · rw [← Option.some.inj hg']
      exact ⟨rfl, rfl, conv, htopsEq⟩
    · exact hS.root u iu hg' hρ
  · intro k r' hk
    rw [hroots] at hk
    rcases Nat.lt_or_ge k (roots s.trace).length with h | h
    · rw [List.getElem?_append_left h] at hk
      obtain ⟨iu, hg, h1, h2⟩ := hS.rootTr k r' hk
      exact ⟨iu, hmono r' iu hg, h1, h2⟩
    · rw [List.getElem?_append_right h] at hk
      have hk0 : k - (roots s.trace).length = 0 := by
        rcases Nat.eq_zero_or_pos (k - (roots s.trace).length) with h0 | h0
        · exact h0
        · rw [List.getElem?_eq_none (by simp; omega)] at hk; cases hk
      rw [hk0] at hk
      simp only [List.getElem?_cons_zero, Option.some.injEq] at hk
      subst hk
      refine ⟨_, hgn, ?_, rfl⟩
      show s.topIdx = k
      have := hS.rootLen
      omega
  · rw [hroots]
    have : r.topIdx = s.topIdx + 1 := by rw [hr, newTask_nil, hs0]; rfl
    rw [this, List.length_append, hS.rootLen]; rfl
  · intro r' hr'
    have : r.curTop = some s.futs.length := by rw [hr]
    rw [this] at hr'
    rw [← Option.some.inj hr']
    exact ⟨_, hgn, rfl⟩
  · intro p q i j u hkp hkq hop hoq
    rcases hcase p hkp with hp | hp
    · rcases hcase q hkq with hq | hq
      · rw [hold p hp] at hkp
        rw [hold q hq] at hkq
        rw [holdT p hp] at hop
        rw [holdT q hq] at hoq
        exact hS.ownInj p q i j u hkp hkq hop hoq
      · rw [hq, hnewT] at hoq; cases hoq
    · rw [hp, hnewT] at hop; cases hop
  · intro u hk
    rcases hcase u hk with hu | hu
    · rw [hold u hu] at hk; rw [holdT u hu]; exact hS.inh u hk
    · rw [hu]; exact hnewF.inh
  · intro u hk
    rcases hcase u hk with hu | hu
    · rw [hold u hu] at hk; rw [holdT u hu]; exact hS.nsB u hk
    · rw [hu]
      show nsBC (r.fut s.futs.length).ts.body (r.fut s.futs.length).ts.conts
      rw [hnewF.body, hnewF.conts]
      exact nsBC_plain hnsb hnsy (by intro c hc; cases hc)
  · have h1 : r.tops = rest0 := by rw [hr, newTask_nil, hs0]; rfl
    have h2 : r.topIdx = s.topIdx + 1 := by rw [hr, newTask_nil, hs0]; rfl
    rw [h1, h2]
    have := hS.tops
    rw [htops] at this
    rw [← List.drop_drop, ← this]
    rfl
  · intro p f k h hk hb hc
    rcases hcase p hk with hp | hp
    · rw [hold p hp] at hk
      rw [holdT p hp] at hb ⊢
      rw [holdC p hp] at hc
      obtain ⟨h1, h2⟩ := hS.sync p f k h hk hb hc
      have hf := hB.own p f h1
      refine ⟨h1, fun hkf => ?_⟩
      rw [hold f hf] at hkf
      rw [hgo f hf]; exact h2 hkf
    · rw [hp] at hb
      exact absurd hb (hnewF.fresh.nosync f k h)
  · intro u var v hm
    rw [htr] at hm
    simp only [List.mem_cons] at hm
    rcases hm with h | h | h
    · cases h
    · cases h
    · have := hS.rdLt u var v h; omega
  · intro p d hk hd hkd
    rcases hcase p hk with hp | hp
    · rw [hold p hp] at hk
      rw [holdT p hp] at hd
      have hdl := hB.deps p d hd
      rw [hold d hdl] at hkd
      rw [hgo d hdl]; exact hS.depsCalled p d hk hd hkd
    · rw [hp, hnewT] at hd; cases hd
  · intro p d hk hd hkd
    rcases hcase p hk with hp | hp
    · rw [hold p hp] at hk
      rw [holdT p hp] at hd
      have hdl := hB.prevY p d hd
      rw [hold d hdl] at hkd
      rw [hgo d hdl]; exact hS.prevCalled p d hk hd hkd
    · rw [hp, hnewT] at hd; cases hd

/-! ### every reachable state -/

theorem sim_init (cfg : Cfg) (tops : List (Conv × Body)) (choices : List (Nat × Nat)) :
    Sim cfg tops (initState cfg tops choices) (fun _ => none) := by
  have hk : ∀ u, ((initState cfg tops choices).fut u).kind ≠ .task := by
    intro u h
    have : (initState cfg tops choices).fut u = {} := by simp [initState, State.fut]
    rw [this] at h; cases h
  refine
    { dom := ?_, unst := ?_, fresh := ?_, called := ?_, split := ?_, path := ?_, env := ?_, waits := ?_, root := ?_,
      rootTr := ?_, rootLen := rfl, cur := ?_, ownInj := ?_, inh := ?_, nsB := ?_, tops := rfl, sync := ?_, rdLt := ?_,
      depsCalled := ?_, prevCalled := ?_ }
  · intro u iu h; cases h
  · intro u h; exact absurd h (hk u)
  · intro u h; exact absurd h (hk u)
  · intro u iu h; cases h
  · intro u iu h; cases h
  · intro p i u iu h; exact absurd h (hk p)
  · intro p i u iu ip h; exact absurd h (hk p)
  · intro p i u h; exact absurd h (hk p)
  · intro u iu h; cases h
  · intro k r h; cases h
  · intro r h; cases h
  · intro p q i j u h; exact absurd h (hk p)
  · intro u h; exact absurd h (hk u)
  · intro u h; exact absurd h (hk u)
  · intro p f k h h'; exact absurd h' (hk p)
  · intro u var v h; cases h
  · intro p d h; exact absurd h (hk p)
  · intro p d h; exact absurd h (hk p)

theorem cfg_reach {cfg : Cfg} {tops : List (Conv × Body)} {choices : List (Nat × Nat)} {s : State}
    (h : P4.ReachW cfg tops choices s) : s.cfg = cfg := by
  induction h with
  | init _ => rfl
  | step _ ih => rw [P4.step_cfg]; exact ih

/-- the bounds, from the heap invariants of the library -/
theorem bnd_reach {cfg : Cfg} {tops : List (Conv × Body)} {choices : List (Nat × Nat)} {s : State}
    (h : P4.ReachW cfg tops choices s) (hs : s.stuck = none) (hg : s.guardFired = false)
    (hn : Inv.noNonAsync s = true) : Bnd s := by
  have G := P4.good_reach h hs hg hn
  have hws := P17.wsreach_of_reachW h
  have hi := (P10.ws_hinv hws).1
  have good := P7.good_of_reach hws.reach hg (P7.na_of_noNonAsync hn)
  refine ⟨fun u f hf => G.fi.ownLt u f hf, ?_, ?_, fun u d hd => hi.named_bound (hi.deps u d hd),
    fun u d hd => hi.named_bound (hi.prevY u d hd)⟩
  · intro u f k h' hb hc
    exact G.fi.syncLt u f k h' (by simpa [State.computed, State.out] using hc) hb
  · intro u c hc
    exact good.i.j.cbound u c hc

/-- **one step of the machine preserves the simulation invariant**; the ghost only grows -/
theorem sim_step {cfg : Cfg} {tops : List (Conv × Body)} {choices : List (Nat × Nat)} {s : State} {g : Ghost}
    (h : P4.ReachW cfg tops choices s) (hns : ∀ p ∈ tops, ns p.2 = true) (hs : (step s).stuck = none)
    (hg : (step s).guardFired = false) (hn : Inv.noNonAsync (step s) = true) (hS : Sim cfg tops s g) :
    ∃ g', Sim cfg tops (step s) g' ∧ GExt g g' := by
  obtain ⟨m1, m2, m3⟩ := C01_hyps_mono s
  have hs0 := m1 hs
  have hg0 := m2 hg
  have hn0 := m3 hn
  have hB := bnd_reach h hs0 hg0 hn0
  have G := P4.good_reach h hs0 hg0 hn0
  have hws := P17.wsreach_of_reachW h
  have hna := P7.na_of_noNonAsync hn0
  have good := P7.good_of_reach hws.reach hg0 hna
  have hr := G.ci.raising
  have hitems := (P2.pinv_reach hws.reach).items
  have hstk : s.stuck.isSome = false := by rw [hs0]; rfl
  cases hctl : s.ctl with
  | nil =>
    have e : step s = match s.curTop with
        | some f => s.finishTop f
        | none =>
          match s.tops with
          | [] => s
          | (conv, body) :: rest0 =>
            { (({ s with tops := rest0, topIdx := s.topIdx + 1 } : State).emit (.top s.topIdx conv)).newTask body [] |>.1 with
              curTop := some s.futs.length, ctl := [.waitEnter s.futs.length] } := by
      unfold step
      simp only [hstk, Bool.false_eq_true, if_false, hctl]
      rfl
    rw [e]
    cases hcur : s.curTop with
    | some f => exact ⟨g, sim_finishTop hS hB f, GExt.refl g⟩
    | none =>
      simp only
      cases htops : s.tops with
      | nil => exact ⟨g, hS, GExt.refl g⟩
      | cons p rest0 =>
        obtain ⟨conv, body⟩ := p
        simp only
        have hact : s.active = none := by
          have ha := good.co.active
          rw [hctl] at ha
          simpa [Inv.gensOf, Inv.activeChain] using ha
        have hmem : (conv, body) ∈ tops := by
          have h1 : (conv, body) ∈ s.tops := by rw [htops]; exact List.mem_cons_self
          rw [hS.tops] at h1
          exact List.mem_of_mem_drop h1
        have hwt : P4.wsTop body = true := G.tops (conv, body) (by rw [htops]; exact List.mem_cons_self)
        refine ⟨_, sim_top hS hB hact conv body rest0 htops (hns _ hmem) (P4.ws_not_syncret hwt), ?_⟩
        intro u iu hgu
        unfold topG
        rw [if_neg]
        · exact hgu
        · intro e'
          have := lt_of_task s u (hS.dom u iu hgu)
          omega
  | cons c rest0 =>
    cases c with
    | waitEnter root =>
      exact ⟨g, sim_sm hS hB (sm_step_wait s hn0 hitems (.inl ⟨root, rest0, hctl⟩)), GExt.refl g⟩
    | waitLoop root base =>
      exact ⟨g, sim_sm hS hB (sm_step_wait s hn0 hitems (.inr ⟨root, base, rest0, hctl⟩)), GExt.refl g⟩
    | gen t old =>
      have e : step s = s.genStep t old := by
        unfold step
        simp only [hstk, Bool.false_eq_true, if_false, hctl, hr, Option.isSome_none, Bool.false_and]
      rw [e]
      have hst : (s.genStep t old).stuck = none := by rw [← e]; exact hs
      have run := good.running hctl
      have C : GC cfg tops s g t old rest0 :=
        ⟨hS, hB, G, hctl, cfg_reach h, run.active, running_called hS hws hg0 hna hctl, hitems, hn0⟩
      exact sim_genStep C hst (fun var k ip _ _ hip => running_env hS hws hg0 hna hctl hip var)

theorem sim_reach {cfg : Cfg} {tops : List (Conv × Body)} {choices : List (Nat × Nat)} {s : State}
    (h : P4.ReachW cfg tops choices s) (hns : ∀ p ∈ tops, ns p.2 = true) (hs : s.stuck = none)
    (hg : s.guardFired = false) (hn : Inv.noNonAsync s = true) : ∃ g, Sim cfg tops s g := by
  induction h with
  | init _ => exact ⟨_, sim_init cfg tops choices⟩
  | @step s h ih =>
    obtain ⟨m1, m2, m3⟩ := C01_hyps_mono s
    obtain ⟨g, hS⟩ := ih (m1 hs) (m2 hg) (m3 hn)
    obtain ⟨g', hS', _⟩ := sim_step h hns hs hg hn hS
    exact ⟨g', hS'⟩

end AsynqModel.Core.P22
