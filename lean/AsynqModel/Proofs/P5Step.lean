import AsynqModel.Proofs.P5With
/-!
  P5: the invariant `I = J ∧ G` is preserved by every step of the machine and holds on all reachable states.
-/
namespace AsynqModel.Core.P5
open AsynqModel.Core

structure I (s : State) : Prop where
  j : J s [] []
  g : G s
  d : D s

theorem I_ext {s s' : State} (i : I s) (e : Ext s s') (hg : Inv.gensOf s'.ctl = Inv.gensOf s.ctl)
    (ha : s'.active = s.active ∨ s'.active = none) : I s' :=
  ⟨J_ext e i.j, G_stay' i.g e.mono hg ha, D_mono i.d e.mono⟩

theorem I_fail {s : State} (i : I s) (m : String) : I (s.fail m) := I_ext i (ext_fail ..) rfl (.inl rfl)

theorem ext_newTask (s : State) (child : Body) (inh : List Nat) : Ext s (s.newTask child inh).1 := by
  unfold State.newTask
  exact ext_alloc _ _ _ rfl rfl rfl rfl rfl

theorem MonoX.trans_mono {t : Nat} {s s' s'' : State} (h : MonoX t s s') (h' : Mono s' s'') : MonoX t s s'' := by
  refine ⟨h'.cfg.trans h.cfg, Nat.le_trans h.len h'.len, ?_, fun f hf => h'.comp f (h.comp f hf), ?_, ?_,
    fun u hu hs => h.tsched u hu (h'.tsched u hs)⟩
  · intro u hu
    rcases h'.tdeps u with h1 | h1
    · rw [h1]; exact h.tdeps u hu
    · exact .inr h1
  · intro f hf; rw [h'.kind f (Nat.lt_of_lt_of_le hf h.len), h.kind f hf]
  · intro u hu; rw [h'.tact u, h.tact u hu]

/-- any update of task `t` itself -/
theorem monoX_updTask (s : State) (t : Nat) (g : TaskSt → TaskSt) : MonoX t s (s.updTask t g) :=
  ⟨rfl, by simp, fun u hu => .inl (by rw [task_updTask_ne _ _ _ _ hu]), fun f hf => by rw [computed_updTask]; exact hf,
    fun f _ => kind_updTask .., fun u hu => by rw [task_updTask_ne _ _ _ _ hu],
    fun u hu => by rw [task_updTask_ne _ _ _ _ hu]; exact id⟩

/-! ### `_continue_with_task` returns -/

theorem I_leaveGen {s0 s : State} (t : Nat) (old : Option Nat) (rest : List Ctl) (i0 : I s0)
    (hc : s0.ctl = .gen t old :: rest) (j : J s [] []) (m : MonoX t s0 s) (hs : s.ctl = s0.ctl) :
    I (s.leaveGen t old) := by
  have g0 := i0.g
  unfold State.leaveGen
  have h1 : Mono s (s.updTask t fun ts => { ts with depsSched := false }) :=
    mono_updTask _ _ _ (fun _ => rfl) (fun _ => .inl rfl) (fun _ h => (by cases h))
  refine ⟨?_, ?_, ?_⟩
  rotate_left 2
  · refine D_monoX t i0.d (m.trans_mono (s' := s) (h1.trans (Mono.of_eq rfl rfl))) ?_
    intro hd
    exfalso
    have : ((s.updTask t fun ts => { ts with depsSched := false }).task t).depsSched = false := by
      rw [task_updTask]
      split
      · rfl
      · next hne =>
        have hlt : ¬ t < s.futs.length := fun h => hne ⟨rfl, h⟩
        rw [task_default s t (Nat.le_of_not_lt hlt)]
    rw [show ∀ (x : State) (c : List Ctl) (a : Option Nat), ({ x with ctl := c, active := a } : State).task t = x.task t
      from fun _ _ _ => rfl] at hd
    rw [this] at hd; cases hd
  · refine J_congr (s := s.updTask t fun ts => { ts with depsSched := false }) rfl rfl rfl ?_
    exact J_ext (ext_updTask _ _ _ (fun _ => rfl) (fun _ => rfl) (fun _ => rfl) (fun _ => .inl rfl) (fun _ h => (by first | exact h | cases h))) j
  · refine G_pop t old rest g0 (m.trans_mono (s' := s) ?_) hc (by simp [hs, hc]) rfl
    have h1 : Mono s (s.updTask t fun ts => { ts with depsSched := false }) :=
      mono_updTask _ _ _ (fun _ => rfl) (fun _ => .inl rfl) (fun _ h => (by first | exact h | cases h))
    exact h1.trans (Mono.of_eq rfl rfl)

theorem I_finishTask {s : State} (t : Nat) (old : Option Nat) (rest : List Ctl) (o : Outcome) (i : I s)
    (hc : s.ctl = .gen t old :: rest) : I (s.finishTask t old o) := by
  unfold State.finishTask
  split
  · exact I_fail i _
  · refine I_leaveGen t old rest i hc ?_ ?_ ?_
    · refine J_ext (ext_complete ..) ?_
      refine J_ext (ext_updTask _ _ _ (fun _ => rfl) (fun _ => rfl) (fun _ => rfl) (fun _ => .inl rfl) (fun _ h => (by first | exact h | cases h))) ?_
      exact J_exitAll t i.j
    · refine Mono.monoX t ?_
      refine Mono.trans ?_ (ext_complete ..).mono
      refine Mono.trans ?_ (mono_updTask _ _ _ (fun _ => rfl) (fun _ => .inl rfl) (fun _ h => (by first | exact h | cases h)))
      exact mono_exitAll s t
    · exact (((same_exitAll s t).trans (same_updTask ..)).trans (same_complete ..)).ctl

/-! ### yield -/

theorem I_yield {s : State} (t : Nat) (old : Option Nat) (rest : List Ctl) (e : Event) (he : silent e = true)
    (g : TaskSt → TaskSt) (deps : List Nat) (i : I s) (hc : s.ctl = .gen t old :: rest)
    (h1 : ∀ x, (g x).ctxs = x.ctxs) (h2 : ∀ x, (g x).ctxActive = x.ctxActive) (h3 : ∀ x, (g x).conts = x.conts)
    (h4 : ∀ x, (g x).deps = deps) (h5 : ∀ x, (g x).depsSched = x.depsSched) :
    I (if deps.isEmpty then (s.emit e).updTask t g else ((s.emit e).updTask t g).leaveGen t old) := by
  have j1 : J ((s.emit e).updTask t g) [] [] :=
    J_neutral ((ext_emit s e he).neutral.trans (neutral_updTask _ _ _ h1 h2 h3)) i.j
  have m1 : MonoX t s ((s.emit e).updTask t g) := by
    have := monoX_updTask (s.emit e) t g
    exact ⟨this.cfg, this.len, this.tdeps, this.comp, this.kind, this.tact, this.tsched⟩
  split
  · next hemp =>
    have hlt0 : t < s.futs.length := (i.g.gens t old (by rw [hc, gensOf_cons_gen]; simp)).1
    refine ⟨j1, G_stay t i.g m1 rfl (.inl rfl) ?_, D_monoX t i.d m1 ?_⟩
    rotate_left
    · rw [task_updTask_self _ _ _ (by simpa using hlt0), h2, h5]; exact i.d t
    intro o ho
    obtain ⟨hlt, hact, _⟩ := i.g.gens t o ho
    rw [task_updTask_self _ _ _ (by simpa using hlt), h2, h4]
    refine ⟨hact, ?_⟩
    rw [List.isEmpty_iff] at hemp
    rw [hemp]; rfl
  · exact I_leaveGen t old rest i hc j1 m1 rfl

/-! ### entering and leaving a with-block -/

theorem I_withCtx {s : State} (t : Nat) (old : Option Nat) (rest : List Ctl) (c : CtxKind) (k b : Body) (i : I s)
    (hc : s.ctl = .gen t old :: rest) (s0 : State) (h0f : s0.futs = s.futs) (h0c : s0.ctxs = s.ctxs)
    (h0t : s0.trace = s.trace) (h0s : Same s s0) (h0cfg : s0.cfg = s.cfg) :
    I ((if c == .nonasync then newCtx s0 s.ctxs.length t c
        else (newCtx s0 s.ctxs.length t c).ctxResumeOne s.ctxs.length).updTask t
          fun ts => { ts with conts := (s.ctxs.length, k) :: ts.conts, body := b }) := by
  have ht : t < s.futs.length := (i.g.gens t old (by rw [hc, gensOf_cons_gen]; simp)).1
  have j0 : J s0 [] [] := J_congr h0f h0c h0t i.j
  have hcid : s.ctxs.length = s0.ctxs.length := by rw [h0c]
  have htask : ∀ u, s0.task u = s.task u := fun u => by simp [State.task, State.fut, h0f]
  have hactive : ∀ a, s0.active = some a → a < s0.futs.length ∧ (s0.task a).ctxActive = true := by
    intro a ha
    rw [h0s.active] at ha
    rw [h0f, htask]
    exact i.g.active_mem a ha
  have j1 := J_newCtx s.ctxs.length t c j0 hcid hactive
  have hent := newCtx_entry s0 s.ctxs.length t c hcid
  have hfresh0 : ∀ u, s.ctxs.length ∉ ((newCtx s0 s.ctxs.length t c).task u).conts.map (·.1) := by
    intro u hm
    rw [conts_newCtx, htask] at hm
    have := i.j.cbound u _ hm
    omega
  have m0 : Mono s s0 := Mono.of_eq h0f h0cfg
  have m1 : Mono s (if c == .nonasync then newCtx s0 s.ctxs.length t c
      else (newCtx s0 s.ctxs.length t c).ctxResumeOne s.ctxs.length) := by
    split
    · exact m0.trans (mono_newCtx ..)
    · exact (m0.trans (mono_newCtx ..)).trans (mono_flag (flagOp_resume ..))
  have m2 := m1.trans (mono_updTask _ t (fun ts => { ts with conts := (s.ctxs.length, k) :: ts.conts, body := b })
    (fun _ => rfl) (fun _ => .inl rfl) (fun _ h => h))
  refine ⟨?_, ?_, D_mono i.d m2⟩
  · by_cases hk : c = .nonasync
    · subst hk
      simp only [beq_self_eq_true, if_true] at j1 ⊢
      exact J_pushCont t _ k _ j1 (fun _ => rfl) (fun _ => rfl) (fun _ => rfl) hfresh0 _ hent (fun h => absurd rfl h)
    · have hk' : (c == CtxKind.nonasync) = false := by simpa using hk
      simp only [hk', hk, if_false, Bool.false_eq_true] at j1 ⊢
      have hf := flagOp_resume (newCtx s0 s.ctxs.length t c) s.ctxs.length
      have j2 := J_flag hf j1 _ hent hk rfl (fun _ _ => by simp) (.inr (.inr (.inl rfl)))
      simp only [List.filter_cons, bne_self_eq_false, Bool.false_eq_true, if_false, List.filter_nil] at j2
      obtain ⟨x', hx', hk2, ho2, hr2⟩ := hf.eq _ hent
      refine J_pushCont t _ k _ j2 (fun _ => rfl) (fun _ => rfl) (fun _ => rfl) ?_ x' hx' ?_
      · intro u; rw [hf.task]; exact hfresh0 u
      · intro _
        rw [ho2]
        simp only
        cases ha : s0.active with
        | none => simpa using hr2
        | some a =>
          simp only
          rw [hf.task]
          exact newCtx_registered s0 _ t c a ha (hactive a ha).1
  · have c1 : Same s (if c == .nonasync then newCtx s0 s.ctxs.length t c
        else (newCtx s0 s.ctxs.length t c).ctxResumeOne s.ctxs.length) := by
      split
      · exact h0s.trans (same_newCtx ..)
      · exact (h0s.trans (same_newCtx ..)).trans (same_resumeOne ..)
    refine G_stay' i.g m2 ?_ (.inl ?_)
    · rw [updTask_ctl, c1.ctl]
    · rw [updTask_active, c1.active]

theorem I_endwith {s : State} (t cid : Nat) (k : Body) (cs : List (Nat × Body))
    (i : I s) (hconts : (s.task t).conts = (cid, k) :: cs) :
    I ((s.ctxExit cid).updTask t fun ts => { ts with conts := cs, body := k }) := by
  have m2 := (mono_ctxExit s cid).trans (mono_updTask _ t (fun ts => { ts with conts := cs, body := k })
    (fun _ => rfl) (fun _ => .inl rfl) (fun _ h => h))
  refine ⟨?_, ?_, D_mono i.d m2⟩
  · have j1 := J_ctxExit t cid i.j (by rw [hconts]; simp) (by simp)
    have hnd := i.j.cnodup t
    rw [hconts, List.map_cons, List.nodup_cons] at hnd
    refine J_setConts t _ j1 (fun _ => rfl) (fun _ => rfl) ?_ ?_
    · rw [conts_ctxExit, hconts]; simp
    · intro c hc
      simp at hc; subst hc
      rw [conts_ctxExit, hconts]
      exact ⟨by simp, hnd.1⟩
  · refine G_stay' i.g m2 ?_ (.inl ?_)
    · rw [updTask_ctl, (same_ctxExit s cid).ctl]
    · rw [updTask_active, (same_ctxExit s cid).active]

/-! ### one instruction of a task body -/

theorem ext_withCtl (s : State) (c : List Ctl) : Ext s { s with ctl := c } := Ext.of_eq rfl rfl rfl rfl rfl
theorem ext_withRaising (s : State) (r : Option Err) : Ext s { s with raising := r } := Ext.of_eq rfl rfl rfl rfl rfl
theorem ext_withBatches (s : State) (b : List Batch) : Ext s { s with batches := b } := Ext.of_eq rfl rfl rfl rfl rfl

macro "p5_deps_tac" : tactic =>
  `(tactic| first | exact .inl rfl | exact .inr rfl | (split <;> simp) | (simp only []; split <;> simp))

macro "p5_ext_step" : tactic => `(tactic| first
  | exact Ext.refl _
  | refine Ext.trans ?_ (ext_complete ..)
  | refine Ext.trans ?_ (ext_popStack _)
  | refine Ext.trans ?_ (ext_emit _ _ (by rfl))
  | refine Ext.trans ?_ (ext_updTask _ _ _ (fun _ => rfl) (fun _ => rfl) (fun _ => rfl) (fun _ => by p5_deps_tac)
      (fun _ h => (by first | exact h | cases h)))
  | refine Ext.trans ?_ (ext_newTask ..)
  | refine Ext.trans ?_ (ext_alloc _ _ _ rfl rfl rfl rfl rfl)
  | refine Ext.trans ?_ (ext_appendFut _ _ rfl rfl rfl rfl rfl)
  | refine Ext.trans ?_ (ext_updBatch ..)
  | refine Ext.trans ?_ (ext_flushBatch ..)
  | refine Ext.trans ?_ (ext_fail ..)
  | refine Ext.trans ?_ (ext_withCtl _ _)
  | refine Ext.trans ?_ (ext_withRaising _ _)
  | refine Ext.trans ?_ (ext_withBatches _ _)
  | exact Ext.of_eq rfl rfl rfl rfl rfl)

macro "p5_ext_close" i:ident : tactic => `(tactic| (
  refine I_ext $i ?_ ?_ (.inl ?_)
  · repeat p5_ext_step
  · first | rfl | exact gensOf_cons_waitEnter _ _ | exact congrArg Inv.gensOf (same_flushBatch _ _ _).ctl
  · first | rfl | exact (same_flushBatch _ _ _).active))

theorem I_genStep {s : State} (t : Nat) (old : Option Nat) (rest : List Ctl) (i : I s)
    (hc : s.ctl = .gen t old :: rest) : I (s.genStep t old) := by
  unfold State.genStep
  simp only []
  split
  · split
    · p5_ext_close i
    · split
      · p5_ext_close i
      · p5_ext_close i
      · p5_ext_close i
      · p5_ext_close i
      · p5_ext_close i
  · split
    · exact I_finishTask t old rest _ i hc
    · exact I_finishTask t old rest _ i hc
    · exact I_finishTask t old rest _ i hc
    · exact I_finishTask t old rest _ i hc
    · p5_ext_close i
    · -- item
      rename_i kind payload mode k heq
      cases hcb : s.curBatch? kind with
      | none =>
        simp only []
        split
        · p5_ext_close i
        · p5_ext_close i
      | some b0 =>
        simp only []
        split
        · p5_ext_close i
        · p5_ext_close i
    · p5_ext_close i
    · p5_ext_close i
    · p5_ext_close i
    · exact I_yield t old rest _ (by rfl) _ _ i hc (fun _ => rfl) (fun _ => rfl) (fun _ => rfl) (fun _ => rfl) (fun _ => rfl)
    · exact I_yield t old rest _ (by rfl) _ _ i hc (fun _ => rfl) (fun _ => rfl) (fun _ => rfl) (fun _ => rfl) (fun _ => rfl)
    · p5_ext_close i
    · -- syncfut
      repeat' split
      all_goals p5_ext_close i
    · -- syncret
      repeat' split
      all_goals p5_ext_close i
    · -- withCtx
      refine I_withCtx t old rest _ _ _ i hc _ ?_ ?_ ?_ ?_ ?_
      · split <;> simp
      · split <;> simp
      · split <;> simp
      · split
        · exact same_svTouch ..
        · exact Same.refl s
      · split <;> simp
    · -- endwith
      split
      · exact I_finishTask t old rest _ i hc
      · next heq => exact I_endwith t _ _ _ i heq
    · -- read
      rename_i var k heq
      have i0 : I (s.svTouch var) :=
        ⟨J_congr (by simp) (by simp) (by simp) i.j,
          G_stay' i.g (Mono.of_eq (by simp) (by simp)) (by simp) (.inl (by simp)),
          D_mono i.d (Mono.of_eq (by simp) (by simp))⟩
      p5_ext_close i0
    · p5_ext_close i

end AsynqModel.Core.P5
