import AsynqModel.Proofs.P12Step
/-!
  P12: the labelled task stack.  Every entry of the task stack is labelled with its PARENT: the task on whose behalf it
  was pushed - a suspended task one of whose `_dependencies` it is (first visit of `_handle_async_task`), or the task
  whose generator called `wait_for` on it (`_execute(root)` pushes `root`).  The entry directly above its parent's
  entry, and the entries that share a label, are adjacent.  Consequences:
  * every label waits (`awaitsStar`) for the top of the stack;
  * the labels grow (`P10.le`) from the top of the stack downwards and every entry precedes (`P10.lt`) its label, so no
    label is the task on top of the stack - the only task whose state a step changes.
-/
namespace AsynqModel.Core.P12
open AsynqModel.Core P5 P7

/-! ### `edgeIn` -/

theorem isWait_not_gen {t : Nat} {old : Option Nat} {u : Nat} : ¬ isWait (.gen t old) u := by
  rintro (h | ⟨b, h⟩) <;> cases h

theorem edgeIn_cons {c : List Ctl} {p u : Nat} (x : Ctl) (h : edgeIn c p u) : edgeIn (x :: c) p u := by
  obtain ⟨pre, w, old, post, e, hw⟩ := h
  exact ⟨x :: pre, w, old, post, by rw [e]; rfl, hw⟩

theorem edgeIn_head {w : Ctl} {u p : Nat} (old : Option Nat) (rest : List Ctl) (hw : isWait w u) :
    edgeIn (w :: .gen p old :: rest) p u := ⟨[], w, old, rest, rfl, hw⟩

theorem edgeIn_cons_inv {x : Ctl} {c : List Ctl} {p u : Nat} (h : edgeIn (x :: c) p u) :
    edgeIn c p u ∨ (isWait x u ∧ ∃ old post, c = .gen p old :: post) := by
  obtain ⟨pre, w, old, post, e, hw⟩ := h
  cases pre with
  | nil =>
    simp only [List.nil_append, List.cons.injEq] at e
    exact .inr ⟨e.1 ▸ hw, old, post, e.2⟩
  | cons y pre =>
    simp only [List.cons_append, List.cons.injEq] at e
    exact .inl ⟨pre, w, old, post, e.2, hw⟩

theorem edgeIn_rehead {x x' : Ctl} {c : List Ctl} {p u : Nat} (h : edgeIn (x :: c) p u)
    (hx : ∀ r, isWait x r → isWait x' r) : edgeIn (x' :: c) p u := by
  rcases edgeIn_cons_inv h with h | ⟨hw, old, post, e⟩
  · exact edgeIn_cons x' h
  · rw [e]; exact edgeIn_head old post (hx u hw)

theorem edgeIn_nil {p u : Nat} : ¬ edgeIn [] p u := by
  rintro ⟨pre, w, old, post, e, _⟩
  cases pre <;> cases e

theorem mem_gens_cons_gen {t u : Nat} {o : Option Nat} {c : List Ctl} :
    u ∈ P2.gens (.gen t o :: c) ↔ u = t ∨ u ∈ P2.gens c := by simp [P2.gens]

theorem gens_waitEnter (r : Nat) (c : List Ctl) : P2.gens (.waitEnter r :: c) = P2.gens c := rfl
theorem gens_waitLoop (r b : Nat) (c : List Ctl) : P2.gens (.waitLoop r b :: c) = P2.gens c := rfl
theorem gens_gen (t : Nat) (o : Option Nat) (c : List Ctl) : P2.gens (.gen t o :: c) = t :: P2.gens c := rfl

theorem gens_append (a b : List Ctl) : P2.gens (a ++ b) = P2.gens a ++ P2.gens b := by
  induction a with
  | nil => rfl
  | cons x a ih => cases x <;> simp [P2.gens, ih]

theorem edgeIn_gens {c : List Ctl} {p u : Nat} (h : edgeIn c p u) : p ∈ P2.gens c := by
  obtain ⟨pre, w, old, post, e, hw⟩ := h
  rw [e, gens_append]
  refine List.mem_append_right _ ?_
  rcases hw with rfl | ⟨b, rfl⟩ <;> simp [P2.gens]

/-- the task of the innermost generator frame is not the caller of a nested `wait_for` -/
theorem not_edgeIn_head {t : Nat} {old : Option Nat} {rest : List Ctl} (hn : (P2.gens (.gen t old :: rest)).Nodup)
    {u : Nat} : ¬ edgeIn (.gen t old :: rest) t u := by
  intro h
  rcases edgeIn_cons_inv h with h | ⟨hw, _⟩
  · have := edgeIn_gens h
    rw [gens_gen, List.nodup_cons] at hn
    exact hn.1 this
  · exact isWait_not_gen hw

theorem root_of_isWait {w : Ctl} {u : Nat} (h : isWait w u) : P10.node w = u := by
  rcases h with rfl | ⟨b, rfl⟩ <;> rfl

/-- the root of a nested `wait_for` precedes the task that called it -/
theorem edgeIn_lt {s : State} (hch : s.ctl.Pairwise (P10.nest s)) {p u : Nat} (h : edgeIn s.ctl p u) : P10.lt s u p := by
  obtain ⟨pre, w, old, post, e, hw⟩ := h
  rw [e] at hch
  have h1 := (List.pairwise_append.1 hch).2.1
  have h2 : P10.nest s w (.gen p old) := (List.pairwise_cons.1 h1).1 _ List.mem_cons_self
  rcases hw with rfl | ⟨b, rfl⟩ <;> simpa only [P10.nest, P10.node] using h2

/-! ### links -/

/-- `p` is the parent of stack entry `a` -/
def Link (s : State) (p a : Nat) : Prop :=
  (s.fut p).kind = .task ∧
  ((s.computed p = false ∧ (s.task p).pending = true ∧ a ∈ (s.task p).deps) ∨ syncEdge s p a)

theorem Link.awaits {s : State} {p a : Nat} (h : Link s p a) : awaits s p a := by
  rcases h.2 with ⟨h1, h2, h3⟩ | h
  · exact .inl ⟨h1, h2, .inr h3⟩
  · exact .inr h

theorem Link.lt {s : State} (hi : P10.HInv s) (hch : s.ctl.Pairwise (P10.nest s)) {p a : Nat} (h : Link s p a) :
    P10.lt s a p := by
  rcases h.2 with ⟨_, _, h3⟩ | h
  · exact hi.named_lt (hi.deps p a h3)
  · exact edgeIn_lt hch h.2.2

/-- a link survives a transition that does not change its parent and keeps the `wait_for` frame on the parent's
    generator frame -/
theorem Link.transfer {X : Nat → Prop} {s r : State} (hp : Hp X s r) {p a : Nat} (hx : ¬ X p)
    (he : edgeIn s.ctl p a → edgeIn r.ctl p a) (h : Link s p a) : Link r p a := by
  have hk := h.1
  obtain ⟨e, hc⟩ := hp.task p hx hk
  refine ⟨by rw [hp.kind p (lt_of_kind_task s p hk)]; exact hk, ?_⟩
  rcases h.2 with ⟨h1, h2, h3⟩ | ⟨⟨k, hh, hb⟩, h2, h3⟩
  · exact .inl ⟨by rw [hc]; exact h1, by rw [e.pending]; exact h2, by rw [e.deps]; exact h3⟩
  · exact .inr ⟨⟨k, hh, by rw [e.body]; exact hb⟩, by rw [e.pending]; exact h2, he h3⟩

/-! ### the labelled stack -/

def Lab (s : State) : List (Nat × Nat) → Prop
  | [] => True
  | [(r, p)] => p = r
  | (a, pa) :: (b, pb) :: rest => Link s pa a ∧ (pa = b ∨ pa = pb) ∧ Lab s ((b, pb) :: rest)

theorem Lab.tail {s : State} {x : Nat × Nat} {L : List (Nat × Nat)} (h : Lab s (x :: L)) : Lab s L := by
  cases L with
  | nil => trivial
  | cons y L => obtain ⟨a, pa⟩ := x; obtain ⟨b, pb⟩ := y; exact h.2.2

/-- the parent of the top entry waits for it, and every label waits for that parent -/
theorem Lab.star {s : State} : ∀ (L : List (Nat × Nat)), Lab s L → ∀ e0 p0 rest, L = (e0, p0) :: rest →
    awaitsStar s p0 e0 ∧ ∀ x ∈ L, awaitsStar s x.2 p0
  | [], _, _, _, _, e => by cases e
  | [(r, p)], h, e0, p0, rest, e => by
    simp only [List.cons.injEq, Prod.mk.injEq] at e
    obtain ⟨⟨rfl, rfl⟩, _⟩ := e
    have h' : p = r := h
    subst h'
    exact ⟨.refl _, fun x hx => by simp at hx; subst hx; exact .refl _⟩
  | (a, pa) :: (b, pb) :: rest', h, e0, p0, rest, e => by
    simp only [List.cons.injEq, Prod.mk.injEq] at e
    obtain ⟨⟨rfl, rfl⟩, _⟩ := e
    obtain ⟨hl, hadj, ht⟩ := h
    obtain ⟨ih1, ih2⟩ := Lab.star ((b, pb) :: rest') ht b pb rest' rfl
    refine ⟨.single hl.awaits, ?_⟩
    intro x hx
    rcases List.mem_cons.1 hx with rfl | hx
    · exact .refl _
    · have h3 := ih2 x hx
      rcases hadj with rfl | rfl
      · exact h3.trans ih1
      · exact h3

/-- every label waits for the entry on top of the stack -/
theorem Lab.star_top {s : State} {L : List (Nat × Nat)} (h : Lab s L) {e0 p0 : Nat} {rest : List (Nat × Nat)}
    (e : L = (e0, p0) :: rest) {q : Nat} (hq : q ∈ L.map Prod.snd) : awaitsStar s q e0 := by
  obtain ⟨h1, h2⟩ := Lab.star L h e0 p0 rest e
  obtain ⟨x, hx, rfl⟩ := List.mem_map.1 hq
  exact (h2 x hx).trans h1

/-- the entry precedes-or-equals its label -/
theorem Lab.head_le {s : State} (hlt : ∀ p a, Link s p a → P10.lt s a p) {b pb : Nat} {rest : List (Nat × Nat)}
    (h : Lab s ((b, pb) :: rest)) : P10.le s b pb := by
  cases rest with
  | nil => have h' : pb = b := h; exact Or.inl h'.symm
  | cons y rest => obtain ⟨c, pc⟩ := y; exact (hlt pb b h.1).le

/-- the labels grow from the top of the stack downwards -/
theorem Lab.mono {s : State} (hlt : ∀ p a, Link s p a → P10.lt s a p) : ∀ (L : List (Nat × Nat)), Lab s L →
    ∀ e0 p0 rest, L = (e0, p0) :: rest → ∀ x ∈ L, P10.le s p0 x.2
  | [], _, _, _, _, e => by cases e
  | [(r, p)], _, e0, p0, rest, e => by
    simp only [List.cons.injEq, Prod.mk.injEq] at e
    obtain ⟨⟨rfl, rfl⟩, _⟩ := e
    intro x hx; simp at hx; subst hx; exact P10.le_refl _ _
  | (a, pa) :: (b, pb) :: rest', h, e0, p0, rest, e => by
    simp only [List.cons.injEq, Prod.mk.injEq] at e
    obtain ⟨⟨rfl, rfl⟩, _⟩ := e
    obtain ⟨hl, hadj, ht⟩ := h
    have ih := Lab.mono hlt ((b, pb) :: rest') ht b pb rest' rfl
    intro x hx
    rcases List.mem_cons.1 hx with rfl | hx
    · exact P10.le_refl _ _
    · have h3 := ih x hx
      rcases hadj with rfl | rfl
      · exact P10.le_trans (Lab.head_le hlt ht) h3
      · exact h3

/-- with at least two entries: the top entry strictly precedes every label -/
theorem Lab.top_lt {s : State} (hlt : ∀ p a, Link s p a → P10.lt s a p) {a pa : Nat} {y : Nat × Nat}
    {rest : List (Nat × Nat)} (h : Lab s ((a, pa) :: y :: rest)) {q : Nat}
    (hq : q ∈ ((a, pa) :: y :: rest).map Prod.snd) : P10.lt s a q := by
  obtain ⟨x, hx, rfl⟩ := List.mem_map.1 hq
  have h1 : P10.lt s a pa := by obtain ⟨b, pb⟩ := y; exact hlt pa a h.1
  exact P10.lt_le_trans h1 (Lab.mono hlt _ h a pa (y :: rest) rfl x hx)

theorem Lab.transfer {s r : State} : ∀ (L : List (Nat × Nat)), Lab s L →
    (∀ q ∈ L.map Prod.snd, ∀ a, Link s q a → Link r q a) → Lab r L
  | [], _, _ => trivial
  | [(_, _)], h, _ => h
  | (a, pa) :: (b, pb) :: rest, h, ht => by
    refine ⟨ht pa (by simp) a h.1, h.2.1, Lab.transfer ((b, pb) :: rest) h.2.2 ?_⟩
    intro q hq
    exact ht q (by simp only [List.map_cons, List.mem_cons] at hq ⊢; exact .inr hq)

/-- transfer when only the task on top of the stack may change -/
theorem Lab.transfer_top {X : Nat → Prop} {s r : State} (hi : P10.HInv s) (hch : s.ctl.Pairwise (P10.nest s))
    (hp : Hp X s r) {L : List (Nat × Nat)} (h : Lab s L) (hst : L.map Prod.fst = s.stack)
    (hX : ∀ p, X p → s.stack.head? = some p)
    (he : ∀ p u, s.stack.head? ≠ some p → edgeIn s.ctl p u → edgeIn r.ctl p u) : Lab r L := by
  have hlt : ∀ p a, Link s p a → P10.lt s a p := fun p a hl => hl.lt hi hch
  match L, h, hst with
  | [], _, _ => trivial
  | [(_, _)], h, _ => exact h
  | (a, pa) :: y :: rest, h, hst =>
    refine Lab.transfer _ h ?_
    intro q hq a' hl
    have hqa : P10.lt s a q := Lab.top_lt hlt h hq
    have hne : s.stack.head? ≠ some q := by
      rw [← hst]
      simp only [List.map_cons, List.head?_cons, ne_eq, Option.some.injEq]
      intro e; subst e; exact hi.irrefl _ hqa
    exact hl.transfer hp (fun hx => hne (hX q hx)) (he q a' hne)

end AsynqModel.Core.P12
